/-
C03 on NESTED BLOCKS — ALL the line-level freedoms together: every spelling of a block tree converges on its canonical text.

A block tree is a `TNode` forest (`Lemmas/BlockLex`: `KEY::scalar` lines and `KEY:` blocks, ANY depth and width, empty blocks
included).  A SPELLING (`SNode`, `Lemmas/TreeSpellParse`) chooses, independently

  * per block:  the indentation width `w ≥ 1` of its children, in spaces, RELATIVE to the block's own header
                (2 = canonical, 4 = "4-space", any mix); trailing spaces after `KEY:`; any number of blank lines after the
                header (each empty or holding spaces);
  * per node:   extra indentation `x` relative to its siblings' base — the FIRST child of a block sits at the base, later
                children may be written deeper, as long as the next line closes the blocks that are open (`forestOk`, the
                exact class of the reader, stated in `Lemmas/TreeSpellParse`; every uniform spelling — `x = 0` everywhere —
                is in it: `topOk_of_uniform`);
  * per line:   an `LSpell` (`Lemmas/FlatSpell`): spaces before and after `::`, trailing spaces, blank lines after the line
                (each empty or holding spaces — also in front of a dedent), a bare word written in quotes, a quoted string
                written with triple quotes (any one-line body that denotes it).

and for the frame (`…_framed` theorems, `DSpell` of `Lemmas/FlatSpell`): trailing spaces / blank lines after the envelope line,
`===END===` followed by trailing spaces, with or without its newline, blank lines after it, or omitted (not: indented).
`Props/C03indent` is the special case "widths only" with the parser's side condition (`colsOk`) stated at arbitrary positions.

Proved for EVERY tree and EVERY spelling:
  * `C03_tree_spelled_lexes`          the lexer reads the text as exactly `sdocToks` (both modes);
  * `C03_tree_spelled_read`           `parse` and `parse_with_warnings` return the document `sdoc` (nodes at their keys);
  * `C03_tree_spelled_same_document`  it is the same document up to positions (`treeMatches` with the erased tree);
  * `C03_tree_spelled_converge`       both canonicalisers return `treeDocText name (eraseList nodes)`;
  * `C03_tree_spellings_agree`, `C03_tree_spelled_vs_canonical`;
  * `C03_tree_spelled_receipts`       the normalisation receipts are exactly one per triple-quoted value;
  * `C03_tree_framed_read` / `…_converge` / `…_spellings_agree`   the same with a spelled frame;
  * `sdocText_canon`, `fdocText_canon`, `sdocText_ofI`   the canonical text and the indentation spellings of `Props/C03indent`
                                      are members of the family.
Hypotheses: as `C03_tree_indent_converge` (`isEnvName`, `name ≠ "END"`, `treeOK`, `treeEmitOK`, first top-level key not `META`,
NFC leaves the lines of the spelled text alone) with `topOk nodes` (the indentation class) in place of "every `w ≥ 1`".
-/
import Octave.Lemmas.TreeSpellLex
import Octave.Lemmas.IndentSpell
import Octave.Props.C03flat
import Octave.Props.C01tree
namespace Octave.C03
open Octave Lexer Emitter Spell SpellParse TreeSpell

/-- **the lexer on every spelling of a block tree.** -/
theorem C03_tree_spelled_lexes (env : Env) (lenient : Bool) (name : Str) (nodes : List SNode)
    (hn : isEnvName name = true) (hne : name ≠ "END".toList) (hok : treeOK (TreeSpell.eraseList nodes))
    (hnfc : ∀ l ∈ splitLines (sdocText name nodes), env.nfc l = l) :
    tokenize env (sdocText name nodes) lenient
      = .ok (sdocToks (treeFrame name (heightList nodes)) name 2 nodes, (srepsRev 0 2 nodes).reverse) :=
  tokenize_stree env lenient name nodes hn hne hok hnfc

/-- **every spelling is read as `sdoc`**, by the strict and by the lenient entry point. -/
theorem C03_tree_spelled_read (env : Env) (name : Str) (nodes : List SNode)
    (hn : isEnvName name = true) (hne : name ≠ "END".toList) (hok : treeOK (TreeSpell.eraseList nodes))
    (hw : TreeSpell.topOk nodes = true) (hm : firstKeyIsMeta (TreeSpell.eraseList nodes) = false)
    (hnfc : ∀ l ∈ splitLines (sdocText name nodes), env.nfc l = l) :
    Parser.parse env (sdocText name nodes) = .ok (sdoc name 2 nodes) ∧
    ∃ ws, Parser.parseWithWarnings env (sdocText name nodes) = .ok (sdoc name 2 nodes, (srepsRev 0 2 nodes).reverse, ws) := by
  have hs := stripFrontmatter_sdoc env name nodes
  have hlex : Lexer.tokenize env (Parser.stripFrontmatter env (sdocText name nodes)).1 false
      = .ok (sdocToks (treeFrame name (heightList nodes)) name 2 nodes, (srepsRev 0 2 nodes).reverse) := by
    rw [hs]; exact tokenize_stree env false name nodes hn hne hok hnfc
  constructor
  · obtain ⟨st', h1⟩ := parseDocument_stree (treeFrame name (heightList nodes)) name 2 nodes
      (Parser.initState env (sdocToks (treeFrame name (heightList nodes)) name 2 nodes) true) hm hw rfl
    rw [C02.parse_eq_parseToks env _ _ _ hlex, hs]
    unfold C02.parseToks
    simp only [StateT.run, h1, bind, Except.bind, pure, Except.pure, Except.map]
    rfl
  · obtain ⟨st', h1⟩ := parseDocument_stree (treeFrame name (heightList nodes)) name 2 nodes
      (Parser.initState env (sdocToks (treeFrame name (heightList nodes)) name 2 nodes) false) hm hw rfl
    refine ⟨st'.warnings.reverse, ?_⟩
    rw [C02.parseWithWarnings_eq_parseToks env _ _ _ hlex, hs]
    unfold C02.parseToksWithWarnings
    simp only [StateT.run, h1, bind, Except.bind, pure, Except.pure, Except.map]
    rfl

/-- **… as the SAME document, up to positions**: the name; sections that carry exactly the erased tree; nothing else. -/
theorem C03_tree_spelled_same_document (env : Env) (name : Str) (nodes : List SNode)
    (hn : isEnvName name = true) (hne : name ≠ "END".toList) (hok : treeOK (TreeSpell.eraseList nodes))
    (hw : TreeSpell.topOk nodes = true) (hm : firstKeyIsMeta (TreeSpell.eraseList nodes) = false)
    (hnfc : ∀ l ∈ splitLines (sdocText name nodes), env.nfc l = l) :
    ∃ d' reps warns, Parser.parse env (sdocText name nodes) = .ok d' ∧
      Parser.parseWithWarnings env (sdocText name nodes) = .ok (d', reps, warns) ∧
      d'.name = name ∧ d'.metaKv = [] ∧ d'.hasSeparator = false ∧ d'.trailingComments = [] ∧ d'.grammarVersion = none ∧
      d'.rawFrontmatter = none ∧ treeMatches (TreeSpell.eraseList nodes) d'.sections := by
  obtain ⟨h1, ws, h2⟩ := C03_tree_spelled_read env name nodes hn hne hok hw hm hnfc
  exact ⟨_, _, _, h1, h2, rfl, rfl, rfl, rfl, rfl, rfl, snodes_matches nodes 0 2⟩

/-- **C03 on nested blocks: every spelling canonicalises to the canonical text** of the tree it spells. -/
theorem C03_tree_spelled_converge (env : Env) (name : Str) (nodes : List SNode)
    (hn : isEnvName name = true) (hne : name ≠ "END".toList) (hok : treeOK (TreeSpell.eraseList nodes))
    (hem : treeEmitOK (TreeSpell.eraseList nodes)) (hw : TreeSpell.topOk nodes = true)
    (hm : firstKeyIsMeta (TreeSpell.eraseList nodes) = false)
    (hnfc : ∀ l ∈ splitLines (sdocText name nodes), env.nfc l = l) :
    canonStrict env (sdocText name nodes) = .ok (treeDocText name (TreeSpell.eraseList nodes)) ∧
    canonLenient env (sdocText name nodes) = .ok (treeDocText name (TreeSpell.eraseList nodes)) := by
  obtain ⟨h1, ws, h2⟩ := C03_tree_spelled_read env name nodes hn hne hok hw hm hnfc
  exact canon_of_read env _ _ _ _ _ h1 h2
    (emit_tree_matches env name (TreeSpell.eraseList nodes) _ (snodes_matches nodes 0 2) hem)

/-- **any two spellings of the same tree canonicalise to identical bytes**, the canonical text. -/
theorem C03_tree_spellings_agree (env : Env) (name : Str) (s₁ s₂ : List SNode)
    (hsame : TreeSpell.eraseList s₁ = TreeSpell.eraseList s₂)
    (hn : isEnvName name = true) (hne : name ≠ "END".toList) (hok : treeOK (TreeSpell.eraseList s₁))
    (hem : treeEmitOK (TreeSpell.eraseList s₁)) (hm : firstKeyIsMeta (TreeSpell.eraseList s₁) = false)
    (hw₁ : TreeSpell.topOk s₁ = true) (hw₂ : TreeSpell.topOk s₂ = true)
    (hnfc₁ : ∀ l ∈ splitLines (sdocText name s₁), env.nfc l = l)
    (hnfc₂ : ∀ l ∈ splitLines (sdocText name s₂), env.nfc l = l) :
    canonStrict env (sdocText name s₁) = canonStrict env (sdocText name s₂) ∧
    canonLenient env (sdocText name s₁) = canonLenient env (sdocText name s₂) ∧
    canonLenient env (sdocText name s₁) = .ok (treeDocText name (TreeSpell.eraseList s₁)) := by
  have h1 := C03_tree_spelled_converge env name s₁ hn hne hok hem hw₁ hm hnfc₁
  have h2 := C03_tree_spelled_converge env name s₂ hn hne (hsame ▸ hok) (hsame ▸ hem) hw₂ (hsame ▸ hm) hnfc₂
  rw [← hsame] at h2
  exact ⟨by rw [h1.1, h2.1], by rw [h1.2, h2.2], h1.2⟩

/-! ### the canonical text is the spelling with every freedom switched off -/

mutual
def canonS : TNode → SNode
  | .line ln => .line 0 ln LSpell.canon
  | .block key cs => .block 0 key 2 0 [] (canonSList cs)
def canonSList : List TNode → List SNode
  | [] => []
  | n :: ns => canonS n :: canonSList ns
end

mutual
theorem erase_canonS : ∀ (n : TNode), (canonS n).erase = n
  | .line _ => rfl
  | .block key cs => by simp only [canonS, SNode.erase, erase_canonSList cs]
theorem erase_canonSList : ∀ (ns : List TNode), TreeSpell.eraseList (canonSList ns) = ns
  | [] => rfl
  | n :: ns => by simp only [canonSList, TreeSpell.eraseList, erase_canonS n, erase_canonSList ns]
end

mutual
/-- a UNIFORM spelling: no node over-indented, every width positive (the class of `Props/C03indent`, plus line freedoms). -/
def uniformNode : SNode → Bool
  | .line x _ _ => x == 0
  | .block x _ w _ _ cs => (x == 0) && decide (0 < w) && uniformList cs
def uniformList : List SNode → Bool
  | [] => true
  | c :: cs => uniformNode c && uniformList cs
end

theorem uniformNode_x (c : SNode) (h : uniformNode c = true) : c.x = 0 := by
  cases c <;> simp_all [uniformNode, SNode.x]

theorem uniform_headX0 (cs : List SNode) (h : uniformList cs = true) : headX0 cs = true := by
  cases cs with
  | nil => rfl
  | cons c cs =>
    simp only [uniformList, Bool.and_eq_true] at h
    simp [headX0, uniformNode_x c h.1]

theorem uniform_allX0 : ∀ (cs : List SNode), uniformList cs = true → allX0 cs = true
  | [], _ => rfl
  | c :: cs, h => by
    simp only [uniformList, Bool.and_eq_true] at h
    simp [allX0, uniformNode_x c h.1, uniform_allX0 cs h.2]

theorem nextInd_le (b : Nat) (cs : List SNode) (nx : Nat) (h : uniformList cs = true) (hnx : nx ≤ b) : nextInd b cs nx ≤ b := by
  cases cs with
  | nil => exact hnx
  | cons c cs =>
    simp only [uniformList, Bool.and_eq_true] at h
    simp [nextInd, uniformNode_x c h.1]

mutual
/-- a uniform node followed by a line that is not deeper is in the class. -/
theorem ok_of_uniform : ∀ (c : SNode) (q nx : Nat), uniformNode c = true → nx ≤ q → c.ok q nx = true
  | .line _ _ _, _, _, _, _ => rfl
  | .block x key w tr bl cs, q, nx, h, hnx => by
    simp only [uniformNode, Bool.and_eq_true, decide_eq_true_eq] at h
    simp only [SNode.ok]
    split
    · simpa using hnx
    · simp only [Bool.and_eq_true, decide_eq_true_eq]
      exact ⟨⟨⟨h.1.2, by omega⟩, uniform_headX0 cs h.2⟩, forestOk_of_uniform cs (q + w) nx h.2 (by omega)⟩
theorem forestOk_of_uniform : ∀ (cs : List SNode) (b nx : Nat), uniformList cs = true → nx ≤ b → forestOk cs b nx = true
  | [], _, _, _, _ => rfl
  | c :: cs, b, nx, h, hnx => by
    simp only [uniformList, Bool.and_eq_true] at h
    simp only [forestOk, Bool.and_eq_true, uniformNode_x c h.1, Nat.add_zero]
    exact ⟨ok_of_uniform c b _ h.1 (nextInd_le b cs nx h.2 hnx), forestOk_of_uniform cs b nx h.2 hnx⟩
end

/-- **every uniform spelling is in the class.** -/
theorem topOk_of_uniform (nodes : List SNode) (h : uniformList nodes = true) : TreeSpell.topOk nodes = true := by
  simp only [TreeSpell.topOk, Bool.and_eq_true]
  exact ⟨uniform_allX0 nodes h, forestOk_of_uniform nodes 0 0 h (Nat.le_refl _)⟩

mutual
theorem uniform_canonS : ∀ (n : TNode), uniformNode (canonS n) = true
  | .line _ => rfl
  | .block key cs => by simp [canonS, uniformNode, uniform_canonSList cs]
theorem uniform_canonSList : ∀ (ns : List TNode), uniformList (canonSList ns) = true
  | [] => rfl
  | n :: ns => by simp [canonSList, uniformList, uniform_canonS n, uniform_canonSList ns]
end

theorem topOk_canonSList (ns : List TNode) : TreeSpell.topOk (canonSList ns) = true :=
  topOk_of_uniform _ (uniform_canonSList ns)

theorem canonS_x (n : TNode) : (canonS n).x = 0 := uniformNode_x _ (uniform_canonS n)

theorem lineText_canon_spaces (ln : FLine) (d : Nat) (rest : Str) :
    lineText ln (withInd LSpell.canon d) rest = List.replicate d ' ' ++ (ln.text ++ ['\n']) ++ rest := by
  have h := spellVal_canon_text ln.v
  have h' : (spellVal ln.v (withInd LSpell.canon d)).text = ln.v.text := by
    rw [← h]; cases ln.v <;> rfl
  simp only [lineText, lineBody, lineCore, withInd, LSpell.canon, spaces, blanksText, FLine.text, List.replicate_zero,
    List.nil_append, List.append_nil, List.append_assoc, List.cons_append] at h' ⊢
  rw [h']

theorem lineText_canon_ind (ln : FLine) (d : Nat) (rest : Str) :
    lineText ln (withInd LSpell.canon (2 * d)) rest = indentStr d ++ (ln.text ++ ['\n']) ++ rest :=
  lineText_canon_spaces ln (2 * d) rest

mutual
theorem text_canonS : ∀ (n : TNode) (d : Nat) (rest : Str), (canonS n).text (2 * d) rest = n.text d ++ rest
  | .line ln, d, rest => by simp only [canonS, SNode.text, TNode.text, lineText_canon_ind]
  | .block key cs, d, rest => by
    have h := text_canonSList cs (d + 1) rest
    rw [show 2 * (d + 1) = 2 * d + 2 by omega] at h
    simp only [canonS, SNode.text, TNode.text, spaces, indentStr, blanksText, h, List.replicate_zero, List.nil_append,
      List.append_assoc, List.cons_append]
theorem text_canonSList : ∀ (ns : List TNode) (d : Nat) (rest : Str), stext (2 * d) (canonSList ns) rest = treeText d ns ++ rest
  | [], _, _ => rfl
  | n :: ns, d, rest => by
    simp only [canonSList, stext, canonS_x, Nat.add_zero, treeText, text_canonS n d, text_canonSList ns d rest, List.append_assoc]
end

/-- **the canonical text is the spelling with every freedom switched off.** -/
theorem sdocText_canon (name : Str) (nodes : List TNode) : sdocText name (canonSList nodes) = treeDocText name nodes := by
  have := text_canonSList nodes 0 ("===END===".toList ++ ['\n'])
  simp only [Nat.mul_zero] at this
  simp only [sdocText, treeDocText, this, List.append_assoc]

/-- every spelling canonicalises to the same bytes as the canonical text itself. -/
theorem C03_tree_spelled_vs_canonical (env : Env) (name : Str) (nodes : List SNode)
    (hn : isEnvName name = true) (hne : name ≠ "END".toList) (hok : treeOK (TreeSpell.eraseList nodes))
    (hem : treeEmitOK (TreeSpell.eraseList nodes)) (hw : TreeSpell.topOk nodes = true)
    (hm : firstKeyIsMeta (TreeSpell.eraseList nodes) = false)
    (hnfc : ∀ l ∈ splitLines (sdocText name nodes), env.nfc l = l)
    (hnfc0 : ∀ l ∈ splitLines (treeDocText name (TreeSpell.eraseList nodes)), env.nfc l = l) :
    canonLenient env (sdocText name nodes) = canonLenient env (treeDocText name (TreeSpell.eraseList nodes)) ∧
    canonStrict env (sdocText name nodes) = canonStrict env (treeDocText name (TreeSpell.eraseList nodes)) := by
  have h0 := sdocText_canon name (TreeSpell.eraseList nodes)
  have he := erase_canonSList (TreeSpell.eraseList nodes)
  have := C03_tree_spellings_agree env name nodes (canonSList (TreeSpell.eraseList nodes)) he.symm hn hne hok hem hm hw
    (topOk_canonSList _) hnfc (by rw [h0]; exact hnfc0)
  rw [h0] at this
  exact ⟨this.2.1, this.1⟩

/-! ### … in every spelling of the frame -/

/-- **every spelling of the tree in every spelling of the frame** (`DSpell` of `FlatSpell`: trailing spaces and blank lines
after the envelope line; `===END===` followed by trailing spaces, with or without its newline, blank lines after it — or
omitted altogether) **is read as `sdoc`** by both entry points.  `===END===` is not indented here (`hds`): after a block an
indented `===END===` has its INDENT token swallowed by the block's child loop — the result is the same (see the examples), but
the token accounting of the parser half does not cover it. -/
theorem C03_tree_framed_read (env : Env) (name : Str) (nodes : List SNode) (ds : DSpell)
    (hn : isEnvName name = true) (hne : name ≠ "END".toList) (hok : treeOK (TreeSpell.eraseList nodes))
    (hw : TreeSpell.topOk nodes = true) (hm : firstKeyIsMeta (TreeSpell.eraseList nodes) = false) (hds : ds.endIndent = 0)
    (hnfc : ∀ l ∈ splitLines (fdocText name nodes ds), env.nfc l = l) :
    Parser.parse env (fdocText name nodes ds) = .ok (sdoc name (firstLine ds) nodes) ∧
    ∃ ws, Parser.parseWithWarnings env (fdocText name nodes ds)
      = .ok (sdoc name (firstLine ds) nodes, (srepsRev 0 (firstLine ds) nodes).reverse, ws) := by
  have hs := stripFrontmatter_fdoc env name nodes ds
  obtain ⟨e, tail, he, hlex0⟩ := tokenize_framed env false name nodes ds hn hne hok hds hnfc
  have hlex : Lexer.tokenize env (Parser.stripFrontmatter env (fdocText name nodes ds)).1 false
      = .ok (fdocToks name 1 1 (1, 1 + (name.length + 6) + ds.envTrail) (blankPos 2 ds.envBlank) (firstLine ds) nodes e tail,
             (srepsRev 0 (firstLine ds) nodes).reverse) := by
    rw [hs]; exact hlex0
  constructor
  · obtain ⟨st', h1⟩ := parseDocument_framed name 1 1 _ _ (firstLine ds) nodes e tail he
      (Parser.initState env (fdocToks name 1 1 (1, 1 + (name.length + 6) + ds.envTrail) (blankPos 2 ds.envBlank) (firstLine ds) nodes e tail) true)
      hm hw rfl
    rw [C02.parse_eq_parseToks env _ _ _ hlex, hs]
    unfold C02.parseToks
    simp only [StateT.run, h1, bind, Except.bind, pure, Except.pure, Except.map]
    rfl
  · obtain ⟨st', h1⟩ := parseDocument_framed name 1 1 _ _ (firstLine ds) nodes e tail he
      (Parser.initState env (fdocToks name 1 1 (1, 1 + (name.length + 6) + ds.envTrail) (blankPos 2 ds.envBlank) (firstLine ds) nodes e tail) false)
      hm hw rfl
    refine ⟨st'.warnings.reverse, ?_⟩
    rw [C02.parseWithWarnings_eq_parseToks env _ _ _ hlex, hs]
    unfold C02.parseToksWithWarnings
    simp only [StateT.run, h1, bind, Except.bind, pure, Except.pure, Except.map]
    rfl

/-- **C03 on nested blocks, frame included: every spelling canonicalises to the canonical text.** -/
theorem C03_tree_framed_converge (env : Env) (name : Str) (nodes : List SNode) (ds : DSpell)
    (hn : isEnvName name = true) (hne : name ≠ "END".toList) (hok : treeOK (TreeSpell.eraseList nodes))
    (hem : treeEmitOK (TreeSpell.eraseList nodes)) (hw : TreeSpell.topOk nodes = true)
    (hm : firstKeyIsMeta (TreeSpell.eraseList nodes) = false) (hds : ds.endIndent = 0)
    (hnfc : ∀ l ∈ splitLines (fdocText name nodes ds), env.nfc l = l) :
    canonStrict env (fdocText name nodes ds) = .ok (treeDocText name (TreeSpell.eraseList nodes)) ∧
    canonLenient env (fdocText name nodes ds) = .ok (treeDocText name (TreeSpell.eraseList nodes)) := by
  obtain ⟨h1, ws, h2⟩ := C03_tree_framed_read env name nodes ds hn hne hok hw hm hds hnfc
  exact canon_of_read env _ _ _ _ _ h1 h2
    (emit_tree_matches env name (TreeSpell.eraseList nodes) _ (snodes_matches nodes 0 (firstLine ds)) hem)

/-- any two spellings (tree and frame) of the same tree canonicalise to identical bytes. -/
theorem C03_tree_framed_spellings_agree (env : Env) (name : Str) (s₁ s₂ : List SNode) (ds₁ ds₂ : DSpell)
    (hsame : TreeSpell.eraseList s₁ = TreeSpell.eraseList s₂)
    (hn : isEnvName name = true) (hne : name ≠ "END".toList) (hok : treeOK (TreeSpell.eraseList s₁))
    (hem : treeEmitOK (TreeSpell.eraseList s₁)) (hm : firstKeyIsMeta (TreeSpell.eraseList s₁) = false)
    (hw₁ : TreeSpell.topOk s₁ = true) (hw₂ : TreeSpell.topOk s₂ = true)
    (hds₁ : ds₁.endIndent = 0) (hds₂ : ds₂.endIndent = 0)
    (hnfc₁ : ∀ l ∈ splitLines (fdocText name s₁ ds₁), env.nfc l = l)
    (hnfc₂ : ∀ l ∈ splitLines (fdocText name s₂ ds₂), env.nfc l = l) :
    canonStrict env (fdocText name s₁ ds₁) = canonStrict env (fdocText name s₂ ds₂) ∧
    canonLenient env (fdocText name s₁ ds₁) = canonLenient env (fdocText name s₂ ds₂) := by
  have h1 := C03_tree_framed_converge env name s₁ ds₁ hn hne hok hem hw₁ hm hds₁ hnfc₁
  have h2 := C03_tree_framed_converge env name s₂ ds₂ hn hne (hsame ▸ hok) (hsame ▸ hem) hw₂ (hsame ▸ hm) hds₂ hnfc₂
  rw [← hsame] at h2
  exact ⟨by rw [h1.1, h2.1], by rw [h1.2, h2.2]⟩

/-- the canonical frame is the frame with every freedom switched off. -/
theorem fdocText_canon (name : Str) (nodes : List SNode) : fdocText name nodes DSpell.canon = sdocText name nodes := by
  simp [fdocText, frontText, sdocText, DSpell.canon, endText, spaces, blanksText, slinesText]


/-! ### receipts: exactly one normalisation receipt per triple-quoted value -/

mutual
/-- the normalisation receipts expected: one per value written with triple quotes, at the value's own line and column. -/
def nodeTriples (d l : Nat) : SNode → List Repair
  | .line _ ln sp => tripleReceipts l [(ln, withInd sp d)]
  | .block _ _ w _ bl cs => forestTriples (d + w) (l + (1 + bl.length)) cs
def forestTriples (d l : Nat) : List SNode → List Repair
  | [] => []
  | c :: cs => nodeTriples (d + c.x) l c ++ forestTriples d (l + c.height) cs
end

theorem lineReps_normalization (ln : FLine) (sp : LSpell) (l : Nat) :
    (lineRepsRev ln sp l).reverse.filter isNormalization = tripleReceipts l [(ln, sp)] := by
  have := slinesReps_normalization [(ln, sp)] l
  simpa [slinesRepsRev] using this

mutual
theorem nodeReps_normalization : ∀ (c : SNode) (d l : Nat), (c.repsRev d l).reverse.filter isNormalization = nodeTriples d l c
  | .line xo ln sp, d, l => by simp only [SNode.repsRev, nodeTriples, lineReps_normalization]
  | .block xo key w tr bl cs, d, l => by
    simp only [SNode.repsRev, nodeTriples, List.reverse_append, List.reverse_reverse, List.filter_append,
      identifierRepairs_filter, List.nil_append, forestReps_normalization cs (d + w) (l + (1 + bl.length))]
theorem forestReps_normalization : ∀ (cs : List SNode) (d l : Nat), (srepsRev d l cs).reverse.filter isNormalization = forestTriples d l cs
  | [], _, _ => rfl
  | c :: cs, d, l => by
    simp only [srepsRev, forestTriples, List.reverse_append, List.filter_append, nodeReps_normalization c (d + c.x) l,
      forestReps_normalization cs d (l + c.height)]
end

/-- **receipts** (C07 on spelled trees): the normalisation receipts of the lexer on a spelled tree are exactly one per
triple-quoted value, in reading order, each with the original `"""`, the string, and the value's own line and column;
indentation widths, spaces, blank lines and quoted words leave no normalisation receipt. -/
theorem C03_tree_spelled_receipts (nodes : List SNode) :
    ((srepsRev 0 2 nodes).reverse).filter isNormalization = forestTriples 0 2 nodes :=
  forestReps_normalization nodes 0 2

/-! ### the indentation spellings of `Props/C03indent` are the spellings with only the widths switched on -/

mutual
def ofI : Indent.INode → SNode
  | .line ln => .line 0 ln LSpell.canon
  | .block key w cs => .block 0 key w 0 [] (ofIList cs)
def ofIList : List Indent.INode → List SNode
  | [] => []
  | n :: ns => ofI n :: ofIList ns
end

mutual
theorem erase_ofI : ∀ (n : Indent.INode), (ofI n).erase = n.erase
  | .line _ => rfl
  | .block key w cs => by simp only [ofI, SNode.erase, Indent.INode.erase, erase_ofIList cs]
theorem erase_ofIList : ∀ (ns : List Indent.INode), TreeSpell.eraseList (ofIList ns) = Indent.eraseList ns
  | [] => rfl
  | n :: ns => by simp only [ofIList, TreeSpell.eraseList, Indent.eraseList, erase_ofI n, erase_ofIList ns]
end

theorem ofI_x (n : Indent.INode) : (ofI n).x = 0 := by cases n <;> rfl

mutual
theorem text_ofI : ∀ (n : Indent.INode) (d : Nat) (rest : Str), (ofI n).text d rest = n.text d ++ rest
  | .line ln, d, rest => by simp only [ofI, SNode.text, Indent.INode.text, Indent.spaces, lineText_canon_spaces]
  | .block key w cs, d, rest => by
    simp only [ofI, SNode.text, Indent.INode.text, Indent.spaces, spaces, blanksText, text_ofIList cs (d + w) rest,
      List.replicate_zero, List.nil_append, List.append_assoc, List.cons_append]
theorem text_ofIList : ∀ (ns : List Indent.INode) (d : Nat) (rest : Str), stext d (ofIList ns) rest = Indent.itreeText d ns ++ rest
  | [], _, _ => rfl
  | n :: ns, d, rest => by
    simp only [ofIList, stext, ofI_x, Nat.add_zero, Indent.itreeText, text_ofI n d, text_ofIList ns d rest, List.append_assoc]
end

mutual
theorem uniform_ofI : ∀ (n : Indent.INode), n.widthsOk = true → uniformNode (ofI n) = true
  | .line _, _ => rfl
  | .block key w cs, h => by
    simp only [Indent.INode.widthsOk, Bool.and_eq_true, decide_eq_true_eq] at h
    simp [ofI, uniformNode, h.1, uniform_ofIList cs h.2]
theorem uniform_ofIList : ∀ (ns : List Indent.INode), Indent.widthsOkList ns = true → uniformList (ofIList ns) = true
  | [], _ => rfl
  | n :: ns, h => by
    simp only [Indent.widthsOkList, Bool.and_eq_true] at h
    simp [ofIList, uniformList, uniform_ofI n h.1, uniform_ofIList ns h.2]
end

/-- the class of `Props/C03indent` (every width `≥ 1`) lies inside the class of this file. -/
theorem topOk_ofIList (ns : List Indent.INode) (h : Indent.widthsOkList ns = true) : TreeSpell.topOk (ofIList ns) = true :=
  topOk_of_uniform _ (uniform_ofIList ns h)

/-- the text of an indentation spelling IS the text of the corresponding full spelling. -/
theorem sdocText_ofI (name : Str) (nodes : List Indent.INode) : sdocText name (ofIList nodes) = Indent.idocText name nodes := by
  simp only [sdocText, Indent.idocText, text_ofIList nodes 0, List.append_assoc]

/-! ### non-vacuity: three levels, widths 4 / 1 / 3, blank lines everywhere, spaces, quotes -/

/-- widths 4 (A), 1 (B), 3 (C), an empty block; `B` written 2 spaces DEEPER than its sibling `X`, `W` 3 spaces deeper than its
sibling `Y` (over-indented later siblings stay children); trailing spaces and blank lines after headers; a blank line in front
of a dedent (after `W`), whitespace-only blank lines; spaces around `::`; a quoted word; triple quotes. -/
def exS : List SNode :=
  [ .block 0 "A".toList 4 2 [0]
      [ .line 0 ⟨"X".toList, .qstr "1".toList⟩ { pre := 1, post := 2, trail := 1 },
        .block 2 "B".toList 1 0 [3, 0]
          [ .block 0 "C".toList 3 1 []
              [ .line 0 ⟨"Y".toList, .qstr "s \"t\"".toList⟩ { triple := some "s \\\"t\\\"".toList, blank := [0] },
                .line 3 ⟨"W".toList, .null⟩ { post := 1, blank := [2, 0] } ],
            .block 0 "EMPTY".toList 7 3 [0] [],
            .line 0 ⟨"V".toList, .bare "word".toList⟩ { quoteWord := true, pre := 2 } ],
        .line 0 ⟨"U".toList, .bool false⟩ { blank := [1] } ],
    .line 0 ⟨"Z".toList, .int (-3)⟩ { pre := 1, post := 1, trail := 2, blank := [0] },
    .block 0 "LAST".toList 1 0 [] [ .line 0 ⟨"T".toList, .qstr []⟩ { blank := [0, 0] } ] ]

example : sdocText "DOC".toList exS =
    "===DOC===\nA:  \n\n    X ::  \"1\" \n      B:\n   \n\n       C: \n          Y::\"\"\"s \\\"t\\\"\"\"\"\n\n             W:: null\n  \n\n       EMPTY:   \n\n       V  ::\"word\"\n    U::false\n \nZ :: -3  \n\nLAST:\n T::\"\"\n\n\n===END===\n".toList := by
  decide +kernel

/-- the canonical text it converges on. -/
example : treeDocText "DOC".toList (TreeSpell.eraseList exS) =
    "===DOC===\nA:\n  X::\"1\"\n  B:\n    C:\n      Y::\"s \\\"t\\\"\"\n      W::null\n    EMPTY:\n    V::word\n  U::false\nZ::-3\nLAST:\n  T::\"\"\n===END===\n".toList := by
  decide +kernel

theorem exS_ok : treeOK (TreeSpell.eraseList exS) := by
  simp only [exS, TreeSpell.eraseList, SNode.erase, treeOK, TNode.OK, FLine.OK, FScalar.OK]
  decide
theorem exS_emit : treeEmitOK (TreeSpell.eraseList exS) := by
  simp only [exS, TreeSpell.eraseList, SNode.erase, treeEmitOK, TNode.EmitOK, FLine.EmitOK]
  decide

/-- the theorems applied (not evaluated). -/
example : canonStrict Env.ascii (sdocText "DOC".toList exS) = .ok (treeDocText "DOC".toList (TreeSpell.eraseList exS)) ∧
    canonLenient Env.ascii (sdocText "DOC".toList exS) = .ok (treeDocText "DOC".toList (TreeSpell.eraseList exS)) :=
  C03_tree_spelled_converge Env.ascii "DOC".toList exS (by decide) (by decide) exS_ok exS_emit (by decide) (by decide) (fun _ _ => rfl)

example : canonLenient Env.ascii (sdocText "DOC".toList exS)
    = canonLenient Env.ascii (treeDocText "DOC".toList (TreeSpell.eraseList exS)) :=
  (C03_tree_spelled_vs_canonical Env.ascii "DOC".toList exS (by decide) (by decide) exS_ok exS_emit (by decide) (by decide)
    (fun _ _ => rfl) (fun _ _ => rfl)).1

example : ∃ d' reps warns, Parser.parse Env.ascii (sdocText "DOC".toList exS) = .ok d' ∧
    Parser.parseWithWarnings Env.ascii (sdocText "DOC".toList exS) = .ok (d', reps, warns) ∧
    d'.name = "DOC".toList ∧ d'.metaKv = [] ∧ d'.hasSeparator = false ∧ d'.trailingComments = [] ∧ d'.grammarVersion = none ∧
    d'.rawFrontmatter = none ∧ treeMatches (TreeSpell.eraseList exS) d'.sections :=
  C03_tree_spelled_same_document Env.ascii "DOC".toList exS (by decide) (by decide) exS_ok (by decide) (by decide) (fun _ _ => rfl)

/-- all amounts symbolic: a block in a block, any widths `≥ 1`, any trailing spaces, any blank lines, any line spelling, the
second child of `B` over-indented by any amount `x`. -/
example (a b t1 t2 x : Nat) (k1 k2 : List Nat) (sp1 sp2 sp3 : LSpell) :
    canonLenient Env.ascii (sdocText "D".toList
      [.block 0 "A".toList (a + 1) t1 k1 [.block 0 "B".toList (b + 1) t2 k2 [.line 0 ⟨"X".toList, .bool true⟩ sp1, .line x ⟨"W".toList, .null⟩ sp3], .line 0 ⟨"Y".toList, .null⟩ sp2]])
      = .ok "===D===\nA:\n  B:\n    X::true\n    W::null\n  Y::null\n===END===\n".toList :=
  (C03_tree_spelled_converge Env.ascii "D".toList _ (by decide) (by decide)
    (by simp only [TreeSpell.eraseList, SNode.erase, treeOK, TNode.OK, FLine.OK, FScalar.OK]; decide)
    (by simp only [TreeSpell.eraseList, SNode.erase, treeEmitOK, TNode.EmitOK, FLine.EmitOK]; decide)
    (by simp [TreeSpell.topOk, allX0, forestOk, SNode.ok, SNode.x, nextInd, headX0]) rfl (fun _ _ => rfl)).2

/-- the whole model evaluated on the concrete text (independent of the theorems): the same canonical output; and the lexer
model gives exactly `sdocToks`. -/
example : isOkStr (canonLenient Env.ascii (sdocText "DOC".toList exS)) (treeDocText "DOC".toList (TreeSpell.eraseList exS)) = true := by
  decide +kernel
example : isOkStr (canonStrict Env.ascii (sdocText "DOC".toList exS)) (treeDocText "DOC".toList (TreeSpell.eraseList exS)) = true := by
  decide +kernel
/-- one normalisation receipt: the triple-quoted `Y` (text line 9, column 14). -/
example : forestTriples 0 2 exS = [Repair.normalization "\"\"\"".toList (.str "s \"t\"".toList) 9 14] := by decide +kernel
example : (match tokenize Env.ascii (sdocText "DOC".toList exS) with
    | .ok p => p == (sdocToks (treeFrame "DOC".toList (heightList exS)) "DOC".toList 2 exS, (srepsRev 0 2 exS).reverse)
    | .error _ => false) = true := by decide +kernel

/-! ### … with spelled frames -/

def exFrame : DSpell := { envTrail := 2, envBlank := [3, 0], endTrail := 1, endNl := true, endBlank := [0, 1] }

example : canonStrict Env.ascii (fdocText "DOC".toList exS exFrame) = .ok (treeDocText "DOC".toList (TreeSpell.eraseList exS)) ∧
    canonLenient Env.ascii (fdocText "DOC".toList exS exFrame) = .ok (treeDocText "DOC".toList (TreeSpell.eraseList exS)) :=
  C03_tree_framed_converge Env.ascii "DOC".toList exS exFrame (by decide) (by decide) exS_ok exS_emit (by decide) (by decide) rfl
    (fun _ _ => rfl)

/-- `===END===` omitted / without its newline: the same bytes. -/
example : canonStrict Env.ascii (fdocText "DOC".toList exS { endOmitted := true })
    = canonStrict Env.ascii (fdocText "DOC".toList exS { endNl := false, endTrail := 2 }) :=
  (C03_tree_framed_spellings_agree Env.ascii "DOC".toList exS exS _ _ rfl (by decide) (by decide) exS_ok exS_emit (by decide)
    (by decide) (by decide) rfl rfl (fun _ _ => rfl) (fun _ _ => rfl)).1

/-- every frame, symbolically. -/
example (ds : DSpell) (h : ds.endIndent = 0) (w : Nat) (sp : LSpell) :
    canonLenient Env.ascii (fdocText "D".toList [.block 0 "A".toList (w + 1) 0 [] [.line 0 ⟨"X".toList, .bool true⟩ sp]] ds)
      = .ok "===D===\nA:\n  X::true\n===END===\n".toList :=
  (C03_tree_framed_converge Env.ascii "D".toList _ ds (by decide) (by decide)
    (by simp only [TreeSpell.eraseList, SNode.erase, treeOK, TNode.OK, FLine.OK, FScalar.OK]; decide)
    (by simp only [TreeSpell.eraseList, SNode.erase, treeEmitOK, TNode.EmitOK, FLine.EmitOK]; decide)
    (by simp [TreeSpell.topOk, allX0, forestOk, SNode.ok, SNode.x, nextInd, headX0]) rfl h (fun _ _ => rfl)).2

example : isOkStr (canonLenient Env.ascii (fdocText "DOC".toList exS exFrame)) (treeDocText "DOC".toList (TreeSpell.eraseList exS)) = true := by
  decide +kernel
example : isOkStr (canonStrict Env.ascii (fdocText "DOC".toList exS { endOmitted := true })) (treeDocText "DOC".toList (TreeSpell.eraseList exS)) = true := by
  decide +kernel
/-- outside the theorem (`===END===` indented after a block, `hds`): the model converges all the same. -/
example : isOkStr (canonLenient Env.ascii "===D===\nA:\n  X::true\n    ===END===\n".toList) "===D===\nA:\n  X::true\n===END===\n".toList = true := by
  decide +kernel

/-! ### the class is exact at its edges: spellings just outside `topOk`, and what the model returns (the real reader too) -/

/-- a line over-indented right after an EMPTY block is outside the class (`ok`: the next line must not be deeper than the
empty block's header) — the reader makes it the block's child. -/
def exOut1 : List SNode :=
  [ .block 0 "A".toList 2 0 [] [ .block 0 "E".toList 2 0 [] [], .line 1 ⟨"V".toList, .bool true⟩ {} ] ]
example : topOk exOut1 = false := by decide
example : sdocText "D".toList exOut1 = "===D===\nA:\n  E:\n   V::true\n===END===\n".toList := by decide +kernel
example : isOkStr (canonLenient Env.ascii (sdocText "D".toList exOut1)) "===D===\nA:\n  E:\n    V::true\n===END===\n".toList = true := by
  decide +kernel
/-- … after a NON-empty block the same line is fine as long as it is shallower than that block's children (here 3 < 4). -/
def exIn1 : List SNode :=
  [ .block 0 "A".toList 2 0 [] [ .block 0 "E".toList 2 0 [] [.line 0 ⟨"X".toList, .null⟩ {}], .line 1 ⟨"V".toList, .bool true⟩ {} ] ]
example : topOk exIn1 = true := by decide
example : sdocText "D".toList exIn1 = "===D===\nA:\n  E:\n    X::null\n   V::true\n===END===\n".toList := by decide +kernel
/-- the FIRST child over-indented relative to a later one (= a later child shallower than the first) is outside the class
(`headX0`): the later child leaves the block. -/
def exOut2 : List SNode :=
  [ .block 0 "B".toList 2 0 [] [ .line 2 ⟨"X".toList, .null⟩ {}, .line 0 ⟨"Y".toList, .null⟩ {} ] ]
example : topOk exOut2 = false := by decide
example : isOkStr (canonLenient Env.ascii (sdocText "D".toList exOut2)) "===D===\nB:\n  X::null\nY::null\n===END===\n".toList = true := by
  decide +kernel

end Octave.C03
