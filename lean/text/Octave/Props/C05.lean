/-
C05 — Literal zones pass through every pipeline byte-for-byte.
Proved here (any line content, any environment): inside an open fence the normaliser copies a line
verbatim — no NFC is applied, whatever `unicodedata.normalize` does (the statement holds for two
ARBITRARY environments); the emitter writes the zone content as one verbatim line block between
two fence lines carrying exactly the marker and the tag; an empty zone is still emitted as a zone.
The end-to-end statement (zones of parse(render s) = zones of the model, neighbours keep their
parent) is an open proof target backed by the correspondence and the oracle.
-/
import Octave.Model.Canon
import Octave.Props.Facts
namespace Octave.C05
open Octave Lexer Emitter

/-- A content line inside an open fence (not itself a fence line) is appended to the output verbatim,
and the result does not depend on the environment at all: NFC, Unicode classes etc. are never consulted. -/
theorem C05_content_line_verbatim (env₁ env₂ : Env) (st : NState) (n : Nat) (line : Str)
    (hin : st.inFence = true) (hnf : fenceLine line = none) :
    normLine env₁ st n line = .ok { st with out := line :: st.out, offset := st.offset + line.length + 1 }
    ∧ normLine env₁ st n line = normLine env₂ st n line := by
  constructor <;> simp [normLine, hin, hnf]

/-- A backtick run shorter than the opening fence is zone content too, copied verbatim. -/
theorem C05_shorter_fence_is_content (env : Env) (st : NState) (n : Nat) (line ticks trailing : Str)
    (hin : st.inFence = true) (hf : fenceLine line = some (ticks, trailing)) (hs : ticks.length < st.marker.length) :
    normLine env st n line = .ok { st with out := line :: st.out, offset := st.offset + line.length + 1 } := by
  have h1 : ¬ (ticks.length = st.marker.length) := by omega
  have h2 : ¬ (ticks.length ≥ st.marker.length) := by omega
  simp [normLine, hin, hf, h1, h2]

/-- The emitter writes a zone as: fence line (indent + marker + tag), the content as ONE verbatim
element (no escaping, no re-indentation), closing fence line — and an empty zone is still two fence lines. -/
theorem C05_emit_zone_verbatim (ind : Nat) (content : Str) (tag : Option Str) (marker : Str) :
    fenceLines ind content tag marker =
      [indentStr ind ++ marker ++ tag.getD []] ++ (if content.isEmpty then [] else [content]) ++ [indentStr ind ++ marker] := by
  cases tag <;> simp [fenceLines]

theorem C05_empty_zone_not_absent (ind : Nat) (tag : Option Str) (marker : Str) :
    (fenceLines ind [] tag marker).length = 2 := by
  cases tag <;> simp [fenceLines]

/-- non-vacuity / end-to-end on the model: a zone with a tab, an NFD pair, backslash-n, an operator alias,
`===END===`, `---` and a shorter backtick run survives read → emit → strict read byte-for-byte, nested in a block
between two siblings. -/
example :
    (match Parser.parse Env.ascii "===D===\nB:\n  A::1\n  K::\n  ````py\n\ta -> b\\n \"q\"\n===END===\n---\n```\n  ````\n  C::2\n===END===\n".toList with
     | .ok d => (match Emitter.emit Env.ascii d with
        | some c => (match Parser.parse Env.ascii c with
          | .ok d2 => d2.sections.map (fun n => match n with
             | .block _ [_, .assign _ (.zone c t m) _ _ _ _, _] _ _ _ _ => (c == "\ta -> b\\n \"q\"\n===END===\n---\n```".toList && t == some "py".toList && m == "````".toList)
             | _ => false)
          | .error _ => [])
        | none => [])
     | .error _ => []) = [true] := by decide +kernel

end Octave.C05
