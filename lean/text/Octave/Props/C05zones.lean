/-
C05 — literal zones, the LEXER-LEVEL whole-text theorem (and the emitter's side of it).

A document with a literal zone is tokenised to FENCE_OPEN / LITERAL_CONTENT / FENCE_CLOSE tokens that carry EXACTLY the
content, the marker and the tag, WHATEVER the content is: no NFC normalisation, no escape processing, no operator
rewriting, no tab rejection, no trimming, no re-indentation, no receipt.  Everything is proved for every content string,
every marker of three or more backticks, every tag text, both lexer modes and every environment (`Env`) — the only thing
assumed about the environment is that NFC leaves the six STRUCTURAL lines alone; nothing is assumed on the content.

The machinery (per-line normaliser lemmas, the tab check, the fence-span step in `Run` / `AdvS` format, the document-level
run) is in `Lemmas/ZoneLex.lean`, stated over content LINES; here the statements are specialised to a content STRING.

Known finding C05N1 (open) is located and delimited at the end of the file.
-/
import Octave.Lemmas.ZoneLex
import Octave.Lemmas.FlatEmit
import Octave.Model.Canon
namespace Octave.C05
open Octave Lexer Scan Emitter

/-! ### the canonical text -/

/-- canonical text of a document whose only node is `KEY::` + a zone with the content string `content`
(one or more content lines: `content = ""` is ONE EMPTY content line). -/
def zoneDocText (name key marker : Str) (tag : Option Str) (content : Str) : Str :=
  zoneDocLines name key marker (tag.getD []) (splitLines content)

/-- canonical text of the same document with an EMPTY zone (the open line directly followed by the close line). -/
def emptyZoneDocText (name key marker : Str) (tag : Option Str) : Str :=
  zoneDocLines name key marker (tag.getD []) []

theorem zoneDocText_eq (name key marker : Str) (tag : Option Str) (content : Str) :
    zoneDocText name key marker tag content =
      "===".toList ++ name ++ "===\n".toList ++ key ++ "::\n".toList ++ marker ++ tag.getD [] ++ "\n".toList
        ++ content ++ "\n".toList ++ marker ++ "\n===END===\n".toList := by
  simp [zoneDocText, zoneDocLines, zoneFlatDocLines, linesText, zonedText, zoneSpanText, lineBlock, lineBlock_splitLines, envLine, keyLine, fenceOpenLine,
    fenceCloseLine, spaces]

theorem emptyZoneDocText_eq (name key marker : Str) (tag : Option Str) :
    emptyZoneDocText name key marker tag =
      "===".toList ++ name ++ "===\n".toList ++ key ++ "::\n".toList ++ marker ++ tag.getD [] ++ "\n".toList
        ++ marker ++ "\n===END===\n".toList := by
  simp [emptyZoneDocText, zoneDocLines, zoneFlatDocLines, linesText, zonedText, zoneSpanText, lineBlock, envLine, keyLine, fenceOpenLine,
    fenceCloseLine, spaces]

/-- no content line closes (or breaks) the zone: none is a fence line whose backtick run is as long as the marker or
longer.  (Equal length + blank rest would CLOSE the zone early, equal length + text or a longer run raises E007; a
shorter run — with or without text after it — is content.) -/
def zoneContentOK (marker content : Str) : Bool := (splitLines content).all (contentLineOK marker)

/-- an info tag as the reader can produce it: `none`, or a non-empty text without backtick / line break that `strip()`
leaves alone. -/
def TagOK (env : Env) : Option Str → Prop
  | none => True
  | some t => tagTextOK t = true ∧ t ≠ [] ∧ env.strip t = t

theorem tagOf_of_TagOK (env : Env) (tag : Option Str) (h : TagOK env tag) : tagOf env (tag.getD []) = tag := by
  cases tag with
  | none => rfl
  | some t =>
    obtain ⟨_, h2, h3⟩ := h
    simp only [tagOf, Option.getD_some, h3]
    cases t with
    | nil => exact absurd rfl h2
    | cons c r => rfl

theorem tagTextOK_of_TagOK (env : Env) (tag : Option Str) (h : TagOK env tag) : tagTextOK (tag.getD []) = true := by
  cases tag with
  | none => rfl
  | some t => exact h.1

theorem contentLines_ok (marker content : Str) (h : zoneContentOK marker content = true) :
    ∀ l ∈ splitLines content, NoNl l ∧ contentLineOK marker l = true :=
  fun l hl => ⟨splitLines_noNl content l hl, (List.all_eq_true.mp h) l hl⟩

/-- the tokens of the document in reading order: `literal` is the value of LITERAL_CONTENT, `n` the number of content
lines (0 for the empty zone). -/
def zoneToks (name key marker : Str) (tag : Option Str) (literal : Str) (n : Nat) : List Token :=
  [tEnvStart name 1 1, tNewline 1 (name.length + 7),
   tIdent key 2 1, tAssign 2 (key.length + 1), tNewline 2 (key.length + 3),
   tFenceOpen marker tag 3 1, tLiteral literal 4 1, tFenceClose marker (n + 4) 1, tNewline (n + 4) (marker.length + 1),
   tEnvEnd (n + 5) 1, tNewline (n + 5) 10, tEof (n + 6) 1]

theorem zoneDocToks_eq (env : Env) (name key marker trailing : Str) (C : List Str) :
    zoneDocToks env name key marker trailing C = zoneToks name key marker (tagOf env trailing) (joinWith ['\n'] C) C.length := by
  simp [zoneDocToks, zoneFlatDocToks, zoneFlatDocToksRev, linesToksRev, zoneToks]

/-! ### 1. `normalize` -/

/-- **The normaliser leaves a zone alone.**  Plain (fence-free, NFC-stable) lines `before`, an open line of `ind` spaces
+ marker + `trailing`, the content, a close line of `ind` spaces + marker, a line break, plain text `after`:
`normalize` returns the SAME text and exactly one span — start = offset of the open line, stop = offset of the end of
the close line, the marker, the tag (`strip` of `trailing`, `none` when blank).  The content lines are not passed through
`env.nfc`: no hypothesis about NFC (or anything else in `env`) on them. -/
theorem C05_normalize_zone (env : Env) (before : List Str) (ind : Nat) (marker trailing content after : Str)
    (hm : isMarker marker = true) (ht : tagTextOK trailing = true)
    (hB : ∀ l ∈ before, NoNl l ∧ fenceLine l = none ∧ env.nfc l = l)
    (hc : zoneContentOK marker content = true)
    (hA : ∀ l ∈ splitLines after, fenceLine l = none ∧ env.nfc l = l)
    (hopen : env.nfc (fenceOpenLine ind marker trailing) = fenceOpenLine ind marker trailing)
    (hclose : env.nfc (fenceCloseLine ind marker) = fenceCloseLine ind marker) :
    normalize env (lineBlock before ++ fenceOpenLine ind marker trailing ++ "\n".toList ++ content ++ "\n".toList
        ++ fenceCloseLine ind marker ++ "\n".toList ++ after) =
      .ok (lineBlock before ++ fenceOpenLine ind marker trailing ++ "\n".toList ++ content ++ "\n".toList
            ++ fenceCloseLine ind marker ++ "\n".toList ++ after,
           [{ start := (lineBlock before).length,
              stop := (lineBlock before).length + (fenceOpenLine ind marker trailing).length + 1 + (content.length + 1)
                        + (fenceCloseLine ind marker).length,
              marker := marker, tag := tagOf env trailing }]) := by
  have h := normalize_zone env before (splitLines content) ind marker trailing after hm ht hB (contentLines_ok marker content hc) hA hopen hclose
  have htext : zonedText before (splitLines content) ind marker trailing after =
      lineBlock before ++ fenceOpenLine ind marker trailing ++ "\n".toList ++ content ++ "\n".toList
        ++ fenceCloseLine ind marker ++ "\n".toList ++ after := by
    simp [zonedText, zoneSpanText, lineBlock_splitLines]
  have hspan : zoneSpan env before (splitLines content) ind marker trailing =
      { start := (lineBlock before).length,
        stop := (lineBlock before).length + (fenceOpenLine ind marker trailing).length + 1 + (content.length + 1)
                  + (fenceCloseLine ind marker).length,
        marker := marker, tag := tagOf env trailing } := by
    simp only [zoneSpan, zoneSpanText_length, lineBlock_splitLines, List.length_append, List.length_cons, List.length_nil]
    congr 1; omega
  rw [htext, hspan] at h
  exact h

/-- the EMPTY zone (open line directly followed by the close line): same statement, the span covers the two lines. -/
theorem C05_normalize_empty_zone (env : Env) (before : List Str) (ind : Nat) (marker trailing after : Str)
    (hm : isMarker marker = true) (ht : tagTextOK trailing = true)
    (hB : ∀ l ∈ before, NoNl l ∧ fenceLine l = none ∧ env.nfc l = l)
    (hA : ∀ l ∈ splitLines after, fenceLine l = none ∧ env.nfc l = l)
    (hopen : env.nfc (fenceOpenLine ind marker trailing) = fenceOpenLine ind marker trailing)
    (hclose : env.nfc (fenceCloseLine ind marker) = fenceCloseLine ind marker) :
    normalize env (lineBlock before ++ fenceOpenLine ind marker trailing ++ "\n".toList ++ fenceCloseLine ind marker ++ "\n".toList ++ after) =
      .ok (lineBlock before ++ fenceOpenLine ind marker trailing ++ "\n".toList ++ fenceCloseLine ind marker ++ "\n".toList ++ after,
           [{ start := (lineBlock before).length,
              stop := (lineBlock before).length + (fenceOpenLine ind marker trailing).length + 1 + (fenceCloseLine ind marker).length,
              marker := marker, tag := tagOf env trailing }]) := by
  have h := normalize_zone env before [] ind marker trailing after hm ht hB (by simp) hA hopen hclose
  have htext : zonedText before [] ind marker trailing after =
      lineBlock before ++ fenceOpenLine ind marker trailing ++ "\n".toList ++ fenceCloseLine ind marker ++ "\n".toList ++ after := by
    simp [zonedText, zoneSpanText, lineBlock]
  have hspan : zoneSpan env before [] ind marker trailing =
      { start := (lineBlock before).length,
        stop := (lineBlock before).length + (fenceOpenLine ind marker trailing).length + 1 + (fenceCloseLine ind marker).length,
        marker := marker, tag := tagOf env trailing } := by
    simp only [zoneSpan, zoneSpanText_length, lineBlock, List.length_nil]
    congr 1; omega
  rw [htext, hspan] at h
  exact h

/-! ### 2. the tab check -/

/-- **Tabs are accepted inside the span** — `mid` (the span text: open line, content, close line) is ARBITRARY — … -/
theorem C05_tabs_accepted_in_zone (sp : Span) (pre mid post : Str)
    (hstart : sp.start = pre.length) (hstop : sp.stop = pre.length + mid.length)
    (hpre : ∀ d ∈ pre, d ≠ '\t') (hpost : ∀ d ∈ post, d ≠ '\t') :
    tabCheck [sp] (pre ++ (mid ++ post)) 0 1 1 = .ok () :=
  tabCheck_zone sp pre mid post hstart hstop hpre hpost

/-- … **and only there**: a tab at an offset covered by no span is refused with E005 (here: the first tab of the text). -/
theorem C05_tab_outside_zone_rejected (spans : List Span) (a b : Str) (ha : ∀ d ∈ a, d ≠ '\t')
    (hout : inSpans spans a.length = false) :
    ∃ l c, tabCheck spans (a ++ '\t' :: b) 0 1 1 = .error (.lexer "E005".toList l c) :=
  tabCheck_tab_outside spans a b ha hout

/-! ### 3. the span step -/

/-- **The span step** (`Run` / `AdvS` format; chains with `stepS_ident`, `stepS_assign`, `stepS_newline` before it
and — once no span is pending, `AdvS.toAdv` — with `step_envEnd`, `step_newline`, `run_lines` after it).
For EVERY content string: LITERAL_CONTENT carries exactly `content`. -/
theorem C05_zone_step (env : Env) (lenient : Bool) (st : LState) (sp : Span) (spans' : List Span)
    (ind : Nat) (marker trailing content rest : Str)
    (hsp : st.spans = sp :: spans') (hpos : st.pos = sp.start)
    (hlen : sp.stop = sp.start + (zoneSpanText (splitLines content) ind marker trailing).length)
    (hm : isMarker marker = true) (ht : tagTextOK trailing = true) :
    atSpanStart st = true ∧
    ∃ st', step env lenient st (fenceOpenLine ind marker trailing ++ "\n".toList ++ content ++ "\n".toList ++ fenceCloseLine ind marker
                                  ++ "\n".toList ++ rest) = .ok (st', rest) ∧
      AdvS st st'
        [tNewline (st.line + (splitLines content).length + 1) (ind + marker.length + 1),
         tFenceClose sp.marker (st.line + (splitLines content).length + 1) 1,
         tLiteral content (st.line + 1) 1,
         tFenceOpen sp.marker sp.tag st.line (st.col + ind)] []
        ((splitLines content).length + 2) 1 (some '\n') ((zoneSpanText (splitLines content) ind marker trailing).length + 1) spans' := by
  refine ⟨by simp [atSpanStart, hsp, hpos], ?_⟩
  obtain ⟨st', e, a⟩ := step_zone env lenient st sp spans' (splitLines content) ind marker trailing rest hsp hpos hlen hm ht
    (splitLines_noNl content)
  rw [joinWith_splitLines] at a
  refine ⟨st', ?_, a⟩
  rw [← e]
  congr 1
  simp [zoneSpanText, lineBlock_splitLines]

/-- the span step on an EMPTY zone: the model DOES emit a LITERAL_CONTENT token, with value `""`, at the line after the
open line (the line of the close line). -/
theorem C05_empty_zone_step (env : Env) (lenient : Bool) (st : LState) (sp : Span) (spans' : List Span)
    (ind : Nat) (marker trailing rest : Str)
    (hsp : st.spans = sp :: spans') (hpos : st.pos = sp.start)
    (hlen : sp.stop = sp.start + (zoneSpanText [] ind marker trailing).length)
    (hm : isMarker marker = true) (ht : tagTextOK trailing = true) :
    ∃ st', step env lenient st (fenceOpenLine ind marker trailing ++ "\n".toList ++ fenceCloseLine ind marker ++ "\n".toList ++ rest)
              = .ok (st', rest) ∧
      AdvS st st'
        [tNewline (st.line + 1) (ind + marker.length + 1), tFenceClose sp.marker (st.line + 1) 1,
         tLiteral [] (st.line + 1) 1, tFenceOpen sp.marker sp.tag st.line (st.col + ind)] []
        2 1 (some '\n') ((zoneSpanText [] ind marker trailing).length + 1) spans' := by
  obtain ⟨st', e, a⟩ := step_zone env lenient st sp spans' [] ind marker trailing rest hsp hpos hlen hm ht (by simp)
  refine ⟨st', ?_, a⟩
  rw [← e]
  congr 1
  simp [zoneSpanText, lineBlock]

/-! ### 4. the whole document -/

/-- **C05 at the lexer, whole text.**  For every envelope name, key, marker of three or more backticks, info tag and
EVERY content string none of whose lines is a fence line with a backtick run as long as the marker or longer, in both
lexer modes and for every environment whose NFC leaves the six structural lines alone: `tokenize` succeeds with exactly
the twelve expected tokens, positions included; FENCE_OPEN carries the marker and the tag, LITERAL_CONTENT carries
`content` — the very string — FENCE_CLOSE the marker; the receipts are the identifier notes of the KEY and nothing else.
No hypothesis restricts the characters of `content`: tabs, NFD sequences, backslashes, quotes, operators, `===END===`,
shorter backtick runs, trailing spaces, empty lines are all covered. -/
theorem C05_zone_lexes_verbatim (env : Env) (lenient : Bool) (name key marker : Str) (tag : Option Str) (content : Str)
    (hn : isEnvName name = true) (hne : name ≠ "END".toList)
    (hk : isIdentifierText key = true) (hkr : hasReservedPrefix key = false)
    (hm : isMarker marker = true) (htag : TagOK env tag)
    (hc : zoneContentOK marker content = true)
    (hnfc : ∀ l ∈ zoneDocPlain name key marker (tag.getD []), env.nfc l = l) :
    tokenize env (zoneDocText name key marker tag content) lenient =
      .ok (zoneToks name key marker tag content (splitLines content).length, identifierRepairs key 2 1) := by
  have h := tokenize_zoneDoc env lenient name key marker (tag.getD []) (splitLines content) hn hne hk hkr hm
    (tagTextOK_of_TagOK env tag htag) (contentLines_ok marker content hc) hnfc
  rw [zoneDocToks_eq, tagOf_of_TagOK env tag htag, joinWith_splitLines] at h
  exact h

/-- **The empty zone**: the lexer still produces the three zone tokens — LITERAL_CONTENT is present, with value `""`,
on the line of the close line — so an empty zone is never confused with an absent value (`KEY::` followed by a line
break and no FENCE_OPEN). -/
theorem C05_empty_zone_lexes (env : Env) (lenient : Bool) (name key marker : Str) (tag : Option Str)
    (hn : isEnvName name = true) (hne : name ≠ "END".toList)
    (hk : isIdentifierText key = true) (hkr : hasReservedPrefix key = false)
    (hm : isMarker marker = true) (htag : TagOK env tag)
    (hnfc : ∀ l ∈ zoneDocPlain name key marker (tag.getD []), env.nfc l = l) :
    tokenize env (emptyZoneDocText name key marker tag) lenient =
      .ok (zoneToks name key marker tag [] 0, identifierRepairs key 2 1) := by
  have h := tokenize_zoneDoc env lenient name key marker (tag.getD []) [] hn hne hk hkr hm
    (tagTextOK_of_TagOK env tag htag) (by simp) hnfc
  rw [zoneDocToks_eq, tagOf_of_TagOK env tag htag] at h
  exact h

/-- canonical text of the zone assignment FOLLOWED by flat `KEY::scalar` lines. -/
def zoneFlatDocText (name key marker : Str) (tag : Option Str) (content : Str) (lines : List FLine) : Str :=
  zoneFlatDocLines name key marker (tag.getD []) (splitLines content) lines

theorem zoneFlatDocText_eq (name key marker : Str) (tag : Option Str) (content : Str) (lines : List FLine) :
    zoneFlatDocText name key marker tag content lines =
      "===".toList ++ name ++ "===\n".toList ++ key ++ "::\n".toList ++ marker ++ tag.getD [] ++ "\n".toList
        ++ content ++ "\n".toList ++ marker ++ "\n".toList ++ linesText lines ++ "===END===\n".toList := by
  simp [zoneFlatDocText, zoneFlatDocLines, zonedText, zoneSpanText, lineBlock, lineBlock_splitLines, envLine, keyLine, fenceOpenLine,
    fenceCloseLine, spaces]

/-- its tokens in reading order (`n` content lines): the zone's, then the lines' (first line on line `n + 5`), then the end. -/
def zoneThenToks (name key marker : Str) (tag : Option Str) (literal : Str) (n : Nat) (lines : List FLine) : List Token :=
  [tEnvStart name 1 1, tNewline 1 (name.length + 7),
   tIdent key 2 1, tAssign 2 (key.length + 1), tNewline 2 (key.length + 3),
   tFenceOpen marker tag 3 1, tLiteral literal 4 1, tFenceClose marker (n + 4) 1, tNewline (n + 4) (marker.length + 1)]
  ++ (linesToksRev (n + 5) lines).reverse
  ++ [tEnvEnd (n + lines.length + 5) 1, tNewline (n + lines.length + 5) 10, tEof (n + lines.length + 6) 1]

/-- **A zone does not swallow or shift what follows it**: with flat lines after the zone, the zone tokens are the same and
the following lines are tokenised exactly as `tokenize_flat` tokenises them, on the right line numbers; the receipts are
those of the key and of the following lines — none from the zone. -/
theorem C05_zone_then_lines_lex (env : Env) (lenient : Bool) (name key marker : Str) (tag : Option Str) (content : Str)
    (lines : List FLine)
    (hn : isEnvName name = true) (hne : name ≠ "END".toList)
    (hk : isIdentifierText key = true) (hkr : hasReservedPrefix key = false)
    (hm : isMarker marker = true) (htag : TagOK env tag)
    (hc : zoneContentOK marker content = true)
    (hok : ∀ ln ∈ lines, ln.OK)
    (hnfc : ∀ l ∈ zoneDocPlain name key marker (tag.getD []) ++ lines.map FLine.text, env.nfc l = l) :
    tokenize env (zoneFlatDocText name key marker tag content lines) lenient =
      .ok (zoneThenToks name key marker tag content (splitLines content).length lines,
           identifierRepairs key 2 1 ++ (linesRepsRev ((splitLines content).length + 5) lines).reverse) := by
  have h := tokenize_zoneFlatDoc env lenient name key marker (tag.getD []) (splitLines content) lines hn hne hk hkr hm
    (tagTextOK_of_TagOK env tag htag) (contentLines_ok marker content hc) hok hnfc
  have ht : zoneFlatDocToks env name key marker (tag.getD []) (splitLines content) lines =
      zoneThenToks name key marker tag content (splitLines content).length lines := by
    simp [zoneFlatDocToks, zoneFlatDocToksRev, zoneThenToks, tagOf_of_TagOK env tag htag, joinWith_splitLines]
  rw [ht] at h
  exact h

/-- **No receipt for anything inside the zone**: the receipts of the document do not depend on the zone at all (content,
marker, tag) — they are the notes `identifierRepairs` attaches to the key on line 2 — and there is none when the key has
none (no `True`/`FALSE`/… spelling, no embedded `vs`).  In particular an `->`, `+`, `#`, `{…}` … inside the zone
produces no normalisation / curly-brace receipt. -/
theorem C05_zone_no_receipts (env : Env) (lenient : Bool) (name key marker : Str) (tag : Option Str) (content : Str)
    (hn : isEnvName name = true) (hne : name ≠ "END".toList)
    (hk : isIdentifierText key = true) (hkr : hasReservedPrefix key = false)
    (hm : isMarker marker = true) (htag : TagOK env tag)
    (hc : zoneContentOK marker content = true)
    (hnfc : ∀ l ∈ zoneDocPlain name key marker (tag.getD []), env.nfc l = l)
    (hkey : identifierRepairs key 2 1 = []) :
    ∃ toks, tokenize env (zoneDocText name key marker tag content) lenient = .ok (toks, []) := by
  refine ⟨zoneToks name key marker tag content (splitLines content).length, ?_⟩
  rw [C05_zone_lexes_verbatim env lenient name key marker tag content hn hne hk hkr hm htag hc hnfc, hkey]

/-- the content token is there and is exactly `content` (projection of the main theorem). -/
theorem C05_zone_literal_token (name key marker : Str) (tag : Option Str) (content : Str) (n : Nat) :
    (zoneToks name key marker tag content n).filter (fun t => t.type == .literalContent) = [tLiteral content 4 1] := by
  simp [zoneToks, tEnvStart, tNewline, tIdent, tAssign, tFenceOpen, tLiteral, tFenceClose, tEnvEnd, tEof]

/-- empty zone ≠ absent value at the token level: the flat document `===N===`, `===END===` with NO zone has no
FENCE_OPEN token, the empty zone has one. -/
theorem C05_empty_zone_has_fence_tokens (name key marker : Str) (tag : Option Str) :
    (zoneToks name key marker tag [] 0).map (·.type) =
      [.envelopeStart, .newline, .identifier, .assign, .newline, .fenceOpen, .literalContent, .fenceClose, .newline,
       .envelopeEnd, .newline, .eof] := by
  simp [zoneToks, tEnvStart, tNewline, tIdent, tAssign, tFenceOpen, tLiteral, tFenceClose, tEnvEnd, tEof]

/-! ### 5. the emitter -/

/-- the document whose only node is `KEY::` + zone. -/
def zoneDoc (name key marker : Str) (tag : Option Str) (content : Str) (l c : Nat) : Document :=
  { name := name, sections := [.assign key (.zone content tag marker) l c [] none] }

/-- the lines the emitter joins. -/
theorem emitBody_zoneDoc (env : Env) (name key marker : Str) (tag : Option Str) (content : Str) (l c : Nat) :
    emitBody env (zoneDoc name key marker tag content l c) =
      some (joinWith ['\n'] ([envLine name, keyLine key] ++ fenceLines 0 content tag marker ++ ["===END===".toList])) := by
  unfold emitBody
  simp only [zoneDoc, emitMetaLines, emitTop, emitNode, emitAssignment, leadingLines, List.map_nil, List.isEmpty_nil, Bool.true_or,
    if_true, Bool.false_eq_true, if_false, List.nil_append, List.append_nil, bind, Option.bind, pure, indentStr,
    List.replicate, Bool.false_and]
  rfl

theorem joinWith_snoc (ls : List Str) (x : Str) : joinWith ['\n'] (ls ++ [x]) = lineBlock ls ++ x := by
  induction ls with
  | nil => rfl
  | cons l ls ih =>
    cases ls with
    | nil => simp [joinWith, lineBlock]
    | cons m ms =>
      simp only [List.cons_append, joinWith, lineBlock] at ih ⊢
      rw [ih]; simp

theorem finishText_end (s : Str) : finishText (s ++ "===END===".toList) = s ++ "===END===\n".toList := by
  simp [finishText]

/-- **The emitter writes the zone verbatim**: for every non-empty content the canonical text is exactly `zoneDocText` —
the content between the fence lines, not a character added, removed or escaped. -/
theorem C05_emit_zoneDoc (env : Env) (name key marker : Str) (tag : Option Str) (content : Str) (l c : Nat)
    (hne : content ≠ []) :
    emit env (zoneDoc name key marker tag content l c) = some (zoneDocText name key marker tag content) := by
  have hemp : content.isEmpty = false := by cases content with | nil => exact absurd rfl hne | cons _ _ => rfl
  unfold emit
  rw [emitBody_zoneDoc, Option.map_some, joinWith_snoc, finishText_end, zoneDocText_eq]
  simp only [fenceLines, hemp, Bool.false_eq_true, if_false]
  cases tag <;> simp [lineBlock, envLine, keyLine, indentStr]

/-- content `""` is written as an EMPTY zone (`if content.isEmpty then [] else [content]`): an empty zone stays an empty
zone — the emitter never drops the two fence lines. -/
theorem C05_emit_zoneDoc_empty (env : Env) (name key marker : Str) (tag : Option Str) (l c : Nat) :
    emit env (zoneDoc name key marker tag [] l c) = some (emptyZoneDocText name key marker tag) := by
  unfold emit
  rw [emitBody_zoneDoc, Option.map_some, joinWith_snoc, finishText_end, emptyZoneDocText_eq]
  simp only [fenceLines, List.isEmpty_nil, if_true]
  cases tag <;> simp [lineBlock, envLine, keyLine, indentStr]

/-! ### 6. known finding C05N1 (open): a zone whose content is exactly ONE EMPTY LINE is read as an EMPTY zone

Where it arises.  NOT in the normaliser (the span of the one-empty-line zone is one char longer, `C05_normalize_zone` vs
`C05_normalize_empty_zone`) and NOT in the parser (`parseLiteralZone` copies the LITERAL_CONTENT value).  It arises in the
fence-span branch of the LEXER: LITERAL_CONTENT is the text between the first and the last line break of the span —
`"\n".join` of the content lines — and that is `""` both for NO content line and for ONE EMPTY content line
(`joinWith ["\n"] [] = joinWith ["\n"] [""] = ""`; Python: `content[content_start:content_end]` with
`content_start == content_end` vs the `else` branch).  The two texts give the same token types and values; only the
line numbers after LITERAL_CONTENT differ, and nobody reads them.  The emitter then prints content `""` as an empty zone
(`C05_emit_zoneDoc_empty`).

Which contents are affected: EXACTLY `content = ""` (`splitLines content = [""]`, one empty line).  Every other content —
two or more empty lines (`"\n"`), a line of spaces, … — is carried by the token (`C05_zone_lexes_verbatim`, no guard:
the lexer theorem is TRUE for `content = ""` as well, the token value `""` being `content`) and written back by the
emitter (`C05_emit_zoneDoc`, guard `content ≠ ""`).  So the guard sits on the emitter / round-trip side, not on the
lexer-level statement.
-/

/-- the two texts are different … -/
theorem C05N1_texts_differ (name key marker : Str) (tag : Option Str) :
    zoneDocText name key marker tag [] ≠ emptyZoneDocText name key marker tag := by
  intro h
  have := congrArg List.length h
  rw [zoneDocText_eq, emptyZoneDocText_eq] at this
  simp at this

/-- … but the lexer gives them the same token types and values (LITERAL_CONTENT `""` in both): **the lexer is where the
one-empty-line zone and the empty zone are conflated.** -/
theorem C05N1_lexer_conflates (env : Env) (lenient : Bool) (name key marker : Str) (tag : Option Str)
    (hn : isEnvName name = true) (hne : name ≠ "END".toList)
    (hk : isIdentifierText key = true) (hkr : hasReservedPrefix key = false)
    (hm : isMarker marker = true) (htag : TagOK env tag)
    (hnfc : ∀ l ∈ zoneDocPlain name key marker (tag.getD []), env.nfc l = l) :
    ∃ t₁ t₂ r, tokenize env (zoneDocText name key marker tag []) lenient = .ok (t₁, r) ∧
      tokenize env (emptyZoneDocText name key marker tag) lenient = .ok (t₂, r) ∧
      t₁.map (fun t => (t.type, t.value)) = t₂.map (fun t => (t.type, t.value)) := by
  refine ⟨_, _, _, C05_zone_lexes_verbatim env lenient name key marker tag [] hn hne hk hkr hm htag (by rfl) hnfc,
    C05_empty_zone_lexes env lenient name key marker tag hn hne hk hkr hm htag hnfc, ?_⟩
  simp [zoneToks, tEnvStart, tNewline, tIdent, tAssign, tFenceOpen, tLiteral, tFenceClose, tEnvEnd, tEof]

/-- apart from that pair the tokens determine the content: different contents, different LITERAL_CONTENT. -/
theorem C05_zone_tokens_determine_content (name key marker : Str) (tag : Option Str) (c₁ c₂ : Str) (n₁ n₂ : Nat)
    (h : zoneToks name key marker tag c₁ n₁ = zoneToks name key marker tag c₂ n₂) : c₁ = c₂ := by
  simp [zoneToks, tLiteral] at h
  exact h.1

/-- **exactly which contents the emitter writes back as they were read**: all but `""`. -/
theorem C05N1_exact (env : Env) (name key marker : Str) (tag : Option Str) (content : Str) (l c : Nat) :
    emit env (zoneDoc name key marker tag content l c) = some (zoneDocText name key marker tag content) ↔ content ≠ [] := by
  constructor
  · intro h hc
    subst hc
    rw [C05_emit_zoneDoc_empty] at h
    exact C05N1_texts_differ name key marker tag (Option.some.inj h).symm
  · exact C05_emit_zoneDoc env name key marker tag content l c

/-- **lexer ∘ emitter on a zone document, the positive statement with the exact guard.**
PARTIAL: (i) the guard `content ≠ ""` is known finding C05N1 (negation on the witness below); (ii) the parser half —
that these tokens are parsed to `zoneDoc …` — is not proved here (checked by evaluation in the examples). -/
theorem C05_zone_text_fixed_point_partial (env : Env) (lenient : Bool) (name key marker : Str) (tag : Option Str) (content : Str)
    (l c : Nat)
    (hn : isEnvName name = true) (hne : name ≠ "END".toList)
    (hk : isIdentifierText key = true) (hkr : hasReservedPrefix key = false)
    (hm : isMarker marker = true) (htag : TagOK env tag)
    (hc : zoneContentOK marker content = true)
    (hnfc : ∀ l ∈ zoneDocPlain name key marker (tag.getD []), env.nfc l = l)
    (hguard : content ≠ []) :
    tokenize env (zoneDocText name key marker tag content) lenient =
        .ok (zoneToks name key marker tag content (splitLines content).length, identifierRepairs key 2 1)
    ∧ emit env (zoneDoc name key marker tag content l c) = some (zoneDocText name key marker tag content) :=
  ⟨C05_zone_lexes_verbatim env lenient name key marker tag content hn hne hk hkr hm htag hc hnfc,
   C05_emit_zoneDoc env name key marker tag content l c hguard⟩

/-- the witness of C05N1 as texts. -/
def c05n1Witness : Str := "===D===\nK::\n```\n\n```\n===END===\n".toList
def c05n1Image : Str := "===D===\nK::\n```\n```\n===END===\n".toList

example : c05n1Witness = zoneDocText "D".toList "K".toList "```".toList none [] := by decide
example : c05n1Image = emptyZoneDocText "D".toList "K".toList "```".toList none := by decide

/-- **negation on the witness**: the strict canonicaliser (parse ∘ emit) maps the one-empty-line zone to the EMPTY zone —
the content line is lost — and the witness is therefore not a fixed point of its own canonical form. -/
theorem C05N1_witness :
    isOkStr (canonStrict Env.ascii c05n1Witness) c05n1Image = true ∧ isOkStr (canonStrict Env.ascii c05n1Witness) c05n1Witness = false := by
  decide +kernel

/-- the same in the lenient pipeline, and the parsed value is `zone ""`. -/
example : isOkStr (canonLenient Env.ascii c05n1Witness) c05n1Image = true := by decide +kernel

/-- two empty lines are NOT affected (content `"\n"`). -/
example : isOkStr (canonStrict Env.ascii "===D===\nK::\n```\n\n\n```\n===END===\n".toList)
    "===D===\nK::\n```\n\n\n```\n===END===\n".toList = true := by decide +kernel

/-! ### 7. non-vacuity -/

/-- an environment whose "NFC" is NOT the identity on the content: it drops U+0301 (COMBINING ACUTE ACCENT) from any line
it is asked to normalise (a stand-in for composing `e` + U+0301).  The structural lines contain no U+0301. -/
def envDrop : Env := { Env.ascii with nfc := fun l => l.filter (· != '\u0301') }

/-- content with a tab, an NFD pair, a backslash-n, quotes, `->`, trailing spaces, an empty line, `===END===`, a shorter
backtick run with text after it, a shorter bare run, `{curly}`, `#`, `+`. -/
def nastyContent : Str := "\ta -> b\\n \"q\"  \n\n===END===\n``` x\n````\ne\u0301 {curly} # + vs\n  indented".toList

example : envDrop.nfc "e\u0301 {curly} # + vs".toList ≠ "e\u0301 {curly} # + vs".toList := by decide

/-- marker of 5 backticks, with a tag, lenient mode, NFC active on the content's NFD pair: all hypotheses hold, the
theorem applies, the content token is `nastyContent` itself, and there is no receipt. -/
example : tokenize envDrop (zoneDocText "D".toList "K".toList "`````".toList (some "py".toList) nastyContent) true =
    .ok (zoneToks "D".toList "K".toList "`````".toList (some "py".toList) nastyContent 7, []) :=
  C05_zone_lexes_verbatim envDrop true "D".toList "K".toList "`````".toList (some "py".toList) nastyContent
    (by decide) (by decide) (by decide) (by decide) (by decide) ⟨by decide, by decide, by decide⟩ (by decide) (by decide)

/-- marker of 3 backticks, no tag, strict mode; a shorter run (two backticks) with trailing text is content. -/
example : tokenize Env.ascii (zoneDocText "DOC".toList "BODY".toList "```".toList none "`` not a fence\n\tx".toList) false =
    .ok (zoneToks "DOC".toList "BODY".toList "```".toList none "`` not a fence\n\tx".toList 2, []) :=
  C05_zone_lexes_verbatim Env.ascii false "DOC".toList "BODY".toList "```".toList none "`` not a fence\n\tx".toList
    (by decide) (by decide) (by decide) (by decide) (by decide) trivial (by decide) (by decide)

/-- the empty zone. -/
example : tokenize Env.ascii (emptyZoneDocText "D".toList "K".toList "````".toList (some "x".toList)) false =
    .ok (zoneToks "D".toList "K".toList "````".toList (some "x".toList) [] 0, []) :=
  C05_empty_zone_lexes Env.ascii false "D".toList "K".toList "````".toList (some "x".toList)
    (by decide) (by decide) (by decide) (by decide) (by decide) ⟨by decide, by decide, by decide⟩ (by decide)

/-- a zone followed by three sibling lines (a quoted string, a bare word, a boolean). -/
example : tokenize envDrop (zoneFlatDocText "D".toList "K".toList "```".toList none "\t-> \\".toList
      [⟨"A".toList, .qstr "x y".toList⟩, ⟨"B".toList, .bare "w".toList⟩, ⟨"C".toList, .bool true⟩]) false =
    .ok (zoneThenToks "D".toList "K".toList "```".toList none "\t-> \\".toList 1
          [⟨"A".toList, .qstr "x y".toList⟩, ⟨"B".toList, .bare "w".toList⟩, ⟨"C".toList, .bool true⟩], []) :=
  C05_zone_then_lines_lex envDrop false "D".toList "K".toList "```".toList none "\t-> \\".toList
    [⟨"A".toList, .qstr "x y".toList⟩, ⟨"B".toList, .bare "w".toList⟩, ⟨"C".toList, .bool true⟩]
    (by decide) (by decide) (by decide) (by decide) (by decide) trivial (by decide)
    (by intro ln hln; simp only [List.mem_cons, List.mem_nil_iff, or_false] at hln
        rcases hln with h | h | h <;> subst h <;> exact ⟨by decide, by decide, by first | trivial | exact ⟨by decide, by decide⟩⟩)
    (by decide)

/-- the theorem's right-hand side agrees with plain evaluation of the model (independent of the proof). -/
example : (match tokenize envDrop (zoneDocText "D".toList "K".toList "`````".toList (some "py".toList) nastyContent) true with
    | .ok (toks, reps) => toks == zoneToks "D".toList "K".toList "`````".toList (some "py".toList) nastyContent 7 && reps.isEmpty
    | .error _ => false) = true := by decide +kernel

/-- emitter: non-empty content, with and without tag. -/
example : emit envDrop (zoneDoc "D".toList "K".toList "`````".toList (some "py".toList) nastyContent 2 1) =
    some (zoneDocText "D".toList "K".toList "`````".toList (some "py".toList) nastyContent) :=
  C05_emit_zoneDoc envDrop _ _ _ _ _ 2 1 (by decide)

/-- the whole pipeline on that text (strict read, emit): a fixed point, zone intact — the parser half by evaluation. -/
example : isOkStr (canonStrict envDrop (zoneDocText "D".toList "K".toList "`````".toList (some "py".toList) nastyContent))
    (zoneDocText "D".toList "K".toList "`````".toList (some "py".toList) nastyContent) = true := by decide +kernel

/-- the normaliser statement is not vacuous either (an indented zone between plain lines; its text is
`"A::1\n  ```py\n\te\u0301\n  ```\nB::2"`, span `[5, 22)`). -/
example :=
  C05_normalize_zone envDrop ["A::1".toList] 2 "```".toList "py".toList "\te\u0301".toList "B::2".toList
    (by decide) (by decide) (by decide) (by decide) (by decide) (by decide) (by decide)
example : (match normalize envDrop "A::1\n  ```py\n\te\u0301\n  ```\nB::2".toList with
    | .ok (t, spans) => t == "A::1\n  ```py\n\te\u0301\n  ```\nB::2".toList
        && spans == [{ start := 5, stop := 22, marker := "```".toList, tag := some "py".toList }]
    | .error _ => false) = true := by decide +kernel

/-- the remaining statements, instantiated (their hypotheses are satisfiable). -/
example := C05_normalize_empty_zone envDrop ["A::1".toList] 2 "```".toList "py".toList "B::2".toList
  (by decide) (by decide) (by decide) (by decide) (by decide) (by decide)
example := C05_tabs_accepted_in_zone ⟨2, 5, [], none⟩ "a\n".toList "\t\t\t".toList "b".toList rfl rfl (by decide) (by decide)
example := C05_tab_outside_zone_rejected [⟨2, 5, [], none⟩] "a".toList "b".toList (by decide) (by decide)
example := C05_zone_step Env.ascii false { pos := 5, blank := false, line := 3, spans := [⟨5, 15, "```".toList, none⟩] }
  ⟨5, 15, "```".toList, none⟩ [] 0 "```".toList [] "\tx".toList "rest".toList rfl rfl (by decide) (by decide) (by decide)
example := C05_empty_zone_step Env.ascii false { pos := 5, blank := false, line := 3, spans := [⟨5, 18, "```".toList, some "py".toList⟩] }
  ⟨5, 18, "```".toList, some "py".toList⟩ [] 2 "```".toList "py".toList "rest".toList rfl rfl (by decide) (by decide) (by decide)
example := C05_zone_no_receipts envDrop true "D".toList "K".toList "`````".toList (some "py".toList) nastyContent
  (by decide) (by decide) (by decide) (by decide) (by decide) ⟨by decide, by decide, by decide⟩ (by decide) (by decide) (by decide)
example := C05N1_lexer_conflates Env.ascii false "D".toList "K".toList "```".toList none
  (by decide) (by decide) (by decide) (by decide) (by decide) trivial (by decide)
example := C05_zone_text_fixed_point_partial envDrop true "D".toList "K".toList "`````".toList (some "py".toList) nastyContent 2 1
  (by decide) (by decide) (by decide) (by decide) (by decide) ⟨by decide, by decide, by decide⟩ (by decide) (by decide) (by decide)
example := C05_emit_zoneDoc_empty Env.ascii "D".toList "K".toList "```".toList none 2 1

/-! ### the hypotheses are necessary: the model at the excluded points (the real lexer does the same, see the report) -/

def lexErr {α : Type} : Except Exc α → Option (Str × Nat × Nat)
  | .error (.lexer c l k) => some (c, l, k)
  | _ => none

/-- a content line that is a fence line of EQUAL length with nothing after it closes the zone early (here the rest then
opens a zone that is never closed: E006 at line 7). -/
example : lexErr (tokenize Env.ascii "===D===\nK::\n```\na\n```\nb\n```\n===END===\n".toList) = some ("E006".toList, 7, 1) := by
  decide +kernel
/-- equal length + text after it, or a longer run: E007 (nested fence). -/
example : lexErr (tokenize Env.ascii "===D===\nK::\n```\na\n```x\nb\n```\n===END===\n".toList) = some ("E007".toList, 5, 1) := by
  decide +kernel
example : lexErr (tokenize Env.ascii "===D===\nK::\n```\na\n````\nb\n```\n===END===\n".toList) = some ("E007".toList, 5, 1) := by
  decide +kernel
/-- a marker of two backticks is no fence at all. -/
example : lexErr (tokenize Env.ascii "===D===\nK::\n``\na\n``\n===END===\n".toList) = some ("E005".toList, 3, 1) := by
  decide +kernel
/-- a backtick in the tag text: the open line is no fence line, the close line then opens an unterminated zone. -/
example : lexErr (tokenize Env.ascii "===D===\nK::\n```a`b\na\n```\n===END===\n".toList) = some ("E006".toList, 5, 1) := by
  decide +kernel
/-- a tab outside the span (after the key; after the zone) is refused; the same tab inside is fine (examples above). -/
example : lexErr (tokenize Env.ascii "===D===\nK::\t\n```\na\n```\n===END===\n".toList) = some ("E005".toList, 2, 4) := by
  decide +kernel
example : lexErr (tokenize Env.ascii "===D===\nK::\n```\na\n```\n\t\n===END===\n".toList) = some ("E005".toList, 6, 1) := by
  decide +kernel
/-- NFC hypothesis on the open line: when NFC changes the tag, the normalised text (and the tag read) is the composed
form, not the text that went in. -/
example : (normalize envDrop "```e\u0301\nx\n```".toList).toOption.map (·.1) = some "```e\nx\n```".toList := by decide +kernel

end Octave.C05
