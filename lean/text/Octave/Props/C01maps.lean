/-
C01 / C02 / C03 / C04 / C15 on flat documents whose list values hold INLINE-MAP items — the document-level statements, proved
for every document of the class:

  an envelope `===NAME===`, any number of lines `KEY::value`, `===END===`; a value is a scalar (`FScalar`: a string the
  emitter quotes, a bare word, a boolean, null, an integer) or a list of ANY length whose items are scalars or SINGLE-PAIR
  inline-map items `key::scalar` (`MItem.entry`), mixed in any order: `K::[zz,a::1,b::"x y",c::true]`.

What the real reader builds (`parse_list_item`): every `IDENTIFIER :: value` item is ONE `InlineMap` with exactly that pair —
`[a::1,b::2]` is a list of TWO one-pair maps, consecutive pairs are never grouped (so duplicate keys in different items never
meet) — the class is therefore closed under emit ∘ parse.  What the emitter writes (`_needs_multiline`): ANY inline-map item
forces the one-item-per-line layout (`needsMultiline_entry`), an item is spelled `key::value`, a `PATTERN` / `REGEX` key forces
quotes on a string value; without inline-map items the layout is that of `Props/C01lists` (≥ 3 items or an annotation-shaped
string → multi-line).  As in `C01lists` the text side is stated for EVERY layout (`Layout` per list).

  * `C01_maps_text_read` (`…_lenient_exact`, `…_lenient`, `…_lenient_any`)   the strict (lenient) reader accepts every layout and
                                      returns `mdocAt`; `…_lenient_exact`: with exactly the warnings `xdocWarns`, for every document;
  * `C01_maps_canonical_is_readable`  the emitter writes `mdocText name (canonML lines)` and the strict reader returns the same
                                      document (nodes positioned at their keys);
  * `C01_maps_fixed_point`            emit → strict read → emit: the same bytes;
  * `C02_maps_content_preserved`      the document read back has the same name, keys in order, every value with its type; a list
                                      value is `.list (items.map MItem.value)`: scalars with their types and, per inline-map item,
                                      `.imap [(key, value)]` — key, order and the value WITH ITS TYPE;
  * `C04_maps_scalar_survives`        item `j` of line `i` being `key::v`, the list read back has `.imap [(key, v.value)]` at
                                      position `j` (`v.value`: `.str s` for a quoted string of ANY characters and for a bare
                                      word, `.bool b`, `.null`, `.int i`: `C04_maps_value_kinds`);
  * `C03_maps_layouts_converge` / `…_agree`   every layout canonicalises to the canonical text (both canonicalisers);
  * `C15_maps_emit_injective`         two such documents with the same emitted text have the same content.

It composes `Lemmas/MapLex` (lexer), `Lemmas/MapParse` (parser: `parseListItem_mentry`, `parseValue_mlistToks` with the EXACT
warnings at token level) and `Lemmas/MapBridge` (emitter, glue) with `Lemmas/ListDocParse` (`parse_section`) and `Lemmas/MapDocParse` (body loop, values that
draw warnings).

Hypotheses (all decidable except `hnfc`) — those of `C01lists` (`isEnvName`, `name ≠ END`, first key not `META`, NFC-stable
lines, scalars as the emitter spells them) plus, per inline-map item, two — both NECESSARY:
  * `MItem.OK`: the key is identifier-shaped without a reserved-word prefix.  The real code reads `K::[true::1]` as the
    THREE items `[True, "::", 1]` (no error, no warning, both modes) and an AST `InlineMap{"true": 1}` is emitted as `true::1`,
    so its content is silently changed by emit → parse; `K::[null-x::1]` is a lexer error E005; a key with a space likewise
    (`InlineMap{"a b": 1}` → `a b::1` → `["a b", "::", 1]`).
  * `MItemEmitOK` (`EntryEmitOK key value`): a string value is spelled quoted exactly when `needs_quotes` says so OR the key is
    `PATTERN` / `REGEX` (forced quotes: `PATTERN::"abc"` is in the class and is a fixed point); a BARE word does not sit under
    `PATTERN` / `REGEX` (`K::[PATTERN::abc]` is re-emitted `PATTERN::"abc"`: same value, warning `pattern_autoquote`; not a
    fixed point, converges in one step).
NOT a hypothesis of the statements about `parse` / `emit` / the canonicalisers: warnings.  A quoted string under
`PATTERN REGEX ENUM TYPE NEVER ALWAYS` draws `constructor_misuse`, content unchanged (`Lemmas/MapDocParse`: `VLine.OKW`).  Only the
older form `C01_maps_text_read_lenient` (warnings = `ListDocParse.vdocWarns`, as for lists of scalars) asks `MItem.Quiet` (no such
item); `C01_maps_text_read_lenient_exact` gives the exact warnings for EVERY document of the class (`Maps.xdocWarns`: per
inline-map item `Maps.entryWarns` at the position of its key).
Outside the class, the real code (see the report): an EMPTY value `k::` is not Absent — `K::[a::,b::1]` reads `{a: ","}` silently,
`K::[a::]` reads `{a: "]"}` + `unclosed_list` (strict: E007); a MULTI-pair `InlineMap{a:1,b:2}` (API-built) is emitted `a::1,b::2`
on one line and read back as two maps (not a fixed point of `emit`); nested inline maps are refused in strict mode (finding C01N4);
number keys `1::x` are read as maps with key `"1"`.
-/
import Octave.Lemmas.MapBridge
import Octave.Props.C01lists
namespace Octave.C01
open Octave Lexer Emitter
open Octave.ListDoc (Layout toksReps tokReps)
open Octave.Maps
open Octave.ListDocParse (VLine vdocToks vdoc vmetaFirst parseDocument_vlines Top vdocWarns)

/-- first key is not `META`. -/
def mfirstNotMeta (ls : List ML) : Bool :=
  match ls with | x :: _ => !(x.1.key == "META".toList) | [] => true

theorem vmetaFirstM_false (ls : List ML) (h : mfirstNotMeta ls = true) : vmetaFirst (toVLinesM 2 ls) = false := by
  rw [vmetaFirst_bridgeM]
  cases ls with
  | nil => rfl
  | cons x r => simpa [mfirstNotMeta] using h

theorem stripFrontmatter_mdoc (env : Env) (name : Str) (ls : List ML) :
    Parser.stripFrontmatter env (mdocText name ls) = (mdocText name ls, none) := by
  unfold Parser.stripFrontmatter
  have : startsWith "---".toList (mdocText name ls) = false := by
    simp [mdocText, startsWith, List.isPrefixOf]
  rw [this]; rfl

/-- the parser on the token list of a flat document with list values, from the initial state of either entry point. -/
theorem parseDocument_mdoc (env : Env) (strict : Bool) (name : Str) (ls : List ML)
    (hq : ∀ x ∈ ls, x.1.v.Quiet) (hm : mfirstNotMeta ls = true) :
    ∃ st', Parser.parseDocument.run (Parser.initState env (mdocToks name ls) strict) = .ok (mdocAt name ls, st') ∧
      st'.warnings = (vdocWarns [] (toVLinesM 2 ls)).reverse := by
  have hb := mdocToks_bridge name ls
  obtain ⟨st', h1, h2⟩ := parseDocument_vlines (flatFrame name (mlinesHeight ls)) name (toVLinesM 2 ls) ((mlinesToks 2 ls).length + 6)
    (Parser.initState env (mdocToks name ls) strict) (toVLinesM_ok ls hq 2)
    (by rw [← hb]; simp only [mdocToks, List.length_cons, List.length_append, List.length_nil]; omega)
    ⟨rfl, Or.inr (by show 1 < 5; omega)⟩ (vmetaFirstM_false ls hm) (by rw [← hb]; rfl)
  refine ⟨st', ?_, by rw [h2]; simp [Parser.initState]⟩
  simp only [StateT.run]
  rw [h1, vdoc_bridgeM]


/-- the same without any condition on warnings (the warnings are then not tracked). -/
theorem parseDocument_mdocW (env : Env) (strict : Bool) (name : Str) (ls : List ML) (hm : mfirstNotMeta ls = true) :
    ∃ st', Parser.parseDocument.run (Parser.initState env (mdocToks name ls) strict) = .ok (mdocAt name ls, st') := by
  have hb := mdocToks_bridge name ls
  obtain ⟨st', h1⟩ := parseDocument_vlinesW (flatFrame name (mlinesHeight ls)) name (toVLinesM 2 ls) ((mlinesToks 2 ls).length + 6)
    (Parser.initState env (mdocToks name ls) strict) (toVLinesM_okW ls 2)
    (by rw [← hb]; simp only [mdocToks, List.length_cons, List.length_append, List.length_nil]; omega)
    ⟨rfl, Or.inr (by show 1 < 5; omega)⟩ (vmetaFirstM_false ls hm) (by rw [← hb]; rfl)
  refine ⟨st', ?_⟩
  simp only [StateT.run]
  rw [h1, vdoc_bridgeM]

/-- the hypothesis on the text side: the lines are lexable (`MLine.OK`); the layouts are unconstrained. -/
def MLOK (ls : List ML) : Prop := ∀ x ∈ ls, x.1.OK

/-- **every spelling (each list on one line or one item per line behind any number of spaces) is read by the strict reader as
the same document**: name, keys in order, values with their types, list items in order with their types. -/
theorem C01_maps_text_read (env : Env) (name : Str) (ls : List ML)
    (hn : isEnvName name = true) (hne : name ≠ "END".toList) (hok : MLOK ls) (hm : mfirstNotMeta ls = true)
    (hnfc : ∀ l ∈ splitLines (mdocText name ls), env.nfc l = l) :
    Parser.parse env (mdocText name ls) = .ok (mdocAt name ls) := by
  have hlex := tokenize_mdoc env false name ls hn hne hok hnfc
  have hs := stripFrontmatter_mdoc env name ls
  have hlex' : Lexer.tokenize env (Parser.stripFrontmatter env (mdocText name ls)).1
      = .ok (mdocToks name ls, toksReps (mdocToks name ls)) := by rw [hs]; exact hlex
  obtain ⟨st', h1⟩ := parseDocument_mdocW env true name ls hm
  rw [C02.parse_eq_parseToks env _ _ _ hlex', hs]
  unfold C02.parseToks
  simp only [h1, bind, Except.bind, pure, Except.pure, Except.map]
  rfl


/-- the lenient entry point (`parse_with_warnings`) reads the same document, with exactly the identifier notes of the lexer
(no normalisation receipt) and exactly the parser warnings `vdocWarns` (duplicate keys; a bare scalar under `PATTERN`/`REGEX`). -/
theorem C01_maps_text_read_lenient (env : Env) (name : Str) (ls : List ML)
    (hn : isEnvName name = true) (hne : name ≠ "END".toList) (hok : MLOK ls) (hq : ∀ x ∈ ls, x.1.v.Quiet)
    (hm : mfirstNotMeta ls = true)
    (hnfc : ∀ l ∈ splitLines (mdocText name ls), env.nfc l = l) :
    Parser.parseWithWarnings env (mdocText name ls)
      = .ok (mdocAt name ls, toksReps (mdocToks name ls), vdocWarns [] (toVLinesM 2 ls)) ∧
    (toksReps (mdocToks name ls)).filter isNormalization = [] := by
  have hlex := tokenize_mdoc env false name ls hn hne hok hnfc
  have hs := stripFrontmatter_mdoc env name ls
  have hlex' : Lexer.tokenize env (Parser.stripFrontmatter env (mdocText name ls)).1
      = .ok (mdocToks name ls, toksReps (mdocToks name ls)) := by rw [hs]; exact hlex
  obtain ⟨st', h1, h2⟩ := parseDocument_mdoc env false name ls hq hm
  refine ⟨?_, toksReps_not_norm _⟩
  rw [C02.parseWithWarnings_eq_parseToks env _ _ _ hlex', hs]
  unfold C02.parseToksWithWarnings
  simp only [h1, h2, bind, Except.bind, pure, Except.pure, Except.map, List.reverse_reverse]
  rfl

/-- the lenient entry point WITHOUT the condition on warnings: the same document, the same lexer notes, some parser warnings
(at token level `Maps.parseValue_mlistToks` says exactly which: per inline-map item `Maps.entryWarns`). -/
theorem C01_maps_text_read_lenient_any (env : Env) (name : Str) (ls : List ML)
    (hn : isEnvName name = true) (hne : name ≠ "END".toList) (hok : MLOK ls) (hm : mfirstNotMeta ls = true)
    (hnfc : ∀ l ∈ splitLines (mdocText name ls), env.nfc l = l) :
    ∃ ws, Parser.parseWithWarnings env (mdocText name ls) = .ok (mdocAt name ls, toksReps (mdocToks name ls), ws) := by
  have hlex := tokenize_mdoc env false name ls hn hne hok hnfc
  have hs := stripFrontmatter_mdoc env name ls
  have hlex' : Lexer.tokenize env (Parser.stripFrontmatter env (mdocText name ls)).1
      = .ok (mdocToks name ls, toksReps (mdocToks name ls)) := by rw [hs]; exact hlex
  obtain ⟨st', h1⟩ := parseDocument_mdocW env false name ls hm
  refine ⟨st'.warnings.reverse, ?_⟩
  rw [C02.parseWithWarnings_eq_parseToks env _ _ _ hlex', hs]
  unfold C02.parseToksWithWarnings
  simp only [h1, bind, Except.bind, pure, Except.pure, Except.map]
  rfl

/-- the parser with the EXACT warnings, no condition on them: per line the warnings of its inline-map items at the positions of
their keys (`MValue.vw`), then `parse_section`'s and the duplicate-key one (`xdocWarns`). -/
theorem parseDocument_mdocX (env : Env) (strict : Bool) (name : Str) (ls : List ML) (hm : mfirstNotMeta ls = true) :
    ∃ st', Parser.parseDocument.run (Parser.initState env (mdocToks name ls) strict) = .ok (mdocAt name ls, st') ∧
      st'.warnings = (xdocWarns [] (toXLines 2 ls)).reverse := by
  have hb := mdocToks_bridge name ls
  have hfst := toXLines_fst ls 2
  obtain ⟨st', h1, h2⟩ := parseDocument_vlinesX (flatFrame name (mlinesHeight ls)) name (toXLines 2 ls) ((mlinesToks 2 ls).length + 6)
    (Parser.initState env (mdocToks name ls) strict) (toXLines_ok ls 2)
    (by rw [hfst, ← hb]; simp only [mdocToks, List.length_cons, List.length_append, List.length_nil]; omega)
    ⟨rfl, Or.inr (by show 1 < 5; omega)⟩ (by rw [hfst]; exact vmetaFirstM_false ls hm) (by rw [hfst, ← hb]; rfl)
  refine ⟨st', ?_, by rw [h2]; simp [Parser.initState]⟩
  simp only [StateT.run]
  rw [h1, hfst, vdoc_bridgeM]

/-- **the lenient entry point with the exact receipts and the exact warnings, for EVERY document of the class** (inline-map items
under constructor names included): the same document, the lexer's identifier notes only (no normalisation receipt), and exactly
`xdocWarns`. -/
theorem C01_maps_text_read_lenient_exact (env : Env) (name : Str) (ls : List ML)
    (hn : isEnvName name = true) (hne : name ≠ "END".toList) (hok : MLOK ls) (hm : mfirstNotMeta ls = true)
    (hnfc : ∀ l ∈ splitLines (mdocText name ls), env.nfc l = l) :
    Parser.parseWithWarnings env (mdocText name ls)
      = .ok (mdocAt name ls, toksReps (mdocToks name ls), xdocWarns [] (toXLines 2 ls)) ∧
    (toksReps (mdocToks name ls)).filter isNormalization = [] := by
  have hlex := tokenize_mdoc env false name ls hn hne hok hnfc
  have hs := stripFrontmatter_mdoc env name ls
  have hlex' : Lexer.tokenize env (Parser.stripFrontmatter env (mdocText name ls)).1
      = .ok (mdocToks name ls, toksReps (mdocToks name ls)) := by rw [hs]; exact hlex
  obtain ⟨st', h1, h2⟩ := parseDocument_mdocX env false name ls hm
  refine ⟨?_, toksReps_not_norm _⟩
  rw [C02.parseWithWarnings_eq_parseToks env _ _ _ hlex', hs]
  unfold C02.parseToksWithWarnings
  simp only [h1, h2, bind, Except.bind, pure, Except.pure, Except.map, List.reverse_reverse]
  rfl

/-- hypotheses on a document's lines (content only): lexable, and spelled the way the emitter spells them. -/
def MLinesOK (lines : List MLine) : Prop := (∀ ln ∈ lines, ln.OK) ∧ (∀ ln ∈ lines, ln.EmitOK)

theorem canonML_ok (lines : List MLine) (h : ∀ ln ∈ lines, ln.OK) : MLOK (canonML lines) := by
  intro x hx
  obtain ⟨ln, hln, rfl⟩ := List.mem_map.mp hx
  exact h ln hln

theorem canonML_fst (lines : List MLine) : (canonML lines).map Prod.fst = lines := by
  simp [canonML, List.map_map, Function.comp_def]

def mfirstKeyNotMeta (lines : List MLine) : Bool :=
  match lines with | ln :: _ => !(ln.key == "META".toList) | [] => true

theorem mfirstNotMeta_of (ls : List ML) (h : mfirstKeyNotMeta (ls.map Prod.fst) = true) : mfirstNotMeta ls = true := by
  cases ls with
  | nil => rfl
  | cons x r => exact h

/-- **C01 on flat documents with list values: the canonical text is a fixed point.**  Emit the document (whatever
positions its nodes carry), read the text with the strict reader, emit again: the same bytes.  Any number of lines; scalar
values and lists of scalars of any length; the list layout (one line / one item per line) is a function of the content
only (`needsMulti`) and re-parses to the same items. -/
theorem C01_maps_fixed_point (env : Env) (name : Str) (lines : List MLine) (nodes : List Node) (hnodes : MNodesOf lines nodes)
    (hn : isEnvName name = true) (hne : name ≠ "END".toList) (hl : MLinesOK lines) (hm : mfirstKeyNotMeta lines = true)
    (hnfc : ∀ l ∈ splitLines (mdocText name (canonML lines)), env.nfc l = l) :
    ∃ text d', emit env { name := name, sections := nodes } = some text ∧ Parser.parse env text = .ok d' ∧
      emit env d' = some text := by
  have hm' : mfirstNotMeta (canonML lines) = true := mfirstNotMeta_of _ (by rw [canonML_fst]; exact hm)
  refine ⟨mdocText name (canonML lines), mdocAt name (canonML lines), emit_mdoc env name hnodes hl.2,
    C01_maps_text_read env name _ hn hne (canonML_ok lines hl.1) hm' hnfc, ?_⟩
  have hno := mnodesOf_mnodesAt (canonML lines) 2
  rw [canonML_fst] at hno
  exact emit_mdoc env name hno hl.2


theorem mnodesAt_length (ls : List ML) : ∀ l, (mnodesAt l ls).length = ls.length := by
  induction ls with
  | nil => intro l; rfl
  | cons x r ih => intro l; simp [mnodesAt, ih]

theorem mnodesAt_get (ls : List ML) : ∀ (l i : Nat) (h : i < ls.length), ∃ l', (mnodesAt l ls)[i]? = some (ls[i].1.node l' 1) := by
  induction ls with
  | nil => intro l i h; simp at h
  | cons x r ih =>
    intro l i h
    cases i with
    | zero => exact ⟨l, by simp [mnodesAt]⟩
    | succ j =>
      have hj : j < r.length := by simpa using h
      obtain ⟨l', hl'⟩ := ih (l + x.1.height x.2) j hj
      exact ⟨l', by simpa [mnodesAt] using hl'⟩

/-- **C02 on flat documents with list values: reading the canonical text yields exactly the content that was written** —
the name, the keys in order, every scalar value with its type, every list with the same items in the same order with the
same types (`MValue.value`: `.list (items.map MItem.value)`); nothing else appears. -/
theorem C02_maps_content_preserved (env : Env) (name : Str) (lines : List MLine) (nodes : List Node) (hnodes : MNodesOf lines nodes)
    (hn : isEnvName name = true) (hne : name ≠ "END".toList) (hl : MLinesOK lines) (hm : mfirstKeyNotMeta lines = true)
    (hnfc : ∀ l ∈ splitLines (mdocText name (canonML lines)), env.nfc l = l) :
    ∃ text d', emit env { name := name, sections := nodes } = some text ∧ Parser.parse env text = .ok d' ∧
      d'.name = name ∧ d'.metaKv = [] ∧ d'.hasSeparator = false ∧ d'.trailingComments = [] ∧ d'.grammarVersion = none ∧
      d'.rawFrontmatter = none ∧ d'.sections.length = lines.length ∧
      ∀ i (h : i < lines.length), ∃ l c, d'.sections[i]? = some (.assign lines[i].key lines[i].v.value l c [] none) := by
  have hm' : mfirstNotMeta (canonML lines) = true := mfirstNotMeta_of _ (by rw [canonML_fst]; exact hm)
  refine ⟨mdocText name (canonML lines), mdocAt name (canonML lines), emit_mdoc env name hnodes hl.2,
    C01_maps_text_read env name _ hn hne (canonML_ok lines hl.1) hm' hnfc, rfl, rfl, rfl, rfl, rfl, rfl, ?_, ?_⟩
  · show (mnodesAt 2 (canonML lines)).length = lines.length
    rw [mnodesAt_length]; simp [canonML]
  · intro i h
    have h' : i < (canonML lines).length := by simpa [canonML] using h
    obtain ⟨l', hl'⟩ := mnodesAt_get (canonML lines) 2 i h'
    refine ⟨l', 1, ?_⟩
    show (mnodesAt 2 (canonML lines))[i]? = _
    rw [hl']
    simp [canonML, MLine.node]

/-- **C03, list layouts: every spelling converges on the canonical text.**  Whatever layout each list is written in
(`[a,b,c]` on one line, or one item per line behind any number of spaces, zero included, with the closing bracket at column 1 — a short list
written multi-line, a long list written on one line), both canonicalisers return the text with the emitter's own layouts. -/
theorem C03_maps_layouts_converge (env : Env) (name : Str) (ls : List ML)
    (hn : isEnvName name = true) (hne : name ≠ "END".toList) (hok : MLOK ls) (hem : ∀ x ∈ ls, x.1.EmitOK)
    (hm : mfirstNotMeta ls = true) (hnfc : ∀ l ∈ splitLines (mdocText name ls), env.nfc l = l) :
    canonStrict env (mdocText name ls) = .ok (mdocText name (canonML (ls.map Prod.fst))) ∧
    canonLenient env (mdocText name ls) = .ok (mdocText name (canonML (ls.map Prod.fst))) := by
  obtain ⟨ws, h2⟩ := C01_maps_text_read_lenient_any env name ls hn hne hok hm hnfc
  refine canon_of_read' env _ _ _ _ _ (C01_maps_text_read env name ls hn hne hok hm hnfc) h2
    (emit_mdoc env name (mnodesOf_mnodesAt ls 2) (fun ln hl => ?_))
  obtain ⟨x, hx, rfl⟩ := List.mem_map.mp hl
  exact hem x hx

/-- **any two layouts of the same document canonicalise to identical bytes** (both canonicalisers). -/
theorem C03_maps_layouts_agree (env : Env) (name : Str) (ls₁ ls₂ : List ML) (hsame : ls₁.map Prod.fst = ls₂.map Prod.fst)
    (hn : isEnvName name = true) (hne : name ≠ "END".toList) (hok₁ : MLOK ls₁) (hok₂ : MLOK ls₂) (hem : ∀ x ∈ ls₁, x.1.EmitOK)
    (hm : mfirstNotMeta ls₁ = true)
    (hnfc₁ : ∀ l ∈ splitLines (mdocText name ls₁), env.nfc l = l) (hnfc₂ : ∀ l ∈ splitLines (mdocText name ls₂), env.nfc l = l) :
    canonStrict env (mdocText name ls₁) = canonStrict env (mdocText name ls₂) ∧
    canonLenient env (mdocText name ls₁) = canonLenient env (mdocText name ls₂) := by
  have hem₂ : ∀ x ∈ ls₂, x.1.EmitOK := by
    intro x hx
    have : x.1 ∈ ls₁.map Prod.fst := by rw [hsame]; exact List.mem_map.mpr ⟨x, hx, rfl⟩
    obtain ⟨y, hy, e⟩ := List.mem_map.mp this
    rw [← e]; exact hem y hy
  have hm₂ : mfirstNotMeta ls₂ = true := by
    cases ls₂ with
    | nil => rfl
    | cons b r₂ =>
      cases ls₁ with
      | nil => simp at hsame
      | cons a r₁ =>
        have : a.1 = b.1 := by simp only [List.map_cons, List.cons.injEq] at hsame; exact hsame.1
        simp only [mfirstNotMeta] at hm ⊢
        rw [← this]; exact hm
  have h1 := C03_maps_layouts_converge env name ls₁ hn hne hok₁ hem hm hnfc₁
  have h2 := C03_maps_layouts_converge env name ls₂ hn hne hok₂ hem₂ hm₂ hnfc₂
  rw [← hsame] at h2
  exact ⟨by rw [h1.1, h2.1], by rw [h1.2, h2.2]⟩


/-- **C01 on documents with inline-map items: the canonical text is readable.**  The emitter writes `mdocText` with the layouts
it chooses by content, and the strict reader returns the same document, every node at its key. -/
theorem C01_maps_canonical_is_readable (env : Env) (name : Str) (lines : List MLine) (nodes : List Node) (hnodes : MNodesOf lines nodes)
    (hn : isEnvName name = true) (hne : name ≠ "END".toList) (hl : MLinesOK lines) (hm : mfirstKeyNotMeta lines = true)
    (hnfc : ∀ l ∈ splitLines (mdocText name (canonML lines)), env.nfc l = l) :
    emit env { name := name, sections := nodes } = some (mdocText name (canonML lines)) ∧
    Parser.parse env (mdocText name (canonML lines)) = .ok (mdocAt name (canonML lines)) :=
  ⟨emit_mdoc env name hnodes hl.2,
   C01_maps_text_read env name _ hn hne (canonML_ok lines hl.1) (mfirstNotMeta_of _ (by rw [canonML_fst]; exact hm)) hnfc⟩

/-- the AST value of each scalar kind written as an inline-map value: value AND type. -/
theorem C04_maps_value_kinds (k s : Str) (b : Bool) (i : Int) :
    (MItem.entry k (.qstr s)).value = .imap [(k, .str s)] ∧ (MItem.entry k (.bare s)).value = .imap [(k, .str s)] ∧
    (MItem.entry k (.bool b)).value = .imap [(k, .bool b)] ∧ (MItem.entry k .null).value = .imap [(k, .null)] ∧
    (MItem.entry k (.int i)).value = .imap [(k, .int i)] := ⟨rfl, rfl, rfl, rfl, rfl⟩

/-- **C04 at inline-map positions: every scalar written as the value of an inline-map item is read back with the same value
and the same type.**  Item `j` of the list on line `i` being `key::v`, the list read back at section `i` holds exactly
`InlineMap{key: v}` at position `j` (`v.value`: `C04_maps_value_kinds`). -/
theorem C04_maps_scalar_survives (env : Env) (name : Str) (lines : List MLine) (nodes : List Node) (hnodes : MNodesOf lines nodes)
    (hn : isEnvName name = true) (hne : name ≠ "END".toList) (hl : MLinesOK lines) (hm : mfirstKeyNotMeta lines = true)
    (hnfc : ∀ l ∈ splitLines (mdocText name (canonML lines)), env.nfc l = l)
    (i : Nat) (hi : i < lines.length) (items : List MItem) (hv : lines[i].v = .list items)
    (j : Nat) (hj : j < items.length) (k : Str) (v : FScalar) (hx : items[j] = .entry k v) :
    ∃ text d' l c xs, emit env { name := name, sections := nodes } = some text ∧ Parser.parse env text = .ok d' ∧
      d'.sections[i]? = some (.assign lines[i].key (.list xs) l c [] none) ∧ xs[j]? = some (.imap [(k, v.value)]) := by
  obtain ⟨text, d', h1, h2, _, _, _, _, _, _, _, h10⟩ := C02_maps_content_preserved env name lines nodes hnodes hn hne hl hm hnfc
  obtain ⟨l, c, hsec⟩ := h10 i hi
  refine ⟨text, d', l, c, items.map MItem.value, h1, h2, ?_, ?_⟩
  · rw [hsec, hv]; rfl
  · rw [List.getElem?_map, List.getElem?_eq_getElem hj, hx]; rfl

/-! ### decidability of the hypotheses (for closed checks) -/

instance decMItemOK (x : MItem) : Decidable x.OK := by
  cases x with
  | scalar s => exact inferInstanceAs (Decidable s.OK)
  | entry k v => exact inferInstanceAs (Decidable (_ ∧ _ ∧ v.OK))
instance decMapValueOK (v : MValue) : Decidable v.OK := by
  cases v with
  | scalar s => exact inferInstanceAs (Decidable s.OK)
  | list items => exact inferInstanceAs (Decidable (∀ x ∈ items, x.OK))
instance decMLineOK (ln : MLine) : Decidable ln.OK := inferInstanceAs (Decidable (_ ∧ _ ∧ _))
instance decMItemEmitOK (x : MItem) : Decidable (MItemEmitOK x) := by
  cases x with
  | scalar s => exact inferInstanceAs (Decidable (ListDoc.ItemEmitOK s))
  | entry k v => cases v <;> (simp only [MItemEmitOK, EntryEmitOK]; infer_instance)
instance decMapLineEmitOK (ln : MLine) : Decidable ln.EmitOK := by
  obtain ⟨key, v⟩ := ln
  cases v with
  | scalar s => exact inferInstanceAs (Decidable (FLine.mk key s).EmitOK)
  | list items => exact inferInstanceAs (Decidable (∀ x ∈ items, MItemEmitOK x))
instance decMItemQuiet (x : MItem) : Decidable x.Quiet := by
  cases x with
  | scalar s => exact isTrue trivial
  | entry k v => cases v <;> (simp only [MItem.Quiet]; infer_instance)
instance decMValueQuiet (v : MValue) : Decidable v.Quiet := by
  cases v with
  | scalar s => exact isTrue trivial
  | list items => exact inferInstanceAs (Decidable (∀ x ∈ items, x.Quiet))

/-! ### non-vacuity: a two-line document mixing scalars and inline-map items -/

def mxLines : List MLine :=
  [ ⟨"K".toList, .list [.scalar (.bare "zz".toList), .entry "a".toList (.int 1),
      .entry "b".toList (.qstr "q \" \\ :: , ] x".toList), .scalar (.qstr "x y".toList), .entry "c".toList (.bool true),
      .entry "n".toList .null, .entry "w".toList (.bare "word".toList), .entry "a".toList (.int (-2))]⟩,
    ⟨"Z".toList, .list [.entry "only".toList (.qstr "".toList), .entry "PATTERN".toList (.qstr "abc".toList),
      .entry "ENUM".toList (.qstr "a b".toList)]⟩,
    ⟨"S".toList, .list [.scalar (.int 1), .scalar (.int 2)]⟩ ]

theorem mxLines_ok : MLinesOK mxLines := by
  refine ⟨?_, ?_⟩ <;> decide +kernel

def mapExText : Str := mdocText "DOC".toList (canonML mxLines)

example : mapExText =
    "===DOC===\nK::[\n  zz,\n  a::1,\n  b::\"q \\\" \\\\ :: , ] x\",\n  \"x y\",\n  c::true,\n  n::null,\n  w::word,\n  a::-2\n]\nZ::[\n  only::\"\",\n  PATTERN::\"abc\",\n  ENUM::\"a b\"\n]\nS::[1,2]\n===END===\n".toList := by
  decide +kernel

/-- every theorem applied (not evaluated) to the example, whatever positions the nodes carry. -/
example : emit Env.ascii { name := "DOC".toList, sections := mnodesAt 40 (canonML mxLines) } = some mapExText ∧
    Parser.parse Env.ascii mapExText = .ok (mdocAt "DOC".toList (canonML mxLines)) := by
  have hno := mnodesOf_mnodesAt (canonML mxLines) 40
  rw [canonML_fst] at hno
  exact C01_maps_canonical_is_readable Env.ascii "DOC".toList mxLines _ hno (by decide) (by decide) mxLines_ok (by decide) (fun _ _ => rfl)

example : ∃ text d', emit Env.ascii { name := "DOC".toList, sections := mnodesAt 40 (canonML mxLines) } = some text ∧
    Parser.parse Env.ascii text = .ok d' ∧ emit Env.ascii d' = some text := by
  have hno := mnodesOf_mnodesAt (canonML mxLines) 40
  rw [canonML_fst] at hno
  exact C01_maps_fixed_point Env.ascii "DOC".toList mxLines _ hno (by decide) (by decide) mxLines_ok (by decide) (fun _ _ => rfl)

example : ∃ text d', emit Env.ascii { name := "DOC".toList, sections := mnodesAt 40 (canonML mxLines) } = some text ∧
    Parser.parse Env.ascii text = .ok d' ∧ d'.sections.length = 3 := by
  have hno := mnodesOf_mnodesAt (canonML mxLines) 40
  rw [canonML_fst] at hno
  obtain ⟨text, d', h1, h2, _, _, _, _, _, _, h9, _⟩ :=
    C02_maps_content_preserved Env.ascii "DOC".toList mxLines _ hno (by decide) (by decide) mxLines_ok (by decide) (fun _ _ => rfl)
  exact ⟨text, d', h1, h2, h9⟩

/-- item 2 of line 0 is `b::"q \" \\ :: , ] x"`: read back as `InlineMap{b: that string}`. -/
example : ∃ text d' l c xs, emit Env.ascii { name := "DOC".toList, sections := mnodesAt 40 (canonML mxLines) } = some text ∧
    Parser.parse Env.ascii text = .ok d' ∧ d'.sections[0]? = some (.assign "K".toList (.list xs) l c [] none) ∧
    xs[2]? = some (.imap [("b".toList, .str "q \" \\ :: , ] x".toList)]) := by
  have hno := mnodesOf_mnodesAt (canonML mxLines) 40
  rw [canonML_fst] at hno
  exact C04_maps_scalar_survives Env.ascii "DOC".toList mxLines _ hno (by decide) (by decide) mxLines_ok (by decide) (fun _ _ => rfl)
    0 (by decide) _ rfl 2 (by decide) "b".toList (.qstr "q \" \\ :: , ] x".toList) rfl

example : mxLines.map (fun ln => ln.v.canonLayout) = [.multi 2, .multi 2, .inline] := by decide +kernel

/-! ### the remaining theorems applied to the example -/

/-- every list on one line: `K::[zz,a::1,b::"…",…]`. -/
def mxInline : List ML := mxLines.map fun ln => (ln, .inline)
theorem mxInline_fst : mxInline.map Prod.fst = mxLines := by decide +kernel

example : canonStrict Env.ascii (mdocText "DOC".toList mxInline) = .ok mapExText := by
  have := (C03_maps_layouts_converge Env.ascii "DOC".toList mxInline (by decide) (by decide)
    (by intro x hx; exact mxLines_ok.1 x.1 (by rw [← mxInline_fst]; exact List.mem_map.mpr ⟨x, hx, rfl⟩))
    (by intro x hx; exact mxLines_ok.2 x.1 (by rw [← mxInline_fst]; exact List.mem_map.mpr ⟨x, hx, rfl⟩))
    (by decide) (fun _ _ => rfl)).1
  rw [this, mxInline_fst]; rfl

/-- the lenient reader on the example (it holds `PATTERN::"abc"` and `ENUM::"a b"`, which draw warnings): same document. -/
example : ∃ ws, Parser.parseWithWarnings Env.ascii mapExText
    = .ok (mdocAt "DOC".toList (canonML mxLines), toksReps (mdocToks "DOC".toList (canonML mxLines)), ws) :=
  C01_maps_text_read_lenient_any Env.ascii "DOC".toList (canonML mxLines) (by decide) (by decide)
    (canonML_ok mxLines mxLines_ok.1) (by decide) (fun _ _ => rfl)

/-- … and with the exact warnings, on the example itself: one `constructor_misuse` per quoted string under a constructor name,
at the position of its key (lines 14 and 15 of the canonical text, column 3). -/
example : Parser.parseWithWarnings Env.ascii mapExText
    = .ok (mdocAt "DOC".toList (canonML mxLines), toksReps (mdocToks "DOC".toList (canonML mxLines)),
        [.constructorMisuse "PATTERN".toList "abc".toList 14 3, .constructorMisuse "ENUM".toList "a b".toList 15 3]) := by
  have h := (C01_maps_text_read_lenient_exact Env.ascii "DOC".toList (canonML mxLines) (by decide) (by decide)
    (canonML_ok mxLines mxLines_ok.1) (by decide) (fun _ _ => rfl)).1
  have e : xdocWarns [] (toXLines 2 (canonML mxLines))
      = [.constructorMisuse "PATTERN".toList "abc".toList 14 3, .constructorMisuse "ENUM".toList "a b".toList 15 3] := by
    decide +kernel
  rw [← e]; exact h

/-- … and with the exact warnings on a document whose items draw none. -/
def mqLines : List MLine :=
  [ ⟨"K".toList, .list [.entry "a".toList (.int 1), .scalar (.bare "zz".toList), .entry "b".toList (.qstr "x , y".toList)]⟩,
    ⟨"K".toList, .list [.entry "w".toList (.bare "word".toList)]⟩ ]
theorem mqLines_ok : MLinesOK mqLines := by
  refine ⟨?_, ?_⟩ <;> decide +kernel
example : Parser.parseWithWarnings Env.ascii (mdocText "D".toList (canonML mqLines))
    = .ok (mdocAt "D".toList (canonML mqLines), toksReps (mdocToks "D".toList (canonML mqLines)),
        Octave.ListDocParse.vdocWarns [] (toVLinesM 2 (canonML mqLines))) :=
  (C01_maps_text_read_lenient Env.ascii "D".toList (canonML mqLines) (by decide) (by decide)
    (canonML_ok mqLines mqLines_ok.1) (by decide +kernel) (by decide) (fun _ _ => rfl)).1

/-- token level, exact warnings: `[PATTERN::abc]` at ANY positions is read as `[{PATTERN: "abc"}]` + one `pattern_autoquote`. -/
example (st : Parser.PState) (lb kt a rb n : Token) (k : List Token) (l c : Nat)
    (hlb : lb.type = .listStart) (hkt : kt.type = .identifier) (hkv : kt.value = .str "PATTERN".toList) (ha : a.type = .assign)
    (hrb : rb.type = .listEnd)
    (hr : st.rest = [lb, kt, a, (FlatParse.Scalar.word "abc".toList).tok l c, rb] ++ n :: k)
    (hd : st.depth + 1 < 100) (hq : st.threshold = 0 ∨ st.depth + 1 < st.threshold) :
    Parser.parseValue 7 st = .ok (.list [.imap [("PATTERN".toList, .str "abc".toList)]],
      { st with rest := n :: k, prev := some rb, pos := st.pos + 5,
                warnings := [.patternAutoquote "PATTERN".toList "abc".toList kt.line kt.col] ++ st.warnings }) := by
  have hh : MHead [PItem.entry kt a "PATTERN".toList (.word "abc".toList) l c]
      ([] ++ ((PItem.entry kt a "PATTERN".toList (.word "abc".toList) l c).toks ++ ([] ++ [rb]))) :=
    MHead.last [] _ [] rb (fun _ h => by cases h) (fun _ h => by cases h) hrb ⟨hkt, hkv, ha⟩
  have := parseValue_mlistToks (MListToks.items lb _ _ hlb hh) st n k 7 hr (by simp) hd hq
  rw [this]
  rfl

/-! ### the whole model evaluated on the same document (independent of the theorems) -/

example : (match emit Env.ascii { name := "DOC".toList, sections := mnodesAt 40 (canonML mxLines) } with
    | some t => t == mapExText | none => false) = true := by decide +kernel
example : (match tokenize Env.ascii mapExText with
    | .ok p => p == (mdocToks "DOC".toList (canonML mxLines), toksReps (mdocToks "DOC".toList (canonML mxLines))) | .error _ => false) = true := by
  decide +kernel
example : isOkStr (canonStrict Env.ascii mapExText) mapExText = true := by decide +kernel
example : isOkStr (canonLenient Env.ascii mapExText) mapExText = true := by decide +kernel
/-- the one-line spelling of the same document converges on the canonical text (theorem and evaluation). -/
example : isOkStr (canonStrict Env.ascii (mdocText "DOC".toList (mxLines.map fun ln => (ln, .inline)))) mapExText = true := by decide +kernel

/-! ### the edge of the class: the model at the excluded points (the real code does the same, see the report) -/

/-- a reserved word as key: `true::1` is read as THREE items, silently. -/
example : isOkStr (canonStrict Env.ascii "===D===\nK::[true::1]\n===END===\n".toList) "===D===\nK::[\n  true,\n  \"::\",\n  1\n]\n===END===\n".toList = true := by
  decide +kernel
/-- an empty value is not Absent: the comma becomes the value. -/
example : isOkStr (canonStrict Env.ascii "===D===\nK::[a::,b::1]\n===END===\n".toList) "===D===\nK::[\n  a::\",\",\n  b::1\n]\n===END===\n".toList = true := by
  decide +kernel
/-- a bare word under `PATTERN` is force-quoted by the emitter (same value). -/
example : isOkStr (canonStrict Env.ascii "===D===\nK::[PATTERN::abc]\n===END===\n".toList) "===D===\nK::[\n  PATTERN::\"abc\"\n]\n===END===\n".toList = true := by
  decide +kernel
/-- `Quiet` is not needed for the bytes: a quoted string under a constructor name is a fixed point (one warning, lenient). -/
example : isOkStr (canonStrict Env.ascii "===D===\nK::[\n  ENUM::\"a b\"\n]\n===END===\n".toList) "===D===\nK::[\n  ENUM::\"a b\"\n]\n===END===\n".toList = true := by
  decide +kernel
/-- a MULTI-pair inline map (only an API-built AST has one) is written `a::1,b::2` on ONE item line and read back as TWO maps:
the text is not a fixed point, it converges in one more step. -/
example : emit Env.ascii { name := "D".toList, sections := [.assign "K".toList (.list [.imap [("a".toList, .int 1), ("b".toList, .int 2)]]) 0 0 [] none] }
    = some "===D===\nK::[\n  a::1,b::2\n]\n===END===\n".toList := by decide +kernel
example : isOkStr (canonStrict Env.ascii "===D===\nK::[\n  a::1,b::2\n]\n===END===\n".toList) "===D===\nK::[\n  a::1,\n  b::2\n]\n===END===\n".toList = true := by
  decide +kernel
/-- an inline-map item alone forces the multi-line layout (`needsMultiline_mitems`). -/
example : (MValue.list [.entry "a".toList (.int 1)]).canonLayout = .multi 2 := by decide +kernel
/-- duplicate keys in different items never meet: two maps. -/
example : isOkStr (canonStrict Env.ascii "===D===\nK::[a::1,a::2]\n===END===\n".toList) "===D===\nK::[\n  a::1,\n  a::2\n]\n===END===\n".toList = true := by
  decide +kernel

/-! ### the emitter is injective on these documents -/

theorem mnodesAt_inj : ∀ (a b : List ML) (l₁ l₂ : Nat), mnodesAt l₁ a = mnodesAt l₂ b →
    a.map (fun x => (x.1.key, x.1.v.value)) = b.map (fun x => (x.1.key, x.1.v.value)) := by
  intro a
  induction a with
  | nil =>
    intro b l₁ l₂ h
    cases b with
    | nil => rfl
    | cons y r => simp [mnodesAt] at h
  | cons x r ih =>
    intro b l₁ l₂ h
    cases b with
    | nil => simp [mnodesAt] at h
    | cons y r₂ =>
      simp only [mnodesAt, List.cons.injEq, MLine.node, Node.assign.injEq] at h
      obtain ⟨⟨hk, hv, _⟩, hr⟩ := h
      simp only [List.map_cons, List.cons.injEq, Prod.mk.injEq]
      exact ⟨⟨hk, hv⟩, ih r₂ _ _ hr⟩

/-- **Two such documents with the same canonical text have the same content** (name, keys in order, values with their
types, list items in order with their types): `emit` is injective up to node positions — the hypothesis of the seal theorems
of C15.  Proof: the strict reader is a left inverse. -/
theorem C15_maps_emit_injective (env : Env) (n₁ n₂ : Str) (l₁ l₂ : List MLine) (ns₁ ns₂ : List Node)
    (hno₁ : MNodesOf l₁ ns₁) (hno₂ : MNodesOf l₂ ns₂)
    (hn₁ : isEnvName n₁ = true) (hne₁ : n₁ ≠ "END".toList) (hl₁ : MLinesOK l₁) (hm₁ : mfirstKeyNotMeta l₁ = true)
    (hnfc₁ : ∀ l ∈ splitLines (mdocText n₁ (canonML l₁)), env.nfc l = l)
    (hn₂ : isEnvName n₂ = true) (hne₂ : n₂ ≠ "END".toList) (hl₂ : MLinesOK l₂) (hm₂ : mfirstKeyNotMeta l₂ = true)
    (hnfc₂ : ∀ l ∈ splitLines (mdocText n₂ (canonML l₂)), env.nfc l = l)
    (h : emit env { name := n₁, sections := ns₁ } = emit env { name := n₂, sections := ns₂ }) :
    n₁ = n₂ ∧ l₁.map (fun ln => (ln.key, ln.v.value)) = l₂.map (fun ln => (ln.key, ln.v.value)) := by
  rw [emit_mdoc env n₁ hno₁ hl₁.2, emit_mdoc env n₂ hno₂ hl₂.2] at h
  have ht : mdocText n₁ (canonML l₁) = mdocText n₂ (canonML l₂) := by simpa using h
  have r₁ := C01_maps_text_read env n₁ _ hn₁ hne₁ (canonML_ok l₁ hl₁.1) (mfirstNotMeta_of _ (by rw [canonML_fst]; exact hm₁)) hnfc₁
  have r₂ := C01_maps_text_read env n₂ _ hn₂ hne₂ (canonML_ok l₂ hl₂.1) (mfirstNotMeta_of _ (by rw [canonML_fst]; exact hm₂)) hnfc₂
  rw [ht, r₂] at r₁
  have hd : mdocAt n₂ (canonML l₂) = mdocAt n₁ (canonML l₁) := by simpa using r₁
  simp only [mdocAt, Document.mk.injEq] at hd
  have := mnodesAt_inj _ _ _ _ hd.2.2.2.1
  simp only [canonML, List.map_map, Function.comp_def] at this
  exact ⟨hd.1.symm, this.symm⟩


/-- injectivity applied: whatever positions two ASTs of the example carry, equal text means equal content. -/
example (ns : List Node) (l₂ : List MLine) (hno : MNodesOf l₂ ns) (hl₂ : MLinesOK l₂) (hm₂ : mfirstKeyNotMeta l₂ = true)
    (h : emit Env.ascii { name := "DOC".toList, sections := mnodesAt 7 (canonML mxLines) } = emit Env.ascii { name := "DOC".toList, sections := ns }) :
    mxLines.map (fun ln => (ln.key, ln.v.value)) = l₂.map (fun ln => (ln.key, ln.v.value)) := by
  have hno₁ := mnodesOf_mnodesAt (canonML mxLines) 7
  rw [canonML_fst] at hno₁
  exact (C15_maps_emit_injective Env.ascii "DOC".toList "DOC".toList mxLines l₂ _ ns hno₁ hno (by decide) (by decide) mxLines_ok
    (by decide) (fun _ _ => rfl) (by decide) (by decide) hl₂ hm₂ (fun _ _ => rfl) h).2


end Octave.C01
