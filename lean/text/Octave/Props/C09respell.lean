/-
C09 (reader half) — two spellings of one document are read as documents with the SAME CONTENT; hence every validator that is a
function of content (the validator engine's `C09_congr` / `C09_content_normal`: `validate` depends only on `Doc.content`) gives
both spellings the same verdict.

`Document.content` (`Lemmas/ContentErase`) is the text-engine twin of the validator engine's `Doc.content`: line / column /
comments of every node erased, values erased recursively, the document's trailing comments erased.

For each spelling family of this engine that has a parser-level theorem giving the DOCUMENT read (not only the canonical bytes):

  family                       texts                         read theorem used                     here
  flat line spellings          `Spell.spellText name sl ds`  `C03_flat_spelled_read(_lenient)`     `C09_flat_same_content`
  … text cut after last value  `Spell.spellTextCut …`        `C03_flat_cut_read`                   `C09_flat_cut_same_content`
  block trees, all freedoms    `fdocText name nodes ds`      `C03_tree_framed_read`                `C09_tree_same_content`
  block trees, widths only     `idocText name nodes`         `C03_tree_indent_read(_lenient)`      `C09_indent_same_content`
  list layouts                 `ldocText name ls`            `C01_list_text_read(_lenient)`        `C09_list_same_content`
  operator aliases             `edocText name sl`            `C03_expr_spelled_read(_lenient)`     `C09_alias_same_content`
  multi-word bare values       `mwdocText name sl`           `C07_multiword_read(_lenient)`        `C09_multiword_same_content`

each `…_same_content` theorem says, for EVERY document of the class and EVERY TWO spellings `s₁ s₂` of it: both entry points
(`parse`, `parse_with_warnings`) succeed on both texts, and the documents read have the same content — given explicitly
(`respellFlatContent`, `respellTreeContent`, …: a function of the document's content alone, no spelling parameter).  The
corollary `…_vs_canonical` takes the canonical text (the spelling with every freedom off) as `s₂`.

The composition with an abstract validator: `Spells env s c` ("the text `s` is, in one of the families above, a spelling of the
document with content `c`"; one constructor per family, carrying that family's hypotheses) and `C09_respell_invariant` — for any
`validate : Document → α` that is a function of content and any two texts with `Spells env s₁ c`, `Spells env s₂ c` (the SAME
`c`; the two texts may come from different families), `parse` accepts both and `validate (parse s₁) = validate (parse s₂)`;
`C09_respell_invariant_lenient` the same through `parse_with_warnings` (and the lenient verdict is the strict one);
`C09_respell_invariant_map` in `Except.map` form; `respell_spells_unique`: the content a text spells is unique.
`respell_treeContent_of_flat`, `respell_list_of_flat`, `respell_expr_of_flat`: the content functions of the families agree on
their common documents, so that texts of different families can be compared.

Examples (end of file): every family on the ≥ 3-line example documents of its C03 / C07 / C01 file — the theorems applied, and
the whole model evaluated on the literal texts (`respellSameContentB`, sound by `respellSameContentB_sound`); a validator that reads
positions gets DIFFERENT verdicts on two spellings (so `hcontent` is needed); texts with different content are told apart.

Real code at the excluded points (probed with /venv/bin/python, HEAD of /repo): block width 0 and a later sibling shallower than
the first child are NOT spellings of the same tree (children leave the block: content differs) — `widthsOkList` / `topOk` are
necessary; a first key `META` with `::` is rejected with E001 by both spellings; a reserved-prefix key with E005; the name `END`
gives an empty `INFERRED` document for both; an indented `===END===` behind a block (excluded by `hds`, a limit of the token
accounting of `C03_tree_framed_read`) IS read with the same content; NFC-unstable text (excluded by `hnfc`, finding F16 on the
C03 side) was read with the same content at the probed points; a comment line directly in front of a top-level `META:` block
changes the content (notes/C09.md: the respeller never emits it) — outside every family here.

Hypotheses: exactly those of the read theorems used (`isEnvName name`, `name ≠ "END"`, the class predicates `…OK`, first key not
`META`, the indentation class, NFC stability of the spelled text); NO `EmitOK` hypothesis (nothing is emitted here).
-/
import Octave.Lemmas.ContentErase
import Octave.Props.C03flat
import Octave.Props.C03tree
import Octave.Props.C03indent
import Octave.Props.C03expr
import Octave.Props.C07multiword
import Octave.Props.C01lists
namespace Octave.C09
open Octave Lexer Emitter

/-! ### generic: from "same content" to "same verdict" -/

/-- the content of what an entry point returns (errors kept as they are). -/
def respellContent (r : Except Exc Document) : Except Exc Document := r.map Document.content

/-- … of what `parse_with_warnings` returns (the document only: repairs and warnings are spelling receipts). -/
def respellContentW (r : Except Exc (Document × List Repair × List Parser.Warning)) : Except Exc Document :=
  r.map fun p => p.1.content

theorem respellContent_ok (d : Document) : respellContent (.ok d) = .ok d.content := rfl
theorem respellContentW_ok (d : Document) (reps : List Repair) (ws : List Parser.Warning) :
    respellContentW (.ok (d, reps, ws)) = .ok d.content := rfl

/-- a validator that is a function of content gives two reads with the same content the same verdict. -/
theorem respell_validate_of_content {α : Type} (validate : Document → α)
    (hcontent : ∀ d₁ d₂ : Document, d₁.content = d₂.content → validate d₁ = validate d₂)
    (r₁ r₂ : Except Exc Document) (h : respellContent r₁ = respellContent r₂) :
    r₁.map validate = r₂.map validate := by
  cases r₁ with
  | error e₁ =>
    cases r₂ with
    | error e₂ => simpa [respellContent, Except.map] using h
    | ok d₂ => simp [respellContent, Except.map] at h
  | ok d₁ =>
    cases r₂ with
    | error e₂ => simp [respellContent, Except.map] at h
    | ok d₂ =>
      have : d₁.content = d₂.content := by simpa [respellContent, Except.map] using h
      simp only [Except.map, hcontent d₁ d₂ this]

/-- every function of the form `f ∘ content` qualifies (so does the validator engine's `validate`, by `C09_content_normal`). -/
theorem respell_hcontent_of_factor {α : Type} (f : Document → α) :
    ∀ d₁ d₂ : Document, d₁.content = d₂.content → (f ∘ Document.content) d₁ = (f ∘ Document.content) d₂ := by
  intro d₁ d₂ h
  simp only [Function.comp, h]

/-! ### flat documents: every line / frame spelling -/

section flat
open Spell SpellParse C03

/-- content of a flat document: one assignment per line — key and value. -/
def respellFlatNodes : List FLine → List Node
  | [] => []
  | ln :: ls => .assign ln.key ln.v.value 0 0 [] none :: respellFlatNodes ls

def respellFlatContent (name : Str) (lines : List FLine) : Document := { name := name, sections := respellFlatNodes lines }

theorem respell_flatNodes (pos : Nat → Nat × Nat) : ∀ (lines : List FLine) (i : Nat),
    Node.eraseList (flatNodes pos i lines) = respellFlatNodes lines
  | [], _ => rfl
  | ln :: ls, i => by
    simp only [flatNodes, FLine.node, Node.eraseList, Node.erase_assign, respellFlatNodes, respell_flatNodes pos ls (i + 1)]

/-- the positions given to the nodes of a flat document are no part of its content. -/
theorem respell_flatDoc_content (name : Str) (pos : Nat → Nat × Nat) (lines : List FLine) :
    (flatDoc name pos lines).content = respellFlatContent name lines := by
  simp only [Document.content, flatDoc, respell_flatNodes, respellFlatContent, MetaVal.erasePairs]

/-- **one spelling**: both entry points read a document whose content is `respellFlatContent name lines` — no trace of the
spelling. -/
theorem respell_flat_content (env : Env) (name : Str) (sl : List SL) (ds : DSpell)
    (hn : isEnvName name = true) (hne : name ≠ "END".toList) (hok : ∀ x ∈ sl, x.1.OK)
    (hm : C01.firstNotMeta (linesOf sl) = true)
    (hnfc : ∀ l ∈ splitLines (spellText name sl ds), env.nfc l = l) :
    respellContent (Parser.parse env (spellText name sl ds)) = .ok (respellFlatContent name (linesOf sl)) ∧
    respellContentW (Parser.parseWithWarnings env (spellText name sl ds)) = .ok (respellFlatContent name (linesOf sl)) := by
  rw [C03_flat_spelled_read env name sl ds hn hne hok hm hnfc, C03_flat_spelled_read_lenient env name sl ds hn hne hok hm hnfc,
    respellContent_ok, respellContentW_ok, respell_flatDoc_content]
  exact ⟨rfl, rfl⟩

/-- **C09 on flat documents: any two spellings of the same flat document are read as documents with the same content**
(indentation, spaces around `::`, trailing spaces, blank lines, quoted plain words, triple quotes, every frame spelling —
each line independently), by `parse` and by `parse_with_warnings`; neither read fails. -/
theorem C09_flat_same_content (env : Env) (name : Str) (sl₁ sl₂ : List SL) (ds₁ ds₂ : DSpell)
    (hsame : linesOf sl₁ = linesOf sl₂)
    (hn : isEnvName name = true) (hne : name ≠ "END".toList) (hok : ∀ ln ∈ linesOf sl₁, ln.OK)
    (hm : C01.firstNotMeta (linesOf sl₁) = true)
    (hnfc₁ : ∀ l ∈ splitLines (spellText name sl₁ ds₁), env.nfc l = l)
    (hnfc₂ : ∀ l ∈ splitLines (spellText name sl₂ ds₂), env.nfc l = l) :
    respellContent (Parser.parse env (spellText name sl₁ ds₁)) = respellContent (Parser.parse env (spellText name sl₂ ds₂)) ∧
    respellContentW (Parser.parseWithWarnings env (spellText name sl₁ ds₁))
      = respellContentW (Parser.parseWithWarnings env (spellText name sl₂ ds₂)) ∧
    respellContent (Parser.parse env (spellText name sl₁ ds₁)) = .ok (respellFlatContent name (linesOf sl₁)) := by
  have m1 : ∀ x ∈ sl₁, x.1.OK := fun x hx => hok _ (List.mem_map.mpr ⟨x, hx, rfl⟩)
  have m2 : ∀ x ∈ sl₂, x.1.OK := fun x hx => hok _ (by rw [hsame]; exact List.mem_map.mpr ⟨x, hx, rfl⟩)
  have h1 := respell_flat_content env name sl₁ ds₁ hn hne m1 hm hnfc₁
  have h2 := respell_flat_content env name sl₂ ds₂ hn hne m2 (by rw [← hsame]; exact hm) hnfc₂
  rw [← hsame] at h2
  exact ⟨by rw [h1.1, h2.1], by rw [h1.2, h2.2], h1.1⟩

/-- … in particular a spelling and the canonical text `flatText` (the spelling with every freedom switched off). -/
theorem C09_flat_vs_canonical (env : Env) (name : Str) (sl : List SL) (ds : DSpell)
    (hn : isEnvName name = true) (hne : name ≠ "END".toList) (hok : ∀ x ∈ sl, x.1.OK)
    (hm : C01.firstNotMeta (linesOf sl) = true)
    (hnfc : ∀ l ∈ splitLines (spellText name sl ds), env.nfc l = l)
    (hnfc0 : ∀ l ∈ splitLines (flatText name (linesOf sl)), env.nfc l = l) :
    respellContent (Parser.parse env (spellText name sl ds)) = respellContent (Parser.parse env (flatText name (linesOf sl))) ∧
    respellContentW (Parser.parseWithWarnings env (spellText name sl ds))
      = respellContentW (Parser.parseWithWarnings env (flatText name (linesOf sl))) := by
  have h0 := spellText_canon name (linesOf sl)
  have hl : linesOf ((linesOf sl).map fun ln => (ln, LSpell.canon)) = linesOf sl := by
    simp [linesOf, List.map_map, Function.comp_def]
  have := C09_flat_same_content env name sl ((linesOf sl).map fun ln => (ln, LSpell.canon)) ds DSpell.canon hl.symm hn hne
    (fun ln hl' => by obtain ⟨x, hx, rfl⟩ := List.mem_map.mp hl'; exact hok x hx) hm hnfc (by rw [h0]; exact hnfc0)
  rw [h0] at this
  exact ⟨this.1, this.2.1⟩

/-- the text that stops right after the last line's value (no `===END===`, no final newline) has the same content as every
complete spelling of the same lines. -/
theorem C09_flat_cut_same_content (env : Env) (name : Str) (sl : List SL) (ln : FLine) (sp : LSpell) (ds : DSpell)
    (sl₂ : List SL) (ds₂ : DSpell) (hsame : linesOf (sl ++ [(ln, sp)]) = linesOf sl₂)
    (hn : isEnvName name = true) (hne : name ≠ "END".toList) (hok : ∀ x ∈ sl, x.1.OK) (hln : ln.OK)
    (hm : C01.firstNotMeta (linesOf (sl ++ [(ln, sp)])) = true)
    (hnfc : ∀ l ∈ splitLines (spellTextCut name sl ln sp ds), env.nfc l = l)
    (hnfc₂ : ∀ l ∈ splitLines (spellText name sl₂ ds₂), env.nfc l = l) :
    respellContent (Parser.parse env (spellTextCut name sl ln sp ds)) = respellContent (Parser.parse env (spellText name sl₂ ds₂)) ∧
    respellContentW (Parser.parseWithWarnings env (spellTextCut name sl ln sp ds))
      = respellContentW (Parser.parseWithWarnings env (spellText name sl₂ ds₂)) := by
  obtain ⟨h1, h2⟩ := C03_flat_cut_read env name sl ln sp ds hn hne hok hln hm hnfc
  have hok₂ : ∀ x ∈ sl₂, x.1.OK := by
    intro x hx
    have : x.1 ∈ linesOf (sl ++ [(ln, sp)]) := by rw [hsame]; exact List.mem_map.mpr ⟨x, hx, rfl⟩
    obtain ⟨y, hy, e⟩ := List.mem_map.mp this
    rw [← e]
    rcases List.mem_append.mp hy with h | h
    · exact hok y h
    · have : y = (ln, sp) := by simpa using h
      rw [this]; exact hln
  have h3 := respell_flat_content env name sl₂ ds₂ hn hne hok₂ (by rw [← hsame]; exact hm) hnfc₂
  rw [h1, h2, h3.1, h3.2, respellContent_ok, respellContentW_ok, respell_flatDoc_content, hsame]
  exact ⟨rfl, rfl⟩

end flat

/-! ### block trees: every spelling (indentation widths and over-indentation, line spellings, frame) -/

section tree
open Spell SpellParse C03

mutual
/-- content of a block tree: assignments and blocks — keys, nesting, order, values. -/
def respellTreeNode : TNode → Node
  | .line ln => .assign ln.key ln.v.value 0 0 [] none
  | .block key cs => .block key (respellTreeNodes cs) 0 0 [] none
def respellTreeNodes : List TNode → List Node
  | [] => []
  | n :: ns => respellTreeNode n :: respellTreeNodes ns
end

def respellTreeContent (name : Str) (nodes : List TNode) : Document := { name := name, sections := respellTreeNodes nodes }

mutual
/-- an AST that carries a tree "up to positions" (`treeMatches`, the conclusion of the tree read theorems) has exactly the
tree's content. -/
theorem respell_erase_of_matches : ∀ (t : TNode) (n : Node), t.Matches n → n.erase = respellTreeNode t
  | .line ln, n, h => by
    simp only [TNode.Matches] at h
    obtain ⟨l, c, rfl⟩ := h
    simp only [Node.erase_assign, respellTreeNode]
  | .block key cs, n, h => by
    simp only [TNode.Matches] at h
    obtain ⟨ch, l, c, rfl, hm⟩ := h
    simp only [Node.erase, respellTreeNode, respell_eraseList_of_matches cs ch hm]
theorem respell_eraseList_of_matches : ∀ (ts : List TNode) (ns : List Node), treeMatches ts ns →
    Node.eraseList ns = respellTreeNodes ts
  | [], ns, h => by
    simp only [treeMatches] at h
    subst h; rfl
  | t :: ts, ns, h => by
    simp only [treeMatches] at h
    obtain ⟨n, ns', rfl, hm, hr⟩ := h
    simp only [Node.eraseList, respellTreeNodes, respell_erase_of_matches t n hm, respell_eraseList_of_matches ts ns' hr]
end

/-- a document that is "the same document up to positions" as the tree (the conclusion of `C03_tree_spelled_same_document` /
`C03_tree_indent_same_document`) has the tree's content. -/
theorem respell_content_of_matches (name : Str) (ts : List TNode) (d : Document)
    (h1 : d.name = name) (h2 : d.metaKv = []) (h3 : d.hasSeparator = false) (h5 : d.grammarVersion = none)
    (h6 : d.rawFrontmatter = none) (h7 : treeMatches ts d.sections) : d.content = respellTreeContent name ts := by
  obtain ⟨n, m, hs, ss, g, f, tc⟩ := d
  simp only at h1 h2 h3 h5 h6 h7
  subst h1 h2 h3 h5 h6
  simp only [Document.content, respellTreeContent, respell_eraseList_of_matches ts ss h7, MetaVal.erasePairs]

/-- **one spelling** (tree spelling `nodes`, frame spelling `ds`): content = the erased tree's content. -/
theorem respell_tree_content (env : Env) (name : Str) (nodes : List TreeSpell.SNode) (ds : DSpell)
    (hn : isEnvName name = true) (hne : name ≠ "END".toList) (hok : treeOK (TreeSpell.eraseList nodes))
    (hw : TreeSpell.topOk nodes = true) (hm : firstKeyIsMeta (TreeSpell.eraseList nodes) = false) (hds : ds.endIndent = 0)
    (hnfc : ∀ l ∈ splitLines (TreeSpell.fdocText name nodes ds), env.nfc l = l) :
    respellContent (Parser.parse env (TreeSpell.fdocText name nodes ds))
      = .ok (respellTreeContent name (TreeSpell.eraseList nodes)) ∧
    respellContentW (Parser.parseWithWarnings env (TreeSpell.fdocText name nodes ds))
      = .ok (respellTreeContent name (TreeSpell.eraseList nodes)) := by
  obtain ⟨h1, ws, h2⟩ := C03_tree_framed_read env name nodes ds hn hne hok hw hm hds hnfc
  have hc := respell_content_of_matches name (TreeSpell.eraseList nodes) (TreeSpell.sdoc name (firstLine ds) nodes)
    rfl rfl rfl rfl rfl (TreeSpell.snodes_matches nodes 0 (firstLine ds))
  rw [h1, h2, respellContent_ok, respellContentW_ok, hc]
  exact ⟨rfl, rfl⟩

/-- **C09 on nested blocks: any two spellings of the same block tree are read as documents with the same content** — per block
its own indentation width, per node over-indentation within the reader's class (`topOk`), per line every `LSpell` freedom, and
every frame spelling (`===END===` not indented) — by `parse` and by `parse_with_warnings`; neither read fails. -/
theorem C09_tree_same_content (env : Env) (name : Str) (s₁ s₂ : List TreeSpell.SNode) (ds₁ ds₂ : DSpell)
    (hsame : TreeSpell.eraseList s₁ = TreeSpell.eraseList s₂)
    (hn : isEnvName name = true) (hne : name ≠ "END".toList) (hok : treeOK (TreeSpell.eraseList s₁))
    (hm : firstKeyIsMeta (TreeSpell.eraseList s₁) = false)
    (hw₁ : TreeSpell.topOk s₁ = true) (hw₂ : TreeSpell.topOk s₂ = true)
    (hds₁ : ds₁.endIndent = 0) (hds₂ : ds₂.endIndent = 0)
    (hnfc₁ : ∀ l ∈ splitLines (TreeSpell.fdocText name s₁ ds₁), env.nfc l = l)
    (hnfc₂ : ∀ l ∈ splitLines (TreeSpell.fdocText name s₂ ds₂), env.nfc l = l) :
    respellContent (Parser.parse env (TreeSpell.fdocText name s₁ ds₁))
      = respellContent (Parser.parse env (TreeSpell.fdocText name s₂ ds₂)) ∧
    respellContentW (Parser.parseWithWarnings env (TreeSpell.fdocText name s₁ ds₁))
      = respellContentW (Parser.parseWithWarnings env (TreeSpell.fdocText name s₂ ds₂)) ∧
    respellContent (Parser.parse env (TreeSpell.fdocText name s₁ ds₁))
      = .ok (respellTreeContent name (TreeSpell.eraseList s₁)) := by
  have h1 := respell_tree_content env name s₁ ds₁ hn hne hok hw₁ hm hds₁ hnfc₁
  have h2 := respell_tree_content env name s₂ ds₂ hn hne (hsame ▸ hok) hw₂ (hsame ▸ hm) hds₂ hnfc₂
  rw [← hsame] at h2
  exact ⟨by rw [h1.1, h2.1], by rw [h1.2, h2.2], h1.1⟩

/-- … in particular a spelling and the canonical text `treeDocText` of the tree it spells. -/
theorem C09_tree_vs_canonical (env : Env) (name : Str) (nodes : List TreeSpell.SNode) (ds : DSpell)
    (hn : isEnvName name = true) (hne : name ≠ "END".toList) (hok : treeOK (TreeSpell.eraseList nodes))
    (hw : TreeSpell.topOk nodes = true) (hm : firstKeyIsMeta (TreeSpell.eraseList nodes) = false) (hds : ds.endIndent = 0)
    (hnfc : ∀ l ∈ splitLines (TreeSpell.fdocText name nodes ds), env.nfc l = l)
    (hnfc0 : ∀ l ∈ splitLines (treeDocText name (TreeSpell.eraseList nodes)), env.nfc l = l) :
    respellContent (Parser.parse env (TreeSpell.fdocText name nodes ds))
      = respellContent (Parser.parse env (treeDocText name (TreeSpell.eraseList nodes))) ∧
    respellContentW (Parser.parseWithWarnings env (TreeSpell.fdocText name nodes ds))
      = respellContentW (Parser.parseWithWarnings env (treeDocText name (TreeSpell.eraseList nodes))) := by
  have h0 : TreeSpell.fdocText name (canonSList (TreeSpell.eraseList nodes)) DSpell.canon
      = treeDocText name (TreeSpell.eraseList nodes) := by
    rw [fdocText_canon, sdocText_canon]
  have he := erase_canonSList (TreeSpell.eraseList nodes)
  have := C09_tree_same_content env name nodes (canonSList (TreeSpell.eraseList nodes)) ds DSpell.canon he.symm hn hne hok hm hw
    (topOk_canonSList _) hds rfl hnfc (by rw [h0]; exact hnfc0)
  rw [h0] at this
  exact ⟨this.1, this.2.1⟩

/-! #### indentation widths only (`Props/C03indent`: the parser's side condition at arbitrary positions) -/

/-- **C09, indentation widths: any two width assignments (2-space, 4-space, any mix ≥ 1, per block) of the same block tree are
read as documents with the same content.** -/
theorem C09_indent_same_content (env : Env) (name : Str) (s₁ s₂ : List Indent.INode)
    (hsame : Indent.eraseList s₁ = Indent.eraseList s₂)
    (hn : isEnvName name = true) (hne : name ≠ "END".toList) (hok : treeOK (Indent.eraseList s₁))
    (hm : firstKeyIsMeta (Indent.eraseList s₁) = false)
    (hw₁ : Indent.widthsOkList s₁ = true) (hw₂ : Indent.widthsOkList s₂ = true)
    (hnfc₁ : ∀ l ∈ splitLines (Indent.idocText name s₁), env.nfc l = l)
    (hnfc₂ : ∀ l ∈ splitLines (Indent.idocText name s₂), env.nfc l = l) :
    respellContent (Parser.parse env (Indent.idocText name s₁)) = respellContent (Parser.parse env (Indent.idocText name s₂)) ∧
    respellContentW (Parser.parseWithWarnings env (Indent.idocText name s₁))
      = respellContentW (Parser.parseWithWarnings env (Indent.idocText name s₂)) ∧
    respellContent (Parser.parse env (Indent.idocText name s₁)) = .ok (respellTreeContent name (Indent.eraseList s₁)) := by
  have one : ∀ (s : List Indent.INode), treeOK (Indent.eraseList s) → firstKeyIsMeta (Indent.eraseList s) = false →
      Indent.widthsOkList s = true → (∀ l ∈ splitLines (Indent.idocText name s), env.nfc l = l) →
      respellContent (Parser.parse env (Indent.idocText name s)) = .ok (respellTreeContent name (Indent.eraseList s)) ∧
      respellContentW (Parser.parseWithWarnings env (Indent.idocText name s)) = .ok (respellTreeContent name (Indent.eraseList s)) := by
    intro s hok hm hw hnfc
    obtain ⟨a1, a2, a3, _, a5, a6, a7⟩ := indentDoc_same name s
    rw [C03_tree_indent_read env name s hn hne hok hw hm hnfc, C03_tree_indent_read_lenient env name s hn hne hok hw hm hnfc,
      respellContent_ok, respellContentW_ok, respell_content_of_matches name _ _ a1 a2 a3 a5 a6 a7]
    exact ⟨rfl, rfl⟩
  have h1 := one s₁ hok hm hw₁ hnfc₁
  have h2 := one s₂ (hsame ▸ hok) (hsame ▸ hm) hw₂ hnfc₂
  rw [← hsame] at h2
  exact ⟨by rw [h1.1, h2.1], by rw [h1.2, h2.2], h1.1⟩

end tree

/-! ### list layouts: each list on one line or one item per line behind any number of spaces -/

section lists
open ListDoc C01

/-- content of a flat document whose values are scalars or lists of scalars. -/
def respellListNodes : List LLine → List Node
  | [] => []
  | ln :: ls => .assign ln.key ln.v.value 0 0 [] none :: respellListNodes ls

def respellListContent (name : Str) (lines : List LLine) : Document := { name := name, sections := respellListNodes lines }

theorem respell_lnodesAt : ∀ (ls : List LL) (l : Nat), Node.eraseList (lnodesAt l ls) = respellListNodes (ls.map Prod.fst)
  | [], _ => rfl
  | x :: r, l => by
    simp only [lnodesAt, LLine.node, Node.eraseList, Node.erase_assign, List.map_cons, respellListNodes, respell_lnodesAt r]

/-- neither the line a node starts on nor the layout of its list is part of the content. -/
theorem respell_ldocAt_content (name : Str) (ls : List LL) :
    (ldocAt name ls).content = respellListContent name (ls.map Prod.fst) := by
  simp only [Document.content, ldocAt, respell_lnodesAt, respellListContent, MetaVal.erasePairs]

theorem respell_list_content (env : Env) (name : Str) (ls : List LL)
    (hn : isEnvName name = true) (hne : name ≠ "END".toList) (hok : LLOK ls) (hm : lfirstNotMeta ls = true)
    (hnfc : ∀ l ∈ splitLines (ldocText name ls), env.nfc l = l) :
    respellContent (Parser.parse env (ldocText name ls)) = .ok (respellListContent name (ls.map Prod.fst)) ∧
    respellContentW (Parser.parseWithWarnings env (ldocText name ls)) = .ok (respellListContent name (ls.map Prod.fst)) := by
  rw [C01_list_text_read env name ls hn hne hok hm hnfc, (C01_list_text_read_lenient env name ls hn hne hok hm hnfc).1,
    respellContent_ok, respellContentW_ok, respell_ldocAt_content]
  exact ⟨rfl, rfl⟩

/-- **C09, list layouts: any two layouts of the same document (each list `[a,b,c]` on one line, or one item per line behind any
number of spaces — chosen per list, independently) are read as documents with the same content**: same keys in order, same
scalars, same list items in order with their types. -/
theorem C09_list_same_content (env : Env) (name : Str) (ls₁ ls₂ : List LL) (hsame : ls₁.map Prod.fst = ls₂.map Prod.fst)
    (hn : isEnvName name = true) (hne : name ≠ "END".toList) (hok₁ : LLOK ls₁) (hok₂ : LLOK ls₂)
    (hm : lfirstNotMeta ls₁ = true)
    (hnfc₁ : ∀ l ∈ splitLines (ldocText name ls₁), env.nfc l = l) (hnfc₂ : ∀ l ∈ splitLines (ldocText name ls₂), env.nfc l = l) :
    respellContent (Parser.parse env (ldocText name ls₁)) = respellContent (Parser.parse env (ldocText name ls₂)) ∧
    respellContentW (Parser.parseWithWarnings env (ldocText name ls₁))
      = respellContentW (Parser.parseWithWarnings env (ldocText name ls₂)) ∧
    respellContent (Parser.parse env (ldocText name ls₁)) = .ok (respellListContent name (ls₁.map Prod.fst)) := by
  have hm₂ : lfirstNotMeta ls₂ = true := by
    cases ls₂ with
    | nil => rfl
    | cons b r₂ =>
      cases ls₁ with
      | nil => simp at hsame
      | cons a r₁ =>
        have : a.1 = b.1 := by simp only [List.map_cons, List.cons.injEq] at hsame; exact hsame.1
        simp only [lfirstNotMeta] at hm ⊢
        rw [← this]; exact hm
  have h1 := respell_list_content env name ls₁ hn hne hok₁ hm hnfc₁
  have h2 := respell_list_content env name ls₂ hn hne hok₂ hm₂ hnfc₂
  rw [← hsame] at h2
  exact ⟨by rw [h1.1, h2.1], by rw [h1.2, h2.2], h1.1⟩

/-- … in particular any layout and the canonical text (the emitter's own layouts, `canonLL`). -/
theorem C09_list_vs_canonical (env : Env) (name : Str) (ls : List LL)
    (hn : isEnvName name = true) (hne : name ≠ "END".toList) (hok : LLOK ls) (hm : lfirstNotMeta ls = true)
    (hnfc : ∀ l ∈ splitLines (ldocText name ls), env.nfc l = l)
    (hnfc0 : ∀ l ∈ splitLines (ldocText name (canonLL (ls.map Prod.fst))), env.nfc l = l) :
    respellContent (Parser.parse env (ldocText name ls))
      = respellContent (Parser.parse env (ldocText name (canonLL (ls.map Prod.fst)))) ∧
    respellContentW (Parser.parseWithWarnings env (ldocText name ls))
      = respellContentW (Parser.parseWithWarnings env (ldocText name (canonLL (ls.map Prod.fst)))) := by
  have hok0 : LLOK (canonLL (ls.map Prod.fst)) := canonLL_ok _ (fun ln hl => by
    obtain ⟨x, hx, rfl⟩ := List.mem_map.mp hl; exact hok x hx)
  have := C09_list_same_content env name ls (canonLL (ls.map Prod.fst)) (canonLL_fst _).symm hn hne hok hok0 hm hnfc hnfc0
  exact ⟨this.1, this.2.1⟩

end lists

/-! ### ASCII aliases of operators in expression values -/

section alias
open Octave.Expr Spell C03

/-- content of a flat document whose values are scalars or operator expressions (an expression = the string of its canonical
text). -/
def respellExprNodes : List ELine → List Node
  | [] => []
  | ln :: ls => .assign ln.key (evalValue ln.v) 0 0 [] none :: respellExprNodes ls

def respellExprContent (name : Str) (lines : List ELine) : Document := { name := name, sections := respellExprNodes lines }

theorem respell_enodes (pos : Nat → Nat × Nat) : ∀ (lines : List ELine) (i : Nat),
    Node.eraseList (enodes pos i lines) = respellExprNodes lines
  | [], _ => rfl
  | ln :: ls, i => by
    simp only [enodes, elineNode, Node.eraseList, Node.erase_assign, respellExprNodes, respell_enodes pos ls (i + 1)]

theorem respell_edoc_content (name : Str) (pos : Nat → Nat × Nat) (lines : List ELine) :
    (edoc name pos lines).content = respellExprContent name lines := by
  simp only [Document.content, edoc, respell_enodes, respellExprContent, MetaVal.erasePairs]

theorem respell_alias_content (env : Env) (he : OpEnv env) (name : Str) (sl : List SE)
    (hn : isEnvName name = true) (hne : name ≠ "END".toList) (hok : ∀ x ∈ sl, x.1.OK)
    (hm : efirstNotMeta (elinesOf sl) = true)
    (hnfc : ∀ l ∈ splitLines (edocText name sl), env.nfc l = l) :
    respellContent (Parser.parse env (edocText name sl)) = .ok (respellExprContent name (elinesOf sl)) ∧
    respellContentW (Parser.parseWithWarnings env (edocText name sl)) = .ok (respellExprContent name (elinesOf sl)) := by
  rw [C03_expr_spelled_read env he name sl hn hne hok hm hnfc, C03_expr_spelled_read_lenient env he name sl hn hne hok hm hnfc,
    respellContent_ok, respellContentW_ok, respell_edoc_content]
  exact ⟨rfl, rfl⟩

/-- **C09, operator aliases: any two alias spellings of the same document (per operator occurrence: the Unicode operator, its
ASCII alias `->` `+` `~` `<->` `|` `&`, or `vs`; any spaces around it) are read as documents with the same content.** -/
theorem C09_alias_same_content (env : Env) (he : OpEnv env) (name : Str) (sl₁ sl₂ : List SE)
    (hsame : elinesOf sl₁ = elinesOf sl₂)
    (hn : isEnvName name = true) (hne : name ≠ "END".toList) (hok : ∀ ln ∈ elinesOf sl₁, ln.OK)
    (hm : efirstNotMeta (elinesOf sl₁) = true)
    (hnfc₁ : ∀ l ∈ splitLines (edocText name sl₁), env.nfc l = l)
    (hnfc₂ : ∀ l ∈ splitLines (edocText name sl₂), env.nfc l = l) :
    respellContent (Parser.parse env (edocText name sl₁)) = respellContent (Parser.parse env (edocText name sl₂)) ∧
    respellContentW (Parser.parseWithWarnings env (edocText name sl₁))
      = respellContentW (Parser.parseWithWarnings env (edocText name sl₂)) ∧
    respellContent (Parser.parse env (edocText name sl₁)) = .ok (respellExprContent name (elinesOf sl₁)) := by
  have m1 : ∀ x ∈ sl₁, x.1.OK := fun x hx => hok _ (List.mem_map.mpr ⟨x, hx, rfl⟩)
  have m2 : ∀ x ∈ sl₂, x.1.OK := fun x hx => hok _ (by rw [hsame]; exact List.mem_map.mpr ⟨x, hx, rfl⟩)
  have h1 := respell_alias_content env he name sl₁ hn hne m1 hm hnfc₁
  have h2 := respell_alias_content env he name sl₂ hn hne m2 (by rw [← hsame]; exact hm) hnfc₂
  rw [← hsame] at h2
  exact ⟨by rw [h1.1, h2.1], by rw [h1.2, h2.2], h1.1⟩

/-- … in particular an alias spelling and the canonical text `ecanonText` (Unicode operators, no spaces). -/
theorem C09_alias_vs_canonical (env : Env) (he : OpEnv env) (name : Str) (sl : List SE)
    (hn : isEnvName name = true) (hne : name ≠ "END".toList) (hok : ∀ x ∈ sl, x.1.OK)
    (hm : efirstNotMeta (elinesOf sl) = true)
    (hnfc : ∀ l ∈ splitLines (edocText name sl), env.nfc l = l)
    (hnfc0 : ∀ l ∈ splitLines (ecanonText name (elinesOf sl)), env.nfc l = l) :
    respellContent (Parser.parse env (edocText name sl)) = respellContent (Parser.parse env (ecanonText name (elinesOf sl))) ∧
    respellContentW (Parser.parseWithWarnings env (edocText name sl))
      = respellContentW (Parser.parseWithWarnings env (ecanonText name (elinesOf sl))) := by
  have := C09_alias_same_content env he name sl (canonSpelling (elinesOf sl)) (elinesOf_canon _).symm hn hne
    (fun ln hl => by obtain ⟨x, hx, rfl⟩ := List.mem_map.mp hl; exact hok x hx) hm hnfc hnfc0
  exact ⟨this.1, this.2.1⟩

end alias

/-! ### multi-word bare values: any spacing of the words, and the quoted spelling -/

section multiword
open Octave.Expr Spell MW C07 C03

/-- **one text of the class**: content = the flat content of the canonical lines (`K::two  words` has the content of
`K::"two words"`). -/
theorem respell_multiword_content (env : Env) (name : Str) (sl : List MLine)
    (hn : isEnvName name = true) (hne : name ≠ "END".toList) (hok : ∀ x ∈ sl, x.OK)
    (hm : mwFirstNotMeta sl = true)
    (hnfc : ∀ l ∈ splitLines (mwdocText name sl), env.nfc l = l) :
    respellContent (Parser.parse env (mwdocText name sl)) = .ok (respellFlatContent name (canonLines sl)) ∧
    respellContentW (Parser.parseWithWarnings env (mwdocText name sl)) = .ok (respellFlatContent name (canonLines sl)) := by
  rw [C07_multiword_read env name sl hn hne hok hm hnfc, C07_multiword_read_lenient env name sl hn hne hok hm hnfc,
    respellContent_ok, respellContentW_ok, respell_flatDoc_content]
  exact ⟨rfl, rfl⟩

/-- **C09, multi-word bare values: any two spacings of the same words (more generally any two documents of the class with the
same canonical lines — e.g. the bare words and the quoted string) are read as documents with the same content.** -/
theorem C09_multiword_same_content (env : Env) (name : Str) (sl₁ sl₂ : List MLine)
    (hsame : canonLines sl₁ = canonLines sl₂)
    (hn : isEnvName name = true) (hne : name ≠ "END".toList)
    (hok₁ : ∀ x ∈ sl₁, x.OK) (hm₁ : mwFirstNotMeta sl₁ = true)
    (hok₂ : ∀ x ∈ sl₂, x.OK) (hm₂ : mwFirstNotMeta sl₂ = true)
    (hnfc₁ : ∀ l ∈ splitLines (mwdocText name sl₁), env.nfc l = l)
    (hnfc₂ : ∀ l ∈ splitLines (mwdocText name sl₂), env.nfc l = l) :
    respellContent (Parser.parse env (mwdocText name sl₁)) = respellContent (Parser.parse env (mwdocText name sl₂)) ∧
    respellContentW (Parser.parseWithWarnings env (mwdocText name sl₁))
      = respellContentW (Parser.parseWithWarnings env (mwdocText name sl₂)) ∧
    respellContent (Parser.parse env (mwdocText name sl₁)) = .ok (respellFlatContent name (canonLines sl₁)) := by
  have h1 := respell_multiword_content env name sl₁ hn hne hok₁ hm₁ hnfc₁
  have h2 := respell_multiword_content env name sl₂ hn hne hok₂ hm₂ hnfc₂
  rw [← hsame] at h2
  exact ⟨by rw [h1.1, h2.1], by rw [h1.2, h2.2], h1.1⟩

/-- … in particular the bare words and the canonical text `KEY::"w0 w1 … wn"`. -/
theorem C09_multiword_vs_canonical (env : Env) (name : Str) (sl : List MLine)
    (hn : isEnvName name = true) (hne : name ≠ "END".toList) (hok : ∀ x ∈ sl, x.OK) (hm : mwFirstNotMeta sl = true)
    (hnfc : ∀ l ∈ splitLines (mwdocText name sl), env.nfc l = l)
    (hnfc0 : ∀ l ∈ splitLines (flatText name (canonLines sl)), env.nfc l = l) :
    respellContent (Parser.parse env (mwdocText name sl)) = respellContent (Parser.parse env (flatText name (canonLines sl))) ∧
    respellContentW (Parser.parseWithWarnings env (mwdocText name sl))
      = respellContentW (Parser.parseWithWarnings env (flatText name (canonLines sl))) := by
  have h0 : mwdocText name (mwCanon sl) = flatText name (canonLines sl) := mwdocText_ofFlat name _
  have := C09_multiword_same_content env name sl (mwCanon sl) (mwCanonLines_mwCanon sl).symm hn hne hok hm
    (mwCanon_ok sl hok) (by rw [mwCanon_firstNotMeta]; exact hm) hnfc (by rw [h0]; exact hnfc0)
  rw [h0] at this
  exact ⟨this.1, this.2.1⟩

end multiword

/-! ### the composition: same content, hence same verdict -/

section compose
open Spell SpellParse C03 ListDoc C01 Octave.Expr MW C07

/-- `Spells env s c`: the text `s` is, within one of the families above, a spelling of the document whose content is `c`.
Each constructor carries exactly the hypotheses of the family's read theorem; `c` is a function of the document's content
(lines / tree / canonical lines), never of the spelling parameters — so two texts with `Spells env s₁ c` and `Spells env s₂ c`
are two spellings of one document, possibly from different families (a multi-word bare value and a triple-quoted string …). -/
inductive Spells (env : Env) : Str → Document → Prop
  | flat (name : Str) (sl : List SL) (ds : DSpell)
      (hn : isEnvName name = true) (hne : name ≠ "END".toList) (hok : ∀ x ∈ sl, x.1.OK)
      (hm : C01.firstNotMeta (linesOf sl) = true)
      (hnfc : ∀ l ∈ splitLines (spellText name sl ds), env.nfc l = l) :
      Spells env (spellText name sl ds) (respellFlatContent name (linesOf sl))
  | tree (name : Str) (nodes : List TreeSpell.SNode) (ds : DSpell)
      (hn : isEnvName name = true) (hne : name ≠ "END".toList) (hok : treeOK (TreeSpell.eraseList nodes))
      (hw : TreeSpell.topOk nodes = true) (hm : firstKeyIsMeta (TreeSpell.eraseList nodes) = false) (hds : ds.endIndent = 0)
      (hnfc : ∀ l ∈ splitLines (TreeSpell.fdocText name nodes ds), env.nfc l = l) :
      Spells env (TreeSpell.fdocText name nodes ds) (respellTreeContent name (TreeSpell.eraseList nodes))
  | indent (name : Str) (nodes : List Indent.INode)
      (hn : isEnvName name = true) (hne : name ≠ "END".toList) (hok : treeOK (Indent.eraseList nodes))
      (hw : Indent.widthsOkList nodes = true) (hm : firstKeyIsMeta (Indent.eraseList nodes) = false)
      (hnfc : ∀ l ∈ splitLines (Indent.idocText name nodes), env.nfc l = l) :
      Spells env (Indent.idocText name nodes) (respellTreeContent name (Indent.eraseList nodes))
  | list (name : Str) (ls : List LL)
      (hn : isEnvName name = true) (hne : name ≠ "END".toList) (hok : LLOK ls) (hm : lfirstNotMeta ls = true)
      (hnfc : ∀ l ∈ splitLines (ldocText name ls), env.nfc l = l) :
      Spells env (ldocText name ls) (respellListContent name (ls.map Prod.fst))
  | alias (he : OpEnv env) (name : Str) (sl : List SE)
      (hn : isEnvName name = true) (hne : name ≠ "END".toList) (hok : ∀ x ∈ sl, x.1.OK)
      (hm : efirstNotMeta (elinesOf sl) = true)
      (hnfc : ∀ l ∈ splitLines (edocText name sl), env.nfc l = l) :
      Spells env (edocText name sl) (respellExprContent name (elinesOf sl))
  | multiword (name : Str) (sl : List MLine)
      (hn : isEnvName name = true) (hne : name ≠ "END".toList) (hok : ∀ x ∈ sl, x.OK)
      (hm : mwFirstNotMeta sl = true)
      (hnfc : ∀ l ∈ splitLines (mwdocText name sl), env.nfc l = l) :
      Spells env (mwdocText name sl) (respellFlatContent name (canonLines sl))

/-- every spelling is read, by both entry points, as a document with the content it spells. -/
theorem respell_spells_content (env : Env) (s : Str) (c : Document) (h : Spells env s c) :
    respellContent (Parser.parse env s) = .ok c ∧ respellContentW (Parser.parseWithWarnings env s) = .ok c := by
  cases h with
  | flat name sl ds hn hne hok hm hnfc => exact respell_flat_content env name sl ds hn hne hok hm hnfc
  | tree name nodes ds hn hne hok hw hm hds hnfc => exact respell_tree_content env name nodes ds hn hne hok hw hm hds hnfc
  | indent name nodes hn hne hok hw hm hnfc =>
    have h := C09_indent_same_content env name nodes nodes rfl hn hne hok hm hw hw hnfc hnfc
    obtain ⟨a1, a2, a3, _, a5, a6, a7⟩ := indentDoc_same name nodes
    refine ⟨h.2.2, ?_⟩
    rw [C03_tree_indent_read_lenient env name nodes hn hne hok hw hm hnfc, respellContentW_ok,
      respell_content_of_matches name _ _ a1 a2 a3 a5 a6 a7]
  | list name ls hn hne hok hm hnfc => exact respell_list_content env name ls hn hne hok hm hnfc
  | alias he name sl hn hne hok hm hnfc => exact respell_alias_content env he name sl hn hne hok hm hnfc
  | multiword name sl hn hne hok hm hnfc => exact respell_multiword_content env name sl hn hne hok hm hnfc

theorem respell_ok_of_content {r : Except Exc Document} {c : Document} (h : respellContent r = .ok c) :
    ∃ d, r = .ok d ∧ d.content = c := by
  cases r with
  | error e => simp [respellContent, Except.map] at h
  | ok d => exact ⟨d, rfl, by simpa [respellContent, Except.map] using h⟩

theorem respell_ok_of_contentW {r : Except Exc (Document × List Repair × List Parser.Warning)} {c : Document}
    (h : respellContentW r = .ok c) : ∃ d reps ws, r = .ok (d, reps, ws) ∧ d.content = c := by
  cases r with
  | error e => simp [respellContentW, Except.map] at h
  | ok p => exact ⟨p.1, p.2.1, p.2.2, rfl, by simpa [respellContentW, Except.map] using h⟩

/-- **C09, reader half composed with a validator: validity is invariant under respelling.**  Let `validate` be ANY function of
documents that depends on content only (the validator engine proves exactly this of the real validator's model: `C09_congr`).
If `s₁` and `s₂` are two spellings of one document (`Spells env s₁ c`, `Spells env s₂ c`), then the strict reader accepts both,
and `validate (parse s₁) = validate (parse s₂)`; the documents read have the content `c`. -/
theorem C09_respell_invariant {α : Type} (env : Env) (validate : Document → α)
    (hcontent : ∀ d₁ d₂ : Document, d₁.content = d₂.content → validate d₁ = validate d₂)
    (s₁ s₂ : Str) (c : Document) (h₁ : Spells env s₁ c) (h₂ : Spells env s₂ c) :
    ∃ d₁ d₂, Parser.parse env s₁ = .ok d₁ ∧ Parser.parse env s₂ = .ok d₂ ∧ validate d₁ = validate d₂ ∧
      d₁.content = c ∧ d₂.content = c := by
  obtain ⟨d₁, e₁, c₁⟩ := respell_ok_of_content (respell_spells_content env s₁ c h₁).1
  obtain ⟨d₂, e₂, c₂⟩ := respell_ok_of_content (respell_spells_content env s₂ c h₂).1
  exact ⟨d₁, d₂, e₁, e₂, hcontent d₁ d₂ (by rw [c₁, c₂]), c₁, c₂⟩

/-- … through the lenient entry point `parse_with_warnings` (what the tools call): the repairs and warnings may differ —
they are receipts of the spelling — the document's verdict does not; and it is the strict reader's verdict too. -/
theorem C09_respell_invariant_lenient {α : Type} (env : Env) (validate : Document → α)
    (hcontent : ∀ d₁ d₂ : Document, d₁.content = d₂.content → validate d₁ = validate d₂)
    (s₁ s₂ : Str) (c : Document) (h₁ : Spells env s₁ c) (h₂ : Spells env s₂ c) :
    ∃ d₁ r₁ w₁ d₂ r₂ w₂ d₁', Parser.parseWithWarnings env s₁ = .ok (d₁, r₁, w₁) ∧ Parser.parseWithWarnings env s₂ = .ok (d₂, r₂, w₂) ∧
      Parser.parse env s₁ = .ok d₁' ∧ validate d₁ = validate d₂ ∧ validate d₁ = validate d₁' := by
  obtain ⟨d₁, r₁, w₁, e₁, c₁⟩ := respell_ok_of_contentW (respell_spells_content env s₁ c h₁).2
  obtain ⟨d₂, r₂, w₂, e₂, c₂⟩ := respell_ok_of_contentW (respell_spells_content env s₂ c h₂).2
  obtain ⟨d₁', e₁', c₁'⟩ := respell_ok_of_content (respell_spells_content env s₁ c h₁).1
  exact ⟨d₁, r₁, w₁, d₂, r₂, w₂, d₁', e₁, e₂, e₁', hcontent d₁ d₂ (by rw [c₁, c₂]), hcontent d₁ d₁' (by rw [c₁, c₁'])⟩

/-- the same in `Except` form: `validate` mapped over what `parse` returns. -/
theorem C09_respell_invariant_map {α : Type} (env : Env) (validate : Document → α)
    (hcontent : ∀ d₁ d₂ : Document, d₁.content = d₂.content → validate d₁ = validate d₂)
    (s₁ s₂ : Str) (c : Document) (h₁ : Spells env s₁ c) (h₂ : Spells env s₂ c) :
    (Parser.parse env s₁).map validate = (Parser.parse env s₂).map validate :=
  respell_validate_of_content validate hcontent _ _
    (by rw [(respell_spells_content env s₁ c h₁).1, (respell_spells_content env s₂ c h₂).1])

/-- the content a spelling is read with is unique: `Spells` is functional in the content (so "the document it spells" makes
sense). -/
theorem respell_spells_unique (env : Env) (s : Str) (c c' : Document) (h : Spells env s c) (h' : Spells env s c') : c = c' := by
  have a := (respell_spells_content env s c h).1
  have b := (respell_spells_content env s c' h').1
  rw [a] at b
  exact Except.ok.inj b

end compose

/-! ### the contents of the families fit together (a flat document is a tree without blocks, a list / expression document
without lists / expressions): texts from different families can be compared through `Spells` -/

theorem respell_tree_of_flat : ∀ lines : List FLine, respellTreeNodes (lines.map TNode.line) = respellFlatNodes lines
  | [] => rfl
  | ln :: ls => by simp only [List.map_cons, respellTreeNodes, respellTreeNode, respellFlatNodes, respell_tree_of_flat ls]

theorem respell_treeContent_of_flat (name : Str) (lines : List FLine) :
    respellTreeContent name (lines.map TNode.line) = respellFlatContent name lines := by
  simp only [respellTreeContent, respellFlatContent, respell_tree_of_flat]

theorem respell_list_of_flat : ∀ lines : List FLine,
    respellListNodes (lines.map fun ln => (⟨ln.key, .scalar ln.v⟩ : ListDoc.LLine)) = respellFlatNodes lines
  | [] => rfl
  | ln :: ls => by
    simp only [List.map_cons, respellListNodes, respellFlatNodes, respell_list_of_flat ls, ListDoc.FValue.value]

theorem respell_expr_of_flat : ∀ lines : List FLine,
    respellExprNodes (lines.map fun ln => (⟨ln.key, .sc ln.v⟩ : Octave.Expr.ELine)) = respellFlatNodes lines
  | [] => rfl
  | ln :: ls => by
    simp only [List.map_cons, respellExprNodes, respellFlatNodes, respell_expr_of_flat ls, Octave.Expr.evalValue]

/-! ### Boolean equality of contents (for closed `decide` checks; `Document` has no `DecidableEq`) -/

mutual
/-- values: scalars, holographic patterns and (nested) lists; sound (`respellValEq_sound`), `false` on inline maps / zones. -/
def respellValEq : Value → Value → Bool
  | .null, .null => true
  | .bool a, .bool b => a == b
  | .int a, .int b => a == b
  | .float a, .float b => a == b
  | .str a, .str b => a == b
  | .list as, .list bs => respellValsEq as bs
  | .holo a, .holo b => a == b
  | .absent, .absent => true
  | _, _ => false
def respellValsEq : List Value → List Value → Bool
  | [], [] => true
  | a :: as, b :: bs => respellValEq a b && respellValsEq as bs
  | _, _ => false
end

mutual
theorem respellValEq_sound : ∀ (a b : Value), respellValEq a b = true → a = b
  | .null, b, h => by cases b <;> simp_all [respellValEq]
  | .bool _, b, h => by cases b <;> simp_all [respellValEq]
  | .int _, b, h => by cases b <;> simp_all [respellValEq]
  | .float _, b, h => by cases b <;> simp_all [respellValEq]
  | .str _, b, h => by cases b <;> simp_all [respellValEq]
  | .list as, b, h => by
    cases b with
    | list bs => simp only [respellValEq] at h; rw [respellValsEq_sound as bs h]
    | _ => simp [respellValEq] at h
  | .imap _, b, h => by cases b <;> simp [respellValEq] at h
  | .holo _, b, h => by cases b <;> simp_all [respellValEq]
  | .zone _ _ _, b, h => by cases b <;> simp [respellValEq] at h
  | .absent, b, h => by cases b <;> simp_all [respellValEq]
theorem respellValsEq_sound : ∀ (as bs : List Value), respellValsEq as bs = true → as = bs
  | [], [], _ => rfl
  | [], _ :: _, h => by simp [respellValsEq] at h
  | _ :: _, [], h => by simp [respellValsEq] at h
  | a :: as, b :: bs, h => by
    simp only [respellValsEq, Bool.and_eq_true] at h
    rw [respellValEq_sound a b h.1, respellValsEq_sound as bs h.2]
end

mutual
def respellNodeEq : Node → Node → Bool
  | .assign k v l c ld tr, .assign k' v' l' c' ld' tr' =>
    k == k' && respellValEq v v' && l == l' && c == c' && ld == ld' && tr == tr'
  | .block k ch l c ld tg, .block k' ch' l' c' ld' tg' =>
    k == k' && respellNodesEq ch ch' && l == l' && c == c' && ld == ld' && tg == tg'
  | .sect i k a ch l c ld, .sect i' k' a' ch' l' c' ld' =>
    i == i' && k == k' && a == a' && respellNodesEq ch ch' && l == l' && c == c' && ld == ld'
  | .comment t, .comment t' => t == t'
  | _, _ => false
def respellNodesEq : List Node → List Node → Bool
  | [], [] => true
  | a :: as, b :: bs => respellNodeEq a b && respellNodesEq as bs
  | _, _ => false
end

mutual
theorem respellNodeEq_sound : ∀ (a b : Node), respellNodeEq a b = true → a = b
  | .assign k v l c ld tr, b, h => by
    cases b with
    | assign k' v' l' c' ld' tr' =>
      simp only [respellNodeEq, Bool.and_eq_true, beq_iff_eq] at h
      obtain ⟨⟨⟨⟨⟨h1, h2⟩, h3⟩, h4⟩, h5⟩, h6⟩ := h
      rw [h1, respellValEq_sound v v' h2, h3, h4, h5, h6]
    | _ => simp [respellNodeEq] at h
  | .block k ch l c ld tg, b, h => by
    cases b with
    | block k' ch' l' c' ld' tg' =>
      simp only [respellNodeEq, Bool.and_eq_true, beq_iff_eq] at h
      obtain ⟨⟨⟨⟨⟨h1, h2⟩, h3⟩, h4⟩, h5⟩, h6⟩ := h
      rw [h1, respellNodesEq_sound ch ch' h2, h3, h4, h5, h6]
    | _ => simp [respellNodeEq] at h
  | .sect i k a ch l c ld, b, h => by
    cases b with
    | sect i' k' a' ch' l' c' ld' =>
      simp only [respellNodeEq, Bool.and_eq_true, beq_iff_eq] at h
      obtain ⟨⟨⟨⟨⟨⟨h0, h1⟩, ha⟩, h2⟩, h3⟩, h4⟩, h5⟩ := h
      rw [h0, h1, ha, respellNodesEq_sound ch ch' h2, h3, h4, h5]
    | _ => simp [respellNodeEq] at h
  | .comment t, b, h => by
    cases b with
    | comment t' => simp only [respellNodeEq, beq_iff_eq] at h; rw [h]
    | _ => simp [respellNodeEq] at h
theorem respellNodesEq_sound : ∀ (as bs : List Node), respellNodesEq as bs = true → as = bs
  | [], [], _ => rfl
  | [], _ :: _, h => by simp [respellNodesEq] at h
  | _ :: _, [], h => by simp [respellNodesEq] at h
  | a :: as, b :: bs, h => by
    simp only [respellNodesEq, Bool.and_eq_true] at h
    rw [respellNodeEq_sound a b h.1, respellNodesEq_sound as bs h.2]
end

/-- documents without a META block. -/
def respellDocEq (a b : Document) : Bool :=
  a.name == b.name && a.metaKv.isEmpty && b.metaKv.isEmpty && a.hasSeparator == b.hasSeparator &&
  respellNodesEq a.sections b.sections && a.grammarVersion == b.grammarVersion &&
  a.rawFrontmatter == b.rawFrontmatter && a.trailingComments == b.trailingComments

theorem respellDocEq_sound {a b : Document} (h : respellDocEq a b = true) : a = b := by
  obtain ⟨n, m, hs, s, g, rf, tc⟩ := a
  obtain ⟨n', m', hs', s', g', rf', tc'⟩ := b
  simp only [respellDocEq, Bool.and_eq_true, beq_iff_eq, List.isEmpty_iff] at h
  obtain ⟨⟨⟨⟨⟨⟨⟨h1, h2⟩, h3⟩, h4⟩, h5⟩, h6⟩, h7⟩, h8⟩ := h
  rw [h1, h2, h3, h4, respellNodesEq_sound s s' h5, h6, h7, h8]

/-- Boolean test: both reads succeed and the documents have the same content. -/
def respellSameContentB (r₁ r₂ : Except Exc Document) : Bool :=
  match r₁, r₂ with
  | .ok a, .ok b => respellDocEq a.content b.content
  | _, _ => false

theorem respellSameContentB_sound {r₁ r₂ : Except Exc Document} (h : respellSameContentB r₁ r₂ = true) :
    ∃ d₁ d₂, r₁ = .ok d₁ ∧ r₂ = .ok d₂ ∧ d₁.content = d₂.content := by
  cases r₁ with
  | error e => simp [respellSameContentB] at h
  | ok a =>
    cases r₂ with
    | error e => simp [respellSameContentB] at h
    | ok b => exact ⟨a, b, rfl, rfl, respellDocEq_sound h⟩

/-- Boolean test: the read succeeds with exactly this content. -/
def respellHasContentB (r : Except Exc Document) (c : Document) : Bool :=
  match r with
  | .ok a => respellDocEq a.content c
  | .error _ => false

/-- both reads succeed and the documents themselves (positions included) are equal / different. -/
def respellSameDocB (r₁ r₂ : Except Exc Document) : Bool :=
  match r₁, r₂ with
  | .ok a, .ok b => respellDocEq a b
  | _, _ => false

/-! ### non-vacuity -/

section examples
open Spell SpellParse C03 ListDoc C01 Octave.Expr MW C07

/-- a validator that is a function of content: the keys of the top-level nodes of the content, with the name. -/
def respellExKey : Node → Str
  | .assign k .. => k
  | .block k .. => k
  | .sect _ k .. => k
  | .comment _ => []
def respellExValidate (d : Document) : Str × List Str := (d.content.name, d.content.sections.map respellExKey)

theorem respellExValidate_content : ∀ d₁ d₂ : Document, d₁.content = d₂.content → respellExValidate d₁ = respellExValidate d₂ := by
  intro d₁ d₂ h
  simp only [respellExValidate, h]

/-- a "validator" that is NOT a function of content: it reads the line of the last top-level node. -/
def respellExLine : Node → Nat
  | .assign _ _ l .. => l
  | .block _ _ l .. => l
  | .sect _ _ _ _ l .. => l
  | .comment _ => 0
def respellExBad (d : Document) : Option Nat := (d.sections.map respellExLine).getLast?

/-- Boolean test: the read succeeds and the verdict is `v`. -/
def respellVerdictIs {α : Type} [BEq α] (validate : Document → α) (r : Except Exc Document) (v : α) : Bool :=
  match r with
  | .ok d => validate d == v
  | .error _ => false

/-! #### flat: the six-line document of `Props/C03flat` in two spellings, and canonically -/

/-- the theorem applied: every freedom switched on (`exDS`) against `===END===` omitted (`exDS2`) … -/
example : respellContent (Parser.parse Env.ascii (spellText "DOC".toList exSL exDS))
      = respellContent (Parser.parse Env.ascii (spellText "DOC".toList exSL exDS2)) ∧
    respellContentW (Parser.parseWithWarnings Env.ascii (spellText "DOC".toList exSL exDS))
      = respellContentW (Parser.parseWithWarnings Env.ascii (spellText "DOC".toList exSL exDS2)) ∧
    respellContent (Parser.parse Env.ascii (spellText "DOC".toList exSL exDS)) = .ok (respellFlatContent "DOC".toList (linesOf exSL)) :=
  C09_flat_same_content Env.ascii "DOC".toList exSL exSL exDS exDS2 rfl (by decide) (by decide)
    (fun ln hl => by obtain ⟨x, hx, rfl⟩ := List.mem_map.mp hl; exact exSL_ok x hx) (by decide) (fun _ _ => rfl) (fun _ _ => rfl)

/-- … and against the canonical text. -/
example : respellContent (Parser.parse Env.ascii (spellText "DOC".toList exSL exDS))
      = respellContent (Parser.parse Env.ascii (flatText "DOC".toList (linesOf exSL))) :=
  (C09_flat_vs_canonical Env.ascii "DOC".toList exSL exDS (by decide) (by decide) exSL_ok (by decide) (fun _ _ => rfl) (fun _ _ => rfl)).1

/-- the content, written out: keys and typed values; every position 0, no comments. -/
example : respellFlatContent "DOC".toList (linesOf exSL) =
    { name := "DOC".toList,
      sections := [ .assign "A".toList (.str "x \"y\" \\ z".toList) 0 0 [] none, .assign "B_1".toList (.str "word".toList) 0 0 [] none,
                    .assign "C.d".toList (.bool true) 0 0 [] none, .assign "E".toList (.str "w2".toList) 0 0 [] none,
                    .assign "F".toList .null 0 0 [] none, .assign "N".toList (.int (-42)) 0 0 [] none ] } := by
  rfl

/-- the composed statement applied: the same verdict for both spellings, from a validator that sees content only. -/
example : ∃ d₁ d₂, Parser.parse Env.ascii (spellText "DOC".toList exSL exDS) = .ok d₁ ∧
    Parser.parse Env.ascii (spellText "DOC".toList exSL exDS2) = .ok d₂ ∧ respellExValidate d₁ = respellExValidate d₂ ∧
    d₁.content = respellFlatContent "DOC".toList (linesOf exSL) ∧ d₂.content = respellFlatContent "DOC".toList (linesOf exSL) :=
  C09_respell_invariant Env.ascii respellExValidate respellExValidate_content _ _ _
    (.flat "DOC".toList exSL exDS (by decide) (by decide) exSL_ok (by decide) (fun _ _ => rfl))
    (.flat "DOC".toList exSL exDS2 (by decide) (by decide) exSL_ok (by decide) (fun _ _ => rfl))

/-- the whole model evaluated on the two texts (independent of the theorems): same content, different documents; the
content-blind validator agrees, the position-reading one does not (`hcontent` is needed). -/
example : respellSameContentB (Parser.parse Env.ascii (spellText "DOC".toList exSL exDS))
    (Parser.parse Env.ascii (flatText "DOC".toList (linesOf exSL))) = true := by decide +kernel
example : respellHasContentB (Parser.parse Env.ascii (spellText "DOC".toList exSL exDS2))
    (respellFlatContent "DOC".toList (linesOf exSL)) = true := by decide +kernel
example : respellSameDocB (Parser.parse Env.ascii (spellText "DOC".toList exSL exDS))
    (Parser.parse Env.ascii (flatText "DOC".toList (linesOf exSL))) = false := by decide +kernel
example : respellVerdictIs respellExValidate (Parser.parse Env.ascii (spellText "DOC".toList exSL exDS))
      ("DOC".toList, ["A".toList, "B_1".toList, "C.d".toList, "E".toList, "F".toList, "N".toList]) = true ∧
    respellVerdictIs respellExValidate (Parser.parse Env.ascii (flatText "DOC".toList (linesOf exSL)))
      ("DOC".toList, ["A".toList, "B_1".toList, "C.d".toList, "E".toList, "F".toList, "N".toList]) = true := by decide +kernel
example : respellVerdictIs respellExBad (Parser.parse Env.ascii (spellText "DOC".toList exSL exDS)) (some 13) = true ∧
    respellVerdictIs respellExBad (Parser.parse Env.ascii (flatText "DOC".toList (linesOf exSL))) (some 7) = true := by decide +kernel

/-! #### block trees: the 12-line tree of `Props/C03tree` / `Props/C03indent` -/

/-- every freedom (`exS` in the frame `exFrame`) against `===END===` omitted. -/
example : respellContent (Parser.parse Env.ascii (TreeSpell.fdocText "DOC".toList exS exFrame))
      = respellContent (Parser.parse Env.ascii (TreeSpell.fdocText "DOC".toList exS { endOmitted := true })) :=
  (C09_tree_same_content Env.ascii "DOC".toList exS exS exFrame { endOmitted := true } rfl (by decide) (by decide) exS_ok (by decide)
    (by decide) (by decide) rfl rfl (fun _ _ => rfl) (fun _ _ => rfl)).1

example : respellContent (Parser.parse Env.ascii (TreeSpell.fdocText "DOC".toList exS exFrame))
      = respellContent (Parser.parse Env.ascii (treeDocText "DOC".toList (TreeSpell.eraseList exS))) :=
  (C09_tree_vs_canonical Env.ascii "DOC".toList exS exFrame (by decide) (by decide) exS_ok (by decide) (by decide) rfl
    (fun _ _ => rfl) (fun _ _ => rfl)).1

/-- widths 4/1/3/7/1 against 4 everywhere. -/
example : respellContent (Parser.parse Env.ascii (Indent.idocText "DOC".toList exI))
      = respellContent (Parser.parse Env.ascii (Indent.idocText "DOC".toList exI4)) :=
  (C09_indent_same_content Env.ascii "DOC".toList exI exI4 rfl (by decide) (by decide) exI_ok (by decide) (by decide) (by decide)
    (fun _ _ => rfl) (fun _ _ => rfl)).1

/-- ACROSS families: the fully spelled tree and the four-space text spell the same content; same verdict. -/
example : ∃ d₁ d₂, Parser.parse Env.ascii (TreeSpell.fdocText "DOC".toList exS exFrame) = .ok d₁ ∧
    Parser.parse Env.ascii (Indent.idocText "DOC".toList exI4) = .ok d₂ ∧ respellExValidate d₁ = respellExValidate d₂ ∧
    d₁.content = respellTreeContent "DOC".toList (TreeSpell.eraseList exS) ∧
    d₂.content = respellTreeContent "DOC".toList (TreeSpell.eraseList exS) :=
  C09_respell_invariant Env.ascii respellExValidate respellExValidate_content _ _ _
    (.tree "DOC".toList exS exFrame (by decide) (by decide) exS_ok (by decide) (by decide) rfl (fun _ _ => rfl))
    (.indent "DOC".toList exI4 (by decide) (by decide) exI_ok (by decide) (by decide) (fun _ _ => rfl))

example : respellSameContentB (Parser.parse Env.ascii (TreeSpell.fdocText "DOC".toList exS exFrame))
    (Parser.parse Env.ascii (Indent.idocText "DOC".toList exI4)) = true := by decide +kernel
example : respellHasContentB (Parser.parse Env.ascii (Indent.idocText "DOC".toList exI))
    (respellTreeContent "DOC".toList (TreeSpell.eraseList exS)) = true := by decide +kernel

/-! #### list layouts: the eight-line document of `Props/C01lists`, all inline against one item per line -/

example : respellContent (Parser.parse Env.ascii (ldocText "DOC".toList lxInline))
      = respellContent (Parser.parse Env.ascii (ldocText "DOC".toList lxMulti)) :=
  (C09_list_same_content Env.ascii "DOC".toList lxInline lxMulti (by rw [lxInline_fst, lxMulti_fst]) (by decide) (by decide)
    (by intro x hx; exact lxLines_ok.1 x.1 (by rw [← lxInline_fst]; exact List.mem_map.mpr ⟨x, hx, rfl⟩))
    (by intro x hx; exact lxLines_ok.1 x.1 (by rw [← lxMulti_fst]; exact List.mem_map.mpr ⟨x, hx, rfl⟩))
    (by decide) (fun _ _ => rfl) (fun _ _ => rfl)).1

example : respellSameContentB (Parser.parse Env.ascii (ldocText "DOC".toList lxInline))
    (Parser.parse Env.ascii (ldocText "DOC".toList lxMulti)) = true := by decide +kernel
example : respellSameDocB (Parser.parse Env.ascii (ldocText "DOC".toList lxInline))
    (Parser.parse Env.ascii (ldocText "DOC".toList lxMulti)) = false := by decide +kernel

/-! #### aliases: the six-line document of `Props/C03expr` (`->` `+` `|` `&` `<->` `vs` `~`) against the Unicode text -/

example : respellContent (Parser.parse Env.ascii (edocText "D".toList exE))
      = respellContent (Parser.parse Env.ascii (ecanonText "D".toList (elinesOf exE))) :=
  (C09_alias_vs_canonical Env.ascii opEnv_ascii "D".toList exE (by decide) (by decide) exE_ok (by decide) (fun _ _ => rfl)
    (fun _ _ => rfl)).1

example : respellSameContentB (Parser.parse Env.ascii (edocText "D".toList exE))
    (Parser.parse Env.ascii (ecanonText "D".toList (elinesOf exE))) = true := by decide +kernel

/-! #### multi-word bare values: `K::two words` against `K::"two words"` (and against a triple-quoted spelling) -/

example : respellContent (Parser.parse Env.ascii (mwdocText "D".toList mwEx))
      = respellContent (Parser.parse Env.ascii (flatText "D".toList (canonLines mwEx))) :=
  (C09_multiword_vs_canonical Env.ascii "D".toList mwEx (by decide) (by decide) mwEx_ok (by decide) (fun _ _ => rfl) (fun _ _ => rfl)).1

example : respellSameContentB (Parser.parse Env.ascii mwExText) (Parser.parse Env.ascii mwExCanon) = true := by decide +kernel

/-- ACROSS families: the bare words `K::two words` and a flat spelling of the canonical lines that writes the string with
triple quotes, a quoted plain word and spaces around `::` — one content, one verdict. -/
def respellMwFlat : List SL :=
  [ (⟨"K".toList, .qstr "two words".toList⟩, { triple := some "two words".toList, post := 1 }),
    (⟨"L".toList, .qstr "a b c.d e_1 f-g".toList⟩, { pre := 1, blank := [0] }),
    (⟨"M".toList, .bare "plain".toList⟩, { quoteWord := true, indent := 2 }) ]

example : spellText "D".toList respellMwFlat { endOmitted := true } =
    "===D===\nK:: \"\"\"two words\"\"\"\nL ::\"a b c.d e_1 f-g\"\n\n  M::\"plain\"\n".toList := by decide +kernel

example : ∃ d₁ d₂, Parser.parse Env.ascii (mwdocText "D".toList mwEx) = .ok d₁ ∧
    Parser.parse Env.ascii (spellText "D".toList respellMwFlat { endOmitted := true }) = .ok d₂ ∧
    respellExValidate d₁ = respellExValidate d₂ ∧
    d₁.content = respellFlatContent "D".toList (canonLines mwEx) ∧ d₂.content = respellFlatContent "D".toList (canonLines mwEx) :=
  C09_respell_invariant Env.ascii respellExValidate respellExValidate_content _ _ _
    (.multiword "D".toList mwEx (by decide) (by decide) mwEx_ok (by decide) (fun _ _ => rfl))
    (.flat "D".toList respellMwFlat { endOmitted := true } (by decide) (by decide)
      (by intro x h
          simp only [respellMwFlat, List.mem_cons, List.mem_nil_iff, or_false] at h
          rcases h with rfl | rfl | rfl <;> (unfold FLine.OK FScalar.OK; simp <;> decide))
      (by decide) (fun _ _ => rfl))

example : respellSameContentB (Parser.parse Env.ascii mwExText)
    (Parser.parse Env.ascii (spellText "D".toList respellMwFlat { endOmitted := true })) = true := by decide +kernel

/-! #### what the statement does NOT say: different content is told apart; texts outside the families -/

/-- a different value is a different content. -/
example : respellSameContentB (Parser.parse Env.ascii "===D===\nA::x\nB::1\nC::true\n===END===\n".toList)
    (Parser.parse Env.ascii "===D===\nA::x\nB::2\nC::true\n===END===\n".toList) = false := by decide +kernel
/-- a quoted number is a string, not the number (types are content). -/
example : respellSameContentB (Parser.parse Env.ascii "===D===\nA::x\nB::1\nC::true\n===END===\n".toList)
    (Parser.parse Env.ascii "===D===\nA::x\nB::\"1\"\nC::true\n===END===\n".toList) = false := by decide +kernel
/-- comments are spelling: a commented text has the content of the bare one (no theorem of this file covers comments;
the model evaluated). -/
example : respellSameContentB (Parser.parse Env.ascii "===D===\n// lead\nA::x // trail\nB::1\nC::true\n===END===\n// bye\n".toList)
    (Parser.parse Env.ascii "===D===\nA::x\nB::1\nC::true\n===END===\n".toList) = true := by decide +kernel
/-- the respeller restriction of notes/C09.md: a comment line directly before a top-level `META:` makes the reader take META for
an ordinary block — the content changes. -/
example : respellSameContentB (Parser.parse Env.ascii "===D===\n// c\nMETA:\n  TYPE::X\nA::x\n===END===\n".toList)
    (Parser.parse Env.ascii "===D===\nMETA:\n  TYPE::X\nA::x\n===END===\n".toList) = false := by decide +kernel

end examples

end Octave.C09
