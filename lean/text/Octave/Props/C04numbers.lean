/-
C04 — Every scalar value survives write-then-read with value and type intact: NUMBERS.
The emitter writes an integer `i` as `intStr i` (decimal, `-` for negatives) and a float as its Python `repr` text
(the model carries floats as that text).  Here: what the lexer makes of those texts, for ALL integers within CPython's
digit limit and all float texts of the `repr` shape.  Helper lemmas: `Lemmas/NumberLex.lean`.
The parser side is `Props/C02.lean` (`C02_int_typed`, `C02_float_typed`).
-/
import Octave.Lemmas.NumberLex
namespace Octave.C04
open Octave Lexer Emitter Scan

/-! ### integers -/

/-- the decimal text of a natural number: non-empty, ASCII digits only, no leading zero unless the number is 0. -/
theorem C04_natStr_canonical (n : Nat) :
    natStr n ≠ [] ∧ (∀ c ∈ natStr n, isDigitA c = true) ∧ (n ≠ 0 → (natStr n).head? ≠ some '0') :=
  ⟨natStr_ne_nil n, natStr_digits n, natStr_head_ne_zero n⟩

/-- the digit limit, arithmetically: at most 4300 digits means `|i| < 10^4300`. -/
theorem C04_digit_limit_iff (n : Nat) : (natStr n).length ≤ 4300 ↔ n < 10 ^ 4300 :=
  natStr_length_le_iff n 4300 (by decide)

/-- **`int(str(i)) = i`** in the model, for every integer of at most 4300 digits, every environment. -/
theorem C04_int_of_lexeme (env : Env) (i : Int) (hlen : (natStr i.natAbs).length ≤ 4300) :
    intOfLexeme env (intStr i) = .ok i := intOfLexeme_intStr env i hlen

/-- beyond the limit `int()` refuses; it never returns a wrong value. -/
theorem C04_int_of_lexeme_over (env : Env) (i : Int) (hlen : 4300 < (natStr i.natAbs).length) :
    intOfLexeme env (intStr i) = .error (.py "ValueError".toList) := intOfLexeme_intStr_over env i hlen

/-- the NUMBER regex stops exactly at the end of an emitted integer when a terminator follows (`NumTerm`: end of input,
or a char that is not a `\d` digit, `.`, `e`, `E`). -/
theorem C04_int_scan (env : Env) (i : Int) (rest : Str) (hterm : NumTerm env rest) :
    Scan.number env (intStr i ++ rest) = some (intStr i, rest) := number_intStr env i rest hterm

/-- the three VERSION patterns tried before NUMBER do not match a non-negative integer followed by a terminator
(a negative one goes through the `-` group, which has no VERSION pattern). -/
theorem C04_int_not_version (env : Env) (n : Nat) (rest : Str) (hterm : NumTerm env rest) :
    version3 env (natStr n ++ rest) = none ∧ version2pre env (natStr n ++ rest) = none ∧
      version2build env (natStr n ++ rest) = none :=
  versions_none_nodot env (natStr n) rest (natStr_ne_nil n) (natStr_isDigit env n)
    (fun c hc => ⟨(hterm c hc).1, (hterm c hc).2.1⟩)

/-- **Integers survive the lexer.**  The emitter's text of EVERY integer of at most 4300 digits, followed by any
terminator, is read by one lexer step as ONE NUMBER token carrying exactly that integer (typed `int`, `raw` = the text),
at the step's line/column, consuming exactly the text, with no receipt — every environment, both modes, every state
between tokens (`Ready`: no pending fence span, past the document start). -/
theorem C04_int_relex (env : Env) (lenient : Bool) (st : LState) (i : Int) (ind : Nat) (rest : Str) (hr : Ready st)
    (hterm : NumTerm env rest) (hlen : (natStr i.natAbs).length ≤ 4300) :
    emitValue (.int i) ind = some (intStr i) ∧
    ∃ st', step env lenient st (intStr i ++ rest) = .ok (st', rest) ∧
      Adv st st' [{ type := .number, value := .int i, line := st.line, col := st.col, raw := some (intStr i) }] [] 0
        (st.col + (intStr i).length) (some (Nat.digitChar (i.natAbs % 10))) :=
  ⟨by simp [emitValue], step_int env lenient st i rest hr hterm hlen⟩

/-- **Beyond the digit limit the lexer refuses** with a positioned `LexerError` (E005 at the start of the lexeme, the
`except ValueError` of `tokenize`) — not a wrong value, not a foreign exception. -/
theorem C04_int_over_limit_refused (env : Env) (lenient : Bool) (st : LState) (i : Int) (rest : Str) (hr : Ready st)
    (hterm : NumTerm env rest) (hlen : 4300 < (natStr i.natAbs).length) :
    step env lenient st (intStr i ++ rest) = .error (.lexer "E005".toList st.line st.col) :=
  step_int_over env lenient st i rest hr hterm hlen

/-! ### floats -/

/-- **Floats survive the lexer.**  A float is emitted as its `repr` text `r`.  If `r` has the shape Python's `repr`
gives finite floats (`isFloatRepr`), and `repr(float(r)) = r` (HYPOTHESIS on `Env`: the round-trip law of CPython's
shortest-repr algorithm, `repr(float(repr(x))) = repr(x)`), then `r` followed by a float terminator is read by one lexer
step as ONE NUMBER token whose value is the float `r` (typed `float`, `raw = r`), consuming exactly `r`, no receipt.
(`r` is not `inf`/`-inf` by its shape, so the overflow guard of the lexer does not fire.) -/
theorem C04_float_relex (env : Env) (lenient : Bool) (st : LState) (r : Str) (ind : Nat) (rest : Str) (hr : Ready st)
    (hshape : isFloatRepr r = true) (hfr : env.floatRepr r = r) (hterm : FloatTerm env rest) :
    emitValue (.float r) ind = some r ∧
    ∃ st', step env lenient st (r ++ rest) = .ok (st', rest) ∧
      Adv st st' [{ type := .number, value := .float r, line := st.line, col := st.col, raw := some r }] [] 0
        (st.col + r.length) r.getLast? :=
  ⟨by simp [emitValue], step_float env lenient st r rest hr hshape hfr hterm⟩

/-- the shape excludes the non-finite reprs. -/
theorem C04_float_shape_finite (r : Str) (h : isFloatRepr r = true) : r ≠ "inf".toList ∧ r ≠ "-inf".toList :=
  isFloatRepr_not_inf r h

/-- a `KEY::number` assignment is written as the key, `::`, and the number text — no quoting rule, no key rule applies
(this is `FLine.EmitOK = True` for numbers). -/
theorem C04_number_emit_line (env : Env) (key : Str) (l c : Nat) :
    (∀ i : Int, emitNode env (.assign key (.int i) l c [] none) 0 false = some [key ++ (':' :: ':' :: intStr i)]) ∧
    (∀ r : Str, emitNode env (.assign key (.float r) l c [] none) 0 false = some [key ++ (':' :: ':' :: r)]) := by
  constructor <;> intro x <;>
    simp [emitNode, emitAssignment, emitValue, forceQuote, leadingLines, indentStr]

/-- the same theorems for the terminators the emitter prints, in EVERY environment: newline, `,`, `]`, space (before a
trailing comment), end of input. -/
theorem C04_terminators (env : Env) (rest : Str) :
    FloatTerm env ('\n' :: rest) ∧ FloatTerm env (',' :: rest) ∧ FloatTerm env (']' :: rest) ∧ FloatTerm env (' ' :: rest) ∧
      FloatTerm env [] ∧ (∀ s, FloatTerm env s → NumTerm env s) :=
  ⟨floatTerm_nl env rest, floatTerm_comma env rest, floatTerm_listEnd env rest, floatTerm_space env rest, floatTerm_nil env,
   fun _ h => h.num⟩

/-! ### non-vacuity -/

/-- the terminators the emitter prints after a value, and end of input. -/
theorem termAscii (c : Char) (r : Str) (h : (Env.ascii.isDigit c = false ∧ c ≠ '.' ∧ c ≠ 'e' ∧ c ≠ 'E' ∧ c ≠ '-' ∧ c ≠ '+')) :
    FloatTerm Env.ascii (c :: r) := by
  intro d hd
  have : c = d := by simpa using hd
  subst this; exact h

example : FloatTerm Env.ascii "\n===END===\n".toList ∧ FloatTerm Env.ascii ",2]".toList ∧ FloatTerm Env.ascii "]".toList ∧
    FloatTerm Env.ascii " // c".toList ∧ FloatTerm Env.ascii [] :=
  ⟨termAscii _ _ (by decide), termAscii _ _ (by decide), termAscii _ _ (by decide), termAscii _ _ (by decide),
   fun _ h => by simp at h⟩

def stReady : LState := { pos := 3, prev := some ':', col := 4, blank := false }
theorem stReady_ready : Ready stReady := ⟨rfl, rfl⟩

example : (natStr (0 : Int).natAbs).length ≤ 4300 ∧ (natStr (-7 : Int).natAbs).length ≤ 4300 ∧
    (natStr ((10 : Int) ^ 18).natAbs).length ≤ 4300 := by decide +kernel
example : intStr 0 = "0".toList ∧ intStr (-7) = "-7".toList ∧ intStr (10 ^ 18) = "1000000000000000000".toList := by
  decide +kernel

/-- `C04_int_relex` instantiated: `0`, `-7`, `10^18` before a newline. -/
example : ∃ st', step Env.ascii false stReady (intStr 0 ++ "\n".toList) = .ok (st', "\n".toList) ∧
    st'.toks = [{ type := .number, value := .int 0, line := 1, col := 4, raw := some "0".toList }] := by
  obtain ⟨st', h1, h2⟩ := (C04_int_relex Env.ascii false stReady 0 0 "\n".toList stReady_ready
    (termAscii _ _ (by decide)).num (by decide +kernel)).2
  exact ⟨st', h1, h2.toks⟩
example : ∃ st', step Env.ascii true stReady (intStr (-7) ++ ",1]".toList) = .ok (st', ",1]".toList) ∧
    st'.toks = [{ type := .number, value := .int (-7), line := 1, col := 4, raw := some "-7".toList }] ∧ st'.col = 6 := by
  obtain ⟨st', h1, h2⟩ := (C04_int_relex Env.ascii true stReady (-7) 0 ",1]".toList stReady_ready
    (termAscii _ _ (by decide)).num (by decide +kernel)).2
  exact ⟨st', h1, h2.toks, h2.col⟩
example : ∃ st', step Env.ascii false stReady (intStr (10 ^ 18) ++ "\n".toList) = .ok (st', "\n".toList) ∧
    st'.toks = [{ type := .number, value := .int (10 ^ 18), line := 1, col := 4, raw := some (intStr (10 ^ 18)) }] ∧
    st'.col = 23 := by
  obtain ⟨st', h1, h2⟩ := (C04_int_relex Env.ascii false stReady (10 ^ 18) 0 "\n".toList stReady_ready
    (termAscii _ _ (by decide)).num (by decide +kernel)).2
  refine ⟨st', h1, h2.toks, ?_⟩
  rw [h2.col]; decide +kernel

/-- the limit is sharp: `10^4300 - 1` (4300 nines) is inside, `10^4300` is outside. -/
theorem nines_inside (k : Nat) (hk : 0 < k) : (natStr ((10 ^ k - 1 : Nat) : Int).natAbs).length ≤ k := by
  rw [Int.natAbs_natCast, natStr_length_le_iff _ k hk]
  exact Nat.sub_lt (Nat.pow_pos (by decide)) (by decide)
theorem pow_outside (k : Nat) (hk : 0 < k) : k < (natStr ((10 ^ k : Nat) : Int).natAbs).length := by
  rw [Int.natAbs_natCast]
  exact Nat.lt_of_not_le (fun hle => Nat.lt_irrefl _ ((natStr_length_le_iff _ k hk).mp hle))
theorem inside_limit_witness : (natStr ((10 ^ 4300 - 1 : Nat) : Int).natAbs).length ≤ 4300 := nines_inside 4300 (by decide)
theorem over_limit_witness : 4300 < (natStr ((10 ^ 4300 : Nat) : Int).natAbs).length := pow_outside 4300 (by decide)

/-- `C04_int_relex` / `C04_int_over_limit_refused` instantiated at the boundary. -/
example : ∃ st', step Env.ascii false stReady (intStr ((10 ^ 4300 - 1 : Nat) : Int) ++ "\n".toList) = .ok (st', "\n".toList) ∧
    st'.toks = [{ type := .number, value := .int ((10 ^ 4300 - 1 : Nat) : Int), line := 1, col := 4,
                  raw := some (intStr ((10 ^ 4300 - 1 : Nat) : Int)) }] := by
  obtain ⟨st', h1, h2⟩ := (C04_int_relex Env.ascii false stReady ((10 ^ 4300 - 1 : Nat) : Int) 0 "\n".toList stReady_ready
    (termAscii _ _ (by decide)).num inside_limit_witness).2
  exact ⟨st', h1, h2.toks⟩
example : step Env.ascii false stReady (intStr ((10 ^ 4300 : Nat) : Int) ++ "\n".toList) = .error (.lexer "E005".toList 1 4) :=
  C04_int_over_limit_refused Env.ascii false stReady _ "\n".toList stReady_ready (termAscii _ _ (by decide)).num over_limit_witness

/-- `C04_float_relex` instantiated: `2.5e-07` (with `Env.ascii`, whose `floatRepr` is the identity). -/
example : isFloatRepr "2.5e-07".toList = true ∧ isFloatRepr "1e+16".toList = true ∧ isFloatRepr "-0.0".toList = true ∧
    isFloatRepr "100.0".toList = true ∧ isFloatRepr "5e-324".toList = true ∧
    isFloatRepr "1.7976931348623157e+308".toList = true ∧
    isFloatRepr "inf".toList = false ∧ isFloatRepr "nan".toList = false ∧ isFloatRepr "12".toList = false := by decide
example : ∃ st', step Env.ascii false stReady ("2.5e-07".toList ++ "\n".toList) = .ok (st', "\n".toList) ∧
    st'.toks = [{ type := .number, value := .float "2.5e-07".toList, line := 1, col := 4, raw := some "2.5e-07".toList }] ∧
    st'.col = 11 ∧ st'.prev = some '7' := by
  obtain ⟨st', h1, h2⟩ := (C04_float_relex Env.ascii false stReady "2.5e-07".toList 0 "\n".toList stReady_ready
    (by decide) rfl (termAscii _ _ (by decide))).2
  exact ⟨st', h1, h2.toks, h2.col, h2.prev⟩

/-- whole-model runs (`tokenize`, closed terms evaluated by the kernel). -/
example : (match Lexer.tokenize Env.ascii "K::-42\n".toList with
    | .ok (toks, reps) => (toks.map (fun t => (t.type, t.value, t.raw)), reps)
    | .error _ => ([], [])) =
    ([(.identifier, .str ['K'], none), (.assign, .str "::".toList, none), (.number, .int (-42), some "-42".toList),
      (.newline, .str ['\n'], none), (.eof, .none, none)], []) := by decide +kernel
example : (match Lexer.tokenize Env.ascii "K::[0,1000000000000000000,2.5e-07,-0.5]\n".toList with
    | .ok (toks, _) => (toks.filter (·.type == .number)).map (fun t => (t.value, t.raw))
    | .error _ => []) =
    [(.int 0, some "0".toList), (.int (10 ^ 18), some "1000000000000000000".toList),
     (.float "2.5e-07".toList, some "2.5e-07".toList), (.float "-0.5".toList, some "-0.5".toList)] := by decide +kernel

/-! ### the terminator hypotheses are necessary (what happens at the excluded points, in the model as in the real lexer) -/

/-- type and value of the third token (the one after `K::`). -/
def valueTokenOf (src : String) : TT × TVal :=
  match Lexer.tokenize Env.ascii src.toList with
  | .ok (toks, _) => ((toks.getD 2 default).type, (toks.getD 2 default).value)
  | .error _ => (.eof, .none)

/-- an integer followed by `.` / `e5` is a float lexeme; `1.5` followed by `-x` / `+x` / `.2` is a VERSION;
a Unicode digit would extend the lexeme (excluded through `env.isDigit`). -/
example : [valueTokenOf "K::12.\n", valueTokenOf "K::12e5\n", valueTokenOf "K::1.5-x\n", valueTokenOf "K::1.5+x\n",
    valueTokenOf "K::1.5.2\n", valueTokenOf "K::1.5e5\n"] =
    [(TT.number, TVal.float "12.".toList), (TT.number, TVal.float "12e5".toList), (TT.version, TVal.str "1.5-x".toList),
     (TT.version, TVal.str "1.5+x".toList), (TT.version, TVal.str "1.5.2".toList), (TT.number, TVal.float "1.5e5".toList)] := by
  decide +kernel

end Octave.C04
