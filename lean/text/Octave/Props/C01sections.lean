/-
C01 / C02 (and the marker clause of C03 / C07) on documents with SECTION MARKERS — the document-level statement, proved
for all inputs of the class:

  a document with sections = an envelope `===NAME===`, a forest of
    lines    `KEY::scalar`    (scalar = a string the emitter quotes, a bare word, a boolean, null, an integer),
    blocks   `KEY:`           with children two spaces deeper,
    sections `§ID::NAME`      with children two spaces deeper (no bracket annotation),
  ANY depth, ANY width, the three kinds mixed at every level (sections in sections, blocks in sections, sections in
  blocks: `blockLoop` hands every child to `parse_section`, which dispatches on the SECTION token, and `emit_block` prints
  a Section child — checked on the real code too), empty blocks and empty sections included; then `===END===`.
  Section ids (`SecId`): a decimal number `§1` `§12` (no leading zero: `natStr n`), an identifier `§CONTEXT`, or a decimal
  number followed by ONE ASCII letter `§2b` (`e` / `E` included: `§2e::` is NUMBER `2`, IDENTIFIER `e`).

For every such document (any name, any forest, any ids / names / keys / values):

  * `C01_sect_canonical_is_readable`   the strict reader accepts the canonical text and returns the same document
                                       (every node at its text line, column `1 + 2·depth`);
  * `C01_sect_fixed_point`             `emit (parse (emit d)) = emit d`, whatever positions the AST carries (`…_matches`);
  * `C02_sect_content_preserved`       the document read back has the same name and its sections carry exactly the forest
                                       (`sectMatches`: per section the same id string and the same name, no annotation,
                                       the same children in the same order; per block the same key and children; per line
                                       the same key and the same value with its type); nothing else appears;
  * `C02_sect_lenient_read`            the lenient entry point reads the same document with NO normalisation receipt
                                       (`…_exact`: the exact receipts and warnings; `…_silent`: when there is no warning);
  * `C03_sect_hash_spelling`           the ASCII spelling `#ID::NAME` of the markers: the same document (same positions),
                                       and the normalisation receipts are EXACTLY one `#` → `§` per marker, at the
                                       marker's position, in reading order (`sectMarkerReceipts`); canonicalising the `#`
                                       text gives the canonical `§` text (`C03_sect_hash_canonicalises`);
  * `sect_text_injective` / `C15_sect_emit_injective`   the canonical text determines name and content.

Hypotheses — each one necessary (examples at the end; runs of the real reader are quoted in the comments there):
  `isEnvName name`, `name ≠ "END"`; `sectOK`: keys and names identifier-shaped without a reserved-word prefix, ids as above
  (`SecId.OK`), scalars as the emitter spells them; `sectEmitOK` for statements about `emit`; `firstKeyIsMetaS = false`
  (a first top-level line or block keyed `META` is the META block — a first SECTION never is, not even `§META::X`);
  and two laws of the outside world (`Env`): NFC leaves every line of the text unchanged (`hnfc`; `§` is NFC-stable in
  reality) and `\d` does not match `§` (`hsec`: `env.isDigit '§' = false`; true in CPython — needed because the model asks
  `Env` about every non-ASCII character; not needed for the `#` spelling).
The parser half needs no hypothesis on ids beyond `str.isalpha` of the `§2b` letter (`PId.letterOk`) and the columns of
block keys / section markers (`PNode.wf`), which the lexer's positions satisfy (`wf_sposOf`).
-/
import Octave.Lemmas.SectBridge
import Octave.Props.C01blocks
import Octave.Props.C02flat
import Octave.Model.Canon
namespace Octave.C01
open Octave Lexer Emitter

/-! ### the parser half on token lists (any positions) -/

/-- **The parser on the token list of a document with sections** (any mode): the document, and the final parser state. -/
theorem sect_parseDocument (env : Env) (strict : Bool) (f : FlatParse.Frame) (name : Str) (pos : Nat → SectParse.SPos)
    (nodes : List SectParse.PNode)
    (hm : SectParse.metaFirstS nodes = false) (hc : SectParse.wfList env.isAlpha pos nodes 0 0 = true) :
    Parser.parseDocument.run (Parser.initState env (SectParse.sectToks f name pos nodes) strict)
      = .ok (SectParse.sectDoc name pos nodes,
             { Parser.initState env (SectParse.sectToks f name pos nodes) strict with
                 rest := [f.nl1Tok, f.eofTok], prev := some f.endTok, pos := (SectParse.toksList pos nodes 0 0).length + 3,
                 warnings := (SectParse.warnsList pos nodes [] 0).reverse }) := by
  have h := SectParse.parseDocument_sect f name pos nodes (Parser.initState env (SectParse.sectToks f name pos nodes) strict) hm hc rfl
  simp only [StateT.run]
  rw [h]
  simp only [Parser.initState, List.append_nil, Nat.zero_add]

/-- strict entry point on tokens: exactly `sectDoc`, for every forest at arbitrary positions subject to `wf`. -/
theorem C02_sect_document_read (env : Env) (f : FlatParse.Frame) (name : Str) (pos : Nat → SectParse.SPos)
    (nodes : List SectParse.PNode)
    (hm : SectParse.metaFirstS nodes = false) (hc : SectParse.wfList env.isAlpha pos nodes 0 0 = true) :
    C02.parseToks env (SectParse.sectToks f name pos nodes) = .ok (SectParse.sectDoc name pos nodes) := by
  unfold C02.parseToks
  rw [sect_parseDocument env true f name pos nodes hm hc]
  rfl

/-- lenient entry point on tokens: the same document and exactly the warnings `warnsList pos nodes [] 0`. -/
theorem C02_sect_document_read_warnings (env : Env) (f : FlatParse.Frame) (name : Str) (pos : Nat → SectParse.SPos)
    (nodes : List SectParse.PNode)
    (hm : SectParse.metaFirstS nodes = false) (hc : SectParse.wfList env.isAlpha pos nodes 0 0 = true) :
    C02.parseToksWithWarnings env (SectParse.sectToks f name pos nodes)
      = .ok (SectParse.sectDoc name pos nodes, SectParse.warnsList pos nodes [] 0) := by
  unfold C02.parseToksWithWarnings
  rw [sect_parseDocument env false f name pos nodes hm hc]
  simp only [bind, Except.bind, pure, Except.pure, List.reverse_reverse]

/-- text level, given the lexer half. -/
theorem C02_sect_text_read (env : Env) (content : Str) (f : FlatParse.Frame) (name : Str) (pos : Nat → SectParse.SPos)
    (nodes : List SectParse.PNode) (reps : List Repair)
    (ht : Lexer.tokenize env (Parser.stripFrontmatter env content).1 = .ok (SectParse.sectToks f name pos nodes, reps))
    (hm : SectParse.metaFirstS nodes = false) (hc : SectParse.wfList env.isAlpha pos nodes 0 0 = true) :
    Parser.parse env content
      = .ok { SectParse.sectDoc name pos nodes with rawFrontmatter := (Parser.stripFrontmatter env content).2 } := by
  rw [C02.parse_eq_parseToks env content _ reps ht, C02_sect_document_read env f name pos nodes hm hc]
  rfl

theorem C02_sect_text_read_warnings (env : Env) (content : Str) (f : FlatParse.Frame) (name : Str) (pos : Nat → SectParse.SPos)
    (nodes : List SectParse.PNode) (reps : List Repair)
    (ht : Lexer.tokenize env (Parser.stripFrontmatter env content).1 = .ok (SectParse.sectToks f name pos nodes, reps))
    (hm : SectParse.metaFirstS nodes = false) (hc : SectParse.wfList env.isAlpha pos nodes 0 0 = true) :
    Parser.parseWithWarnings env content
      = .ok ({ SectParse.sectDoc name pos nodes with rawFrontmatter := (Parser.stripFrontmatter env content).2 }, reps,
             SectParse.warnsList pos nodes [] 0) := by
  rw [C02.parseWithWarnings_eq_parseToks env content _ reps ht, C02_sect_document_read_warnings env f name pos nodes hm hc]
  rfl

/-! ### the two halves composed -/

/-- the lexer half in the vocabulary of the parser half: the text (either spelling of the markers) lexes to `sectToks`. -/
theorem sect_text_lexes (env : Env) (lenient : Bool) (hash : Bool) (name : Str) (nodes : List SNode)
    (hsec : hash = false → env.isDigit '§' = false)
    (hn : isEnvName name = true) (hne : name ≠ "END".toList) (hok : sectOK nodes)
    (hnfc : ∀ l ∈ splitLines (sectDocText hash name nodes), env.nfc l = l) :
    Lexer.tokenize env (Parser.stripFrontmatter env (sectDocText hash name nodes)).1 lenient
      = .ok (SectParse.sectToks (treeFrame name (sectNLines nodes)) name (sposOf hash nodes) (sectToP nodes),
             (sectRepsRev hash 0 2 nodes).reverse) := by
  rw [stripFrontmatter_sect, ← sectToks_bridge]
  exact tokenize_sect env lenient hash name nodes hsec hn hne hok hnfc

theorem metaFirstS_false (nodes : List SNode) (hm : firstKeyIsMetaS nodes = false) :
    SectParse.metaFirstS (sectToP nodes) = false := by
  rw [metaFirstS_bridge]; exact hm

/-- the strict reader on the text, markers spelled either way: the same document, at the same positions. -/
theorem sect_text_readable (env : Env) (hash : Bool) (name : Str) (nodes : List SNode)
    (hsec : hash = false → env.isDigit '§' = false)
    (hn : isEnvName name = true) (hne : name ≠ "END".toList) (hok : sectOK nodes) (hm : firstKeyIsMetaS nodes = false)
    (hnfc : ∀ l ∈ splitLines (sectDocText hash name nodes), env.nfc l = l) :
    Parser.parse env (sectDocText hash name nodes) = .ok (sectDoc name canonPos nodes) := by
  have hlex := sect_text_lexes env false hash name nodes hsec hn hne hok hnfc
  have := C02_sect_text_read env (sectDocText hash name nodes) (treeFrame name (sectNLines nodes)) name (sposOf hash nodes)
    (sectToP nodes) _ hlex (metaFirstS_false nodes hm) (wf_sposOf hash env.isAlpha (alphaOK_env env) nodes hok)
  rw [this, stripFrontmatter_sect, sectDoc_bridge]
  rfl

/-- **the canonical text of a document with section markers is accepted by the strict reader, which returns the same
document** (every node positioned at its text line, column `1 + 2·depth`: `canonPos`; every section with its id string,
its name, no annotation, exactly its children). -/
theorem C01_sect_canonical_is_readable (env : Env) (name : Str) (nodes : List SNode)
    (hsec : env.isDigit '§' = false)
    (hn : isEnvName name = true) (hne : name ≠ "END".toList) (hok : sectOK nodes) (hm : firstKeyIsMetaS nodes = false)
    (hnfc : ∀ l ∈ splitLines (sectDocText false name nodes), env.nfc l = l) :
    Parser.parse env (sectDocText false name nodes) = .ok (sectDoc name canonPos nodes) :=
  sect_text_readable env false name nodes (fun _ => hsec) hn hne hok hm hnfc

/-- **C01 on documents with section markers: the canonical text is a fixed point.**  Emit the document, read the text with
the strict reader, emit again: the same bytes.  For every such document, whatever positions its nodes carry. -/
theorem C01_sect_fixed_point (env : Env) (name : Str) (pos : Nat → Nat → Nat × Nat) (nodes : List SNode)
    (hsec : env.isDigit '§' = false)
    (hn : isEnvName name = true) (hne : name ≠ "END".toList) (hok : sectOK nodes) (hem : sectEmitOK nodes)
    (hm : firstKeyIsMetaS nodes = false) (hnfc : ∀ l ∈ splitLines (sectDocText false name nodes), env.nfc l = l) :
    ∃ text d', emit env (sectDoc name pos nodes) = some text ∧ Parser.parse env text = .ok d' ∧ emit env d' = some text :=
  ⟨sectDocText false name nodes, sectDoc name canonPos nodes, emit_sect env name pos nodes hem,
   C01_sect_canonical_is_readable env name nodes hsec hn hne hok hm hnfc, emit_sect env name _ nodes hem⟩

/-- the same for ANY AST that carries the forest (any positions at all in the nodes). -/
theorem C01_sect_fixed_point_matches (env : Env) (name : Str) (nodes : List SNode) (sections : List Node)
    (hmt : sectMatches nodes sections) (hsec : env.isDigit '§' = false)
    (hn : isEnvName name = true) (hne : name ≠ "END".toList) (hok : sectOK nodes) (hem : sectEmitOK nodes)
    (hm : firstKeyIsMetaS nodes = false) (hnfc : ∀ l ∈ splitLines (sectDocText false name nodes), env.nfc l = l) :
    ∃ text d', emit env { name := name, sections := sections } = some text ∧ Parser.parse env text = .ok d' ∧
      emit env d' = some text :=
  ⟨sectDocText false name nodes, sectDoc name canonPos nodes, emit_sect_matches env name nodes sections hmt hem,
   C01_sect_canonical_is_readable env name nodes hsec hn hne hok hm hnfc, emit_sect env name _ nodes hem⟩

/-- **C02 on documents with section markers: reading the canonical text yields exactly the content that was written** —
the name; sections that carry the forest (`sectMatches`: per section the same id and the same name, no annotation, the same
children in the same order; per block the same key and children; per line the same key and the same value with its type;
no comments); nothing else appears. -/
theorem C02_sect_content_preserved (env : Env) (name : Str) (pos : Nat → Nat → Nat × Nat) (nodes : List SNode)
    (hsec : env.isDigit '§' = false)
    (hn : isEnvName name = true) (hne : name ≠ "END".toList) (hok : sectOK nodes) (hem : sectEmitOK nodes)
    (hm : firstKeyIsMetaS nodes = false) (hnfc : ∀ l ∈ splitLines (sectDocText false name nodes), env.nfc l = l) :
    ∃ text d', emit env (sectDoc name pos nodes) = some text ∧ Parser.parse env text = .ok d' ∧
      d'.name = name ∧ d'.metaKv = [] ∧ d'.hasSeparator = false ∧ d'.trailingComments = [] ∧ d'.grammarVersion = none ∧
      d'.rawFrontmatter = none ∧ sectMatches nodes d'.sections :=
  ⟨sectDocText false name nodes, sectDoc name canonPos nodes, emit_sect env name pos nodes hem,
   C01_sect_canonical_is_readable env name nodes hsec hn hne hok hm hnfc, rfl, rfl, rfl, rfl, rfl, rfl,
   sectNodes_matches canonPos nodes 0 0⟩

/-- the lenient entry point (`parse_with_warnings`) on the text (either spelling), exactly: the same document, the lexer's
receipts, and the parser's warnings (per line W_PATTERN_AUTOQUOTE for a bare word under `PATTERN`/`REGEX`, then the
duplicate-key warning of its level — tracked per block, per section and at top level, for Assignment children only). -/
theorem C02_sect_lenient_read_exact (env : Env) (hash : Bool) (name : Str) (nodes : List SNode)
    (hsec : hash = false → env.isDigit '§' = false)
    (hn : isEnvName name = true) (hne : name ≠ "END".toList) (hok : sectOK nodes) (hm : firstKeyIsMetaS nodes = false)
    (hnfc : ∀ l ∈ splitLines (sectDocText hash name nodes), env.nfc l = l) :
    Parser.parseWithWarnings env (sectDocText hash name nodes)
      = .ok (sectDoc name canonPos nodes, (sectRepsRev hash 0 2 nodes).reverse,
             SectParse.warnsList (sposOf hash nodes) (sectToP nodes) [] 0) := by
  have hlex := sect_text_lexes env false hash name nodes hsec hn hne hok hnfc
  have := C02_sect_text_read_warnings env (sectDocText hash name nodes) (treeFrame name (sectNLines nodes)) name (sposOf hash nodes)
    (sectToP nodes) _ hlex (metaFirstS_false nodes hm) (wf_sposOf hash env.isAlpha (alphaOK_env env) nodes hok)
  rw [this, stripFrontmatter_sect, sectDoc_bridge]
  rfl

/-! ### receipts: none for `§`, exactly one per `#` -/

mutual
/-- the receipts owed for the markers of a node when they are spelled `#`, in reading order: one normalisation `#` → `§`
per section marker, at the marker's position (line of the header, column `1 + 2·depth`). -/
def nodeMarkerReceipts (d l : Nat) : SNode → List Repair
  | .line _ => []
  | .block _ cs => sectMarkerReceipts (d + 1) (l + 1) cs
  | .sect _ _ cs => Repair.normalization ['#'] (.str ['§']) l (1 + 2 * d) :: sectMarkerReceipts (d + 1) (l + 1) cs
def sectMarkerReceipts (d l : Nat) : List SNode → List Repair
  | [] => []
  | n :: ns => nodeMarkerReceipts d l n ++ sectMarkerReceipts d (l + n.nlines) ns
end

theorem secId_repsRev_not_norm (id : SecId) (l c : Nat) : (id.repsRev l c).filter isNormalization = [] := by
  cases id with
  | num n => rfl
  | name s => exact identReps_rev_not_norm s _ _
  | numLetter n ch => exact identReps_rev_not_norm _ _ _

theorem sheader_reps_norm (hash : Bool) (id : SecId) (key : Str) (d l : Nat) :
    (sheaderRepsRev hash id key d l).filter isNormalization = markerReps hash l (1 + 2 * d) := by
  simp only [sheaderRepsRev, List.filter_append, identReps_rev_not_norm, secId_repsRev_not_norm, List.nil_append]
  cases hash <;> rfl

mutual
theorem snode_reps_canon : ∀ (n : SNode) (d l : Nat), (n.repsRev false d l).filter isNormalization = []
  | .line ln, d, l => by simp only [SNode.repsRev]; exact line_repsRev_not_norm ln l _
  | .block key cs, d, l => by
    simp only [SNode.repsRev, List.filter_append, stree_reps_canon cs (d + 1) (l + 1), identReps_rev_not_norm, List.append_nil]
  | .sect id key cs, d, l => by
    simp only [SNode.repsRev, List.filter_append, stree_reps_canon cs (d + 1) (l + 1), sheader_reps_norm, List.nil_append]
    rfl
theorem stree_reps_canon : ∀ (ns : List SNode) (d l : Nat), (sectRepsRev false d l ns).filter isNormalization = []
  | [], d, l => rfl
  | n :: ns, d, l => by
    simp only [sectRepsRev, List.filter_append, snode_reps_canon n d l, stree_reps_canon ns d (l + n.nlines), List.append_nil]
end

mutual
theorem snode_reps_hash : ∀ (n : SNode) (d l : Nat),
    (n.repsRev true d l).filter isNormalization = (nodeMarkerReceipts d l n).reverse
  | .line ln, d, l => by simp only [SNode.repsRev, nodeMarkerReceipts]; exact line_repsRev_not_norm ln l _
  | .block key cs, d, l => by
    simp only [SNode.repsRev, nodeMarkerReceipts, List.filter_append, stree_reps_hash cs (d + 1) (l + 1),
      identReps_rev_not_norm, List.append_nil]
  | .sect id key cs, d, l => by
    simp only [SNode.repsRev, nodeMarkerReceipts, List.filter_append, stree_reps_hash cs (d + 1) (l + 1), sheader_reps_norm,
      List.reverse_cons]
    rfl
theorem stree_reps_hash : ∀ (ns : List SNode) (d l : Nat),
    (sectRepsRev true d l ns).filter isNormalization = (sectMarkerReceipts d l ns).reverse
  | [], d, l => rfl
  | n :: ns, d, l => by
    simp only [sectRepsRev, sectMarkerReceipts, List.filter_append, snode_reps_hash n d l, stree_reps_hash ns d (l + n.nlines),
      List.reverse_append]
end

/-- the lenient entry point reads the same document from the canonical text, and the lexer issues no normalisation
receipt: the canonical `§` is not "repaired". -/
theorem C02_sect_lenient_read (env : Env) (name : Str) (nodes : List SNode)
    (hsec : env.isDigit '§' = false)
    (hn : isEnvName name = true) (hne : name ≠ "END".toList) (hok : sectOK nodes) (hm : firstKeyIsMetaS nodes = false)
    (hnfc : ∀ l ∈ splitLines (sectDocText false name nodes), env.nfc l = l) :
    ∃ reps warns, Parser.parseWithWarnings env (sectDocText false name nodes) = .ok (sectDoc name canonPos nodes, reps, warns)
      ∧ reps.filter isNormalization = [] := by
  refine ⟨_, _, C02_sect_lenient_read_exact env false name nodes (fun _ => hsec) hn hne hok hm hnfc, ?_⟩
  rw [List.filter_reverse, stree_reps_canon]
  rfl

/-- **the ASCII spelling of the marker** (`#1::NAME` for `§1::NAME`, the `#` → `§` row of the alias table): the lenient
reader returns the SAME document (same ids, names, nesting, values, same positions), and its normalisation receipts are
exactly one `#` → `§` per marker, at the marker's position, in reading order — nothing else is normalised. -/
theorem C03_sect_hash_spelling (env : Env) (name : Str) (nodes : List SNode)
    (hn : isEnvName name = true) (hne : name ≠ "END".toList) (hok : sectOK nodes) (hm : firstKeyIsMetaS nodes = false)
    (hnfc : ∀ l ∈ splitLines (sectDocText true name nodes), env.nfc l = l) :
    ∃ reps warns, Parser.parseWithWarnings env (sectDocText true name nodes) = .ok (sectDoc name canonPos nodes, reps, warns)
      ∧ reps.filter isNormalization = sectMarkerReceipts 0 2 nodes := by
  refine ⟨_, _, C02_sect_lenient_read_exact env true name nodes (fun h => by cases h) hn hne hok hm hnfc, ?_⟩
  rw [List.filter_reverse, stree_reps_hash, List.reverse_reverse]

/-- … and canonicalising the `#` text (lenient read, then emit) gives the canonical `§` text. -/
theorem C03_sect_hash_canonicalises (env : Env) (name : Str) (nodes : List SNode)
    (hn : isEnvName name = true) (hne : name ≠ "END".toList) (hok : sectOK nodes) (hem : sectEmitOK nodes)
    (hm : firstKeyIsMetaS nodes = false)
    (hnfc : ∀ l ∈ splitLines (sectDocText true name nodes), env.nfc l = l) :
    canonLenient env (sectDocText true name nodes) = .ok (sectDocText false name nodes) := by
  unfold canonLenient
  rw [C02_sect_lenient_read_exact env true name nodes (fun h => by cases h) hn hne hok hm hnfc]
  simp only [bind, Except.bind, emit_sect env name canonPos nodes hem]
  rfl

/-- … and the reader is silent (no warning at all) when no line is a bare word under `PATTERN`/`REGEX` and no Assignment key
repeats within one level. -/
theorem C02_sect_lenient_read_silent (env : Env) (name : Str) (nodes : List SNode)
    (hsec : env.isDigit '§' = false)
    (hn : isEnvName name = true) (hne : name ≠ "END".toList) (hok : sectOK nodes) (hm : firstKeyIsMetaS nodes = false)
    (hnfc : ∀ l ∈ splitLines (sectDocText false name nodes), env.nfc l = l)
    (hq : SectParse.quietList (sectToP nodes) = true) (hnd : (SectParse.lineKeys (sectToP nodes)).Nodup) :
    Parser.parseWithWarnings env (sectDocText false name nodes)
      = .ok (sectDoc name canonPos nodes, (sectRepsRev false 0 2 nodes).reverse, []) := by
  rw [C02_sect_lenient_read_exact env false name nodes (fun _ => hsec) hn hne hok hm hnfc,
    SectParse.warnsList_eq_nil (sposOf false nodes) (sectToP nodes) [] 0 hq hnd (fun _ _ => rfl)]

/-! ### the emitter is injective on documents with sections (what the seal of C15 relies on) -/

/-- a line that is certainly not keyed `META`, put in front of a forest to make the reader theorem applicable. -/
def dummyLineS : SNode := .line ⟨"A".toList, .null⟩

theorem dummyLineS_ok : dummyLineS.OK := by
  simp only [dummyLineS, SNode.OK, FLine.OK, FScalar.OK]
  decide

/-- **The canonical text determines the document**: two documents with sections that have the same canonical text have
the same name and the same content (`sectContent`: ids, names, keys, nesting, order, values with their types).  No
hypothesis other than the shape of names, keys and ids: not on `META`, not on `END`, not on the environment — the proof
reads `===D===`, a dummy first line, then the body, with the strict reader in the ASCII environment. -/
theorem sect_text_injective (n1 n2 : Str) (t1 t2 : List SNode)
    (hn1 : isEnvName n1 = true) (hok1 : sectOK t1) (hn2 : isEnvName n2 = true) (hok2 : sectOK t2)
    (h : sectDocText false n1 t1 = sectDocText false n2 t2) : n1 = n2 ∧ sectContent t1 = sectContent t2 := by
  have hname : n1 = n2 := by
    have hs := congrArg splitLines h
    rw [splitLines_sectDocText false n1 t1 hn1 hok1, splitLines_sectDocText false n2 t2 hn2 hok2] at hs
    exact List.append_cancel_left (List.append_cancel_right (List.cons.inj hs).1)
  refine ⟨hname, ?_⟩
  subst hname
  have hbody : sectText false 0 t1 ++ ("===END===".toList ++ ['\n']) = sectText false 0 t2 ++ ("===END===".toList ++ ['\n']) := by
    unfold sectDocText at h
    exact (List.cons.inj (List.append_cancel_left h)).2
  have hD : sectDocText false "D".toList (dummyLineS :: t1) = sectDocText false "D".toList (dummyLineS :: t2) := by
    simp only [sectDocText, sectText, List.append_assoc, hbody]
  have r1 := C01_sect_canonical_is_readable Env.ascii "D".toList (dummyLineS :: t1) rfl (by decide) (by decide)
    ⟨dummyLineS_ok, hok1⟩ rfl (fun _ _ => rfl)
  have r2 := C01_sect_canonical_is_readable Env.ascii "D".toList (dummyLineS :: t2) rfl (by decide) (by decide)
    ⟨dummyLineS_ok, hok2⟩ rfl (fun _ _ => rfl)
  rw [hD, r2] at r1
  have hd : sectDoc "D".toList canonPos (dummyLineS :: t2) = sectDoc "D".toList canonPos (dummyLineS :: t1) := by
    simpa using r1
  simp only [sectDoc, Document.mk.injEq] at hd
  have m1 := sectNodes_matches canonPos (dummyLineS :: t1) 0 0
  have m2 := sectNodes_matches canonPos (dummyLineS :: t2) 0 0
  rw [hd.2.2.2.1] at m2
  have hc := sectContent_of_matches _ _ _ m1 m2
  simp only [sectContent, List.cons.injEq] at hc
  exact hc.2

/-- **Two documents with sections that have the same emitted text have the same content**: on this class `emit` is
injective up to the positions stored in the nodes (the hypothesis of the seal theorems of C15). -/
theorem C15_sect_emit_injective (env : Env) (n1 n2 : Str) (p1 p2 : Nat → Nat → Nat × Nat) (t1 t2 : List SNode)
    (hn1 : isEnvName n1 = true) (hok1 : sectOK t1) (hem1 : sectEmitOK t1)
    (hn2 : isEnvName n2 = true) (hok2 : sectOK t2) (hem2 : sectEmitOK t2)
    (h : emit env (sectDoc n1 p1 t1) = emit env (sectDoc n2 p2 t2)) :
    n1 = n2 ∧ sectContent t1 = sectContent t2 := by
  rw [emit_sect env n1 p1 t1 hem1, emit_sect env n2 p2 t2 hem2] at h
  exact sect_text_injective n1 n2 t1 t2 hn1 hok1 hn2 hok2 (by simpa using h)

/-- the same for ANY two ASTs that carry the forests (any positions at all in the nodes). -/
theorem C15_sect_emit_injective_matches (env : Env) (n1 n2 : Str) (s1 s2 : List Node) (t1 t2 : List SNode)
    (hmt1 : sectMatches t1 s1) (hmt2 : sectMatches t2 s2)
    (hn1 : isEnvName n1 = true) (hok1 : sectOK t1) (hem1 : sectEmitOK t1)
    (hn2 : isEnvName n2 = true) (hok2 : sectOK t2) (hem2 : sectEmitOK t2)
    (h : emit env { name := n1, sections := s1 } = emit env { name := n2, sections := s2 }) :
    n1 = n2 ∧ sectContent t1 = sectContent t2 := by
  rw [emit_sect_matches env n1 t1 s1 hmt1 hem1, emit_sect_matches env n2 t2 s2 hmt2 hem2] at h
  exact sect_text_injective n1 n2 t1 t2 hn1 hok1 hn2 hok2 (by simpa using h)

/-! ### non-vacuity -/

/-- the document of the task statement:
```
===D===
§1::OVERVIEW
  GOAL::"x"
  §2b::DETAILS
    K::true
Z::1
===END===
``` -/
def exSect : List SNode :=
  [.sect (.num 1) "OVERVIEW".toList
      [.line ⟨"GOAL".toList, .qstr "x".toList⟩, .sect (.numLetter 2 'b') "DETAILS".toList [.line ⟨"K".toList, .bool true⟩]],
   .line ⟨"Z".toList, .int 1⟩]

def exSectText : Str := "===D===\n§1::OVERVIEW\n  GOAL::\"x\"\n  §2b::DETAILS\n    K::true\nZ::1\n===END===\n".toList

example : sectDocText false "D".toList exSect = exSectText := by decide

theorem exSect_ok : sectOK exSect := by
  simp only [exSect, sectOK, SNode.OK, SecId.OK, FLine.OK, FScalar.OK]
  decide

/-- the example read by the strict reader: text and AST written out.  (Reading needs `sectOK` only; this text is not what
the emitter writes for that AST — it spells the string `x` bare —, which is why `sectEmitOK` is a hypothesis of the
fixed-point theorems and `exSect2` is the example there.) -/
example : Parser.parse Env.ascii exSectText
    = .ok { name := "D".toList,
            sections :=
              [ .sect "1".toList "OVERVIEW".toList none
                  [ .assign "GOAL".toList (.str "x".toList) 3 3 [] none,
                    .sect "2b".toList "DETAILS".toList none [ .assign "K".toList (.bool true) 5 5 [] none ] 4 3 [] ] 2 1 [],
                .assign "Z".toList (.int 1) 6 1 [] none ] } :=
  C01_sect_canonical_is_readable Env.ascii "D".toList exSect rfl (by decide) (by decide) exSect_ok (by decide) (fun _ _ => rfl)

/-- the whole model evaluated on the same text gives the same document (independent of the theorems). -/
example : Parser.parse Env.ascii exSectText = .ok (sectDoc "D".toList canonPos exSect) :=
  SectParse.isOkDocS_sound (by decide +kernel)

/-- the lexer theorem applies to it, and the token shape is the one described in `SectParse`. -/
example : tokenize Env.ascii exSectText false = .ok (sectDocToks false "D".toList exSect, []) :=
  tokenize_sect Env.ascii false false "D".toList exSect (fun _ => rfl) (by decide) (by decide) exSect_ok (fun _ _ => rfl)

example : (sectDocToks false "D".toList exSect).map Token.tv =
    [(.envelopeStart, .str "D".toList), (.newline, .str ['\n']),
     (.section, .str ['§']), (.number, .int 1), (.assign, .str "::".toList), (.identifier, .str "OVERVIEW".toList), (.newline, .str ['\n']),
     (.indent, .nat 2), (.identifier, .str "GOAL".toList), (.assign, .str "::".toList), (.string, .str "x".toList), (.newline, .str ['\n']),
     (.indent, .nat 2), (.section, .str ['§']), (.number, .int 2), (.identifier, .str "b".toList), (.assign, .str "::".toList),
       (.identifier, .str "DETAILS".toList), (.newline, .str ['\n']),
     (.indent, .nat 4), (.identifier, .str "K".toList), (.assign, .str "::".toList), (.boolean, .bool true), (.newline, .str ['\n']),
     (.identifier, .str "Z".toList), (.assign, .str "::".toList), (.number, .int 1), (.newline, .str ['\n']),
     (.envelopeEnd, .str "END".toList), (.newline, .str ['\n']), (.eof, .none)] := by decide

example : ∃ reps warns, Parser.parseWithWarnings Env.ascii (sectDocText false "D".toList exSect)
      = .ok (sectDoc "D".toList canonPos exSect, reps, warns) ∧ reps.filter isNormalization = [] :=
  C02_sect_lenient_read Env.ascii "D".toList exSect rfl (by decide) (by decide) exSect_ok (by decide) (fun _ _ => rfl)

/-- the ASCII spelling of the example: the same document, two receipts — one per marker, at (2,1) and (4,3). -/
example : sectDocText true "D".toList exSect
    = "===D===\n#1::OVERVIEW\n  GOAL::\"x\"\n  #2b::DETAILS\n    K::true\nZ::1\n===END===\n".toList := by decide

example : ∃ reps warns, Parser.parseWithWarnings Env.ascii (sectDocText true "D".toList exSect)
      = .ok (sectDoc "D".toList canonPos exSect, reps, warns) ∧
      reps.filter isNormalization = [.normalization ['#'] (.str ['§']) 2 1, .normalization ['#'] (.str ['§']) 4 3] :=
  C03_sect_hash_spelling Env.ascii "D".toList exSect (by decide) (by decide) exSect_ok (by decide) (fun _ _ => rfl)

/-- … evaluated on the whole model, independently of the theorem: document and receipts. -/
example : (match Parser.parseWithWarnings Env.ascii "===D===\n#1::OVERVIEW\n  GOAL::\"x\"\n  #2b::DETAILS\n    K::true\nZ::1\n===END===\n".toList with
    | .ok (d, reps, warns) => SectParse.docEqS d (sectDoc "D".toList canonPos exSect) &&
        reps == [.normalization ['#'] (.str ['§']) 2 1, .normalization ['#'] (.str ['§']) 4 3] && warns.isEmpty
    | .error _ => false) = true := by decide +kernel

/-- a forest the emitter spells exactly so: identifier id equal to the name, `§2e` (letter `e`), a section inside a block
inside a section, empty sections (followed by a sibling at depth 1, at depth 0, and by a dedent), every scalar kind, a
section as the only child of a top-level block, id `0`. -/
def exSect2 : List SNode :=
  [.sect (.name "CONTEXT".toList) "CONTEXT".toList
      [.line ⟨"A".toList, .qstr "x y".toList⟩,
       .block "B".toList [.sect (.numLetter 2 'e') "DEEP".toList [.line ⟨"W".toList, .null⟩, .sect (.num 40) "LEAF".toList []],
                          .line ⟨"V".toList, .bare "word".toList⟩],
       .sect (.num 12) "EMPTY".toList [],
       .line ⟨"U".toList, .bool false⟩],
   .sect (.num 3) "E2".toList [],
   .line ⟨"Z".toList, .int (-7)⟩,
   .block "LAST".toList [.sect (.num 0) "IN_BLOCK".toList [.line ⟨"T".toList, .qstr []⟩]]]

example : sectDocText false "DOC".toList exSect2 =
    ("===DOC===\n§CONTEXT::CONTEXT\n  A::\"x y\"\n  B:\n    §2e::DEEP\n      W::null\n      §40::LEAF\n    V::word\n  §12::EMPTY\n  U::false\n" ++
     "§3::E2\nZ::-7\nLAST:\n  §0::IN_BLOCK\n    T::\"\"\n===END===\n").toList := by decide +kernel

theorem exSect2_ok : sectOK exSect2 := by
  simp only [exSect2, sectOK, SNode.OK, SecId.OK, FLine.OK, FScalar.OK]
  decide

theorem exSect2_emit : sectEmitOK exSect2 := by
  simp only [exSect2, sectEmitOK, SNode.EmitOK, FLine.EmitOK]
  decide

example : ∃ text d', emit Env.ascii (sectDoc "DOC".toList (fun _ _ => (7, 7)) exSect2) = some text ∧
    Parser.parse Env.ascii text = .ok d' ∧ emit Env.ascii d' = some text :=
  C01_sect_fixed_point Env.ascii "DOC".toList _ exSect2 rfl (by decide) (by decide) exSect2_ok exSect2_emit (by decide)
    (fun _ _ => rfl)

example : Parser.parse Env.ascii (sectDocText false "DOC".toList exSect2) = .ok (sectDoc "DOC".toList canonPos exSect2) :=
  C01_sect_canonical_is_readable Env.ascii "DOC".toList exSect2 rfl (by decide) (by decide) exSect2_ok (by decide) (fun _ _ => rfl)

example : ∃ text d', emit Env.ascii (sectDoc "DOC".toList (fun i d => (d, i)) exSect2) = some text ∧
    Parser.parse Env.ascii text = .ok d' ∧ d'.name = "DOC".toList ∧ d'.metaKv = [] ∧ d'.hasSeparator = false ∧
    d'.trailingComments = [] ∧ d'.grammarVersion = none ∧ d'.rawFrontmatter = none ∧ sectMatches exSect2 d'.sections :=
  C02_sect_content_preserved Env.ascii "DOC".toList _ exSect2 rfl (by decide) (by decide) exSect2_ok exSect2_emit (by decide)
    (fun _ _ => rfl)

/-- `exSect2` is read silently: its receipts are the identifier notes only (none here), and there is no warning. -/
example : Parser.parseWithWarnings Env.ascii (sectDocText false "DOC".toList exSect2)
    = .ok (sectDoc "DOC".toList canonPos exSect2, (sectRepsRev false 0 2 exSect2).reverse, []) :=
  C02_sect_lenient_read_silent Env.ascii "DOC".toList exSect2 rfl (by decide) (by decide) exSect2_ok (by decide) (fun _ _ => rfl)
    (by decide) (by decide)

example : canonLenient Env.ascii (sectDocText true "DOC".toList exSect2) = .ok (sectDocText false "DOC".toList exSect2) :=
  C03_sect_hash_canonicalises Env.ascii "DOC".toList exSect2 (by decide) (by decide) exSect2_ok exSect2_emit (by decide)
    (fun _ _ => rfl)

/-- whole-model runs on `exSect2` (evaluated by the kernel, independently of the theorems): the strict canonicaliser fixes
the canonical text; the lenient canonicaliser maps the `#` spelling to it; the strict reader returns `sectDoc`. -/
example : isOkStr (canonStrict Env.ascii (sectDocText false "DOC".toList exSect2)) (sectDocText false "DOC".toList exSect2) = true := by
  decide +kernel
example : isOkStr (canonLenient Env.ascii (sectDocText true "DOC".toList exSect2)) (sectDocText false "DOC".toList exSect2) = true := by
  decide +kernel
example : Parser.parse Env.ascii (sectDocText false "DOC".toList exSect2) = .ok (sectDoc "DOC".toList canonPos exSect2) :=
  SectParse.isOkDocS_sound (by decide +kernel)

/-- the content of the task's example, positions forgotten. -/
example : sectContent exSect =
    [ .sect "1".toList "OVERVIEW".toList
        [ .line "GOAL".toList (.str "x".toList), .sect "2b".toList "DETAILS".toList [ .line "K".toList (.bool true) ] ],
      .line "Z".toList (.int 1) ] := rfl

/-- injectivity applied: a forest with another section id has another text. -/
example : sectDocText false "D".toList exSect ≠ sectDocText false "D".toList [.sect (.num 2) "OVERVIEW".toList [], .line ⟨"Z".toList, .int 1⟩] := by
  intro h
  have := (sect_text_injective _ _ _ _ (by decide) exSect_ok (by decide)
    (by simp only [sectOK, SNode.OK, SecId.OK, FLine.OK, FScalar.OK]; decide) h).2
  simp [exSect, sectContent, SNode.content] at this

/-- the bridge on the examples: the token list of the lexer half IS the token list of the parser half (checked by
evaluation, independently of `sectToks_bridge`), the markers and block keys are at the lexer's columns, the letters are
letters, and the positions are the ones the lexer half's theorem prescribes. -/
example : sectDocToks false "DOC".toList exSect2
    = SectParse.sectToks (treeFrame "DOC".toList 14) "DOC".toList (sposOf false exSect2) (sectToP exSect2) := by decide
example : SectParse.canonList Env.ascii.isAlpha (sposOf false exSect2) (sectToP exSect2) 0 0 = true := by decide
example : SectParse.wfList Env.ascii.isAlpha (sposOf true exSect2) (sectToP exSect2) 0 0 = true := by decide

example : (List.range 6).map (sposOf false exSect) =
    [⟨2, 1, 2, 1, 2, 2, 3, 5, 13, none⟩, ⟨3, 1, 3, 3, 3, 3, 7, 9, 12, none⟩, ⟨4, 1, 4, 3, 4, 5, 6, 8, 15, none⟩,
     ⟨5, 1, 5, 5, 5, 5, 6, 8, 12, none⟩, ⟨6, 1, 6, 1, 1, 1, 2, 4, 5, none⟩, default] := by decide


/-- the id STRINGS covered by the theorems (`SectIdOK` of the task statement): the texts of the ids in `SecId.OK`. -/
def SectIdOK (s : Str) : Prop := ∃ id : SecId, id.OK ∧ id.text = s

example : SectIdOK "1".toList := ⟨.num 1, by simp only [SecId.OK]; decide, by decide⟩
example : SectIdOK "12".toList := ⟨.num 12, by simp only [SecId.OK]; decide, by decide⟩
example : SectIdOK "CONTEXT".toList := ⟨.name "CONTEXT".toList, by simp only [SecId.OK]; decide, rfl⟩
example : SectIdOK "2b".toList := ⟨.numLetter 2 'b', by simp only [SecId.OK]; decide, by decide⟩
example : SectIdOK "2e".toList := ⟨.numLetter 2 'e', by simp only [SecId.OK]; decide, by decide⟩

/-- every covered id string is read back as itself: a one-section document per id. -/
theorem C02_sect_id_preserved (env : Env) (id : SecId) (key : Str) (hsec : env.isDigit '§' = false) (hid : id.OK)
    (hk : isIdentifierText key = true) (hres : hasReservedPrefix key = false)
    (hnfc : ∀ l ∈ splitLines (sectDocText false "D".toList [.sect id key []]), env.nfc l = l) :
    Parser.parse env (sectDocText false "D".toList [.sect id key []])
      = .ok { name := "D".toList, sections := [.sect id.text key none [] 2 1 []] } :=
  C01_sect_canonical_is_readable env "D".toList [.sect id key []] hsec (by decide) (by decide) ⟨⟨hid, hk, hres, trivial⟩, trivial⟩ rfl hnfc


/-! ### the hypotheses are necessary

Each excluded point evaluated on the model (`decide +kernel`), with what the REAL reader (`octave_mcp.core.parser` of /repo,
run through `parse_with_warnings` / `emit` at the same input) does there:

* ids outside `SecId.OK`, written by the emitter for a hand-built AST and read back:
    `§007::X`   → Section id `7`     (real: id `7`, re-emitted `§7::X`: the id CHANGES, the text is not a fixed point)
    `§1.50::X`  → id `1.5`, `§2e5::X` → id `200000.0`, `§٣::X` (Arabic-Indic digit) → id `3`   (real: the same)
    `§2bc::X`, `§2_::X`, `§1_000::X` → ParserError E006 at the token after the number (real: the same)
    `§true::X`, `§null::X`, `§vs::X` → ParserError E006 at 2:2 (real: the same; BOOLEAN / NULL / TENSION token)
    `§-1::X`, `§1.5::X`, `§2e::X`    → read back unchanged (real: the same; `-1` and `1.5` are outside `SecId`, `2e` is inside)
  The reader itself never produces such ids (it renders the NUMBER token with `str(int)` / `repr(float)`), so documents
  that came out of the reader are stable; the id change needs an AST built through the API (or non-canonical input).
* names outside `sectOK`: `§1::true`, `§1::vs` → E006 at the name (real: the same); `§1::Y-` → LexerError E005 (real: same).
* `firstKeyIsMetaS`: a first top-level `META:` block goes to `doc.meta` (real: the same); `§META::X` first is an ordinary
  section (real: the same) — covered by the theorem.
* `PNode.wf` (parser half, positions): a marker whose column is not left of its children's indentation loses its children
  to the enclosing level; an empty section whose marker column is left of its own indentation adopts the next sibling.
  The lexer's columns exclude both (`wf_sposOf`).
* `hsec`: an `Env` whose `\d` matched `§` would lex `§1` as one NUMBER. -/

/-- Boolean test `r = .error e` (`Document` has no `DecidableEq`). -/
def isErr {α : Type} (r : Except Exc α) (e : Exc) : Bool :=
  match r with | .error x => x == e | .ok _ => false

/-- `§007::X`: the id is re-rendered through `int()` — the section id changes. -/
example : (match Parser.parse Env.ascii "===D===\n§007::X\n  K::1\n===END===\n".toList with
    | .ok d => SectParse.nodesEqS d.sections [.sect "7".toList "X".toList none [.assign "K".toList (.int 1) 3 3 [] none] 2 1 []]
    | .error _ => false) = true := by decide +kernel

/-- … and the emitter does write `§007::X` for an AST that carries the id `007` (so `emit ∘ parse ∘ emit ≠ emit` there). -/
example : emit Env.ascii { name := "D".toList, sections := [.sect "007".toList "X".toList none [] 0 0 []] }
    = some "===D===\n§007::X\n===END===\n".toList := by decide +kernel

/-- `§2bc::X`, `§2_::X`: not a one-letter suffix — E006 at the token after the number. -/
example : isErr (Parser.parse Env.ascii "===D===\n§2bc::X\n===END===\n".toList) (.parser "E006".toList 2 3) = true := by decide +kernel
example : isErr (Parser.parse Env.ascii "===D===\n§2_::X\n===END===\n".toList) (.parser "E006".toList 2 3) = true := by decide +kernel

/-- a reserved word as id or as name: E006. -/
example : isErr (Parser.parse Env.ascii "===D===\n§true::X\n===END===\n".toList) (.parser "E006".toList 2 2) = true := by decide +kernel
example : isErr (Parser.parse Env.ascii "===D===\n§1::true\n===END===\n".toList) (.parser "E006".toList 2 5) = true := by decide +kernel

/-- a first top-level block keyed `META` is read into `doc.meta`; the section after it is the only section. -/
example : firstKeyIsMetaS [.block "META".toList [.line ⟨"K".toList, .int 1⟩], .sect (.num 1) "A".toList []] = true ∧
    (match Parser.parse Env.ascii (sectDocText false "D".toList [.block "META".toList [.line ⟨"K".toList, .int 1⟩], .sect (.num 1) "A".toList []]) with
      | .ok d => d.sections.length == 1 && !d.metaKv.isEmpty | .error _ => false) = true := by
  constructor
  · decide
  · decide +kernel

/-- … while a first section whose ID is `META` is an ordinary section (an instance of the theorem). -/
example : Parser.parse Env.ascii (sectDocText false "D".toList [.sect (.name "META".toList) "X".toList [.line ⟨"K".toList, .int 1⟩]])
    = .ok (sectDoc "D".toList canonPos [.sect (.name "META".toList) "X".toList [.line ⟨"K".toList, .int 1⟩]]) :=
  C01_sect_canonical_is_readable Env.ascii "D".toList _ rfl (by decide) (by decide)
    (by simp only [sectOK, SNode.OK, SecId.OK, FLine.OK, FScalar.OK]; decide) (by decide) (fun _ _ => rfl)

/-- `wf`, first clause: the marker of `§1::A` at column 5 (indentation 4), its child `K::true` indented by 2: the child is
not "indented" for the reader — the section is read as EMPTY and `K` is silently re-parented to the top level. -/
def wfExPos1 (i : Nat) : SectParse.SPos :=
  [ (⟨0, 0, 2, 5, 6, 6, 7, 9, 10, none⟩ : SectParse.SPos), ⟨3, 1, 3, 0, 3, 3, 4, 6, 10, none⟩ ].getD i default
def wfExFrame : FlatParse.Frame := { envL := 1, envC := 1, nl0L := 1, nl0C := 8, endL := 4, endC := 1, nl1L := 4, nl1C := 10, eofL := 5, eofC := 1 }

example : SectParse.wfList Env.ascii.isAlpha wfExPos1 [.sect (.num 1 "1".toList) "A".toList [.line "K".toList (.bool true)]] 0 0 = false ∧
    SectParse.isOkDocS (C02.parseToks Env.ascii (SectParse.sectToks wfExFrame "D".toList wfExPos1
        [.sect (.num 1 "1".toList) "A".toList [.line "K".toList (.bool true)]]))
      { name := "D".toList, sections := [.sect "1".toList "A".toList none [] 2 5 [], .assign "K".toList (.bool true) 3 3 [] none] } = true := by
  constructor <;> decide +kernel

/-- `wf`, second clause: inside `B:`, an empty `§1::A` at depth 1 whose marker is reported at column 1 (indentation 0), then
the sibling `Z::true` at depth 1: the sibling's INDENT (2) is deeper than the marker — `Z` is read as a CHILD of the section. -/
def wfExPos2 (i : Nat) : SectParse.SPos :=
  [ (⟨0, 0, 2, 0, 1, 1, 2, 0, 3, none⟩ : SectParse.SPos), ⟨3, 1, 3, 1, 4, 4, 5, 7, 8, none⟩, ⟨4, 1, 4, 0, 3, 3, 4, 6, 10, none⟩ ].getD i default

example : SectParse.wfList Env.ascii.isAlpha wfExPos2
      [.block "B".toList [.sect (.num 1 "1".toList) "A".toList [], .line "Z".toList (.bool true)]] 0 0 = false ∧
    SectParse.isOkDocS (C02.parseToks Env.ascii (SectParse.sectToks { wfExFrame with endL := 5, nl1L := 5, eofL := 6 } "D".toList wfExPos2
        [.block "B".toList [.sect (.num 1 "1".toList) "A".toList [], .line "Z".toList (.bool true)]]))
      { name := "D".toList, sections := [.block "B".toList
          [.sect "1".toList "A".toList none [.assign "Z".toList (.bool true) 4 3 [] none] 3 1 []] 2 1 [] none] } = true := by
  constructor <;> decide +kernel

/-- … with the lexer's columns both are read as written (instances of the token-level theorem, all other positions as above). -/
example : C02.parseToks Env.ascii (SectParse.sectToks { wfExFrame with endL := 5, nl1L := 5, eofL := 6 } "D".toList
      (fun i => { wfExPos2 i with c0 := if i = 1 then 3 else 0 })
      [.block "B".toList [.sect (.num 1 "1".toList) "A".toList [], .line "Z".toList (.bool true)]])
    = .ok (SectParse.sectDoc "D".toList (fun i => { wfExPos2 i with c0 := if i = 1 then 3 else 0 })
      [.block "B".toList [.sect (.num 1 "1".toList) "A".toList [], .line "Z".toList (.bool true)]]) :=
  C02_sect_document_read Env.ascii _ _ _ _ (by decide) (by decide)

/-- `PId.letterOk`: the letter of a `§2b` id must be alphabetic for the parser; `_` is an IDENTIFIER of length one but not a
letter, and the reader then stops the id at `2` and misses `::` (E006 at the `_` token). -/
example : isErr (C02.parseToks Env.ascii (SectParse.sectToks wfExFrame "D".toList (fun _ => ⟨0, 0, 2, 1, 2, 3, 4, 6, 7, none⟩)
      [.sect (.numLetter 2 "2".toList '_') "X".toList []])) (.parser "E006".toList 2 3) = true := by decide +kernel

/-- `hsec`: in an environment whose `\d` matched `§`, the marker and the number would be ONE NUMBER token. -/
def envSecDigit : Env := { Env.ascii with digitU := fun c => if c == '§' then some 0 else none }

example : envSecDigit.isDigit '§' = true ∧
    (match tokenize envSecDigit "===D===\n§1::X\n===END===\n".toList with
      | .ok (toks, _) => toks.map (·.type) == [.envelopeStart, .newline, .number, .assign, .identifier, .newline, .envelopeEnd, .newline, .eof]
      | .error _ => false) = true := by
  constructor
  · decide
  · decide +kernel


end Octave.C01
