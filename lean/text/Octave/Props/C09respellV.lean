/-
C09 (reader half), third part — three families that became available after `Props/C09respell` / `Props/C09respellU` were written.
Same vocabulary: `respellContent`, `respellContentW`, `Document.content` (`Lemmas/ContentErase`), the content functions
`respellTreeContent`, `respellFlatContent` of `Props/C09respell`.

  family                                   texts                      read theorem used                       here
  block trees, ANY indentation of          `fdocText name nodes ds`   `C03_tree_endindent_read`               `C09_tree_same_content_any_end`,
   `===END===` (no `endIndent = 0`)                                   (`Props/C03endindent`)                  `C09_tree_vs_canonical_any_end`
  multi-word values, integer / string      `mwndocText name sl`       `C07_mwnum_read(_lenient)`              `C09_mwnum_same_content`,
   heads (and word heads)                                             (`Props/C07mwnum`)                      `C09_mwnum_vs_canonical`
  multi-word values, boolean / null /      `mwbdocText name sl`       `C07_mwbool_read(_lenient)`             `C09_mwbool_same_content`,
   version heads (and the three above)                                (`Props/C07mwbool`)                     `C09_mwbool_vs_canonical`

1. `C09_tree_same_content` carried `hds : ds.endIndent = 0` for both frames — a limit of the token accounting of
   `C03_tree_framed_read`, not of the reader (header of `Props/C09respell`: "an indented `===END===` behind a block … IS read
   with the same content").  `C03_tree_endindent_read` gives the same document `sdoc name (firstLine ds) nodes` for EVERY
   `endIndent`; so the same-content theorem holds with `===END===` behind any number of spaces, in either frame, independently.
2. A multi-word value whose head is an integer, a quoted string, a boolean, `null` or a version is read as ONE STRING: the
   head's text and the words joined by one space each (`K::3 blind  mice` is the string `3 blind mice`; `K::true mice` is the
   string `true mice`, not a boolean).  Any two documents of the class with the same canonical lines (`mwnCanonLines` /
   `mwbCanonLines`) — any two spacings of the same words, or the words against the quoted canonical string — are read with the
   same content `respellFlatContent name (canonical lines)`.  NOTE what is NOT a respelling: the string-headed value
   `K::"a b" c` has the content `"a b" c` WITH the quotes (they become part of the value: `C07mwnum`), which is the content of
   the canonical text `K::"\"a b\" c"`, and not that of `K::"a b c"`; `hsame` decides, nothing is assumed about it.
3. `SpellsV env s c := SpellsU env s c ∨ SpellsNewV env s c`; `C09_respellV_invariant`, `…_lenient`, `…_map`,
   `respellV_spells_unique`: the statements of `C09_respellU_invariant` over `SpellsV` — texts from ANY two families (those of
   `Props/C09respell`, `Props/C09respellU`, and the three here) that spell one content get one verdict from every validator
   that is a function of content.

Hypotheses: exactly those of the read theorems used, for each of the two texts (`isEnvName name`, `name ≠ "END"`, `treeOK` /
`NWLine.OK` / `BWLine.OK`, `topOk`, first key not `META`, NFC stability of each text).  No `EmitOK` (nothing is emitted).
Real code at the excluded points: see `Props/C09respell` (tree class), `Props/C07mwnum` / `Props/C07mwbool` ("Not covered").
-/
import Octave.Props.C09respellU
import Octave.Props.C03endindent
import Octave.Props.C07mwnum
import Octave.Props.C07mwbool
namespace Octave.C09
open Octave Lexer Emitter

/-! ### 1. block trees: `===END===` behind any number of spaces -/

section treeAnyEnd
open Spell SpellParse C03

/-- **one spelling, any `endIndent`**: content = the erased tree's content. -/
theorem respellV_tree_content (env : Env) (name : Str) (nodes : List TreeSpell.SNode) (ds : DSpell)
    (hn : isEnvName name = true) (hne : name ≠ "END".toList) (hok : treeOK (TreeSpell.eraseList nodes))
    (hw : TreeSpell.topOk nodes = true) (hm : firstKeyIsMeta (TreeSpell.eraseList nodes) = false)
    (hnfc : ∀ l ∈ splitLines (TreeSpell.fdocText name nodes ds), env.nfc l = l) :
    respellContent (Parser.parse env (TreeSpell.fdocText name nodes ds))
      = .ok (respellTreeContent name (TreeSpell.eraseList nodes)) ∧
    respellContentW (Parser.parseWithWarnings env (TreeSpell.fdocText name nodes ds))
      = .ok (respellTreeContent name (TreeSpell.eraseList nodes)) := by
  obtain ⟨h1, ws, h2⟩ := C03_tree_endindent_read env name nodes ds hn hne hok hw hm hnfc
  have hc := respell_content_of_matches name (TreeSpell.eraseList nodes) (TreeSpell.sdoc name (firstLine ds) nodes)
    rfl rfl rfl rfl rfl (TreeSpell.snodes_matches nodes 0 (firstLine ds))
  rw [h1, h2, respellContent_ok, respellContentW_ok, hc]
  exact ⟨rfl, rfl⟩

/-- **C09 on nested blocks, `===END===` indented by ANY number of spaces in either frame: any two spellings of the same block
tree are read as documents with the same content** — the statement of `C09_tree_same_content` without `hds₁`, `hds₂`. -/
theorem C09_tree_same_content_any_end (env : Env) (name : Str) (s₁ s₂ : List TreeSpell.SNode) (ds₁ ds₂ : DSpell)
    (hsame : TreeSpell.eraseList s₁ = TreeSpell.eraseList s₂)
    (hn : isEnvName name = true) (hne : name ≠ "END".toList) (hok : treeOK (TreeSpell.eraseList s₁))
    (hm : firstKeyIsMeta (TreeSpell.eraseList s₁) = false)
    (hw₁ : TreeSpell.topOk s₁ = true) (hw₂ : TreeSpell.topOk s₂ = true)
    (hnfc₁ : ∀ l ∈ splitLines (TreeSpell.fdocText name s₁ ds₁), env.nfc l = l)
    (hnfc₂ : ∀ l ∈ splitLines (TreeSpell.fdocText name s₂ ds₂), env.nfc l = l) :
    respellContent (Parser.parse env (TreeSpell.fdocText name s₁ ds₁))
      = respellContent (Parser.parse env (TreeSpell.fdocText name s₂ ds₂)) ∧
    respellContentW (Parser.parseWithWarnings env (TreeSpell.fdocText name s₁ ds₁))
      = respellContentW (Parser.parseWithWarnings env (TreeSpell.fdocText name s₂ ds₂)) ∧
    respellContent (Parser.parse env (TreeSpell.fdocText name s₁ ds₁))
      = .ok (respellTreeContent name (TreeSpell.eraseList s₁)) := by
  have h1 := respellV_tree_content env name s₁ ds₁ hn hne hok hw₁ hm hnfc₁
  have h2 := respellV_tree_content env name s₂ ds₂ hn hne (hsame ▸ hok) hw₂ (hsame ▸ hm) hnfc₂
  rw [← hsame] at h2
  exact ⟨by rw [h1.1, h2.1], by rw [h1.2, h2.2], h1.1⟩

/-- … in particular a spelling in any frame and the canonical text `treeDocText` of the tree it spells. -/
theorem C09_tree_vs_canonical_any_end (env : Env) (name : Str) (nodes : List TreeSpell.SNode) (ds : DSpell)
    (hn : isEnvName name = true) (hne : name ≠ "END".toList) (hok : treeOK (TreeSpell.eraseList nodes))
    (hw : TreeSpell.topOk nodes = true) (hm : firstKeyIsMeta (TreeSpell.eraseList nodes) = false)
    (hnfc : ∀ l ∈ splitLines (TreeSpell.fdocText name nodes ds), env.nfc l = l)
    (hnfc0 : ∀ l ∈ splitLines (treeDocText name (TreeSpell.eraseList nodes)), env.nfc l = l) :
    respellContent (Parser.parse env (TreeSpell.fdocText name nodes ds))
      = respellContent (Parser.parse env (treeDocText name (TreeSpell.eraseList nodes))) ∧
    respellContentW (Parser.parseWithWarnings env (TreeSpell.fdocText name nodes ds))
      = respellContentW (Parser.parseWithWarnings env (treeDocText name (TreeSpell.eraseList nodes))) := by
  have h0 : TreeSpell.fdocText name (canonSList (TreeSpell.eraseList nodes)) DSpell.canon
      = treeDocText name (TreeSpell.eraseList nodes) := by
    rw [fdocText_canon, sdocText_canon]
  have he := erase_canonSList (TreeSpell.eraseList nodes)
  have := C09_tree_same_content_any_end env name nodes (canonSList (TreeSpell.eraseList nodes)) ds DSpell.canon he.symm hn hne hok
    hm hw (topOk_canonSList _) hnfc (by rw [h0]; exact hnfc0)
  rw [h0] at this
  exact ⟨this.1, this.2.1⟩

/-- the same tree spelling in the same frame under two indentations `a`, `b` of `===END===`: same content. -/
theorem C09_tree_any_two_ends (env : Env) (name : Str) (nodes : List TreeSpell.SNode) (ds : DSpell) (a b : Nat)
    (hn : isEnvName name = true) (hne : name ≠ "END".toList) (hok : treeOK (TreeSpell.eraseList nodes))
    (hw : TreeSpell.topOk nodes = true) (hm : firstKeyIsMeta (TreeSpell.eraseList nodes) = false)
    (hnfc₁ : ∀ l ∈ splitLines (TreeSpell.fdocText name nodes { ds with endIndent := a }), env.nfc l = l)
    (hnfc₂ : ∀ l ∈ splitLines (TreeSpell.fdocText name nodes { ds with endIndent := b }), env.nfc l = l) :
    respellContent (Parser.parse env (TreeSpell.fdocText name nodes { ds with endIndent := a }))
      = respellContent (Parser.parse env (TreeSpell.fdocText name nodes { ds with endIndent := b })) ∧
    respellContentW (Parser.parseWithWarnings env (TreeSpell.fdocText name nodes { ds with endIndent := a }))
      = respellContentW (Parser.parseWithWarnings env (TreeSpell.fdocText name nodes { ds with endIndent := b })) :=
  let h := C09_tree_same_content_any_end env name nodes nodes _ _ rfl hn hne hok hm hw hw hnfc₁ hnfc₂
  ⟨h.1, h.2.1⟩

end treeAnyEnd

/-! ### 2. multi-word values with an integer / string head (`Props/C07mwnum`) -/

section mwnum
open Octave.Expr Spell MW MWN C07 C03

/-- **one text of the class**: content = the flat content of the canonical lines (`K::3 blind  mice` has the content of
`K::"3 blind mice"`: a string). -/
theorem respellV_mwnum_content (env : Env) (name : Str) (sl : List NWLine)
    (hn : isEnvName name = true) (hne : name ≠ "END".toList) (hok : ∀ x ∈ sl, x.OK)
    (hm : mwnFirstNotMeta sl = true)
    (hnfc : ∀ l ∈ splitLines (mwndocText name sl), env.nfc l = l) :
    respellContent (Parser.parse env (mwndocText name sl)) = .ok (respellFlatContent name (mwnCanonLines sl)) ∧
    respellContentW (Parser.parseWithWarnings env (mwndocText name sl)) = .ok (respellFlatContent name (mwnCanonLines sl)) := by
  rw [C07_mwnum_read env name sl hn hne hok hm hnfc, C07_mwnum_read_lenient env name sl hn hne hok hm hnfc,
    respellContent_ok, respellContentW_ok, respell_flatDoc_content]
  exact ⟨rfl, rfl⟩

/-- **C09, multi-word values with integer / string / word heads: any two documents of the class with the same canonical lines
(any two spacings of the same words; the words against the quoted canonical string) are read as documents with the same
content.** -/
theorem C09_mwnum_same_content (env : Env) (name : Str) (sl₁ sl₂ : List NWLine)
    (hsame : mwnCanonLines sl₁ = mwnCanonLines sl₂)
    (hn : isEnvName name = true) (hne : name ≠ "END".toList)
    (hok₁ : ∀ x ∈ sl₁, x.OK) (hm₁ : mwnFirstNotMeta sl₁ = true)
    (hok₂ : ∀ x ∈ sl₂, x.OK) (hm₂ : mwnFirstNotMeta sl₂ = true)
    (hnfc₁ : ∀ l ∈ splitLines (mwndocText name sl₁), env.nfc l = l)
    (hnfc₂ : ∀ l ∈ splitLines (mwndocText name sl₂), env.nfc l = l) :
    respellContent (Parser.parse env (mwndocText name sl₁)) = respellContent (Parser.parse env (mwndocText name sl₂)) ∧
    respellContentW (Parser.parseWithWarnings env (mwndocText name sl₁))
      = respellContentW (Parser.parseWithWarnings env (mwndocText name sl₂)) ∧
    respellContent (Parser.parse env (mwndocText name sl₁)) = .ok (respellFlatContent name (mwnCanonLines sl₁)) := by
  have h1 := respellV_mwnum_content env name sl₁ hn hne hok₁ hm₁ hnfc₁
  have h2 := respellV_mwnum_content env name sl₂ hn hne hok₂ hm₂ hnfc₂
  rw [← hsame] at h2
  exact ⟨by rw [h1.1, h2.1], by rw [h1.2, h2.2], h1.1⟩

/-- … in particular the words as written and the canonical text `KEY::"3 blind mice"` / `KEY::"\"a b\" c d"`. -/
theorem C09_mwnum_vs_canonical (env : Env) (name : Str) (sl : List NWLine)
    (hn : isEnvName name = true) (hne : name ≠ "END".toList) (hok : ∀ x ∈ sl, x.OK) (hm : mwnFirstNotMeta sl = true)
    (hnfc : ∀ l ∈ splitLines (mwndocText name sl), env.nfc l = l)
    (hnfc0 : ∀ l ∈ splitLines (flatText name (mwnCanonLines sl)), env.nfc l = l) :
    respellContent (Parser.parse env (mwndocText name sl)) = respellContent (Parser.parse env (flatText name (mwnCanonLines sl))) ∧
    respellContentW (Parser.parseWithWarnings env (mwndocText name sl))
      = respellContentW (Parser.parseWithWarnings env (flatText name (mwnCanonLines sl))) := by
  have h0 : mwndocText name (mwnCanon sl) = flatText name (mwnCanonLines sl) := mwndocText_ofFlat name _
  have := C09_mwnum_same_content env name sl (mwnCanon sl) (mwnCanonLines_mwCanon sl).symm hn hne hok hm
    (mwnCanon_ok sl hok) (by rw [mwnCanon_firstNotMeta]; exact hm) hnfc (by rw [h0]; exact hnfc0)
  rw [h0] at this
  exact ⟨this.1, this.2.1⟩

end mwnum

/-! ### 2'. multi-word values with a boolean / null / version head (`Props/C07mwbool`) -/

section mwbool
open Octave.Expr Spell MW MWN MWB C07 C03

/-- **one text of the class**: content = the flat content of the canonical lines (`K::true  mice` has the content of
`K::"true mice"`: a string, not a boolean). -/
theorem respellV_mwbool_content (env : Env) (name : Str) (sl : List BWLine)
    (hn : isEnvName name = true) (hne : name ≠ "END".toList) (hok : ∀ x ∈ sl, x.OK)
    (hm : mwbFirstNotMeta sl = true)
    (hnfc : ∀ l ∈ splitLines (mwbdocText name sl), env.nfc l = l) :
    respellContent (Parser.parse env (mwbdocText name sl)) = .ok (respellFlatContent name (mwbCanonLines sl)) ∧
    respellContentW (Parser.parseWithWarnings env (mwbdocText name sl)) = .ok (respellFlatContent name (mwbCanonLines sl)) := by
  rw [C07_mwbool_read env name sl hn hne hok hm hnfc, C07_mwbool_read_lenient env name sl hn hne hok hm hnfc,
    respellContent_ok, respellContentW_ok, respell_flatDoc_content]
  exact ⟨rfl, rfl⟩

/-- **C09, multi-word values with boolean / null / version heads (and the heads of `C09_mwnum_same_content`): any two
documents of the class with the same canonical lines are read as documents with the same content.** -/
theorem C09_mwbool_same_content (env : Env) (name : Str) (sl₁ sl₂ : List BWLine)
    (hsame : mwbCanonLines sl₁ = mwbCanonLines sl₂)
    (hn : isEnvName name = true) (hne : name ≠ "END".toList)
    (hok₁ : ∀ x ∈ sl₁, x.OK) (hm₁ : mwbFirstNotMeta sl₁ = true)
    (hok₂ : ∀ x ∈ sl₂, x.OK) (hm₂ : mwbFirstNotMeta sl₂ = true)
    (hnfc₁ : ∀ l ∈ splitLines (mwbdocText name sl₁), env.nfc l = l)
    (hnfc₂ : ∀ l ∈ splitLines (mwbdocText name sl₂), env.nfc l = l) :
    respellContent (Parser.parse env (mwbdocText name sl₁)) = respellContent (Parser.parse env (mwbdocText name sl₂)) ∧
    respellContentW (Parser.parseWithWarnings env (mwbdocText name sl₁))
      = respellContentW (Parser.parseWithWarnings env (mwbdocText name sl₂)) ∧
    respellContent (Parser.parse env (mwbdocText name sl₁)) = .ok (respellFlatContent name (mwbCanonLines sl₁)) := by
  have h1 := respellV_mwbool_content env name sl₁ hn hne hok₁ hm₁ hnfc₁
  have h2 := respellV_mwbool_content env name sl₂ hn hne hok₂ hm₂ hnfc₂
  rw [← hsame] at h2
  exact ⟨by rw [h1.1, h2.1], by rw [h1.2, h2.2], h1.1⟩

/-- … in particular the words as written and the canonical text `KEY::"true mice"`. -/
theorem C09_mwbool_vs_canonical (env : Env) (name : Str) (sl : List BWLine)
    (hn : isEnvName name = true) (hne : name ≠ "END".toList) (hok : ∀ x ∈ sl, x.OK) (hm : mwbFirstNotMeta sl = true)
    (hnfc : ∀ l ∈ splitLines (mwbdocText name sl), env.nfc l = l)
    (hnfc0 : ∀ l ∈ splitLines (flatText name (mwbCanonLines sl)), env.nfc l = l) :
    respellContent (Parser.parse env (mwbdocText name sl)) = respellContent (Parser.parse env (flatText name (mwbCanonLines sl))) ∧
    respellContentW (Parser.parseWithWarnings env (mwbdocText name sl))
      = respellContentW (Parser.parseWithWarnings env (flatText name (mwbCanonLines sl))) := by
  have h0 : mwbdocText name (mwbCanon sl) = flatText name (mwbCanonLines sl) := mwbdocText_ofFlat name _
  have := C09_mwbool_same_content env name sl (mwbCanon sl) (mwbCanonLines_mwCanon sl).symm hn hne hok hm
    (mwbCanon_ok sl hok) (by rw [mwbCanon_firstNotMeta]; exact hm) hnfc (by rw [h0]; exact hnfc0)
  rw [h0] at this
  exact ⟨this.1, this.2.1⟩

end mwbool

/-! ### non-vacuity (1, 2) -/

section examples12
open Spell SpellParse C03 Octave.Expr MW MWN MWB C07

/-- the 12-line tree of `Props/C03tree`, every freedom on, `===END===` behind 5 spaces (`exFrameInd`) against `===END===`
behind 2 spaces without its newline. -/
example : respellContent (Parser.parse Env.ascii (TreeSpell.fdocText "DOC".toList exS exFrameInd))
      = respellContent (Parser.parse Env.ascii (TreeSpell.fdocText "DOC".toList exS { endIndent := 2, endNl := false })) ∧
    respellContentW (Parser.parseWithWarnings Env.ascii (TreeSpell.fdocText "DOC".toList exS exFrameInd))
      = respellContentW (Parser.parseWithWarnings Env.ascii (TreeSpell.fdocText "DOC".toList exS { endIndent := 2, endNl := false })) ∧
    respellContent (Parser.parse Env.ascii (TreeSpell.fdocText "DOC".toList exS exFrameInd))
      = .ok (respellTreeContent "DOC".toList (TreeSpell.eraseList exS)) :=
  C09_tree_same_content_any_end Env.ascii "DOC".toList exS exS exFrameInd { endIndent := 2, endNl := false } rfl (by decide) (by decide)
    exS_ok (by decide) (by decide) (by decide) (fun _ _ => rfl) (fun _ _ => rfl)

example : respellContent (Parser.parse Env.ascii (TreeSpell.fdocText "DOC".toList exS exFrameInd))
      = respellContent (Parser.parse Env.ascii (treeDocText "DOC".toList (TreeSpell.eraseList exS))) :=
  (C09_tree_vs_canonical_any_end Env.ascii "DOC".toList exS exFrameInd (by decide) (by decide) exS_ok (by decide) (by decide)
    (fun _ _ => rfl) (fun _ _ => rfl)).1

/-- EVERY two indentations of `===END===`. -/
example (a b : Nat) : respellContent (Parser.parse Env.ascii (TreeSpell.fdocText "DOC".toList exS { exFrame with endIndent := a }))
      = respellContent (Parser.parse Env.ascii (TreeSpell.fdocText "DOC".toList exS { exFrame with endIndent := b })) :=
  (C09_tree_any_two_ends Env.ascii "DOC".toList exS exFrame a b (by decide) (by decide) exS_ok (by decide) (by decide)
    (fun _ _ => rfl) (fun _ _ => rfl)).1

/-- the whole model evaluated on the literal texts (independent of the theorems). -/
example : respellSameContentB (Parser.parse Env.ascii (TreeSpell.fdocText "DOC".toList exS exFrameInd))
    (Parser.parse Env.ascii (treeDocText "DOC".toList (TreeSpell.eraseList exS))) = true := by decide +kernel
example : respellSameContentB (Parser.parse Env.ascii "===D===\nB:\n  C:\n    K::1\n   ===END===".toList)
    (Parser.parse Env.ascii "===D===\nB:\n C:\n      K::1\n===END===\n".toList) = true := by decide +kernel

/-- the six-line document of `Props/C07mwnum` (integer, negative integer, word, string heads; uneven spacing) against its
canonical text. -/
example : respellContent (Parser.parse Env.ascii (mwndocText "D".toList mwnEx))
      = respellContent (Parser.parse Env.ascii (flatText "D".toList (mwnCanonLines mwnEx))) :=
  (C09_mwnum_vs_canonical Env.ascii "D".toList mwnEx (by decide) (by decide) mwnEx_ok (by decide) (fun _ _ => rfl) (fun _ _ => rfl)).1

/-- two spacings of the same words. -/
def respellVMwn2 : List NWLine :=
  [ ⟨"K".toList, .nw ⟨.int 3, [(4, "blind".toList), (1, "mice".toList)]⟩⟩,
    ⟨"L".toList, .nw ⟨.int (-12), [(0, "c.d".toList), (0, "f-g".toList)]⟩⟩,
    ⟨"M".toList, .sc (.qstr "two words".toList)⟩,
    ⟨"N".toList, .sc (.int 7)⟩,
    ⟨"S".toList, .nw ⟨.str "a b".toList, [(0, "c".toList), (3, "d".toList)]⟩⟩,
    ⟨"T".toList, .sc (.qstr "\"q\"r\" x".toList)⟩ ]

theorem respellVMwn2_ok : ∀ x ∈ respellVMwn2, x.OK := by
  intro x h
  simp only [respellVMwn2, List.mem_cons, List.mem_nil_iff, or_false] at h
  rcases h with rfl | rfl | rfl | rfl | rfl | rfl
  · exact ⟨by decide, by decide, by decide, by decide, by decide⟩
  · exact ⟨by decide, by decide, by decide, by decide, by decide⟩
  · exact ⟨by decide, by decide, by unfold NVal.OK FScalar.OK; decide⟩
  · exact ⟨by decide, by decide, by unfold NVal.OK FScalar.OK; decide⟩
  · exact ⟨by decide, by decide, trivial, by decide, by decide⟩
  · exact ⟨by decide, by decide, by unfold NVal.OK FScalar.OK; decide⟩

example : mwndocText "D".toList respellVMwn2 =
    "===D===\nK::3     blind  mice\nL::-12 c.d f-g\nM::\"two words\"\nN::7\nS::\"a b\" c    d\nT::\"\\\"q\\\"r\\\" x\"\n===END===\n".toList := by
  decide +kernel

example : respellContent (Parser.parse Env.ascii (mwndocText "D".toList mwnEx))
      = respellContent (Parser.parse Env.ascii (mwndocText "D".toList respellVMwn2)) ∧
    respellContentW (Parser.parseWithWarnings Env.ascii (mwndocText "D".toList mwnEx))
      = respellContentW (Parser.parseWithWarnings Env.ascii (mwndocText "D".toList respellVMwn2)) ∧
    respellContent (Parser.parse Env.ascii (mwndocText "D".toList mwnEx)) = .ok (respellFlatContent "D".toList (mwnCanonLines mwnEx)) :=
  C09_mwnum_same_content Env.ascii "D".toList mwnEx respellVMwn2 (by decide +kernel) (by decide) (by decide) mwnEx_ok (by decide)
    respellVMwn2_ok (by decide) (fun _ _ => rfl) (fun _ _ => rfl)

/-- the content, written out: every multi-word value ONE STRING (the integer is gone; the quotes of a string head are part of
the value). -/
example : respellFlatContent "D".toList (mwnCanonLines mwnEx) =
    { name := "D".toList,
      sections := [ .assign "K".toList (.str "3 blind mice".toList) 0 0 [] none, .assign "L".toList (.str "-12 c.d f-g".toList) 0 0 [] none,
                    .assign "M".toList (.str "two words".toList) 0 0 [] none, .assign "N".toList (.int 7) 0 0 [] none,
                    .assign "S".toList (.str "\"a b\" c d".toList) 0 0 [] none, .assign "T".toList (.str "\"q\"r\" x".toList) 0 0 [] none ] } :=
  respellDocEq_sound (by decide +kernel)

example : respellSameContentB (Parser.parse Env.ascii mwnExText) (Parser.parse Env.ascii mwnExCanon) = true := by decide +kernel
example : respellSameContentB (Parser.parse Env.ascii mwnExText) (Parser.parse Env.ascii (mwndocText "D".toList respellVMwn2)) = true := by
  decide +kernel
/-- NOT a respelling: `S::"a b" c d` against `S::"a b c d"` (the quotes of the head are content). -/
example : respellSameContentB (Parser.parse Env.ascii "===D===\nS::\"a b\" c d\n===END===\n".toList)
    (Parser.parse Env.ascii "===D===\nS::\"a b c d\"\n===END===\n".toList) = false := by decide +kernel

/-- the ten-line document of `Props/C07mwbool` (both booleans, `null`, two versions, and the heads of `C07mwnum`) against its
canonical text. -/
example : respellContent (Parser.parse Env.ascii (mwbdocText "D".toList mwbEx))
      = respellContent (Parser.parse Env.ascii (flatText "D".toList (mwbCanonLines mwbEx))) ∧
    respellContentW (Parser.parseWithWarnings Env.ascii (mwbdocText "D".toList mwbEx))
      = respellContentW (Parser.parseWithWarnings Env.ascii (flatText "D".toList (mwbCanonLines mwbEx))) :=
  C09_mwbool_vs_canonical Env.ascii "D".toList mwbEx (by decide) (by decide) mwbEx_ok (by decide) (fun _ _ => rfl) (fun _ _ => rfl)

example : respellSameContentB (Parser.parse Env.ascii mwbExText) (Parser.parse Env.ascii mwbExCanon) = true := by decide +kernel
/-- `K::true mice` is a STRING; a lone `true` stays a boolean (types are content). -/
example : respellHasContentB (Parser.parse Env.ascii "===D===\nK::true   mice\nS::true\nV::1.2.3 rel\n===END===\n".toList)
    { name := "D".toList, sections := [ .assign "K".toList (.str "true mice".toList) 0 0 [] none, .assign "S".toList (.bool true) 0 0 [] none,
                                        .assign "V".toList (.str "1.2.3 rel".toList) 0 0 [] none ] } = true := by decide +kernel

end examples12

/-! ### 3. the composition over all families -/

section compose
open Spell SpellParse C03 Octave.Expr MW MWN MWB C07

/-- the three families of this file, one constructor each, carrying exactly the hypotheses of the family's read theorem; the
content is a function of the erased tree / of the canonical lines, never of the spelling. -/
inductive SpellsNewV (env : Env) : Str → Document → Prop
  | treeAnyEnd (name : Str) (nodes : List TreeSpell.SNode) (ds : DSpell)
      (hn : isEnvName name = true) (hne : name ≠ "END".toList) (hok : treeOK (TreeSpell.eraseList nodes))
      (hw : TreeSpell.topOk nodes = true) (hm : firstKeyIsMeta (TreeSpell.eraseList nodes) = false)
      (hnfc : ∀ l ∈ splitLines (TreeSpell.fdocText name nodes ds), env.nfc l = l) :
      SpellsNewV env (TreeSpell.fdocText name nodes ds) (respellTreeContent name (TreeSpell.eraseList nodes))
  | mwnum (name : Str) (sl : List NWLine)
      (hn : isEnvName name = true) (hne : name ≠ "END".toList) (hok : ∀ x ∈ sl, x.OK)
      (hm : mwnFirstNotMeta sl = true)
      (hnfc : ∀ l ∈ splitLines (mwndocText name sl), env.nfc l = l) :
      SpellsNewV env (mwndocText name sl) (respellFlatContent name (mwnCanonLines sl))
  | mwbool (name : Str) (sl : List BWLine)
      (hn : isEnvName name = true) (hne : name ≠ "END".toList) (hok : ∀ x ∈ sl, x.OK)
      (hm : mwbFirstNotMeta sl = true)
      (hnfc : ∀ l ∈ splitLines (mwbdocText name sl), env.nfc l = l) :
      SpellsNewV env (mwbdocText name sl) (respellFlatContent name (mwbCanonLines sl))

/-- `SpellsV env s c`: the text `s` is, within one of the families of `Props/C09respell`, `Props/C09respellU` or this file, a
spelling of the document whose content is `c`. -/
def SpellsV (env : Env) (s : Str) (c : Document) : Prop := SpellsU env s c ∨ SpellsNewV env s c

theorem SpellsV.of_U {env : Env} {s : Str} {c : Document} (h : SpellsU env s c) : SpellsV env s c := Or.inl h
theorem SpellsV.of_spells {env : Env} {s : Str} {c : Document} (h : Spells env s c) : SpellsV env s c := Or.inl (Or.inl h)
theorem SpellsV.of_newV {env : Env} {s : Str} {c : Document} (h : SpellsNewV env s c) : SpellsV env s c := Or.inr h

/-- every spelling is read, by both entry points, as a document with the content it spells. -/
theorem respellV_spells_content (env : Env) (s : Str) (c : Document) (h : SpellsV env s c) :
    respellContent (Parser.parse env s) = .ok c ∧ respellContentW (Parser.parseWithWarnings env s) = .ok c := by
  rcases h with h | h
  · exact respellU_spells_content env s c h
  · cases h with
    | treeAnyEnd name nodes ds hn hne hok hw hm hnfc => exact respellV_tree_content env name nodes ds hn hne hok hw hm hnfc
    | mwnum name sl hn hne hok hm hnfc => exact respellV_mwnum_content env name sl hn hne hok hm hnfc
    | mwbool name sl hn hne hok hm hnfc => exact respellV_mwbool_content env name sl hn hne hok hm hnfc

/-- **C09, reader half composed with a validator, all families: validity is invariant under respelling.**  The statement of
`C09_respellU_invariant` over `SpellsV`: for ANY `validate` that depends on content only and any two texts spelling the same
content `c` — from any two families, those of `SpellsU` or: block trees with `===END===` indented by any number of spaces,
multi-word values with integer / string / boolean / null / version heads — the strict reader accepts both, the verdicts are
equal, and the documents read have the content `c`. -/
theorem C09_respellV_invariant {α : Type} (env : Env) (validate : Document → α)
    (hcontent : ∀ d₁ d₂ : Document, d₁.content = d₂.content → validate d₁ = validate d₂)
    (s₁ s₂ : Str) (c : Document) (h₁ : SpellsV env s₁ c) (h₂ : SpellsV env s₂ c) :
    ∃ d₁ d₂, Parser.parse env s₁ = .ok d₁ ∧ Parser.parse env s₂ = .ok d₂ ∧ validate d₁ = validate d₂ ∧
      d₁.content = c ∧ d₂.content = c := by
  obtain ⟨d₁, e₁, c₁⟩ := respell_ok_of_content (respellV_spells_content env s₁ c h₁).1
  obtain ⟨d₂, e₂, c₂⟩ := respell_ok_of_content (respellV_spells_content env s₂ c h₂).1
  exact ⟨d₁, d₂, e₁, e₂, hcontent d₁ d₂ (by rw [c₁, c₂]), c₁, c₂⟩

/-- … through the lenient entry point `parse_with_warnings` (repairs and warnings — e.g. the `multi_word_coalesce` receipts —
may differ: they are receipts of the spelling); and the lenient verdict is the strict reader's verdict. -/
theorem C09_respellV_invariant_lenient {α : Type} (env : Env) (validate : Document → α)
    (hcontent : ∀ d₁ d₂ : Document, d₁.content = d₂.content → validate d₁ = validate d₂)
    (s₁ s₂ : Str) (c : Document) (h₁ : SpellsV env s₁ c) (h₂ : SpellsV env s₂ c) :
    ∃ d₁ r₁ w₁ d₂ r₂ w₂ d₁', Parser.parseWithWarnings env s₁ = .ok (d₁, r₁, w₁) ∧ Parser.parseWithWarnings env s₂ = .ok (d₂, r₂, w₂) ∧
      Parser.parse env s₁ = .ok d₁' ∧ validate d₁ = validate d₂ ∧ validate d₁ = validate d₁' := by
  obtain ⟨d₁, r₁, w₁, e₁, c₁⟩ := respell_ok_of_contentW (respellV_spells_content env s₁ c h₁).2
  obtain ⟨d₂, r₂, w₂, e₂, c₂⟩ := respell_ok_of_contentW (respellV_spells_content env s₂ c h₂).2
  obtain ⟨d₁', e₁', c₁'⟩ := respell_ok_of_content (respellV_spells_content env s₁ c h₁).1
  exact ⟨d₁, r₁, w₁, d₂, r₂, w₂, d₁', e₁, e₂, e₁', hcontent d₁ d₂ (by rw [c₁, c₂]), hcontent d₁ d₁' (by rw [c₁, c₁'])⟩

/-- the same in `Except` form. -/
theorem C09_respellV_invariant_map {α : Type} (env : Env) (validate : Document → α)
    (hcontent : ∀ d₁ d₂ : Document, d₁.content = d₂.content → validate d₁ = validate d₂)
    (s₁ s₂ : Str) (c : Document) (h₁ : SpellsV env s₁ c) (h₂ : SpellsV env s₂ c) :
    (Parser.parse env s₁).map validate = (Parser.parse env s₂).map validate :=
  respell_validate_of_content validate hcontent _ _
    (by rw [(respellV_spells_content env s₁ c h₁).1, (respellV_spells_content env s₂ c h₂).1])

/-- the content a text spells is unique, across all families. -/
theorem respellV_spells_unique (env : Env) (s : Str) (c c' : Document) (h : SpellsV env s c) (h' : SpellsV env s c') : c = c' := by
  have a := (respellV_spells_content env s c h).1
  have b := (respellV_spells_content env s c' h').1
  rw [a] at b
  exact Except.ok.inj b

/-- ACROSS the families: the canonical text of a multi-word document of `C07mwnum` is a FLAT spelling (`Spells.flat`) of its
canonical lines — so a text with integer- / string-headed multi-word values can be compared with every line / frame spelling
(triple quotes, spaces around `::`, …) of its canonical lines. -/
theorem respellV_spells_flat_of_lines (env : Env) (name : Str) (lines : List FLine)
    (hn : isEnvName name = true) (hne : name ≠ "END".toList) (hok : ∀ ln ∈ lines, ln.OK)
    (hm : C01.firstNotMeta lines = true)
    (hnfc : ∀ l ∈ splitLines (flatText name lines), env.nfc l = l) :
    SpellsV env (flatText name lines) (respellFlatContent name lines) := by
  have h0 := spellText_canon name lines
  have hl : linesOf (lines.map fun ln => (ln, LSpell.canon)) = lines := by
    simp [linesOf, List.map_map, Function.comp_def]
  have := Spells.flat (env := env) name (lines.map fun ln => (ln, LSpell.canon)) DSpell.canon hn hne
    (fun x hx => by obtain ⟨ln, hln, rfl⟩ := List.mem_map.mp hx; exact hok ln hln) (by rw [hl]; exact hm)
    (by rw [h0]; exact hnfc)
  rw [h0, hl] at this
  exact .of_spells this

end compose

/-! ### non-vacuity (3) -/

section examples3
open Spell SpellParse C03 Octave.Expr MW MWN MWB C07

/-- ACROSS old and new families: the fully spelled tree with `===END===` behind 5 spaces (new: `treeAnyEnd`) and the four-space
text (`Spells.indent`) spell the same content; same verdict. -/
example : ∃ d₁ d₂, Parser.parse Env.ascii (TreeSpell.fdocText "DOC".toList exS exFrameInd) = .ok d₁ ∧
    Parser.parse Env.ascii (Indent.idocText "DOC".toList exI4) = .ok d₂ ∧ respellExValidate d₁ = respellExValidate d₂ ∧
    d₁.content = respellTreeContent "DOC".toList (TreeSpell.eraseList exS) ∧
    d₂.content = respellTreeContent "DOC".toList (TreeSpell.eraseList exS) :=
  C09_respellV_invariant Env.ascii respellExValidate respellExValidate_content _ _ _
    (.of_newV (.treeAnyEnd "DOC".toList exS exFrameInd (by decide) (by decide) exS_ok (by decide) (by decide) (fun _ _ => rfl)))
    (.of_spells (.indent "DOC".toList exI4 (by decide) (by decide) exI_ok (by decide) (by decide) (fun _ _ => rfl)))

/-- the document of `Props/C07mwnum` as a document of the class of `Props/C07mwbool`, other spacings. -/
def respellVMwb : List BWLine :=
  [ ⟨"K".toList, .nw ⟨.int 3, [(1, "blind".toList), (1, "mice".toList)]⟩⟩,
    ⟨"L".toList, .nw ⟨.int (-12), [(0, "c.d".toList), (5, "f-g".toList)]⟩⟩,
    ⟨"M".toList, .nw ⟨.word "two".toList, [(2, "words".toList)]⟩⟩,
    ⟨"N".toList, .sc (.int 7)⟩,
    ⟨"S".toList, .nw ⟨.str "a b".toList, [(0, "c".toList), (0, "d".toList)]⟩⟩,
    ⟨"T".toList, .nw ⟨.str "q\"r".toList, [(3, "x".toList)]⟩⟩ ]

theorem respellVMwb_ok : ∀ x ∈ respellVMwb, x.OK := by
  intro x h
  simp only [respellVMwb, List.mem_cons, List.mem_nil_iff, or_false] at h
  rcases h with rfl | rfl | rfl | rfl | rfl | rfl
  · exact ⟨by decide, by decide, by decide, by decide, by decide⟩
  · exact ⟨by decide, by decide, by decide, by decide, by decide⟩
  · exact ⟨by decide, by decide, by decide, by decide, by decide⟩
  · exact ⟨by decide, by decide, by unfold BVal.OK FScalar.OK; decide⟩
  · exact ⟨by decide, by decide, trivial, by decide, by decide⟩
  · exact ⟨by decide, by decide, trivial, by decide, by decide⟩

theorem respellVMwb_lines : mwbCanonLines respellVMwb = mwnCanonLines mwnEx := by decide +kernel

/-- ACROSS the two new multi-word families (and through the lenient entry point): one content, one verdict. -/
example : ∃ d₁ r₁ w₁ d₂ r₂ w₂ d₁', Parser.parseWithWarnings Env.ascii (mwndocText "D".toList mwnEx) = .ok (d₁, r₁, w₁) ∧
    Parser.parseWithWarnings Env.ascii (mwbdocText "D".toList respellVMwb) = .ok (d₂, r₂, w₂) ∧
    Parser.parse Env.ascii (mwndocText "D".toList mwnEx) = .ok d₁' ∧
    respellExValidate d₁ = respellExValidate d₂ ∧ respellExValidate d₁ = respellExValidate d₁' :=
  C09_respellV_invariant_lenient Env.ascii respellExValidate respellExValidate_content _ _
    (respellFlatContent "D".toList (mwnCanonLines mwnEx))
    (.of_newV (.mwnum "D".toList mwnEx (by decide) (by decide) mwnEx_ok (by decide) (fun _ _ => rfl)))
    (.of_newV (by
      have h := SpellsNewV.mwbool (env := Env.ascii) "D".toList respellVMwb (by decide) (by decide) respellVMwb_ok (by decide)
        (fun _ _ => rfl)
      rwa [respellVMwb_lines] at h))

/-- ACROSS new and old: the ten-line document of `Props/C07mwbool` and the canonical text of its canonical lines as a flat
spelling (`Spells.flat`). -/
example : ∃ d₁ d₂, Parser.parse Env.ascii (mwbdocText "D".toList mwbEx) = .ok d₁ ∧
    Parser.parse Env.ascii (flatText "D".toList (mwbCanonLines mwbEx)) = .ok d₂ ∧ respellExValidate d₁ = respellExValidate d₂ ∧
    d₁.content = respellFlatContent "D".toList (mwbCanonLines mwbEx) ∧ d₂.content = respellFlatContent "D".toList (mwbCanonLines mwbEx) :=
  C09_respellV_invariant Env.ascii respellExValidate respellExValidate_content _ _ _
    (.of_newV (.mwbool "D".toList mwbEx (by decide) (by decide) mwbEx_ok (by decide) (fun _ _ => rfl)))
    (respellV_spells_flat_of_lines Env.ascii "D".toList (mwbCanonLines mwbEx) (by decide) (by decide)
      (fun ln h => by
        have : ln ∈ mwbCanonLines (mwbCanon mwbEx) := by rw [mwbCanonLines_mwCanon]; exact h
        obtain ⟨x, hx, rfl⟩ := List.mem_map.mp this
        have hx' := mwbCanon_ok mwbEx mwbEx_ok x hx
        obtain ⟨ln', _, rfl⟩ := List.mem_map.mp hx
        exact ⟨hx'.1, hx'.2.1, hx'.2.2⟩)
      (by decide) (fun _ _ => rfl))

/-- the whole model evaluated on the literal texts (independent of the theorems). -/
example : respellSameContentB (Parser.parse Env.ascii mwnExText) (Parser.parse Env.ascii (mwbdocText "D".toList respellVMwb)) = true := by
  decide +kernel
example : respellSameContentB (Parser.parse Env.ascii (TreeSpell.fdocText "DOC".toList exS exFrameInd))
    (Parser.parse Env.ascii (Indent.idocText "DOC".toList exI4)) = true := by decide +kernel
/-- the position-reading "validator" of `Props/C09respell` tells two spacings apart only when lines move; a different word is a
different content. -/
example : respellSameContentB (Parser.parse Env.ascii "===D===\nK::3 blind mice\n===END===\n".toList)
    (Parser.parse Env.ascii "===D===\nK::3 blind mouse\n===END===\n".toList) = false := by decide +kernel

end examples3

end Octave.C09
