/-
C07 — Every lenient rewrite has a receipt; canonical input has none (I4) — lexer level, ALL inputs.

`C07_lexer_receipts_bijection`: for every environment, every input text and both modes, whenever `tokenize`
succeeds, the normalization records of the repair log are, IN ORDER, exactly the receipts of the tokens that
carry `normFrom`: each record holds the original text, the replacement value and the token's own line and
column.  No rewrite without a receipt, no receipt without a rewrite.

Proof: `Inv` (Lemmas/Receipts.lean) holds for the initial state, is preserved by every branch of `Lexer.step`
(`step_shape`, `step_Inv`) and so by `Lexer.loop` (`loop_Inv`); the final EOF token is not normalised.
The `%` merge replaces the last NUMBER / IDENTIFIER token (new value, same `normFrom`): harmless because no
NUMBER / IDENTIFIER token is ever normalised (`MergeOK`, proved alongside, `C07_number_identifier_never_normalised`).

The log is append-only (`C07_step_log_append_only`, `C07_loop_log_append_only`): the model never patches an
earlier record.  (The Python identifier branch patches line/column of the `repair_candidate` records that
`_match_unicode_identifier` appended in the SAME iteration with placeholders 0/0; the model creates these records
with their final line/column, so at iteration granularity nothing already in the log changes.)

Scope: this is the lexer-level statement.  Rewrites made by the parser / emitter (and the document-level
bijection with a generator's injected rewrites) are not covered here.
-/
import Octave.Lemmas.Receipts
namespace Octave.C07
open Octave Lexer

/-- the initial state of the main loop satisfies both invariants. -/
theorem init_Inv (spans : List Span) : Inv { spans := spans } ∧ MergeOK { spans := spans } :=
  ⟨rfl, fun _ ht => by cases ht⟩

/-- what a successful `tokenize` returns, in terms of the final loop state. -/
theorem tokenize_ok_final {env : Env} {content : Str} {lenient : Bool} {toks : List Token} {reps : List Repair}
    (h : Lexer.tokenize env content lenient = .ok (toks, reps)) :
    ∃ (norm : Str) (spans : List Span) (st : LState),
      loop env lenient (norm.length + 1) { spans := spans } norm = .ok st
      ∧ toks = (({ type := .eof, value := .none, line := st.line, col := st.col } : Token) :: st.toks).reverse
      ∧ reps = st.repairs.reverse := by
  unfold tokenize at h
  simp only [bind, Except.bind] at h
  cases hn : normalize env content with
  | error e => simp [hn] at h
  | ok p =>
    obtain ⟨norm, spans⟩ := p
    simp only [hn] at h
    cases ht : tabCheck spans norm 0 1 1 with
    | error e => simp [ht] at h
    | ok u =>
      simp only [ht] at h
      cases hl : loop env lenient (norm.length + 1) { spans := spans } norm with
      | error e => simp [hl] at h
      | ok st =>
        simp only [hl] at h
        split at h
        · simp at h
        · simp only [Except.ok.injEq, Prod.mk.injEq] at h
          exact ⟨norm, spans, st, hl, h.1.symm, h.2.symm⟩

/-- **C07 / I4 at the lexer, for every input**: the normalization receipts are, in order, exactly the
normalised tokens — each with the original text, the replacement value and the token's own line and column. -/
theorem C07_lexer_receipts_bijection (env : Env) (content : Str) (lenient : Bool)
    (toks : List Token) (reps : List Repair)
    (h : Lexer.tokenize env content lenient = .ok (toks, reps)) :
    reps.filter isNormalization = toks.filterMap receiptOf := by
  obtain ⟨norm, spans, st, hl, rfl, rfl⟩ := tokenize_ok_final h
  have ⟨hinv, _⟩ := loop_Inv env lenient _ _ st norm hl (init_Inv spans).1 (init_Inv spans).2
  unfold Inv at hinv
  rw [List.filter_reverse, List.filterMap_reverse, hinv, List.filterMap_cons]
  rfl

/-- no NUMBER / IDENTIFIER token is ever normalised (what makes the `%` merge harmless). -/
theorem C07_number_identifier_never_normalised (env : Env) (content : Str) (lenient : Bool)
    (toks : List Token) (reps : List Repair)
    (h : Lexer.tokenize env content lenient = .ok (toks, reps)) :
    ∀ t ∈ toks, (t.type = .number ∨ t.type = .identifier) → t.normFrom = none := by
  obtain ⟨norm, spans, st, hl, rfl, rfl⟩ := tokenize_ok_final h
  have ⟨_, hm⟩ := loop_Inv env lenient _ _ st norm hl (init_Inv spans).1 (init_Inv spans).2
  intro t ht
  rw [List.mem_reverse, List.mem_cons] at ht
  rcases ht with rfl | ht
  · intro _; rfl
  · exact hm t ht

/-- canonical token stream (no token normalised) ⇒ no normalization receipt. -/
theorem C07_no_normalised_token_no_receipt (env : Env) (content : Str) (lenient : Bool)
    (toks : List Token) (reps : List Repair)
    (h : Lexer.tokenize env content lenient = .ok (toks, reps))
    (hcanon : ∀ t ∈ toks, t.normFrom = none) : reps.filter isNormalization = [] := by
  rw [C07_lexer_receipts_bijection env content lenient toks reps h, List.filterMap_eq_nil_iff]
  intro t ht
  exact receiptOf_none (hcanon t ht)

/-- conversely: no normalization receipt ⇒ no token was normalised. -/
theorem C07_no_receipt_no_normalised_token (env : Env) (content : Str) (lenient : Bool)
    (toks : List Token) (reps : List Repair)
    (h : Lexer.tokenize env content lenient = .ok (toks, reps))
    (hnone : reps.filter isNormalization = []) : ∀ t ∈ toks, t.normFrom = none := by
  rw [C07_lexer_receipts_bijection env content lenient toks reps h, List.filterMap_eq_nil_iff] at hnone
  intro t ht
  have := hnone t ht
  unfold receiptOf at this
  cases hnf : t.normFrom with
  | none => rfl
  | some o => rw [hnf] at this; cases this

/-- as many normalization receipts as normalised tokens. -/
theorem C07_receipt_count (env : Env) (content : Str) (lenient : Bool)
    (toks : List Token) (reps : List Repair)
    (h : Lexer.tokenize env content lenient = .ok (toks, reps)) :
    (reps.filter isNormalization).length = (toks.filter (fun t => t.normFrom.isSome)).length := by
  rw [C07_lexer_receipts_bijection env content lenient toks reps h]
  clear h
  induction toks with
  | nil => rfl
  | cons t ts ih =>
    cases hnf : t.normFrom with
    | none => simp [receiptOf, hnf, ih]
    | some o => simp [receiptOf, hnf, ih]

/-- every rewrite has its receipt: a normalised token's record (original, value, line, column) is in the log. -/
theorem C07_every_rewrite_has_receipt (env : Env) (content : Str) (lenient : Bool)
    (toks : List Token) (reps : List Repair)
    (h : Lexer.tokenize env content lenient = .ok (toks, reps))
    (t : Token) (ht : t ∈ toks) (o : Str) (ho : t.normFrom = some o) :
    Repair.normalization o t.value t.line t.col ∈ reps := by
  have hmem : Repair.normalization o t.value t.line t.col ∈ toks.filterMap receiptOf := by
    rw [List.mem_filterMap]
    exact ⟨t, ht, by simp [receiptOf, ho]⟩
  rw [← C07_lexer_receipts_bijection env content lenient toks reps h] at hmem
  exact (List.mem_filter.mp hmem).1

/-- every receipt has its rewrite: a normalization record in the log is the receipt of some normalised token. -/
theorem C07_every_receipt_has_rewrite (env : Env) (content : Str) (lenient : Bool)
    (toks : List Token) (reps : List Repair)
    (h : Lexer.tokenize env content lenient = .ok (toks, reps))
    (o : Str) (v : TVal) (l c : Nat) (hr : Repair.normalization o v l c ∈ reps) :
    ∃ t ∈ toks, t.normFrom = some o ∧ t.value = v ∧ t.line = l ∧ t.col = c := by
  have hmem : Repair.normalization o v l c ∈ reps.filter isNormalization :=
    List.mem_filter.mpr ⟨hr, rfl⟩
  rw [C07_lexer_receipts_bijection env content lenient toks reps h, List.mem_filterMap] at hmem
  obtain ⟨t, ht, hrec⟩ := hmem
  refine ⟨t, ht, ?_⟩
  unfold receiptOf at hrec
  cases hnf : t.normFrom with
  | none => rw [hnf] at hrec; cases hrec
  | some o' =>
    rw [hnf] at hrec
    simp only [Option.map_some, Option.some.injEq, Repair.normalization.injEq] at hrec
    obtain ⟨rfl, rfl, rfl, rfl⟩ := hrec
    exact ⟨rfl, rfl, rfl, rfl⟩

/-- **Append-only log, one iteration**: a successful step leaves every earlier record in place (newest-first list:
the old log is a suffix of the new one). -/
theorem C07_step_log_append_only (env : Env) (lenient : Bool) (st st' : LState) (s s' : Str)
    (h : step env lenient st s = .ok (st', s')) : ∃ d, st'.repairs = d ++ st.repairs :=
  step_repairs_suffix env lenient st st' s s' h

/-- **Append-only log, whole loop.** -/
theorem C07_loop_log_append_only (env : Env) (lenient : Bool) (fuel : Nat) (st st' : LState) (s : Str)
    (h : loop env lenient fuel st s = .ok st') : ∃ d, st'.repairs = d ++ st.repairs :=
  loop_repairs_suffix env lenient fuel st st' s h

/-! ### Non-vacuity -/

/-- several aliases + a triple-quoted string: both sides are the same three receipts. -/
example : (match Lexer.tokenize Env.ascii "K::A->B | C\nL::\"\"\"x\"\"\"\n".toList with
    | .ok (toks, reps) => (reps.filter isNormalization, toks.filterMap receiptOf)
    | .error _ => ([], [])) =
    ([Repair.normalization "->".toList (.str ['→']) 1 5, Repair.normalization "|".toList (.str ['∨']) 1 9,
      Repair.normalization "\"\"\"".toList (.str ['x']) 2 4],
     [Repair.normalization "->".toList (.str ['→']) 1 5, Repair.normalization "|".toList (.str ['∨']) 1 9,
      Repair.normalization "\"\"\"".toList (.str ['x']) 2 4]) := by decide +kernel

/-- lenient mode, every alias, the `+` fallback, a `%` merge onto a NUMBER and onto an IDENTIFIER, and
curly-brace / wrong-case / boundary records interleaved in the log: the filter keeps exactly the seven receipts. -/
example : (match Lexer.tokenize Env.ascii "A{b}::True+5% | XvsY<->Z #1 & 60%x ~ q vs r\n".toList true with
    | .ok (toks, reps) => (reps.length, reps.filter isNormalization, toks.filterMap receiptOf)
    | .error _ => (0, [], [])) =
    (10,
     [Repair.normalization "+".toList (.str ['⊕']) 1 11, Repair.normalization "|".toList (.str ['∨']) 1 15,
      Repair.normalization "<->".toList (.str ['⇌']) 1 21, Repair.normalization "#".toList (.str ['§']) 1 26,
      Repair.normalization "&".toList (.str ['∧']) 1 29, Repair.normalization "~".toList (.str ['⧺']) 1 36,
      Repair.normalization "vs".toList (.str ['⇌']) 1 40],
     [Repair.normalization "+".toList (.str ['⊕']) 1 11, Repair.normalization "|".toList (.str ['∨']) 1 15,
      Repair.normalization "<->".toList (.str ['⇌']) 1 21, Repair.normalization "#".toList (.str ['§']) 1 26,
      Repair.normalization "&".toList (.str ['∧']) 1 29, Repair.normalization "~".toList (.str ['⧺']) 1 36,
      Repair.normalization "vs".toList (.str ['⇌']) 1 40]) := by decide +kernel

/-- canonical spelling of the first document: tokenize succeeds, both sides empty. -/
example : (match Lexer.tokenize Env.ascii "K::A→B∨C\nL::x\n".toList with
    | .ok (toks, reps) => (toks.length, reps.filter isNormalization, toks.filterMap receiptOf)
    | .error _ => (0, [Repair.wrongCase [] [] 0 0], [])) = (13, [], []) := by decide +kernel

/-- the hypothesis of the corollaries is satisfiable: a successful run with no normalised token. -/
example : (match Lexer.tokenize Env.ascii "K::x\n".toList with
    | .ok (toks, reps) => decide (∀ t ∈ toks, t.normFrom = none) && (reps.filter isNormalization).isEmpty
    | .error _ => false) = true := by decide +kernel

/-- a step whose log grows (the `+` fallback) and the append-only shape on it. -/
example : (match step Env.ascii false { repairs := [Repair.wrongCase "True".toList "true".toList 1 1] } "+x".toList with
    | .ok (st', _) => st'.repairs
    | .error _ => []) =
    [Repair.normalization ['+'] (.str ['⊕']) 1 1] ++ [Repair.wrongCase "True".toList "true".toList 1 1] := by decide +kernel

end Octave.C07
