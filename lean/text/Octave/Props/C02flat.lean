/-
C01 / C02 — reading the canonical text of a *flat* document gives back exactly its content: PARSER half.

A flat document is an envelope, any number of lines `KEY::scalar`, and `===END===`.  Its canonical text
lexes (lexer half, proved separately) to

    ENVELOPE_START(name) NEWLINE [IDENTIFIER(key) ASSIGN scalar NEWLINE]* ENVELOPE_END NEWLINE EOF      (`flatToks`)

Here: for EVERY name, EVERY number of lines, EVERY key, EVERY scalar (string / integer / float / boolean /
null / bare word) and EVERY token position, `parse_document` on that token list returns exactly the
document `{ name, sections := [Assignment(key, value, line, col)]* }` (`flatDoc`), through the real entry
points (`parse`: strict, `parse_with_warnings`: lenient), together with the exact list of parser warnings.

Only hypothesis: the FIRST line's key is not `META` (`metaFirst lines = false`).  It is necessary
(`C02_flat_meta_first_rejected`): `parse_document` takes a leading `META` identifier for the META block header
and `parse_meta_block` raises E001 on the `::`.  The real reader does the same
(`parse("===D===\nMETA::1\n===END===\n")` → `E001 at line 2, column 5`).

No condition on the keys is needed for the document itself: `parse_section`'s special paths (block target
`KEY[→…]`, `KEY:` blocks, `§` markers, dropped bare lines) are not taken because the token after the key is ASSIGN,
and it has no key-specific path except the PATTERN/REGEX warning below.

Warnings are exact (`docWarns`): a bare word under `PATTERN`/`REGEX` gives W_PATTERN_AUTOQUOTE, a repeated
top-level key gives the duplicate-key warning (in both modes: `strict_structure` changes neither, and the
document keeps BOTH assignments).  Corollary `C02_flat_document_read_silent`: no warning at all when every line
is plain (`Line.plain`) and the keys are `Nodup`.
-/
import Octave.Lemmas.FlatParse
namespace Octave.C02
open Octave Parser FlatParse

/-- `parse(tokens)` of parser.py called with a token list (no frontmatter, strict structure). -/
def parseToks (env : Env) (toks : List Token) : Except Exc Document := do
  let (doc, _) ← parseDocument.run (initState env toks true)
  pure doc

/-- `parse_with_warnings(tokens)` called with a token list: document and parser warnings (no lexer repairs). -/
def parseToksWithWarnings (env : Env) (toks : List Token) : Except Exc (Document × List Warning) := do
  let (doc, st) ← parseDocument.run (initState env toks false)
  pure (doc, st.warnings.reverse)

/-- `Parser.parse` is `parseToks` after the lexer. -/
theorem parse_eq_parseToks (env : Env) (content : Str) (toks : List Token) (reps : List Repair)
    (ht : Lexer.tokenize env (stripFrontmatter env content).1 = .ok (toks, reps)) :
    Parser.parse env content
      = (parseToks env toks).map fun d => { d with rawFrontmatter := (stripFrontmatter env content).2 } := by
  unfold Parser.parse parseToks
  simp only [bind, Except.bind, ht, pure, Except.pure, Except.map]
  cases parseDocument.run (initState env toks true) <;> rfl

/-- `Parser.parseWithWarnings` is `parseToksWithWarnings` after the lexer (repairs in front). -/
theorem parseWithWarnings_eq_parseToks (env : Env) (content : Str) (toks : List Token) (reps : List Repair)
    (ht : Lexer.tokenize env (stripFrontmatter env content).1 = .ok (toks, reps)) :
    Parser.parseWithWarnings env content
      = (parseToksWithWarnings env toks).map fun dw =>
          ({ dw.1 with rawFrontmatter := (stripFrontmatter env content).2 }, reps, dw.2) := by
  unfold Parser.parseWithWarnings parseToksWithWarnings
  simp only [bind, Except.bind, ht, pure, Except.pure, Except.map]
  cases parseDocument.run (initState env toks false) <;> rfl

/-- **The parser on a flat token list** (any mode): the document, and the final parser state. -/
theorem C02_flat_parseDocument (env : Env) (strict : Bool) (f : Frame) (name : Str) (lines : List Line)
    (hm : metaFirst lines = false) :
    parseDocument.run (initState env (flatToks f name lines) strict)
      = .ok (flatDoc name lines,
             { initState env (flatToks f name lines) strict with
                 rest := [f.nl1Tok, f.eofTok], prev := some f.endTok, pos := 4 * lines.length + 3,
                 warnings := (docWarns [] lines).reverse }) := by
  have h := parseDocument_flat f name lines (initState env (flatToks f name lines) strict) hm rfl
  simp only [StateT.run]
  rw [h]
  simp only [initState, List.append_nil, Nat.zero_add]

/-- **C02, flat documents, strict entry point** (`parse`): exactly `flatDoc`, for every name, every list of
lines (any length, any keys, any scalars, any positions) whose first key is not `META`. -/
theorem C02_flat_document_read (env : Env) (f : Frame) (name : Str) (lines : List Line)
    (hm : metaFirst lines = false) :
    parseToks env (flatToks f name lines) = .ok (flatDoc name lines) := by
  unfold parseToks
  rw [C02_flat_parseDocument env true f name lines hm]
  rfl

/-- **C02, flat documents, lenient entry point** (`parse_with_warnings`): the same document and exactly the
warnings `docWarns [] lines` (in emission order). -/
theorem C02_flat_document_read_warnings (env : Env) (f : Frame) (name : Str) (lines : List Line)
    (hm : metaFirst lines = false) :
    parseToksWithWarnings env (flatToks f name lines) = .ok (flatDoc name lines, docWarns [] lines) := by
  unfold parseToksWithWarnings
  rw [C02_flat_parseDocument env false f name lines hm]
  simp only [bind, Except.bind, pure, Except.pure, List.reverse_reverse]

/-- … and no warning at all when no line is a bare word under `PATTERN`/`REGEX` and no key repeats. -/
theorem C02_flat_document_read_silent (env : Env) (f : Frame) (name : Str) (lines : List Line)
    (hm : metaFirst lines = false) (hp : ∀ ln ∈ lines, ln.plain = true) (hnd : (lines.map Line.key).Nodup) :
    parseToksWithWarnings env (flatToks f name lines) = .ok (flatDoc name lines, []) := by
  rw [C02_flat_document_read_warnings env f name lines hm,
    docWarns_eq_nil [] lines hp hnd (fun _ _ => rfl)]

/-- text level, given the lexer half: if the (frontmatter-stripped) text lexes to `flatToks`, `parse` returns
`flatDoc` (with the stripped frontmatter recorded). -/
theorem C02_flat_text_read (env : Env) (content : Str) (f : Frame) (name : Str) (lines : List Line) (reps : List Repair)
    (ht : Lexer.tokenize env (stripFrontmatter env content).1 = .ok (flatToks f name lines, reps))
    (hm : metaFirst lines = false) :
    Parser.parse env content
      = .ok { flatDoc name lines with rawFrontmatter := (stripFrontmatter env content).2 } := by
  rw [parse_eq_parseToks env content _ reps ht, C02_flat_document_read env f name lines hm]
  rfl

theorem C02_flat_text_read_warnings (env : Env) (content : Str) (f : Frame) (name : Str) (lines : List Line)
    (reps : List Repair)
    (ht : Lexer.tokenize env (stripFrontmatter env content).1 = .ok (flatToks f name lines, reps))
    (hm : metaFirst lines = false) :
    Parser.parseWithWarnings env content
      = .ok ({ flatDoc name lines with rawFrontmatter := (stripFrontmatter env content).2 }, reps, docWarns [] lines) := by
  rw [parseWithWarnings_eq_parseToks env content _ reps ht, C02_flat_document_read_warnings env f name lines hm]
  rfl

/-- The hypothesis is necessary: a flat document whose first line is `META::scalar` is rejected (E001 at the `::`),
in both modes. -/
theorem C02_flat_meta_first_rejected (env : Env) (strict : Bool) (f : Frame) (name : Str) (ln : Line) (r : List Line)
    (hm : metaFirst (ln :: r) = true) :
    parseDocument.run (initState env (flatToks f name (ln :: r)) strict)
      = .error (.parser "E001".toList ln.l ln.c2) :=
  parseDocument_flat_meta_first f name ln r _ hm rfl


/-! ### non-vacuity -/

/-- the tokens that follow a value in canonical text end it. -/
example : endsValue .newline = true ∧ endsValue .comma = true ∧ endsValue .listEnd = true ∧ endsValue .comment = true
    ∧ endsValue .envelopeEnd = true ∧ endsValue .eof = true ∧ endsValue .indent = true := by decide

/-- one line, from any state: the Assignment, cursor on the line's NEWLINE, one W_PATTERN_AUTOQUOTE. -/
example (st : PState) (k : List Token) (w : Str) :
    parseSection 3 [] { st with rest := (⟨"REGEX".toList, .word w, 7, 1, 6, 8, 9⟩ : Line).toks ++ k }
      = .ok (some (.assign "REGEX".toList (.str w) 7 1 [] none),
             { st with rest := { type := .newline, value := .str "\n".toList, line := 7, col := 9 } :: k,
                       prev := some { type := .identifier, value := .str w, line := 7, col := 8 }, pos := st.pos + 3,
                       warnings := .patternAutoquote "REGEX".toList w 7 1 :: st.warnings }) :=
  parseSection_flat_line _ ⟨"REGEX".toList, .word w, 7, 1, 6, 8, 9⟩ k 0 rfl

/-- the body loop on two lines followed by EOF, with the minimal fuel 2·2+1. -/
example (st : PState) (i : Int) (raw : Str) (b : Bool) (eof : Token) (h : eof.type = .eof) :
    docLoop 3 5 [] [] []
        { st with rest := [(⟨"A".toList, .int i raw, 1, 1, 2, 4, 5⟩ : Line), ⟨"B".toList, .bool b, 2, 1, 2, 4, 8⟩].flatMap Line.toks ++ [eof] }
      = .ok (([.assign "A".toList (.int i) 1 1 [] none, .assign "B".toList (.bool b) 2 1 [] none], []),
             { st with rest := [eof], prev := some { type := .newline, value := .str "\n".toList, line := 2, col := 8 },
                       pos := st.pos + 8 }) := by
  have := docLoop_flat' 3 5 [(⟨"A".toList, .int i raw, 1, 1, 2, 4, 5⟩ : Line), ⟨"B".toList, .bool b, 2, 1, 2, 4, 8⟩] eof [] (.inr h)
    { st with rest := [(⟨"A".toList, .int i raw, 1, 1, 2, 4, 5⟩ : Line), ⟨"B".toList, .bool b, 2, 1, 2, 4, 8⟩].flatMap Line.toks ++ [eof] }
    [] [] (Nat.le_refl _) (Nat.le_refl _) rfl
  rw [this]
  simp [docWarns, Line.warns, trackPure, List.lookup, prevAfter, Line.node, Scalar.val, Line.nlTok]

def flatExText : Str := "===D===\nA::\"x y\"\nB::1\nC::true\nD::null\nE::word\nF::-2.5\n===END===\n".toList
def flatExFrame : Frame := { envL := 1, envC := 1, nl0L := 1, nl0C := 8, endL := 8, endC := 1, nl1L := 8, nl1C := 10, eofL := 9, eofC := 1 }
def flatExLines : List Line :=
  [ { key := "A".toList, v := .str "x y".toList, l := 2, c1 := 1, c2 := 2, c3 := 4, c4 := 9 },
    { key := "B".toList, v := .int 1 "1".toList, l := 3, c1 := 1, c2 := 2, c3 := 4, c4 := 5 },
    { key := "C".toList, v := .bool true, l := 4, c1 := 1, c2 := 2, c3 := 4, c4 := 8 },
    { key := "D".toList, v := .null, l := 5, c1 := 1, c2 := 2, c3 := 4, c4 := 8 },
    { key := "E".toList, v := .word "word".toList, l := 6, c1 := 1, c2 := 2, c3 := 4, c4 := 8 },
    { key := "F".toList, v := .float "-2.5".toList "-2.5".toList, l := 7, c1 := 1, c2 := 2, c3 := 4, c4 := 8 } ]

/-- the lexer model produces exactly `flatToks` on the example text (so the hypothesis of the text-level
theorems is satisfiable by the real lexer model), with no repairs. -/
theorem flatExText_lexes : Lexer.tokenize Env.ascii (stripFrontmatter Env.ascii flatExText).1
    = .ok (flatToks flatExFrame "D".toList flatExLines, []) := by
  have h : (match Lexer.tokenize Env.ascii (stripFrontmatter Env.ascii flatExText).1 with
      | .ok p => p == (flatToks flatExFrame "D".toList flatExLines, []) | .error _ => false) = true := by decide +kernel
  cases hx : Lexer.tokenize Env.ascii (stripFrontmatter Env.ascii flatExText).1 with
  | error e => rw [hx] at h; cases h
  | ok p => rw [hx] at h; simp only [beq_iff_eq] at h; rw [h]

/-- the theorem applied (not evaluated): strict and lenient read of the example text. -/
example : Parser.parse Env.ascii flatExText = .ok (flatDoc "D".toList flatExLines) :=
  C02_flat_text_read Env.ascii flatExText flatExFrame _ flatExLines [] flatExText_lexes rfl

example : Parser.parseWithWarnings Env.ascii flatExText = .ok (flatDoc "D".toList flatExLines, [], []) := by
  have h := C02_flat_text_read_warnings Env.ascii flatExText flatExFrame _ flatExLines [] flatExText_lexes rfl
  rw [h, docWarns_eq_nil [] flatExLines (by decide) (by decide) (fun _ _ => rfl)]
  rfl

/-- the whole model evaluated on the same text gives the same document (independent of the theorem). -/
example : Parser.parse Env.ascii flatExText = .ok (flatDoc "D".toList flatExLines) :=
  isOkDoc_sound (by decide +kernel)

/-- the task's own 5-line text, evaluated. -/
example : Parser.parse Env.ascii "===D===\nA::\"x y\"\nB::1\nC::true\nD::null\nE::word\n===END===\n".toList
    = .ok (flatDoc "D".toList
        [ { key := "A".toList, v := .str "x y".toList, l := 2, c1 := 1, c2 := 0, c3 := 0, c4 := 0 },
          { key := "B".toList, v := .int 1 [], l := 3, c1 := 1, c2 := 0, c3 := 0, c4 := 0 },
          { key := "C".toList, v := .bool true, l := 4, c1 := 1, c2 := 0, c3 := 0, c4 := 0 },
          { key := "D".toList, v := .null, l := 5, c1 := 1, c2 := 0, c3 := 0, c4 := 0 },
          { key := "E".toList, v := .word "word".toList, l := 6, c1 := 1, c2 := 0, c3 := 0, c4 := 0 } ]) :=
  isOkDoc_sound (by decide +kernel)

/-- a 3-line instance of the token-level theorems, all positions symbolic. -/
example (env : Env) (f : Frame) (l1 l2 l3 a b c d : Nat) (s : Str) (i : Int) (raw w : Str) :
    parseToks env (flatToks f "DOC".toList
      [ ⟨"K1".toList, .str s, l1, a, b, c, d⟩, ⟨"META".toList, .int i raw, l2, a, b, c, d⟩, ⟨"K1".toList, .word w, l3, a, b, c, d⟩ ])
    = .ok { name := "DOC".toList,
            sections := [ .assign "K1".toList (.str s) l1 a [] none, .assign "META".toList (.int i) l2 a [] none,
                          .assign "K1".toList (.str w) l3 a [] none ] } :=
  C02_flat_document_read env f _ _ (by simp [metaFirst])

/-- … whose lenient read reports exactly the duplicate key (the document keeps both assignments). -/
example (env : Env) (f : Frame) (l1 l2 l3 a b c d : Nat) (s : Str) (i : Int) (raw w : Str) :
    (parseToksWithWarnings env (flatToks f "DOC".toList
      [ ⟨"K1".toList, .str s, l1, a, b, c, d⟩, ⟨"META".toList, .int i raw, l2, a, b, c, d⟩, ⟨"K1".toList, .word w, l3, a, b, c, d⟩ ])).map Prod.snd
    = .ok [ .duplicateKey "K1".toList l1 l3 [l1, l3] ] := by
  rw [C02_flat_document_read_warnings env f _ _ (by simp [metaFirst])]
  simp [docWarns, Line.warns, trackPure, List.lookup, Except.map]

/-- the exact warnings: bare word under PATTERN (the real reader: `pattern_autoquote`), string under PATTERN: none. -/
example (l a b c d : Nat) (w : Str) :
    docWarns [] [ ⟨"PATTERN".toList, .word w, l, a, b, c, d⟩, ⟨"REGEX".toList, .str w, l, a, b, c, d⟩ ]
      = [ .patternAutoquote "PATTERN".toList w l a ] := by
  simp [docWarns, Line.warns, trackPure, List.lookup]

/-- META first: rejected, as the real reader does (`E001 at line 2, column 5`). -/
example : (match Parser.parse Env.ascii "===D===\nMETA::1\n===END===\n".toList with
    | .error e => e == .parser "E001".toList 2 5 | .ok _ => false) = true := by
  decide +kernel

end Octave.C02
