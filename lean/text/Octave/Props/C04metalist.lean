/-
C04 / C01 for LIST VALUES IN META (`  TAGS::[a,b]`) — PARTIAL: the emitter and the reader's META loop are proved on the class;
the end-to-end statements (`…_canonical_is_readable`, `…_fixed_point`, `…_survives`, `C15_…`) still need the lexer half of the
document (composition of `Nest.lex_nitem` at level 1 with `run_header` / `run_tree`) and `parse_document` around the loop
(sed-port of `MetaParse.parseDocument_meta` onto `MetaListParse.metaLoop_mfields`).  See the prover's report.

Class: a META field `KEY::item`, item = `Nest.NItem` — a leaf (scalar of the flat class, or a canonical FLOAT lexeme) or a list
of items of ANY depth (so flat lists of scalar / float leaves are the depth-1 instances).

* `C04_metalist_emit_partial`   `emit_meta` writes every field as `␣␣KEY::` + `NItem.text 1`: the value goes through the same
                                `emit_value` as the body at `indent = 1`; a short list of leaves stays on one line `[1.5,2.5]`,
                                a list with ≥ 3 items (or an annotation-shaped string, or a list item) is written one item per
                                line behind 4 spaces with `]` behind 2 spaces;
* `metaListLine_ok`             the tokens the lexer produces for such a field line (INDENT(2) IDENTIFIER ASSIGN `NItem.toks 1`
                                NEWLINE) are a field line the META loop reads (`MetaListParse.MLine.OK 2`);
* `C04_metalist_loop_survives_partial`   the META loop on the lexer's tokens of any number of such fields returns the dict with
                                EVERY value read back at its key with value and type (`NItem.value`: a list as `Value.list`,
                                each item at its index, a float as `Value.float`, an integer as `Value.int` …), in order.
What is missing for the full statements is listed at the end.
-/
import Octave.Lemmas.MetaListParse
import Octave.Lemmas.MetaLex
set_option linter.unusedVariables false
namespace Octave.C04
open Octave Lexer Emitter Parser
open Octave.Nest (NItem NLeaf nlCount colAfter)
open Octave.MetaListParse (MLine metaListDict)

/-- a META field `KEY::item`. -/
structure MetaListField where
  key : Str
  v : NItem

/-- `KEY::item` at nesting level 1 (without the two leading spaces and the line end). -/
def MetaListField.text (f : MetaListField) : Str := f.key ++ (':' :: ':' :: f.v.text 1)

/-- the fields as entries of `Document.metaKv`. -/
def metaListKv (fields : List MetaListField) : List (Str × MetaVal) := fields.map fun f => (f.key, MetaVal.val f.v.value)

/-- **`emit_meta` on fields whose values are leaves or (nested) lists**: one entry `␣␣KEY::value` per field with the value
spelled by `emit_value` at indent 1 — `NItem.text 1`. -/
theorem C04_metalist_emit_partial (fields : List MetaListField) (h : ∀ f ∈ fields, f.v.EmitOK) :
    emitMetaLines (metaListKv fields) = some (fields.map fun f => indentStr 1 ++ f.key ++ "::".toList ++ f.v.text 1) := by
  induction fields with
  | nil => rfl
  | cons f fs ih =>
    have h1 : emitValue f.v.value 1 = some (f.v.text 1) := Nest.emitValue_nitem f.v 1 (h f (by simp))
    have h2 := ih (fun l hl => h l (by simp [hl]))
    simp only [metaListKv, List.map_cons] at h2 ⊢
    rw [emitMetaLines_val f.key f.v.value _ _ _ h1 h2]

/-- the field line at text line `l` as the lexer tokenizes it: INDENT(2), key at column 3, `::`, the item's tokens at level 1,
NEWLINE. -/
def metaListLine (f : MetaListField) (l : Nat) : MLine :=
  { ind := ListDoc.tIndent 2 l 1,
    ln := { kt := tIdent f.key l 3, key := f.key, a := tAssign l (3 + f.key.length),
            vt := (f.v.toks 1 l (3 + f.key.length + 2)).headD default,
            vr := (f.v.toks 1 l (3 + f.key.length + 2)).tail,
            v := f.v.value,
            nl := tNewline (l + nlCount (f.v.text 1)) (colAfter (f.v.text 1) (3 + f.key.length + 2)) } }

theorem metaListLine_vtoks (f : MetaListField) (l : Nat) :
    (metaListLine f l).ln.vt :: (metaListLine f l).ln.vr = f.v.toks 1 l (3 + f.key.length + 2) := by
  obtain ⟨t, r, h⟩ := List.exists_cons_of_ne_nil (Nest.nitem_toks_ne_nil f.v 1 l (3 + f.key.length + 2))
  simp only [metaListLine, h, List.headD_cons, List.tail_cons]

/-- **the lexer's tokens of a field line are a field line the META loop reads**, when the value nests fewer than 100 brackets
(the reader's hard limit). -/
theorem metaListLine_ok (f : MetaListField) (l : Nat) (hn : f.v.nest < 100) : (metaListLine f l).OK 2 := by
  refine ⟨rfl, by simp [metaListLine, ListDoc.tIndent, BlockParse.indentVal], ⟨rfl, rfl, rfl, rfl, ?_⟩⟩
  intro st k fuel hd hr hf
  have R := Nest.reads_nitem f.v 1 l (3 + f.key.length + 2)
  rw [← metaListLine_vtoks] at R
  refine ⟨_, R.parse st (metaListLine f l).ln.nl k fuel hr (Or.inr (Or.inr rfl)) (by simpa using hf) (by rw [hd]; simpa using hn), rfl, ?_⟩
  rw [Nest.adv_depth, R.bal, hd]

/-- the field lines from text line `l` on (a multi-line list takes `nlCount` more lines). -/
def metaListLines (l : Nat) : List MetaListField → List MLine
  | [] => []
  | f :: fs => metaListLine f l :: metaListLines (l + nlCount (f.v.text 1) + 1) fs

theorem metaListLines_ok : ∀ (fields : List MetaListField) (l : Nat), (∀ f ∈ fields, f.v.nest < 100) →
    ∀ m ∈ metaListLines l fields, m.OK 2
  | [], l, _, m, hm => by cases hm
  | f :: fs, l, h, m, hm => by
    simp only [metaListLines, List.mem_cons] at hm
    rcases hm with hm | hm
    · subst hm; exact metaListLine_ok f l (h f (by simp))
    · exact metaListLines_ok fs _ (fun x hx => h x (by simp [hx])) m hm

/-- the dict the loop builds, on the content: `meta[key] = value` in order (a repeated key overwrites in place). -/
def metaListRead (acc : List (Str × MetaVal)) : List MetaListField → List (Str × MetaVal)
  | [] => acc
  | f :: fs => metaListRead (dictSet acc f.key (.val f.v.value)) fs

theorem metaListDict_eq : ∀ (fields : List MetaListField) (l : Nat) (acc : List (Str × MetaVal)),
    metaListDict acc (metaListLines l fields) = metaListRead acc fields
  | [], _, _ => rfl
  | f :: fs, l, acc => by
    simp only [metaListLines, metaListDict, metaListRead]
    exact metaListDict_eq fs _ _

/-- **C04 in META for list values, at the level of the META loop**: on the lexer's tokens of any number of field lines whose
values are leaves or lists (any depth < 100, multi-line layouts with their NEWLINE / INDENT tokens included), followed by the
first token `e` of an unindented line, `parse_meta_block`'s loop returns `meta[K] = value` for every field — every list as
`Value.list` with every item at its index, with value and type — and stops on `e` with `bracket_depth` back at 0. -/
theorem C04_metalist_loop_survives_partial (fields : List MetaListField) (l vf fuel : Nat) (e : Token) (k : List Token)
    (st : PState) (acc : List (Str × MetaVal)) (kp : Parser.KeyPos)
    (hn : ∀ f ∈ fields, f.v.nest < 100) (hs : MetaParse.metaStops 2 e = true) (hd : st.depth = 0)
    (hr : st.rest = (metaListLines l fields).flatMap MLine.toks ++ e :: k)
    (hvf : ∀ m ∈ metaListLines l fields, 2 * (m.ln.vr.length + 1) ≤ vf) (hfuel : 3 * (metaListLines l fields).length + 1 ≤ fuel) :
    ∃ st', metaLoop vf fuel 2 false acc kp st = .ok (metaListRead acc fields, st') ∧ st'.rest = e :: k ∧ st'.depth = 0 := by
  obtain ⟨st', h1, h2, h3⟩ := MetaListParse.metaLoop_mfields vf 2 (by decide) e k hs (metaListLines l fields) fuel acc kp st
    (metaListLines_ok fields l hn) hvf hd hr hfuel
  exact ⟨st', by rw [h1, metaListDict_eq], h2, h3⟩

/-! ### non-vacuity: the brief's layouts, evaluated -/

/-- a short list of floats stays on one line; a list of 3 items is written one item per line behind 4 spaces, `]` behind 2. -/
def metaListExFields : List MetaListField :=
  [⟨"TAGS".toList, .list [.scalar (.bare "a".toList), .scalar (.bare "b".toList)]⟩,
   ⟨"RATIOS".toList, .list [.num "1.5".toList, .num "2.5".toList]⟩,
   ⟨"MANY".toList, .list [.scalar (.int 1), .num "2.5".toList, .scalar (.qstr "x y".toList)]⟩,
   ⟨"N".toList, .num "-0.5".toList⟩]

example : emitMetaLines (metaListKv metaListExFields)
    = some ["  TAGS::[a,b]".toList, "  RATIOS::[1.5,2.5]".toList, "  MANY::[\n    1,\n    2.5,\n    \"x y\"\n  ]".toList,
            "  N::-0.5".toList] := by decide +kernel

example : (metaListExFields.map fun f => indentStr 1 ++ f.key ++ "::".toList ++ f.v.text 1)
    = ["  TAGS::[a,b]".toList, "  RATIOS::[1.5,2.5]".toList, "  MANY::[\n    1,\n    2.5,\n    \"x y\"\n  ]".toList,
       "  N::-0.5".toList] := by decide +kernel

/-- what the loop returns for them: lists as `Value.list`, every item at its index with its type. -/
example : metaListRead [] metaListExFields =
    [("TAGS".toList, .val (.list [.str "a".toList, .str "b".toList])),
     ("RATIOS".toList, .val (.list [.float "1.5".toList, .float "2.5".toList])),
     ("MANY".toList, .val (.list [.int 1, .float "2.5".toList, .str "x y".toList])),
     ("N".toList, .val (.float "-0.5".toList))] := by
  simp [metaListRead, metaListExFields, dictSet, NItem.value, Nest.nlValues, NLeaf.value, NLeaf.toP, FScalar.toP, FlatParse.Scalar.val]

end Octave.C04
