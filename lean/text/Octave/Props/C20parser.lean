/-
C20 — Any text is either read or cleanly refused; tools never raise (PARSER side).
Proved here for every environment and every input text:
  * `C20_parser_closed`, `C20_parse_closed`, `C20_parseMetaOnly_closed`: the three reader entry points of the model
    (`parse_with_warnings`, `parse` — the strict entry point that `canonStrict` uses —, `parse_meta_only`) return a
    value or fail with something that is NOT a foreign Python exception: a positioned LexerError / ParserError,
    the model's `unsupported` marker (holographic patterns) or its `fuel` marker;
  * `C20_parseDocument_closed`: the same for `parse_document` on an ARBITRARY token list / parser state (not only
    on token lists the lexer can produce);
  * `C20_reader_closed`: end to end — a failing read is a LexerError, a ParserError, `unsupported` or `fuel`;
  * `C20_annotated_items_nonempty`: the invariant that makes the only `throw (.py …)` of the parser model (the
    `items[-1]` of the GH#269 accumulator) unreachable.
No hang (every environment, every input text):
  * `C20_parser_no_hang`, `C20_parse_no_hang`: `parse_with_warnings` / `parse` never exhaust the model's fuel — every
    loop of the parser (document, META, nested META, block children, section children, list, list item, bare-word /
    number / annotated accumulators, flow expression, bracket capture, whitespace skipping …) consumes a token per
    iteration, and the fuel `parse_document` hands out (`2·(tokens+2)+10` for the value / section call chain, twice
    that for the document loop) covers the deepest chain;
  * `C20_parseDocument_no_hang`: the same for `parse_document` on ANY parser state whose remaining tokens end with EOF
    and contain at least as many `]` as `[`;
  * `C20_lexer_tokens_eof`, `C20_lexer_tokens_balanced`: every lexer output has those two properties;
  * `C20_parser_clean`: the combination — reading a text yields a document, a LexerError, a ParserError, or the
    model's `unsupported` marker; nothing else.
  * `C20_parseDocument_fuel_needs_balance`: the bracket-count hypothesis cannot be dropped — on the (lexer-unreachable)
    token list `K :: [ [ [ [ [ [ [ [ [ [ [ EOF` the model's `parse_document` does run out of fuel (four calls per
    bracket level against two units of fuel per token).  MODEL artefact, not a defect of the code.
  * `C20_parseMetaOnly_no_hang`: `parse_meta_only` too (its fuel is computed after the envelope has been skipped; the
    skipped tokens are not brackets, so the remaining suffix is still balanced).
Open: a cost bound (steps are not charged by the model).
-/
import Octave.Lemmas.ParserClosed
import Octave.Lemmas.ParserNoHangMeta
namespace Octave.C20
open Octave Parser

/-- **The lenient reader is closed.** -/
theorem C20_parser_closed (env : Env) (s : Str) (e : Exc)
    (h : Parser.parseWithWarnings env s = .error e) : NotPy e :=
  parseWithWarnings_closed env s e h

/-- **The strict reader (`parse`, used by `canonStrict`) is closed.** -/
theorem C20_parse_closed (env : Env) (s : Str) (e : Exc) (h : Parser.parse env s = .error e) : NotPy e :=
  parse_closed env s e h

theorem C20_parseMetaOnly_closed (env : Env) (s : Str) (e : Exc)
    (h : Parser.parseMetaOnly env s = .error e) : NotPy e :=
  parseMetaOnly_closed env s e h

/-- `parse_document` is closed on every parser state (any token list, strict or lenient). -/
theorem C20_parseDocument_closed (st : PState) (e : Exc) (h : parseDocument.run st = .error e) : NotPy e :=
  Closed.run parseDocument_closed h

/-- the GH#269 accumulator never indexes an empty `items` list. -/
theorem C20_annotated_items_nonempty (fuel : Nat) (bare items : List Str) (h : bare ≠ [] ∨ items ≠ []) :
    Closed (annotatedLoop fuel bare items) := annotatedLoop_closed fuel bare items h

/-- shape of a clean refusal. -/
def CleanRefusal (e : Exc) : Prop :=
  (∃ c l k, e = .lexer c l k) ∨ (∃ c l k, e = .parser c l k) ∨ (∃ w, e = .unsupported w) ∨ e = .fuel

theorem cleanRefusal_of_notPy {e : Exc} (h : NotPy e) : CleanRefusal e := by
  cases e with
  | lexer c l k => exact .inl ⟨c, l, k, rfl⟩
  | parser c l k => exact .inr (.inl ⟨c, l, k, rfl⟩)
  | py cls => exact absurd rfl (h cls)
  | unsupported w => exact .inr (.inr (.inl ⟨w, rfl⟩))
  | fuel => exact .inr (.inr (.inr rfl))

/-- **End to end**: reading a text (tokenize, then parse) yields a document or a clean refusal. -/
theorem C20_reader_closed (env : Env) (s : Str) :
    (∃ r, Parser.parseWithWarnings env s = .ok r) ∨
    (∃ e, Parser.parseWithWarnings env s = .error e ∧ CleanRefusal e) := by
  cases h : Parser.parseWithWarnings env s with
  | ok r => exact .inl ⟨r, rfl⟩
  | error e => exact .inr ⟨e, rfl, cleanRefusal_of_notPy (parseWithWarnings_closed env s e h)⟩

/-! ### no hang -/

/-- **`parse_with_warnings` never runs out of fuel.** -/
theorem C20_parser_no_hang (env : Env) (s : Str) : Parser.parseWithWarnings env s ≠ .error .fuel :=
  parseWithWarnings_no_fuel env s

/-- **`parse` never runs out of fuel.** -/
theorem C20_parse_no_hang (env : Env) (s : Str) : Parser.parse env s ≠ .error .fuel :=
  parse_no_fuel env s

/-- **`parse_meta_only` never runs out of fuel.** -/
theorem C20_parseMetaOnly_no_hang (env : Env) (s : Str) : Parser.parseMetaOnly env s ≠ .error .fuel :=
  parseMetaOnly_no_fuel env s

theorem C20_parseDocument_no_hang (st : PState) (he : EofEnd st.rest) (hb : nS st.rest ≤ nE st.rest) :
    parseDocument.run st ≠ .error .fuel :=
  parseDocument_no_fuel st he hb

theorem C20_lexer_tokens_eof (env : Env) (s : Str) (lenient : Bool) (toks : List Token) (reps : List Repair)
    (h : Lexer.tokenize env s lenient = .ok (toks, reps)) : EofEnd toks :=
  tokenize_eofEnd env s lenient toks reps h

theorem C20_lexer_tokens_balanced (env : Env) (s : Str) (lenient : Bool) (toks : List Token) (reps : List Repair)
    (h : Lexer.tokenize env s lenient = .ok (toks, reps)) : nS toks = nE toks :=
  tokenize_balanced env s lenient toks reps h

/-- **Reading is total and clean**: a document, or a positioned LexerError / ParserError, or `unsupported`. -/
theorem C20_parser_clean (env : Env) (s : Str) :
    (∃ r, Parser.parseWithWarnings env s = .ok r) ∨
    (∃ c l k, Parser.parseWithWarnings env s = .error (.lexer c l k)) ∨
    (∃ c l k, Parser.parseWithWarnings env s = .error (.parser c l k)) ∨
    (∃ w, Parser.parseWithWarnings env s = .error (.unsupported w)) := by
  cases h : Parser.parseWithWarnings env s with
  | ok r => exact .inl ⟨r, rfl⟩
  | error e =>
    have h1 := parseWithWarnings_closed env s e h
    have h2 := parseWithWarnings_no_fuel env s
    cases e with
    | lexer c l k => exact .inr (.inl ⟨c, l, k, rfl⟩)
    | parser c l k => exact .inr (.inr (.inl ⟨c, l, k, rfl⟩))
    | py cls => exact absurd rfl (h1 cls)
    | unsupported w => exact .inr (.inr (.inr ⟨w, rfl⟩))
    | fuel => exact absurd h h2

/-- the token list `K :: [×11 EOF` (the lexer refuses the corresponding text: unbalanced brackets). -/
def unbalancedToks : List Token :=
  [{ type := .identifier, value := .str "K".toList, line := 1, col := 1 },
   { type := .assign, value := .none, line := 1, col := 2 }]
  ++ List.replicate 11 { type := .listStart, value := .none, line := 1, col := 4 }
  ++ [{ type := .eof, value := .none, line := 1, col := 15 }]

/-- the bracket-count hypothesis of `C20_parseDocument_no_hang` is needed (model artefact). -/
theorem C20_parseDocument_fuel_needs_balance :
    (match parseDocument.run (initState Env.ascii unbalancedToks false) with
      | .error .fuel => true | _ => false) = true ∧
    ¬ nS unbalancedToks ≤ nE unbalancedToks ∧ EofEnd unbalancedToks := by
  refine ⟨by decide +kernel, by decide, ⟨_, rfl, rfl⟩⟩

/-- … and the lexer does refuse that text. -/
example : (match Parser.parseWithWarnings Env.ascii ("K::".toList ++ List.replicate 11 '[') with
    | .error (.lexer code _ _) => String.ofList code | _ => "") = "E_UNBALANCED_BRACKET" := by decide +kernel

/-- non-vacuity of the no-hang hypotheses: a real token list satisfies them. -/
example : (match Lexer.tokenize Env.ascii "K::[a,[b]]\n".toList with
    | .ok (toks, _) => decide (nS toks = nE toks) && decide (nS toks = 2) | .error _ => false) = true := by decide +kernel

/-- non-vacuity: one accepted text, one refused with a ParserError, one refused by the lexer. -/
example : (match Parser.parseWithWarnings Env.ascii "K::[a,b]\n".toList with | .ok _ => true | .error _ => false) = true := by
  decide +kernel
example : (match Parser.parseWithWarnings Env.ascii "§x y\n".toList with
    | .error (.parser code _ _) => String.ofList code | _ => "") = "E006" := by decide +kernel
example : (match Parser.parse Env.ascii "A:B\n".toList with
    | .error (.parser code _ _) => String.ofList code | _ => "") = "E001" := by decide +kernel
example : NotPy (.parser "E006".toList 1 1) := NotPy.parser _ _ _
example : ¬ NotPy (.py "IndexError".toList) := fun h => h _ rfl

end Octave.C20
