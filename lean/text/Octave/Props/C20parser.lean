/-
C20 — Any text is either read or cleanly refused; tools never raise (PARSER side).
Proved here for every environment and every input text:
  * `C20_parser_closed`, `C20_parse_closed`, `C20_parseMetaOnly_closed`: the three reader entry points of the model
    (`parse_with_warnings`, `parse` — the strict entry point that `canonStrict` uses —, `parse_meta_only`) return a
    value or fail with something that is NOT a foreign Python exception: a positioned LexerError / ParserError,
    the model's `unsupported` marker (holographic patterns) or its `fuel` marker;
  * `C20_parseDocument_closed`: the same for `parse_document` on an ARBITRARY token list / parser state (not only
    on token lists the lexer can produce);
  * `C20_reader_closed`: end to end — a failing read is a LexerError, a ParserError, `unsupported` or `fuel`;
  * `C20_annotated_items_nonempty`: the invariant that makes the only `throw (.py …)` of the parser model (the
    `items[-1]` of the GH#269 accumulator) unreachable.
-/
import Octave.Lemmas.ParserClosed
namespace Octave.C20
open Octave Parser

/-- **The lenient reader is closed.** -/
theorem C20_parser_closed (env : Env) (s : Str) (e : Exc)
    (h : Parser.parseWithWarnings env s = .error e) : NotPy e :=
  parseWithWarnings_closed env s e h

/-- **The strict reader (`parse`, used by `canonStrict`) is closed.** -/
theorem C20_parse_closed (env : Env) (s : Str) (e : Exc) (h : Parser.parse env s = .error e) : NotPy e :=
  parse_closed env s e h

theorem C20_parseMetaOnly_closed (env : Env) (s : Str) (e : Exc)
    (h : Parser.parseMetaOnly env s = .error e) : NotPy e :=
  parseMetaOnly_closed env s e h

/-- `parse_document` is closed on every parser state (any token list, strict or lenient). -/
theorem C20_parseDocument_closed (st : PState) (e : Exc) (h : parseDocument.run st = .error e) : NotPy e :=
  Closed.run parseDocument_closed h

/-- the GH#269 accumulator never indexes an empty `items` list. -/
theorem C20_annotated_items_nonempty (fuel : Nat) (bare items : List Str) (h : bare ≠ [] ∨ items ≠ []) :
    Closed (annotatedLoop fuel bare items) := annotatedLoop_closed fuel bare items h

/-- shape of a clean refusal. -/
def CleanRefusal (e : Exc) : Prop :=
  (∃ c l k, e = .lexer c l k) ∨ (∃ c l k, e = .parser c l k) ∨ (∃ w, e = .unsupported w) ∨ e = .fuel

theorem cleanRefusal_of_notPy {e : Exc} (h : NotPy e) : CleanRefusal e := by
  cases e with
  | lexer c l k => exact .inl ⟨c, l, k, rfl⟩
  | parser c l k => exact .inr (.inl ⟨c, l, k, rfl⟩)
  | py cls => exact absurd rfl (h cls)
  | unsupported w => exact .inr (.inr (.inl ⟨w, rfl⟩))
  | fuel => exact .inr (.inr (.inr rfl))

/-- **End to end**: reading a text (tokenize, then parse) yields a document or a clean refusal. -/
theorem C20_reader_closed (env : Env) (s : Str) :
    (∃ r, Parser.parseWithWarnings env s = .ok r) ∨
    (∃ e, Parser.parseWithWarnings env s = .error e ∧ CleanRefusal e) := by
  cases h : Parser.parseWithWarnings env s with
  | ok r => exact .inl ⟨r, rfl⟩
  | error e => exact .inr ⟨e, rfl, cleanRefusal_of_notPy (parseWithWarnings_closed env s e h)⟩

/-- non-vacuity: one accepted text, one refused with a ParserError, one refused by the lexer. -/
example : (match Parser.parseWithWarnings Env.ascii "K::[a,b]\n".toList with | .ok _ => true | .error _ => false) = true := by
  decide +kernel
example : (match Parser.parseWithWarnings Env.ascii "§x y\n".toList with
    | .error (.parser code _ _) => String.ofList code | _ => "") = "E006" := by decide +kernel
example : (match Parser.parse Env.ascii "A:B\n".toList with
    | .error (.parser code _ _) => String.ofList code | _ => "") = "E001" := by decide +kernel
example : NotPy (.parser "E006".toList 1 1) := NotPy.parser _ _ _
example : ¬ NotPy (.py "IndexError".toList) := fun h => h _ rfl

end Octave.C20
