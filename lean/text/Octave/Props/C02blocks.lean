/-
C01 / C02 — reading the canonical text of a document with NESTED BLOCKS gives back exactly its content: PARSER half.

Content model (`Lemmas/BlockParse.lean`): a forest of `TNode`s — `line key scalar` (`KEY::scalar`) and
`block key children` (`KEY:` followed by the children one level deeper) — of ANY depth and ANY width, the top level
mixing lines and blocks.  Its canonical text lexes to

    ENVELOPE_START(name) NEWLINE  forest(depth 0)  ENVELOPE_END NEWLINE EOF                                   (`treeToks`)
    line  at depth d:  [INDENT(2·d) if d > 0]  IDENTIFIER(key) ASSIGN scalar NEWLINE
    block at depth d:  [INDENT(2·d) if d > 0]  IDENTIFIER(key) BLOCK NEWLINE  children at depth d+1

(there is no DEDENT token: the parser infers the end of a block from the indentation of the next line).  Every
line / column number is arbitrary (`pos : Nat → LPos`, one record of positions per source line, numbered in reading
order); the INDENT token's VALUE `2·d` is content.

Results, for EVERY forest, name, and positions:
* `C02_block_read`      `parse_section` on a block: the Block node with exactly the children, cursor on the first token
                        of the next line that is not deeper than the block, only warnings added (exact list);
* `C02_block_children`  the child loop (`while True` of `parse_section`) on any forest of children;
* `C02_tree_document_read` / `…_warnings` / `…_silent`   `parse` / `parse_with_warnings` on the whole token list return
                        exactly `treeDoc` (and exactly the warnings `warnsList`);
* `C02_tree_text_read`  the same from the text, given that the text lexes to `treeToks` (lexer half: separate).

Hypotheses — both necessary, see the examples at the end and the runs of the real reader quoted there:
* `metaFirstT nodes = false`: the FIRST top-level key is not `META` (line or block).  `parse_document` takes a leading
  `META` identifier for the META block: `META::1` is rejected (E001), `META:` + children is read into `doc.meta`
  and `sections` stays empty.  `META` anywhere else (second top-level node, nested) is an ordinary key.
* `colsOkList pos nodes 0 0 = true`: the only POSITION the parser reads as content is the COLUMN of a block key
  (`block_indent = key.column - 1`).  A block with children needs `block_indent < 2·(d+1)` (else its first child is not
  "indented" and the block is read as empty, the children re-parented to the enclosing level); an empty block needs
  `block_indent ≥ 2·d` (else the next sibling is read as its child).  The lexer always produces `column = 2·d + 1`
  (the key follows the `2·d` spaces), which satisfies both (`colsOkList_of_canon`, `C02_tree_document_read_canon`);
  no other line/column matters.  The empty-block clause is the weakest one that does not depend on the context: it is
  needed exactly when a sibling follows at the same depth (when an ancestor's sibling or `===END===` follows, the
  code only needs `block_indent ≥` that line's indentation).

No condition on keys (other than the first `META`), on the scalars, on depth or width; an empty block, a block whose
last child is a block (of a block …), siblings after a nested block are all covered.  Duplicate-key warnings are
tracked per block and at top level, for Assignment children only (two blocks with the same key: no warning).

Fuel (model artefact): `parse_section` needs no more than the number of tokens of the block (`hF`), the child loop one
more; `parse_document` passes `2·(all tokens + 2) + 10`, which suffices (`parseDocument_tree` uses exactly that).

The real reader (`octave_mcp.core.parser.parse_with_warnings` on /repo) at the excluded points and at the edges:
* `===D===\nMETA:\n  X::1\n===END===\n` → `meta {'X': 1}`, no sections (by design: the META block); `META::1` first → E001 at 2:5;
  `META:` as second top-level node or nested → an ordinary Block, as the theorem says.
* empty blocks: `B:\nZ::true`, `A:\n  B:\n  Z::true`, `A:\n  B:\nZ::true` → Block with no children, the next line is the
  sibling / the parent's sibling; the emitter writes the same text back.
* duplicate keys: `B:\n  X::1\n  X::2\nX::3` → one `duplicate_key` warning (for `X` inside `B`), all three kept; `B:` twice → none.
* NON-canonical indentation (outside the content model, reported for the record): children at 1 or 3 spaces are still
  children (any indent `> block_indent`); `B:\n  X::1\n      Y::2` → `Y` a child of `B` (deeper than the first child is
  accepted at the same level); `B:\n    X::1\n  Y::2` → `B = [X]` and `Y` silently becomes a TOP-LEVEL assignment
  (no warning: `parse_document` skips INDENT tokens) — the canonical re-emission is `B:\n  X::1\nY::2`.
-/
import Octave.Lemmas.BlockParse
import Octave.Props.C02flat
namespace Octave.C02
open Octave Parser FlatParse BlockParse

/-- **`parse_section` on a block** (any depth `d`, any children, any positions subject to `colsOk`), followed by a token
`e` that is not deeper than the block's own indentation (`stopsAt (2·d+1) e`: an INDENT with value `≤ 2·d`, or the first
token of an unindented line, `===END===`, EOF — not a blank line / comment / fence): returns the Block node with exactly
the children (`TNode.node`), the cursor on `e`, `prev` the last NEWLINE consumed, `pos` advanced by the number of the
block's tokens, warnings grown by exactly `TNode.warns`; `depth`, `warned`, everything else unchanged.
Fuel: the number of the block's tokens. -/
theorem C02_block_read (pos : Nat → LPos) (key : Str) (cs : List TNode) (d i : Nat) (st : PState) (e : Token) (k : List Token)
    (F : Nat) (hr : st.rest = (TNode.block key cs).body pos d i ++ e :: k) (hs : stopsAt (2 * d + 1) e = true)
    (hc : (TNode.block key cs).colsOk pos d i = true) (hF : ((TNode.block key cs).body pos d i).length ≤ F) :
    parseSection F [] st = .ok (some ((TNode.block key cs).node pos i),
      { st with rest := e :: k, prev := some ((TNode.block key cs).lastTok pos i),
                pos := st.pos + ((TNode.block key cs).body pos d i).length,
                warnings := ((TNode.block key cs).warns pos i).reverse ++ st.warnings }) :=
  parseSection_block pos key cs d i st e k F hr hs hc hF

/-- **the child loop of a block** at the start of a line, on any forest of children at depth `d + 1` followed by a token that
`stopsAt` the child indentation `2·(d+1)`: exactly the children's nodes are appended, in order. -/
theorem C02_block_children (pos : Nat → LPos) (cs : List TNode) (d i : Nat) (st : PState) (e : Token) (k : List Token)
    (acc : List Node) (kp : KeyPos) (F : Nat)
    (hr : st.rest = toksList pos cs (d + 1) i ++ e :: k) (hs : stopsAt (2 * (d + 1)) e = true)
    (hc : colsOkList pos cs (d + 1) i = true) (hF : (toksList pos cs (d + 1) i).length + 1 ≤ F) :
    blockLoop F (2 * (d + 1)) 0 [] acc kp st = .ok (acc ++ nodeList pos cs i,
      { st with rest := e :: k, prev := prevAfterList pos st.prev cs i,
                pos := st.pos + (toksList pos cs (d + 1) i).length,
                warnings := (warnsList pos cs kp i).reverse ++ st.warnings }) :=
  blockLoop_forest pos cs d i st e k acc kp F hr hs hc hF

/-- **The parser on a tree token list** (any mode): the document, and the final parser state. -/
theorem C02_tree_parseDocument (env : Env) (strict : Bool) (f : Frame) (name : Str) (pos : Nat → LPos) (nodes : List TNode)
    (hm : metaFirstT nodes = false) (hc : colsOkList pos nodes 0 0 = true) :
    parseDocument.run (initState env (treeToks f name pos nodes) strict)
      = .ok (treeDoc name pos nodes,
             { initState env (treeToks f name pos nodes) strict with
                 rest := [f.nl1Tok, f.eofTok], prev := some f.endTok, pos := (toksList pos nodes 0 0).length + 3,
                 warnings := (warnsList pos nodes [] 0).reverse }) := by
  have h := parseDocument_tree f name pos nodes (initState env (treeToks f name pos nodes) strict) hm hc rfl
  simp only [StateT.run]
  rw [h]
  simp only [initState, List.append_nil, Nat.zero_add]

/-- **C02, documents with nested blocks, strict entry point** (`parse`): exactly `treeDoc`, for every name and every
forest (any depth, any width, lines and blocks mixed at every level, any keys, any scalars, any positions) whose first
top-level key is not `META` and whose block-key columns are consistent with the indentation. -/
theorem C02_tree_document_read (env : Env) (f : Frame) (name : Str) (pos : Nat → LPos) (nodes : List TNode)
    (hm : metaFirstT nodes = false) (hc : colsOkList pos nodes 0 0 = true) :
    parseToks env (treeToks f name pos nodes) = .ok (treeDoc name pos nodes) := by
  unfold parseToks
  rw [C02_tree_parseDocument env true f name pos nodes hm hc]
  rfl

/-- … in particular with the columns the lexer produces (every block key at column `2·d + 1`, all other positions arbitrary). -/
theorem C02_tree_document_read_canon (env : Env) (f : Frame) (name : Str) (pos : Nat → LPos) (nodes : List TNode)
    (hm : metaFirstT nodes = false) (hc : canonColsList pos nodes 0 0 = true) :
    parseToks env (treeToks f name pos nodes) = .ok (treeDoc name pos nodes) :=
  C02_tree_document_read env f name pos nodes hm (colsOkList_of_canon pos nodes 0 0 hc)

/-- **… lenient entry point** (`parse_with_warnings`): the same document and exactly the warnings
`warnsList pos nodes [] 0` in emission order (per line: W_PATTERN_AUTOQUOTE then the duplicate-key warning of its level;
a block contributes the warnings of its children, its own key is not tracked). -/
theorem C02_tree_document_read_warnings (env : Env) (f : Frame) (name : Str) (pos : Nat → LPos) (nodes : List TNode)
    (hm : metaFirstT nodes = false) (hc : colsOkList pos nodes 0 0 = true) :
    parseToksWithWarnings env (treeToks f name pos nodes) = .ok (treeDoc name pos nodes, warnsList pos nodes [] 0) := by
  unfold parseToksWithWarnings
  rw [C02_tree_parseDocument env false f name pos nodes hm hc]
  simp only [bind, Except.bind, pure, Except.pure, List.reverse_reverse]

/-- … and no warning at all when no line is a bare word under `PATTERN`/`REGEX` and no Assignment key repeats within one
level (`quietList`, top-level keys `Nodup`). -/
theorem C02_tree_document_read_silent (env : Env) (f : Frame) (name : Str) (pos : Nat → LPos) (nodes : List TNode)
    (hm : metaFirstT nodes = false) (hc : colsOkList pos nodes 0 0 = true)
    (hq : quietList nodes = true) (hnd : (lineKeys nodes).Nodup) :
    parseToksWithWarnings env (treeToks f name pos nodes) = .ok (treeDoc name pos nodes, []) := by
  rw [C02_tree_document_read_warnings env f name pos nodes hm hc,
    warnsList_eq_nil pos nodes [] 0 hq hnd (fun _ _ => rfl)]

/-- text level, given the lexer half: if the (frontmatter-stripped) text lexes to `treeToks`, `parse` returns `treeDoc`
(with the stripped frontmatter recorded). -/
theorem C02_tree_text_read (env : Env) (content : Str) (f : Frame) (name : Str) (pos : Nat → LPos) (nodes : List TNode)
    (reps : List Repair)
    (ht : Lexer.tokenize env (stripFrontmatter env content).1 = .ok (treeToks f name pos nodes, reps))
    (hm : metaFirstT nodes = false) (hc : colsOkList pos nodes 0 0 = true) :
    Parser.parse env content
      = .ok { treeDoc name pos nodes with rawFrontmatter := (stripFrontmatter env content).2 } := by
  rw [parse_eq_parseToks env content _ reps ht, C02_tree_document_read env f name pos nodes hm hc]
  rfl

theorem C02_tree_text_read_warnings (env : Env) (content : Str) (f : Frame) (name : Str) (pos : Nat → LPos)
    (nodes : List TNode) (reps : List Repair)
    (ht : Lexer.tokenize env (stripFrontmatter env content).1 = .ok (treeToks f name pos nodes, reps))
    (hm : metaFirstT nodes = false) (hc : colsOkList pos nodes 0 0 = true) :
    Parser.parseWithWarnings env content
      = .ok ({ treeDoc name pos nodes with rawFrontmatter := (stripFrontmatter env content).2 }, reps,
             warnsList pos nodes [] 0) := by
  rw [parseWithWarnings_eq_parseToks env content _ reps ht, C02_tree_document_read_warnings env f name pos nodes hm hc]
  rfl

/-- one level of blocks whose children are lines (the first stage of the task), as an instance of the general theorem:
top-level blocks `Bⱼ:` with children `Kⱼ₁::v, Kⱼ₂::v, …` (any number of blocks, any number of children each). -/
theorem C02_one_level_blocks (env : Env) (f : Frame) (name : Str) (pos : Nat → LPos)
    (blocks : List (Str × List (Str × Scalar)))
    (hm : metaFirstT (blocks.map fun b => TNode.block b.1 (b.2.map fun kv => TNode.line kv.1 kv.2)) = false)
    (hc : colsOkList pos (blocks.map fun b => TNode.block b.1 (b.2.map fun kv => TNode.line kv.1 kv.2)) 0 0 = true) :
    parseToks env (treeToks f name pos (blocks.map fun b => TNode.block b.1 (b.2.map fun kv => TNode.line kv.1 kv.2)))
      = .ok (treeDoc name pos (blocks.map fun b => TNode.block b.1 (b.2.map fun kv => TNode.line kv.1 kv.2))) :=
  C02_tree_document_read env f name pos _ hm hc


/-! ### non-vacuity -/

/-- what follows a block in canonical text `stopsAt` its depth: a sibling's or an ancestor's sibling's INDENT, an
unindented key, `===END===`, EOF; a deeper INDENT, a blank line, a comment do not. -/
example (p : LPos) (key : Str) (f : Frame) :
    stopsAt (2 * 2 + 1) (indentTok 2 p) = true ∧ stopsAt (2 * 2 + 1) (indentTok 1 p) = true
    ∧ stopsAt (2 * 2 + 1) (hdrKeyTok key p) = true ∧ stopsAt (2 * 2 + 1) f.endTok = true ∧ stopsAt (2 * 2 + 1) f.eofTok = true
    ∧ stopsAt (2 * 2 + 1) (indentTok 3 p) = false ∧ stopsAt (2 * 2 + 1) (hdrNlTok p) = false := by
  simp [stopsAt, indentTok, indentVal, hdrKeyTok, hdrNlTok, Frame.endTok, Frame.eofTok]

/-- the task's example: text, frame, positions (one record per body line), forest. -/
def treeExText : Str := "===D===\nB:\n  X::1\n  C:\n    Y::\"s\"\nZ::true\n===END===\n".toList
def treeExFrame : Frame := { envL := 1, envC := 1, nl0L := 1, nl0C := 8, endL := 7, endC := 1, nl1L := 7, nl1C := 10, eofL := 8, eofC := 1 }
def treeExPos (i : Nat) : LPos :=
  [ (⟨0, 0, 2, 1, 2, 0, 3⟩ : LPos),     -- B:
    ⟨3, 1, 3, 3, 4, 6, 7⟩,               --   X::1
    ⟨4, 1, 4, 3, 4, 0, 5⟩,               --   C:
    ⟨5, 1, 5, 5, 6, 8, 11⟩,              --     Y::"s"
    ⟨0, 0, 6, 1, 2, 4, 8⟩ ].getD i default   -- Z::true
def treeExNodes : List TNode :=
  [ .block "B".toList [ .line "X".toList (.int 1 "1".toList), .block "C".toList [ .line "Y".toList (.str "s".toList) ] ],
    .line "Z".toList (.bool true) ]

/-- the lexer model produces exactly `treeToks` on the example text, with no repairs (so the hypothesis of the text-level
theorems is met by the lexer model, and the token shape described at the top is the real one). -/
theorem treeExText_lexes : Lexer.tokenize Env.ascii (stripFrontmatter Env.ascii treeExText).1
    = .ok (treeToks treeExFrame "D".toList treeExPos treeExNodes, []) := by
  have h : (match Lexer.tokenize Env.ascii (stripFrontmatter Env.ascii treeExText).1 with
      | .ok p => p == (treeToks treeExFrame "D".toList treeExPos treeExNodes, []) | .error _ => false) = true := by decide +kernel
  cases hx : Lexer.tokenize Env.ascii (stripFrontmatter Env.ascii treeExText).1 with
  | error e => rw [hx] at h; cases h
  | ok p => rw [hx] at h; simp only [beq_iff_eq] at h; rw [h]

/-- the document the example must be read as, written out. -/
def treeExDoc : Document :=
  { name := "D".toList,
    sections :=
      [ .block "B".toList
          [ .assign "X".toList (.int 1) 3 3 [] none,
            .block "C".toList [ .assign "Y".toList (.str "s".toList) 5 5 [] none ] 4 3 [] none ] 2 1 [] none,
        .assign "Z".toList (.bool true) 6 1 [] none ] }

example : treeDoc "D".toList treeExPos treeExNodes = treeExDoc := rfl

/-- the example's block keys are at the lexer's columns. -/
example : canonColsList treeExPos treeExNodes 0 0 = true := by decide

/-- the theorem applied (not evaluated): strict and lenient read of the example text. -/
example : Parser.parse Env.ascii treeExText = .ok treeExDoc :=
  C02_tree_text_read Env.ascii treeExText treeExFrame _ treeExPos treeExNodes [] treeExText_lexes rfl (by decide)

example : Parser.parseWithWarnings Env.ascii treeExText = .ok (treeExDoc, [], []) := by
  have h := C02_tree_text_read_warnings Env.ascii treeExText treeExFrame _ treeExPos treeExNodes [] treeExText_lexes rfl (by decide)
  rw [h, warnsList_eq_nil treeExPos treeExNodes [] 0 (by decide) (by decide) (fun _ _ => rfl)]
  rfl

/-- the whole model evaluated on the same text gives the same document (independent of the theorem). -/
example : Parser.parse Env.ascii treeExText = .ok treeExDoc :=
  isOkDocT_sound (by decide +kernel)

/-- an instance with symbolic content and positions: empty block first, a block whose last child is a block of a block,
a sibling after it, `META` as a nested and as a later top-level key. -/
example (env : Env) (f : Frame) (pos : Nat → LPos) (s w : Str) (i : Int) (raw : Str)
    (h0 : (pos 0).c1 = 1) (h2 : (pos 2).c1 = 1) (h3 : (pos 3).c1 = 3) (h4 : (pos 4).c1 = 5) (h7 : (pos 7).c1 = 1) :
    parseToks env (treeToks f "DOC".toList pos
      [ .block "E".toList [],
        .line "K".toList (.str s),
        .block "A".toList [ .block "META".toList [ .block "C".toList [ .line "X".toList (.int i raw) ] ], .line "K".toList (.word w) ],
        .block "META".toList [] ])
    = .ok { name := "DOC".toList,
            sections :=
              [ .block "E".toList [] (pos 0).l (pos 0).c1 [] none,
                .assign "K".toList (.str s) (pos 1).l (pos 1).c1 [] none,
                .block "A".toList
                  [ .block "META".toList
                      [ .block "C".toList [ .assign "X".toList (.int i) (pos 5).l (pos 5).c1 [] none ] (pos 4).l (pos 4).c1 [] none ]
                      (pos 3).l (pos 3).c1 [] none,
                    .assign "K".toList (.str w) (pos 6).l (pos 6).c1 [] none ] (pos 2).l (pos 2).c1 [] none,
                .block "META".toList [] (pos 7).l (pos 7).c1 [] none ] } :=
  C02_tree_document_read env f _ pos _ (by simp [metaFirstT, TNode.key])
    (by simp [colsOkList, TNode.colsOk, TNode.lines, linesList, h0, h2, h3, h4, h7])

/-- the exact warnings: a key repeated within a block is reported for that block (and not across levels, and not for
block keys); the document keeps every child. -/
example (pos : Nat → LPos) (a b c : Scalar) :
    warnsList pos
      [ .block "B".toList [ .line "X".toList a, .line "X".toList b ], .line "X".toList c, .block "B".toList [] ] [] 0
      = [ .duplicateKey "X".toList (pos 1).l (pos 2).l [(pos 1).l, (pos 2).l] ] := by
  cases a <;> cases b <;> cases c <;>
    simp [warnsList, TNode.warns, trackNode, trackPure, List.lookup, Line.warns, mkLine, TNode.lines, linesList]

/-- the real reader on that shape (`B:\n  X::1\n  X::2\nX::3`): one `duplicate_key` warning for `X`, all three kept. -/
example : (match Parser.parseWithWarnings Env.ascii "===D===\nB:\n  X::1\n  X::2\nX::3\nB:\n===END===\n".toList with
    | .ok r => r.2.2 == [ .duplicateKey "X".toList 3 4 [3, 4] ] | .error _ => false) = true := by decide +kernel

/-! ### the hypotheses are necessary -/

/-- `META:` block FIRST: read into `doc.meta`, `sections` stays empty (the real reader: `meta {'X': 1}`, no sections). -/
example : (match Parser.parse Env.ascii "===D===\nMETA:\n  X::1\n===END===\n".toList with
    | .ok d => d.sections.isEmpty && !d.metaKv.isEmpty | .error _ => false) = true := by
  decide +kernel

/-- `META::1` line first: rejected, E001 at the `::` (as the real reader). -/
example : (match Parser.parse Env.ascii "===D===\nMETA::1\nB:\n  X::1\n===END===\n".toList with
    | .error e => e == .parser "E001".toList 2 5 | .ok _ => false) = true := by
  decide +kernel

/-- `META:` as the SECOND top-level node or nested: an ordinary block (covered by the theorem). -/
example : Parser.parse Env.ascii "===D===\nA::1\nMETA:\n  X::1\n===END===\n".toList
    = .ok { name := "D".toList,
            sections := [ .assign "A".toList (.int 1) 2 1 [] none,
                          .block "META".toList [ .assign "X".toList (.int 1) 4 3 [] none ] 3 1 [] none ] } :=
  isOkDocT_sound (by decide +kernel)

/-- `colsOk` violated on a block WITH children (key column 4 at depth 0, children at INDENT 2: `block_indent = 3 ≥ 2`):
the block is read as EMPTY and its child becomes a top-level section.  (Token level only: the lexer never produces
this, the key of an unindented line is at column 1.) -/
example :
    parseToks Env.ascii (treeToks default "D".toList (fun _ => ⟨9, 1, 9, 4, 5, 7, 8⟩) [ .block "B".toList [ .line "X".toList .null ] ])
      = .ok { name := "D".toList,
              sections := [ .block "B".toList [] 9 4 [] none, .assign "X".toList .null 9 4 [] none ] } :=
  isOkDocT_sound (by decide +kernel)

/-- `colsOk` violated on an EMPTY block (depth 1, key column 1: `block_indent = 0 < 2`): the next sibling (INDENT 2) is
read as its child.  (Token level only.) -/
example :
    parseToks Env.ascii (treeToks default "D".toList (fun _ => ⟨9, 1, 9, 1, 5, 7, 8⟩)
        [ .block "A".toList [ .block "B".toList [], .line "Z".toList .null ] ])
      = .ok { name := "D".toList,
              sections := [ .block "A".toList [ .block "B".toList [ .assign "Z".toList .null 9 1 [] none ] 9 1 [] none ] 9 1 [] none ] } :=
  isOkDocT_sound (by decide +kernel)

end Octave.C02
