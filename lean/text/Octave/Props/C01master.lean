/-
C01 / C02 (and the emitter-injectivity hypothesis of C15) on MASTER documents — the document-level statement for the class that
joins the two unified classes `C01unified` (rich VALUES) and `C01document` (COMMENTS and META):

  a master document = an envelope `===NAME===`;
    a META block `META:` + one line `  KEY::scalar` per field (NO block when there is no field);
    a body forest of
      lines    `KEY::value`    value = a scalar (a string the emitter quotes, a bare word, an integer, a boolean, null),
                               a LIST of scalars of any length (written `[]`, `[a,b]`, or one item per line with the closing
                               bracket at the key's indentation: the emitter's choice, `needsMulti`), or an operator EXPRESSION
                               `w0 op1 w1 … opn wn` (n ≥ 1; `→ ⊕ ⧺ ⇌ ∨ ∧ @`), or a NUMBER lexeme
                               (`M.MValue.num s sc`: ANY representable full match `s` of the NUMBER pattern, denoting the scalar
                               `sc = C13.numScalar env s`; the READER statements hold for every such lexeme, the statements about
                               `emit` for the canonical ones: float lexemes that are their own `repr`, `sc = .float s s`);
                               with any number of leading comment lines and an optional trailing comment ` // text` — on EVERY
                               kind of value: after a scalar, a float, an expression, after the closing `]` of a one-line list AND
                               after the closing `]` of a multi-line list (stages 1 and 2 of the task at once: no restriction
                               `trail = none` on list-valued lines is needed);
      blocks   `KEY:`          with leading comment lines and children two spaces deeper,
      sections `§ID::NAME`     with leading comment lines and children two spaces deeper (ids `§1` `§CONTEXT` `§2b`),
    ANY depth, ANY width, the three kinds mixed at every level, empty blocks / sections included, ANY number of comments;
    the document's trailing comment lines; `===END===`.

For every such document (`M.MNode`, `M.mDoc`, `M.mDocText`; any name, fields, forest, comments):

  * `C01_mdoc_canonical_is_readable`  the strict reader accepts the canonical text and returns the same document: the fields in
                                      `meta` in order with their types; every node at the PHYSICAL text line of its key (comment
                                      lines and the lines of multi-line lists count), column `1 + 2·depth`, with exactly its
                                      leading comments and its trailing comment; lists with their items in order and typed;
                                      expressions as the string of their text; the document's trailing comments;
  * `C01_mdoc_fixed_point` (`…_matches`, `C01_mdoc_canon_fixed`)   `emit (parse (emit d)) = emit d`, byte for byte, whatever
                                      positions the AST carries;
  * `C02_mdoc_content_preserved`      name, META fields, sections that `mforestMatches` the forest (keys, ids, nesting, order,
                                      values with types, list items in order, every comment at its node), `nodesContent`, the
                                      trailing comments; nothing else (no separator, grammar version, frontmatter);
  * `C02_mdoc_lenient_read` (`…_exact`)   the lenient entry point reads the same document with NO normalisation receipt (exact
                                      receipts and warnings: per expression line `bare_flow` / `constraint_outside_brackets` /
                                      `chained_tension`, W_PATTERN_AUTOQUOTE, duplicate keys);
  * `mdoc_text_injective`, `C15_mdoc_emit_injective` (`…_matches`)   the canonical / emitted text determines name, META fields,
                                      body content (`M.mforestContent`: values, list items, comments included) and trailing
                                      comments;
  * `C02_mdoc_read`, `C02_mdoc_read_warnings`, `C01_mdoc_canonical_read_general`   the READER statements at token level (every
                                      token position arbitrary; lines GENERIC in their value: `MParse.LineOK`) and without the
                                      distinct-keys hypothesis.

It composes the lexer+emitter half (`Lemmas/MLex`: one mutual induction over `MNode`, per-line work taken from `ULex` values and
`CommentLex` comments; the emitter lifted from `U.emitNode_uline` by `emitNode_assign_lift`) with the parser half
(`Lemmas/MParse`: D's `HdrOK / ChildOK / LoopOK` scheme restated over nodes whose lines are U's generic `QLine`s, with a
terminator that is the NEWLINE or the trailing COMMENT) through `Lemmas/MBridge`.

Hypotheses (all decidable except the laws of the outside world), each necessary — see the end of the file and the prover's
report; the real reader / emitter (`octave_mcp.core` of /repo) was run at every excluded point:
  * `isEnvName name`, `name ≠ "END"`; `FLine.OK` on META fields; `mforestOK`: keys and section names identifier-shaped without
    a reserved-word prefix (`null-x::[a]` → E005), ids `SecId.OK`, values `UValue.OK` (scalars as the emitter spells them, list
    items likewise, expressions with ≥ 1 operator and `wordOK` operands, NUMBER lexemes `pyNumberFull s` and `Representable env s`: `K::1e400` is refused by the lexer (E005), `K::.5` is an
    IDENTIFIER, `K::+1.5` is read as the string `⊕` and the number is DROPPED), every comment `CommentOK` (strip-stable: ` padded `
    is re-read as `padded`; no line break: `"two\nlines"` above a list-valued line is written as two lines, the second one is
    re-read as content and the comment is lost; no tab: E005).
  * distinct META keys (`Nodup`): `doc.meta` is a Python dict — a representation invariant (`…_read_general` does without).
  * `(fields.isEmpty && firstIsMeta nodes) = false`: only WITHOUT META fields, the first body node must not be an uncommented
    line or block keyed `META` (`META::[a,b]` first → E001; with a comment line above it is an ordinary assignment).
  * for statements about `emit`: `FLine.MetaEmitOK` on fields, `mforestEmitOK` on the body (`U.lineEmitOK`: scalars / items
    quoted as `needs_quotes` decides, no bare word and no expression under `PATTERN` / `REGEX` — `PATTERN::A→B` is re-emitted
    quoted, with `pattern_autoquote` —; a NUMBER lexeme is a float that is its own `repr` — `K::1e5` is read as the float and
    re-emitted `K::100000.0`, `K::1.50` as `K::1.5`, `K::007` as `K::7`: same value, other bytes —; comments strip-stable; section names identifier-shaped).
  * laws of the outside world: NFC leaves every line unchanged (`hnfc`, finding F16); `\d` does not match `§` (`hsec`); the
    operator characters are symbols (`OpEnv`, needed only when an expression occurs).
NOT hypotheses: nothing about list length or layout, nothing about which values carry comments, nothing about what follows a
node (the parser's look-aheads hold on every canonical token list).
-/
import Octave.Lemmas.MBridge
import Octave.Props.C01unified
import Octave.Props.C01document
import Octave.Model.Canon
set_option linter.unusedVariables false
namespace Octave.C01
open Octave Lexer Emitter Octave.M
open Octave.Expr (OpEnv)

/-! ### the parser half through the entry points (token level, arbitrary positions) -/

/-- **The parser on the token list of a master document** (any mode): the document, and exactly the warnings. -/
theorem mdoc_parseDocument (env : Env) (strict : Bool) (f : FlatParse.Frame) (name : Str) (mpos : Nat → BlockParse.LPos)
    (fields : List (Str × FlatParse.Scalar)) (nodes : List MParse.PNode) (trailing : List (Str × CommentParse.CPos))
    (hm : (fields.isEmpty && MParse.metaFirstP nodes) = false) (hc : MParse.wfF env.isAlpha nodes 0) :
    ∃ st', Parser.parseDocument.run (Parser.initState env (MParse.mToks f name mpos fields nodes trailing) strict)
        = .ok (MParse.mDocP name fields nodes trailing, st') ∧
      st'.warnings = (MParse.warnsF nodes []).reverse ++ (MetaParse.metaWarns mpos [] fields 1).reverse := by
  obtain ⟨st', h, p, n, rfl⟩ := MParse.parseDocument_m f name mpos fields nodes trailing
    (Parser.initState env (MParse.mToks f name mpos fields nodes trailing) strict)
    ⟨rfl, Or.inr (by show 1 < 5; omega)⟩ hm hc rfl
  exact ⟨_, h, by simp [Parser.initState]⟩

/-- **strict entry point** (`parse`) on the token list: META fields in `meta`, every node with exactly its comments, values of
any kind the lines' `LineOK` describes, the document's trailing comments — for every annotation of the token positions. -/
theorem C02_mdoc_read (env : Env) (f : FlatParse.Frame) (name : Str) (mpos : Nat → BlockParse.LPos)
    (fields : List (Str × FlatParse.Scalar)) (nodes : List MParse.PNode) (trailing : List (Str × CommentParse.CPos))
    (hm : (fields.isEmpty && MParse.metaFirstP nodes) = false) (hc : MParse.wfF env.isAlpha nodes 0) :
    C02.parseToks env (MParse.mToks f name mpos fields nodes trailing) = .ok (MParse.mDocP name fields nodes trailing) := by
  obtain ⟨st', h, _⟩ := mdoc_parseDocument env true f name mpos fields nodes trailing hm hc
  unfold C02.parseToks
  rw [h]; rfl

/-- **lenient entry point** (`parse_with_warnings`) on the token list: the same document and exactly the warnings. -/
theorem C02_mdoc_read_warnings (env : Env) (f : FlatParse.Frame) (name : Str) (mpos : Nat → BlockParse.LPos)
    (fields : List (Str × FlatParse.Scalar)) (nodes : List MParse.PNode) (trailing : List (Str × CommentParse.CPos))
    (hm : (fields.isEmpty && MParse.metaFirstP nodes) = false) (hc : MParse.wfF env.isAlpha nodes 0) :
    C02.parseToksWithWarnings env (MParse.mToks f name mpos fields nodes trailing)
      = .ok (MParse.mDocP name fields nodes trailing, MetaParse.metaWarns mpos [] fields 1 ++ MParse.warnsF nodes []) := by
  obtain ⟨st', h, hw⟩ := mdoc_parseDocument env false f name mpos fields nodes trailing hm hc
  unfold C02.parseToksWithWarnings
  rw [h]
  simp only [bind, Except.bind, pure, Except.pure, hw, List.reverse_append, List.reverse_reverse]

/-! ### the two halves composed -/

/-- the lexer half in the vocabulary of the parser half. -/
theorem mdoc_text_lexes (env : Env) (lenient : Bool) (name : Str) (fields : List FLine) (nodes : List MNode)
    (trailing : List Str) (he : mforestHasExpr nodes = true → OpEnv env) (hsec : env.isDigit '§' = false)
    (hn : isEnvName name = true) (hne : name ≠ "END".toList) (hf : ∀ ln ∈ fields, ln.OK) (hok : mforestOK env nodes)
    (htr : ∀ c ∈ trailing, CommentOK env c)
    (hnfc : ∀ l ∈ splitLines (mDocText name fields nodes trailing), env.nfc l = l) :
    Lexer.tokenize env (Parser.stripFrontmatter env (mDocText name fields nodes trailing)).1 lenient
      = .ok (MParse.mToks (mFrame name fields nodes trailing) name (metaPos fields []) (fieldsToP fields) (bodyAnn fields nodes)
               (trailAnn fields nodes trailing), mDocReps fields nodes) := by
  rw [stripFrontmatter_mDoc, ← mDocToks_bridge]
  exact tokenize_mdoc env lenient name fields nodes trailing he hsec hn hne hf hok htr hnfc

theorem mdoc_metaFirst_side (fields : List FLine) (nodes : List MNode) (hm : (fields.isEmpty && firstIsMeta nodes) = false) :
    ((fieldsToP fields).isEmpty && MParse.metaFirstP (bodyAnn fields nodes)) = false := by
  rw [D.fieldsToP_isEmpty, bodyAnn, metaFirstP_bridge]; exact hm

/-- the strict reader on the canonical text, WITHOUT any hypothesis on repeated META keys. -/
theorem C01_mdoc_canonical_read_general (env : Env) (name : Str) (fields : List FLine) (nodes : List MNode)
    (trailing : List Str) (he : mforestHasExpr nodes = true → OpEnv env) (hsec : env.isDigit '§' = false)
    (hn : isEnvName name = true) (hne : name ≠ "END".toList) (hf : ∀ ln ∈ fields, ln.OK) (hok : mforestOK env nodes)
    (htr : ∀ c ∈ trailing, CommentOK env c) (hm : (fields.isEmpty && firstIsMeta nodes) = false)
    (hnfc : ∀ l ∈ splitLines (mDocText name fields nodes trailing), env.nfc l = l) :
    Parser.parse env (mDocText name fields nodes trailing) = .ok (mDocRead name fields nodes trailing) := by
  have hlex := mdoc_text_lexes env false name fields nodes trailing he hsec hn hne hf hok htr hnfc
  rw [C02.parse_eq_parseToks env _ _ _ hlex,
    C02_mdoc_read env _ name _ _ _ _ (mdoc_metaFirst_side fields nodes hm)
      (mforest_wf_ann env env.isAlpha (alphaOK_env env) nodes 0 _ hok),
    stripFrontmatter_mDoc, mDoc_bridge]
  rfl

/-- **the canonical text of a master document is accepted by the strict reader, which returns the same document**: the META
fields in order with their values and types; every body node at the physical text line of its key, column `1 + 2·depth`, with
exactly its leading comments and its trailing comment; every value with its type — a list as the list of its items in order,
an expression as the string of its text —; the document's trailing comments. -/
theorem C01_mdoc_canonical_is_readable (env : Env) (name : Str) (fields : List FLine) (nodes : List MNode)
    (trailing : List Str) (he : mforestHasExpr nodes = true → OpEnv env) (hsec : env.isDigit '§' = false)
    (hn : isEnvName name = true) (hne : name ≠ "END".toList) (hf : ∀ ln ∈ fields, ln.OK) (hnd : (fields.map FLine.key).Nodup)
    (hok : mforestOK env nodes) (htr : ∀ c ∈ trailing, CommentOK env c) (hm : (fields.isEmpty && firstIsMeta nodes) = false)
    (hnfc : ∀ l ∈ splitLines (mDocText name fields nodes trailing), env.nfc l = l) :
    Parser.parse env (mDocText name fields nodes trailing) = .ok (mDoc name canonPos fields nodes trailing) := by
  rw [C01_mdoc_canonical_read_general env name fields nodes trailing he hsec hn hne hf hok htr hm hnfc,
    mDocRead_of_nodup name fields nodes trailing hnd]

/-- **C01 on master documents: the canonical text is a fixed point.**  Emit the document, read the text with the strict
reader, emit again: the same bytes.  Whatever positions the nodes carry. -/
theorem C01_mdoc_fixed_point (env : Env) (name : Str) (pos : Nat → Nat → Nat × Nat) (fields : List FLine) (nodes : List MNode)
    (trailing : List Str) (he : mforestHasExpr nodes = true → OpEnv env) (hsec : env.isDigit '§' = false)
    (hn : isEnvName name = true) (hne : name ≠ "END".toList) (hf : ∀ ln ∈ fields, ln.OK) (hfe : ∀ ln ∈ fields, ln.MetaEmitOK)
    (hnd : (fields.map FLine.key).Nodup) (hok : mforestOK env nodes) (hem : mforestEmitOK env nodes)
    (htr : ∀ c ∈ trailing, CommentOK env c) (hm : (fields.isEmpty && firstIsMeta nodes) = false)
    (hnfc : ∀ l ∈ splitLines (mDocText name fields nodes trailing), env.nfc l = l) :
    ∃ text d', emit env (mDoc name pos fields nodes trailing) = some text ∧ Parser.parse env text = .ok d' ∧
      emit env d' = some text :=
  ⟨mDocText name fields nodes trailing, mDoc name canonPos fields nodes trailing,
   emit_mDoc env name pos fields nodes trailing hfe hok hem (document_leadOK_emit htr),
   C01_mdoc_canonical_is_readable env name fields nodes trailing he hsec hn hne hf hnd hok htr hm hnfc,
   emit_mDoc env name _ fields nodes trailing hfe hok hem (document_leadOK_emit htr)⟩

/-- the same for ANY AST that carries the forest (any positions at all in the nodes). -/
theorem C01_mdoc_fixed_point_matches (env : Env) (name : Str) (fields : List FLine) (nodes : List MNode) (trailing : List Str)
    (sections : List Node) (hmt : mforestMatches nodes sections)
    (he : mforestHasExpr nodes = true → OpEnv env) (hsec : env.isDigit '§' = false)
    (hn : isEnvName name = true) (hne : name ≠ "END".toList) (hf : ∀ ln ∈ fields, ln.OK) (hfe : ∀ ln ∈ fields, ln.MetaEmitOK)
    (hnd : (fields.map FLine.key).Nodup) (hok : mforestOK env nodes) (hem : mforestEmitOK env nodes)
    (htr : ∀ c ∈ trailing, CommentOK env c) (hm : (fields.isEmpty && firstIsMeta nodes) = false)
    (hnfc : ∀ l ∈ splitLines (mDocText name fields nodes trailing), env.nfc l = l) :
    ∃ text d', emit env { name := name, metaKv := metaKvOf fields, sections := sections, trailingComments := trailing } = some text ∧
      Parser.parse env text = .ok d' ∧ emit env d' = some text :=
  ⟨mDocText name fields nodes trailing, mDoc name canonPos fields nodes trailing,
   emit_mdoc_matches env name fields nodes trailing sections hmt hfe hok hem (document_leadOK_emit htr),
   C01_mdoc_canonical_is_readable env name fields nodes trailing he hsec hn hne hf hnd hok htr hm hnfc,
   emit_mDoc env name _ fields nodes trailing hfe hok hem (document_leadOK_emit htr)⟩

/-- … stated with the canonicaliser of the tools: the strict canonicaliser fixes the text the emitter wrote. -/
theorem C01_mdoc_canon_fixed (env : Env) (name : Str) (fields : List FLine) (nodes : List MNode)
    (trailing : List Str) (he : mforestHasExpr nodes = true → OpEnv env) (hsec : env.isDigit '§' = false)
    (hn : isEnvName name = true) (hne : name ≠ "END".toList) (hf : ∀ ln ∈ fields, ln.OK) (hfe : ∀ ln ∈ fields, ln.MetaEmitOK)
    (hnd : (fields.map FLine.key).Nodup) (hok : mforestOK env nodes) (hem : mforestEmitOK env nodes)
    (htr : ∀ c ∈ trailing, CommentOK env c) (hm : (fields.isEmpty && firstIsMeta nodes) = false)
    (hnfc : ∀ l ∈ splitLines (mDocText name fields nodes trailing), env.nfc l = l) :
    canonStrict env (mDocText name fields nodes trailing) = .ok (mDocText name fields nodes trailing) := by
  unfold canonStrict
  rw [C01_mdoc_canonical_is_readable env name fields nodes trailing he hsec hn hne hf hnd hok htr hm hnfc]
  simp only [bind, Except.bind, emit_mDoc env name canonPos fields nodes trailing hfe hok hem (document_leadOK_emit htr)]
  rfl

/-- **C02 on master documents: reading the canonical text yields exactly the content that was written** — the name; `meta` =
the fields in order, each key with its value and its type; sections that carry the forest (`mforestMatches`: per section the
same id string, the same name, no annotation; per block the same key; per line the same key and the same value with its type —
a list with the same items in the same order with their types, an expression as the string of its text —; the same children
in the same order; at EVERY node exactly its leading comments, at every assignment exactly its trailing comment);
`trailing_comments` = the document's trailing comments; nothing else appears. -/
theorem C02_mdoc_content_preserved (env : Env) (name : Str) (pos : Nat → Nat → Nat × Nat) (fields : List FLine)
    (nodes : List MNode) (trailing : List Str) (he : mforestHasExpr nodes = true → OpEnv env) (hsec : env.isDigit '§' = false)
    (hn : isEnvName name = true) (hne : name ≠ "END".toList) (hf : ∀ ln ∈ fields, ln.OK) (hfe : ∀ ln ∈ fields, ln.MetaEmitOK)
    (hnd : (fields.map FLine.key).Nodup) (hok : mforestOK env nodes) (hem : mforestEmitOK env nodes)
    (htr : ∀ c ∈ trailing, CommentOK env c) (hm : (fields.isEmpty && firstIsMeta nodes) = false)
    (hnfc : ∀ l ∈ splitLines (mDocText name fields nodes trailing), env.nfc l = l) :
    ∃ text d', emit env (mDoc name pos fields nodes trailing) = some text ∧ Parser.parse env text = .ok d' ∧
      d'.name = name ∧ d'.metaKv = fields.map (fun ln => (ln.key, MetaVal.val ln.v.value)) ∧ d'.hasSeparator = false ∧
      d'.trailingComments = trailing ∧ d'.grammarVersion = none ∧ d'.rawFrontmatter = none ∧
      mforestMatches nodes d'.sections ∧ D.nodesContent d'.sections = mforestContent nodes :=
  ⟨mDocText name fields nodes trailing, mDoc name canonPos fields nodes trailing,
   emit_mDoc env name pos fields nodes trailing hfe hok hem (document_leadOK_emit htr),
   C01_mdoc_canonical_is_readable env name fields nodes trailing he hsec hn hne hf hnd hok htr hm hnfc, rfl, rfl, rfl, rfl, rfl, rfl,
   mforestNodes_matches canonPos nodes (metaLines fields) 0,
   mforestContent_of_matches nodes _ (mforestNodes_matches canonPos nodes (metaLines fields) 0)⟩

/-- the parser's warnings on the canonical text: the duplicate-key warnings of META, then the warnings of the body. -/
def mDocWarns (fields : List FLine) (nodes : List MNode) : List Parser.Warning :=
  MetaParse.metaWarns (metaPos fields []) [] (fieldsToP fields) 1 ++ MParse.warnsF (bodyAnn fields nodes) []

/-- the lenient entry point (`parse_with_warnings`) on the canonical text, exactly and without any hypothesis on repeated
keys: the document (`mDocRead`), the lexer's receipts (identifier notes only), the parser's warnings (`mDocWarns`). -/
theorem C02_mdoc_lenient_read_exact (env : Env) (name : Str) (fields : List FLine) (nodes : List MNode)
    (trailing : List Str) (he : mforestHasExpr nodes = true → OpEnv env) (hsec : env.isDigit '§' = false)
    (hn : isEnvName name = true) (hne : name ≠ "END".toList) (hf : ∀ ln ∈ fields, ln.OK) (hok : mforestOK env nodes)
    (htr : ∀ c ∈ trailing, CommentOK env c) (hm : (fields.isEmpty && firstIsMeta nodes) = false)
    (hnfc : ∀ l ∈ splitLines (mDocText name fields nodes trailing), env.nfc l = l) :
    Parser.parseWithWarnings env (mDocText name fields nodes trailing)
      = .ok (mDocRead name fields nodes trailing, mDocReps fields nodes, mDocWarns fields nodes) := by
  have hlex := mdoc_text_lexes env false name fields nodes trailing he hsec hn hne hf hok htr hnfc
  rw [C02.parseWithWarnings_eq_parseToks env _ _ _ hlex,
    C02_mdoc_read_warnings env _ name _ _ _ _ (mdoc_metaFirst_side fields nodes hm)
      (mforest_wf_ann env env.isAlpha (alphaOK_env env) nodes 0 _ hok),
    stripFrontmatter_mDoc]
  simp only [Except.map, mDoc_bridge, mDocWarns]
  rfl

theorem mline_reps_not_norm (key : Str) (v : MValue) (d l : Nat) :
    (mlineReps key v d l).filter isNormalization = [] := by
  cases v with
  | u v =>
    simp only [mlineReps, MValue.reps, MValue.canonSp, List.filter_append, identReps_not_norm, List.nil_append, uvalue_reps_norm,
      valueReceipts_canon]
  | num s sc => simp only [mlineReps, MValue.reps, identReps_not_norm, List.append_nil]

mutual
theorem mnode_reps_not_norm : ∀ (n : MNode) (d l : Nat), (n.reps d l).filter isNormalization = []
  | .line key v lead trail, d, l => by simp only [MNode.reps]; exact mline_reps_not_norm key v d _
  | .block key cs lead, d, l => by
    simp only [MNode.reps, List.filter_append, mforest_reps_not_norm cs (d + 1) (l + lead.length + 1), identReps_not_norm,
      List.append_nil]
  | .sect id key cs lead, d, l => by
    simp only [MNode.reps, List.filter_append, mforest_reps_not_norm cs (d + 1) (l + lead.length + 1), List.append_nil]
    rw [List.filter_reverse, sheader_reps_norm]
    rfl
theorem mforest_reps_not_norm : ∀ (ns : List MNode) (d l : Nat), (mforestReps d l ns).filter isNormalization = []
  | [], d, l => rfl
  | n :: ns, d, l => by
    simp only [mforestReps, List.filter_append, mnode_reps_not_norm n d l, mforest_reps_not_norm ns d (l + n.nlines d),
      List.append_nil]
end

theorem mDocReps_not_norm (fields : List FLine) (nodes : List MNode) : (mDocReps fields nodes).filter isNormalization = [] :=
  mforest_reps_not_norm _ 0 2

/-- **the lenient entry point reads the same document from the canonical text, and the lexer issues no normalisation
receipt**: neither `§` nor a comment nor META nor a list layout nor a canonical operator is "repaired". -/
theorem C02_mdoc_lenient_read (env : Env) (name : Str) (fields : List FLine) (nodes : List MNode)
    (trailing : List Str) (he : mforestHasExpr nodes = true → OpEnv env) (hsec : env.isDigit '§' = false)
    (hn : isEnvName name = true) (hne : name ≠ "END".toList) (hf : ∀ ln ∈ fields, ln.OK) (hnd : (fields.map FLine.key).Nodup)
    (hok : mforestOK env nodes) (htr : ∀ c ∈ trailing, CommentOK env c) (hm : (fields.isEmpty && firstIsMeta nodes) = false)
    (hnfc : ∀ l ∈ splitLines (mDocText name fields nodes trailing), env.nfc l = l) :
    ∃ reps warns, Parser.parseWithWarnings env (mDocText name fields nodes trailing)
        = .ok (mDoc name canonPos fields nodes trailing, reps, warns) ∧ reps.filter isNormalization = [] := by
  refine ⟨mDocReps fields nodes, mDocWarns fields nodes, ?_, mDocReps_not_norm fields nodes⟩
  rw [C02_mdoc_lenient_read_exact env name fields nodes trailing he hsec hn hne hf hok htr hm hnfc,
    mDocRead_of_nodup name fields nodes trailing hnd]

/-! ### the emitter is injective on master documents (what the seal of C15 relies on) -/

/-- an environment for re-reading: ASCII everywhere (NFC is the identity, `§` is no digit, the operator characters are not
classified) except `str.isspace` and `repr(float(·))`, which are the given environment's — so that comment texts are `CommentOK`
and NUMBER lexemes denote the same scalars in it exactly as in the given one. -/
def masterReaderEnv (env : Env) : Env := { Env.ascii with spaceU := env.spaceU, floatRepr := env.floatRepr }

theorem strip_masterReaderEnv (env : Env) (c : Str) : (masterReaderEnv env).strip c = env.strip c := by
  have h : (masterReaderEnv env).isSpace = env.isSpace := by
    funext x
    simp only [Env.isSpace, masterReaderEnv]
  simp only [Env.strip, Env.rstrip, Env.lstrip, h]

theorem commentOK_masterReaderEnv {env : Env} {c : Str} (h : CommentOK env c) : CommentOK (masterReaderEnv env) c :=
  ⟨by rw [strip_masterReaderEnv]; exact h.1, h.2⟩

theorem trailOK_masterReaderEnv {env : Env} {t : Option Str} (h : TrailOK env t) : TrailOK (masterReaderEnv env) t := by
  cases t with
  | none => trivial
  | some c => exact commentOK_masterReaderEnv h

theorem opEnv_masterReaderEnv (env : Env) : OpEnv (masterReaderEnv env) := ⟨fun _ _ => rfl, fun _ _ => rfl⟩

theorem mvalueOK_masterReaderEnv (env : Env) (v : MValue) (h : v.OK env) : v.OK (masterReaderEnv env) := by
  cases v with
  | u v => exact h
  | num s sc => exact h

mutual
theorem mnodeOK_masterReaderEnv (env : Env) : ∀ (n : MNode), n.OK env → n.OK (masterReaderEnv env)
  | .line key v lead trail, h => by
    simp only [MNode.OK] at h ⊢
    exact ⟨h.1, h.2.1, mvalueOK_masterReaderEnv env v h.2.2.1, fun c hc => commentOK_masterReaderEnv (h.2.2.2.1 c hc), trailOK_masterReaderEnv h.2.2.2.2⟩
  | .block key cs lead, h => by
    simp only [MNode.OK] at h ⊢
    exact ⟨h.1, h.2.1, fun c hc => commentOK_masterReaderEnv (h.2.2.1 c hc), mforestOK_masterReaderEnv env cs h.2.2.2⟩
  | .sect id key cs lead, h => by
    simp only [MNode.OK] at h ⊢
    exact ⟨h.1, h.2.1, h.2.2.1, fun c hc => commentOK_masterReaderEnv (h.2.2.2.1 c hc), mforestOK_masterReaderEnv env cs h.2.2.2.2⟩
theorem mforestOK_masterReaderEnv (env : Env) : ∀ (ns : List MNode), mforestOK env ns → mforestOK (masterReaderEnv env) ns
  | [], _ => trivial
  | n :: ns, h => by
    simp only [mforestOK] at h ⊢
    exact ⟨mnodeOK_masterReaderEnv env n h.1, mforestOK_masterReaderEnv env ns h.2⟩
end

/-- **The canonical text determines the document**: two master documents with the same canonical text have the same name, the
same META fields (keys in order, values with their types), the same body content — ids, names, keys, nesting, order, values
with types, list items in order AND every comment at its node (`mforestContent`) — and the same trailing comments.  No
hypothesis on `END`, on NFC, on `§` or on the operator characters: the proof re-reads the body under the name `D` in
`masterReaderEnv`. -/
theorem mdoc_text_injective (env : Env) (n1 n2 : Str) (f1 f2 : List FLine) (t1 t2 : List MNode) (tr1 tr2 : List Str)
    (hn1 : isEnvName n1 = true) (hf1 : ∀ ln ∈ f1, ln.OK) (hnd1 : (f1.map FLine.key).Nodup) (hok1 : mforestOK env t1)
    (htr1 : ∀ c ∈ tr1, CommentOK env c) (hm1 : (f1.isEmpty && firstIsMeta t1) = false)
    (hn2 : isEnvName n2 = true) (hf2 : ∀ ln ∈ f2, ln.OK) (hnd2 : (f2.map FLine.key).Nodup) (hok2 : mforestOK env t2)
    (htr2 : ∀ c ∈ tr2, CommentOK env c) (hm2 : (f2.isEmpty && firstIsMeta t2) = false)
    (h : mDocText n1 f1 t1 tr1 = mDocText n2 f2 t2 tr2) :
    n1 = n2 ∧ metaKvOf f1 = metaKvOf f2 ∧ mforestContent t1 = mforestContent t2 ∧ tr1 = tr2 := by
  have hname : n1 = n2 := by
    have hs := congrArg splitLines h
    simp only [mDocText, docText] at hs
    rw [splitLines_append_nl _ _ (fun d hd => (envLine_clean n1 hn1 d hd).1),
      splitLines_append_nl _ _ (fun d hd => (envLine_clean n2 hn2 d hd).1)] at hs
    exact List.append_cancel_left (List.append_cancel_right (List.cons.inj hs).1)
  refine ⟨hname, ?_⟩
  subst hname
  have hD : mDocText "D".toList f1 t1 tr1 = mDocText "D".toList f2 t2 tr2 := by
    unfold mDocText docText at h ⊢
    have hb := (List.cons.inj (List.append_cancel_left h)).2
    rw [hb]
  have r1 := C01_mdoc_canonical_is_readable (masterReaderEnv env) "D".toList f1 t1 tr1 (fun _ => opEnv_masterReaderEnv env) rfl
    (by decide) (by decide) hf1 hnd1
    (mforestOK_masterReaderEnv env t1 hok1) (fun c hc => commentOK_masterReaderEnv (htr1 c hc)) hm1 (fun _ _ => rfl)
  have r2 := C01_mdoc_canonical_is_readable (masterReaderEnv env) "D".toList f2 t2 tr2 (fun _ => opEnv_masterReaderEnv env) rfl
    (by decide) (by decide) hf2 hnd2
    (mforestOK_masterReaderEnv env t2 hok2) (fun c hc => commentOK_masterReaderEnv (htr2 c hc)) hm2 (fun _ _ => rfl)
  rw [hD, r2] at r1
  have hd : mDoc "D".toList canonPos f2 t2 tr2 = mDoc "D".toList canonPos f1 t1 tr1 := by
    simpa using r1
  simp only [mDoc, Document.mk.injEq] at hd
  obtain ⟨_, hkv, _, hsecs, _, _, htc⟩ := hd
  refine ⟨hkv.symm, ?_, htc.symm⟩
  rw [← mforestContent_of_matches t1 _ (mforestNodes_matches canonPos t1 (metaLines f1) 0),
    ← mforestContent_of_matches t2 _ (mforestNodes_matches canonPos t2 (metaLines f2) 0), hsecs]

/-- **`emit` is injective on master documents**, up to the positions stored in the nodes: the reader is a left inverse of the
emitter on this class (the hypothesis of the seal theorems of C15). -/
theorem C15_mdoc_emit_injective (env : Env) (n1 n2 : Str) (p1 p2 : Nat → Nat → Nat × Nat) (f1 f2 : List FLine)
    (t1 t2 : List MNode) (tr1 tr2 : List Str)
    (hn1 : isEnvName n1 = true) (hf1 : ∀ ln ∈ f1, ln.OK) (hfe1 : ∀ ln ∈ f1, ln.MetaEmitOK) (hnd1 : (f1.map FLine.key).Nodup)
    (hok1 : mforestOK env t1) (hem1 : mforestEmitOK env t1) (htr1 : ∀ c ∈ tr1, CommentOK env c)
    (hm1 : (f1.isEmpty && firstIsMeta t1) = false)
    (hn2 : isEnvName n2 = true) (hf2 : ∀ ln ∈ f2, ln.OK) (hfe2 : ∀ ln ∈ f2, ln.MetaEmitOK) (hnd2 : (f2.map FLine.key).Nodup)
    (hok2 : mforestOK env t2) (hem2 : mforestEmitOK env t2) (htr2 : ∀ c ∈ tr2, CommentOK env c)
    (hm2 : (f2.isEmpty && firstIsMeta t2) = false)
    (h : emit env (mDoc n1 p1 f1 t1 tr1) = emit env (mDoc n2 p2 f2 t2 tr2)) :
    n1 = n2 ∧ (mDoc n1 p1 f1 t1 tr1).metaKv = (mDoc n2 p2 f2 t2 tr2).metaKv ∧ mforestContent t1 = mforestContent t2 ∧ tr1 = tr2 := by
  rw [emit_mDoc env n1 p1 f1 t1 tr1 hfe1 hok1 hem1 (document_leadOK_emit htr1),
    emit_mDoc env n2 p2 f2 t2 tr2 hfe2 hok2 hem2 (document_leadOK_emit htr2)] at h
  exact mdoc_text_injective env n1 n2 f1 f2 t1 t2 tr1 tr2 hn1 hf1 hnd1 hok1 htr1 hm1 hn2 hf2 hnd2 hok2 htr2 hm2
    (by simpa using h)

/-- the same for ANY two ASTs that carry the forests (any positions at all in the nodes). -/
theorem C15_mdoc_emit_injective_matches (env : Env) (n1 n2 : Str) (s1 s2 : List Node) (f1 f2 : List FLine)
    (t1 t2 : List MNode) (tr1 tr2 : List Str) (hmt1 : mforestMatches t1 s1) (hmt2 : mforestMatches t2 s2)
    (hn1 : isEnvName n1 = true) (hf1 : ∀ ln ∈ f1, ln.OK) (hfe1 : ∀ ln ∈ f1, ln.MetaEmitOK) (hnd1 : (f1.map FLine.key).Nodup)
    (hok1 : mforestOK env t1) (hem1 : mforestEmitOK env t1) (htr1 : ∀ c ∈ tr1, CommentOK env c)
    (hm1 : (f1.isEmpty && firstIsMeta t1) = false)
    (hn2 : isEnvName n2 = true) (hf2 : ∀ ln ∈ f2, ln.OK) (hfe2 : ∀ ln ∈ f2, ln.MetaEmitOK) (hnd2 : (f2.map FLine.key).Nodup)
    (hok2 : mforestOK env t2) (hem2 : mforestEmitOK env t2) (htr2 : ∀ c ∈ tr2, CommentOK env c)
    (hm2 : (f2.isEmpty && firstIsMeta t2) = false)
    (h : emit env { name := n1, metaKv := metaKvOf f1, sections := s1, trailingComments := tr1 }
       = emit env { name := n2, metaKv := metaKvOf f2, sections := s2, trailingComments := tr2 }) :
    n1 = n2 ∧ metaKvOf f1 = metaKvOf f2 ∧ mforestContent t1 = mforestContent t2 ∧ tr1 = tr2 := by
  rw [emit_mdoc_matches env n1 f1 t1 tr1 s1 hmt1 hfe1 hok1 hem1 (document_leadOK_emit htr1),
    emit_mdoc_matches env n2 f2 t2 tr2 s2 hmt2 hfe2 hok2 hem2 (document_leadOK_emit htr2)] at h
  exact mdoc_text_injective env n1 n2 f1 f2 t1 t2 tr1 tr2 hn1 hf1 hnd1 hok1 htr1 hm1 hn2 hf2 hnd2 hok2 htr2 hm2
    (by simpa using h)


/-! ### every hypothesis is decidable -/

instance decRepresentableM (env : Env) (s : Str) : Decidable (C13.Representable env s) := by
  unfold C13.Representable; exact inferInstance

instance decMValueOK (env : Env) (v : MValue) : Decidable (v.OK env) := by
  cases v with
  | u v => exact inferInstanceAs (Decidable v.OK)
  | num s sc =>
    exact inferInstanceAs (Decidable (C13.pyNumberFull s = true ∧ C13.Representable env s ∧ sc = C13.numScalar env s))

instance decMLineEmitOK (key : Str) (v : MValue) : Decidable (mlineEmitOK key v) := by
  cases v with
  | u v => exact inferInstanceAs (Decidable (U.lineEmitOK key v))
  | num s sc => exact inferInstanceAs (Decidable (sc = .float s s))

mutual
def MNode.decOK (env : Env) : (n : MNode) → Decidable (n.OK env)
  | .line key v lead trail => by simp only [MNode.OK]; exact inferInstance
  | .block key cs lead => by
    have := mforestDecOK env cs
    simp only [MNode.OK]; exact inferInstance
  | .sect id key cs lead => by
    have := mforestDecOK env cs
    simp only [MNode.OK]; exact inferInstance
def mforestDecOK (env : Env) : (ns : List MNode) → Decidable (mforestOK env ns)
  | [] => by simp only [mforestOK]; exact inferInstance
  | n :: ns => by
    have := MNode.decOK env n
    have := mforestDecOK env ns
    simp only [mforestOK]; exact inferInstance
end

instance (env : Env) (n : MNode) : Decidable (n.OK env) := MNode.decOK env n
instance (env : Env) (ns : List MNode) : Decidable (mforestOK env ns) := mforestDecOK env ns

mutual
def MNode.decEmitOK (env : Env) : (n : MNode) → Decidable (n.EmitOK env)
  | .line key v lead trail => by simp only [MNode.EmitOK]; exact inferInstance
  | .block key cs lead => by
    have := mforestDecEmitOK env cs
    simp only [MNode.EmitOK]; exact inferInstance
  | .sect id key cs lead => by
    have := mforestDecEmitOK env cs
    simp only [MNode.EmitOK]; exact inferInstance
def mforestDecEmitOK (env : Env) : (ns : List MNode) → Decidable (mforestEmitOK env ns)
  | [] => by simp only [mforestEmitOK]; exact inferInstance
  | n :: ns => by
    have := MNode.decEmitOK env n
    have := mforestDecEmitOK env ns
    simp only [mforestEmitOK]; exact inferInstance
end

instance (env : Env) (n : MNode) : Decidable (n.EmitOK env) := MNode.decEmitOK env n
instance (env : Env) (ns : List MNode) : Decidable (mforestEmitOK env ns) := mforestDecEmitOK env ns

/-! ### non-vacuity: META (TYPE, VERSION); a commented section holding a commented block with a commented MULTI-LINE list that has
a trailing comment behind its closing bracket, an expression line with a trailing comment, a quoted string with the EMPTY
trailing comment; a commented empty list; a commented nested section with a nested EMPTY section and a one-line list with a
trailing comment and a commented FLOAT with a trailing comment; a commented top-level line; document-trailing comments -/

def mxFields : List FLine := [⟨"TYPE".toList, .bare "SPEC".toList⟩, ⟨"VERSION".toList, .qstr "1.0".toList⟩]

def mxNodes : List MNode :=
  [.sect (.num 1) "OVERVIEW".toList
     [.block "B".toList
        [.line "L".toList (.u (.list [.qstr "a b".toList, .bare "c".toList, .int 3])) ["about l".toList] (some "after the list".toList),
         .line "E".toList (.u (.expr ⟨"A".toList, [(.flow, "B".toList), (.synth, "C".toList)]⟩)) [] (some "te".toList),
         .line "Q".toList (.u (.scalar (.qstr "x y".toList))) [] (some [])]
        ["block b".toList, []],
      .line "EMPTY".toList (.u (.list [])) ["empty list".toList] none,
      .sect (.numLetter 2 'b') "DEEP".toList
        [.sect (.name "NIL".toList) "NIL".toList [] ["empty section".toList],
         .line "S".toList (.u (.list [.int 1, .int 2])) [] (some "short".toList),
         .line "F".toList (.num "2.5e-07".toList (.float "2.5e-07".toList "2.5e-07".toList)) ["float".toList] (some "tf".toList)]
        ["nested".toList]]
     ["section one".toList],
   .line "W".toList (.u (.scalar (.bare "word".toList))) ["w1".toList, "w2".toList] none]

def mxTrailing : List Str := ["bye".toList, []]

def mxText : Str :=
  ("===DOC===\nMETA:\n  TYPE::SPEC\n  VERSION::\"1.0\"\n// section one\n§1::OVERVIEW\n  // block b\n  //\n  B:\n" ++
   "    // about l\n    L::[\n      \"a b\",\n      c,\n      3\n    ] // after the list\n    E::A→B⊕C // te\n    Q::\"x y\" //\n" ++
   "  // empty list\n  EMPTY::[]\n  // nested\n  §2b::DEEP\n    // empty section\n    §NIL::NIL\n    S::[1,2] // short\n    // float\n    F::2.5e-07 // tf\n" ++
   "// w1\n// w2\nW::word\n// bye\n//\n===END===\n").toList

example : mDocText "DOC".toList mxFields mxNodes mxTrailing = mxText := by decide +kernel

theorem mxFields_ok : ∀ ln ∈ mxFields, ln.OK := by
  intro ln h
  simp only [mxFields, List.mem_cons, List.mem_nil_iff, or_false] at h
  rcases h with h | h <;> subst h <;> simp only [FLine.OK, FScalar.OK] <;> decide

theorem mxFields_emit : ∀ ln ∈ mxFields, ln.MetaEmitOK := by decide
theorem mxFields_nodup : (mxFields.map FLine.key).Nodup := by decide
theorem mxNodes_ok : mforestOK Env.ascii mxNodes := by decide +kernel
theorem mxNodes_emit : mforestEmitOK Env.ascii mxNodes := by decide +kernel
theorem mxTrailing_ok : ∀ c ∈ mxTrailing, CommentOK Env.ascii c := by decide
theorem mx_he : mforestHasExpr mxNodes = true → OpEnv Env.ascii := fun _ => Expr.opEnv_ascii

/-- the theorems applied. -/
example : Parser.parse Env.ascii mxText = .ok (mDoc "DOC".toList canonPos mxFields mxNodes mxTrailing) := by
  have h := C01_mdoc_canonical_is_readable Env.ascii "DOC".toList mxFields mxNodes mxTrailing mx_he rfl rfl (by decide) mxFields_ok
    mxFields_nodup mxNodes_ok mxTrailing_ok (by decide) (fun _ _ => rfl)
  rwa [show mDocText "DOC".toList mxFields mxNodes mxTrailing = mxText by decide +kernel] at h

example : ∃ text d', emit Env.ascii (mDoc "DOC".toList (fun _ _ => (7, 7)) mxFields mxNodes mxTrailing) = some text ∧
    Parser.parse Env.ascii text = .ok d' ∧ emit Env.ascii d' = some text :=
  C01_mdoc_fixed_point Env.ascii "DOC".toList _ mxFields mxNodes mxTrailing mx_he rfl rfl (by decide) mxFields_ok mxFields_emit
    mxFields_nodup mxNodes_ok mxNodes_emit mxTrailing_ok (by decide) (fun _ _ => rfl)

example : ∃ text d',
    emit Env.ascii { name := "DOC".toList, metaKv := metaKvOf mxFields, sections := mforestNodes (fun i d => (d, i)) 0 0 mxNodes, trailingComments := mxTrailing } = some text ∧
    Parser.parse Env.ascii text = .ok d' ∧ emit Env.ascii d' = some text :=
  C01_mdoc_fixed_point_matches Env.ascii "DOC".toList mxFields mxNodes mxTrailing _ (mforestNodes_matches _ mxNodes 0 0) mx_he rfl rfl
    (by decide) mxFields_ok mxFields_emit mxFields_nodup mxNodes_ok mxNodes_emit mxTrailing_ok (by decide) (fun _ _ => rfl)

example : canonStrict Env.ascii (mDocText "DOC".toList mxFields mxNodes mxTrailing) = .ok (mDocText "DOC".toList mxFields mxNodes mxTrailing) :=
  C01_mdoc_canon_fixed Env.ascii "DOC".toList mxFields mxNodes mxTrailing mx_he rfl rfl (by decide) mxFields_ok mxFields_emit
    mxFields_nodup mxNodes_ok mxNodes_emit mxTrailing_ok (by decide) (fun _ _ => rfl)

example : ∃ text d', emit Env.ascii (mDoc "DOC".toList (fun i d => (d, i)) mxFields mxNodes mxTrailing) = some text ∧
    Parser.parse Env.ascii text = .ok d' ∧ d'.name = "DOC".toList ∧
    d'.metaKv = mxFields.map (fun ln => (ln.key, MetaVal.val ln.v.value)) ∧ d'.hasSeparator = false ∧
    d'.trailingComments = mxTrailing ∧ d'.grammarVersion = none ∧ d'.rawFrontmatter = none ∧
    mforestMatches mxNodes d'.sections ∧ D.nodesContent d'.sections = mforestContent mxNodes :=
  C02_mdoc_content_preserved Env.ascii "DOC".toList _ mxFields mxNodes mxTrailing mx_he rfl rfl (by decide) mxFields_ok
    mxFields_emit mxFields_nodup mxNodes_ok mxNodes_emit mxTrailing_ok (by decide) (fun _ _ => rfl)

example : ∃ reps warns, Parser.parseWithWarnings Env.ascii (mDocText "DOC".toList mxFields mxNodes mxTrailing)
    = .ok (mDoc "DOC".toList canonPos mxFields mxNodes mxTrailing, reps, warns) ∧ reps.filter isNormalization = [] :=
  C02_mdoc_lenient_read Env.ascii "DOC".toList mxFields mxNodes mxTrailing mx_he rfl rfl (by decide) mxFields_ok
    mxFields_nodup mxNodes_ok mxTrailing_ok (by decide) (fun _ _ => rfl)

/-- the exact receipts and warnings on the example: no receipt; ONE warning, the `bare_flow` of the expression line (text line
16, the `→` at column 9). -/
example : mDocReps mxFields mxNodes = [] ∧ mDocWarns mxFields mxNodes = [.bareFlow 16 9] := by
  constructor <;> decide +kernel

/-- injectivity applied: moving the trailing comment of a multi-line list to the next line's leading comments gives another text. -/
example : mDocText "D".toList []
      [.line "L".toList (.u (.list [.int 1, .int 2, .int 3])) [] (some "c".toList), .line "K".toList (.u (.scalar .null)) [] none] []
    ≠ mDocText "D".toList []
      [.line "L".toList (.u (.list [.int 1, .int 2, .int 3])) [] none, .line "K".toList (.u (.scalar .null)) ["c".toList] none] [] := by
  intro h
  have := (mdoc_text_injective Env.ascii _ _ _ _ _ _ _ _ (by decide) (by simp) (by decide) (by decide) (by simp) (by decide)
    (by decide) (by simp) (by decide) (by decide) (by simp) (by decide) h).2.2.1
  simp [mforestContent, MNode.content] at this

/-- `C15_mdoc_emit_injective` applied to the example: ANY document of the class (any name, any positions, any forest `t`, any
trailing comments) whose emitted text equals the emitted text of the example has the example's name, content and trailing
comments. -/
example (n : Str) (p1 p2 : Nat → Nat → Nat × Nat) (t : List MNode) (tr : List Str) (hn : isEnvName n = true)
    (hok : mforestOK Env.ascii t) (hem : mforestEmitOK Env.ascii t) (htr : ∀ c ∈ tr, CommentOK Env.ascii c)
    (h : emit Env.ascii (mDoc "DOC".toList p1 mxFields mxNodes mxTrailing) = emit Env.ascii (mDoc n p2 mxFields t tr)) :
    "DOC".toList = n ∧ mforestContent mxNodes = mforestContent t ∧ mxTrailing = tr := by
  have := C15_mdoc_emit_injective Env.ascii "DOC".toList n p1 p2 mxFields mxFields mxNodes t mxTrailing tr (by decide) mxFields_ok
    mxFields_emit mxFields_nodup mxNodes_ok mxNodes_emit mxTrailing_ok (by decide) hn mxFields_ok mxFields_emit mxFields_nodup hok hem
    htr rfl h
  exact ⟨this.1, this.2.2.1, this.2.2.2⟩

set_option maxRecDepth 100000 in
/-- what was read, written out: every comment at its node — the section's, the block's (with the empty second line), the
multi-line list's leading comment AND the trailing comment written behind its closing bracket, the expression's and the
(empty) one of the quoted string, the empty list's, the nested sections', the one-line list's; the list items in order with
their types; physical line numbers (the list occupies text lines 11 … 15, the next line is line 16). -/
example : mDoc "DOC".toList canonPos mxFields mxNodes mxTrailing =
    { name := "DOC".toList,
      metaKv := [("TYPE".toList, .val (.str "SPEC".toList)), ("VERSION".toList, .val (.str "1.0".toList))],
      sections :=
        [ .sect "1".toList "OVERVIEW".toList none
            [ .block "B".toList
                [ .assign "L".toList (.list [.str "a b".toList, .str "c".toList, .int 3]) 11 5 ["about l".toList] (some "after the list".toList),
                  .assign "E".toList (.str "A→B⊕C".toList) 16 5 [] (some "te".toList),
                  .assign "Q".toList (.str "x y".toList) 17 5 [] (some []) ] 9 3 ["block b".toList, []] none,
              .assign "EMPTY".toList (.list []) 19 3 ["empty list".toList] none,
              .sect "2b".toList "DEEP".toList none
                [ .sect "NIL".toList "NIL".toList none [] 23 5 ["empty section".toList],
                  .assign "S".toList (.list [.int 1, .int 2]) 24 5 [] (some "short".toList),
                  .assign "F".toList (.float "2.5e-07".toList) 26 5 ["float".toList] (some "tf".toList) ] 21 3 ["nested".toList] ] 6 1 ["section one".toList],
          .assign "W".toList (.str "word".toList) 29 1 ["w1".toList, "w2".toList] none ],
      trailingComments := ["bye".toList, []] } := by
  rfl

/-! ### the whole model evaluated on the same text (independently of the theorems) -/

/-- Boolean equality of values / nodes / documents of the class (scalars and lists of scalars), for closed checks. -/
def valEqM : Value → Value → Bool
  | .list as, .list bs => as.length == bs.length && (List.zipWith FlatParse.valEqB as bs).all id
  | a, b => FlatParse.valEqB a b

mutual
def nodeEqM : Node → Node → Bool
  | .assign k v l c ld tr, .assign k' v' l' c' ld' tr' => k == k' && valEqM v v' && l == l' && c == c' && ld == ld' && tr == tr'
  | .block k ch l c ld tg, .block k' ch' l' c' ld' tg' => k == k' && nodesEqM ch ch' && l == l' && c == c' && ld == ld' && tg == tg'
  | .sect id k an ch l c ld, .sect id' k' an' ch' l' c' ld' =>
    id == id' && k == k' && an == an' && nodesEqM ch ch' && l == l' && c == c' && ld == ld'
  | _, _ => false
def nodesEqM : List Node → List Node → Bool
  | [], [] => true
  | a :: as, b :: bs => nodeEqM a b && nodesEqM as bs
  | _, _ => false
end

def isOkDocM (r : Except Exc Document) (d : Document) : Bool :=
  match r with
  | .ok x => x.name == d.name && MetaParse.metaKvEqB x.metaKv d.metaKv && x.hasSeparator == d.hasSeparator &&
      nodesEqM x.sections d.sections && x.grammarVersion == d.grammarVersion && x.rawFrontmatter == d.rawFrontmatter &&
      x.trailingComments == d.trailingComments
  | .error _ => false

example : isOkDocM (Parser.parse Env.ascii mxText) (mDoc "DOC".toList canonPos mxFields mxNodes mxTrailing) = true := by
  decide +kernel

example : emit Env.ascii (mDoc "DOC".toList canonPos mxFields mxNodes mxTrailing) = some mxText := by decide +kernel

example : isOkStr (canonStrict Env.ascii mxText) mxText = true := by decide +kernel
example : isOkStr (canonLenient Env.ascii mxText) mxText = true := by decide +kernel

example : (match tokenize Env.ascii mxText false with
    | .ok p => p == (mDocToks "DOC".toList mxFields mxNodes mxTrailing, []) | .error _ => false) = true := by
  decide +kernel

/-- the bridge on the example (checked by evaluation, independently of `mDocToks_bridge`). -/
example : mDocToks "DOC".toList mxFields mxNodes mxTrailing
    = MParse.mToks (mFrame "DOC".toList mxFields mxNodes mxTrailing) "DOC".toList (metaPos mxFields []) (fieldsToP mxFields)
        (bodyAnn mxFields mxNodes) (trailAnn mxFields mxNodes mxTrailing) := by decide +kernel

/-- the token shape of a commented multi-line list with a trailing comment, inside a block: the comment line carries the
line's INDENT(2); the NEWLINE / INDENT tokens inside the brackets (items at indentation 4, closing bracket at indentation 2)
sit between LIST_START and LIST_END; the COMMENT follows LIST_END directly; then the line's NEWLINE. -/
example : ((mDocToks "D".toList []
      [.block "B".toList [.line "L".toList (.u (.list [.int 1, .bare "a".toList, .int 3])) ["k".toList] (some "t".toList)] []] []).map Token.tv) =
    [(.envelopeStart, .str "D".toList), (.newline, .str ['\n']),
     (.identifier, .str "B".toList), (.block, .str [':']), (.newline, .str ['\n']),
     (.indent, .nat 2), (.comment, .str "k".toList), (.newline, .str ['\n']),
     (.indent, .nat 2), (.identifier, .str "L".toList), (.assign, .str "::".toList), (.listStart, .str ['[']), (.newline, .str ['\n']),
       (.indent, .nat 4), (.number, .int 1), (.comma, .str [',']), (.newline, .str ['\n']),
       (.indent, .nat 4), (.identifier, .str "a".toList), (.comma, .str [',']), (.newline, .str ['\n']),
       (.indent, .nat 4), (.number, .int 3), (.newline, .str ['\n']),
       (.indent, .nat 2), (.listEnd, .str [']']), (.comment, .str "t".toList), (.newline, .str ['\n']),
     (.envelopeEnd, .str "END".toList), (.newline, .str ['\n']), (.eof, .none)] := by decide +kernel

/-! ### the parser half at token level: symbolic content and positions -/

/-- ALL positions symbolic (every token of the line, of its comment line and of its trailing COMMENT sits at an arbitrary line /
column), the float text and its lexeme arbitrary: a commented FLOAT line with a trailing comment is read as written. -/
example (env : Env) (f : FlatParse.Frame) (mpos : Nat → BlockParse.LPos) (il ic l c l1 c1 l2 c2 l3 c3 tl tc : Nat)
    (q : CommentParse.CPos) (r raw : Str) :
    C02.parseToks env (MParse.mToks f "D".toList mpos []
      [.line ⟨il, ic, tIdent "K".toList l1 c1, "K".toList, tAssign l2 c2, (FlatParse.Scalar.float r raw).tok l c, [], .float r, [],
              tNewline l3 c3⟩ [("k".toList, q)] (some ("t".toList, tl, tc))] [])
    = .ok { name := "D".toList, sections := [.assign "K".toList (.float r) l1 c1 ["k".toList] (some "t".toList)] } := by
  have hw : MParse.wfF env.isAlpha
      [.line ⟨il, ic, tIdent "K".toList l1 c1, "K".toList, tAssign l2 c2, (FlatParse.Scalar.float r raw).tok l c, [], .float r, [],
              tNewline l3 c3⟩ [("k".toList, q)] (some ("t".toList, tl, tc))] 0 := by
    simp only [MParse.wfF, MParse.PNode.wf, and_true]
    exact MParse.lineOK_scalar il ic _ _ _ "K".toList (.float r raw) l c _ rfl rfl rfl rfl
  rw [C02_mdoc_read env f _ mpos _ _ _ rfl hw]
  rfl

/-! ### what is NOT a hypothesis -/

/-- a comment line above a first LIST-valued line keyed `META` hides it from `parse_document`'s META test: an ordinary
assignment with its comment (real reader: the same; without the comment line: E001, see below). -/
example : Parser.parse Env.ascii "===D===\n// c\nMETA::[a,b]\n===END===\n".toList
    = .ok { name := "D".toList,
            sections := [.assign "META".toList (.list [.str "a".toList, .str "b".toList]) 3 1 ["c".toList] none] } :=
  C01_mdoc_canonical_is_readable Env.ascii "D".toList []
    [.line "META".toList (.u (.list [.bare "a".toList, .bare "b".toList])) ["c".toList] none] []
    (fun _ => Expr.opEnv_ascii) rfl rfl (by decide) (by simp) (by decide) (by decide) (by simp) (by decide) (fun _ _ => rfl)

/-- a LIST under `PATTERN` carries no condition (its items are not force-quoted), with a trailing comment too. -/
example : Parser.parse Env.ascii "===D===\nPATTERN::[a,b] // t\n===END===\n".toList
    = .ok { name := "D".toList,
            sections := [.assign "PATTERN".toList (.list [.str "a".toList, .str "b".toList]) 2 1 [] (some "t".toList)] } :=
  C01_mdoc_canonical_is_readable Env.ascii "D".toList []
    [.line "PATTERN".toList (.u (.list [.bare "a".toList, .bare "b".toList])) [] (some "t".toList)] []
    (fun _ => Expr.opEnv_ascii) rfl rfl (by decide) (by simp) (by decide) (by decide) (by simp) (by decide) (fun _ _ => rfl)

/-! ### the hypotheses are necessary

Each excluded point evaluated on the model (`decide +kernel`); the REAL reader / emitter (`octave_mcp.core` of /repo) was run at
the same inputs and does the same (see the prover's report). -/

/-- `firstIsMeta` (no META field): a first LIST-valued line keyed `META` without a comment above it is rejected (E001 at `::`). -/
example : (([] : List FLine).isEmpty && firstIsMeta [.line "META".toList (.u (.list [.bare "a".toList, .bare "b".toList])) [] none]) = true := by
  decide

example : isErr (Parser.parse Env.ascii
    (mDocText "D".toList [] [.line "META".toList (.u (.list [.bare "a".toList, .bare "b".toList])) [] none] []))
    (.parser "E001".toList 2 5) = true := by decide +kernel

/-- `CommentOK`, strip-stability, on the trailing comment of a MULTI-LINE list: `" p "` is written `]  // p` … and read back as
`"p"`: the second emission differs from the first. -/
def mxPadded : Document :=
  { name := "D".toList,
    sections := [.assign "K".toList (.list [.int 1, .int 2, .int 3]) 0 0 [] (some " p ".toList)] }

example : emit Env.ascii mxPadded = some "===D===\nK::[\n  1,\n  2,\n  3\n] //  p\n===END===\n".toList := by decide +kernel

example : isOkStr (canonStrict Env.ascii "===D===\nK::[\n  1,\n  2,\n  3\n] //  p\n===END===\n".toList)
    "===D===\nK::[\n  1,\n  2,\n  3\n] // p\n===END===\n".toList = true := by decide +kernel

/-- `CommentOK`, no line break, on a leading comment above a list-valued line: the part after the line break is written as a
line of its own and re-read as CONTENT (a dropped bare line) — the whole comment is lost on the second emission. -/
def mxBroken : Document :=
  { name := "D".toList,
    sections := [.assign "K".toList (.list [.str "a".toList, .str "b".toList]) 0 0 ["two\nlines".toList] none] }

example : emit Env.ascii mxBroken = some "===D===\n// two\nlines\nK::[a,b]\n===END===\n".toList := by decide +kernel

example : isOkStr (canonLenient Env.ascii "===D===\n// two\nlines\nK::[a,b]\n===END===\n".toList)
    "===D===\nK::[a,b]\n===END===\n".toList = true := by decide +kernel

/-- `CommentOK`, no tab, behind a list: the text is refused by the lexer (E005 at the tab). -/
example : isErr (Parser.parse Env.ascii "===D===\nK::[a,b] // a\tb\n===END===\n".toList) (.lexer "E005".toList 2 14) = true := by
  decide +kernel

/-- `mforestEmitOK` (`U.lineEmitOK`): an expression under `PATTERN` is re-emitted QUOTED (`pattern_autoquote`), its trailing
comment kept — the emitted text is not the canonical text of the class. -/
example : isOkStr (canonLenient Env.ascii "===D===\nPATTERN::A→B // t\n===END===\n".toList)
    "===D===\nPATTERN::\"A→B\" // t\n===END===\n".toList = true := by decide +kernel

/-- `mlineEmitOK` on NUMBER lexemes: a lexeme that is NOT its own `repr` (`1e5`; real CPython: `repr(float("1e5")) = "100000.0"`,
modelled by an environment whose `floatRepr` answers that) is READ as the float — an instance of the reader theorem, trailing
comment included — and re-emitted in the `repr` spelling: the value is kept, the bytes change. -/
def envRepr1e5 : Env := { Env.ascii with floatRepr := fun _ => "100000.0".toList }

example : Parser.parse envRepr1e5 "===D===\nK::1e5 // t\n===END===\n".toList
    = .ok { name := "D".toList, sections := [.assign "K".toList (.float "100000.0".toList) 2 1 [] (some "t".toList)] } :=
  C01_mdoc_canonical_is_readable envRepr1e5 "D".toList []
    [.line "K".toList (.num "1e5".toList (.float "100000.0".toList "1e5".toList)) [] (some "t".toList)] []
    (fun _ => ⟨fun _ _ => rfl, fun _ _ => rfl⟩) rfl rfl (by decide) (by simp) (by decide) (by decide) (by simp) (by decide)
    (fun _ _ => rfl)

example : ¬ mlineEmitOK "K".toList (.num "1e5".toList (.float "100000.0".toList "1e5".toList)) := by decide

example : isOkStr (canonLenient envRepr1e5 "===D===\nK::1e5 // t\n===END===\n".toList)
    "===D===\nK::100000.0 // t\n===END===\n".toList = true := by decide +kernel

/-- an INT lexeme with leading zeros is read as the int (reader theorem) and re-emitted without them. -/
example : Parser.parse Env.ascii "===D===\nK::007 // t\n===END===\n".toList
    = .ok { name := "D".toList, sections := [.assign "K".toList (.int 7) 2 1 [] (some "t".toList)] } :=
  C01_mdoc_canonical_is_readable Env.ascii "D".toList []
    [.line "K".toList (.num "007".toList (.int 7 "007".toList)) [] (some "t".toList)] []
    (fun _ => Expr.opEnv_ascii) rfl rfl (by decide) (by simp) (by decide) (by decide) (by simp) (by decide) (fun _ _ => rfl)

example : isOkStr (canonLenient Env.ascii "===D===\nK::007 // t\n===END===\n".toList) "===D===\nK::7 // t\n===END===\n".toList = true := by
  decide +kernel

/-- `Representable`: a float lexeme that overflows (`1e400`; CPython: `repr(float("1e400")) = "inf"`) is refused by the lexer,
E005 at the lexeme. -/
def envInf : Env := { Env.ascii with floatRepr := fun _ => "inf".toList }

example : ¬ C13.Representable envInf "1e400".toList := by decide

example : isErr (Parser.parse envInf "===D===\nK::1e400\n===END===\n".toList) (.lexer "E005".toList 2 4) = true := by decide +kernel

/-- `pyNumberFull`: `.5` is no NUMBER (an IDENTIFIER, re-emitted quoted); `+1.5` is `⊕` followed by a NUMBER: the value read is the
STRING `⊕` and the number is dropped without a warning (real reader: the same — reported). -/
example : C13.pyNumberFull ".5".toList = false ∧ C13.pyNumberFull "+1.5".toList = false := by decide

example : isOkStr (canonLenient Env.ascii "===D===\nK::+1.5\n===END===\n".toList) "===D===\nK::\"⊕\"\n===END===\n".toList = true := by
  decide +kernel

/-- `mforestOK`: a key with a reserved-word prefix is refused by the lexer (E005 at the `-`). -/
example : isErr (Parser.parse Env.ascii "===D===\nnull-x::[a] // t\n===END===\n".toList) (.lexer "E005".toList 2 5) = true := by
  decide +kernel

end Octave.C01
