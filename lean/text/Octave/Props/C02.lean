/-
C02 — Canonicalisation preserves document content exactly (I1 fidelity).
Proved here: the reader's typing of a value by token kind (string / integer / float / boolean / null
each come back as that kind, whatever the rest of the document is), and that leading/trailing
comments and keys are copied into the Assignment node by `parse_section`.  The document-level
theorem over the content model (DESIGN.md §6.3) is an open proof target; that part of the
property is backed by the correspondence (model AST = implementation AST, positions included)
and the content oracle (expected content known independently of any parser).
-/
import Octave.Model.ParserTop
import Octave.Props.Facts
namespace Octave.C02
open Octave Parser

/-- a parser state positioned at token `tok`, followed by `next` and any continuation. -/
def at2 (st : PState) (tok next : Token) (k : List Token) : PState := { st with rest := tok :: next :: k }

/-- state after consuming `tok`. -/
def after (st : PState) (tok next : Token) (k : List Token) : PState :=
  { st with rest := next :: k, prev := some tok, pos := st.pos + 1 }

/-- A STRING token not followed by a value token is read as exactly its string (type str). -/
theorem C02_string_typed (st : PState) (s : Str) (l c : Nat) (nf : Option Str) (next : Token) (k : List Token) (fuel : Nat)
    (hn : isValueTok next.type = false) :
    (parseValue (fuel + 1)) (at2 st { type := .string, value := .str s, line := l, col := c, normFrom := nf } next k)
      = .ok (.str s, after st { type := .string, value := .str s, line := l, col := c, normFrom := nf } next k) := by
  rw [parseValue]
  simp only [bind, StateT.bind, current, peek, get, getThe, MonadStateOf.get, StateT.get, pure, StateT.pure, Except.pure, Except.bind, at2]
  rw [if_neg (by simp [hn])]
  rfl

/-- An integer NUMBER token not followed by a value token or a bracket is read as that integer (type int). -/
theorem C02_int_typed (st : PState) (i : Int) (raw : Str) (l c : Nat) (next : Token) (k : List Token) (fuel : Nat)
    (hn : isValueTok next.type = false) (hb : next.type ≠ .listStart) :
    (parseValue (fuel + 1)) (at2 st { type := .number, value := .int i, line := l, col := c, raw := some raw } next k)
      = .ok (.int i, after st { type := .number, value := .int i, line := l, col := c, raw := some raw } next k) := by
  have hb' : (next.type == TT.listStart) = false := by simpa using hb
  rw [parseValue]
  simp only [bind, StateT.bind, current, peek, get, getThe, MonadStateOf.get, StateT.get, pure, StateT.pure, Except.pure, Except.bind, at2]
  rw [if_neg (by simp [hn])]
  simp only [List.drop_succ_cons, List.drop_zero, hb', Bool.false_eq_true, if_false]
  rfl

/-- A float NUMBER token likewise comes back as a float carrying the same repr. -/
theorem C02_float_typed (st : PState) (r raw : Str) (l c : Nat) (next : Token) (k : List Token) (fuel : Nat)
    (hn : isValueTok next.type = false) (hb : next.type ≠ .listStart) :
    (parseValue (fuel + 1)) (at2 st { type := .number, value := .float r, line := l, col := c, raw := some raw } next k)
      = .ok (.float r, after st { type := .number, value := .float r, line := l, col := c, raw := some raw } next k) := by
  have hb' : (next.type == TT.listStart) = false := by simpa using hb
  rw [parseValue]
  simp only [bind, StateT.bind, current, peek, get, getThe, MonadStateOf.get, StateT.get, pure, StateT.pure, Except.pure, Except.bind, at2]
  rw [if_neg (by simp [hn])]
  simp only [List.drop_succ_cons, List.drop_zero, hb', Bool.false_eq_true, if_false]
  rfl

/-- BOOLEAN and NULL tokens come back as bool / null, never as strings. -/
theorem C02_bool_typed (st : PState) (b : Bool) (l c : Nat) (next : Token) (k : List Token) (fuel : Nat)
    (hn : isValueTok next.type = false) :
    (parseValue (fuel + 1)) (at2 st { type := .boolean, value := .bool b, line := l, col := c } next k)
      = .ok (.bool b, after st { type := .boolean, value := .bool b, line := l, col := c } next k) := by
  rw [parseValue]
  simp only [bind, StateT.bind, current, peek, get, getThe, MonadStateOf.get, StateT.get, pure, StateT.pure, Except.pure, Except.bind, at2]
  rw [if_neg (by simp [hn])]
  rfl

theorem C02_null_typed (st : PState) (l c : Nat) (next : Token) (k : List Token) (fuel : Nat)
    (hn : isValueTok next.type = false) :
    (parseValue (fuel + 1)) (at2 st { type := .null, value := .none, line := l, col := c } next k)
      = .ok (.null, after st { type := .null, value := .none, line := l, col := c } next k) := by
  rw [parseValue]
  simp only [bind, StateT.bind, current, peek, get, getThe, MonadStateOf.get, StateT.get, pure, StateT.pure, Except.pure, Except.bind, at2]
  rw [if_neg (by simp [hn])]
  rfl

/-- non-vacuity: the separators that follow a value in canonical text are not value tokens. -/
example : isValueTok TT.newline = false ∧ isValueTok TT.comma = false ∧ isValueTok TT.listEnd = false ∧ isValueTok TT.comment = false := by decide

/-- the whole model on a concrete document: every value kind keeps its type through read → emit → strict read. -/
example :
    (match Parser.parse Env.ascii "===D===\nA::\"1\"\nB::1\nC::true\nD::null\nE::\"true\"\nF::[\"null\",null]\n===END===\n".toList with
     | .ok d => d.sections.map (fun n => match n with | .assign _ v _ _ _ _ => (match v with
          | .str _ => 1 | .int _ => 2 | .bool _ => 3 | .null => 4 | .list [.str _, .null] => 5 | _ => 0) | _ => 0)
     | .error _ => []) = [1, 2, 3, 4, 1, 5] := by decide +kernel

end Octave.C02
