/-
C07 / C03 on flat documents whose values may be MULTI-WORD BARE VALUES — the PARSER-level rewrite `K::two words here`
→ the single string `two words here`, with its receipt.

A document of the class is an envelope `===NAME===`, any number of lines `KEY::value` and `===END===`; a value is a scalar
(`FScalar`, as in `C01flat` / `C03flat`) or a multi-word bare value (`MWords`): a head word and `n ≥ 1` further words, each
preceded by ANY POSITIVE number of spaces (`gap + 1`; all gaps 0 is the single-space spelling).  Every word is
`Expr.wordOK`: identifier-shaped (`[A-Za-z_][A-Za-z0-9_.\-]*`, no trailing hyphen) without reserved prefix (`true` `false`
`null` `vs` followed by a non-word char or the end).  Decidable: `MLine.OK`.

What the real reader does with such a value (and the model, proved here for EVERY document of the class): the words are
joined by exactly ONE space each, whatever the spacing was (`MWords.result`); the value is that STRING; the parser pushes
one `lenient_parse` / `multi_word_coalesce` warning holding the words, the result, the line and the column of the FIRST
word.  The emitter quotes the result, so the canonical text of the line is `KEY::"w0 w1 … wn"` (`MLine.canon`).
The STRICT entry point `parse` accepts multi-word values too and builds the same document (the parser has no strict check
on this path); it simply returns no warning list.

Proved for EVERY document of the class (any number of lines, words, spaces; both lexer modes where the lexer is concerned):

  * `C07_multiword_lexes`            `tokenize` yields exactly `mwdocToks`: ONE IDENTIFIER token per word, at the word's own
                                     column (`C07_multiword_word_tokens`), and no normalisation receipt
                                     (`mwdocReps_norm`);
  * `C07_multiword_read` / `…_lenient`   `parse` / `parse_with_warnings` return the flat document of the CANONICAL lines —
                                     identical, positions included, to what the canonical text reads as — with the exact
                                     lexer repairs and the exact parser warnings `mwWarns`;
  * `C07_multiword_receipts`         the `multi_word_coalesce` records among the warnings are, in reading order, exactly
                                     `mwReceipts`: ONE per multi-word line (`mwReceipts_length`) — the words as written, the
                                     string they became, the line, the column of the first word — and the lexer log holds no
                                     normalisation record;
  * `C07_multiword_receipts_exact`   when the keys are pairwise different and none is `PATTERN` / `REGEX` (`mwQuietKeys`)
                                     the warning list IS `mwReceipts`: nothing else;
  * `C07_multiword_canonical_none`   the canonical text (quoted strings) reads as the same document and yields no
                                     `multi_word_coalesce` record (under `mwQuietKeys`: no warning at all);
  * `C03_multiword_converge`         `emit(parse(x))` = `emit(parse_with_warnings(x)[0])` = the canonical text
                                     `KEY::"w0 w1 … wn"`;  `C03_multiword_spacings_agree`: any two spacings of the same
                                     words canonicalise to identical bytes;  `C03_multiword_canonical_fixed`: the canonical
                                     text is a fixed point of both canonicalisers.

Hypotheses: `isEnvName name`, `name ≠ "END"`, `MLine.OK`, `MLine.EmitOK` (scalar lines only, as `FLine.EmitOK`; a
multi-word line ALWAYS satisfies it: `needsQuotes_mw`), first key not `META`, `hnfc` (NFC leaves every line of the text
unchanged; trivial for `Env.ascii`).  What the model does where `MLine.OK` fails is recorded at the end of this file; what
the real code does there is in the prover's report.

Not covered: multi-word values inside lists / blocks / META, multi-word values that start with a NUMBER / STRING /
BOOLEAN / NULL / VERSION token (`number_identifier`, `string_multiword` … contexts of the same warning), words carrying
`<annotation>`s or `[brackets]`, trailing spaces and comments after the words, the lexer-level brace-for-angle repair
(`NAME{q}` → `NAME<q>`, receipt kind `Repair.curlyBrace`, NOT a normalisation record and therefore outside
`C07_lexer_receipts_bijection`; it is made only by `tokenize(…, lenient=True)`, which neither `parse` nor
`parse_with_warnings` uses).
-/
import Octave.Lemmas.MultiWordBridge
import Octave.Model.Canon
import Octave.Props.C03expr
namespace Octave.C07
open Octave Lexer Emitter Parser FlatParse Spell Expr MW

/-! ### lexer -/

theorem mwTailReps_norm (l : Nat) (tail : List (Nat × Str)) : ∀ (c : Nat),
    (mwTailRepsRev l c tail).filter isNormalization = [] := by
  induction tail with
  | nil => intro c; rfl
  | cons q r ih =>
    intro c
    obtain ⟨g, w⟩ := q
    simp only [mwTailRepsRev, List.filter_append, filter_idReps, ih, List.append_nil]

theorem mwLineReps_norm (x : MLine) (l : Nat) : (x.repsRev l 1).filter isNormalization = [] := by
  obtain ⟨key, v⟩ := x
  cases v with
  | sc v => simp only [MLine.repsRev, MVal.repsRev, List.filter_append, filter_idReps, scalar_reps_norm, List.append_nil]
  | mw m => simp only [MLine.repsRev, MVal.repsRev, List.filter_append, filter_idReps, mwTailReps_norm, List.append_nil]

/-- the lexer log of a document of the class holds NO normalisation record (the rewrite is made by the parser). -/
theorem mwdocReps_norm (sl : List MLine) : (mwdocReps sl).filter isNormalization = [] := by
  have h : ∀ (sl : List MLine) (l : Nat), (mwLinesRepsRev l sl).filter isNormalization = [] := by
    intro sl
    induction sl with
    | nil => intro l; rfl
    | cons x r ih => intro l; simp only [mwLinesRepsRev, List.filter_append, mwLineReps_norm, ih, List.append_nil]
  rw [mwdocReps, List.filter_reverse, h]; rfl

/-- **(a) the lexer** (both modes): exactly `mwdocToks` and `mwdocReps`. -/
theorem C07_multiword_lexes (env : Env) (lenient : Bool) (name : Str) (sl : List MLine)
    (hn : isEnvName name = true) (hne : name ≠ "END".toList) (hok : ∀ x ∈ sl, x.OK)
    (hnfc : ∀ l ∈ splitLines (mwdocText name sl), env.nfc l = l) :
    tokenize env (mwdocText name sl) lenient = .ok (mwdocToks name sl, mwdocReps sl) :=
  tokenize_mwdoc env lenient name sl hn hne hok hnfc

/-- … in which the tokens of a multi-word value written at line `l`, column `c` are ONE IDENTIFIER token per word, in
order: the head at `(l, c)`, every further word at its own column. -/
theorem C07_multiword_word_tokens (m : MWords) (l c : Nat) :
    ∃ ts, ((MVal.mw m).toksRev l c).reverse = tIdent m.head l c :: ts ∧ MWToks (m.tail.map Prod.snd) ts :=
  ⟨(mwTailToksRev l (c + m.head.length) m.tail).reverse, by simp [MVal.toksRev], mwTailToks_bridge l m.tail _⟩

/-! ### parser -/

/-- text level, given the lexer half: both entry points on a text that lexes to `mwToks`. -/
theorem mw_read_of_toks (env : Env) (text : Str) (reps : List Repair) (f : Frame) (name : Str) (lines : List QLine)
    (hs : Parser.stripFrontmatter env text = (text, none))
    (hlex : Lexer.tokenize env text = .ok (mwToks f name lines, reps))
    (hwf : ∀ ln ∈ lines, ln.WF) (hm : mwMetaFirst lines = false) :
    Parser.parse env text = .ok { name := name, sections := lines.map QLine.node } ∧
    Parser.parseWithWarnings env text
      = .ok ({ name := name, sections := lines.map QLine.node }, reps, mwWarns [] lines) := by
  have hlex' : Lexer.tokenize env (Parser.stripFrontmatter env text).1 = .ok (mwToks f name lines, reps) := by
    rw [hs]; exact hlex
  constructor
  · obtain ⟨st', h1, _⟩ := parseDocument_mw f name lines hwf hm (Parser.initState env (mwToks f name lines) true) rfl rfl
    rw [C02.parse_eq_parseToks env _ _ _ hlex', hs]
    unfold C02.parseToks
    simp only [StateT.run, h1, bind, Except.bind, pure, Except.pure, Except.map]
  · obtain ⟨st', h1, h2⟩ := parseDocument_mw f name lines hwf hm (Parser.initState env (mwToks f name lines) false) rfl rfl
    have h2' : st'.warnings = (mwWarns [] lines).reverse := by
      rw [h2]; simp [Parser.initState]
    rw [C02.parseWithWarnings_eq_parseToks env _ _ _ hlex', hs]
    unfold C02.parseToksWithWarnings
    simp only [StateT.run, h1, h2', bind, Except.bind, pure, Except.pure, Except.map, List.reverse_reverse]

/-- the document every text of the class is read as: the flat document of the canonical lines, nodes positioned at their
keys (line `i + 2`, column 1). -/
abbrev mwDoc (name : Str) (sl : List MLine) : Document := flatDoc name (fun i => (i + 2, 1)) (canonLines sl)

/-- **the STRICT entry point `parse` accepts multi-word values** and returns the document whose values are the joined
strings — the same document, positions included, as for the canonical text. -/
theorem C07_multiword_read (env : Env) (name : Str) (sl : List MLine)
    (hn : isEnvName name = true) (hne : name ≠ "END".toList) (hok : ∀ x ∈ sl, x.OK)
    (hm : mwFirstNotMeta sl = true)
    (hnfc : ∀ l ∈ splitLines (mwdocText name sl), env.nfc l = l) :
    Parser.parse env (mwdocText name sl) = .ok (mwDoc name sl) := by
  have hlex := tokenize_mwdoc env false name sl hn hne hok hnfc
  rw [mwdocToks_bridge] at hlex
  have h := (mw_read_of_toks env (mwdocText name sl) _ _ name _ (stripFrontmatter_mwdoc env name sl) hlex
    (toQLines_wf sl hok 2) (mwMetaFirst_bridge sl 2 hm)).1
  rw [h, qnodes_bridge sl 0]
  rfl

/-- **(b) the lenient entry point** (`parse_with_warnings`): the same document, exactly the lexer repairs `mwdocReps` and
exactly the parser warnings `mwWarns` of the lines. -/
theorem C07_multiword_read_lenient (env : Env) (name : Str) (sl : List MLine)
    (hn : isEnvName name = true) (hne : name ≠ "END".toList) (hok : ∀ x ∈ sl, x.OK)
    (hm : mwFirstNotMeta sl = true)
    (hnfc : ∀ l ∈ splitLines (mwdocText name sl), env.nfc l = l) :
    Parser.parseWithWarnings env (mwdocText name sl)
      = .ok (mwDoc name sl, mwdocReps sl, mwWarns [] (toQLines 2 sl)) := by
  have hlex := tokenize_mwdoc env false name sl hn hne hok hnfc
  rw [mwdocToks_bridge] at hlex
  have h := (mw_read_of_toks env (mwdocText name sl) _ _ name _ (stripFrontmatter_mwdoc env name sl) hlex
    (toQLines_wf sl hok 2) (mwMetaFirst_bridge sl 2 hm)).2
  rw [h, qnodes_bridge sl 0]
  rfl

/-! ### C07: receipts -/

/-- **C07 for multi-word bare values**: reading a document of the class (lenient entry point) yields the document of the
canonical lines, a lexer log without normalisation record, and a warning list whose `multi_word_coalesce` records are, in
reading order, exactly `mwReceipts`: ONE per multi-word line — the words as written, the string they became (joined by
one space), the line and the column of the first word — and none for a scalar line. -/
theorem C07_multiword_receipts (env : Env) (name : Str) (sl : List MLine)
    (hn : isEnvName name = true) (hne : name ≠ "END".toList) (hok : ∀ x ∈ sl, x.OK)
    (hm : mwFirstNotMeta sl = true)
    (hnfc : ∀ l ∈ splitLines (mwdocText name sl), env.nfc l = l) :
    ∃ reps warns, Parser.parseWithWarnings env (mwdocText name sl) = .ok (mwDoc name sl, reps, warns) ∧
      warns.filter isMultiWord = mwReceipts 2 sl ∧ reps.filter isNormalization = [] :=
  ⟨_, _, C07_multiword_read_lenient env name sl hn hne hok hm hnfc, mwWarns_filter sl 2 [], mwdocReps_norm sl⟩

/-- keys pairwise different, none of them `PATTERN` / `REGEX` (decidable): no duplicate-key and no auto-quote warning. -/
def mwQuietKeys (sl : List MLine) : Prop :=
  (sl.map MLine.key).Nodup ∧ ∀ x ∈ sl, x.key ≠ "PATTERN".toList ∧ x.key ≠ "REGEX".toList

instance (sl : List MLine) : Decidable (mwQuietKeys sl) := by unfold mwQuietKeys; infer_instance

theorem mw_qline_warns_quiet (x : MLine) (l : Nat) (hk : x.key ≠ "PATTERN".toList ∧ x.key ≠ "REGEX".toList) :
    (toQLine x l).warns = lineReceipt l x := by
  obtain ⟨key, v⟩ := x
  cases v with
  | sc v =>
    have hp : ((FLine.mk key v).toP l).plain = true := by
      simp only [Line.plain, FLine.toP, beq_eq_false_iff_ne.2 hk.1, beq_eq_false_iff_ne.2 hk.2, Bool.or_self, Bool.and_false,
        Bool.not_false]
    exact (Line.warns_eq_nil_iff _).2 hp
  | mw m =>
    have ha : ∀ (val : Str) (a b : Nat), autoquote key val a b = [] := by
      intro val a b
      simp only [autoquote, beq_eq_false_iff_ne.2 hk.1, beq_eq_false_iff_ne.2 hk.2, Bool.or_self, Bool.false_eq_true, if_false]
    simp only [toQLine, QLine.warns, WLine.warnsRev, ha, List.nil_append, List.reverse_cons, List.reverse_nil]
    rfl

theorem mwWarns_quiet (sl : List MLine) : ∀ (l : Nat) (kp : KeyPos), (sl.map MLine.key).Nodup →
    (∀ x ∈ sl, x.key ≠ "PATTERN".toList ∧ x.key ≠ "REGEX".toList) → (∀ x ∈ sl, kp.lookup x.key = none) →
    mwWarns kp (toQLines l sl) = mwReceipts l sl := by
  induction sl with
  | nil => intro l kp _ _ _; rfl
  | cons x r ih =>
    intro l kp hnd hk hkp
    have h0 : kp.lookup x.key = none := hkp x (List.mem_cons_self ..)
    have htp : trackPure kp x.key l = (kp ++ [(x.key, [l])], []) := by
      unfold trackPure; rw [h0]
    rw [List.map_cons, List.nodup_cons] at hnd
    simp only [toQLines, mwWarns, qkey_bridge, ql_bridge, htp, mw_qline_warns_quiet x l (hk x (List.mem_cons_self ..)),
      List.append_nil, mwReceipts]
    rw [ih (l + 1) _ hnd.2 (fun y hy => hk y (List.mem_cons_of_mem _ hy))]
    intro y hy
    apply lookup_append_none _ _ _ (hkp y (List.mem_cons_of_mem _ hy))
    have hne : y.key ≠ x.key := fun h => hnd.1 (h ▸ List.mem_map_of_mem hy)
    simp only [List.lookup_cons, List.lookup_nil]
    rw [beq_eq_false_iff_ne.2 hne]

/-- **… and nothing else**: with pairwise different keys, none of them `PATTERN` / `REGEX`, the warning list of
`parse_with_warnings` IS `mwReceipts` — exactly one `multi_word_coalesce` record per multi-word line, in order. -/
theorem C07_multiword_receipts_exact (env : Env) (name : Str) (sl : List MLine)
    (hn : isEnvName name = true) (hne : name ≠ "END".toList) (hok : ∀ x ∈ sl, x.OK)
    (hm : mwFirstNotMeta sl = true) (hq : mwQuietKeys sl)
    (hnfc : ∀ l ∈ splitLines (mwdocText name sl), env.nfc l = l) :
    Parser.parseWithWarnings env (mwdocText name sl) = .ok (mwDoc name sl, mwdocReps sl, mwReceipts 2 sl) := by
  rw [C07_multiword_read_lenient env name sl hn hne hok hm hnfc, mwWarns_quiet sl 2 [] hq.1 hq.2 (fun _ _ => rfl)]

/-! ### the canonical text -/

/-- a flat document seen as a document of the class (every value a scalar). -/
def mwOfFlat (ls : List FLine) : List MLine := ls.map fun ln => ⟨ln.key, .sc ln.v⟩

/-- the canonical form of a document of the class, as a document of the class: `KEY::"w0 w1 … wn"`. -/
def mwCanon (sl : List MLine) : List MLine := mwOfFlat (canonLines sl)

theorem mwLinesText_ofFlat (ls : List FLine) : mwLinesText (mwOfFlat ls) = linesText ls := by
  induction ls with
  | nil => rfl
  | cons ln r ih =>
    simp only [mwOfFlat, List.map_cons, mwLinesText, linesText] at ih ⊢
    rw [ih]; rfl

/-- the text of the canonical form is the canonical text of the flat document. -/
theorem mwdocText_ofFlat (name : Str) (ls : List FLine) : mwdocText name (mwOfFlat ls) = flatText name ls := by
  simp only [mwdocText, flatText, mwLinesText_ofFlat]

theorem mwCanonLines_ofFlat (ls : List FLine) : canonLines (mwOfFlat ls) = ls := by
  induction ls with
  | nil => rfl
  | cons ln r ih =>
    simp only [canonLines, mwOfFlat, List.map_cons, List.map_map] at ih ⊢
    rw [ih]; rfl

theorem mwReceipts_ofFlat (ls : List FLine) : ∀ l, mwReceipts l (mwOfFlat ls) = [] := by
  induction ls with
  | nil => intro l; rfl
  | cons ln r ih =>
    intro l
    have := ih (l + 1)
    simp only [mwOfFlat, List.map_cons, mwReceipts, lineReceipt, List.nil_append] at this ⊢
    exact this

theorem mwCanon_ok (sl : List MLine) (hok : ∀ x ∈ sl, x.OK) : ∀ x ∈ mwCanon sl, x.OK := by
  intro x hx
  simp only [mwCanon, mwOfFlat, canonLines, List.map_map, List.mem_map, Function.comp] at hx
  obtain ⟨y, hy, rfl⟩ := hx
  obtain ⟨key, v⟩ := y
  have := hok _ hy
  cases v with
  | sc v => exact this
  | mw m => exact ⟨this.1, this.2.1, trivial⟩

theorem mwCanon_keys (sl : List MLine) : (mwCanon sl).map MLine.key = sl.map MLine.key := by
  simp only [mwCanon, mwOfFlat, canonLines, List.map_map]
  rfl

theorem mwCanon_firstNotMeta (sl : List MLine) : mwFirstNotMeta (mwCanon sl) = mwFirstNotMeta sl := by
  cases sl <;> rfl

theorem mwCanon_quiet (sl : List MLine) (h : mwQuietKeys sl) : mwQuietKeys (mwCanon sl) := by
  refine ⟨by rw [mwCanon_keys]; exact h.1, ?_⟩
  intro x hx
  simp only [mwCanon, mwOfFlat, canonLines, List.map_map, List.mem_map, Function.comp] at hx
  obtain ⟨y, hy, rfl⟩ := hx
  exact h.2 y hy

theorem mwCanonLines_mwCanon (sl : List MLine) : canonLines (mwCanon sl) = canonLines sl := mwCanonLines_ofFlat _

/-- **(c) canonical input yields none**: the canonical text `KEY::"w0 w1 … wn"` of a document of the class reads (lenient
entry point) as the SAME document, with no `multi_word_coalesce` record and no lexer normalisation record. -/
theorem C07_multiword_canonical_none (env : Env) (name : Str) (sl : List MLine)
    (hn : isEnvName name = true) (hne : name ≠ "END".toList) (hok : ∀ x ∈ sl, x.OK)
    (hm : mwFirstNotMeta sl = true)
    (hnfc : ∀ l ∈ splitLines (flatText name (canonLines sl)), env.nfc l = l) :
    ∃ reps warns, Parser.parseWithWarnings env (flatText name (canonLines sl)) = .ok (mwDoc name sl, reps, warns) ∧
      warns.filter isMultiWord = [] ∧ reps.filter isNormalization = [] := by
  have hnfc' : ∀ l ∈ splitLines (mwdocText name (mwCanon sl)), env.nfc l = l := by
    rw [mwCanon, mwdocText_ofFlat]; exact hnfc
  obtain ⟨reps, warns, h1, h2, h3⟩ := C07_multiword_receipts env name (mwCanon sl) hn hne (mwCanon_ok sl hok)
    (by rw [mwCanon_firstNotMeta]; exact hm) hnfc'
  rw [mwCanon, mwdocText_ofFlat] at h1
  refine ⟨reps, warns, ?_, ?_, h3⟩
  · rw [h1]; simp only [mwDoc, mwCanonLines_ofFlat]
  · rw [h2, mwCanon, mwReceipts_ofFlat]

/-- … and, with quiet keys, no warning at all. -/
theorem C07_multiword_canonical_silent (env : Env) (name : Str) (sl : List MLine)
    (hn : isEnvName name = true) (hne : name ≠ "END".toList) (hok : ∀ x ∈ sl, x.OK)
    (hm : mwFirstNotMeta sl = true) (hq : mwQuietKeys sl)
    (hnfc : ∀ l ∈ splitLines (flatText name (canonLines sl)), env.nfc l = l) :
    ∃ reps, Parser.parseWithWarnings env (flatText name (canonLines sl)) = .ok (mwDoc name sl, reps, []) ∧
      reps.filter isNormalization = [] := by
  have hnfc' : ∀ l ∈ splitLines (mwdocText name (mwCanon sl)), env.nfc l = l := by
    rw [mwCanon, mwdocText_ofFlat]; exact hnfc
  have h1 := C07_multiword_receipts_exact env name (mwCanon sl) hn hne (mwCanon_ok sl hok)
    (by rw [mwCanon_firstNotMeta]; exact hm) (mwCanon_quiet sl hq) hnfc'
  rw [mwCanon, mwdocText_ofFlat, mwReceipts_ofFlat] at h1
  refine ⟨_, ?_, mwdocReps_norm (mwOfFlat (canonLines sl))⟩
  rw [h1]; simp only [mwDoc, mwCanonLines_ofFlat]

/-! ### C03: convergence -/

theorem mwCanonLines_emitOK (sl : List MLine) (hok : ∀ x ∈ sl, x.OK) (hem : ∀ x ∈ sl, x.EmitOK) :
    ∀ ln ∈ canonLines sl, ln.EmitOK := by
  intro ln hl
  obtain ⟨x, hx, rfl⟩ := List.mem_map.mp hl
  exact mwcanon_emitOK x (hok x hx) (hem x hx)

/-- **(d) C03 for multi-word bare values: both canonicalisers map the multi-word spelling to the canonical text**
`KEY::"w0 w1 … wn"` — the strict one (`emit(parse(x))`: the strict reader accepts multi-word values) and the lenient one
(`emit(parse_with_warnings(x)[0])`). -/
theorem C03_multiword_converge (env : Env) (name : Str) (sl : List MLine)
    (hn : isEnvName name = true) (hne : name ≠ "END".toList) (hok : ∀ x ∈ sl, x.OK) (hem : ∀ x ∈ sl, x.EmitOK)
    (hm : mwFirstNotMeta sl = true)
    (hnfc : ∀ l ∈ splitLines (mwdocText name sl), env.nfc l = l) :
    canonStrict env (mwdocText name sl) = .ok (flatText name (canonLines sl)) ∧
    canonLenient env (mwdocText name sl) = .ok (flatText name (canonLines sl)) :=
  C03.canon_of_read env _ _ _ _ _ (C07_multiword_read env name sl hn hne hok hm hnfc)
    (C07_multiword_read_lenient env name sl hn hne hok hm hnfc)
    (emit_flat env name _ (canonLines sl) (mwCanonLines_emitOK sl hok hem))

/-- **any two spacings of the same words (more generally: any two documents of the class with the same canonical lines)
canonicalise to identical bytes**, through both canonicalisers. -/
theorem C03_multiword_spacings_agree (env : Env) (name : Str) (sl₁ sl₂ : List MLine)
    (hsame : canonLines sl₁ = canonLines sl₂)
    (hn : isEnvName name = true) (hne : name ≠ "END".toList)
    (hok₁ : ∀ x ∈ sl₁, x.OK) (hem₁ : ∀ x ∈ sl₁, x.EmitOK) (hm₁ : mwFirstNotMeta sl₁ = true)
    (hok₂ : ∀ x ∈ sl₂, x.OK) (hem₂ : ∀ x ∈ sl₂, x.EmitOK) (hm₂ : mwFirstNotMeta sl₂ = true)
    (hnfc₁ : ∀ l ∈ splitLines (mwdocText name sl₁), env.nfc l = l)
    (hnfc₂ : ∀ l ∈ splitLines (mwdocText name sl₂), env.nfc l = l) :
    canonStrict env (mwdocText name sl₁) = canonStrict env (mwdocText name sl₂) ∧
    canonLenient env (mwdocText name sl₁) = canonLenient env (mwdocText name sl₂) := by
  have h1 := C03_multiword_converge env name sl₁ hn hne hok₁ hem₁ hm₁ hnfc₁
  have h2 := C03_multiword_converge env name sl₂ hn hne hok₂ hem₂ hm₂ hnfc₂
  rw [← hsame] at h2
  exact ⟨by rw [h1.1, h2.1], by rw [h1.2, h2.2]⟩

/-- the canonical text is a fixed point of both canonicalisers. -/
theorem C03_multiword_canonical_fixed (env : Env) (name : Str) (sl : List MLine)
    (hn : isEnvName name = true) (hne : name ≠ "END".toList) (hok : ∀ x ∈ sl, x.OK) (hem : ∀ x ∈ sl, x.EmitOK)
    (hm : mwFirstNotMeta sl = true)
    (hnfc : ∀ l ∈ splitLines (flatText name (canonLines sl)), env.nfc l = l) :
    canonStrict env (flatText name (canonLines sl)) = .ok (flatText name (canonLines sl)) ∧
    canonLenient env (flatText name (canonLines sl)) = .ok (flatText name (canonLines sl)) := by
  have hnfc' : ∀ l ∈ splitLines (mwdocText name (mwCanon sl)), env.nfc l = l := by
    rw [mwCanon, mwdocText_ofFlat]; exact hnfc
  have hem' : ∀ x ∈ mwCanon sl, x.EmitOK := by
    intro x hx
    simp only [mwCanon, mwOfFlat, List.mem_map] at hx
    obtain ⟨ln, hln, rfl⟩ := hx
    exact mwCanonLines_emitOK sl hok hem ln hln
  have h := C03_multiword_converge env name (mwCanon sl) hn hne (mwCanon_ok sl hok) hem'
    (by rw [mwCanon_firstNotMeta]; exact hm) hnfc'
  rw [mwCanonLines_mwCanon, mwCanon, mwdocText_ofFlat] at h
  exact h

/-! ### non-vacuity -/

/-- a two-word value, a five-word value with uneven spacing, a plain value. -/
def mwEx : List MLine :=
  [ ⟨"K".toList, .mw ⟨"two".toList, [(0, "words".toList)]⟩⟩,
    ⟨"L".toList, .mw ⟨"a".toList, [(0, "b".toList), (2, "c.d".toList), (0, "e_1".toList), (1, "f-g".toList)]⟩⟩,
    ⟨"M".toList, .sc (.bare "plain".toList)⟩ ]

def mwExText : Str := "===D===\nK::two words\nL::a b   c.d e_1  f-g\nM::plain\n===END===\n".toList
def mwExCanon : Str := "===D===\nK::\"two words\"\nL::\"a b c.d e_1 f-g\"\nM::plain\n===END===\n".toList

theorem mwEx_ok : ∀ x ∈ mwEx, x.OK := by
  intro x h
  simp only [mwEx, List.mem_cons, List.mem_nil_iff, or_false] at h
  rcases h with rfl | rfl | rfl <;> (unfold MLine.OK MVal.OK; simp <;> first | decide | (unfold FScalar.OK; decide))

theorem mwEx_emit : ∀ x ∈ mwEx, x.EmitOK := by
  intro x h
  simp only [mwEx, List.mem_cons, List.mem_nil_iff, or_false] at h
  rcases h with rfl | rfl | rfl <;> (unfold MLine.EmitOK; simp <;> (unfold FLine.EmitOK; simp <;> decide))

example : mwdocText "D".toList mwEx = mwExText := by decide +kernel
example : flatText "D".toList (canonLines mwEx) = mwExCanon := by decide +kernel
example : mwQuietKeys mwEx := by decide

/-- (a) the lexer, by the theorem; the tokens as literals: one IDENTIFIER per word at its own column. -/
example : tokenize Env.ascii mwExText false = .ok (mwdocToks "D".toList mwEx, mwdocReps mwEx) := by
  have h := C07_multiword_lexes Env.ascii false "D".toList mwEx (by decide) (by decide) mwEx_ok (fun _ _ => rfl)
  have e : mwdocText "D".toList mwEx = mwExText := by decide +kernel
  rw [e] at h; exact h
example : mwdocToks "D".toList mwEx =
    [ tEnvStart "D".toList 1 1, tNewline 1 8,
      tIdent "K".toList 2 1, tAssign 2 2, tIdent "two".toList 2 4, tIdent "words".toList 2 8, tNewline 2 13,
      tIdent "L".toList 3 1, tAssign 3 2, tIdent "a".toList 3 4, tIdent "b".toList 3 6, tIdent "c.d".toList 3 10,
        tIdent "e_1".toList 3 14, tIdent "f-g".toList 3 19, tNewline 3 22,
      tIdent "M".toList 4 1, tAssign 4 2, tIdent "plain".toList 4 4, tNewline 4 9,
      tEnvEnd 5 1, tNewline 5 10, tEof 6 1 ] := by decide +kernel

/-- (b) the receipts owed, as literals: one per multi-word line, at the first word, the words joined by ONE space. -/
example : mwReceipts 2 mwEx =
    [ .multiWord ["two".toList, "words".toList] "two words".toList [] 2 4,
      .multiWord ["a".toList, "b".toList, "c.d".toList, "e_1".toList, "f-g".toList] "a b c.d e_1 f-g".toList [] 3 4 ] := by
  decide +kernel
example : (mwReceipts 2 mwEx).length = 2 := by rw [mwReceipts_length]; rfl

/-- the theorems applied (not evaluated). -/
example : Parser.parseWithWarnings Env.ascii mwExText = .ok (mwDoc "D".toList mwEx, mwdocReps mwEx, mwReceipts 2 mwEx) := by
  have h := C07_multiword_receipts_exact Env.ascii "D".toList mwEx (by decide) (by decide) mwEx_ok (by decide) (by decide) (fun _ _ => rfl)
  have e : mwdocText "D".toList mwEx = mwExText := by decide +kernel
  rw [e] at h; exact h

example : ∃ reps warns, Parser.parseWithWarnings Env.ascii (mwdocText "D".toList mwEx) = .ok (mwDoc "D".toList mwEx, reps, warns) ∧
    warns.filter isMultiWord = mwReceipts 2 mwEx ∧ reps.filter isNormalization = [] :=
  C07_multiword_receipts Env.ascii "D".toList mwEx (by decide) (by decide) mwEx_ok (by decide) (fun _ _ => rfl)

example : Parser.parse Env.ascii (mwdocText "D".toList mwEx) = .ok (mwDoc "D".toList mwEx) :=
  C07_multiword_read Env.ascii "D".toList mwEx (by decide) (by decide) mwEx_ok (by decide) (fun _ _ => rfl)

example : ∃ reps, Parser.parseWithWarnings Env.ascii (flatText "D".toList (canonLines mwEx)) = .ok (mwDoc "D".toList mwEx, reps, []) ∧
    reps.filter isNormalization = [] :=
  C07_multiword_canonical_silent Env.ascii "D".toList mwEx (by decide) (by decide) mwEx_ok (by decide) (by decide) (fun _ _ => rfl)

example : ∃ reps warns, Parser.parseWithWarnings Env.ascii (flatText "D".toList (canonLines mwEx)) = .ok (mwDoc "D".toList mwEx, reps, warns) ∧
    warns.filter isMultiWord = [] ∧ reps.filter isNormalization = [] :=
  C07_multiword_canonical_none Env.ascii "D".toList mwEx (by decide) (by decide) mwEx_ok (by decide) (fun _ _ => rfl)

example : canonStrict Env.ascii mwExText = .ok mwExCanon ∧ canonLenient Env.ascii mwExText = .ok mwExCanon := by
  have h := C03_multiword_converge Env.ascii "D".toList mwEx (by decide) (by decide) mwEx_ok mwEx_emit (by decide) (fun _ _ => rfl)
  have e1 : mwdocText "D".toList mwEx = mwExText := by decide +kernel
  have e2 : flatText "D".toList (canonLines mwEx) = mwExCanon := by decide +kernel
  rw [e1, e2] at h; exact h

example : canonStrict Env.ascii (flatText "D".toList (canonLines mwEx)) = .ok (flatText "D".toList (canonLines mwEx)) ∧
    canonLenient Env.ascii (flatText "D".toList (canonLines mwEx)) = .ok (flatText "D".toList (canonLines mwEx)) :=
  C03_multiword_canonical_fixed Env.ascii "D".toList mwEx (by decide) (by decide) mwEx_ok mwEx_emit (by decide) (fun _ _ => rfl)

/-- all spacings symbolic: `K::two words here` with ANY positive number of spaces in either gap canonicalises to
`K::"two words here"`. -/
example (g1 g2 : Nat) :
    canonLenient Env.ascii (mwdocText "D".toList [⟨"K".toList, .mw ⟨"two".toList, [(g1, "words".toList), (g2, "here".toList)]⟩⟩])
      = .ok "===D===\nK::\"two words here\"\n===END===\n".toList :=
  (C03_multiword_converge Env.ascii "D".toList _ (by decide) (by decide)
    (by
      intro x hx; simp only [List.mem_singleton] at hx; subst hx
      refine ⟨(by decide : isIdentifierText "K".toList = true), (by decide : hasReservedPrefix "K".toList = false),
        (by decide : wordOK "two".toList), ?_, by simp⟩
      intro p hp
      simp only [List.mem_cons, List.mem_nil_iff, or_false] at hp
      rcases hp with rfl | rfl
      · exact (by decide : wordOK "words".toList)
      · exact (by decide : wordOK "here".toList))
    (by intro x hx; simp only [List.mem_singleton] at hx; subst hx; trivial)
    rfl (fun _ _ => rfl)).2

/-- … and its receipt, whatever the spacing: the words, `two words here`, line 2, column 4. -/
example (g1 g2 : Nat) :
    mwReceipts 2 [⟨"K".toList, .mw ⟨"two".toList, [(g1, "words".toList), (g2, "here".toList)]⟩⟩]
      = [.multiWord ["two".toList, "words".toList, "here".toList] "two words here".toList [] 2 4] := rfl

/-- a multi-word line among duplicate keys and under `PATTERN` (outside `mwQuietKeys`): the other warnings are interleaved,
the `multi_word_coalesce` records are still exactly one per multi-word line. -/
def mwEx2 : List MLine :=
  [ ⟨"K".toList, .mw ⟨"two".toList, [(0, "words".toList)]⟩⟩, ⟨"K".toList, .mw ⟨"again".toList, [(0, "here".toList)]⟩⟩,
    ⟨"PATTERN".toList, .mw ⟨"x".toList, [(0, "y".toList)]⟩⟩ ]
example : mwWarns [] (toQLines 2 mwEx2) =
    [ .multiWord ["two".toList, "words".toList] "two words".toList [] 2 4,
      .multiWord ["again".toList, "here".toList] "again here".toList [] 3 4,
      .duplicateKey "K".toList 2 3 [2, 3],
      .multiWord ["x".toList, "y".toList] "x y".toList [] 4 10,
      .patternAutoquote "PATTERN".toList "x y".toList 4 1 ] := by decide +kernel

/-! ### the whole model evaluated on the concrete texts (independent of the theorems) -/

example : (match Parser.parseWithWarnings Env.ascii mwExText with
    | .ok (d, reps, ws) => docEqB d (mwDoc "D".toList mwEx) && reps == [] && ws == mwReceipts 2 mwEx
    | .error _ => false) = true := by decide +kernel
example : (match Parser.parseWithWarnings Env.ascii mwExCanon with
    | .ok (d, reps, ws) => docEqB d (mwDoc "D".toList mwEx) && reps == [] && ws == []
    | .error _ => false) = true := by decide +kernel
example : isOkDoc (Parser.parse Env.ascii mwExText) (mwDoc "D".toList mwEx) = true := by decide +kernel
example : isOkStr (canonLenient Env.ascii mwExText) mwExCanon = true := by decide +kernel
example : isOkStr (canonStrict Env.ascii mwExText) mwExCanon = true := by decide +kernel
example : isOkStr (canonLenient Env.ascii mwExCanon) mwExCanon = true := by decide +kernel
example : isOkStr (canonLenient Env.ascii "===D===\nK::two   words\n===END===\n".toList) "===D===\nK::\"two words\"\n===END===\n".toList = true := by
  decide +kernel
example : (match tokenize Env.ascii mwExText with
    | .ok p => p == (mwdocToks "D".toList mwEx, mwdocReps mwEx) | .error _ => false) = true := by decide +kernel

/-! ### the hypotheses are necessary: the model at the excluded points (the real reader does the same, see the report) -/

/-- the warnings of `parse_with_warnings` on a text (model), `[]` on error. -/
def mwWarnsOf (t : String) : List Warning :=
  match Parser.parseWithWarnings Env.ascii t.toList with | .ok (_, _, ws) => ws | .error _ => []

/-- a reserved word as a FURTHER word (`wordOK` fails): still coalesced, still one receipt (BOOLEAN is a value token). -/
example : isOkStr (canonLenient Env.ascii "===D===\nK::two true\n===END===\n".toList) "===D===\nK::\"two true\"\n===END===\n".toList = true := by
  decide +kernel
example : mwWarnsOf "===D===\nK::two true\n===END===\n" = [.multiWord ["two".toList, "true".toList] "two true".toList [] 2 4] := by
  decide +kernel
/-- a reserved word as the HEAD: the BOOLEAN branch of `parse_value`; same result, the receipt carries the context
`boolean_multiword`. -/
example : mwWarnsOf "===D===\nK::true words\n===END===\n"
    = [.multiWord ["true".toList, "words".toList] "true words".toList "boolean_multiword".toList 2 4] := by decide +kernel
/-- a number among the words: coalesced with its RAW text (`1.50` keeps its zero), one receipt. -/
example : mwWarnsOf "===D===\nK::two 1.50 words\n===END===\n"
    = [.multiWord ["two".toList, "1.50".toList, "words".toList] "two 1.50 words".toList [] 2 4] := by decide +kernel
/-- a number as the head: context `number_identifier`. -/
example : mwWarnsOf "===D===\nK::42 words\n===END===\n"
    = [.multiWord ["42".toList, "words".toList] "42 words".toList "number_identifier".toList 2 4] := by decide +kernel
/-- `vs` between the words is the tension operator: the value is the expression `two⇌words` (no multi-word receipt; the
lexer logs the `vs` → `⇌` normalisation). -/
example : isOkStr (canonLenient Env.ascii "===D===\nK::two vs words\n===END===\n".toList) "===D===\nK::two⇌words\n===END===\n".toList = true := by
  decide +kernel
/-- an operator after the words: the words so far are receipted (`expression_path`), the value is `two words→more`. -/
example : isOkStr (canonLenient Env.ascii "===D===\nK::two words->more\n===END===\n".toList) "===D===\nK::\"two words→more\"\n===END===\n".toList = true := by
  decide +kernel
example : mwWarnsOf "===D===\nK::two words->more\n===END===\n"
    = [.multiWord ["two".toList, "words".toList] "two words".toList "expression_path".toList 2 4] := by decide +kernel
/-- an operator INSIDE the words: everything after the operator is concatenated WITHOUT spaces (`b words` → `bwords`);
the receipt covers `two a` only. -/
example : isOkStr (canonLenient Env.ascii "===D===\nK::two a+b words\n===END===\n".toList) "===D===\nK::\"two a⊕bwords\"\n===END===\n".toList = true := by
  decide +kernel
example : mwWarnsOf "===D===\nK::two a+b words\n===END===\n"
    = [.multiWord ["two".toList, "a".toList] "two a".toList "expression_path".toList 2 4] := by decide +kernel
/-- a word followed by `::` — the words up to it are the value, the `::` is stepped over, the rest is dropped with its own
receipt (`bare_line_dropped`). -/
example : mwWarnsOf "===D===\nK::two words::x\n===END===\n"
    = [.multiWord ["two".toList, "words".toList] "two words".toList [] 2 4, .bareLineDropped "x".toList 2 15] := by decide +kernel
/-- trailing spaces and a trailing comment are harmless (outside the class, same value, same receipt). -/
example : mwWarnsOf "===D===\nK::two words   \n===END===\n" = [.multiWord ["two".toList, "words".toList] "two words".toList [] 2 4] := by
  decide +kernel
example : isOkStr (canonLenient Env.ascii "===D===\nK::two words // note\n===END===\n".toList)
    "===D===\nK::\"two words\" // note\n===END===\n".toList = true := by decide +kernel
/-- a word that ends in a hyphen: lexer error E005 at the hyphen. -/
example : (match canonLenient Env.ascii "===D===\nK::two words-\n===END===\n".toList with
    | .error e => e == .lexer "E005".toList 2 13 | .ok _ => false) = true := by decide +kernel
/-- a word with an `<annotation>` (`hasAnnotation`): the unified accumulator returns a LIST `[two, words<x>, more]` and
pushes NO warning. -/
example : isOkStr (canonLenient Env.ascii "===D===\nK::two words<x> more\n===END===\n".toList)
    "===D===\nK::[\n  two,\n  words<x>,\n  more\n]\n===END===\n".toList = true := by decide +kernel
example : mwWarnsOf "===D===\nK::two words<x> more\n===END===\n" = [] := by decide +kernel
/-- an adjacent bracket after a word is turned into an annotation; the receipt's "original" shows the rewritten word. -/
example : mwWarnsOf "===D===\nK::two words[x]\n===END===\n"
    = [.multiWord ["two".toList, "words<x>".toList] "two words<x>".toList [] 2 4] := by decide +kernel
/-- first key `META`: rejected with E001 at the `::`. -/
example : (match canonLenient Env.ascii "===D===\nMETA::two words\n===END===\n".toList with
    | .error e => e == .parser "E001".toList 2 5 | .ok _ => false) = true := by decide +kernel
/-- brace-for-angle: `parse` / `parse_with_warnings` tokenize in the NON-lenient lexer mode, so `NAME{q}` is an error
(E005 at the brace) — the repair exists only in `tokenize(…, lenient=True)`. -/
example : (match canonLenient Env.ascii "===D===\nK::NAME{q}\n===END===\n".toList with
    | .error e => e == .lexer "E005".toList 2 8 | .ok _ => false) = true := by decide +kernel

end Octave.C07
