/-
C01 / C02 / C04 / C15 on flat documents whose line values are NESTED LISTS — the document-level statements, proved for every
document of the class:

  an envelope `===NAME===`, any number of lines `KEY::value`, `===END===`; a value is an `NItem`: a leaf — an `FScalar` (a string the
  emitter quotes, an identifier-shaped bare word, a boolean, null, an integer of either sign) or `num s`, a FLOAT written with a
  canonical lexeme `s` (its own `repr`: `1.5`, `-2.5`, `3e-07`, `-0.0`, `1e+16`) — or a list of such items, nested to ANY depth
  below the reader's hard limit of 100 open brackets, of any length, the empty list included, at any position.

The layout the emitter writes (`Nest.emitValue_nitem`, `Nest.NItem.text`): per list, `nlMulti` = ≥ 3 items, or an
annotation-shaped string item, or an item that is itself a LIST.  Such a list is written one item per line behind `2·(level+1)`
spaces with its closing bracket behind `2·level` spaces, `level` = the number of multi-line lists around it; every other list is
written on one line `[a,b]`.  So a list that contains a list is multi-line at every depth, and an inner list is inline exactly when
it is short (≤ 2 items) and holds plain leaves only: `K::[a,[b,[c,"x y"]],1.5,-2,[]]` is written
`K::[⏎  a,⏎  [⏎    b,⏎    [c,"x y"]⏎  ],⏎  1.5,⏎  -2,⏎  []⏎]`.

  * `C01_nested_canonical_is_readable`  the strict reader returns exactly the document `ndocAt` (nodes positioned at their keys,
                                        lines counted through the multi-line lists); `…_lenient`: `parse_with_warnings` returns the
                                        same document (its warnings — W_DEEP_NESTING from 5 open brackets on — are not spelled out);
  * `C01_nested_fixed_point`            emit → strict read → emit: the same bytes; `C01_nested_canon_fixed`: both canonicalisers
                                        return the canonical text unchanged;
  * `C02_nested_content_preserved`      the document read back has the same name, the same keys in order and, per line, the value
                                        `NItem.value`: every list with its items in order and typed, at every depth
                                        (`nlvalue_list`); `C02_nested_item_preserved`: the item at ANY path of indices is read back
                                        at the same path with its type;
  * `C04_nested_number_survives`        a float item `num s` at any path is read back as `Value.float s`, an integer item (negative
                                        ones included) as the same `Value.int`, at the same path;
  * `C15_nested_emit_injective`         two such documents with the same canonical text have the same name, keys and values.

It composes `Lemmas/NestLex` (lexer: bracket stack pushed / popped per bracket, INDENT / NEWLINE inside the brackets at every level,
floats through `C13.step_numParts`), `Lemmas/NestBridge` (emitter) and `Lemmas/NestParse` (parser: `reads_nitem`, body loop
`parseDocument_nv`).

Hypotheses (all decidable except `hnfc`): `isEnvName name`, `name ≠ "END"`; `NLine.OK`: keys and bare words identifier-shaped without a
reserved-word prefix, integers of at most 4300 digits, a float lexeme is a full match of the NUMBER pattern, not an int lexeme, and
`repr(float(s)) = s` (asked of `Env`); `NLine.EmitOK`: strings quoted exactly when `needs_quotes` says so, a bare word that is the
line's own value does not sit under `PATTERN` / `REGEX`; `nest < 100` (the reader refuses the 100th open bracket: E-depth error);
the first key is not `META`; NFC leaves every line of the text unchanged.
No hypothesis on length, depth below 100, item kinds or positions of the nested lists.  Bare words are identifier-shaped, so no
`∧` token occurs: the reader's holographic re-reading (`[[a∧b]]`, finding C15N1 / F4) cannot apply — `Nest.Reads.nocons`.
-/
import Octave.Lemmas.NestParse
import Octave.Props.C01lists
namespace Octave.C01
open Octave Lexer Emitter
open Octave.ListDoc (toksReps)
open Octave.Nest

theorem nlStripFrontmatter (env : Env) (name : Str) (ls : List NLine) :
    Parser.stripFrontmatter env (ndocText name ls) = (ndocText name ls, none) := by
  unfold Parser.stripFrontmatter
  have : startsWith "---".toList (ndocText name ls) = false := by
    simp [ndocText, startsWith, List.isPrefixOf]
  rw [this]; rfl

/-- the hypotheses on the text side. -/
structure NestOK (env : Env) (name : Str) (ls : List NLine) : Prop where
  envName : isEnvName name = true
  notEnd : name ≠ "END".toList
  ok : ∀ x ∈ ls, x.OK env
  depth : ∀ x ∈ ls, x.v.nest < 100
  notMeta : nfirstNotMeta ls = true
  nfc : ∀ l ∈ splitLines (ndocText name ls), env.nfc l = l

/-- **the canonical text is read by the strict reader as exactly the document**: name, keys in order, every value with its
items in order and typed at every depth, nodes positioned at their keys. -/
theorem C01_nested_canonical_is_readable (env : Env) (name : Str) (ls : List NLine) (h : NestOK env name ls) :
    Parser.parse env (ndocText name ls) = .ok (ndocAt name ls) := by
  have hlex := tokenize_ndoc env false name ls h.envName h.notEnd h.ok h.nfc
  have hs := nlStripFrontmatter env name ls
  have hlex' : Lexer.tokenize env (Parser.stripFrontmatter env (ndocText name ls)).1
      = .ok (ndocToks name ls, toksReps (ndocToks name ls)) := by rw [hs]; exact hlex
  obtain ⟨st', h1⟩ := parseDocument_ndoc env true name ls h.depth h.notMeta
  rw [C02.parse_eq_parseToks env _ _ _ hlex', hs]
  unfold C02.parseToks
  simp only [h1, bind, Except.bind, pure, Except.pure, Except.map]
  rfl

/-- the lenient entry point reads the same document, with exactly the identifier notes of the lexer as receipts; the parser
warnings (W_DEEP_NESTING when 5 or more brackets are open; duplicate keys; a bare scalar under `PATTERN`) are not spelled out. -/
theorem C01_nested_canonical_is_readable_lenient (env : Env) (name : Str) (ls : List NLine) (h : NestOK env name ls) :
    ∃ ws, Parser.parseWithWarnings env (ndocText name ls) = .ok (ndocAt name ls, toksReps (ndocToks name ls), ws) := by
  have hlex := tokenize_ndoc env false name ls h.envName h.notEnd h.ok h.nfc
  have hs := nlStripFrontmatter env name ls
  have hlex' : Lexer.tokenize env (Parser.stripFrontmatter env (ndocText name ls)).1
      = .ok (ndocToks name ls, toksReps (ndocToks name ls)) := by rw [hs]; exact hlex
  obtain ⟨st', h1⟩ := parseDocument_ndoc env false name ls h.depth h.notMeta
  refine ⟨st'.warnings.reverse, ?_⟩
  rw [C02.parseWithWarnings_eq_parseToks env _ _ _ hlex', hs]
  unfold C02.parseToksWithWarnings
  simp only [h1, bind, Except.bind, pure, Except.pure, Except.map]
  rfl

/-- **C01: the canonical text is a fixed point.**  Emit the document (whatever positions its nodes carry), read the text with
the strict reader, emit again: the same bytes. -/
theorem C01_nested_fixed_point (env : Env) (name : Str) (ls : List NLine) (nodes : List Node) (hnodes : NNodesOf ls nodes)
    (h : NestOK env name ls) (hem : ∀ x ∈ ls, x.EmitOK) :
    ∃ text d', emit env { name := name, sections := nodes } = some text ∧ Parser.parse env text = .ok d' ∧
      emit env d' = some text :=
  ⟨ndocText name ls, ndocAt name ls, emit_ndoc env name hnodes hem, C01_nested_canonical_is_readable env name ls h,
    emit_ndoc env name (nnodesOf_nnodesAt ls 2) hem⟩

/-- both canonicalisers return the canonical text unchanged. -/
theorem C01_nested_canon_fixed (env : Env) (name : Str) (ls : List NLine) (h : NestOK env name ls) (hem : ∀ x ∈ ls, x.EmitOK) :
    canonStrict env (ndocText name ls) = .ok (ndocText name ls) ∧ canonLenient env (ndocText name ls) = .ok (ndocText name ls) := by
  obtain ⟨ws, h2⟩ := C01_nested_canonical_is_readable_lenient env name ls h
  exact canon_of_read' env _ _ _ _ _ (C01_nested_canonical_is_readable env name ls h) h2
    (emit_ndoc env name (nnodesOf_nnodesAt ls 2) hem)

theorem nnodesAt_length (ls : List NLine) : ∀ l, (nnodesAt l ls).length = ls.length := by
  induction ls with
  | nil => intro l; rfl
  | cons x r ih => intro l; simp [nnodesAt, ih]

theorem nnodesAt_get (ls : List NLine) : ∀ (l i : Nat) (h : i < ls.length), ∃ l', (nnodesAt l ls)[i]? = some (ls[i].node l' 1) := by
  induction ls with
  | nil => intro l i h; simp at h
  | cons x r ih =>
    intro l i h
    cases i with
    | zero => exact ⟨l, by simp [nnodesAt]⟩
    | succ j =>
      have hj : j < r.length := by simpa using h
      obtain ⟨l', hl'⟩ := ih (l + x.height) j hj
      exact ⟨l', by simpa [nnodesAt] using hl'⟩

/-- **C02: reading the canonical text yields exactly the content that was written** — the name, the keys in order, every value
`NItem.value`: a leaf with its type, a list as the list of its items' values in order, at every depth; nothing else appears. -/
theorem C02_nested_content_preserved (env : Env) (name : Str) (ls : List NLine) (nodes : List Node) (hnodes : NNodesOf ls nodes)
    (h : NestOK env name ls) (hem : ∀ x ∈ ls, x.EmitOK) :
    ∃ text d', emit env { name := name, sections := nodes } = some text ∧ Parser.parse env text = .ok d' ∧
      d'.name = name ∧ d'.metaKv = [] ∧ d'.hasSeparator = false ∧ d'.trailingComments = [] ∧ d'.grammarVersion = none ∧
      d'.rawFrontmatter = none ∧ d'.sections.length = ls.length ∧
      ∀ i (hi : i < ls.length), ∃ l c, d'.sections[i]? = some (.assign ls[i].key ls[i].v.value l c [] none) := by
  refine ⟨ndocText name ls, ndocAt name ls, emit_ndoc env name hnodes hem, C01_nested_canonical_is_readable env name ls h,
    rfl, rfl, rfl, rfl, rfl, rfl, ?_, ?_⟩
  · show (nnodesAt 2 ls).length = ls.length
    rw [nnodesAt_length]
  · intro i hi
    obtain ⟨l', hl'⟩ := nnodesAt_get ls 2 i hi
    exact ⟨l', 1, hl'⟩

/-- … where the value of a list is the list of its items' values, in order, with their types — at every depth. -/
theorem nlvalue_list (xs : List NItem) : (NItem.list xs).value = .list (xs.map NItem.value) := by
  simp only [NItem.value, nlValues_eq_map]
theorem nlvalue_scalar (s : FScalar) : (NItem.scalar s).value = s.value := by
  simp only [NItem.value, NLeaf.value, NLeaf.toP]; exact ListDoc.scalar_val_toP s
theorem nlvalue_num (s : Str) : (NItem.num s).value = .float s := rfl

/-! ### items at any depth -/

/-- the item at a path of indices. -/
def nlItemAt : NItem → List Nat → Option NItem
  | x, [] => some x
  | .list xs, i :: p => match xs[i]? with | some y => nlItemAt y p | none => none
  | .leaf _, _ :: _ => none

/-- the value at a path of indices. -/
def nlValAt : Value → List Nat → Option Value
  | v, [] => some v
  | .list vs, i :: p => match vs[i]? with | some w => nlValAt w p | none => none
  | _, _ :: _ => none

theorem nlValAt_value : ∀ (p : List Nat) (x : NItem), nlValAt x.value p = (nlItemAt x p).map NItem.value := by
  intro p
  induction p with
  | nil => intro x; simp [nlValAt, nlItemAt]
  | cons i p ih =>
    intro x
    cases x with
    | leaf a =>
      have : ∀ v : Value, (∀ vs, v ≠ .list vs) → nlValAt v (i :: p) = none := by
        intro v hv; cases v <;> first | rfl | exact absurd rfl (hv _)
      rw [this]
      · rfl
      · intro vs
        cases a with
        | sc s => cases s <;> simp [NItem.value, NLeaf.value, NLeaf.toP, FScalar.toP, FlatParse.Scalar.val]
        | num s => simp [NItem.value, NLeaf.value, NLeaf.toP, FlatParse.Scalar.val]
    | list xs =>
      rw [nlvalue_list]
      simp only [nlValAt, nlItemAt, List.getElem?_map]
      cases xs[i]? with
      | none => rfl
      | some y => simpa using ih y

/-- **the item at any path of any line is read back at the same path, with its type.** -/
theorem C02_nested_item_preserved (env : Env) (name : Str) (ls : List NLine) (h : NestOK env name ls)
    (i : Nat) (hi : i < ls.length) (p : List Nat) (x : NItem) (hx : nlItemAt ls[i].v p = some x) :
    ∃ d' v l c, Parser.parse env (ndocText name ls) = .ok d' ∧ d'.sections[i]? = some (.assign ls[i].key v l c [] none) ∧
      nlValAt v p = some x.value := by
  obtain ⟨l', hl'⟩ := nnodesAt_get ls 2 i hi
  refine ⟨ndocAt name ls, ls[i].v.value, l', 1, C01_nested_canonical_is_readable env name ls h, hl', ?_⟩
  rw [nlValAt_value, hx]; rfl

/-- **C04: a number at any depth survives.**  A float item written with its canonical lexeme `s` is read back as the float
whose `repr` is `s`; an integer item (negative ones included) as the same integer — at the same path of the same line. -/
theorem C04_nested_number_survives (env : Env) (name : Str) (ls : List NLine) (h : NestOK env name ls)
    (i : Nat) (hi : i < ls.length) (p : List Nat) :
    (∀ s, nlItemAt ls[i].v p = some (.num s) →
      ∃ d' v l c, Parser.parse env (ndocText name ls) = .ok d' ∧ d'.sections[i]? = some (.assign ls[i].key v l c [] none) ∧
        nlValAt v p = some (.float s)) ∧
    (∀ n : Int, nlItemAt ls[i].v p = some (.scalar (.int n)) →
      ∃ d' v l c, Parser.parse env (ndocText name ls) = .ok d' ∧ d'.sections[i]? = some (.assign ls[i].key v l c [] none) ∧
        nlValAt v p = some (.int n)) := by
  constructor
  · intro s hs
    exact C02_nested_item_preserved env name ls h i hi p _ hs
  · intro n hn
    exact C02_nested_item_preserved env name ls h i hi p _ hn

/-! ### the emitter is injective on these documents -/

theorem nnodesAt_inj : ∀ (a b : List NLine) (l₁ l₂ : Nat), nnodesAt l₁ a = nnodesAt l₂ b →
    a.map (fun x => (x.key, x.v.value)) = b.map (fun x => (x.key, x.v.value)) := by
  intro a
  induction a with
  | nil =>
    intro b l₁ l₂ h
    cases b with
    | nil => rfl
    | cons y r => simp [nnodesAt] at h
  | cons x r ih =>
    intro b l₁ l₂ h
    cases b with
    | nil => simp [nnodesAt] at h
    | cons y r₂ =>
      simp only [nnodesAt, List.cons.injEq, NLine.node, Node.assign.injEq] at h
      obtain ⟨⟨hk, hv, _⟩, hr⟩ := h
      simp only [List.map_cons, List.cons.injEq, Prod.mk.injEq]
      exact ⟨⟨hk, hv⟩, ih r₂ _ _ hr⟩

/-- **Two such documents with the same canonical text have the same content** (name, keys in order, values with all their
items in order and typed at every depth): `emit` is injective up to node positions.  Proof: the strict reader is a left inverse. -/
theorem C15_nested_emit_injective (env : Env) (n₁ n₂ : Str) (l₁ l₂ : List NLine) (ns₁ ns₂ : List Node)
    (hno₁ : NNodesOf l₁ ns₁) (hno₂ : NNodesOf l₂ ns₂)
    (h₁ : NestOK env n₁ l₁) (he₁ : ∀ x ∈ l₁, x.EmitOK) (h₂ : NestOK env n₂ l₂) (he₂ : ∀ x ∈ l₂, x.EmitOK)
    (h : emit env { name := n₁, sections := ns₁ } = emit env { name := n₂, sections := ns₂ }) :
    n₁ = n₂ ∧ l₁.map (fun ln => (ln.key, ln.v.value)) = l₂.map (fun ln => (ln.key, ln.v.value)) := by
  rw [emit_ndoc env n₁ hno₁ he₁, emit_ndoc env n₂ hno₂ he₂] at h
  have ht : ndocText n₁ l₁ = ndocText n₂ l₂ := by simpa using h
  have r₁ := C01_nested_canonical_is_readable env n₁ l₁ h₁
  have r₂ := C01_nested_canonical_is_readable env n₂ l₂ h₂
  rw [ht, r₂] at r₁
  have hd : ndocAt n₂ l₂ = ndocAt n₁ l₁ := by simpa using r₁
  simp only [ndocAt, Document.mk.injEq] at hd
  have := nnodesAt_inj _ _ _ _ hd.2.2.2.1
  exact ⟨hd.1.symm, this.symm⟩


/-! ### the layout the emitter chooses (what `ndocText` spells) -/

/-- a list that holds a list is written one item per line — at every depth. -/
theorem nlMulti_of_list_item (xs ys : List NItem) (h : NItem.list ys ∈ xs) : nlMulti xs = true := by
  simp only [nlMulti, Bool.or_eq_true, List.any_eq_true]
  exact Or.inl ⟨_, h, rfl⟩

/-- a list written on one line holds at most two items, all of them leaves that are no annotation-shaped strings. -/
theorem nlInline_items (xs : List NItem) (h : nlMulti xs = false) :
    xs.length ≤ 2 ∧ ∀ x ∈ xs, ∃ a, x = .leaf a ∧ a.annot = false := by
  simp only [nlMulti, Bool.or_eq_false_iff, List.any_eq_false, decide_eq_false_iff_not] at h
  refine ⟨by omega, fun x hx => ?_⟩
  have := h.1 x hx
  cases x with
  | leaf a => exact ⟨a, rfl, by simpa [NItem.forces] using this⟩
  | list ys => simp [NItem.forces] at this

/-- the multi-line layout at nesting level `ind`: items behind `2·(ind+1)` spaces, the closing bracket behind `2·ind`. -/
theorem nltext_multi (ind : Nat) (x : NItem) (r : List NItem) (h : nlMulti (x :: r) = true) :
    (NItem.list (x :: r)).text ind
      = '[' :: '\n' :: (ListDoc.spacesL (2 * (ind + 1)) ++ (x.text (ind + 1) ++ nlMultiTail ind r)) := by
  simp [NItem.text, h]

/-- the one-line layout. -/
theorem nltext_inline (ind : Nat) (x : NItem) (r : List NItem) (h : nlMulti (x :: r) = false) :
    (NItem.list (x :: r)).text ind = '[' :: (x.text ind ++ nlInlineTail ind r) := by
  simp [NItem.text, h]

/-! ### decidability of the hypotheses (for closed checks) -/

instance nlDecLeafOK (env : Env) (a : NLeaf) : Decidable (a.OK env) := by
  cases a with
  | sc v => exact inferInstanceAs (Decidable v.OK)
  | num s => exact inferInstanceAs (Decidable (_ ∧ _ ∧ _))
instance nlDecItemOK (env : Env) (x : NItem) : Decidable (x.OK env) := inferInstanceAs (Decidable (∀ a ∈ x.leaves, a.OK env))
instance nlDecLineOK (env : Env) (ln : NLine) : Decidable (ln.OK env) := inferInstanceAs (Decidable (_ ∧ _ ∧ _))
instance nlDecLeafEmitOK (a : NLeaf) : Decidable a.EmitOK := by
  cases a with
  | sc v => exact inferInstanceAs (Decidable (ListDoc.ItemEmitOK v))
  | num s => exact inferInstanceAs (Decidable True)
instance nlDecItemEmitOK (x : NItem) : Decidable x.EmitOK := inferInstanceAs (Decidable (∀ a ∈ x.leaves, a.EmitOK))
instance nlDecLineEmitOK (ln : NLine) : Decidable ln.EmitOK := inferInstanceAs (Decidable (_ ∧ (_ → _)))

/-! ### non-vacuity: the theorems applied, and the whole model evaluated on the same document -/

def nxDeep6 : NItem := .list [.list [.list [.list [.list [.list [.scalar (.bare "a".toList), .num "-1.5e-05".toList]]]]]]

def nxLines : List NLine :=
  [ ⟨"K".toList, .list [.scalar (.bare "a".toList), .list [.scalar (.bare "b".toList), .list [.scalar (.bare "c".toList), .scalar (.qstr "x y".toList)]],
      .num "1.5".toList, .scalar (.int (-2)), .list []]⟩,
    ⟨"L".toList, .list [.scalar (.int 1), .num "3e-07".toList, .list [.scalar (.bare "x".toList)], .scalar (.bool true)]⟩,
    ⟨"D".toList, .list [.list [.list [.scalar (.bare "a".toList)]]]⟩,
    ⟨"P".toList, .list [.list [.scalar (.bare "a".toList), .scalar (.bare "b".toList)]]⟩,
    ⟨"W".toList, nxDeep6⟩,
    ⟨"PATTERN".toList, .list [.list [.scalar (.bare "a".toList)]]⟩,
    ⟨"F".toList, .num "-0.5".toList⟩,
    ⟨"E".toList, .list []⟩ ]

def nxText : Str := ndocText "DOC".toList nxLines

/-- the canonical text: a list holding a list is multi-line at every depth; `[c,"x y"]`, `[x]`, `[a]`, `[a,b]`, `[]` stay inline. -/
example : nxText =
    "===DOC===\nK::[\n  a,\n  [\n    b,\n    [c,\"x y\"]\n  ],\n  1.5,\n  -2,\n  []\n]\nL::[\n  1,\n  3e-07,\n  [x],\n  true\n]\nD::[\n  [\n    [a]\n  ]\n]\nP::[\n  [a,b]\n]\nW::[\n  [\n    [\n      [\n        [\n          [a,-1.5e-05]\n        ]\n      ]\n    ]\n  ]\n]\nPATTERN::[\n  [a]\n]\nF::-0.5\nE::[]\n===END===\n".toList := by
  decide +kernel

theorem nxLines_ok : NestOK Env.ascii "DOC".toList nxLines :=
  ⟨by decide, by decide, by decide +kernel, by decide +kernel, by decide, fun _ _ => rfl⟩
theorem nxLines_emit : ∀ x ∈ nxLines, x.EmitOK := by decide +kernel

example : nxLines.map (fun ln => ln.v.nest) = [3, 2, 3, 2, 6, 2, 0, 1] := by decide +kernel

example : Parser.parse Env.ascii nxText = .ok (ndocAt "DOC".toList nxLines) :=
  C01_nested_canonical_is_readable Env.ascii "DOC".toList nxLines nxLines_ok

example : ∃ ws, Parser.parseWithWarnings Env.ascii nxText = .ok (ndocAt "DOC".toList nxLines, toksReps (ndocToks "DOC".toList nxLines), ws) :=
  C01_nested_canonical_is_readable_lenient Env.ascii "DOC".toList nxLines nxLines_ok

/-- whatever positions the nodes carry. -/
example : ∃ text d', emit Env.ascii { name := "DOC".toList, sections := nnodesAt 40 nxLines } = some text ∧
    Parser.parse Env.ascii text = .ok d' ∧ emit Env.ascii d' = some text :=
  C01_nested_fixed_point Env.ascii "DOC".toList nxLines _ (nnodesOf_nnodesAt nxLines 40) nxLines_ok nxLines_emit

example : canonStrict Env.ascii nxText = .ok nxText ∧ canonLenient Env.ascii nxText = .ok nxText :=
  C01_nested_canon_fixed Env.ascii "DOC".toList nxLines nxLines_ok nxLines_emit

example : ∃ text d', emit Env.ascii { name := "DOC".toList, sections := nnodesAt 40 nxLines } = some text ∧
    Parser.parse Env.ascii text = .ok d' ∧ d'.sections.length = 8 := by
  obtain ⟨text, d', h1, h2, _, _, _, _, _, _, h9, _⟩ :=
    C02_nested_content_preserved Env.ascii "DOC".toList nxLines _ (nnodesOf_nnodesAt nxLines 40) nxLines_ok nxLines_emit
  exact ⟨text, d', h1, h2, h9⟩

/-- `"x y"` sits at path `[1,1,1]` of line 0 and is read back there as a string. -/
example : ∃ d' v l c, Parser.parse Env.ascii nxText = .ok d' ∧ d'.sections[0]? = some (.assign "K".toList v l c [] none) ∧
    nlValAt v [1, 1, 1] = some (.str "x y".toList) :=
  C02_nested_item_preserved Env.ascii "DOC".toList nxLines nxLines_ok 0 (by decide) [1, 1, 1] (.scalar (.qstr "x y".toList)) rfl

/-- the float `1.5` at path `[2]`, the negative integer `-2` at path `[3]` of line 0; `-1.5e-05` six brackets deep in line 4. -/
example : ∃ d' v l c, Parser.parse Env.ascii nxText = .ok d' ∧ d'.sections[0]? = some (.assign "K".toList v l c [] none) ∧
    nlValAt v [2] = some (.float "1.5".toList) :=
  (C04_nested_number_survives Env.ascii "DOC".toList nxLines nxLines_ok 0 (by decide) [2]).1 _ rfl
example : ∃ d' v l c, Parser.parse Env.ascii nxText = .ok d' ∧ d'.sections[0]? = some (.assign "K".toList v l c [] none) ∧
    nlValAt v [3] = some (.int (-2)) :=
  (C04_nested_number_survives Env.ascii "DOC".toList nxLines nxLines_ok 0 (by decide) [3]).2 _ rfl
example : ∃ d' v l c, Parser.parse Env.ascii nxText = .ok d' ∧ d'.sections[4]? = some (.assign "W".toList v l c [] none) ∧
    nlValAt v [0, 0, 0, 0, 0, 1] = some (.float "-1.5e-05".toList) :=
  (C04_nested_number_survives Env.ascii "DOC".toList nxLines nxLines_ok 4 (by decide) [0, 0, 0, 0, 0, 1]).1 _ rfl

/-- symbolic: every list of floats and integers inside a list inside a list, any length. -/
example (fs : List Str) (is : List Int) (hf : ∀ s ∈ fs, (NLeaf.num s).OK Env.ascii) (hi : ∀ i ∈ is, (natStr i.natAbs).length ≤ 4300) :
    ∃ text d', emit Env.ascii { name := "D".toList, sections := [.assign "K".toList
        (.list [.list [.list (fs.map Value.float ++ is.map Value.int)]]) 0 0 [] none] } = some text ∧
      Parser.parse Env.ascii text = .ok d' ∧ emit Env.ascii d' = some text := by
  let inner : List NItem := fs.map NItem.num ++ is.map (fun i => NItem.scalar (.int i))
  have hleaves : ∀ a ∈ nlLeaves inner, (∃ s ∈ fs, a = .num s) ∨ (∃ i ∈ is, a = .sc (.int i)) := by
    have gen : ∀ (xs : List NItem), (∀ x ∈ xs, (∃ s ∈ fs, x = .num s) ∨ (∃ i ∈ is, x = .scalar (.int i))) →
        ∀ a ∈ nlLeaves xs, (∃ s ∈ fs, a = .num s) ∨ (∃ i ∈ is, a = .sc (.int i)) := by
      intro xs
      induction xs with
      | nil => intro _ a ha; cases ha
      | cons x r ih =>
        intro hx a ha
        simp only [nlLeaves, List.mem_append] at ha
        rcases ha with ha | ha
        · rcases hx x (by simp) with ⟨s, hs, rfl⟩ | ⟨i, hi', rfl⟩
          · simp only [NItem.leaves, List.mem_singleton] at ha; exact Or.inl ⟨s, hs, ha⟩
          · simp only [NItem.leaves, List.mem_singleton] at ha; exact Or.inr ⟨i, hi', ha⟩
        · exact ih (fun y hy => hx y (by simp [hy])) a ha
    apply gen
    intro x hx
    simp only [inner, List.mem_append, List.mem_map] at hx
    rcases hx with ⟨s, hs, rfl⟩ | ⟨i, hi', rfl⟩
    · exact Or.inl ⟨s, hs, rfl⟩
    · exact Or.inr ⟨i, hi', rfl⟩
  have hval : (NItem.list [.list [.list inner]]).value = .list [.list [.list (fs.map Value.float ++ is.map Value.int)]] := by
    simp only [nlvalue_list, List.map_cons, List.map_nil, inner, List.map_append, List.map_map]
    congr 5
  have hl3 : ∀ a ∈ (NItem.list [.list [.list inner]]).leaves, a ∈ nlLeaves inner := by
    intro a ha; simpa [NItem.leaves, nlLeaves] using ha
  have := C01_nested_fixed_point Env.ascii "D".toList [⟨"K".toList, .list [.list [.list inner]]⟩] _ (NNodesOf.cons _ 0 0 NNodesOf.nil)
    ⟨by decide, by decide,
     by intro x hx; simp only [List.mem_singleton] at hx; subst hx
        refine ⟨(by decide : isIdentifierText "K".toList = true), (by decide : hasReservedPrefix "K".toList = false), ?_⟩
        intro a ha
        rcases hleaves a (hl3 a ha) with ⟨s, hs, rfl⟩ | ⟨i, hi', rfl⟩
        · exact hf s hs
        · exact hi i hi',
     by intro x hx; simp only [List.mem_singleton] at hx; subst hx
        show (NItem.list [.list [.list inner]]).nest < 100
        simp only [NItem.nest, nlNests]
        have : nlNests inner = 0 := by
          have gen : ∀ xs : List NItem, (∀ x ∈ xs, x.nest = 0) → nlNests xs = 0 := by
            intro xs; induction xs with
            | nil => intro _; rfl
            | cons x r ih => intro h; simp only [nlNests, h x (by simp), ih (fun y hy => h y (by simp [hy]))]; rfl
          apply gen
          intro x hx
          simp only [inner, List.mem_append, List.mem_map] at hx
          rcases hx with ⟨s, _, rfl⟩ | ⟨i, _, rfl⟩ <;> rfl
        omega,
     rfl, fun _ _ => rfl⟩
    (by intro x hx; simp only [List.mem_singleton] at hx; subst hx
        refine ⟨?_, fun hb => by cases hb⟩
        intro a ha
        rcases hleaves a (hl3 a ha) with ⟨s, _, rfl⟩ | ⟨i, _, rfl⟩ <;> trivial)
  simpa [NLine.node, hval] using this

/-! #### the whole model evaluated on the same document (independent of the theorems) -/

example : (match emit Env.ascii { name := "DOC".toList, sections := nnodesAt 40 nxLines } with
    | some t => t == nxText | none => false) = true := by decide +kernel
example : (match tokenize Env.ascii nxText with
    | .ok p => p == (ndocToks "DOC".toList nxLines, toksReps (ndocToks "DOC".toList nxLines)) | .error _ => false) = true := by
  decide +kernel
example : isOkStr (canonStrict Env.ascii nxText) nxText = true := by decide +kernel
example : isOkStr (canonLenient Env.ascii nxText) nxText = true := by decide +kernel
/-- the lenient reader's warnings on it: two W_DEEP_NESTING, at the fifth and at the sixth open bracket of line `W` (one per text
line; why `ListDocParse.VLine.OK` does not apply beyond four brackets). -/
example : (match Parser.parseWithWarnings Env.ascii nxText with
    | .ok (_, _, ws) => ws.length | .error _ => 0) = 2 := by decide +kernel

/-! ### the hypotheses are necessary / the edge of the class: the model at the excluded points (the real reader does the same at
every one of them, see the prover's report) -/

def nxDeepText (n : Nat) : Str :=
  "===D===\nK::".toList ++ List.replicate n '[' ++ ['a'] ++ List.replicate n ']' ++ "\n===END===\n".toList

/-- `nest < 100`: 99 open brackets are read, the 100th is refused (E_MAX_NESTING_EXCEEDED at the bracket). -/
example : (match Parser.parse Env.ascii (nxDeepText 99) with | .ok _ => true | .error _ => false) = true := by decide +kernel
example : (match Parser.parse Env.ascii (nxDeepText 100) with
    | .error e => e == .parser "E_MAX_NESTING_EXCEEDED".toList 2 103 | .ok _ => false) = true := by decide +kernel
/-- bare words must be identifier-shaped: with the constraint operator the list is re-read as a holographic pattern (finding
C15N1 / F4; the model answers `unsupported`, the real reader returns a `HolographicValue`). -/
example : (match canonStrict Env.ascii "===D===\nK::[[a∧b]]\n===END===\n".toList with
    | .error e => e == .unsupported "holographic".toList | .ok _ => false) = true := by decide +kernel
/-- … and without a reserved-word prefix (the emitter quotes such a string). -/
example : (match canonStrict Env.ascii "===D===\nK::[[true-x]]\n===END===\n".toList with
    | .error e => e == .lexer "E005".toList 2 10 | .ok _ => false) = true := by decide +kernel
/-- a float lexeme must be its own `repr`: `1.50` converges on `1.5`. -/
example : isOkStr (canonStrict { Env.ascii with floatRepr := fun s => if s = "1.50".toList then "1.5".toList else s }
    "===D===\nK::[\n  [1.50]\n]\n===END===\n".toList) "===D===\nK::[\n  [1.5]\n]\n===END===\n".toList = true := by decide +kernel
/-- … and finite: the lexer refuses an overflow to `inf`. -/
example : (match canonStrict { Env.ascii with floatRepr := fun s => if s = "1e999".toList then "inf".toList else s }
    "===D===\nK::[\n  [1e999]\n]\n===END===\n".toList with
    | .error e => e == .lexer "E005".toList 3 4 | .ok _ => false) = true := by decide +kernel
/-- first key `META`: taken for the META block header. -/
example : (match canonStrict Env.ascii "===D===\nMETA::[[a]]\n===END===\n".toList with
    | .error e => e == .parser "E001".toList 2 5 | .ok _ => false) = true := by decide +kernel
/-- `EmitOK`: a quoted plain word is not the emitter's spelling; it converges on the bare word. -/
example : isOkStr (canonStrict Env.ascii "===D===\nK::[\n  [\"word\"]\n]\n===END===\n".toList) "===D===\nK::[\n  [word]\n]\n===END===\n".toList = true := by
  decide +kernel
/-- outside the class (not the canonical layout): nested lists written on one line converge on the canonical layout. -/
example : isOkStr (canonStrict Env.ascii "===D===\nK::[a,[b,[c]],d]\n===END===\n".toList)
    "===D===\nK::[\n  a,\n  [\n    b,\n    [c]\n  ],\n  d\n]\n===END===\n".toList = true := by decide +kernel

end Octave.C01
