/-
C01 / C02 on documents with a META BLOCK — the document-level statement, proved for all inputs of the class:

  a META document = an envelope `===NAME===`, the line `META:`, one line `  KEY::scalar` per field (scalar = a string the
  emitter quotes, a bare word, an integer, a boolean, null), then a body forest of lines `KEY::scalar` and blocks `KEY:` with
  children (ANY depth and width, possibly empty), `===END===`.

For every such document (any name, any NON-EMPTY list of fields with DISTINCT keys, any forest, any keys, any values):

  * `C01_meta_canonical_is_readable`   the strict reader accepts the canonical text and returns the same document (`meta` = the
                                       fields in order with their values and types; every body node at its text line, column
                                       `1 + 2·depth`);
  * `C01_meta_fixed_point` (`…_matches`)   `emit (parse (emit d)) = emit d`, byte for byte;
  * `C02_meta_content_preserved`       same name, `metaKv` = the fields in order with values and types, sections `treeMatches`
                                       the forest, nothing else appears;
  * `C02_meta_lenient_read` (`…_exact`, `…_silent`)   the lenient entry point reads the same document, no normalisation receipt
                                       (exact receipts and warnings; no warning at all under the usual conditions on the body);
  * `meta_text_injective`, `C15_meta_emit_injective`   the canonical text determines name, fields and body content;
  * `C01_meta_canonical_read_general`, `C02_meta_document_read`, `C02_meta_document_read_warnings`   the READER statements
                                       without the hypotheses `fields ≠ []` / distinct keys (token level: arbitrary positions):
                                       `meta` is the Python dict built field by field, a repeated key is reported.

It composes the lexer+emitter half (`Lemmas/MetaLex`) with the parser half (`Lemmas/MetaParse`) through `Lemmas/MetaBridge`.
Hypotheses (all decidable), each necessary — the real reader/emitter (`octave_mcp.core`, /repo) at the excluded points:
  * `fields ≠ []`: `emit` of a document with `meta == {}` writes NO `META:` line (`===D===\nZ::true\n===END===\n`): that
    document is covered by `C01_tree_*`.  Conversely the text `META:` + no field is read as `meta == {}` and re-emitted
    WITHOUT the line (not a fixed point, but never written by the emitter).
  * distinct keys (`Nodup`): `doc.meta` is a Python dict, so this is a representation invariant, not a restriction on
    documents.  A TEXT with a repeated META key (`A::1, B::2, A::3`) is read as `{'A': 3, 'B': 2}` with one `duplicate_key`
    warning and re-emitted as `A::3, B::2` (the model's list agrees: `metaDocRead`, `dupFields` below).
  * `FLine.OK` on the fields (keys and bare words identifier-shaped WITHOUT a reserved-word prefix): `  null-x::1` is rejected
    by the lexer (`E005 at line 3, column 7`), as in the body.
  * `FLine.MetaEmitOK`: the value is spelled as `emit_value` spells it.  It is weaker than the body's `FLine.EmitOK`:
    `emit_meta` does not force quotes under `PATTERN`/`REGEX` (`META: PATTERN::abc` stays bare and is a fixed point; in the
    body the same line is re-emitted as `PATTERN::"abc"` with a `pattern_autoquote` warning).
  * `isEnvName`, `name ≠ END`, `treeOK` / `treeEmitOK` on the body, NFC-stable lines (`hnfc`): as in `C01_tree_*`.
NOT hypotheses (checked on the real reader too): the first body key may be `META` again (block or line: an ordinary section —
so `firstKeyIsMeta` of `C01_tree_*` disappears when a META block is present); the body may be empty; no key is special
inside META (`META`, `END`, `PATTERN` are ordinary field keys).
Out of scope: the one nested dict level inside META, list / expression values in META, comments, `---` separator.
-/
import Octave.Lemmas.MetaBridge
import Octave.Props.C01tree
namespace Octave.C01
open Octave Lexer Emitter

/-! ### the parser half through the entry points (token level, arbitrary positions) -/

/-- **The parser on the token list of a document with a META block** (any mode): the document, and the final parser state. -/
theorem C02_meta_parseDocument (env : Env) (strict : Bool) (f : FlatParse.Frame) (name : Str) (pos : Nat → BlockParse.LPos)
    (fields : List (Str × FlatParse.Scalar)) (nodes : List BlockParse.TNode)
    (hc : BlockParse.colsOkList pos nodes 0 (1 + fields.length) = true) :
    Parser.parseDocument.run (Parser.initState env (MetaParse.metaToks f name pos fields nodes) strict)
      = .ok (MetaParse.metaDoc name pos fields nodes,
             { Parser.initState env (MetaParse.metaToks f name pos fields nodes) strict with
                 rest := [f.nl1Tok, f.eofTok], prev := some f.endTok,
                 pos := 5 * fields.length + (BlockParse.toksList pos nodes 0 (1 + fields.length)).length + 6,
                 warnings := (BlockParse.warnsList pos nodes [] (1 + fields.length)).reverse ++
                             (MetaParse.metaWarns pos [] fields 1).reverse }) := by
  have h := MetaParse.parseDocument_meta f name pos fields nodes
    (Parser.initState env (MetaParse.metaToks f name pos fields nodes) strict) hc rfl
  simp only [StateT.run]
  rw [h]
  simp only [Parser.initState, List.append_nil, Nat.zero_add]

/-- **strict entry point** (`parse`) on the token list: the fields in `meta` (a Python dict: `MetaParse.metaDict`), the body
forest in `sections` — for every name, every list of fields (also none, also repeated keys, any keys, any scalars), every
forest, every token position (block-key columns consistent with the indentation).  NO condition on the first body key. -/
theorem C02_meta_document_read (env : Env) (f : FlatParse.Frame) (name : Str) (pos : Nat → BlockParse.LPos)
    (fields : List (Str × FlatParse.Scalar)) (nodes : List BlockParse.TNode)
    (hc : BlockParse.colsOkList pos nodes 0 (1 + fields.length) = true) :
    C02.parseToks env (MetaParse.metaToks f name pos fields nodes) = .ok (MetaParse.metaDoc name pos fields nodes) := by
  unfold C02.parseToks
  rw [C02_meta_parseDocument env true f name pos fields nodes hc]
  rfl

/-- **lenient entry point** (`parse_with_warnings`) on the token list: the same document and exactly the warnings — the
duplicate-key warnings of META (`MetaParse.metaWarns`; no W_PATTERN_AUTOQUOTE inside META), then those of the body. -/
theorem C02_meta_document_read_warnings (env : Env) (f : FlatParse.Frame) (name : Str) (pos : Nat → BlockParse.LPos)
    (fields : List (Str × FlatParse.Scalar)) (nodes : List BlockParse.TNode)
    (hc : BlockParse.colsOkList pos nodes 0 (1 + fields.length) = true) :
    C02.parseToksWithWarnings env (MetaParse.metaToks f name pos fields nodes)
      = .ok (MetaParse.metaDoc name pos fields nodes,
             MetaParse.metaWarns pos [] fields 1 ++ BlockParse.warnsList pos nodes [] (1 + fields.length)) := by
  unfold C02.parseToksWithWarnings
  rw [C02_meta_parseDocument env false f name pos fields nodes hc]
  simp only [bind, Except.bind, pure, Except.pure, List.reverse_append, List.reverse_reverse]

/-! ### the two halves composed -/

/-- the lexer half in the vocabulary of the parser half. -/
theorem meta_text_lexes (env : Env) (lenient : Bool) (name : Str) (fields : List FLine) (nodes : List TNode)
    (hn : isEnvName name = true) (hne : name ≠ "END".toList) (hf : ∀ ln ∈ fields, ln.OK) (hok : treeOK nodes)
    (hnfc : ∀ l ∈ splitLines (metaDocText name fields nodes), env.nfc l = l) :
    Lexer.tokenize env (Parser.stripFrontmatter env (metaDocText name fields nodes)).1 lenient
      = .ok (MetaParse.metaToks (metaFrame name fields nodes) name (metaPos fields nodes) (fieldsToP fields) (treeToP nodes),
             metaDocReps fields nodes) := by
  rw [stripFrontmatter_meta, ← metaToks_bridge]
  exact tokenize_metaDoc env lenient name fields nodes hn hne hf hok hnfc

/-- the strict reader on the canonical text, WITHOUT any hypothesis on repeated keys: `meta` is the dict built field by
field (`metaDocRead`). -/
theorem C01_meta_canonical_read_general (env : Env) (name : Str) (fields : List FLine) (nodes : List TNode)
    (hn : isEnvName name = true) (hne : name ≠ "END".toList) (hf : ∀ ln ∈ fields, ln.OK) (hok : treeOK nodes)
    (hnfc : ∀ l ∈ splitLines (metaDocText name fields nodes), env.nfc l = l) :
    Parser.parse env (metaDocText name fields nodes) = .ok (metaDocRead name fields nodes) := by
  have hlex := meta_text_lexes env false name fields nodes hn hne hf hok hnfc
  rw [C02.parse_eq_parseToks env _ _ _ hlex, C02_meta_document_read env _ name _ _ _ (colsOk_metaPos fields nodes),
    stripFrontmatter_meta, metaDoc_bridge]
  rfl

/-- **the canonical text of a document with a META block is accepted by the strict reader, which returns the same
document**: the fields in `meta` in order, with their values and types; every body node at its text line, column
`1 + 2·depth`. -/
theorem C01_meta_canonical_is_readable (env : Env) (name : Str) (fields : List FLine) (nodes : List TNode)
    (hn : isEnvName name = true) (hne : name ≠ "END".toList) (hf : ∀ ln ∈ fields, ln.OK) (hnd : (fields.map FLine.key).Nodup)
    (hok : treeOK nodes) (hnfc : ∀ l ∈ splitLines (metaDocText name fields nodes), env.nfc l = l) :
    Parser.parse env (metaDocText name fields nodes) = .ok (metaDoc name canonPos fields nodes) := by
  rw [C01_meta_canonical_read_general env name fields nodes hn hne hf hok hnfc, metaDocRead_of_nodup name fields nodes hnd]

/-- **C01 with META: the canonical text is a fixed point.**  Emit the document, read the text with the strict reader, emit
again: the same bytes.  For every non-empty list of fields with distinct keys and every forest, whatever positions the
body nodes carry. -/
theorem C01_meta_fixed_point (env : Env) (name : Str) (pos : Nat → Nat → Nat × Nat) (fields : List FLine) (nodes : List TNode)
    (hn : isEnvName name = true) (hne : name ≠ "END".toList) (hfne : fields ≠ []) (hf : ∀ ln ∈ fields, ln.OK)
    (hfe : ∀ ln ∈ fields, ln.MetaEmitOK) (hnd : (fields.map FLine.key).Nodup) (hok : treeOK nodes) (hem : treeEmitOK nodes)
    (hnfc : ∀ l ∈ splitLines (metaDocText name fields nodes), env.nfc l = l) :
    ∃ text d', emit env (metaDoc name pos fields nodes) = some text ∧ Parser.parse env text = .ok d' ∧ emit env d' = some text :=
  ⟨metaDocText name fields nodes, metaDoc name canonPos fields nodes, emit_metaDoc env name pos fields nodes hfne hfe hem,
   C01_meta_canonical_is_readable env name fields nodes hn hne hf hnd hok hnfc, emit_metaDoc env name _ fields nodes hfne hfe hem⟩

/-- the same for ANY AST that carries the forest (any positions at all in the nodes). -/
theorem C01_meta_fixed_point_matches (env : Env) (name : Str) (fields : List FLine) (nodes : List TNode) (sections : List Node)
    (hmt : treeMatches nodes sections)
    (hn : isEnvName name = true) (hne : name ≠ "END".toList) (hfne : fields ≠ []) (hf : ∀ ln ∈ fields, ln.OK)
    (hfe : ∀ ln ∈ fields, ln.MetaEmitOK) (hnd : (fields.map FLine.key).Nodup) (hok : treeOK nodes) (hem : treeEmitOK nodes)
    (hnfc : ∀ l ∈ splitLines (metaDocText name fields nodes), env.nfc l = l) :
    ∃ text d', emit env { name := name, metaKv := metaKvOf fields, sections := sections } = some text ∧
      Parser.parse env text = .ok d' ∧ emit env d' = some text :=
  ⟨metaDocText name fields nodes, metaDoc name canonPos fields nodes,
   emit_metaDoc_matches env name fields nodes sections hfne hmt hfe hem,
   C01_meta_canonical_is_readable env name fields nodes hn hne hf hnd hok hnfc, emit_metaDoc env name _ fields nodes hfne hfe hem⟩

/-- **C02 with META: reading the canonical text yields exactly the content that was written** — the name; `meta` = the
fields in order, each key with its value and its type (`metaKvOf`); sections that carry the forest (`treeMatches`);
nothing else appears. -/
theorem C02_meta_content_preserved (env : Env) (name : Str) (pos : Nat → Nat → Nat × Nat) (fields : List FLine) (nodes : List TNode)
    (hn : isEnvName name = true) (hne : name ≠ "END".toList) (hfne : fields ≠ []) (hf : ∀ ln ∈ fields, ln.OK)
    (hfe : ∀ ln ∈ fields, ln.MetaEmitOK) (hnd : (fields.map FLine.key).Nodup) (hok : treeOK nodes) (hem : treeEmitOK nodes)
    (hnfc : ∀ l ∈ splitLines (metaDocText name fields nodes), env.nfc l = l) :
    ∃ text d', emit env (metaDoc name pos fields nodes) = some text ∧ Parser.parse env text = .ok d' ∧
      d'.name = name ∧ d'.metaKv = fields.map (fun ln => (ln.key, MetaVal.val ln.v.value)) ∧ d'.hasSeparator = false ∧
      d'.trailingComments = [] ∧ d'.grammarVersion = none ∧ d'.rawFrontmatter = none ∧ treeMatches nodes d'.sections :=
  ⟨metaDocText name fields nodes, metaDoc name canonPos fields nodes, emit_metaDoc env name pos fields nodes hfne hfe hem,
   C01_meta_canonical_is_readable env name fields nodes hn hne hf hnd hok hnfc, rfl, rfl, rfl, rfl, rfl, rfl,
   treeNodes_matches canonPos nodes (1 + fields.length) 0⟩

/-- the lenient entry point (`parse_with_warnings`) on the canonical text, exactly and without any hypothesis on repeated
keys: the document (`metaDocRead`), the lexer's receipts (identifier notes only), the parser's warnings (`metaDocWarns`:
duplicate META keys, then the body's). -/
theorem C02_meta_lenient_read_exact (env : Env) (name : Str) (fields : List FLine) (nodes : List TNode)
    (hn : isEnvName name = true) (hne : name ≠ "END".toList) (hf : ∀ ln ∈ fields, ln.OK) (hok : treeOK nodes)
    (hnfc : ∀ l ∈ splitLines (metaDocText name fields nodes), env.nfc l = l) :
    Parser.parseWithWarnings env (metaDocText name fields nodes)
      = .ok (metaDocRead name fields nodes, metaDocReps fields nodes, metaDocWarns fields nodes) := by
  have hlex := meta_text_lexes env false name fields nodes hn hne hf hok hnfc
  rw [C02.parseWithWarnings_eq_parseToks env _ _ _ hlex,
    C02_meta_document_read_warnings env _ name _ _ _ (colsOk_metaPos fields nodes), stripFrontmatter_meta]
  simp only [Except.map, metaDoc_bridge, metaDocWarns, fieldsToP_length]
  rfl

theorem metaDocReps_not_norm (fields : List FLine) (nodes : List TNode) :
    (metaDocReps fields nodes).filter isNormalization = [] := by
  rw [metaDocReps, List.filter_reverse, tree_repsRev_not_norm]
  rfl

/-- **the lenient entry point reads the same document from the canonical text, and the lexer issues no normalisation
receipt.** -/
theorem C02_meta_lenient_read (env : Env) (name : Str) (fields : List FLine) (nodes : List TNode)
    (hn : isEnvName name = true) (hne : name ≠ "END".toList) (hf : ∀ ln ∈ fields, ln.OK) (hnd : (fields.map FLine.key).Nodup)
    (hok : treeOK nodes) (hnfc : ∀ l ∈ splitLines (metaDocText name fields nodes), env.nfc l = l) :
    ∃ reps warns, Parser.parseWithWarnings env (metaDocText name fields nodes)
        = .ok (metaDoc name canonPos fields nodes, reps, warns) ∧ reps.filter isNormalization = [] := by
  refine ⟨metaDocReps fields nodes, metaDocWarns fields nodes, ?_, metaDocReps_not_norm fields nodes⟩
  rw [C02_meta_lenient_read_exact env name fields nodes hn hne hf hok hnfc, metaDocRead_of_nodup name fields nodes hnd]

/-- … and the reader is silent (no warning at all) when, besides, no body line is a bare word under `PATTERN`/`REGEX` and no
Assignment key repeats within one level of the body.  (A bare word under `PATTERN` INSIDE META gives no warning.) -/
theorem C02_meta_lenient_read_silent (env : Env) (name : Str) (fields : List FLine) (nodes : List TNode)
    (hn : isEnvName name = true) (hne : name ≠ "END".toList) (hf : ∀ ln ∈ fields, ln.OK) (hnd : (fields.map FLine.key).Nodup)
    (hok : treeOK nodes) (hnfc : ∀ l ∈ splitLines (metaDocText name fields nodes), env.nfc l = l)
    (hq : BlockParse.quietList (treeToP nodes) = true) (hnk : (BlockParse.lineKeys (treeToP nodes)).Nodup) :
    Parser.parseWithWarnings env (metaDocText name fields nodes)
      = .ok (metaDoc name canonPos fields nodes, metaDocReps fields nodes, []) := by
  rw [C02_meta_lenient_read_exact env name fields nodes hn hne hf hok hnfc, metaDocRead_of_nodup name fields nodes hnd,
    metaDocWarns, MetaParse.metaWarns_eq_nil _ [] _ 1 (by rw [fieldsToP_keys]; exact hnd) (fun _ _ => rfl),
    BlockParse.warnsList_eq_nil _ _ [] _ hq hnk (fun _ _ => rfl)]
  rfl


/-! ### the canonical text determines the content (what the seal of C15 relies on) -/

/-- key and value of a content line. -/
def Content.kv : Content → Str × Value
  | .line k v => (k, v)
  | .block k _ => (k, .null)

theorem treeContent_fields (fields : List FLine) :
    (treeContent (fields.map TNode.line)).map Content.kv = fields.map fun ln => (ln.key, ln.v.value) := by
  induction fields with
  | nil => rfl
  | cons ln ls ih => simp only [List.map_cons, treeContent, TNode.content, Content.kv, ih]

/-- **The canonical text determines the document**: two documents with META blocks that have the same canonical text have
the same name, the same fields (keys in order, values with their types) and the same body content.  No hypothesis other
than the shape of names and keys (not on repeated keys, not on `END`, not on NFC). -/
theorem meta_text_injective (n1 n2 : Str) (f1 f2 : List FLine) (t1 t2 : List TNode)
    (hn1 : isEnvName n1 = true) (hf1 : ∀ ln ∈ f1, ln.OK) (hok1 : treeOK t1)
    (hn2 : isEnvName n2 = true) (hf2 : ∀ ln ∈ f2, ln.OK) (hok2 : treeOK t2)
    (h : metaDocText n1 f1 t1 = metaDocText n2 f2 t2) :
    n1 = n2 ∧ f1.map (fun ln => (ln.key, ln.v.value)) = f2.map (fun ln => (ln.key, ln.v.value)) ∧
      treeContent t1 = treeContent t2 := by
  rw [metaDocText_eq_tree, metaDocText_eq_tree] at h
  obtain ⟨hname, hc⟩ := tree_text_injective n1 n2 _ _ hn1 (treeOK_meta f1 t1 hf1 hok1) hn2 (treeOK_meta f2 t2 hf2 hok2) h
  simp only [treeContent, metaNode, TNode.content, List.cons.injEq, Content.block.injEq, true_and] at hc
  refine ⟨hname, ?_, hc.2⟩
  rw [← treeContent_fields f1, ← treeContent_fields f2, hc.1]

/-- **`emit` is injective on documents with META blocks**, up to the positions stored in the body nodes. -/
theorem C15_meta_emit_injective (env : Env) (n1 n2 : Str) (p1 p2 : Nat → Nat → Nat × Nat) (f1 f2 : List FLine) (t1 t2 : List TNode)
    (hn1 : isEnvName n1 = true) (hne1 : f1 ≠ []) (hf1 : ∀ ln ∈ f1, ln.OK) (hfe1 : ∀ ln ∈ f1, ln.MetaEmitOK) (hok1 : treeOK t1)
    (hem1 : treeEmitOK t1)
    (hn2 : isEnvName n2 = true) (hne2 : f2 ≠ []) (hf2 : ∀ ln ∈ f2, ln.OK) (hfe2 : ∀ ln ∈ f2, ln.MetaEmitOK) (hok2 : treeOK t2)
    (hem2 : treeEmitOK t2)
    (h : emit env (metaDoc n1 p1 f1 t1) = emit env (metaDoc n2 p2 f2 t2)) :
    n1 = n2 ∧ (metaDoc n1 p1 f1 t1).metaKv = (metaDoc n2 p2 f2 t2).metaKv ∧ treeContent t1 = treeContent t2 := by
  rw [emit_metaDoc env n1 p1 f1 t1 hne1 hfe1 hem1, emit_metaDoc env n2 p2 f2 t2 hne2 hfe2 hem2] at h
  obtain ⟨a, b, c⟩ := meta_text_injective n1 n2 f1 f2 t1 t2 hn1 hf1 hok1 hn2 hf2 hok2 (by simpa using h)
  refine ⟨a, ?_, c⟩
  have := congrArg (List.map fun (p : Str × Value) => (p.1, MetaVal.val p.2)) b
  simp only [List.map_map] at this
  exact this

/-! ### non-vacuity: a document with TYPE / VERSION / STATUS … fields and a nested body -/

/-- fields of every scalar kind: bare words, a quoted string, an integer, a boolean, null; the keys `META` and `END` are
ordinary keys inside META. -/
def exFields : List FLine :=
  [⟨"TYPE".toList, .bare "SPEC".toList⟩, ⟨"VERSION".toList, .qstr "1.0".toList⟩, ⟨"STATUS".toList, .bare "DRAFT".toList⟩,
   ⟨"N".toList, .int 3⟩, ⟨"OK".toList, .bool true⟩, ⟨"NIL".toList, .null⟩, ⟨"META".toList, .int (-7)⟩,
   ⟨"PATTERN".toList, .bare "abc".toList⟩]

theorem exFields_ok : ∀ ln ∈ exFields, ln.OK := by
  intro ln h
  simp only [exFields, List.mem_cons, List.mem_nil_iff, or_false] at h
  rcases h with h | h | h | h | h | h | h | h <;> subst h <;> simp only [FLine.OK, FScalar.OK] <;> decide

theorem exFields_emit : ∀ ln ∈ exFields, ln.MetaEmitOK := by decide

theorem exFields_nodup : (exFields.map FLine.key).Nodup := by decide

/-- the text, with the body of the task statement (`exTree` of `Props/C01blocks`). -/
example : metaDocText "D".toList exFields exTree =
    ("===D===\nMETA:\n  TYPE::SPEC\n  VERSION::\"1.0\"\n  STATUS::DRAFT\n  N::3\n  OK::true\n  NIL::null\n  META::-7\n  PATTERN::abc\n" ++
     "B:\n  X::\"1\"\n  C:\n    Y::\"s\"\nZ::true\n===END===\n").toList := by
  decide +kernel

/-- the theorems applied (body: `exTree2`, depth 3, every scalar kind, an empty block, a block last). -/
example : ∃ text d', emit Env.ascii (metaDoc "DOC".toList (fun _ _ => (7, 7)) exFields exTree2) = some text ∧
    Parser.parse Env.ascii text = .ok d' ∧ emit Env.ascii d' = some text :=
  C01_meta_fixed_point Env.ascii "DOC".toList _ exFields exTree2 (by decide) (by decide) (by decide) exFields_ok exFields_emit
    exFields_nodup exTree2_ok exTree2_emit (fun _ _ => rfl)

example : Parser.parse Env.ascii (metaDocText "DOC".toList exFields exTree2) = .ok (metaDoc "DOC".toList canonPos exFields exTree2) :=
  C01_meta_canonical_is_readable Env.ascii "DOC".toList exFields exTree2 (by decide) (by decide) exFields_ok exFields_nodup
    exTree2_ok (fun _ _ => rfl)

/-- what was read, written out: the fields in order with values and types; the first body node at text line 11. -/
example : (metaDoc "DOC".toList canonPos exFields exTree2).metaKv =
    [("TYPE".toList, .val (.str "SPEC".toList)), ("VERSION".toList, .val (.str "1.0".toList)),
     ("STATUS".toList, .val (.str "DRAFT".toList)), ("N".toList, .val (.int 3)), ("OK".toList, .val (.bool true)),
     ("NIL".toList, .val .null), ("META".toList, .val (.int (-7))), ("PATTERN".toList, .val (.str "abc".toList))] := rfl

example : ∃ rest c, (metaDoc "DOC".toList canonPos exFields exTree2).sections = .block "B".toList c 11 1 [] none :: rest :=
  ⟨_, _, rfl⟩

example : ∃ text d', emit Env.ascii (metaDoc "DOC".toList (fun i d => (d, i)) exFields exTree2) = some text ∧
    Parser.parse Env.ascii text = .ok d' ∧ d'.name = "DOC".toList ∧
    d'.metaKv = exFields.map (fun ln => (ln.key, MetaVal.val ln.v.value)) ∧ d'.hasSeparator = false ∧
    d'.trailingComments = [] ∧ d'.grammarVersion = none ∧ d'.rawFrontmatter = none ∧ treeMatches exTree2 d'.sections :=
  C02_meta_content_preserved Env.ascii "DOC".toList _ exFields exTree2 (by decide) (by decide) (by decide) exFields_ok
    exFields_emit exFields_nodup exTree2_ok exTree2_emit (fun _ _ => rfl)

/-- read silently: the identifier notes are the only receipts, and there is no warning — not even for the bare word under
`PATTERN` (inside META it is not reported). -/
example : Parser.parseWithWarnings Env.ascii (metaDocText "DOC".toList exFields exTree2)
    = .ok (metaDoc "DOC".toList canonPos exFields exTree2, metaDocReps exFields exTree2, []) :=
  C02_meta_lenient_read_silent Env.ascii "DOC".toList exFields exTree2 (by decide) (by decide) exFields_ok exFields_nodup
    exTree2_ok (fun _ _ => rfl) (by decide) (by decide)

example : metaDocReps exFields exTree2 = [] := by decide

/-- **the whole model evaluated** on the same text gives the same document, and the emitter gives back the same text
(independent of the theorems). -/
example : Parser.parse Env.ascii (metaDocText "DOC".toList exFields exTree2) = .ok (metaDoc "DOC".toList canonPos exFields exTree2) :=
  MetaParse.isOkDocM_sound (by decide +kernel)

example : emit Env.ascii (metaDoc "DOC".toList canonPos exFields exTree2) = some (metaDocText "DOC".toList exFields exTree2) := by
  decide +kernel

example : (match tokenize Env.ascii (metaDocText "DOC".toList exFields exTree2) false with
    | .ok p => p == (metaDocToks "DOC".toList exFields exTree2, []) | .error _ => false) = true := by
  decide +kernel

/-- the token shape: `META:` like a block header, every field `INDENT(2) IDENTIFIER ASSIGN value NEWLINE`. -/
example : ((metaDocToks "D".toList [⟨"TYPE".toList, .bare "SPEC".toList⟩, ⟨"VERSION".toList, .qstr "1.0".toList⟩]
      [.line ⟨"Z".toList, .bool true⟩]).map Token.tv) =
    [(.envelopeStart, .str "D".toList), (.newline, .str ['\n']),
     (.identifier, .str "META".toList), (.block, .str [':']), (.newline, .str ['\n']),
     (.indent, .nat 2), (.identifier, .str "TYPE".toList), (.assign, .str "::".toList), (.identifier, .str "SPEC".toList), (.newline, .str ['\n']),
     (.indent, .nat 2), (.identifier, .str "VERSION".toList), (.assign, .str "::".toList), (.string, .str "1.0".toList), (.newline, .str ['\n']),
     (.identifier, .str "Z".toList), (.assign, .str "::".toList), (.boolean, .bool true), (.newline, .str ['\n']),
     (.envelopeEnd, .str "END".toList), (.newline, .str ['\n']), (.eof, .none)] := by decide

/-- the bridge on the example (checked by evaluation, independently of `metaToks_bridge`). -/
example : metaDocToks "DOC".toList exFields exTree2
    = MetaParse.metaToks (metaFrame "DOC".toList exFields exTree2) "DOC".toList (metaPos exFields exTree2) (fieldsToP exFields)
        (treeToP exTree2) := by decide
example : BlockParse.colsOkList (metaPos exFields exTree2) (treeToP exTree2) 0 (1 + (fieldsToP exFields).length) = true := by decide

/-- injectivity applied: another value in a field, another text. -/
example : metaDocText "D".toList [⟨"A".toList, .int 1⟩] [] ≠ metaDocText "D".toList [⟨"A".toList, .qstr "1".toList⟩] [] := by
  intro h
  have := (meta_text_injective "D".toList "D".toList [⟨"A".toList, .int 1⟩] [⟨"A".toList, .qstr "1".toList⟩] [] []
    (by decide) (by intro ln h; simp at h; subst h; simp only [FLine.OK, FScalar.OK]; decide) (by simp only [treeOK])
    (by decide) (by intro ln h; simp at h; subst h; simp only [FLine.OK, FScalar.OK]; decide) (by simp only [treeOK]) h).2.1
  simp [FScalar.value] at this

/-! ### the parser half at token level: symbolic content and positions -/

/-- all positions symbolic (only the column of the body's block key matters); the first body node is a block keyed `META`. -/
example (env : Env) (f : FlatParse.Frame) (pos : Nat → BlockParse.LPos) (s w : Str) (i : Int) (raw : Str) (h3 : (pos 3).c1 = 1) :
    C02.parseToks env (MetaParse.metaToks f "DOC".toList pos
      [("TYPE".toList, .word w), ("VERSION".toList, .str s)]
      [ .block "META".toList [ .line "X".toList (.int i raw) ], .line "K".toList .null ])
    = .ok { name := "DOC".toList,
            metaKv := [("TYPE".toList, .val (.str w)), ("VERSION".toList, .val (.str s))],
            sections := [ .block "META".toList [ .assign "X".toList (.int i) (pos 4).l (pos 4).c1 [] none ] (pos 3).l (pos 3).c1 [] none,
                          .assign "K".toList .null (pos 5).l (pos 5).c1 [] none ] } := by
  rw [C02_meta_document_read env f _ pos _ _
    (by simp [BlockParse.colsOkList, BlockParse.TNode.colsOk, h3])]
  simp [MetaParse.metaDoc, MetaParse.metaDict, dictSet, BlockParse.nodeList, BlockParse.TNode.node, BlockParse.TNode.lines,
    BlockParse.linesList, BlockParse.mkLine, FlatParse.Line.node, FlatParse.Scalar.val]

/-- … the lenient read of a list with a repeated key reports it (and nothing else), all positions symbolic. -/
example (env : Env) (f : FlatParse.Frame) (pos : Nat → BlockParse.LPos) (a b c : FlatParse.Scalar) :
    (C02.parseToksWithWarnings env (MetaParse.metaToks f "DOC".toList pos
      [("A".toList, a), ("B".toList, b), ("A".toList, c)] [])).map Prod.snd
    = .ok [ .duplicateKey "A".toList (pos 1).l (pos 3).l [(pos 1).l, (pos 3).l] ] := by
  rw [C02_meta_document_read_warnings env f _ pos _ _ rfl]
  simp [MetaParse.metaWarns, FlatParse.trackPure, List.lookup, BlockParse.warnsList, Except.map]

/-! ### what is NOT a hypothesis -/

/-- the first body key may again be `META` (a block or a line): after the META block it is an ordinary node.  (Without a META
block in front it would be taken for the META block: hypothesis `firstKeyIsMeta` of `C01_tree_*`.) -/
example : Parser.parse Env.ascii (metaDocText "D".toList [⟨"TYPE".toList, .bare "SPEC".toList⟩]
      [.block "META".toList [.line ⟨"X".toList, .int 1⟩], .line ⟨"META".toList, .null⟩])
    = .ok { name := "D".toList, metaKv := [("TYPE".toList, .val (.str "SPEC".toList))],
            sections := [.block "META".toList [.assign "X".toList (.int 1) 5 3 [] none] 4 1 [] none,
                         .assign "META".toList .null 6 1 [] none] } :=
  C01_meta_canonical_is_readable Env.ascii "D".toList _ _ (by decide) (by decide)
    (by intro ln h; simp at h; subst h; simp only [FLine.OK, FScalar.OK]; decide) (by decide)
    (by simp only [treeOK, TNode.OK, FLine.OK, FScalar.OK]; decide) (fun _ _ => rfl)

/-- the body may be empty. -/
example : Parser.parse Env.ascii "===D===\nMETA:\n  TYPE::SPEC\n===END===\n".toList
    = .ok { name := "D".toList, metaKv := [("TYPE".toList, .val (.str "SPEC".toList))] } :=
  C01_meta_canonical_is_readable Env.ascii "D".toList [⟨"TYPE".toList, .bare "SPEC".toList⟩] [] (by decide) (by decide)
    (by intro ln h; simp at h; subst h; simp only [FLine.OK, FScalar.OK]; decide) (by decide) trivial (fun _ _ => rfl)

/-! ### the hypotheses are necessary -/

/-- `fields ≠ []` (emitter side): an empty `meta` is not emitted at all — the text is the one of the document without META
(`C01_tree_*` is the theorem for it) … -/
example : emit Env.ascii (metaDoc "D".toList canonPos [] exTree2) = some (treeDocText "D".toList exTree2) :=
  emit_tree_matches Env.ascii "D".toList exTree2 _ (treeNodes_matches canonPos exTree2 _ 0) exTree2_emit

/-- … and `META:` without fields (never written by the emitter) is read as an empty `meta`, so that the re-emitted text drops
the line.  (The reader theorems `C01_meta_canonical_read_general`, `C02_meta_document_read` do cover `fields = []`.) -/
example : Parser.parse Env.ascii (metaDocText "D".toList [] exTree2) = .ok (metaDocRead "D".toList [] exTree2) ∧
    (metaDocRead "D".toList [] exTree2).metaKv = [] ∧
    emit Env.ascii (metaDocRead "D".toList [] exTree2) = some (treeDocText "D".toList exTree2) ∧
    treeDocText "D".toList exTree2 ≠ metaDocText "D".toList [] exTree2 :=
  ⟨C01_meta_canonical_read_general Env.ascii "D".toList [] exTree2 (by decide) (by decide) (by simp) exTree2_ok (fun _ _ => rfl),
   rfl, emit_tree_matches Env.ascii "D".toList exTree2 _ (treeNodes_matches canonPos exTree2 _ 0) exTree2_emit,
   by decide +kernel⟩

/-- distinct keys: `doc.meta` is a Python dict, so a `metaKv` with a repeated key does not denote a document.  The model's
list can hold one; then the emitter writes both lines, the reader keeps the FIRST position with the LAST value (and warns),
and the second emission differs from the first. -/
def dupFields : List FLine := [⟨"A".toList, .int 1⟩, ⟨"B".toList, .int 2⟩, ⟨"A".toList, .int 3⟩]

example : (metaDocRead "D".toList dupFields []).metaKv = [("A".toList, .val (.int 3)), ("B".toList, .val (.int 2))] :=
  MetaParse.metaKvEqB_sound (by decide)

example : (match emit Env.ascii (metaDoc "D".toList canonPos dupFields []) with
    | some text => (match Parser.parseWithWarnings Env.ascii text with
        | .ok (d, _, w) => (emit Env.ascii d != some text) && (w == [.duplicateKey "A".toList 3 5 [3, 5]])
        | .error _ => false)
    | none => false) = true := by decide +kernel

/-- `MetaEmitOK`: a string that needs no quotes is not written quoted (so `.qstr "abc"` does not describe the emitter's
text); and META differs from the body: a bare word under `PATTERN` stays bare in META, the body emitter quotes it. -/
example : ¬ (FLine.mk "K".toList (.qstr "abc".toList)).MetaEmitOK := by decide
example : (FLine.mk "PATTERN".toList (.bare "abc".toList)).MetaEmitOK ∧ ¬ (FLine.mk "PATTERN".toList (.bare "abc".toList)).EmitOK := by
  constructor
  · decide
  · simp only [FLine.EmitOK]; decide

/-- `FLine.OK` on field keys: a key with a reserved-word prefix (`null-x`) is identifier-shaped for the emitter, but the
lexer rejects the emitted line (E005 at the `-`), as in the body. -/
example : isIdentifierText "null-x".toList = true ∧ hasReservedPrefix "null-x".toList = true ∧
    Parser.parse Env.ascii "===D===\nMETA:\n  null-x::1\nZ::true\n===END===\n".toList = .error (.lexer "E005".toList 3 7) := by
  refine ⟨by decide, by decide, ?_⟩
  have h : (match Parser.parse Env.ascii "===D===\nMETA:\n  null-x::1\nZ::true\n===END===\n".toList with
      | .error e => e == .lexer "E005".toList 3 7 | .ok _ => false) = true := by decide +kernel
  cases hx : Parser.parse Env.ascii "===D===\nMETA:\n  null-x::1\nZ::true\n===END===\n".toList with
  | ok d => rw [hx] at h; cases h
  | error e => rw [hx] at h; simp only [beq_iff_eq] at h; rw [h]

end Octave.C01
