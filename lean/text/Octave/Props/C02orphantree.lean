/-
C02 (content preserved) / C01 (fixed point) on documents with nested blocks, comments AND ORPHAN COMMENTS — the document-level
statement, lexer side included, for all inputs of the class:

  an envelope `===NAME===`, a forest of `OrphNode`s — lines `KEY::scalar` with ANY number of leading comment lines and an
  optional trailing comment; blocks `KEY:` with ANY number of leading comment lines, children two spaces deeper, and ANY number
  of ORPHAN comment lines that END the block (after the last child, at the children's indentation; a block may consist of
  orphans only) — ANY depth, ANY width —, then ANY number of trailing comment lines of the document, `===END===`.

This is the class of `Props/C01ctree` (`CNode`) extended by `orph`; `Props/C02orphans` had the parser half only.

  * `C02_orphantree_emit` / `…_emit_matches`   the bytes the emitter writes (`orphDocText`): the orphan `Comment` children of a block
                                        at depth `d` are lines `indent(d+1) // text` behind the block's other children;
  * `C02_orphantree_lexes`              the exact tokens of that text (positions included): an orphan line of a block at depth `d`
                                        is `INDENT(2·(d+1)) COMMENT(text) NEWLINE`; no receipt other than identifier notes;
  * `C02_orphantree_canonical_is_readable`   the strict AND the lenient reader return exactly the document `orphDoc … canonPos`:
                                        the orphans are `Comment` nodes INSIDE their block, behind its children, in order;
  * `C02_orphantree_fixed_point` (`…_matches`)   emit → read → emit: the same bytes;
  * `C02_orphantree_content_preserved`  the sections read back carry the tree (`orphTreeMatches`);
  * `C02_orphantree_comments_in_order`  every comment text — leading, trailing, orphan, document-trailing — comes back, in
                                        document order.

Hypotheses as in `Props/C01ctree` (`isEnvName`, `name ≠ END`, `orphTreeOK` — now also `CommentOK` of every orphan —,
`orphTreeEmitOK`, `CommentOK` of the document's trailing comments, no un-commented `META` first, NFC-stable lines).

The real code (`===D===\nB:\n  K::1\n  // o1\n  // o2\nA::2\n===END===\n`, and the nested variant
`B:\n  K::1\n  C:\n    X::1\n    // i1\n  // o1\n  // o2\nA::2`): `B = [K, Comment o1, Comment o2]`, `C = [X, Comment i1]`, both
re-emitted byte for byte by the strict and by the lenient reader — the model agrees (examples below); no finding.
-/
import Octave.Lemmas.OrphanBridge
import Octave.Props.C02orphans
import Octave.Props.C01ctree
namespace Octave.C02
open Octave Lexer Emitter

/-- **the emitter on a tree with orphan comments** (any AST that carries the tree, whatever positions its nodes hold): exactly
`orphDocText` — per block `KEY:`, the children, then one line `indent(d+1) // text` per orphan. -/
theorem C02_orphantree_emit_matches (env : Env) (name : Str) (nodes : List OrphNode) (trailing : List Str) (sections : List Node)
    (hm : orphTreeMatches nodes sections) (h : orphTreeEmitOK env nodes) (htr : ∀ c ∈ trailing, env.strip c = c) :
    emit env { name := name, sections := sections, trailingComments := trailing } = some (orphDocText name nodes trailing) :=
  orph_emit_tree_matches env name nodes trailing sections hm h htr

theorem C02_orphantree_emit (env : Env) (name : Str) (pos : Nat → Nat → Nat × Nat) (nodes : List OrphNode) (trailing : List Str)
    (h : orphTreeEmitOK env nodes) (htr : ∀ c ∈ trailing, env.strip c = c) :
    emit env (orphDoc name pos nodes trailing) = some (orphDocText name nodes trailing) :=
  orph_emit_tree env name pos nodes trailing h htr

/-- the text of a block at depth `d`, written out: leading comments, header, children, ORPHANS AT THE CHILDREN'S INDENT. -/
theorem orphBlock_text (key : Str) (cs : List OrphNode) (orph lead : List Str) (d : Nat) :
    (OrphNode.block key cs orph lead).text d
      = leadText d lead ++ (indentStr d ++ (key ++ ':' :: '\n' :: (orphTreeText (d + 1) cs ++ leadText (d + 1) orph))) := by
  simp only [OrphNode.text]

/-- **the lexer on that text, exactly** (both modes). -/
theorem C02_orphantree_lexes (env : Env) (lenient : Bool) (name : Str) (nodes : List OrphNode) (trailing : List Str)
    (hn : isEnvName name = true) (hne : name ≠ "END".toList) (hok : orphTreeOK env nodes)
    (htr : ∀ c ∈ trailing, CommentOK env c)
    (hnfc : ∀ l ∈ splitLines (orphDocText name nodes trailing), env.nfc l = l) :
    tokenize env (orphDocText name nodes trailing) lenient =
      .ok (orphDocToks name nodes trailing, (orphTreeRepsRev 0 2 nodes).reverse) :=
  orph_tokenize_tree env lenient name nodes trailing hn hne hok htr hnfc

/-- the lexer half in the vocabulary of the parser half. -/
theorem orphtree_text_lexes (env : Env) (lenient : Bool) (name : Str) (nodes : List OrphNode) (trailing : List Str)
    (hn : isEnvName name = true) (hne : name ≠ "END".toList) (hok : orphTreeOK env nodes)
    (htr : ∀ c ∈ trailing, CommentOK env c)
    (hnfc : ∀ l ∈ splitLines (orphDocText name nodes trailing), env.nfc l = l) :
    Lexer.tokenize env (Parser.stripFrontmatter env (orphDocText name nodes trailing)).1 lenient
      = .ok (CommentOrphans.oTreeToks (orphFrame name nodes trailing) name (orphPosOf nodes trailing) (orphTreeToP nodes) trailing,
             (orphTreeRepsRev 0 2 nodes).reverse) := by
  rw [orph_stripFrontmatter, ← orphToks_bridge]
  exact orph_tokenize_tree env lenient name nodes trailing hn hne hok htr hnfc

theorem orph_metaFirst_false (nodes : List OrphNode) (hm : orphFirstIsBareMeta nodes = false) :
    CommentOrphans.metaFirstO (orphTreeToP nodes) = false := by
  rw [orph_metaFirst_bridge]; exact hm

/-- the strict reader. -/
theorem C02_orphantree_strict_read (env : Env) (name : Str) (nodes : List OrphNode) (trailing : List Str)
    (hn : isEnvName name = true) (hne : name ≠ "END".toList) (hok : orphTreeOK env nodes)
    (htr : ∀ c ∈ trailing, CommentOK env c) (hm : orphFirstIsBareMeta nodes = false)
    (hnfc : ∀ l ∈ splitLines (orphDocText name nodes trailing), env.nfc l = l) :
    Parser.parse env (orphDocText name nodes trailing) = .ok (orphDoc name canonPos nodes trailing) := by
  have hlex := orphtree_text_lexes env false name nodes trailing hn hne hok htr hnfc
  have := C02_otree_text_read env (orphDocText name nodes trailing) (orphFrame name nodes trailing) name
    (orphPosOf nodes trailing) (orphTreeToP nodes) trailing _ hlex (orph_metaFirst_false nodes hm) (orph_colsOk_posOf nodes trailing)
  rw [this, orph_stripFrontmatter, orphTreeDoc_bridge]
  rfl

/-- the lenient reader, exactly: the same document, the lexer's receipts (identifier notes only), the parser's warnings. -/
theorem C02_orphantree_lenient_read_exact (env : Env) (name : Str) (nodes : List OrphNode) (trailing : List Str)
    (hn : isEnvName name = true) (hne : name ≠ "END".toList) (hok : orphTreeOK env nodes)
    (htr : ∀ c ∈ trailing, CommentOK env c) (hm : orphFirstIsBareMeta nodes = false)
    (hnfc : ∀ l ∈ splitLines (orphDocText name nodes trailing), env.nfc l = l) :
    Parser.parseWithWarnings env (orphDocText name nodes trailing)
      = .ok (orphDoc name canonPos nodes trailing, (orphTreeRepsRev 0 2 nodes).reverse,
             CommentOrphans.warnsList (orphPosOf nodes trailing) (orphTreeToP nodes) [] 0) := by
  have hlex := orphtree_text_lexes env false name nodes trailing hn hne hok htr hnfc
  rw [parseWithWarnings_eq_parseToks env (orphDocText name nodes trailing) _ _ hlex,
    C02_otree_document_read_warnings env (orphFrame name nodes trailing) name (orphPosOf nodes trailing) (orphTreeToP nodes)
      trailing (orph_metaFirst_false nodes hm) (orph_colsOk_posOf nodes trailing)]
  simp only [orph_stripFrontmatter, orphTreeDoc_bridge]
  rfl

/-- **the canonical text of a document with orphan comments is accepted by the strict and by the lenient reader, and both
return exactly the document**: every node at the text line of its key (comment and orphan lines count), column `1 + 2·depth`;
the orphans of a block are `Comment` nodes inside that block, behind its children, in order (`OrphNode.node`). -/
theorem C02_orphantree_canonical_is_readable (env : Env) (name : Str) (nodes : List OrphNode) (trailing : List Str)
    (hn : isEnvName name = true) (hne : name ≠ "END".toList) (hok : orphTreeOK env nodes)
    (htr : ∀ c ∈ trailing, CommentOK env c) (hm : orphFirstIsBareMeta nodes = false)
    (hnfc : ∀ l ∈ splitLines (orphDocText name nodes trailing), env.nfc l = l) :
    Parser.parse env (orphDocText name nodes trailing) = .ok (orphDoc name canonPos nodes trailing) ∧
    ∃ reps warns, Parser.parseWithWarnings env (orphDocText name nodes trailing)
      = .ok (orphDoc name canonPos nodes trailing, reps, warns) :=
  ⟨C02_orphantree_strict_read env name nodes trailing hn hne hok htr hm hnfc, _, _,
   C02_orphantree_lenient_read_exact env name nodes trailing hn hne hok htr hm hnfc⟩

/-- `orphTreeOK` gives the strip-stability the emitter needs for comments; the spelling of the values is `orphTreeEmitOK`. -/
theorem C02_orphantree_fixed_point (env : Env) (name : Str) (pos : Nat → Nat → Nat × Nat) (nodes : List OrphNode)
    (trailing : List Str) (hn : isEnvName name = true) (hne : name ≠ "END".toList) (hok : orphTreeOK env nodes)
    (hem : orphTreeEmitOK env nodes) (htr : ∀ c ∈ trailing, CommentOK env c) (hm : orphFirstIsBareMeta nodes = false)
    (hnfc : ∀ l ∈ splitLines (orphDocText name nodes trailing), env.nfc l = l) :
    ∃ text d', emit env (orphDoc name pos nodes trailing) = some text ∧ Parser.parse env text = .ok d' ∧
      emit env d' = some text ∧
      (∃ reps warns, Parser.parseWithWarnings env text = .ok (d', reps, warns)) :=
  ⟨orphDocText name nodes trailing, orphDoc name canonPos nodes trailing,
   orph_emit_tree env name pos nodes trailing hem (fun c hc => (htr c hc).1),
   C02_orphantree_strict_read env name nodes trailing hn hne hok htr hm hnfc,
   orph_emit_tree env name _ nodes trailing hem (fun c hc => (htr c hc).1),
   _, _, C02_orphantree_lenient_read_exact env name nodes trailing hn hne hok htr hm hnfc⟩

/-- the same for ANY AST that carries the tree (any positions at all in the nodes). -/
theorem C02_orphantree_fixed_point_matches (env : Env) (name : Str) (nodes : List OrphNode) (trailing : List Str)
    (sections : List Node) (hmt : orphTreeMatches nodes sections)
    (hn : isEnvName name = true) (hne : name ≠ "END".toList) (hok : orphTreeOK env nodes)
    (hem : orphTreeEmitOK env nodes) (htr : ∀ c ∈ trailing, CommentOK env c) (hm : orphFirstIsBareMeta nodes = false)
    (hnfc : ∀ l ∈ splitLines (orphDocText name nodes trailing), env.nfc l = l) :
    ∃ text d', emit env { name := name, sections := sections, trailingComments := trailing } = some text ∧
      Parser.parse env text = .ok d' ∧ emit env d' = some text :=
  ⟨orphDocText name nodes trailing, orphDoc name canonPos nodes trailing,
   orph_emit_tree_matches env name nodes trailing sections hmt hem (fun c hc => (htr c hc).1),
   C02_orphantree_strict_read env name nodes trailing hn hne hok htr hm hnfc,
   orph_emit_tree env name _ nodes trailing hem (fun c hc => (htr c hc).1)⟩

/-- **content preserved**: name, no META, no separator, the document's trailing comments, and sections that carry the tree —
per block its children in order FOLLOWED BY ITS ORPHANS as `Comment` nodes (`orphTreeMatches`). -/
theorem C02_orphantree_content_preserved (env : Env) (name : Str) (pos : Nat → Nat → Nat × Nat) (nodes : List OrphNode)
    (trailing : List Str) (hn : isEnvName name = true) (hne : name ≠ "END".toList) (hok : orphTreeOK env nodes)
    (hem : orphTreeEmitOK env nodes) (htr : ∀ c ∈ trailing, CommentOK env c) (hm : orphFirstIsBareMeta nodes = false)
    (hnfc : ∀ l ∈ splitLines (orphDocText name nodes trailing), env.nfc l = l) :
    ∃ text d', emit env (orphDoc name pos nodes trailing) = some text ∧ Parser.parse env text = .ok d' ∧
      d'.name = name ∧ d'.metaKv = [] ∧ d'.hasSeparator = false ∧ d'.trailingComments = trailing ∧
      d'.grammarVersion = none ∧ d'.rawFrontmatter = none ∧ orphTreeMatches nodes d'.sections :=
  ⟨orphDocText name nodes trailing, orphDoc name canonPos nodes trailing,
   orph_emit_tree env name pos nodes trailing hem (fun c hc => (htr c hc).1),
   C02_orphantree_strict_read env name nodes trailing hn hne hok htr hm hnfc, rfl, rfl, rfl, rfl, rfl, rfl,
   orphTreeNodes_matches canonPos nodes 0 0⟩

/-! ### the comments of an AST, in document order (with `Comment` nodes) -/

mutual
/-- the comment texts an AST node carries, in document order: leading comments, then the trailing comment (assignment) or the
comments of the children (block); a `Comment` node is its own text. -/
def orphNodeComments : Node → List Str
  | .assign _ _ _ _ lead trail => lead ++ trail.toList
  | .block _ children _ _ lead _ => lead ++ orphNodesComments children
  | .comment t => [t]
  | _ => []
def orphNodesComments : List Node → List Str
  | [] => []
  | n :: ns => orphNodeComments n ++ orphNodesComments ns
end

theorem orphNodesComments_append : ∀ (a b : List Node), orphNodesComments (a ++ b) = orphNodesComments a ++ orphNodesComments b
  | [], b => rfl
  | x :: a, b => by simp only [List.cons_append, orphNodesComments, orphNodesComments_append a b, List.append_assoc]

theorem orphNodesComments_comments : ∀ (cs : List Str), orphNodesComments (cs.map Node.comment) = cs
  | [] => rfl
  | c :: cs => by simp only [List.map_cons, orphNodesComments, orphNodeComments, orphNodesComments_comments cs,
      List.cons_append, List.nil_append]

mutual
theorem orphNodeComments_of_matches : ∀ (t : OrphNode) (n : Node), t.Matches n → orphNodeComments n = t.comments
  | .line ln lead trail, n, h => by
    simp only [OrphNode.Matches] at h
    obtain ⟨l, c, rfl⟩ := h
    simp only [orphNodeComments, OrphNode.comments]
  | .block key cs orph lead, n, h => by
    simp only [OrphNode.Matches] at h
    obtain ⟨ch, l, c, rfl, hm⟩ := h
    simp only [orphNodeComments, OrphNode.comments, orphNodesComments_append, orphNodesComments_comments,
      orphNodesComments_of_matches cs ch hm]
theorem orphNodesComments_of_matches : ∀ (ts : List OrphNode) (ns : List Node), orphTreeMatches ts ns →
    orphNodesComments ns = orphTreeComments ts
  | [], ns, h => by
    simp only [orphTreeMatches] at h
    subst h; rfl
  | t :: ts, ns, h => by
    simp only [orphTreeMatches] at h
    obtain ⟨n, ns', rfl, h1, h2⟩ := h
    simp only [orphNodesComments, orphTreeComments, orphNodeComments_of_matches t n h1, orphNodesComments_of_matches ts ns' h2]
end

/-- **no comment is lost, invented, moved or reordered — orphans included**: the comment texts of the document read back
(those on the nodes and the `Comment` nodes, in document order, then `trailingComments`) are exactly those of the document
written (`orphDocComments`: per block its leading comments, its children's, then its orphans). -/
theorem C02_orphantree_comments_in_order (env : Env) (name : Str) (pos : Nat → Nat → Nat × Nat) (nodes : List OrphNode)
    (trailing : List Str) (hn : isEnvName name = true) (hne : name ≠ "END".toList) (hok : orphTreeOK env nodes)
    (hem : orphTreeEmitOK env nodes) (htr : ∀ c ∈ trailing, CommentOK env c) (hm : orphFirstIsBareMeta nodes = false)
    (hnfc : ∀ l ∈ splitLines (orphDocText name nodes trailing), env.nfc l = l) :
    ∃ text d', emit env (orphDoc name pos nodes trailing) = some text ∧ Parser.parse env text = .ok d' ∧
      orphNodesComments d'.sections ++ d'.trailingComments = orphDocComments nodes trailing := by
  obtain ⟨text, d', h1, h2, _, _, _, h6, _, _, h9⟩ :=
    C02_orphantree_content_preserved env name pos nodes trailing hn hne hok hem htr hm hnfc
  exact ⟨text, d', h1, h2, by rw [orphNodesComments_of_matches nodes _ h9, h6]; rfl⟩

/-! ### non-vacuity: the two texts run on the real code, and a larger one -/

/-- `B:` with two orphans behind its child, then a top-level line. -/
def orphEx1 : List OrphNode :=
  [.block "B".toList [.line ⟨"K".toList, .int 1⟩ [] none] ["o1".toList, "o2".toList] [],
   .line ⟨"A".toList, .int 2⟩ [] none]

/-- nested: `C` ends with its own orphan, then the orphans of `B`; `E` has orphans only; comments of every other kind. -/
def orphEx2 : List OrphNode :=
  [.block "B".toList
     [.line ⟨"K".toList, .int 1⟩ ["lk".toList] (some "tk".toList),
      .block "C".toList [.line ⟨"X".toList, .int 1⟩ [] none] ["i1".toList] ["lc".toList]]
     ["o1".toList, "o2".toList] [],
   .block "E".toList [] ["only".toList, []] [],
   .line ⟨"A".toList, .int 2⟩ [] none]

theorem orphEx1_text : orphDocText "D".toList orphEx1 []
    = "===D===\nB:\n  K::1\n  // o1\n  // o2\nA::2\n===END===\n".toList := by decide +kernel

theorem orphEx2_text : orphDocText "D".toList orphEx2 ["dt".toList]
    = ("===D===\nB:\n  // lk\n  K::1 // tk\n  // lc\n  C:\n    X::1\n    // i1\n  // o1\n  // o2\nE:\n  // only\n  //\nA::2\n" ++
       "// dt\n===END===\n").toList := by decide +kernel

theorem orphEx1_ok : orphTreeOK Env.ascii orphEx1 := by
  simp only [orphEx1, orphTreeOK, OrphNode.OK, FLine.OK, FScalar.OK]
  decide
theorem orphEx2_ok : orphTreeOK Env.ascii orphEx2 := by
  simp only [orphEx2, orphTreeOK, OrphNode.OK, FLine.OK, FScalar.OK]
  decide
theorem orphEx1_emit : orphTreeEmitOK Env.ascii orphEx1 := by
  simp only [orphEx1, orphTreeEmitOK, OrphNode.EmitOK, CNode.LineEmitOK, FLine.EmitOK]
  decide
theorem orphEx2_emit : orphTreeEmitOK Env.ascii orphEx2 := by
  simp only [orphEx2, orphTreeEmitOK, OrphNode.EmitOK, CNode.LineEmitOK, FLine.EmitOK]
  decide

/-- the document read from the first text (what the real reader returns: `B = [K, Comment o1, Comment o2]`, lines/columns too). -/
def orphEx1Doc : Document :=
  { name := "D".toList,
    sections :=
      [ .block "B".toList [ .assign "K".toList (.int 1) 3 3 [] none, .comment "o1".toList, .comment "o2".toList ] 2 1 [] none,
        .assign "A".toList (.int 2) 6 1 [] none ] }

example : orphDoc "D".toList canonPos orphEx1 [] = orphEx1Doc := rfl

/-- the theorem applied to the text of the brief. -/
example : Parser.parse Env.ascii "===D===\nB:\n  K::1\n  // o1\n  // o2\nA::2\n===END===\n".toList = .ok orphEx1Doc ∧
    ∃ reps warns, Parser.parseWithWarnings Env.ascii "===D===\nB:\n  K::1\n  // o1\n  // o2\nA::2\n===END===\n".toList
      = .ok (orphEx1Doc, reps, warns) := by
  rw [← orphEx1_text]
  exact C02_orphantree_canonical_is_readable Env.ascii "D".toList orphEx1 [] (by decide) (by decide) orphEx1_ok (by decide)
    (by decide) (fun _ _ => rfl)

/-- the nested document read back. -/
def orphEx2Doc : Document :=
  { name := "D".toList,
    sections :=
      [ .block "B".toList
          [ .assign "K".toList (.int 1) 4 3 ["lk".toList] (some "tk".toList),
            .block "C".toList [ .assign "X".toList (.int 1) 7 5 [] none, .comment "i1".toList ] 6 3 ["lc".toList] none,
            .comment "o1".toList, .comment "o2".toList ] 2 1 [] none,
        .block "E".toList [ .comment "only".toList, .comment [] ] 11 1 [] none,
        .assign "A".toList (.int 2) 14 1 [] none ],
    trailingComments := ["dt".toList] }

example : orphDoc "D".toList canonPos orphEx2 ["dt".toList] = orphEx2Doc := rfl

example : Parser.parse Env.ascii (orphDocText "D".toList orphEx2 ["dt".toList]) = .ok orphEx2Doc ∧
    ∃ reps warns, Parser.parseWithWarnings Env.ascii (orphDocText "D".toList orphEx2 ["dt".toList]) = .ok (orphEx2Doc, reps, warns) :=
  C02_orphantree_canonical_is_readable Env.ascii "D".toList orphEx2 ["dt".toList] (by decide) (by decide) orphEx2_ok (by decide)
    (by decide) (fun _ _ => rfl)

/-- the lexer theorem applied; the tokens of the orphan lines of `B`, written out. -/
example : tokenize Env.ascii (orphDocText "D".toList orphEx1 []) false = .ok (orphDocToks "D".toList orphEx1 [], []) :=
  C02_orphantree_lexes Env.ascii false "D".toList orphEx1 [] (by decide) (by decide) orphEx1_ok (by decide) (fun _ _ => rfl)

example : ((orphDocToks "D".toList orphEx1 []).drop 10).take 6
    = [tIndent 2 4 1, tComment "o1".toList 4 3, tNewline 4 8, tIndent 2 5 1, tComment "o2".toList 5 3, tNewline 5 8] := by decide

/-- the emitter theorem applied, whatever positions the AST carries. -/
example : emit Env.ascii (orphDoc "D".toList (fun _ _ => (7, 7)) orphEx2 ["dt".toList])
    = some (orphDocText "D".toList orphEx2 ["dt".toList]) :=
  C02_orphantree_emit Env.ascii "D".toList _ orphEx2 ["dt".toList] orphEx2_emit (by decide)

/-- emit → read (strict and lenient) → emit: the same bytes. -/
example : ∃ text d', emit Env.ascii (orphDoc "D".toList (fun _ _ => (0, 0)) orphEx2 ["dt".toList]) = some text ∧
    Parser.parse Env.ascii text = .ok d' ∧ emit Env.ascii d' = some text ∧
    (∃ reps warns, Parser.parseWithWarnings Env.ascii text = .ok (d', reps, warns)) :=
  C02_orphantree_fixed_point Env.ascii "D".toList _ orphEx2 ["dt".toList] (by decide) (by decide) orphEx2_ok orphEx2_emit
    (by decide) (by decide) (fun _ _ => rfl)

/-- all nine comments come back, in document order (orphans behind the children of their block). -/
example : ∃ text d', emit Env.ascii (orphDoc "D".toList (fun _ _ => (0, 0)) orphEx2 ["dt".toList]) = some text ∧
    Parser.parse Env.ascii text = .ok d' ∧
    orphNodesComments d'.sections ++ d'.trailingComments =
      ["lk".toList, "tk".toList, "lc".toList, "i1".toList, "o1".toList, "o2".toList, "only".toList, [], "dt".toList] := by
  obtain ⟨t, d, h1, h2, h3⟩ := C02_orphantree_comments_in_order Env.ascii "D".toList (fun _ _ => (0, 0)) orphEx2 ["dt".toList]
    (by decide) (by decide) orphEx2_ok orphEx2_emit (by decide) (by decide) (fun _ _ => rfl)
  exact ⟨t, d, h1, h2, by rw [h3]; rfl⟩

/-- independent of the theorems: the whole model evaluated on the nested text gives the same document, and re-emits it. -/
example : C01.reEmit orphEx2Doc = some (orphDocText "D".toList orphEx2 ["dt".toList]) := by decide +kernel

/-- the class of `Props/C01ctree` is the sub-class without orphans (same text). -/
example : orphDocText "D".toList [.block "B".toList [.line ⟨"K".toList, .int 1⟩ [] none] [] []] []
    = cDocText "D".toList [.block "B".toList [.line ⟨"K".toList, .int 1⟩ [] none] []] [] := by decide

/-! ### necessity (on the model; same on the real code) -/

/-- `CommentOK` of an orphan (strip-stable) is necessary: `//  x` is read back as `x` and the second emission differs. -/
example : C01.reEmit { name := "D".toList, sections := [.block "B".toList [.assign "K".toList (.int 1) 0 0 [] none, .comment " x".toList] 0 0 [] none] }
    = some "===D===\nB:\n  K::1\n  // x\n===END===\n".toList := by decide +kernel
example : emit Env.ascii { name := "D".toList, sections := [.block "B".toList [.assign "K".toList (.int 1) 0 0 [] none, .comment " x".toList] 0 0 [] none] }
    = some "===D===\nB:\n  K::1\n  //  x\n===END===\n".toList := by decide +kernel

/-- outside the class: a `Comment` node BETWEEN two children is not an orphan — it is written at the same place (the text is
still a fixed point) but read back as a LEADING comment of the next child: the block then has two children, not three. -/
def orphMidDoc : Document :=
  { name := "D".toList, sections := [.block "B".toList
      [.assign "K".toList (.int 1) 0 0 [] none, .comment "m".toList, .assign "L".toList (.int 2) 0 0 [] none] 0 0 [] none] }
example : C01.reEmit orphMidDoc = some "===D===\nB:\n  K::1\n  // m\n  L::2\n===END===\n".toList := by decide +kernel
example : (match C01.reRead orphMidDoc with
    | some (.ok d) => (match d.sections with
        | [.block _ [.assign _ _ _ _ [] none, .assign _ _ _ _ [m] none] _ _ _ _] => m == "m".toList
        | _ => false)
    | _ => false) = true := by decide +kernel

end Octave.C02
