/-
C01 — Canonicalisation is idempotent and its output is re-readable.
Property theorems over the executable model.  The general round-trip theorem over the documented
surface grammar (DESIGN.md §6.3 `parse_render`) is an open proof target; what is proved here is
listed below, the rest of the property is backed by the correspondence and the oracle (see the
evidence file).
-/
import Octave.Model.Canon
import Octave.Props.Facts
namespace Octave.C01
open Octave

/-- `n` further passes of the strict canonicaliser. -/
def passes (env : Env) : Nat → Str → Except Exc Str
  | 0, c => .ok c
  | n + 1, c => (canonStrict env c).bind (passes env n)

/-- closure: once a text is a fixed point of the strict canonicaliser it stays one under any number
of further passes ("a canonical file never changes, and never becomes unreadable"). -/
theorem C01_fixedpoint_stable (env : Env) (c : Str) (h : canonStrict env c = .ok c) :
    ∀ n : Nat, passes env n c = .ok c := by
  intro n
  induction n with
  | zero => rfl
  | succ k ih => simp [passes, h, Except.bind, ih]

/-- non-vacuity: a concrete nested document with every scalar kind is such a fixed point of the model. -/
example : isOkStr (canonStrict Env.ascii "===D===\nMETA:\n  TYPE::X\nB:\n  K::\"a b\"\n  L::[1,true]\n  N::null\n===END===\n".toList)
    "===D===\nMETA:\n  TYPE::X\nB:\n  K::\"a b\"\n  L::[1,true]\n  N::null\n===END===\n".toList = true := by
  decide +kernel

end Octave.C01
