/-
C01 / C03 / C07 on flat documents whose values are OPERATOR EXPRESSIONS — the ASCII-alias spellings converge, with receipts.

A document of the class is an envelope `===NAME===`, any number of lines `KEY::value` and `===END===`; a value is a scalar
(`FScalar`, as in `C01flat` / `C03flat`) or an operator expression `w0 op1 w1 … opn wn` with n ≥ 1 (`Expr`):

  * operators: the seven on which the emitter's `_UNICODE_OPS` / `EXPRESSION_PATTERN` and the parser's `EXPRESSION_OPERATORS`
    agree — `→ ⊕ ⧺ ⇌ ∨ ∧ @` (`Op`); any number of `⇌` (a second one only adds the `chained_tension` WARNING);
  * operands: `wordOK` — identifier-shaped (`[A-Za-z_][A-Za-z0-9_.\-]*`, no trailing hyphen) without reserved prefix
    (`true` `false` `null` `vs` followed by a non-word char or the end).  Decidable: `Expr.OK`.

In the AST the value is the STRING `w0 ++ op1 ++ w1 ++ …` (`Expr.text`); the emitter writes it bare (`needsQuotes_expr`, for
every expression of the class).  A *spelling* (`List OpSp` per line) chooses, per operator occurrence and independently:

  * the form: the Unicode operator, its ASCII alias (`->` `+` `~` `<->` `|` `&`; `@` has none), or for `⇌` the word `vs`
    (written with at least one space on either side, as the lexer's `\bvs\b` demands);
  * any number of spaces before and after the operator (the real reader accepts them; not a freedom C03 lists).

Proved for EVERY document of the class and EVERY spelling (every line, every occurrence independently):

  * `C03_expr_spelled_lexes`        the lexer (both modes) reads the spelled text as exactly `edocToks`: per occurrence one
                                    token of the operator's type whose value is the Unicode operator and whose `normFrom`
                                    is the alias, and `edocReps`;
  * `C03_expr_spelled_read` / `…_lenient`   `parse` / `parse_with_warnings` return the SAME document as for the canonical
                                    text (an expression value = the string of its canonical text), with the exact lexer
                                    repairs and parser warnings;
  * `C01_expr_canonical_is_readable`, `C01_expr_fixed_point`   canonical text → strict read → same document → same bytes;
  * `C03_expr_alias_converge`       `emit(parse(x))` = `emit(parse_with_warnings(x)[0])` = the canonical text;
  * `C03_expr_spellings_agree`      any two spellings of the same document canonicalise to identical bytes;
  * `C07_expr_alias_receipts`       the normalisation receipts of a spelled text are, in reading order, exactly
                                    `docReceipts`: ONE per occurrence written with an alias (`tailReceipts_length`) —
                                    original = the alias, replacement = the Unicode operator, line, column of the operator
                                    itself (`opReps_alias`) — and none for a canonical occurrence (`opReps_canon`);
  * `C07_expr_canonical_no_receipts`   the canonical text yields none.

Hypotheses: `isEnvName name`, `name ≠ "END"`, `ELine.OK` (key identifier-shaped without reserved prefix; scalar as the
emitter spells it / `Expr.OK`), `ELine.EmitOK` (for an expression line: the key is not `PATTERN` / `REGEX`, which force quotes),
first key not `META`, `hnfc` (NFC leaves every line of the text unchanged), and `OpEnv env`: the environment classifies no
operator character as identifier-body char or digit (they are symbols, categories Sm / So; a fact about CPython's `unicodedata`, trivial for
`Env.ascii`) — the first statements in this engine about non-ASCII input that needs `Env`.
What the real code does where a hypothesis fails is recorded at the end of this file (model) and in the prover's report (real code).
-/
import Octave.Lemmas.ExprBridge
import Octave.Model.Canon
import Octave.Props.C03flat
namespace Octave.Expr
open Octave Lexer Emitter Parser FlatParse Spell

/-! ### the normalisation receipts of the spelled text -/

theorem scalar_reps_norm (v : FScalar) (l n : Nat) : (v.reps l (1 + n + 2)).reverse.filter isNormalization = [] := by
  have h := C01.linesRepsRev_not_norm [⟨List.replicate n 'a', v⟩] l
  simp only [linesRepsRev, FLine.repsRev, List.nil_append, List.filter_append, List.append_eq_nil_iff, List.length_replicate] at h
  exact h.1

theorem elineReps_norm (x : SE) (l : Nat) : ((x.1.repsRev x.2 l 1).filter isNormalization).reverse = lineReceipts l x := by
  obtain ⟨⟨key, v⟩, sps⟩ := x
  cases v with
  | sc v =>
    simp only [ELine.repsRev, EVal.repsRev, List.filter_append, filter_idReps, scalar_reps_norm, lineReceipts]; rfl
  | ex e =>
    simp only [ELine.repsRev, EVal.repsRev, List.filter_append, filter_idReps, List.append_nil, tailReps_norm, lineReceipts]

/-- **the normalisation receipts of the spelled text** are, in reading order, exactly `docReceipts`. -/
theorem edocReps_norm (sl : List SE) : (edocReps sl).filter isNormalization = docReceipts 2 sl := by
  have h : ∀ (sl : List SE) (l : Nat), ((elinesRepsRev l sl).filter isNormalization).reverse = docReceipts l sl := by
    intro sl
    induction sl with
    | nil => intro l; rfl
    | cons x r ih =>
      intro l
      simp only [elinesRepsRev, docReceipts, List.filter_append, List.reverse_append, elineReps_norm, ih]
  rw [edocReps, List.filter_reverse, h]

end Octave.Expr

namespace Octave.C03
open Octave Lexer Emitter Parser FlatParse Spell Expr

/-! ### lexer -/

/-- **the lexer on every alias spelling** (both modes): exactly `edocToks` — per operator occurrence one token of the
operator's type carrying the Unicode operator, `normFrom` = the alias it was written with — and `edocReps`. -/
theorem C03_expr_spelled_lexes (env : Env) (he : OpEnv env) (lenient : Bool) (name : Str) (sl : List SE)
    (hn : isEnvName name = true) (hne : name ≠ "END".toList) (hok : ∀ x ∈ sl, x.1.OK)
    (hnfc : ∀ l ∈ splitLines (edocText name sl), env.nfc l = l) :
    tokenize env (edocText name sl) lenient = .ok (edocToks name sl, edocReps sl) :=
  tokenize_edoc env he lenient name sl hn hne hok hnfc

/-! ### parser -/

/-- text level, given the lexer half: both entry points on a text that lexes to `mixedToks`. -/
theorem read_of_mixedToks (env : Env) (text : Str) (reps : List Repair) (f : Frame) (name : Str) (lines : List PLine)
    (hs : Parser.stripFrontmatter env text = (text, none))
    (hlex : Lexer.tokenize env text = .ok (mixedToks f name lines, reps))
    (hwf : ∀ ln ∈ lines, ln.WF) (hm : mixedMetaFirst lines = false) :
    Parser.parse env text = .ok { name := name, sections := lines.map PLine.node } ∧
    Parser.parseWithWarnings env text
      = .ok ({ name := name, sections := lines.map PLine.node }, reps, mixedWarns [] lines) := by
  have hlex' : Lexer.tokenize env (Parser.stripFrontmatter env text).1 = .ok (mixedToks f name lines, reps) := by
    rw [hs]; exact hlex
  constructor
  · obtain ⟨st', h1, _⟩ := parseDocument_mixed f name lines hwf hm (Parser.initState env (mixedToks f name lines) true) rfl rfl
    rw [C02.parse_eq_parseToks env _ _ _ hlex', hs]
    unfold C02.parseToks
    simp only [StateT.run, h1, bind, Except.bind, pure, Except.pure, Except.map]
  · obtain ⟨st', h1, h2⟩ := parseDocument_mixed f name lines hwf hm (Parser.initState env (mixedToks f name lines) false) rfl rfl
    have h2' : st'.warnings = (mixedWarns [] lines).reverse := by
      rw [h2]; simp [Parser.initState]
    rw [C02.parseWithWarnings_eq_parseToks env _ _ _ hlex', hs]
    unfold C02.parseToksWithWarnings
    simp only [StateT.run, h1, h2', bind, Except.bind, pure, Except.pure, Except.map, List.reverse_reverse]

/-- **every alias spelling is read as the same document** (strict entry point `parse`): the name, the keys in order, the
values — an expression value is the string of its CANONICAL text, whatever aliases and spaces it was written with. -/
theorem C03_expr_spelled_read (env : Env) (he : OpEnv env) (name : Str) (sl : List SE)
    (hn : isEnvName name = true) (hne : name ≠ "END".toList) (hok : ∀ x ∈ sl, x.1.OK)
    (hm : efirstNotMeta (elinesOf sl) = true)
    (hnfc : ∀ l ∈ splitLines (edocText name sl), env.nfc l = l) :
    Parser.parse env (edocText name sl) = .ok (edoc name (fun i => (i + 2, 1)) (elinesOf sl)) := by
  have hlex := tokenize_edoc env he false name sl hn hne hok hnfc
  rw [edocToks_bridge] at hlex
  have h := (read_of_mixedToks env (edocText name sl) _ _ name _ (stripFrontmatter_edoc env name sl) hlex
    (toMLines_wf sl hok 2) (mixedMetaFirst_bridge sl 2 hm)).1
  rw [h, pnodes_bridge sl 0]
  rfl

/-- … and by the lenient entry point (`parse_with_warnings`), with exactly the lexer repairs `edocReps` and the parser
warnings of the lines. -/
theorem C03_expr_spelled_read_lenient (env : Env) (he : OpEnv env) (name : Str) (sl : List SE)
    (hn : isEnvName name = true) (hne : name ≠ "END".toList) (hok : ∀ x ∈ sl, x.1.OK)
    (hm : efirstNotMeta (elinesOf sl) = true)
    (hnfc : ∀ l ∈ splitLines (edocText name sl), env.nfc l = l) :
    Parser.parseWithWarnings env (edocText name sl)
      = .ok (edoc name (fun i => (i + 2, 1)) (elinesOf sl), edocReps sl, mixedWarns [] (toMLines 2 sl)) := by
  have hlex := tokenize_edoc env he false name sl hn hne hok hnfc
  rw [edocToks_bridge] at hlex
  have h := (read_of_mixedToks env (edocText name sl) _ _ name _ (stripFrontmatter_edoc env name sl) hlex
    (toMLines_wf sl hok 2) (mixedMetaFirst_bridge sl 2 hm)).2
  rw [h, pnodes_bridge sl 0]
  rfl

theorem elinesOf_canon (lines : List ELine) : elinesOf (canonSpelling lines) = lines := by
  simp [elinesOf, canonSpelling, List.map_map, Function.comp_def]

theorem canon_ok (lines : List ELine) (hok : ∀ ln ∈ lines, ln.OK) : ∀ x ∈ canonSpelling lines, x.1.OK := by
  intro x hx
  obtain ⟨ln, hln, rfl⟩ := List.mem_map.mp hx
  exact hok ln hln

/-! ### C01: the canonical text is a fixed point -/

/-- the strict reader accepts the canonical text and returns the same document (nodes positioned at their lines). -/
theorem C01_expr_canonical_is_readable (env : Env) (he : OpEnv env) (name : Str) (lines : List ELine)
    (hn : isEnvName name = true) (hne : name ≠ "END".toList) (hok : ∀ ln ∈ lines, ln.OK) (hm : efirstNotMeta lines = true)
    (hnfc : ∀ l ∈ splitLines (ecanonText name lines), env.nfc l = l) :
    Parser.parse env (ecanonText name lines) = .ok (edoc name (fun i => (i + 2, 1)) lines) := by
  have := C03_expr_spelled_read env he name (canonSpelling lines) hn hne (canon_ok lines hok)
    (by rw [elinesOf_canon]; exact hm) hnfc
  rw [elinesOf_canon] at this
  exact this

/-- **C01 on flat documents with expression values: the canonical text is a fixed point.**  Emit the document (the
expression strings are written bare), read the text with the strict reader, emit again: the same bytes. -/
theorem C01_expr_fixed_point (env : Env) (he : OpEnv env) (name : Str) (pos : Nat → Nat × Nat) (lines : List ELine)
    (hn : isEnvName name = true) (hne : name ≠ "END".toList) (hok : ∀ ln ∈ lines, ln.OK) (hem : ∀ ln ∈ lines, ln.EmitOK)
    (hm : efirstNotMeta lines = true) (hnfc : ∀ l ∈ splitLines (ecanonText name lines), env.nfc l = l) :
    ∃ text d', emit env (edoc name pos lines) = some text ∧ Parser.parse env text = .ok d' ∧ d' = edoc name (fun i => (i + 2, 1)) lines ∧
      emit env d' = some text :=
  ⟨ecanonText name lines, edoc name (fun i => (i + 2, 1)) lines, emit_edoc env name pos lines hok hem,
   C01_expr_canonical_is_readable env he name lines hn hne hok hm hnfc, rfl, emit_edoc env name _ lines hok hem⟩

/-! ### C03: convergence -/

/-- **C03 for operator aliases: every alias spelling canonicalises to the canonical text**, through the strict
canonicaliser (`emit(parse(x))`) and through the lenient one (`emit(parse_with_warnings(x)[0])`). -/
theorem C03_expr_alias_converge (env : Env) (he : OpEnv env) (name : Str) (sl : List SE)
    (hn : isEnvName name = true) (hne : name ≠ "END".toList) (hok : ∀ x ∈ sl, x.1.OK) (hem : ∀ x ∈ sl, x.1.EmitOK)
    (hm : efirstNotMeta (elinesOf sl) = true)
    (hnfc : ∀ l ∈ splitLines (edocText name sl), env.nfc l = l) :
    canonStrict env (edocText name sl) = .ok (ecanonText name (elinesOf sl)) ∧
    canonLenient env (edocText name sl) = .ok (ecanonText name (elinesOf sl)) :=
  canon_of_read env _ _ _ _ _ (C03_expr_spelled_read env he name sl hn hne hok hm hnfc)
    (C03_expr_spelled_read_lenient env he name sl hn hne hok hm hnfc)
    (emit_edoc env name _ (elinesOf sl)
      (fun ln hl => by
        obtain ⟨x, hx, rfl⟩ := List.mem_map.mp hl
        exact hok x hx)
      (fun ln hl => by
        obtain ⟨x, hx, rfl⟩ := List.mem_map.mp hl
        exact hem x hx))

/-- **any two alias spellings of the same document canonicalise to identical bytes** (both canonicalisers), and those
bytes are the canonical text. -/
theorem C03_expr_spellings_agree (env : Env) (he : OpEnv env) (name : Str) (sl₁ sl₂ : List SE)
    (hsame : elinesOf sl₁ = elinesOf sl₂)
    (hn : isEnvName name = true) (hne : name ≠ "END".toList) (hok : ∀ ln ∈ elinesOf sl₁, ln.OK) (hem : ∀ ln ∈ elinesOf sl₁, ln.EmitOK)
    (hm : efirstNotMeta (elinesOf sl₁) = true)
    (hnfc₁ : ∀ l ∈ splitLines (edocText name sl₁), env.nfc l = l)
    (hnfc₂ : ∀ l ∈ splitLines (edocText name sl₂), env.nfc l = l) :
    canonStrict env (edocText name sl₁) = canonStrict env (edocText name sl₂) ∧
    canonLenient env (edocText name sl₁) = canonLenient env (edocText name sl₂) ∧
    canonLenient env (edocText name sl₁) = .ok (ecanonText name (elinesOf sl₁)) := by
  have m1 : ∀ x ∈ sl₁, x.1 ∈ elinesOf sl₁ := fun x hx => List.mem_map.mpr ⟨x, hx, rfl⟩
  have m2 : ∀ x ∈ sl₂, x.1 ∈ elinesOf sl₁ := fun x hx => by rw [hsame]; exact List.mem_map.mpr ⟨x, hx, rfl⟩
  have h1 := C03_expr_alias_converge env he name sl₁ hn hne (fun x hx => hok _ (m1 x hx)) (fun x hx => hem _ (m1 x hx)) hm hnfc₁
  have h2 := C03_expr_alias_converge env he name sl₂ hn hne (fun x hx => hok _ (m2 x hx)) (fun x hx => hem _ (m2 x hx))
    (by rw [← hsame]; exact hm) hnfc₂
  rw [← hsame] at h2
  exact ⟨by rw [h1.1, h2.1], by rw [h1.2, h2.2], h1.2⟩

/-! ### C07: receipts -/

/-- **C07 for operator aliases**: reading an alias spelling (lenient entry point) yields a repair log whose normalisation
receipts are, in reading order, exactly `docReceipts`: one receipt per occurrence written with an alias — original text
(the alias), replacement (the Unicode operator), the line and the column of that occurrence — and none for an occurrence
written canonically.  The document read is the same as for the canonical text. -/
theorem C07_expr_alias_receipts (env : Env) (he : OpEnv env) (name : Str) (sl : List SE)
    (hn : isEnvName name = true) (hne : name ≠ "END".toList) (hok : ∀ x ∈ sl, x.1.OK)
    (hm : efirstNotMeta (elinesOf sl) = true)
    (hnfc : ∀ l ∈ splitLines (edocText name sl), env.nfc l = l) :
    ∃ reps warns, Parser.parseWithWarnings env (edocText name sl) = .ok (edoc name (fun i => (i + 2, 1)) (elinesOf sl), reps, warns) ∧
      reps.filter isNormalization = docReceipts 2 sl :=
  ⟨_, _, C03_expr_spelled_read_lenient env he name sl hn hne hok hm hnfc, edocReps_norm sl⟩

/-- the receipt of one occurrence, spelled out: an alias `a` gives exactly one record (original `a`, replacement the
Unicode operator, the occurrence's line and column); the canonical form gives none. -/
theorem opReps_alias (o : Op) (a : Str) (l c : Nat) : opReps o (some a) l c = [Repair.normalization a (.str [o.ch]) l c] := rfl
theorem opReps_canon (o : Op) (l c : Nat) : opReps o none l c = [] := rfl

/-- number of occurrences written with an alias. -/
def aliasedCount : List (Op × Str) → List OpSp → Nat
  | [], _ => 0
  | (o, _) :: r, sps => (if (coreNf o (sps.headD {}).form).isSome then 1 else 0) + aliasedCount r sps.tail

/-- exactly one receipt per aliased occurrence. -/
theorem tailReceipts_length (l : Nat) (tail : List (Op × Str)) : ∀ (c : Nat) (sps : List OpSp),
    (tailReceipts l c tail sps).length = aliasedCount tail sps := by
  induction tail with
  | nil => intro c sps; rfl
  | cons q r ih =>
    intro c sps
    obtain ⟨o, w⟩ := q
    simp only [tailReceipts, aliasedCount, List.length_append, ih]
    cases coreNf o (sps.headD {}).form <;> rfl

theorem tailReceipts_canon (l : Nat) (tail : List (Op × Str)) : ∀ (c : Nat), tailReceipts l c tail [] = [] := by
  induction tail with
  | nil => intro c; rfl
  | cons q r ih =>
    intro c
    obtain ⟨o, w⟩ := q
    simp only [tailReceipts, List.headD_nil, List.tail_nil, ih, List.append_nil]
    cases o <;> rfl

theorem docReceipts_canon (lines : List ELine) : ∀ l, docReceipts l (canonSpelling lines) = [] := by
  induction lines with
  | nil => intro l; rfl
  | cons ln r ih =>
    intro l
    obtain ⟨key, v⟩ := ln
    have hr := ih (l + 1)
    simp only [canonSpelling] at hr
    cases v with
    | sc v => simp only [canonSpelling, List.map_cons, docReceipts, lineReceipts, List.nil_append, hr]
    | ex e => simp only [canonSpelling, List.map_cons, docReceipts, lineReceipts, tailReceipts_canon, List.nil_append, hr]

/-- canonical input has no normalisation receipt (C07, second sentence) — on every flat document with expression values. -/
theorem C07_expr_canonical_no_receipts (env : Env) (he : OpEnv env) (name : Str) (lines : List ELine)
    (hn : isEnvName name = true) (hne : name ≠ "END".toList) (hok : ∀ ln ∈ lines, ln.OK) (hm : efirstNotMeta lines = true)
    (hnfc : ∀ l ∈ splitLines (ecanonText name lines), env.nfc l = l) :
    ∃ reps warns, Parser.parseWithWarnings env (ecanonText name lines) = .ok (edoc name (fun i => (i + 2, 1)) lines, reps, warns) ∧
      reps.filter isNormalization = [] := by
  obtain ⟨reps, warns, h1, h2⟩ := C07_expr_alias_receipts env he name (canonSpelling lines) hn hne (canon_ok lines hok)
    (by rw [elinesOf_canon]; exact hm) hnfc
  rw [elinesOf_canon] at h1
  exact ⟨reps, warns, h1, by rw [h2, docReceipts_canon]⟩

/-! ### non-vacuity -/

/-- `K::A->B+C`, `L::X|Y&Z`, `M::Speed<->Quality`, `N::A vs B` (and a scalar line, and one with spaces around the alias). -/
def exE : List SE :=
  [ (⟨"K".toList, .ex ⟨"A".toList, [(.flow, "B".toList), (.synth, "C".toList)]⟩⟩, [{ form := .alias }, { form := .alias }]),
    (⟨"L".toList, .ex ⟨"X".toList, [(.alt, "Y".toList), (.constr, "Z".toList)]⟩⟩, [{ form := .alias }, { form := .alias }]),
    (⟨"M".toList, .ex ⟨"Speed".toList, [(.tension, "Quality".toList)]⟩⟩, [{ form := .alias }]),
    (⟨"N".toList, .ex ⟨"A".toList, [(.tension, "B".toList)]⟩⟩, [{ form := .word }]),
    (⟨"S".toList, .sc (.qstr "a → b".toList)⟩, []),
    (⟨"P".toList, .ex ⟨"A".toList, [(.flow, "B_2".toList), (.concat, "C.d".toList), (.at_, "E".toList)]⟩⟩,
      [{ pre := 1, form := .alias, post := 2 }, { form := .alias }, { pre := 1, form := .alias }]) ]

theorem exE_ok : ∀ x ∈ exE, x.1.OK := by
  intro x h
  simp only [exE, List.mem_cons, List.mem_nil_iff, or_false] at h
  rcases h with rfl | rfl | rfl | rfl | rfl | rfl <;> (unfold ELine.OK EVal.OK; simp <;> first | decide | (unfold FScalar.OK; trivial))

theorem exE_emit : ∀ x ∈ exE, x.1.EmitOK := by
  intro x h
  simp only [exE, List.mem_cons, List.mem_nil_iff, or_false] at h
  rcases h with rfl | rfl | rfl | rfl | rfl | rfl <;> (unfold ELine.EmitOK; simp <;> first | decide | (unfold FLine.EmitOK; simp <;> decide))

example : edocText "D".toList exE =
    "===D===\nK::A->B+C\nL::X|Y&Z\nM::Speed<->Quality\nN::A vs B\nS::\"a → b\"\nP::A ->  B_2~C.d @E\n===END===\n".toList := by decide +kernel
example : ecanonText "D".toList (elinesOf exE) =
    "===D===\nK::A→B⊕C\nL::X∨Y∧Z\nM::Speed⇌Quality\nN::A⇌B\nS::\"a → b\"\nP::A→B_2⧺C.d@E\n===END===\n".toList := by decide +kernel

/-- the theorems applied (not evaluated). -/
example : canonStrict Env.ascii (edocText "D".toList exE) = .ok (ecanonText "D".toList (elinesOf exE)) ∧
    canonLenient Env.ascii (edocText "D".toList exE) = .ok (ecanonText "D".toList (elinesOf exE)) :=
  C03_expr_alias_converge Env.ascii opEnv_ascii "D".toList exE (by decide) (by decide) exE_ok exE_emit (by decide) (fun _ _ => rfl)

example : ∃ text d', emit Env.ascii (edoc "D".toList (fun _ => (7, 7)) (elinesOf exE)) = some text ∧
    Parser.parse Env.ascii text = .ok d' ∧ d' = edoc "D".toList (fun i => (i + 2, 1)) (elinesOf exE) ∧ emit Env.ascii d' = some text :=
  C01_expr_fixed_point Env.ascii opEnv_ascii "D".toList _ (elinesOf exE) (by decide) (by decide)
    (fun ln hl => by obtain ⟨x, hx, rfl⟩ := List.mem_map.mp hl; exact exE_ok x hx)
    (fun ln hl => by obtain ⟨x, hx, rfl⟩ := List.mem_map.mp hl; exact exE_emit x hx) (by decide) (fun _ _ => rfl)

example : ∃ reps warns, Parser.parseWithWarnings Env.ascii (edocText "D".toList exE)
      = .ok (edoc "D".toList (fun i => (i + 2, 1)) (elinesOf exE), reps, warns) ∧
    reps.filter isNormalization = docReceipts 2 exE :=
  C07_expr_alias_receipts Env.ascii opEnv_ascii "D".toList exE (by decide) (by decide) exE_ok (by decide) (fun _ _ => rfl)

/-- the receipts owed, as literals: one per aliased occurrence (none for `@`, which has no alias), at its own column —
for `vs` and for an alias with spaces in front the column of the operator itself. -/
example : docReceipts 2 exE =
    [ .normalization "->".toList (.str "→".toList) 2 5, .normalization "+".toList (.str "⊕".toList) 2 8,
      .normalization "|".toList (.str "∨".toList) 3 5, .normalization "&".toList (.str "∧".toList) 3 7,
      .normalization "<->".toList (.str "⇌".toList) 4 9,
      .normalization "vs".toList (.str "⇌".toList) 5 6,
      .normalization "->".toList (.str "→".toList) 7 6, .normalization "~".toList (.str "⧺".toList) 7 13 ] := by decide +kernel

/-- the three texts of the task, each on its own: every choice of form per occurrence (here: all, then none). -/
example : canonLenient Env.ascii "===D===\nK::A->B+C\n===END===\n".toList = .ok "===D===\nK::A→B⊕C\n===END===\n".toList := by
  have h := (C03_expr_alias_converge Env.ascii opEnv_ascii "D".toList
    [(⟨"K".toList, .ex ⟨"A".toList, [(.flow, "B".toList), (.synth, "C".toList)]⟩⟩, [{ form := .alias }, { form := .alias }])]
    (by decide) (by decide)
    (by intro x hx; simp only [List.mem_singleton] at hx; subst hx; unfold ELine.OK EVal.OK; simp; decide)
    (by intro x hx; simp only [List.mem_singleton] at hx; subst hx; unfold ELine.EmitOK; simp; decide)
    (by decide) (fun _ _ => rfl)).2
  have e1 : edocText "D".toList [(⟨"K".toList, .ex ⟨"A".toList, [(.flow, "B".toList), (.synth, "C".toList)]⟩⟩, [{ form := .alias }, { form := .alias }])]
      = "===D===\nK::A->B+C\n===END===\n".toList := by decide +kernel
  have e2 : ecanonText "D".toList (elinesOf [(⟨"K".toList, .ex ⟨"A".toList, [(.flow, "B".toList), (.synth, "C".toList)]⟩⟩, [{ form := .alias }, { form := .alias }])])
      = "===D===\nK::A→B⊕C\n===END===\n".toList := by decide +kernel
  rw [e1, e2] at h; exact h

/-- all choices symbolic: ONE expression `A→B⊕C`, any form and any spaces at either occurrence. -/
example (s1 s2 : OpSp) :
    canonLenient Env.ascii (edocText "D".toList [(⟨"K".toList, .ex ⟨"A".toList, [(.flow, "B".toList), (.synth, "C".toList)]⟩⟩, [s1, s2])])
      = .ok "===D===\nK::A→B⊕C\n===END===\n".toList :=
  (C03_expr_alias_converge Env.ascii opEnv_ascii "D".toList _ (by decide) (by decide)
    (by intro x hx; simp only [List.mem_singleton] at hx; subst hx; unfold ELine.OK EVal.OK; simp; decide)
    (by intro x hx; simp only [List.mem_singleton] at hx; subst hx; unfold ELine.EmitOK; simp; decide)
    rfl (fun _ _ => rfl)).2

/-- the whole model evaluated on the concrete texts (independent of the theorems). -/
example : isOkStr (canonStrict Env.ascii "===D===\nK::A->B+C\n===END===\n".toList) "===D===\nK::A→B⊕C\n===END===\n".toList = true := by decide +kernel
example : isOkStr (canonLenient Env.ascii "===D===\nK::X|Y&Z\n===END===\n".toList) "===D===\nK::X∨Y∧Z\n===END===\n".toList = true := by decide +kernel
example : isOkStr (canonStrict Env.ascii "===D===\nK::Speed<->Quality\n===END===\n".toList) "===D===\nK::Speed⇌Quality\n===END===\n".toList = true := by decide +kernel
example : isOkStr (canonStrict Env.ascii "===D===\nK::A vs B\n===END===\n".toList) "===D===\nK::A⇌B\n===END===\n".toList = true := by decide +kernel
example : isOkStr (canonStrict Env.ascii (edocText "D".toList exE)) (ecanonText "D".toList (elinesOf exE)) = true := by decide +kernel
example : isOkStr (canonLenient Env.ascii (edocText "D".toList exE)) (ecanonText "D".toList (elinesOf exE)) = true := by decide +kernel
example : isOkStr (canonStrict Env.ascii (ecanonText "D".toList (elinesOf exE))) (ecanonText "D".toList (elinesOf exE)) = true := by decide +kernel

/-- the lexer model evaluated on the concrete text gives exactly `edocToks` / `edocReps`. -/
example : (match tokenize Env.ascii (edocText "D".toList exE) with
    | .ok p => p == (edocToks "D".toList exE, edocReps exE) | .error _ => false) = true := by decide +kernel

/-! ### the hypotheses are necessary: the model at the excluded points (the real reader does the same, see the report) -/

/-- an operand that is a reserved word (`wordOK` fails): `true` is lexed as BOOLEAN, the flow loop stops in front of it,
the value is the string `A→` (quoted on output) and the stray BOOLEAN token is stepped over without a receipt. -/
example : isOkStr (canonStrict Env.ascii "===D===\nK::A→true\n===END===\n".toList) "===D===\nK::\"A→\"\n===END===\n".toList = true := by
  decide +kernel
/-- … the same with an alias and a reserved PREFIX (`null.x`): `K::"A→"`. -/
example : isOkStr (canonStrict Env.ascii "===D===\nK::A->null.x\n===END===\n".toList) "===D===\nK::\"A→\"\n===END===\n".toList = true := by
  decide +kernel
/-- a reserved word as the HEAD: the value is the boolean, the rest of the line is dropped. -/
example : isOkStr (canonStrict Env.ascii "===D===\nK::true→A\n===END===\n".toList) "===D===\nK::true\n===END===\n".toList = true := by
  decide +kernel
/-- a number as operand: `K::"A→"`. -/
example : isOkStr (canonStrict Env.ascii "===D===\nK::A→1\n===END===\n".toList) "===D===\nK::\"A→\"\n===END===\n".toList = true := by
  decide +kernel
/-- an operand the lexer accepts but the emitter does not leave bare (`b/c`: `EmitOK` fails): the alias is still
normalised, the value comes out QUOTED — a different canonical form, not a counterexample to convergence. -/
example : isOkStr (canonStrict Env.ascii "===D===\nK::A->b/c\n===END===\n".toList) "===D===\nK::\"A→b/c\"\n===END===\n".toList = true := by
  decide +kernel
/-- an operand that ends in a hyphen, followed by `->`: lexer error E005 at the second hyphen. -/
example : (match canonStrict Env.ascii "===D===\nK::A-->B\n===END===\n".toList with
    | .error e => e == .lexer "E005".toList 2 5 | .ok _ => false) = true := by decide +kernel
/-- two operators in a row (not an expression in the emitter's sense): read as the string `A→→B`, quoted on output. -/
example : isOkStr (canonStrict Env.ascii "===D===\nK::A→→B\n===END===\n".toList) "===D===\nK::\"A→→B\"\n===END===\n".toList = true := by
  decide +kernel
/-- key `PATTERN` (`alwaysQuoteKey`): the expression is force-quoted. -/
example : isOkStr (canonStrict Env.ascii "===D===\nPATTERN::A->B\n===END===\n".toList) "===D===\nPATTERN::\"A→B\"\n===END===\n".toList = true := by
  decide +kernel
/-- first key `META`: rejected with E001 at the `::`. -/
example : (match canonStrict Env.ascii "===D===\nMETA::A->B\n===END===\n".toList with
    | .error e => e == .parser "E001".toList 2 5 | .ok _ => false) = true := by decide +kernel
/-- `vs` without spaces is not an alias: `AvsB` is one identifier (W_BOUNDARY_MISSING, no normalisation). -/
example : isOkStr (canonStrict Env.ascii "===D===\nK::AvsB\n===END===\n".toList) "===D===\nK::AvsB\n===END===\n".toList = true := by
  decide +kernel
/-- `#` is the alias of `§`, which is not an expression operator: `A#B` is rejected (E006). -/
example : (match canonStrict Env.ascii "===D===\nK::A#B\n===END===\n".toList with
    | .error e => e == .parser "E006".toList 2 7 | .ok _ => false) = true := by decide +kernel
/-- outside the class but convergent: the same expression inside a list, and with a trailing comment. -/
example : isOkStr (canonStrict Env.ascii "===D===\nK::[A->B]\n===END===\n".toList) "===D===\nK::[A→B]\n===END===\n".toList = true := by
  decide +kernel
example : isOkStr (canonStrict Env.ascii "===D===\nK::A->B //c\n===END===\n".toList) "===D===\nK::A→B // c\n===END===\n".toList = true := by
  decide +kernel
/-- chained tension is inside the class (it only adds a warning). -/
example : isOkStr (canonStrict Env.ascii "===D===\nK::A<->B vs C\n===END===\n".toList) "===D===\nK::A⇌B⇌C\n===END===\n".toList = true := by
  decide +kernel

end Octave.C03
