/-
C03 on FLAT documents — the lenient SPELLINGS of a flat document converge on its canonical text.

A flat document is an envelope `===NAME===`, any number of lines `KEY::scalar` (a string the emitter quotes, a bare word,
a boolean, null, an integer) and `===END===`.  A *spelling* (`LSpell` per line, `DSpell` for the frame; `Lemmas/FlatSpell`) chooses,
per line and independently of the other lines:

  * the indentation (leading spaces)                                       (indentation width)
  * the number of spaces before `::` and after `::`                        (spaces around `::`)
  * the number of trailing spaces                                          (trailing spaces)
  * any number of blank lines after the line, each empty or holding any number of spaces   (blank lines)
  * a bare word `w` written `"w"`                                          (optional quotes around plain words)
  * a quoted string written with triple quotes `"""body"""`, for ANY one-line body that denotes the string
    (`tripleBodyOK body`, `unescape body = string`: decidable) — in particular the escaped body `escape s` of every
    string, and the string itself when it holds no `"`, `\`, newline, tab; raw `"` inside the body are allowed
                                                                           (triple quotes)

and for the frame: trailing spaces / blank lines after the envelope line; `===END===` present or omitted, its
indentation, trailing spaces after it, its final newline present or omitted, blank lines after it; and (`…_cut`
theorems) `===END===` omitted together with the newline of the last line.

Proved for EVERY flat document and EVERY spelling (all amounts arbitrary, every line independently):

  * `C03_flat_spelled_lexes`      the lexer reads the spelled text as exactly `spellToks` (the canonical tokens at shifted
                                  positions, one INDENT per indented line, one NEWLINE per blank line, a STRING for a
                                  quoted word, `normFrom = """` on a triple-quoted string, nothing after the lines when
                                  `===END===` is omitted);
  * `C03_flat_spelled_receipts`   its normalisation receipts are exactly one per triple-quoted value, at the value's position;
  * `C03_flat_spelled_read`       `parse` returns the SAME document as for the canonical text (nodes positioned at their
                                  keys); `C03_flat_spelled_read_lenient`: `parse_with_warnings` too, with the exact repairs;
  * `C03_flat_converge`           `emit(parse(spelled))` = `emit(parse_with_warnings(spelled)[0])` = the canonical text;
  * `C03_flat_spellings_agree`    any two spellings of the same flat document canonicalise to identical bytes;
  * `C03_flat_cut_lexes` / `C03_flat_cut_read` / `C03_flat_cut_converge`   the same when the text stops right after the last
                                  line's value (no `===END===`, no final newline).

Hypotheses (all decidable except `hnfc`): those of `C01_flat_fixed_point` — `isEnvName name`, `name ≠ "END"`, `FLine.OK`,
`FLine.EmitOK`, first key not `META` — and `hnfc`: NFC leaves every line of the SPELLED text unchanged (finding F16 is what
happens otherwise).  The side condition for triple quotes is built into the spelling (`tripleFor`): a body that is not a
one-line body of the value is not used (the value is then spelled as a quoted string), so the theorems carry no extra
hypothesis; `tripleFor_escape`: the escaped body is always accepted.

Not covered here (see the prover's report): raw line breaks inside triple quotes (multi-line strings), blank lines or
indentation before the envelope line, ASCII aliases and lists (not part of a flat document).
-/
import Octave.Lemmas.FlatSpellBridge
import Octave.Model.Canon
import Octave.Props.C01roundtrip
namespace Octave.C03
open Octave Lexer Emitter SpellParse Spell

/-- the lines of a spelled document. -/
abbrev linesOf (sl : List SL) : List FLine := sl.map Prod.fst

/-- node positions of the document read back from a spelling: line and column of the `i`-th key. -/
def spellPos (sl : List SL) (ds : DSpell) : Nat → Nat × Nat := slinePos (firstLine ds) sl

/-! ### the canonical text is the canonical spelling -/

theorem spellVal_canon_text (v : FScalar) : (spellVal v LSpell.canon).text = v.text := by
  cases v <;> rfl

theorem lineText_canon (ln : FLine) (rest : Str) : lineText ln LSpell.canon rest = ln.text ++ '\n' :: rest := by
  have h := spellVal_canon_text ln.v
  simp only [lineText, lineBody, lineCore, LSpell.canon, spaces, blanksText, FLine.text, List.replicate_zero, List.nil_append,
    List.append_nil] at h ⊢
  rw [h]

theorem slinesText_canon (lines : List FLine) (rest : Str) :
    slinesText (lines.map fun ln => (ln, LSpell.canon)) rest = linesText lines ++ rest := by
  induction lines with
  | nil => rfl
  | cons ln r ih => simp only [List.map_cons, slinesText, lineText_canon, ih, linesText, List.append_assoc, List.cons_append]

/-- with every freedom switched off the spelled text IS the canonical text. -/
theorem spellText_canon (name : Str) (lines : List FLine) :
    spellText name (lines.map fun ln => (ln, LSpell.canon)) DSpell.canon = flatText name lines := by
  simp only [spellText, frontText, slinesText_canon, flatText, DSpell.canon, endText, spaces, blanksText]
  simp

/-! ### lexer -/

/-- **the lexer on every spelling**: exactly `spellToks`, `spellReps` (both modes). -/
theorem C03_flat_spelled_lexes (env : Env) (lenient : Bool) (name : Str) (sl : List SL) (ds : DSpell)
    (hn : isEnvName name = true) (hne : name ≠ "END".toList) (hok : ∀ x ∈ sl, x.1.OK)
    (hnfc : ∀ l ∈ splitLines (spellText name sl ds), env.nfc l = l) :
    tokenize env (spellText name sl ds) lenient = .ok (spellToks name sl ds, spellReps sl ds) :=
  tokenize_spelled env lenient name sl ds hn hne hok hnfc

/-- … and on the text that stops right after the last line's value. -/
theorem C03_flat_cut_lexes (env : Env) (lenient : Bool) (name : Str) (sl : List SL) (ln : FLine) (sp : LSpell) (ds : DSpell)
    (hn : isEnvName name = true) (hne : name ≠ "END".toList) (hok : ∀ x ∈ sl, x.1.OK) (hln : ln.OK)
    (hnfc : ∀ l ∈ splitLines (spellTextCut name sl ln sp ds), env.nfc l = l) :
    tokenize env (spellTextCut name sl ln sp ds) lenient = .ok (spellToksCut name sl ln sp ds, spellRepsCut sl ln sp ds) :=
  tokenize_spelled_cut env lenient name sl ln sp ds hn hne hok hln hnfc

/-- **token shape**: the token list is the envelope token, NEWLINE tokens, then per line INDENT tokens, `IDENTIFIER ASSIGN
scalar`, NEWLINE tokens — and the lines carry, in order, exactly the keys and values of the document. -/
theorem C03_flat_spelled_token_shape (name : Str) (sl : List SL) (ds : DSpell) :
    ∃ e tail, (e.type = .envelopeEnd ∨ e.type = .eof) ∧
      spellToks name sl ds = docToks name 1 1 (1, 1 + (name.length + 6) + ds.envTrail) (blankPos 2 ds.envBlank)
        (toSLines (firstLine ds) sl) none (endIndOf ds (firstLine ds + slinesHeight sl)) e tail ∧
      (toSLines (firstLine ds) sl).map (fun s => (s.base.key, s.base.v.val)) = (linesOf sl).map (fun ln => (ln.key, ln.v.value)) := by
  obtain ⟨e, tail, he, h⟩ := spellToks_bridge name sl ds
  refine ⟨e, tail, he, h, ?_⟩
  have : ∀ (sl : List SL) (l : Nat), (toSLines l sl).map (fun s => (s.base.key, s.base.v.val)) = (linesOf sl).map (fun ln => (ln.key, ln.v.value)) := by
    intro sl
    induction sl with
    | nil => intro l; rfl
    | cons x r ih => intro l; simp only [toSLines, List.map_cons, linesOf, toSLine, sval_val_bridge, ih]
  exact this sl _

/-- **receipts**: the normalisation receipts of a spelled text are exactly one per triple-quoted value, in order, each
with the original `"""`, the string and the value's own line and column (cf. `C07_lexer_receipts_bijection`). -/
theorem C03_flat_spelled_receipts (sl : List SL) (ds : DSpell) :
    (spellReps sl ds).filter isNormalization = tripleReceipts (firstLine ds) sl :=
  slinesReps_normalization sl (firstLine ds)

theorem C03_flat_cut_receipts (sl : List SL) (ln : FLine) (sp : LSpell) (ds : DSpell) :
    (spellRepsCut sl ln sp ds).filter isNormalization = tripleReceipts (firstLine ds) (sl ++ [(ln, sp)]) := by
  rw [spellRepsCut_eq]; exact slinesReps_normalization _ _

/-! ### parser -/

theorem metaFirst_false_spelled (sl : List SL) (l : Nat) (h : C01.firstNotMeta (linesOf sl) = true) :
    FlatParse.metaFirst ((toSLines l sl).map SLine.base) = false := by
  rw [metaFirst_spelled]
  cases sl with
  | nil => rfl
  | cons x r => simpa [C01.firstNotMeta, linesOf] using h

/-- text level, given the lexer half: both entry points on a text that lexes to `docToks`. -/
theorem read_of_docToks (env : Env) (text : Str) (reps : List Repair) (name : Str) (el ec : Nat) (q : Nat × Nat)
    (qs : List (Nat × Nat)) (lines : List SLine) (last : Option SLine) (endInd : List (Nat × Nat × Nat)) (e : Token) (tail : List Token)
    (hs : Parser.stripFrontmatter env text = (text, none))
    (hlex : Lexer.tokenize env text = .ok (docToks name el ec q qs lines last endInd e tail, reps))
    (he : e.type = .envelopeEnd ∨ e.type = .eof)
    (hm : FlatParse.metaFirst ((lines ++ lastList last).map SLine.base) = false) :
    Parser.parse env text = .ok { name := name, sections := (lines ++ lastList last).map SLine.node } ∧
    Parser.parseWithWarnings env text
      = .ok ({ name := name, sections := (lines ++ lastList last).map SLine.node }, reps,
             FlatParse.docWarns [] ((lines ++ lastList last).map SLine.base)) := by
  have hlex' : Lexer.tokenize env (Parser.stripFrontmatter env text).1
      = .ok (docToks name el ec q qs lines last endInd e tail, reps) := by rw [hs]; exact hlex
  constructor
  · obtain ⟨st', h1, _⟩ := parseDocument_spelled name el ec q qs lines last endInd e tail he hm
      (Parser.initState env (docToks name el ec q qs lines last endInd e tail) true) rfl
    rw [C02.parse_eq_parseToks env _ _ _ hlex', hs]
    unfold C02.parseToks
    simp only [StateT.run, h1, bind, Except.bind, pure, Except.pure, Except.map]
  · obtain ⟨st', h1, h2⟩ := parseDocument_spelled name el ec q qs lines last endInd e tail he hm
      (Parser.initState env (docToks name el ec q qs lines last endInd e tail) false) rfl
    have h2' : st'.warnings = (FlatParse.docWarns [] ((lines ++ lastList last).map SLine.base)).reverse := by
      rw [h2]; simp [Parser.initState]
    rw [C02.parseWithWarnings_eq_parseToks env _ _ _ hlex', hs]
    unfold C02.parseToksWithWarnings
    simp only [StateT.run, h1, h2', bind, Except.bind, pure, Except.pure, Except.map, List.reverse_reverse]

/-- **every spelling is read as the same document** (strict entry point `parse`): the name, the keys in order, the
values with their types — only the recorded positions depend on the spelling. -/
theorem C03_flat_spelled_read (env : Env) (name : Str) (sl : List SL) (ds : DSpell)
    (hn : isEnvName name = true) (hne : name ≠ "END".toList) (hok : ∀ x ∈ sl, x.1.OK)
    (hm : C01.firstNotMeta (linesOf sl) = true)
    (hnfc : ∀ l ∈ splitLines (spellText name sl ds), env.nfc l = l) :
    Parser.parse env (spellText name sl ds) = .ok (flatDoc name (spellPos sl ds) (linesOf sl)) := by
  obtain ⟨e, tail, he, hb⟩ := spellToks_bridge name sl ds
  have hlex := tokenize_spelled env false name sl ds hn hne hok hnfc
  rw [hb] at hlex
  have h := (read_of_docToks env (spellText name sl ds) _ name 1 1 _ _ _ none _ e tail (stripFrontmatter_front env name sl ds _) hlex he
    (by simpa [lastList] using metaFirst_false_spelled sl _ hm)).1
  rw [h]
  simp only [lastList, List.append_nil, snodes_bridge]
  rfl

/-- … and by the lenient entry point (`parse_with_warnings`), with exactly the lexer repairs `spellReps` and the
parser warnings of the lines. -/
theorem C03_flat_spelled_read_lenient (env : Env) (name : Str) (sl : List SL) (ds : DSpell)
    (hn : isEnvName name = true) (hne : name ≠ "END".toList) (hok : ∀ x ∈ sl, x.1.OK)
    (hm : C01.firstNotMeta (linesOf sl) = true)
    (hnfc : ∀ l ∈ splitLines (spellText name sl ds), env.nfc l = l) :
    Parser.parseWithWarnings env (spellText name sl ds)
      = .ok (flatDoc name (spellPos sl ds) (linesOf sl), spellReps sl ds,
             FlatParse.docWarns [] ((toSLines (firstLine ds) sl).map SLine.base)) := by
  obtain ⟨e, tail, he, hb⟩ := spellToks_bridge name sl ds
  have hlex := tokenize_spelled env false name sl ds hn hne hok hnfc
  rw [hb] at hlex
  have h := (read_of_docToks env (spellText name sl ds) _ name 1 1 _ _ _ none _ e tail (stripFrontmatter_front env name sl ds _) hlex he
    (by simpa [lastList] using metaFirst_false_spelled sl _ hm)).2
  rw [h]
  simp only [lastList, List.append_nil, snodes_bridge]
  rfl

/-- the text that stops right after the last line's value is read as the document `sl ++ [(ln, sp)]`, by both entry
points. -/
theorem C03_flat_cut_read (env : Env) (name : Str) (sl : List SL) (ln : FLine) (sp : LSpell) (ds : DSpell)
    (hn : isEnvName name = true) (hne : name ≠ "END".toList) (hok : ∀ x ∈ sl, x.1.OK) (hln : ln.OK)
    (hm : C01.firstNotMeta (linesOf (sl ++ [(ln, sp)])) = true)
    (hnfc : ∀ l ∈ splitLines (spellTextCut name sl ln sp ds), env.nfc l = l) :
    Parser.parse env (spellTextCut name sl ln sp ds)
      = .ok (flatDoc name (spellPos (sl ++ [(ln, sp)]) ds) (linesOf (sl ++ [(ln, sp)]))) ∧
    Parser.parseWithWarnings env (spellTextCut name sl ln sp ds)
      = .ok (flatDoc name (spellPos (sl ++ [(ln, sp)]) ds) (linesOf (sl ++ [(ln, sp)])), spellRepsCut sl ln sp ds,
             FlatParse.docWarns [] ((toSLines (firstLine ds) (sl ++ [(ln, sp)])).map SLine.base)) := by
  have hlex := tokenize_spelled_cut env false name sl ln sp ds hn hne hok hln hnfc
  rw [spellToksCut_bridge] at hlex
  have h := read_of_docToks env (spellTextCut name sl ln sp ds) _ name 1 1 _ _ _ _ _ _ _ (stripFrontmatter_front env name sl ds _) hlex (Or.inr rfl)
    (by rw [cut_lines_bridge]; exact metaFirst_false_spelled _ _ hm)
  rw [cut_lines_bridge] at h
  rw [h.1, h.2]
  simp only [snodes_bridge]
  exact ⟨rfl, rfl⟩

/-! ### convergence -/

theorem canon_of_read (env : Env) (text : Str) (d : Document) (out : Str) (reps : List Repair) (ws : List Parser.Warning)
    (h1 : Parser.parse env text = .ok d) (h2 : Parser.parseWithWarnings env text = .ok (d, reps, ws))
    (he : emit env d = some out) :
    canonStrict env text = .ok out ∧ canonLenient env text = .ok out := by
  constructor
  · unfold canonStrict
    rw [h1]
    simp only [bind, Except.bind, he]
    rfl
  · unfold canonLenient
    rw [h2]
    simp only [bind, Except.bind, he]
    rfl

/-- **C03 on flat documents: every lenient spelling canonicalises to the canonical text**, through the strict
canonicaliser (`emit(parse(x))`) and through the lenient one (`emit(parse_with_warnings(x)[0])`). -/
theorem C03_flat_converge (env : Env) (name : Str) (sl : List SL) (ds : DSpell)
    (hn : isEnvName name = true) (hne : name ≠ "END".toList) (hok : ∀ x ∈ sl, x.1.OK) (hem : ∀ x ∈ sl, x.1.EmitOK)
    (hm : C01.firstNotMeta (linesOf sl) = true)
    (hnfc : ∀ l ∈ splitLines (spellText name sl ds), env.nfc l = l) :
    canonStrict env (spellText name sl ds) = .ok (flatText name (linesOf sl)) ∧
    canonLenient env (spellText name sl ds) = .ok (flatText name (linesOf sl)) :=
  canon_of_read env _ _ _ _ _ (C03_flat_spelled_read env name sl ds hn hne hok hm hnfc)
    (C03_flat_spelled_read_lenient env name sl ds hn hne hok hm hnfc)
    (emit_flat env name (spellPos sl ds) (linesOf sl) (fun ln hl => by
      obtain ⟨x, hx, rfl⟩ := List.mem_map.mp hl
      exact hem x hx))

/-- … also when the text stops right after the last line's value (`===END===` and the final newline omitted). -/
theorem C03_flat_cut_converge (env : Env) (name : Str) (sl : List SL) (ln : FLine) (sp : LSpell) (ds : DSpell)
    (hn : isEnvName name = true) (hne : name ≠ "END".toList) (hok : ∀ x ∈ sl, x.1.OK) (hln : ln.OK)
    (hem : ∀ x ∈ sl, x.1.EmitOK) (hlem : ln.EmitOK)
    (hm : C01.firstNotMeta (linesOf (sl ++ [(ln, sp)])) = true)
    (hnfc : ∀ l ∈ splitLines (spellTextCut name sl ln sp ds), env.nfc l = l) :
    canonStrict env (spellTextCut name sl ln sp ds) = .ok (flatText name (linesOf (sl ++ [(ln, sp)]))) ∧
    canonLenient env (spellTextCut name sl ln sp ds) = .ok (flatText name (linesOf (sl ++ [(ln, sp)]))) := by
  obtain ⟨h1, h2⟩ := C03_flat_cut_read env name sl ln sp ds hn hne hok hln hm hnfc
  refine canon_of_read env _ _ _ _ _ h1 h2 (emit_flat env name _ _ (fun l hl => ?_))
  obtain ⟨x, hx, rfl⟩ := List.mem_map.mp hl
  rcases List.mem_append.mp hx with h | h
  · exact hem x h
  · have : x = (ln, sp) := by simpa using h
    rw [this]; exact hlem

/-- **any two spellings of the same flat document canonicalise to identical bytes** (both canonicalisers), and those
bytes are the canonical text, itself one of the spellings (`spellText_canon`). -/
theorem C03_flat_spellings_agree (env : Env) (name : Str) (sl₁ sl₂ : List SL) (ds₁ ds₂ : DSpell)
    (hsame : linesOf sl₁ = linesOf sl₂)
    (hn : isEnvName name = true) (hne : name ≠ "END".toList) (hok : ∀ ln ∈ linesOf sl₁, ln.OK) (hem : ∀ ln ∈ linesOf sl₁, ln.EmitOK)
    (hm : C01.firstNotMeta (linesOf sl₁) = true)
    (hnfc₁ : ∀ l ∈ splitLines (spellText name sl₁ ds₁), env.nfc l = l)
    (hnfc₂ : ∀ l ∈ splitLines (spellText name sl₂ ds₂), env.nfc l = l) :
    canonStrict env (spellText name sl₁ ds₁) = canonStrict env (spellText name sl₂ ds₂) ∧
    canonLenient env (spellText name sl₁ ds₁) = canonLenient env (spellText name sl₂ ds₂) ∧
    canonLenient env (spellText name sl₁ ds₁) = .ok (flatText name (linesOf sl₁)) := by
  have m1 : ∀ x ∈ sl₁, x.1 ∈ linesOf sl₁ := fun x hx => List.mem_map.mpr ⟨x, hx, rfl⟩
  have m2 : ∀ x ∈ sl₂, x.1 ∈ linesOf sl₁ := fun x hx => by rw [hsame]; exact List.mem_map.mpr ⟨x, hx, rfl⟩
  have h1 := C03_flat_converge env name sl₁ ds₁ hn hne (fun x hx => hok _ (m1 x hx)) (fun x hx => hem _ (m1 x hx)) hm hnfc₁
  have h2 := C03_flat_converge env name sl₂ ds₂ hn hne (fun x hx => hok _ (m2 x hx)) (fun x hx => hem _ (m2 x hx))
    (by rw [← hsame]; exact hm) hnfc₂
  rw [← hsame] at h2
  exact ⟨by rw [h1.1, h2.1], by rw [h1.2, h2.2], h1.2⟩

/-- in particular every spelling canonicalises to the same bytes as the canonical text itself (C01 ∘ C03). -/
theorem C03_flat_spelling_vs_canonical (env : Env) (name : Str) (sl : List SL) (ds : DSpell)
    (hn : isEnvName name = true) (hne : name ≠ "END".toList) (hok : ∀ x ∈ sl, x.1.OK) (hem : ∀ x ∈ sl, x.1.EmitOK)
    (hm : C01.firstNotMeta (linesOf sl) = true)
    (hnfc : ∀ l ∈ splitLines (spellText name sl ds), env.nfc l = l)
    (hnfc0 : ∀ l ∈ splitLines (flatText name (linesOf sl)), env.nfc l = l) :
    canonLenient env (spellText name sl ds) = canonLenient env (flatText name (linesOf sl)) := by
  have h0 := spellText_canon name (linesOf sl)
  have hl : linesOf ((linesOf sl).map fun ln => (ln, LSpell.canon)) = linesOf sl := by
    simp [linesOf, List.map_map, Function.comp_def]
  have := (C03_flat_spellings_agree env name sl ((linesOf sl).map fun ln => (ln, LSpell.canon)) ds DSpell.canon hl.symm hn hne
    (fun ln hl' => by obtain ⟨x, hx, rfl⟩ := List.mem_map.mp hl'; exact hok x hx)
    (fun ln hl' => by obtain ⟨x, hx, rfl⟩ := List.mem_map.mp hl'; exact hem x hx) hm hnfc (by rw [h0]; exact hnfc0)).2.1
  rw [this, h0]

/-! ### non-vacuity: a six-line document with every freedom switched on -/

/-- `A::"x \"y\" \\ z"`, `B_1::word`, `C.d::true`, `E::w2`, `F::null`, `N::-42`, spelled with indentation, spaces around `::`,
trailing spaces, blank lines (empty and whitespace-only), a quoted word, triple quotes (around a body with a RAW `"…"` and
an escaped backslash, and around a quoted word). -/
def exSL : List SL :=
  [ (⟨"A".toList, .qstr "x \"y\" \\ z".toList⟩, { indent := 2, pre := 1, post := 2, trail := 3, blank := [0, 2], triple := some "x \"y\" \\\\ z".toList }),
    (⟨"B_1".toList, .bare "word".toList⟩, { indent := 4, pre := 2, post := 0, trail := 1, blank := [1], quoteWord := true }),
    (⟨"C.d".toList, .bool true⟩, { pre := 0, post := 3, trail := 2, blank := [0] }),
    (⟨"E".toList, .bare "w2".toList⟩, { pre := 3, quoteWord := true, triple := some "w2".toList }),
    (⟨"F".toList, .null⟩, { indent := 1, trail := 1 }),
    (⟨"N".toList, .int (-42)⟩, { pre := 1, post := 1, trail := 2 }) ]

/-- frame: trailing spaces and blank lines after the envelope line, `===END===` indented, with trailing spaces and blank
lines after it. -/
def exDS : DSpell := { envTrail := 2, envBlank := [3, 0], endIndent := 2, endTrail := 1, endNl := true, endBlank := [0, 1] }
/-- frame: `===END===` omitted. -/
def exDS2 : DSpell := { endOmitted := true }
/-- frame: `===END===` without its newline. -/
def exDS3 : DSpell := { endNl := false, endTrail := 2 }

theorem exSL_ok : ∀ x ∈ exSL, x.1.OK := by
  intro x h
  simp only [exSL, List.mem_cons, List.mem_nil_iff, or_false] at h
  rcases h with rfl | rfl | rfl | rfl | rfl | rfl <;> (unfold FLine.OK FScalar.OK; simp <;> decide)

theorem exSL_emit : ∀ x ∈ exSL, x.1.EmitOK := by
  intro x h
  simp only [exSL, List.mem_cons, List.mem_nil_iff, or_false] at h
  rcases h with rfl | rfl | rfl | rfl | rfl | rfl <;> (unfold FLine.EmitOK; simp <;> decide)

/-- the spelled texts and the canonical text, as literals. -/
example : spellText "DOC".toList exSL exDS =
    "===DOC===  \n   \n\n  A ::  \"\"\"x \"y\" \\\\ z\"\"\"   \n\n  \n    B_1  ::\"word\" \n \nC.d::   true  \n\nE   ::\"\"\"w2\"\"\"\n F::null \nN :: -42  \n  ===END=== \n\n \n".toList := by
  decide +kernel
example : spellText "DOC".toList exSL exDS2 =
    "===DOC===\n  A ::  \"\"\"x \"y\" \\\\ z\"\"\"   \n\n  \n    B_1  ::\"word\" \n \nC.d::   true  \n\nE   ::\"\"\"w2\"\"\"\n F::null \nN :: -42  \n".toList := by
  decide +kernel
example : flatText "DOC".toList (linesOf exSL) =
    "===DOC===\nA::\"x \\\"y\\\" \\\\ z\"\nB_1::word\nC.d::true\nE::w2\nF::null\nN::-42\n===END===\n".toList := by decide +kernel

/-- the theorems applied (not evaluated): all three frames converge on the canonical text and agree with each other. -/
example : canonStrict Env.ascii (spellText "DOC".toList exSL exDS) = .ok (flatText "DOC".toList (linesOf exSL)) ∧
    canonLenient Env.ascii (spellText "DOC".toList exSL exDS) = .ok (flatText "DOC".toList (linesOf exSL)) :=
  C03_flat_converge Env.ascii "DOC".toList exSL exDS (by decide) (by decide) exSL_ok exSL_emit (by decide) (fun _ _ => rfl)

example : canonStrict Env.ascii (spellText "DOC".toList exSL exDS2) = canonStrict Env.ascii (spellText "DOC".toList exSL exDS3) :=
  (C03_flat_spellings_agree Env.ascii "DOC".toList exSL exSL exDS2 exDS3 rfl (by decide) (by decide)
    (fun ln hl => by obtain ⟨x, hx, rfl⟩ := List.mem_map.mp hl; exact exSL_ok x hx)
    (fun ln hl => by obtain ⟨x, hx, rfl⟩ := List.mem_map.mp hl; exact exSL_emit x hx)
    (by decide) (fun _ _ => rfl) (fun _ _ => rfl)).1

/-- … and with the canonical spelling of the same document. -/
example : canonLenient Env.ascii (spellText "DOC".toList exSL exDS) = canonLenient Env.ascii (flatText "DOC".toList (linesOf exSL)) :=
  C03_flat_spelling_vs_canonical Env.ascii "DOC".toList exSL exDS (by decide) (by decide) exSL_ok exSL_emit (by decide)
    (fun _ _ => rfl) (fun _ _ => rfl)

/-- the text cut right after the last value (`… N :: -42  ` without newline, no `===END===`). -/
example : canonStrict Env.ascii (spellTextCut "DOC".toList exSL.dropLast ⟨"N".toList, .int (-42)⟩ { pre := 1, post := 1, trail := 2 } exDS)
    = .ok (flatText "DOC".toList (linesOf exSL)) :=
  (C03_flat_cut_converge Env.ascii "DOC".toList exSL.dropLast ⟨"N".toList, .int (-42)⟩ { pre := 1, post := 1, trail := 2 } exDS (by decide) (by decide)
    (fun x hx => exSL_ok x (List.dropLast_subset _ hx)) (exSL_ok (⟨"N".toList, .int (-42)⟩, { pre := 1, post := 1, trail := 2 }) (by simp [exSL]))
    (fun x hx => exSL_emit x (List.dropLast_subset _ hx))
    (exSL_emit (⟨"N".toList, .int (-42)⟩, { pre := 1, post := 1, trail := 2 }) (by simp [exSL])) (by decide) (fun _ _ => rfl)).1

/-- all amounts symbolic: one line, any indentation, any spaces around `::`, any trailing spaces, any blank lines, any
frame. -/
example (a b c d : Nat) (ks : List Nat) (ds : DSpell) :
    canonLenient Env.ascii (spellText "D".toList [(⟨"A".toList, .bare "x".toList⟩, { indent := a, pre := b, post := c, trail := d, blank := ks })] ds)
      = .ok "===D===\nA::x\n===END===\n".toList :=
  (C03_flat_converge Env.ascii "D".toList _ ds (by decide) (by decide)
    (by intro x hx; simp only [List.mem_singleton] at hx; subst hx; unfold FLine.OK FScalar.OK; simp; decide)
    (by intro x hx; simp only [List.mem_singleton] at hx; subst hx; unfold FLine.EmitOK; simp; decide)
    rfl (fun _ _ => rfl)).2

/-- the whole model evaluated on the concrete texts (independent of the theorems): the same canonical output. -/
example : isOkStr (canonStrict Env.ascii (spellText "DOC".toList exSL exDS)) (flatText "DOC".toList (linesOf exSL)) = true := by decide +kernel
example : isOkStr (canonLenient Env.ascii (spellText "DOC".toList exSL exDS)) (flatText "DOC".toList (linesOf exSL)) = true := by decide +kernel
example : isOkStr (canonStrict Env.ascii (spellText "DOC".toList exSL exDS2)) (flatText "DOC".toList (linesOf exSL)) = true := by decide +kernel
example : isOkStr (canonStrict Env.ascii (spellText "DOC".toList exSL exDS3)) (flatText "DOC".toList (linesOf exSL)) = true := by decide +kernel
example : isOkStr (canonStrict Env.ascii (flatText "DOC".toList (linesOf exSL))) (flatText "DOC".toList (linesOf exSL)) = true := by decide +kernel
example : isOkStr (canonStrict Env.ascii (spellTextCut "DOC".toList exSL.dropLast ⟨"N".toList, .int (-42)⟩ { pre := 1, post := 1, trail := 2 } exDS))
    (flatText "DOC".toList (linesOf exSL)) = true := by decide +kernel

/-- the lexer model evaluated on the concrete text gives exactly `spellToks` / `spellReps`; two normalisation receipts. -/
example : (match tokenize Env.ascii (spellText "DOC".toList exSL exDS) with
    | .ok p => p == (spellToks "DOC".toList exSL exDS, spellReps exSL exDS) | .error _ => false) = true := by decide +kernel
example : (spellReps exSL exDS).filter isNormalization =
    [Repair.normalization "\"\"\"".toList (.str "x \"y\" \\ z".toList) 4 9, Repair.normalization "\"\"\"".toList (.str "w2".toList) 11 7] := by
  decide +kernel

/-! ### triple-quote bodies -/

/-- the escaped body of every string is accepted; so is a string without special chars as its own body. -/
example (s : Str) (sp : LSpell) (h : sp.triple = some (escape s)) : spellVal (.qstr s) sp = .tri (escape s) := by
  simp only [spellVal, strSpell, tripleFor_escape s sp h]
example (s : Str) (sp : LSpell) (hs : ∀ c ∈ s, c ≠ '\\' ∧ c ≠ '"' ∧ c ≠ '\n' ∧ c ≠ '\t') (h : sp.triple = some s) :
    spellVal (.qstr s) sp = .tri s := by
  have := tripleFor_escape s sp (by rw [escape_plain s hs]; exact h)
  rw [escape_plain s hs] at this
  simp only [spellVal, strSpell, this]

/-- which bodies are one-line bodies: raw `"` and `""` inside are fine; a body that ends in `"` or in a backslash, or that
holds `"""`, a line break or a tab is not.  At those points the real lexer raises E005 (see the report); so does the model. -/
example : tripleBodyOK "say \"hi\" now".toList = true ∧ tripleBodyOK "a\"\"b".toList = true ∧ tripleBodyOK "a\\\"b\\n".toList = true ∧
    tripleBodyOK "a\"".toList = false ∧ tripleBodyOK "a\\".toList = false ∧ tripleBodyOK "a\"\"\"b".toList = false ∧
    tripleBodyOK "a\nb".toList = false ∧ tripleBodyOK "a\tb".toList = false := by decide
example : (match canonStrict Env.ascii "===D===\nA::\"\"\"a\"\"\"\"\n===END===\n".toList with
    | .error e => e == .lexer "E005".toList 2 11 | .ok _ => false) = true := by decide +kernel
example : (match canonStrict Env.ascii "===D===\nA::\"\"\"a\\\"\"\"\n===END===\n".toList with
    | .error e => e == .lexer "E005".toList 2 11 | .ok _ => false) = true := by decide +kernel
example : (match canonStrict Env.ascii "===D===\nA::\"\"\"a\tb\"\"\"\n===END===\n".toList with
    | .error e => e == .lexer "E005".toList 2 8 | .ok _ => false) = true := by decide +kernel
/-- a body that does not denote the value is not used: the value is spelled as a quoted string. -/
example : spellVal (.qstr "abc".toList) { triple := some "abd".toList } = .quo "abc".toList := by decide

/-! ### the hypotheses are necessary: the model at the excluded points (the real reader does the same, see the report) -/

/-- first key `META` (not indented): rejected with E001 at the `::`. -/
example : (match canonStrict Env.ascii "===D===\nMETA :: x\n===END===\n".toList with
    | .error e => e == .parser "E001".toList 2 6 | .ok _ => false) = true := by decide +kernel
/-- a name that is not `[A-Za-z_][A-Za-z0-9_]*`: E_INVALID_ENVELOPE_ID. -/
example : (match canonStrict Env.ascii "===1D===\nA :: x\n===END===\n".toList with
    | .error e => e == .lexer "E_INVALID_ENVELOPE_ID".toList 1 1 | .ok _ => false) = true := by decide +kernel
/-- the name `END`: the first line IS `===END===`; an empty document named INFERRED comes out. -/
example : isOkStr (canonStrict Env.ascii "===END===\nA :: x\n===END===\n".toList) "===INFERRED===\n===END===\n".toList = true := by
  decide +kernel
/-- a key with a reserved-word prefix: E005 at the `-`. -/
example : (match canonStrict Env.ascii "===D===\ntrue-x :: 1\n===END===\n".toList with
    | .error e => e == .lexer "E005".toList 2 5 | .ok _ => false) = true := by decide +kernel
/-- `EmitOK`: a document that holds the quoted plain word `"word"` is not a canonical one (its text is the `quoteWord`
spelling of `A::word`): it converges on `A::word`, not on itself. -/
example : isOkStr (canonStrict Env.ascii "===D===\nA::\"word\"\n===END===\n".toList) "===D===\nA::word\n===END===\n".toList = true := by
  decide +kernel
/-- outside the family: an indented envelope line loses the name (`INFERRED`). -/
example : isOkStr (canonStrict Env.ascii "  ===D===\nA::x\n===END===\n".toList) "===INFERRED===\nA::x\n===END===\n".toList = true := by
  decide +kernel

end Octave.C03
