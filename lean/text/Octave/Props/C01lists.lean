/-
C01 / C02 / C03 on flat documents whose values are scalars or LISTS OF SCALARS — the document-level statements, proved for
every document of the class:

  an envelope `===NAME===`, any number of lines `KEY::value`, `===END===`; a value is a scalar (`FScalar`: a string the
  emitter quotes, a bare word, a boolean, null, an integer) or a list of scalars of ANY length, the empty list included.

The emitter writes `[]`, `[a,b]` (at most two items, none an annotation-shaped string) or one item per line behind two spaces
with the closing bracket at the key's column (`needsMulti`, the transcription of `_needs_multiline` on scalar items).  A *layout*
(`Layout`: `.inline`, `.multi ind`) is chosen per list and independently of the content: the text `ldocText name ls` of a list
`ls : List (LLine × Layout)` spells each list on one line or one item per line behind `ind ≥ 0` spaces.

  * `C01_list_text_read`            the strict reader accepts EVERY layout and returns the same document `ldocAt` (nodes
                                    positioned at their keys); `C01_list_text_read_lenient`: so does `parse_with_warnings`, with
                                    exactly the lexer's identifier notes (no normalisation receipt) and the warnings `vdocWarns`;
  * `C01_list_fixed_point`          emit → strict read → emit: the same bytes (layout chosen by content only, re-parsed to the
                                    same items);
  * `C02_list_content_preserved`    the document read back has the same name, the same keys in order, the same scalar values
                                    with their types and the same list items in the same order with the same types;
  * `C03_list_layouts_converge`     every layout canonicalises (strict and lenient canonicaliser) to the canonical text: a short
                                    list written one item per line, a long list written on one line, any indentation;
                                    `C03_list_layouts_agree`: any two layouts of the same document give identical bytes;
  * `C15_list_emit_injective`       two such documents with the same canonical text have the same content.

It composes `Lemmas/ListLex` (lexer: bracket stack, INDENT / NEWLINE tokens inside lists), `Lemmas/ListBridge` (emitter, glue)
and `Lemmas/ListDocParse` (parser: whitespace tokens inside lists, `parse_section` on any value).

Hypotheses (decidable except `hnfc`; instances below), all inherited from the flat case — the lists add none:
  `isEnvName name`, `name ≠ "END"`; `LLine.OK`: keys and bare words are identifier-shaped without a reserved-word prefix, integers
  have at most 4300 digits; `LLine.EmitOK`: strings are quoted exactly when `needs_quotes` says so, and a bare SCALAR value does not
  sit under `PATTERN` / `REGEX` (list items under those keys are NOT force-quoted: no condition); the first key is not `META`;
  NFC leaves every line of the text unchanged.  No hypothesis on list length, item kinds, item content or layout.
What the real code does where a hypothesis fails, and at the edge of the class, is at the end of this file and in the report.
Not covered: nested lists, inline maps, unquoted annotation-shaped items (`NAME<q>`: not an `FScalar`), floats, spaces / comments
/ trailing commas inside lists (the parser half already allows COMMENT tokens and any whitespace tokens), lists inside blocks.
-/
import Octave.Lemmas.ListBridge
import Octave.Props.C02flat
import Octave.Model.Canon
import Octave.Lemmas.Receipts
namespace Octave.C01
open Octave Lexer Emitter
open Octave.ListDoc
open Octave.ListDocParse (VLine vdocToks vdoc vmetaFirst parseDocument_vlines Top vdocWarns)

/-- first key is not `META`. -/
def lfirstNotMeta (ls : List LL) : Bool :=
  match ls with | x :: _ => !(x.1.key == "META".toList) | [] => true

theorem vmetaFirst_false (ls : List LL) (h : lfirstNotMeta ls = true) : vmetaFirst (toVLines 2 ls) = false := by
  rw [vmetaFirst_bridge]
  cases ls with
  | nil => rfl
  | cons x r => simpa [lfirstNotMeta] using h

theorem stripFrontmatter_ldoc (env : Env) (name : Str) (ls : List LL) :
    Parser.stripFrontmatter env (ldocText name ls) = (ldocText name ls, none) := by
  unfold Parser.stripFrontmatter
  have : startsWith "---".toList (ldocText name ls) = false := by
    simp [ldocText, startsWith, List.isPrefixOf]
  rw [this]; rfl

/-- the parser on the token list of a flat document with list values, from the initial state of either entry point. -/
theorem parseDocument_ldoc (env : Env) (strict : Bool) (name : Str) (ls : List LL) (hm : lfirstNotMeta ls = true) :
    ∃ st', Parser.parseDocument.run (Parser.initState env (ldocToks name ls) strict) = .ok (ldocAt name ls, st') ∧
      st'.warnings = (vdocWarns [] (toVLines 2 ls)).reverse := by
  have hb := ldocToks_bridge name ls
  obtain ⟨st', h1, h2⟩ := parseDocument_vlines (flatFrame name (llinesHeight ls)) name (toVLines 2 ls) ((llinesToks 2 ls).length + 6)
    (Parser.initState env (ldocToks name ls) strict) (toVLines_ok ls 2)
    (by rw [← hb]; simp only [ldocToks, List.length_cons, List.length_append, List.length_nil]; omega)
    ⟨rfl, Or.inr (by show 1 < 5; omega)⟩ (vmetaFirst_false ls hm) (by rw [← hb]; rfl)
  refine ⟨st', ?_, by rw [h2]; simp [Parser.initState]⟩
  simp only [StateT.run]
  rw [h1, vdoc_bridge]


/-- the hypothesis on the text side: the lines are lexable (`LLine.OK`); the layouts are unconstrained. -/
def LLOK (ls : List LL) : Prop := ∀ x ∈ ls, x.1.OK

/-- **every spelling (each list on one line or one item per line behind any number of spaces) is read by the strict reader as
the same document**: name, keys in order, values with their types, list items in order with their types. -/
theorem C01_list_text_read (env : Env) (name : Str) (ls : List LL)
    (hn : isEnvName name = true) (hne : name ≠ "END".toList) (hok : LLOK ls) (hm : lfirstNotMeta ls = true)
    (hnfc : ∀ l ∈ splitLines (ldocText name ls), env.nfc l = l) :
    Parser.parse env (ldocText name ls) = .ok (ldocAt name ls) := by
  have hlex := tokenize_ldoc env false name ls hn hne hok hnfc
  have hs := stripFrontmatter_ldoc env name ls
  have hlex' : Lexer.tokenize env (Parser.stripFrontmatter env (ldocText name ls)).1
      = .ok (ldocToks name ls, toksReps (ldocToks name ls)) := by rw [hs]; exact hlex
  obtain ⟨st', h1, _⟩ := parseDocument_ldoc env true name ls hm
  rw [C02.parse_eq_parseToks env _ _ _ hlex', hs]
  unfold C02.parseToks
  simp only [h1, bind, Except.bind, pure, Except.pure, Except.map]
  rfl

theorem toksReps_not_norm (ts : List Token) : (toksReps ts).filter isNormalization = [] := by
  apply filter_norm_eq_nil
  intro r hr
  simp only [toksReps, List.mem_flatMap] at hr
  obtain ⟨t, _, ht⟩ := hr
  unfold tokReps at ht
  split at ht
  · exact identifierRepairs_not_norm _ _ _ r ht
  · cases ht

/-- the lenient entry point (`parse_with_warnings`) reads the same document, with exactly the identifier notes of the lexer
(no normalisation receipt) and exactly the parser warnings `vdocWarns` (duplicate keys; a bare scalar under `PATTERN`/`REGEX`). -/
theorem C01_list_text_read_lenient (env : Env) (name : Str) (ls : List LL)
    (hn : isEnvName name = true) (hne : name ≠ "END".toList) (hok : LLOK ls) (hm : lfirstNotMeta ls = true)
    (hnfc : ∀ l ∈ splitLines (ldocText name ls), env.nfc l = l) :
    Parser.parseWithWarnings env (ldocText name ls)
      = .ok (ldocAt name ls, toksReps (ldocToks name ls), vdocWarns [] (toVLines 2 ls)) ∧
    (toksReps (ldocToks name ls)).filter isNormalization = [] := by
  have hlex := tokenize_ldoc env false name ls hn hne hok hnfc
  have hs := stripFrontmatter_ldoc env name ls
  have hlex' : Lexer.tokenize env (Parser.stripFrontmatter env (ldocText name ls)).1
      = .ok (ldocToks name ls, toksReps (ldocToks name ls)) := by rw [hs]; exact hlex
  obtain ⟨st', h1, h2⟩ := parseDocument_ldoc env false name ls hm
  refine ⟨?_, toksReps_not_norm _⟩
  rw [C02.parseWithWarnings_eq_parseToks env _ _ _ hlex', hs]
  unfold C02.parseToksWithWarnings
  simp only [h1, h2, bind, Except.bind, pure, Except.pure, Except.map, List.reverse_reverse]
  rfl

/-- hypotheses on a document's lines (content only): lexable, and spelled the way the emitter spells them. -/
def LinesOK (lines : List LLine) : Prop := (∀ ln ∈ lines, ln.OK) ∧ (∀ ln ∈ lines, ln.EmitOK)

theorem canonLL_ok (lines : List LLine) (h : ∀ ln ∈ lines, ln.OK) : LLOK (canonLL lines) := by
  intro x hx
  obtain ⟨ln, hln, rfl⟩ := List.mem_map.mp hx
  exact h ln hln

theorem canonLL_fst (lines : List LLine) : (canonLL lines).map Prod.fst = lines := by
  simp [canonLL, List.map_map, Function.comp_def]

def firstKeyNotMeta (lines : List LLine) : Bool :=
  match lines with | ln :: _ => !(ln.key == "META".toList) | [] => true

theorem lfirstNotMeta_of (ls : List LL) (h : firstKeyNotMeta (ls.map Prod.fst) = true) : lfirstNotMeta ls = true := by
  cases ls with
  | nil => rfl
  | cons x r => exact h

/-- **C01 on flat documents with list values: the canonical text is a fixed point.**  Emit the document (whatever
positions its nodes carry), read the text with the strict reader, emit again: the same bytes.  Any number of lines; scalar
values and lists of scalars of any length; the list layout (one line / one item per line) is a function of the content
only (`needsMulti`) and re-parses to the same items. -/
theorem C01_list_fixed_point (env : Env) (name : Str) (lines : List LLine) (nodes : List Node) (hnodes : NodesOf lines nodes)
    (hn : isEnvName name = true) (hne : name ≠ "END".toList) (hl : LinesOK lines) (hm : firstKeyNotMeta lines = true)
    (hnfc : ∀ l ∈ splitLines (ldocText name (canonLL lines)), env.nfc l = l) :
    ∃ text d', emit env { name := name, sections := nodes } = some text ∧ Parser.parse env text = .ok d' ∧
      emit env d' = some text := by
  have hm' : lfirstNotMeta (canonLL lines) = true := lfirstNotMeta_of _ (by rw [canonLL_fst]; exact hm)
  refine ⟨ldocText name (canonLL lines), ldocAt name (canonLL lines), emit_ldoc env name hnodes hl.2,
    C01_list_text_read env name _ hn hne (canonLL_ok lines hl.1) hm' hnfc, ?_⟩
  have hno := nodesOf_lnodesAt (canonLL lines) 2
  rw [canonLL_fst] at hno
  exact emit_ldoc env name hno hl.2


theorem lnodesAt_length (ls : List LL) : ∀ l, (lnodesAt l ls).length = ls.length := by
  induction ls with
  | nil => intro l; rfl
  | cons x r ih => intro l; simp [lnodesAt, ih]

theorem lnodesAt_get (ls : List LL) : ∀ (l i : Nat) (h : i < ls.length), ∃ l', (lnodesAt l ls)[i]? = some (ls[i].1.node l' 1) := by
  induction ls with
  | nil => intro l i h; simp at h
  | cons x r ih =>
    intro l i h
    cases i with
    | zero => exact ⟨l, by simp [lnodesAt]⟩
    | succ j =>
      have hj : j < r.length := by simpa using h
      obtain ⟨l', hl'⟩ := ih (l + x.1.height x.2) j hj
      exact ⟨l', by simpa [lnodesAt] using hl'⟩

/-- **C02 on flat documents with list values: reading the canonical text yields exactly the content that was written** —
the name, the keys in order, every scalar value with its type, every list with the same items in the same order with the
same types (`FValue.value`: `.list (items.map FScalar.value)`); nothing else appears. -/
theorem C02_list_content_preserved (env : Env) (name : Str) (lines : List LLine) (nodes : List Node) (hnodes : NodesOf lines nodes)
    (hn : isEnvName name = true) (hne : name ≠ "END".toList) (hl : LinesOK lines) (hm : firstKeyNotMeta lines = true)
    (hnfc : ∀ l ∈ splitLines (ldocText name (canonLL lines)), env.nfc l = l) :
    ∃ text d', emit env { name := name, sections := nodes } = some text ∧ Parser.parse env text = .ok d' ∧
      d'.name = name ∧ d'.metaKv = [] ∧ d'.hasSeparator = false ∧ d'.trailingComments = [] ∧ d'.grammarVersion = none ∧
      d'.rawFrontmatter = none ∧ d'.sections.length = lines.length ∧
      ∀ i (h : i < lines.length), ∃ l c, d'.sections[i]? = some (.assign lines[i].key lines[i].v.value l c [] none) := by
  have hm' : lfirstNotMeta (canonLL lines) = true := lfirstNotMeta_of _ (by rw [canonLL_fst]; exact hm)
  refine ⟨ldocText name (canonLL lines), ldocAt name (canonLL lines), emit_ldoc env name hnodes hl.2,
    C01_list_text_read env name _ hn hne (canonLL_ok lines hl.1) hm' hnfc, rfl, rfl, rfl, rfl, rfl, rfl, ?_, ?_⟩
  · show (lnodesAt 2 (canonLL lines)).length = lines.length
    rw [lnodesAt_length]; simp [canonLL]
  · intro i h
    have h' : i < (canonLL lines).length := by simpa [canonLL] using h
    obtain ⟨l', hl'⟩ := lnodesAt_get (canonLL lines) 2 i h'
    refine ⟨l', 1, ?_⟩
    show (lnodesAt 2 (canonLL lines))[i]? = _
    rw [hl']
    simp [canonLL, LLine.node]

/-- … the value of a list line read back is the list of its items' values, in order, with their types. -/
theorem value_list_eq (items : List FScalar) : (FValue.list items).value = .list (items.map FScalar.value) := rfl

theorem canon_of_read' (env : Env) (text : Str) (d : Document) (out : Str) (reps : List Repair) (ws : List Parser.Warning)
    (h1 : Parser.parse env text = .ok d) (h2 : Parser.parseWithWarnings env text = .ok (d, reps, ws))
    (he : emit env d = some out) :
    canonStrict env text = .ok out ∧ canonLenient env text = .ok out := by
  constructor
  · unfold canonStrict
    rw [h1]
    simp only [bind, Except.bind, he]
    rfl
  · unfold canonLenient
    rw [h2]
    simp only [bind, Except.bind, he]
    rfl

/-- **C03, list layouts: every spelling converges on the canonical text.**  Whatever layout each list is written in
(`[a,b,c]` on one line, or one item per line behind any number of spaces, zero included, with the closing bracket at column 1 — a short list
written multi-line, a long list written on one line), both canonicalisers return the text with the emitter's own layouts. -/
theorem C03_list_layouts_converge (env : Env) (name : Str) (ls : List LL)
    (hn : isEnvName name = true) (hne : name ≠ "END".toList) (hok : LLOK ls) (hem : ∀ x ∈ ls, x.1.EmitOK)
    (hm : lfirstNotMeta ls = true) (hnfc : ∀ l ∈ splitLines (ldocText name ls), env.nfc l = l) :
    canonStrict env (ldocText name ls) = .ok (ldocText name (canonLL (ls.map Prod.fst))) ∧
    canonLenient env (ldocText name ls) = .ok (ldocText name (canonLL (ls.map Prod.fst))) := by
  have h2 := (C01_list_text_read_lenient env name ls hn hne hok hm hnfc).1
  refine canon_of_read' env _ _ _ _ _ (C01_list_text_read env name ls hn hne hok hm hnfc) h2
    (emit_ldoc env name (nodesOf_lnodesAt ls 2) (fun ln hl => ?_))
  obtain ⟨x, hx, rfl⟩ := List.mem_map.mp hl
  exact hem x hx

/-- **any two layouts of the same document canonicalise to identical bytes** (both canonicalisers). -/
theorem C03_list_layouts_agree (env : Env) (name : Str) (ls₁ ls₂ : List LL) (hsame : ls₁.map Prod.fst = ls₂.map Prod.fst)
    (hn : isEnvName name = true) (hne : name ≠ "END".toList) (hok₁ : LLOK ls₁) (hok₂ : LLOK ls₂) (hem : ∀ x ∈ ls₁, x.1.EmitOK)
    (hm : lfirstNotMeta ls₁ = true)
    (hnfc₁ : ∀ l ∈ splitLines (ldocText name ls₁), env.nfc l = l) (hnfc₂ : ∀ l ∈ splitLines (ldocText name ls₂), env.nfc l = l) :
    canonStrict env (ldocText name ls₁) = canonStrict env (ldocText name ls₂) ∧
    canonLenient env (ldocText name ls₁) = canonLenient env (ldocText name ls₂) := by
  have hem₂ : ∀ x ∈ ls₂, x.1.EmitOK := by
    intro x hx
    have : x.1 ∈ ls₁.map Prod.fst := by rw [hsame]; exact List.mem_map.mpr ⟨x, hx, rfl⟩
    obtain ⟨y, hy, e⟩ := List.mem_map.mp this
    rw [← e]; exact hem y hy
  have hm₂ : lfirstNotMeta ls₂ = true := by
    cases ls₂ with
    | nil => rfl
    | cons b r₂ =>
      cases ls₁ with
      | nil => simp at hsame
      | cons a r₁ =>
        have : a.1 = b.1 := by simp only [List.map_cons, List.cons.injEq] at hsame; exact hsame.1
        simp only [lfirstNotMeta] at hm ⊢
        rw [← this]; exact hm
  have h1 := C03_list_layouts_converge env name ls₁ hn hne hok₁ hem hm hnfc₁
  have h2 := C03_list_layouts_converge env name ls₂ hn hne hok₂ hem₂ hm₂ hnfc₂
  rw [← hsame] at h2
  exact ⟨by rw [h1.1, h2.1], by rw [h1.2, h2.2]⟩


/-! ### decidability of the hypotheses (for closed checks) -/

instance decScalarOK (v : FScalar) : Decidable v.OK := by
  cases v <;> (simp only [FScalar.OK]; infer_instance)
instance decItemEmitOK (v : FScalar) : Decidable (ItemEmitOK v) := by
  cases v <;> (simp only [ItemEmitOK]; infer_instance)
instance decValueOK (v : FValue) : Decidable v.OK := by
  cases v with
  | scalar s => exact inferInstanceAs (Decidable s.OK)
  | list items => exact inferInstanceAs (Decidable (∀ x ∈ items, x.OK))
instance decLLineOK (ln : LLine) : Decidable ln.OK := inferInstanceAs (Decidable (_ ∧ _ ∧ _))
instance decFLineEmitOK (ln : FLine) : Decidable ln.EmitOK := by
  obtain ⟨key, v⟩ := ln
  cases v <;> (simp only [FLine.EmitOK]; infer_instance)
instance decLLineEmitOK (ln : LLine) : Decidable ln.EmitOK := by
  obtain ⟨key, v⟩ := ln
  cases v with
  | scalar s => exact inferInstanceAs (Decidable (FLine.mk key s).EmitOK)
  | list items => exact inferInstanceAs (Decidable (∀ x ∈ items, ItemEmitOK x))

def lxLines : List LLine :=
  [ ⟨"E".toList, .list []⟩,
    ⟨"K".toList, .list [.bare "a".toList, .qstr "b c".toList]⟩,
    ⟨"N".toList, .list [.int 1, .int 2, .int 3]⟩,
    ⟨"ALL".toList, .list [.qstr "x \"y\" , ] [ \\ z".toList, .bare "word".toList, .bool true, .null, .int (-42)]⟩,
    ⟨"A".toList, .list [.qstr "true<x>".toList]⟩,
    ⟨"PATTERN".toList, .list [.bare "a".toList, .bare "b".toList]⟩,
    ⟨"T".toList, .list [.bool true, .qstr "true".toList]⟩,
    ⟨"S".toList, .scalar (.bool false)⟩ ]

theorem lxLines_ok : LinesOK lxLines := by
  constructor
  · decide +kernel
  · decide +kernel

example : ldocText "DOC".toList (canonLL lxLines) =
    "===DOC===\nE::[]\nK::[a,\"b c\"]\nN::[\n  1,\n  2,\n  3\n]\nALL::[\n  \"x \\\"y\\\" , ] [ \\\\ z\",\n  word,\n  true,\n  null,\n  -42\n]\nA::[\n  \"true<x>\"\n]\nPATTERN::[a,b]\nT::[true,\"true\"]\nS::false\n===END===\n".toList := by
  decide +kernel

/-- the canonical layouts: `[]`, ≤ 2 plain items on one line, ≥ 3 items or an annotation-shaped string one per line. -/
example : lxLines.map (fun ln => ln.v.canonLayout) =
    [.inline, .inline, .multi 2, .multi 2, .multi 2, .inline, .inline, .inline] := by decide +kernel

/-- the theorems applied (not evaluated) to the example, whatever positions the nodes carry. -/
example : ∃ text d', emit Env.ascii { name := "DOC".toList, sections := lnodesAt 40 (canonLL lxLines) } = some text ∧
    Parser.parse Env.ascii text = .ok d' ∧ emit Env.ascii d' = some text := by
  have hno := nodesOf_lnodesAt (canonLL lxLines) 40
  rw [canonLL_fst] at hno
  exact C01_list_fixed_point Env.ascii "DOC".toList lxLines _ hno (by decide) (by decide) lxLines_ok (by decide) (fun _ _ => rfl)

example : ∃ text d', emit Env.ascii { name := "DOC".toList, sections := lnodesAt 40 (canonLL lxLines) } = some text ∧
    Parser.parse Env.ascii text = .ok d' ∧ d'.sections.length = 8 := by
  have hno := nodesOf_lnodesAt (canonLL lxLines) 40
  rw [canonLL_fst] at hno
  obtain ⟨text, d', h1, h2, _, _, _, _, _, _, h9, _⟩ :=
    C02_list_content_preserved Env.ascii "DOC".toList lxLines _ hno (by decide) (by decide) lxLines_ok (by decide) (fun _ _ => rfl)
  exact ⟨text, d', h1, h2, h9⟩

/-- the task's own small cases: `K::[]`, `K::[a,"b c"]`, `K::[1,2,3]`. -/
example : ∃ text d', emit Env.ascii { name := "D".toList, sections := [.assign "K".toList (.list []) 0 0 [] none] } = some text ∧
    Parser.parse Env.ascii text = .ok d' ∧ emit Env.ascii d' = some text :=
  C01_list_fixed_point Env.ascii "D".toList [⟨"K".toList, .list []⟩] _ (NodesOf.cons _ 0 0 NodesOf.nil) (by decide) (by decide)
    ⟨by decide +kernel, by decide +kernel⟩ (by decide) (fun _ _ => rfl)
example : ∃ text d', emit Env.ascii { name := "D".toList, sections := [.assign "K".toList (.list [.str "a".toList, .str "b c".toList]) 3 9 [] none] } = some text ∧
    Parser.parse Env.ascii text = .ok d' ∧ emit Env.ascii d' = some text :=
  C01_list_fixed_point Env.ascii "D".toList [⟨"K".toList, .list [.bare "a".toList, .qstr "b c".toList]⟩] _ (NodesOf.cons _ 3 9 NodesOf.nil)
    (by decide) (by decide) ⟨by decide +kernel, by decide +kernel⟩ (by decide) (fun _ _ => rfl)
example : ∃ text d', emit Env.ascii { name := "D".toList, sections := [.assign "K".toList (.list [.int 1, .int 2, .int 3]) 0 0 [] none] } = some text ∧
    Parser.parse Env.ascii text = .ok d' ∧ emit Env.ascii d' = some text :=
  C01_list_fixed_point Env.ascii "D".toList [⟨"K".toList, .list [.int 1, .int 2, .int 3]⟩] _ (NodesOf.cons _ 0 0 NodesOf.nil)
    (by decide) (by decide) ⟨by decide +kernel, by decide +kernel⟩ (by decide) (fun _ _ => rfl)

/-- lists of symbolic content and any length: every integer list, every list of quoted strings the emitter quotes. -/
example (is : List Int) (h : ∀ i ∈ is, (natStr i.natAbs).length ≤ 4300) :
    ∃ text d', emit Env.ascii { name := "D".toList, sections := [.assign "K".toList (.list (is.map Value.int)) 0 0 [] none] } = some text ∧
      Parser.parse Env.ascii text = .ok d' ∧ emit Env.ascii d' = some text := by
  have := C01_list_fixed_point Env.ascii "D".toList [⟨"K".toList, .list (is.map FScalar.int)⟩] _ (NodesOf.cons _ 0 0 NodesOf.nil)
    (by decide) (by decide)
    ⟨by intro ln hl; simp only [List.mem_singleton] at hl; subst hl
        refine ⟨(by decide : isIdentifierText "K".toList = true), (by decide : hasReservedPrefix "K".toList = false), ?_⟩
        intro x hx; obtain ⟨i, hi, rfl⟩ := List.mem_map.mp hx; exact h i hi,
     by intro ln hl; simp only [List.mem_singleton] at hl; subst hl
        intro x hx; obtain ⟨i, hi, rfl⟩ := List.mem_map.mp hx; trivial⟩
    (by show (!("K".toList == "META".toList)) = true; decide) (fun _ _ => rfl)
  simpa [LLine.node, FValue.value, List.map_map, Function.comp_def, FScalar.value] using this

/-! ### the whole model evaluated on the same document (independent of the theorems) -/

def lxText : Str := ldocText "DOC".toList (canonLL lxLines)

example : (match emit Env.ascii { name := "DOC".toList, sections := lnodesAt 40 (canonLL lxLines) } with
    | some t => t == lxText | none => false) = true := by decide +kernel
example : (match tokenize Env.ascii lxText with
    | .ok p => p == (ldocToks "DOC".toList (canonLL lxLines), toksReps (ldocToks "DOC".toList (canonLL lxLines))) | .error _ => false) = true := by
  decide +kernel
example : isOkStr (canonStrict Env.ascii lxText) lxText = true := by decide +kernel
example : isOkStr (canonLenient Env.ascii lxText) lxText = true := by decide +kernel

/-! ### C03: other layouts of the same document -/

/-- every list on one line. -/
def lxInline : List LL := lxLines.map fun ln => (ln, .inline)
/-- every list one item per line: no indentation, one space, five spaces in turn. -/
def lxMulti : List LL := (lxLines.zip [.multi 0, .multi 1, .multi 5, .multi 0, .multi 1, .multi 5, .multi 2, .inline])

example : ldocText "DOC".toList lxInline =
    "===DOC===\nE::[]\nK::[a,\"b c\"]\nN::[1,2,3]\nALL::[\"x \\\"y\\\" , ] [ \\\\ z\",word,true,null,-42]\nA::[\"true<x>\"]\nPATTERN::[a,b]\nT::[true,\"true\"]\nS::false\n===END===\n".toList := by
  decide +kernel
example : ldocText "DOC".toList lxMulti =
    "===DOC===\nE::[\n]\nK::[\n a,\n \"b c\"\n]\nN::[\n     1,\n     2,\n     3\n]\nALL::[\n\"x \\\"y\\\" , ] [ \\\\ z\",\nword,\ntrue,\nnull,\n-42\n]\nA::[\n \"true<x>\"\n]\nPATTERN::[\n     a,\n     b\n]\nT::[\n  true,\n  \"true\"\n]\nS::false\n===END===\n".toList := by
  decide +kernel

theorem lxInline_fst : lxInline.map Prod.fst = lxLines := by decide +kernel
theorem lxMulti_fst : lxMulti.map Prod.fst = lxLines := by decide +kernel

/-- the theorem applied: both spellings converge on the canonical text (a long list written on one line, short lists
written one item per line), and agree with each other. -/
example : canonStrict Env.ascii (ldocText "DOC".toList lxInline) = .ok lxText := by
  have := (C03_list_layouts_converge Env.ascii "DOC".toList lxInline (by decide) (by decide)
    (by intro x hx; exact lxLines_ok.1 x.1 (by rw [← lxInline_fst]; exact List.mem_map.mpr ⟨x, hx, rfl⟩))
    (by intro x hx; exact lxLines_ok.2 x.1 (by rw [← lxInline_fst]; exact List.mem_map.mpr ⟨x, hx, rfl⟩))
    (by decide) (fun _ _ => rfl)).1
  rw [this, lxInline_fst]; rfl
example : canonLenient Env.ascii (ldocText "DOC".toList lxMulti) = .ok lxText := by
  have := (C03_list_layouts_converge Env.ascii "DOC".toList lxMulti (by decide) (by decide)
    (by intro x hx; exact lxLines_ok.1 x.1 (by rw [← lxMulti_fst]; exact List.mem_map.mpr ⟨x, hx, rfl⟩))
    (by intro x hx; exact lxLines_ok.2 x.1 (by rw [← lxMulti_fst]; exact List.mem_map.mpr ⟨x, hx, rfl⟩))
    (by decide) (fun _ _ => rfl)).2
  rw [this, lxMulti_fst]; rfl
example : canonStrict Env.ascii (ldocText "DOC".toList lxInline) = canonStrict Env.ascii (ldocText "DOC".toList lxMulti) :=
  (C03_list_layouts_agree Env.ascii "DOC".toList lxInline lxMulti (by rw [lxInline_fst, lxMulti_fst]) (by decide) (by decide)
    (by intro x hx; exact lxLines_ok.1 x.1 (by rw [← lxInline_fst]; exact List.mem_map.mpr ⟨x, hx, rfl⟩))
    (by intro x hx; exact lxLines_ok.1 x.1 (by rw [← lxMulti_fst]; exact List.mem_map.mpr ⟨x, hx, rfl⟩))
    (by intro x hx; exact lxLines_ok.2 x.1 (by rw [← lxInline_fst]; exact List.mem_map.mpr ⟨x, hx, rfl⟩))
    (by decide) (fun _ _ => rfl) (fun _ _ => rfl)).1

/-- … and the whole model evaluated on them. -/
example : isOkStr (canonStrict Env.ascii (ldocText "DOC".toList lxInline)) lxText = true := by decide +kernel
example : isOkStr (canonStrict Env.ascii (ldocText "DOC".toList lxMulti)) lxText = true := by decide +kernel
example : isOkStr (canonLenient Env.ascii (ldocText "DOC".toList lxMulti)) lxText = true := by decide +kernel

/-- any indentation, symbolic: a two-item list written one item per line behind `n` spaces converges on `[a,b]`. -/
example (n : Nat) : canonStrict Env.ascii (ldocText "D".toList [(⟨"K".toList, .list [.bare "a".toList, .bare "b".toList]⟩, .multi n)])
    = .ok "===D===\nK::[a,b]\n===END===\n".toList :=
  (C03_list_layouts_converge Env.ascii "D".toList _ (by decide) (by decide)
    (by intro x hx; simp only [List.mem_singleton] at hx; subst hx
        show LLine.OK ⟨"K".toList, .list [.bare "a".toList, .bare "b".toList]⟩; decide +kernel)
    (by intro x hx; simp only [List.mem_singleton] at hx; subst hx
        show LLine.EmitOK ⟨"K".toList, .list [.bare "a".toList, .bare "b".toList]⟩; decide +kernel)
    (by show (!("K".toList == "META".toList)) = true; decide) (fun _ _ => rfl)).1


/-! ### the hypotheses are necessary / the edge of the class: the model at the excluded points (the real reader does the
same at every one of them, see the prover's report) -/

/-- first key `META` with a list value: taken for the META block header, E001 at the `::`. -/
example : (match canonStrict Env.ascii "===D===\nMETA::[a,b]\n===END===\n".toList with
    | .error e => e == .parser "E001".toList 2 5 | .ok _ => false) = true := by decide +kernel
/-- `EmitOK` (items): a quoted plain word is not the emitter's spelling; the text converges on `[word]`, not on itself. -/
example : isOkStr (canonStrict Env.ascii "===D===\nK::[\"word\"]\n===END===\n".toList) "===D===\nK::[word]\n===END===\n".toList = true := by
  decide +kernel
/-- `EmitOK` (scalar line): a bare word under `PATTERN` is force-quoted — but list items under `PATTERN` are not
(`PATTERN::[a,b]` is in `lxLines`): `_ALWAYS_QUOTE_KEYS` concerns assignment values and inline-map values only. -/
example : isOkStr (canonStrict Env.ascii "===D===\nPATTERN::a\n===END===\n".toList) "===D===\nPATTERN::\"a\"\n===END===\n".toList = true := by
  decide +kernel
/-- `OK` (items): a bare item with a reserved-word prefix does not lex (the emitter quotes such a string). -/
example : (match canonStrict Env.ascii "===D===\nK::[true-x]\n===END===\n".toList with
    | .error e => e == .lexer "E005".toList 2 9 | .ok _ => false) = true := by decide +kernel
/-- outside the class (not an `FScalar`): an UNQUOTED annotation-shaped item `NAME<q>` forces the multi-line layout as well, and
that text is a fixed point too. -/
example : isOkStr (canonStrict Env.ascii "===D===\nK::[NAME<q>]\n===END===\n".toList) "===D===\nK::[\n  NAME<q>\n]\n===END===\n".toList = true := by
  decide +kernel
example : isOkStr (canonStrict Env.ascii "===D===\nK::[\n  NAME<q>\n]\n===END===\n".toList) "===D===\nK::[\n  NAME<q>\n]\n===END===\n".toList = true := by
  decide +kernel
/-- outside the layout family: spaces after commas, an indented closing bracket, a trailing comma, a comment inside the list
converge too … -/
example : isOkStr (canonStrict Env.ascii "===D===\nK::[a, b]\n===END===\n".toList) "===D===\nK::[a,b]\n===END===\n".toList = true := by decide +kernel
example : isOkStr (canonStrict Env.ascii "===D===\nK::[\n  a,\n  b\n  ]\n===END===\n".toList) "===D===\nK::[a,b]\n===END===\n".toList = true := by decide +kernel
example : isOkStr (canonStrict Env.ascii "===D===\nK::[a,b,]\n===END===\n".toList) "===D===\nK::[a,b]\n===END===\n".toList = true := by decide +kernel
example : isOkStr (canonStrict Env.ascii "===D===\nK::[\n  a, // c\n  b\n]\n===END===\n".toList) "===D===\nK::[a,b]\n===END===\n".toList = true := by decide +kernel
/-- … but a line break BEFORE a comma does not: the comma itself is read as a third item, the string `","`
(`parse_list` re-enters its loop on the NEWLINE, skips it, and `parse_list_item` falls through to `parse_value`'s default
branch on the COMMA token).  The real reader does the same. -/
example : isOkStr (canonStrict Env.ascii "===D===\nK::[a\n,b]\n===END===\n".toList) "===D===\nK::[\n  a,\n  \",\",\n  b\n]\n===END===\n".toList = true := by
  decide +kernel

/-! ### the emitter is injective on these documents -/

theorem lnodesAt_inj : ∀ (a b : List LL) (l₁ l₂ : Nat), lnodesAt l₁ a = lnodesAt l₂ b →
    a.map (fun x => (x.1.key, x.1.v.value)) = b.map (fun x => (x.1.key, x.1.v.value)) := by
  intro a
  induction a with
  | nil =>
    intro b l₁ l₂ h
    cases b with
    | nil => rfl
    | cons y r => simp [lnodesAt] at h
  | cons x r ih =>
    intro b l₁ l₂ h
    cases b with
    | nil => simp [lnodesAt] at h
    | cons y r₂ =>
      simp only [lnodesAt, List.cons.injEq, LLine.node, Node.assign.injEq] at h
      obtain ⟨⟨hk, hv, _⟩, hr⟩ := h
      simp only [List.map_cons, List.cons.injEq, Prod.mk.injEq]
      exact ⟨⟨hk, hv⟩, ih r₂ _ _ hr⟩

/-- **Two such documents with the same canonical text have the same content** (name, keys in order, values with their
types, list items in order with their types): `emit` is injective up to node positions — the hypothesis of the seal theorems
of C15.  Proof: the strict reader is a left inverse. -/
theorem C15_list_emit_injective (env : Env) (n₁ n₂ : Str) (l₁ l₂ : List LLine) (ns₁ ns₂ : List Node)
    (hno₁ : NodesOf l₁ ns₁) (hno₂ : NodesOf l₂ ns₂)
    (hn₁ : isEnvName n₁ = true) (hne₁ : n₁ ≠ "END".toList) (hl₁ : LinesOK l₁) (hm₁ : firstKeyNotMeta l₁ = true)
    (hnfc₁ : ∀ l ∈ splitLines (ldocText n₁ (canonLL l₁)), env.nfc l = l)
    (hn₂ : isEnvName n₂ = true) (hne₂ : n₂ ≠ "END".toList) (hl₂ : LinesOK l₂) (hm₂ : firstKeyNotMeta l₂ = true)
    (hnfc₂ : ∀ l ∈ splitLines (ldocText n₂ (canonLL l₂)), env.nfc l = l)
    (h : emit env { name := n₁, sections := ns₁ } = emit env { name := n₂, sections := ns₂ }) :
    n₁ = n₂ ∧ l₁.map (fun ln => (ln.key, ln.v.value)) = l₂.map (fun ln => (ln.key, ln.v.value)) := by
  rw [emit_ldoc env n₁ hno₁ hl₁.2, emit_ldoc env n₂ hno₂ hl₂.2] at h
  have ht : ldocText n₁ (canonLL l₁) = ldocText n₂ (canonLL l₂) := by simpa using h
  have r₁ := C01_list_text_read env n₁ _ hn₁ hne₁ (canonLL_ok l₁ hl₁.1) (lfirstNotMeta_of _ (by rw [canonLL_fst]; exact hm₁)) hnfc₁
  have r₂ := C01_list_text_read env n₂ _ hn₂ hne₂ (canonLL_ok l₂ hl₂.1) (lfirstNotMeta_of _ (by rw [canonLL_fst]; exact hm₂)) hnfc₂
  rw [ht, r₂] at r₁
  have hd : ldocAt n₂ (canonLL l₂) = ldocAt n₁ (canonLL l₁) := by simpa using r₁
  simp only [ldocAt, Document.mk.injEq] at hd
  have := lnodesAt_inj _ _ _ _ hd.2.2.2.1
  simp only [canonLL, List.map_map, Function.comp_def] at this
  exact ⟨hd.1.symm, this.symm⟩


end Octave.C01
