/-
C01 / C02 (and the emitter-injectivity hypothesis of C15) on UNIFIED documents — the document-level statement for the
COMBINATION of the constructs proved one by one in `C01tree`, `C01meta`, `C01sections`, `C01comments` / `C02comments`:

  a unified document = an envelope `===NAME===`;
    a META block `META:` + one line `  KEY::scalar` per field (NO block when there is no field);
    a body forest of
      lines    `KEY::scalar`   (scalar = a string the emitter quotes, a bare word, an integer, a boolean, null)
                               with any number of leading comment lines and an optional trailing comment `// text`,
      blocks   `KEY:`          with leading comment lines and children two spaces deeper,
      sections `§ID::NAME`     with leading comment lines and children two spaces deeper (ids `§1` `§CONTEXT` `§2b`),
    ANY depth, ANY width, the three kinds mixed at every level, empty blocks / sections included, ANY number of comments;
    the document's trailing comment lines; `===END===`.

For every such document (`D.DNode`, `D.dDoc`, `D.dDocText`; any name, fields, forest, comments):

  * `C01_document_canonical_is_readable`  the strict reader accepts the canonical text and returns the same document: the fields
                                        in `meta` in order with their types, every node at its text line / column `1 + 2·depth`
                                        with exactly its leading comments and its trailing comment — a SECTION's leading
                                        comments included —, the document's trailing comments in `trailing_comments`;
  * `C01_document_fixed_point` (`…_matches`)   `emit (parse (emit d)) = emit d`, byte for byte, whatever positions the AST carries;
  * `C02_document_content_preserved`    name, META fields, and sections that `forestMatches` the forest (keys, section ids and
                                        names, nesting, order, values with types, every comment at its node); nothing else;
  * `C02_document_lenient_read` (`…_exact`, `…_silent`)   the lenient entry point reads the same document with NO
                                        normalisation receipt (exact receipts and warnings; when there is no warning at all);
  * `document_text_injective`, `C15_document_emit_injective`   the canonical text / the emitted text determines name, META
                                        fields, body content (comments included) and trailing comments;
  * `C02_document_read`, `C02_document_read_warnings`, `C01_document_canonical_read_general`   the READER statements at token
                                        level (every token position arbitrary) and without the distinct-keys hypothesis.

It composes the lexer+emitter half (`Lemmas/DLex`: one new mutual induction over `DNode` that reuses the per-line results of
BlockLex / SectLex / CommentLex / MetaLex) with the parser half (`Lemmas/DParse`: one new `HdrOK / ChildOK / LoopOK` scheme over
annotated nodes, both child loops at once, reusing `parseSection_cline`, `stopsL`, `preIndentComments_stopsL`,
`parseMetaBlock_fields`) through `Lemmas/DBridge`.

Hypotheses (all decidable except the two laws of the outside world), each necessary — see the end of the file; the real
reader / emitter (`octave_mcp.core` of /repo) was run at every excluded point:
  * `isEnvName name`, `name ≠ "END"`; `FLine.OK` on META fields; `forestOK`: keys and section names identifier-shaped without a
    reserved-word prefix, ids `SecId.OK`, scalars as the emitter spells them, every comment `CommentOK` (strip-stable, no line
    break, no tab; the empty comment is allowed).  Real code: a section's leading comment `" padded "` is re-read as `"padded"`
    (text changes, second emission differs); with a line break (`"two\nlines"`) the second line is written as a line of its own
    and re-read as CONTENT (here a dropped bare line) and the whole comment is lost; with a tab the lexer refuses (E005).
  * distinct META keys (`Nodup`): `doc.meta` is a Python dict — a representation invariant (`…_read_general` does without).
  * `(fields.isEmpty && firstIsMeta nodes) = false`: ONLY when there is no META field, the first body node must not be a line or
    block keyed `META` WITHOUT a leading comment.  Real code at the excluded point: `META:` + `// c` + `X::1 // t` is read into
    `doc.meta = {'X': 1}`, BOTH comments are dropped and the text is re-emitted without them; `META::1` first → E001.  NOT
    excluded (and confirmed on the real reader): a comment line above that node hides it (`// c` + `META:` is an ordinary
    Block with `lead = ['c']`), a first section `§META::META` is an ordinary section, and with META fields present the first
    body node may be keyed `META` again.
  * for statements about `emit`: `FLine.MetaEmitOK` on fields, `forestEmitOK` on the body (scalars spelled the emitter's way,
    comments strip-stable, section names identifier-shaped), trailing comments strip-stable.
  * laws of the outside world: NFC leaves every line unchanged (`hnfc`, finding F16) and `\d` does not match `§` (`hsec`).
The parser half has NO hypothesis about comments: what follows a node in a canonical token list always satisfies the code's
own look-aheads (`DParse.cont_head`, `cont_head0`); its only conditions are the columns of block keys / section markers and
`str.isalpha` of a `§2b` letter (`ANode.wf`), which the lexer's positions satisfy (`D.forest_wf_ann`).

Whose comment is it, in the combination (all confirmed on the real reader, all instances of the theorems):
  `§1::A / // c / B::1` (childless section, column-0 comment)            → `B.lead = ['c']`  (stays with the enclosing level)
  `§1::S / ␣␣§2::E / ␣␣// c / ␣␣K::1`                                    → `K.lead = ['c']`, `E` childless
  `§1::S / ␣␣§2::E / // c / Z::1` (dedented comment after a nested node) → `Z.lead = ['c']`
  `§1::S / ␣␣B: / // c / ===END===`                                      → `trailing_comments = ['c']`
  `B: / ␣␣// cs / ␣␣§2b::IN / ␣␣␣␣K::1 / ␣␣// cs2 / ␣␣§3::NEXT / // end` → `IN.lead = ['cs']`, `NEXT.lead = ['cs2']`, trailing `end`
  `META: / ␣␣TYPE::X / // c / A::1`                                       → `meta = {TYPE: X}`, `A.lead = ['c']`
No comment is dropped or re-attached and no child is re-parented on canonical input: that is the theorem.
-/
import Octave.Lemmas.DBridge
import Octave.Props.C01sections
import Octave.Props.C02flat
import Octave.Model.Canon
namespace Octave.C01
open Octave Lexer Emitter Octave.D

/-! ### the parser half through the entry points (token level, arbitrary positions) -/

/-- **The parser on the token list of a unified document** (any mode): the document, and the final parser state. -/
theorem document_parseDocument (env : Env) (strict : Bool) (f : FlatParse.Frame) (name : Str) (mpos : Nat → BlockParse.LPos)
    (fields : List (Str × FlatParse.Scalar)) (nodes : List DParse.ANode) (trailing : List (Str × CommentParse.CPos))
    (hm : (fields.isEmpty && DParse.metaFirstA nodes) = false) (hc : DParse.wfF env.isAlpha nodes 0 = true) :
    Parser.parseDocument.run (Parser.initState env (DParse.dToks f name mpos fields nodes trailing) strict)
      = .ok (DParse.dDocP name fields nodes trailing,
             { Parser.initState env (DParse.dToks f name mpos fields nodes trailing) strict with
                 rest := [f.nl1Tok, f.eofTok], prev := some f.endTok,
                 pos := ((DParse.metaPart mpos fields).length + ((DParse.toksF nodes 0).length + 2 * trailing.length)) + 3,
                 warnings := (DParse.warnsF nodes []).reverse ++ (MetaParse.metaWarns mpos [] fields 1).reverse }) := by
  have h := DParse.parseDocument_d f name mpos fields nodes trailing
    (Parser.initState env (DParse.dToks f name mpos fields nodes trailing) strict) hm hc rfl
  simp only [StateT.run]
  rw [h]
  simp only [Parser.initState, List.append_nil, Nat.zero_add]

/-- **strict entry point** (`parse`) on the token list: META fields in `meta`, every node with exactly its comments, the
document's trailing comments — for every annotation of the token positions subject to `wf`. -/
theorem C02_document_read (env : Env) (f : FlatParse.Frame) (name : Str) (mpos : Nat → BlockParse.LPos)
    (fields : List (Str × FlatParse.Scalar)) (nodes : List DParse.ANode) (trailing : List (Str × CommentParse.CPos))
    (hm : (fields.isEmpty && DParse.metaFirstA nodes) = false) (hc : DParse.wfF env.isAlpha nodes 0 = true) :
    C02.parseToks env (DParse.dToks f name mpos fields nodes trailing) = .ok (DParse.dDocP name fields nodes trailing) := by
  unfold C02.parseToks
  rw [document_parseDocument env true f name mpos fields nodes trailing hm hc]
  rfl

/-- **lenient entry point** (`parse_with_warnings`) on the token list: the same document and exactly the warnings — the
duplicate-key warnings of META, then those of the body (comments never warn). -/
theorem C02_document_read_warnings (env : Env) (f : FlatParse.Frame) (name : Str) (mpos : Nat → BlockParse.LPos)
    (fields : List (Str × FlatParse.Scalar)) (nodes : List DParse.ANode) (trailing : List (Str × CommentParse.CPos))
    (hm : (fields.isEmpty && DParse.metaFirstA nodes) = false) (hc : DParse.wfF env.isAlpha nodes 0 = true) :
    C02.parseToksWithWarnings env (DParse.dToks f name mpos fields nodes trailing)
      = .ok (DParse.dDocP name fields nodes trailing, MetaParse.metaWarns mpos [] fields 1 ++ DParse.warnsF nodes []) := by
  unfold C02.parseToksWithWarnings
  rw [document_parseDocument env false f name mpos fields nodes trailing hm hc]
  simp only [bind, Except.bind, pure, Except.pure, List.reverse_append, List.reverse_reverse]

/-! ### the two halves composed -/

/-- the lexer half in the vocabulary of the parser half. -/
theorem document_text_lexes (env : Env) (lenient : Bool) (name : Str) (fields : List FLine) (nodes : List DNode)
    (trailing : List Str) (hsec : env.isDigit '§' = false)
    (hn : isEnvName name = true) (hne : name ≠ "END".toList) (hf : ∀ ln ∈ fields, ln.OK) (hok : forestOK env nodes)
    (htr : ∀ c ∈ trailing, CommentOK env c)
    (hnfc : ∀ l ∈ splitLines (dDocText name fields nodes trailing), env.nfc l = l) :
    Lexer.tokenize env (Parser.stripFrontmatter env (dDocText name fields nodes trailing)).1 lenient
      = .ok (DParse.dToks (dFrame name fields nodes trailing) name (metaPos fields []) (fieldsToP fields) (bodyAnn fields nodes)
               (trailAnn fields nodes trailing), dDocReps fields nodes) := by
  rw [stripFrontmatter_dDoc, ← dDocToks_bridge]
  exact tokenize_dDoc env lenient name fields nodes trailing hsec hn hne hf hok htr hnfc

theorem document_metaFirst_side (fields : List FLine) (nodes : List DNode) (hm : (fields.isEmpty && firstIsMeta nodes) = false) :
    ((fieldsToP fields).isEmpty && DParse.metaFirstA (bodyAnn fields nodes)) = false := by
  rw [fieldsToP_isEmpty, bodyAnn, metaFirstA_bridge]; exact hm

/-- the strict reader on the canonical text, WITHOUT any hypothesis on repeated META keys: `meta` is the dict built field by
field (`dDocRead`). -/
theorem C01_document_canonical_read_general (env : Env) (name : Str) (fields : List FLine) (nodes : List DNode)
    (trailing : List Str) (hsec : env.isDigit '§' = false)
    (hn : isEnvName name = true) (hne : name ≠ "END".toList) (hf : ∀ ln ∈ fields, ln.OK) (hok : forestOK env nodes)
    (htr : ∀ c ∈ trailing, CommentOK env c) (hm : (fields.isEmpty && firstIsMeta nodes) = false)
    (hnfc : ∀ l ∈ splitLines (dDocText name fields nodes trailing), env.nfc l = l) :
    Parser.parse env (dDocText name fields nodes trailing) = .ok (dDocRead name fields nodes trailing) := by
  have hlex := document_text_lexes env false name fields nodes trailing hsec hn hne hf hok htr hnfc
  rw [C02.parse_eq_parseToks env _ _ _ hlex,
    C02_document_read env _ name _ _ _ _ (document_metaFirst_side fields nodes hm)
      (forest_wf_ann env env.isAlpha (alphaOK_env env) nodes 0 _ hok),
    stripFrontmatter_dDoc, dDoc_bridge]
  rfl

/-- **the canonical text of a unified document is accepted by the strict reader, which returns the same document**: the META
fields in order with their values and types; every body node at its text line, column `1 + 2·depth`, with exactly its leading
comments and its trailing comment (sections included); the document's trailing comments. -/
theorem C01_document_canonical_is_readable (env : Env) (name : Str) (fields : List FLine) (nodes : List DNode)
    (trailing : List Str) (hsec : env.isDigit '§' = false)
    (hn : isEnvName name = true) (hne : name ≠ "END".toList) (hf : ∀ ln ∈ fields, ln.OK) (hnd : (fields.map FLine.key).Nodup)
    (hok : forestOK env nodes) (htr : ∀ c ∈ trailing, CommentOK env c) (hm : (fields.isEmpty && firstIsMeta nodes) = false)
    (hnfc : ∀ l ∈ splitLines (dDocText name fields nodes trailing), env.nfc l = l) :
    Parser.parse env (dDocText name fields nodes trailing) = .ok (dDoc name canonPos fields nodes trailing) := by
  rw [C01_document_canonical_read_general env name fields nodes trailing hsec hn hne hf hok htr hm hnfc,
    dDocRead_of_nodup name fields nodes trailing hnd]

theorem document_leadOK_emit {env : Env} {cs : List Str} (h : ∀ c ∈ cs, CommentOK env c) : ∀ c ∈ cs, env.strip c = c :=
  fun c hc => (h c hc).1

/-- **C01 on unified documents: the canonical text is a fixed point.**  Emit the document, read the text with the strict
reader, emit again: the same bytes.  Whatever positions the nodes carry. -/
theorem C01_document_fixed_point (env : Env) (name : Str) (pos : Nat → Nat → Nat × Nat) (fields : List FLine) (nodes : List DNode)
    (trailing : List Str) (hsec : env.isDigit '§' = false)
    (hn : isEnvName name = true) (hne : name ≠ "END".toList) (hf : ∀ ln ∈ fields, ln.OK) (hfe : ∀ ln ∈ fields, ln.MetaEmitOK)
    (hnd : (fields.map FLine.key).Nodup) (hok : forestOK env nodes) (hem : forestEmitOK env nodes)
    (htr : ∀ c ∈ trailing, CommentOK env c) (hm : (fields.isEmpty && firstIsMeta nodes) = false)
    (hnfc : ∀ l ∈ splitLines (dDocText name fields nodes trailing), env.nfc l = l) :
    ∃ text d', emit env (dDoc name pos fields nodes trailing) = some text ∧ Parser.parse env text = .ok d' ∧
      emit env d' = some text :=
  ⟨dDocText name fields nodes trailing, dDoc name canonPos fields nodes trailing,
   emit_dDoc env name pos fields nodes trailing hfe hem (document_leadOK_emit htr),
   C01_document_canonical_is_readable env name fields nodes trailing hsec hn hne hf hnd hok htr hm hnfc,
   emit_dDoc env name _ fields nodes trailing hfe hem (document_leadOK_emit htr)⟩

/-- the same for ANY AST that carries the forest (any positions at all in the nodes). -/
theorem C01_document_fixed_point_matches (env : Env) (name : Str) (fields : List FLine) (nodes : List DNode) (trailing : List Str)
    (sections : List Node) (hmt : forestMatches nodes sections) (hsec : env.isDigit '§' = false)
    (hn : isEnvName name = true) (hne : name ≠ "END".toList) (hf : ∀ ln ∈ fields, ln.OK) (hfe : ∀ ln ∈ fields, ln.MetaEmitOK)
    (hnd : (fields.map FLine.key).Nodup) (hok : forestOK env nodes) (hem : forestEmitOK env nodes)
    (htr : ∀ c ∈ trailing, CommentOK env c) (hm : (fields.isEmpty && firstIsMeta nodes) = false)
    (hnfc : ∀ l ∈ splitLines (dDocText name fields nodes trailing), env.nfc l = l) :
    ∃ text d', emit env { name := name, metaKv := metaKvOf fields, sections := sections, trailingComments := trailing } = some text ∧
      Parser.parse env text = .ok d' ∧ emit env d' = some text :=
  ⟨dDocText name fields nodes trailing, dDoc name canonPos fields nodes trailing,
   emit_doc_matches env name fields nodes trailing sections hmt hfe hem (document_leadOK_emit htr),
   C01_document_canonical_is_readable env name fields nodes trailing hsec hn hne hf hnd hok htr hm hnfc,
   emit_dDoc env name _ fields nodes trailing hfe hem (document_leadOK_emit htr)⟩

/-- … stated with the canonicaliser of the tools: the strict canonicaliser fixes the text the emitter wrote. -/
theorem C01_document_canon_fixed (env : Env) (name : Str) (fields : List FLine) (nodes : List DNode)
    (trailing : List Str) (hsec : env.isDigit '§' = false)
    (hn : isEnvName name = true) (hne : name ≠ "END".toList) (hf : ∀ ln ∈ fields, ln.OK) (hfe : ∀ ln ∈ fields, ln.MetaEmitOK)
    (hnd : (fields.map FLine.key).Nodup) (hok : forestOK env nodes) (hem : forestEmitOK env nodes)
    (htr : ∀ c ∈ trailing, CommentOK env c) (hm : (fields.isEmpty && firstIsMeta nodes) = false)
    (hnfc : ∀ l ∈ splitLines (dDocText name fields nodes trailing), env.nfc l = l) :
    canonStrict env (dDocText name fields nodes trailing) = .ok (dDocText name fields nodes trailing) := by
  unfold canonStrict
  rw [C01_document_canonical_is_readable env name fields nodes trailing hsec hn hne hf hnd hok htr hm hnfc]
  simp only [bind, Except.bind, emit_dDoc env name canonPos fields nodes trailing hfe hem (document_leadOK_emit htr)]
  rfl

/-- **C02 on unified documents: reading the canonical text yields exactly the content that was written** — the name; `meta` =
the fields in order, each key with its value and its type; sections that carry the forest (`forestMatches`: per section the
same id string, the same name, no annotation; per block the same key; per line the same key and the same value with its type;
the same children in the same order; at EVERY node exactly its leading comments, at every assignment exactly its trailing
comment); `trailing_comments` = the document's trailing comments; nothing else appears. -/
theorem C02_document_content_preserved (env : Env) (name : Str) (pos : Nat → Nat → Nat × Nat) (fields : List FLine)
    (nodes : List DNode) (trailing : List Str) (hsec : env.isDigit '§' = false)
    (hn : isEnvName name = true) (hne : name ≠ "END".toList) (hf : ∀ ln ∈ fields, ln.OK) (hfe : ∀ ln ∈ fields, ln.MetaEmitOK)
    (hnd : (fields.map FLine.key).Nodup) (hok : forestOK env nodes) (hem : forestEmitOK env nodes)
    (htr : ∀ c ∈ trailing, CommentOK env c) (hm : (fields.isEmpty && firstIsMeta nodes) = false)
    (hnfc : ∀ l ∈ splitLines (dDocText name fields nodes trailing), env.nfc l = l) :
    ∃ text d', emit env (dDoc name pos fields nodes trailing) = some text ∧ Parser.parse env text = .ok d' ∧
      d'.name = name ∧ d'.metaKv = fields.map (fun ln => (ln.key, MetaVal.val ln.v.value)) ∧ d'.hasSeparator = false ∧
      d'.trailingComments = trailing ∧ d'.grammarVersion = none ∧ d'.rawFrontmatter = none ∧
      forestMatches nodes d'.sections ∧ nodesContent d'.sections = forestContent nodes :=
  ⟨dDocText name fields nodes trailing, dDoc name canonPos fields nodes trailing,
   emit_dDoc env name pos fields nodes trailing hfe hem (document_leadOK_emit htr),
   C01_document_canonical_is_readable env name fields nodes trailing hsec hn hne hf hnd hok htr hm hnfc, rfl, rfl, rfl, rfl, rfl, rfl,
   forestNodes_matches canonPos nodes (metaLines fields) 0,
   forestContent_of_matches nodes _ (forestNodes_matches canonPos nodes (metaLines fields) 0)⟩

/-- the lenient entry point (`parse_with_warnings`) on the canonical text, exactly and without any hypothesis on repeated
keys: the document (`dDocRead`), the lexer's receipts (identifier notes only), the parser's warnings (`dDocWarns`). -/
theorem C02_document_lenient_read_exact (env : Env) (name : Str) (fields : List FLine) (nodes : List DNode)
    (trailing : List Str) (hsec : env.isDigit '§' = false)
    (hn : isEnvName name = true) (hne : name ≠ "END".toList) (hf : ∀ ln ∈ fields, ln.OK) (hok : forestOK env nodes)
    (htr : ∀ c ∈ trailing, CommentOK env c) (hm : (fields.isEmpty && firstIsMeta nodes) = false)
    (hnfc : ∀ l ∈ splitLines (dDocText name fields nodes trailing), env.nfc l = l) :
    Parser.parseWithWarnings env (dDocText name fields nodes trailing)
      = .ok (dDocRead name fields nodes trailing, dDocReps fields nodes, dDocWarns fields nodes) := by
  have hlex := document_text_lexes env false name fields nodes trailing hsec hn hne hf hok htr hnfc
  rw [C02.parseWithWarnings_eq_parseToks env _ _ _ hlex,
    C02_document_read_warnings env _ name _ _ _ _ (document_metaFirst_side fields nodes hm)
      (forest_wf_ann env env.isAlpha (alphaOK_env env) nodes 0 _ hok),
    stripFrontmatter_dDoc]
  simp only [Except.map, dDoc_bridge, dDocWarns]
  rfl

mutual
theorem dnode_repsRev_not_norm : ∀ (n : DNode) (d l : Nat), (n.repsRev d l).filter isNormalization = []
  | .line ln lead trail, d, l => by simp only [DNode.repsRev]; exact line_repsRev_not_norm ln _ _
  | .block key cs lead, d, l => by
    simp only [DNode.repsRev, List.filter_append, dforest_repsRev_not_norm cs (d + 1) (l + lead.length + 1),
      identReps_rev_not_norm, List.append_nil]
  | .sect id key cs lead, d, l => by
    simp only [DNode.repsRev, List.filter_append, dforest_repsRev_not_norm cs (d + 1) (l + lead.length + 1), sheader_reps_norm,
      List.nil_append]
    rfl
theorem dforest_repsRev_not_norm : ∀ (ns : List DNode) (d l : Nat), (forestRepsRev d l ns).filter isNormalization = []
  | [], d, l => rfl
  | n :: ns, d, l => by
    simp only [forestRepsRev, List.filter_append, dnode_repsRev_not_norm n d l, dforest_repsRev_not_norm ns d (l + n.nlines),
      List.append_nil]
end

theorem dDocReps_not_norm (fields : List FLine) (nodes : List DNode) : (dDocReps fields nodes).filter isNormalization = [] := by
  rw [dDocReps, List.filter_reverse, dforest_repsRev_not_norm]
  rfl

/-- **the lenient entry point reads the same document from the canonical text, and the lexer issues no normalisation
receipt**: neither `§` nor a comment nor META is "repaired". -/
theorem C02_document_lenient_read (env : Env) (name : Str) (fields : List FLine) (nodes : List DNode)
    (trailing : List Str) (hsec : env.isDigit '§' = false)
    (hn : isEnvName name = true) (hne : name ≠ "END".toList) (hf : ∀ ln ∈ fields, ln.OK) (hnd : (fields.map FLine.key).Nodup)
    (hok : forestOK env nodes) (htr : ∀ c ∈ trailing, CommentOK env c) (hm : (fields.isEmpty && firstIsMeta nodes) = false)
    (hnfc : ∀ l ∈ splitLines (dDocText name fields nodes trailing), env.nfc l = l) :
    ∃ reps warns, Parser.parseWithWarnings env (dDocText name fields nodes trailing)
        = .ok (dDoc name canonPos fields nodes trailing, reps, warns) ∧ reps.filter isNormalization = [] := by
  refine ⟨dDocReps fields nodes, dDocWarns fields nodes, ?_, dDocReps_not_norm fields nodes⟩
  rw [C02_document_lenient_read_exact env name fields nodes trailing hsec hn hne hf hok htr hm hnfc,
    dDocRead_of_nodup name fields nodes trailing hnd]

/-- … and the reader is silent (no warning at all) when, besides, no body line is a bare word under `PATTERN`/`REGEX` and no
Assignment key repeats within one level of the body.  (Comments never warn; a bare word under `PATTERN` inside META neither.) -/
theorem C02_document_lenient_read_silent (env : Env) (name : Str) (fields : List FLine) (nodes : List DNode)
    (trailing : List Str) (hsec : env.isDigit '§' = false)
    (hn : isEnvName name = true) (hne : name ≠ "END".toList) (hf : ∀ ln ∈ fields, ln.OK) (hnd : (fields.map FLine.key).Nodup)
    (hok : forestOK env nodes) (htr : ∀ c ∈ trailing, CommentOK env c) (hm : (fields.isEmpty && firstIsMeta nodes) = false)
    (hnfc : ∀ l ∈ splitLines (dDocText name fields nodes trailing), env.nfc l = l)
    (hq : DParse.quietF (bodyAnn fields nodes) = true) (hnk : (DParse.lineKeys (bodyAnn fields nodes)).Nodup) :
    Parser.parseWithWarnings env (dDocText name fields nodes trailing)
      = .ok (dDoc name canonPos fields nodes trailing, dDocReps fields nodes, []) := by
  rw [C02_document_lenient_read_exact env name fields nodes trailing hsec hn hne hf hok htr hm hnfc,
    dDocRead_of_nodup name fields nodes trailing hnd, dDocWarns,
    MetaParse.metaWarns_eq_nil _ [] _ 1 (by rw [fieldsToP_keys]; exact hnd) (fun _ _ => rfl),
    DParse.warnsF_eq_nil _ [] hq hnk (fun _ _ => rfl)]
  rfl

/-! ### the emitter is injective on unified documents (what the seal of C15 relies on) -/

/-- an environment for re-reading: ASCII everywhere (NFC is the identity, `§` is no digit) except `str.isspace`, which is the
given environment's — so that comment texts are `CommentOK` in it exactly when they are in the given one. -/
def documentReaderEnv (env : Env) : Env := { Env.ascii with spaceU := env.spaceU }

theorem strip_documentReaderEnv (env : Env) (c : Str) : (documentReaderEnv env).strip c = env.strip c := by
  have h : (documentReaderEnv env).isSpace = env.isSpace := by
    funext x
    simp only [Env.isSpace, documentReaderEnv]
  simp only [Env.strip, Env.rstrip, Env.lstrip, h]

theorem commentOK_documentReaderEnv {env : Env} {c : Str} (h : CommentOK env c) : CommentOK (documentReaderEnv env) c :=
  ⟨by rw [strip_documentReaderEnv]; exact h.1, h.2⟩

theorem trailOK_documentReaderEnv {env : Env} {t : Option Str} (h : TrailOK env t) : TrailOK (documentReaderEnv env) t := by
  cases t with
  | none => trivial
  | some c => exact commentOK_documentReaderEnv h

mutual
theorem dnodeOK_documentReaderEnv (env : Env) : ∀ (n : DNode), n.OK env → n.OK (documentReaderEnv env)
  | .line ln lead trail, h => by
    simp only [DNode.OK] at h ⊢
    exact ⟨h.1, fun c hc => commentOK_documentReaderEnv (h.2.1 c hc), trailOK_documentReaderEnv h.2.2⟩
  | .block key cs lead, h => by
    simp only [DNode.OK] at h ⊢
    exact ⟨h.1, h.2.1, fun c hc => commentOK_documentReaderEnv (h.2.2.1 c hc), forestOK_documentReaderEnv env cs h.2.2.2⟩
  | .sect id key cs lead, h => by
    simp only [DNode.OK] at h ⊢
    exact ⟨h.1, h.2.1, h.2.2.1, fun c hc => commentOK_documentReaderEnv (h.2.2.2.1 c hc), forestOK_documentReaderEnv env cs h.2.2.2.2⟩
theorem forestOK_documentReaderEnv (env : Env) : ∀ (ns : List DNode), forestOK env ns → forestOK (documentReaderEnv env) ns
  | [], _ => trivial
  | n :: ns, h => by
    simp only [forestOK] at h ⊢
    exact ⟨dnodeOK_documentReaderEnv env n h.1, forestOK_documentReaderEnv env ns h.2⟩
end

/-- **The canonical text determines the document**: two unified documents with the same canonical text have the same name,
the same META fields (keys in order, values with their types), the same body content — ids, names, keys, nesting, order,
values with types AND every comment at its node (`forestContent`) — and the same trailing comments.  No hypothesis on `END`,
on NFC or on `§`: the proof re-reads the body under the name `D` in `documentReaderEnv`. -/
theorem document_text_injective (env : Env) (n1 n2 : Str) (f1 f2 : List FLine) (t1 t2 : List DNode) (tr1 tr2 : List Str)
    (hn1 : isEnvName n1 = true) (hf1 : ∀ ln ∈ f1, ln.OK) (hnd1 : (f1.map FLine.key).Nodup) (hok1 : forestOK env t1)
    (htr1 : ∀ c ∈ tr1, CommentOK env c) (hm1 : (f1.isEmpty && firstIsMeta t1) = false)
    (hn2 : isEnvName n2 = true) (hf2 : ∀ ln ∈ f2, ln.OK) (hnd2 : (f2.map FLine.key).Nodup) (hok2 : forestOK env t2)
    (htr2 : ∀ c ∈ tr2, CommentOK env c) (hm2 : (f2.isEmpty && firstIsMeta t2) = false)
    (h : dDocText n1 f1 t1 tr1 = dDocText n2 f2 t2 tr2) :
    n1 = n2 ∧ metaKvOf f1 = metaKvOf f2 ∧ forestContent t1 = forestContent t2 ∧ tr1 = tr2 := by
  have hname : n1 = n2 := by
    have hs := congrArg splitLines h
    rw [dDocText, dDocText, splitLines_docText env n1 _ tr1 hn1 (forestOK_withMeta env f1 t1 hf1 hok1) htr1,
      splitLines_docText env n2 _ tr2 hn2 (forestOK_withMeta env f2 t2 hf2 hok2) htr2] at hs
    exact List.append_cancel_left (List.append_cancel_right (List.cons.inj hs).1)
  refine ⟨hname, ?_⟩
  subst hname
  have hD : dDocText "D".toList f1 t1 tr1 = dDocText "D".toList f2 t2 tr2 := by
    unfold dDocText docText at h ⊢
    have hb := (List.cons.inj (List.append_cancel_left h)).2
    rw [hb]
  have r1 := C01_document_canonical_is_readable (documentReaderEnv env) "D".toList f1 t1 tr1 rfl (by decide) (by decide) hf1 hnd1
    (forestOK_documentReaderEnv env t1 hok1) (fun c hc => commentOK_documentReaderEnv (htr1 c hc)) hm1 (fun _ _ => rfl)
  have r2 := C01_document_canonical_is_readable (documentReaderEnv env) "D".toList f2 t2 tr2 rfl (by decide) (by decide) hf2 hnd2
    (forestOK_documentReaderEnv env t2 hok2) (fun c hc => commentOK_documentReaderEnv (htr2 c hc)) hm2 (fun _ _ => rfl)
  rw [hD, r2] at r1
  have hd : dDoc "D".toList canonPos f2 t2 tr2 = dDoc "D".toList canonPos f1 t1 tr1 := by
    simpa using r1
  simp only [dDoc, Document.mk.injEq] at hd
  obtain ⟨_, hkv, _, hsecs, _, _, htc⟩ := hd
  refine ⟨hkv.symm, ?_, htc.symm⟩
  rw [← forestContent_of_matches t1 _ (forestNodes_matches canonPos t1 (metaLines f1) 0),
    ← forestContent_of_matches t2 _ (forestNodes_matches canonPos t2 (metaLines f2) 0), hsecs]

/-- **`emit` is injective on unified documents**, up to the positions stored in the nodes: the reader is a left inverse of the
emitter on this class (the hypothesis of the seal theorems of C15). -/
theorem C15_document_emit_injective (env : Env) (n1 n2 : Str) (p1 p2 : Nat → Nat → Nat × Nat) (f1 f2 : List FLine)
    (t1 t2 : List DNode) (tr1 tr2 : List Str)
    (hn1 : isEnvName n1 = true) (hf1 : ∀ ln ∈ f1, ln.OK) (hfe1 : ∀ ln ∈ f1, ln.MetaEmitOK) (hnd1 : (f1.map FLine.key).Nodup)
    (hok1 : forestOK env t1) (hem1 : forestEmitOK env t1) (htr1 : ∀ c ∈ tr1, CommentOK env c)
    (hm1 : (f1.isEmpty && firstIsMeta t1) = false)
    (hn2 : isEnvName n2 = true) (hf2 : ∀ ln ∈ f2, ln.OK) (hfe2 : ∀ ln ∈ f2, ln.MetaEmitOK) (hnd2 : (f2.map FLine.key).Nodup)
    (hok2 : forestOK env t2) (hem2 : forestEmitOK env t2) (htr2 : ∀ c ∈ tr2, CommentOK env c)
    (hm2 : (f2.isEmpty && firstIsMeta t2) = false)
    (h : emit env (dDoc n1 p1 f1 t1 tr1) = emit env (dDoc n2 p2 f2 t2 tr2)) :
    n1 = n2 ∧ (dDoc n1 p1 f1 t1 tr1).metaKv = (dDoc n2 p2 f2 t2 tr2).metaKv ∧ forestContent t1 = forestContent t2 ∧ tr1 = tr2 := by
  rw [emit_dDoc env n1 p1 f1 t1 tr1 hfe1 hem1 (document_leadOK_emit htr1), emit_dDoc env n2 p2 f2 t2 tr2 hfe2 hem2 (document_leadOK_emit htr2)] at h
  exact document_text_injective env n1 n2 f1 f2 t1 t2 tr1 tr2 hn1 hf1 hnd1 hok1 htr1 hm1 hn2 hf2 hnd2 hok2 htr2 hm2
    (by simpa using h)

/-- the same for ANY two ASTs that carry the forests (any positions at all in the nodes). -/
theorem C15_document_emit_injective_matches (env : Env) (n1 n2 : Str) (s1 s2 : List Node) (f1 f2 : List FLine)
    (t1 t2 : List DNode) (tr1 tr2 : List Str) (hmt1 : forestMatches t1 s1) (hmt2 : forestMatches t2 s2)
    (hn1 : isEnvName n1 = true) (hf1 : ∀ ln ∈ f1, ln.OK) (hfe1 : ∀ ln ∈ f1, ln.MetaEmitOK) (hnd1 : (f1.map FLine.key).Nodup)
    (hok1 : forestOK env t1) (hem1 : forestEmitOK env t1) (htr1 : ∀ c ∈ tr1, CommentOK env c)
    (hm1 : (f1.isEmpty && firstIsMeta t1) = false)
    (hn2 : isEnvName n2 = true) (hf2 : ∀ ln ∈ f2, ln.OK) (hfe2 : ∀ ln ∈ f2, ln.MetaEmitOK) (hnd2 : (f2.map FLine.key).Nodup)
    (hok2 : forestOK env t2) (hem2 : forestEmitOK env t2) (htr2 : ∀ c ∈ tr2, CommentOK env c)
    (hm2 : (f2.isEmpty && firstIsMeta t2) = false)
    (h : emit env { name := n1, metaKv := metaKvOf f1, sections := s1, trailingComments := tr1 }
       = emit env { name := n2, metaKv := metaKvOf f2, sections := s2, trailingComments := tr2 }) :
    n1 = n2 ∧ metaKvOf f1 = metaKvOf f2 ∧ forestContent t1 = forestContent t2 ∧ tr1 = tr2 := by
  rw [emit_doc_matches env n1 f1 t1 tr1 s1 hmt1 hfe1 hem1 (document_leadOK_emit htr1),
    emit_doc_matches env n2 f2 t2 tr2 s2 hmt2 hfe2 hem2 (document_leadOK_emit htr2)] at h
  exact document_text_injective env n1 n2 f1 f2 t1 t2 tr1 tr2 hn1 hf1 hnd1 hok1 htr1 hm1 hn2 hf2 hnd2 hok2 htr2 hm2
    (by simpa using h)


/-! ### non-vacuity: META (TYPE, VERSION), a commented section containing a commented block and lines with trailing comments,
a commented top-level line, document-trailing comments -/

def dxFields : List FLine := [⟨"TYPE".toList, .bare "SPEC".toList⟩, ⟨"VERSION".toList, .qstr "1.0".toList⟩]

/-- a commented section `§1::OVERVIEW` holding a commented block `B` (two comment lines, the second one EMPTY) whose lines have
a leading and trailing comments (one of them the empty trailing comment), a commented nested section `§2b` with an empty
section and an empty block as last children, then a top-level line with two leading comments. -/
def dxNodes : List DNode :=
  [.sect (.num 1) "OVERVIEW".toList
     [.block "B".toList [.line ⟨"X".toList, .int 1⟩ ["about x".toList] (some "tx".toList),
                         .line ⟨"Y".toList, .bool true⟩ [] (some [])] ["block b".toList, []],
      .line ⟨"Z".toList, .null⟩ [] none,
      .sect (.numLetter 2 'b') "DEEP".toList
        [.line ⟨"K".toList, .bare "word".toList⟩ ["in :: -> \"q\" // x".toList] (some "/t".toList),
         .sect (.name "EMPTY".toList) "EMPTY".toList [] ["empty section".toList],
         .block "E".toList [] ["empty block".toList]] ["nested section".toList]] ["section one".toList],
   .line ⟨"W".toList, .qstr "a b".toList⟩ ["w1".toList, "w2".toList] none]

def dxTrailing : List Str := ["bye".toList, "// x".toList, []]

def dxText : Str :=
  ("===DOC===\nMETA:\n  TYPE::SPEC\n  VERSION::\"1.0\"\n// section one\n§1::OVERVIEW\n  // block b\n  //\n  B:\n" ++
   "    // about x\n    X::1 // tx\n    Y::true //\n  Z::null\n  // nested section\n  §2b::DEEP\n" ++
   "    // in :: -> \"q\" // x\n    K::word // /t\n    // empty section\n    §EMPTY::EMPTY\n    // empty block\n    E:\n" ++
   "// w1\n// w2\nW::\"a b\"\n// bye\n// // x\n//\n===END===\n").toList

example : dDocText "DOC".toList dxFields dxNodes dxTrailing = dxText := by decide +kernel

theorem dxFields_ok : ∀ ln ∈ dxFields, ln.OK := by
  intro ln h
  simp only [dxFields, List.mem_cons, List.mem_nil_iff, or_false] at h
  rcases h with h | h <;> subst h <;> simp only [FLine.OK, FScalar.OK] <;> decide

theorem dxFields_emit : ∀ ln ∈ dxFields, ln.MetaEmitOK := by decide

theorem dxFields_nodup : (dxFields.map FLine.key).Nodup := by decide

theorem dxNodes_ok : forestOK Env.ascii dxNodes := by
  simp only [dxNodes, forestOK, DNode.OK, SecId.OK, FLine.OK, FScalar.OK, TrailOK]
  decide

theorem dxNodes_emit : forestEmitOK Env.ascii dxNodes := by
  simp only [dxNodes, forestEmitOK, DNode.EmitOK, CNode.LineEmitOK, FLine.EmitOK, TrailEmitOK]
  decide

theorem dxTrailing_ok : ∀ c ∈ dxTrailing, CommentOK Env.ascii c := by decide

/-- every hypothesis is a decidable predicate (`D.forestDecOK`, `D.forestDecEmitOK`, …): on closed documents `decide` settles them. -/
example : forestOK Env.ascii dxNodes ∧ forestEmitOK Env.ascii dxNodes ∧ (∀ ln ∈ dxFields, ln.OK) ∧
    (dxFields.isEmpty && firstIsMeta dxNodes) = false := by decide

/-- the theorems applied. -/
example : Parser.parse Env.ascii dxText = .ok (dDoc "DOC".toList canonPos dxFields dxNodes dxTrailing) := by
  have h := C01_document_canonical_is_readable Env.ascii "DOC".toList dxFields dxNodes dxTrailing rfl (by decide) (by decide)
    dxFields_ok dxFields_nodup dxNodes_ok dxTrailing_ok (by decide) (fun _ _ => rfl)
  rwa [show dDocText "DOC".toList dxFields dxNodes dxTrailing = dxText by decide +kernel] at h

example : ∃ text d', emit Env.ascii (dDoc "DOC".toList (fun _ _ => (7, 7)) dxFields dxNodes dxTrailing) = some text ∧
    Parser.parse Env.ascii text = .ok d' ∧ emit Env.ascii d' = some text :=
  C01_document_fixed_point Env.ascii "DOC".toList _ dxFields dxNodes dxTrailing rfl (by decide) (by decide) dxFields_ok dxFields_emit
    dxFields_nodup dxNodes_ok dxNodes_emit dxTrailing_ok (by decide) (fun _ _ => rfl)

example : canonStrict Env.ascii (dDocText "DOC".toList dxFields dxNodes dxTrailing) = .ok (dDocText "DOC".toList dxFields dxNodes dxTrailing) :=
  C01_document_canon_fixed Env.ascii "DOC".toList dxFields dxNodes dxTrailing rfl (by decide) (by decide) dxFields_ok dxFields_emit
    dxFields_nodup dxNodes_ok dxNodes_emit dxTrailing_ok (by decide) (fun _ _ => rfl)

example : ∃ text d', emit Env.ascii (dDoc "DOC".toList (fun i d => (d, i)) dxFields dxNodes dxTrailing) = some text ∧
    Parser.parse Env.ascii text = .ok d' ∧ d'.name = "DOC".toList ∧
    d'.metaKv = dxFields.map (fun ln => (ln.key, MetaVal.val ln.v.value)) ∧ d'.hasSeparator = false ∧
    d'.trailingComments = dxTrailing ∧ d'.grammarVersion = none ∧ d'.rawFrontmatter = none ∧
    forestMatches dxNodes d'.sections ∧ nodesContent d'.sections = forestContent dxNodes :=
  C02_document_content_preserved Env.ascii "DOC".toList _ dxFields dxNodes dxTrailing rfl (by decide) (by decide) dxFields_ok
    dxFields_emit dxFields_nodup dxNodes_ok dxNodes_emit dxTrailing_ok (by decide) (fun _ _ => rfl)

/-- read silently: no receipt, no warning. -/
example : Parser.parseWithWarnings Env.ascii (dDocText "DOC".toList dxFields dxNodes dxTrailing)
    = .ok (dDoc "DOC".toList canonPos dxFields dxNodes dxTrailing, dDocReps dxFields dxNodes, []) :=
  C02_document_lenient_read_silent Env.ascii "DOC".toList dxFields dxNodes dxTrailing rfl (by decide) (by decide) dxFields_ok
    dxFields_nodup dxNodes_ok dxTrailing_ok (by decide) (fun _ _ => rfl) (by decide) (by decide)

example : dDocReps dxFields dxNodes = [] := by decide

/-- what was read, written out: every comment at its node — the section's, the block's (with the empty second line), the
lines' leading and trailing ones (the empty trailing comment of `Y` included), the nested section's, the empty section's and
the empty block's; the document's trailing comments. -/
example : dDoc "DOC".toList canonPos dxFields dxNodes dxTrailing =
    { name := "DOC".toList,
      metaKv := [("TYPE".toList, .val (.str "SPEC".toList)), ("VERSION".toList, .val (.str "1.0".toList))],
      sections :=
        [ .sect "1".toList "OVERVIEW".toList none
            [ .block "B".toList
                [ .assign "X".toList (.int 1) 11 5 ["about x".toList] (some "tx".toList),
                  .assign "Y".toList (.bool true) 12 5 [] (some []) ] 9 3 ["block b".toList, []] none,
              .assign "Z".toList .null 13 3 [] none,
              .sect "2b".toList "DEEP".toList none
                [ .assign "K".toList (.str "word".toList) 17 5 ["in :: -> \"q\" // x".toList] (some "/t".toList),
                  .sect "EMPTY".toList "EMPTY".toList none [] 19 5 ["empty section".toList],
                  .block "E".toList [] 21 5 ["empty block".toList] none ] 15 3 ["nested section".toList] ] 6 1 ["section one".toList],
          .assign "W".toList (.str "a b".toList) 24 1 ["w1".toList, "w2".toList] none ],
      trailingComments := ["bye".toList, "// x".toList, []] } :=
  DParse.docEqD_sound (by decide +kernel)

/-- **the whole model evaluated** on the same text (independently of the theorems): the strict reader returns `dDoc`, the
emitter gives the text back, both canonicalisers fix it, the lexer yields `dDocToks` and no receipt. -/
example : Parser.parse Env.ascii dxText = .ok (dDoc "DOC".toList canonPos dxFields dxNodes dxTrailing) :=
  DParse.isOkDocD_sound (by decide +kernel)

example : emit Env.ascii (dDoc "DOC".toList canonPos dxFields dxNodes dxTrailing) = some dxText := by decide +kernel

example : isOkStr (canonStrict Env.ascii dxText) dxText = true := by decide +kernel
example : isOkStr (canonLenient Env.ascii dxText) dxText = true := by decide +kernel

example : (match tokenize Env.ascii dxText false with
    | .ok p => p == (dDocToks "DOC".toList dxFields dxNodes dxTrailing, []) | .error _ => false) = true := by
  decide +kernel

/-- the bridge on the example (checked by evaluation, independently of `dDocToks_bridge`): the token list of the lexer half IS
the token list of the parser half, and the annotated positions satisfy `wf`. -/
example : dDocToks "DOC".toList dxFields dxNodes dxTrailing
    = DParse.dToks (dFrame "DOC".toList dxFields dxNodes dxTrailing) "DOC".toList (metaPos dxFields []) (fieldsToP dxFields)
        (bodyAnn dxFields dxNodes) (trailAnn dxFields dxNodes dxTrailing) := by decide +kernel
example : DParse.wfF Env.ascii.isAlpha (bodyAnn dxFields dxNodes) 0 = true := by decide +kernel

/-- the token shape of a small unified document. -/
example : ((dDocToks "D".toList [⟨"TYPE".toList, .bare "X".toList⟩]
      [.sect (.num 1) "S".toList [.line ⟨"K".toList, .int 1⟩ ["k".toList] (some "t".toList)] ["s".toList]] ["end".toList]).map Token.tv) =
    [(.envelopeStart, .str "D".toList), (.newline, .str ['\n']),
     (.identifier, .str "META".toList), (.block, .str [':']), (.newline, .str ['\n']),
     (.indent, .nat 2), (.identifier, .str "TYPE".toList), (.assign, .str "::".toList), (.identifier, .str "X".toList), (.newline, .str ['\n']),
     (.comment, .str "s".toList), (.newline, .str ['\n']),
     (.section, .str ['§']), (.number, .int 1), (.assign, .str "::".toList), (.identifier, .str "S".toList), (.newline, .str ['\n']),
     (.indent, .nat 2), (.comment, .str "k".toList), (.newline, .str ['\n']),
     (.indent, .nat 2), (.identifier, .str "K".toList), (.assign, .str "::".toList), (.number, .int 1), (.comment, .str "t".toList), (.newline, .str ['\n']),
     (.comment, .str "end".toList), (.newline, .str ['\n']),
     (.envelopeEnd, .str "END".toList), (.newline, .str ['\n']), (.eof, .none)] := by decide

/-- the same WITHOUT META fields (no `META:` line), and WITHOUT anything (the empty document). -/
example : Parser.parse Env.ascii (dDocText "DOC".toList [] dxNodes dxTrailing) = .ok (dDoc "DOC".toList canonPos [] dxNodes dxTrailing) :=
  C01_document_canonical_is_readable Env.ascii "DOC".toList [] dxNodes dxTrailing rfl (by decide) (by decide) (by simp) (by decide)
    dxNodes_ok dxTrailing_ok (by decide) (fun _ _ => rfl)

example : Parser.parse Env.ascii "===D===\n===END===\n".toList = .ok (dDoc "D".toList canonPos [] [] []) :=
  C01_document_canonical_is_readable Env.ascii "D".toList [] [] [] rfl (by decide) (by decide) (by simp) (by decide) trivial (by simp)
    (by decide) (fun _ _ => rfl)

/-- injectivity applied: moving a comment from a section to its first child gives another text. -/
example : dDocText "D".toList [] [.sect (.num 1) "S".toList [.line ⟨"K".toList, .int 1⟩ [] none] ["c".toList]] []
    ≠ dDocText "D".toList [] [.sect (.num 1) "S".toList [.line ⟨"K".toList, .int 1⟩ ["c".toList] none] []] [] := by
  intro h
  have := (document_text_injective Env.ascii _ _ _ _ _ _ _ _ (by decide) (by simp) (by decide)
    (by simp only [forestOK, DNode.OK, SecId.OK, FLine.OK, FScalar.OK, TrailOK]; decide) (by simp) (by decide)
    (by decide) (by simp) (by decide)
    (by simp only [forestOK, DNode.OK, SecId.OK, FLine.OK, FScalar.OK, TrailOK]; decide) (by simp) (by decide) h).2.2.1
  simp [forestContent, DNode.content] at this


/-! ### the parser half at token level: symbolic content and positions -/

/-- ALL positions symbolic (only the column of the section marker matters: `wf`), the bare word of the META field and the
marker's `normFrom` mark arbitrary: META field, a commented section with a commented line that has a trailing comment, a
document-trailing comment. -/
example (env : Env) (f : FlatParse.Frame) (mpos : Nat → BlockParse.LPos) (q1 q2 q3 q4 : CommentParse.CPos) (p : SectParse.SPos)
    (s : Str) (hp : p.c0 = 1) :
    C02.parseToks env (DParse.dToks f "D".toList mpos [("TYPE".toList, .word s)]
      [.sect (.name "CTX".toList) "CTX".toList [.line "K".toList .null [("k".toList, q1)] (some "t".toList) q2] [("s".toList, q3)] p]
      [("bye".toList, q4)])
    = .ok { name := "D".toList, metaKv := [("TYPE".toList, .val (.str s))],
            sections := [.sect "CTX".toList "CTX".toList none
                           [.assign "K".toList .null q2.l q2.c1 ["k".toList] (some "t".toList)] p.l p.c0 ["s".toList]],
            trailingComments := ["bye".toList] } := by
  rw [C02_document_read env f _ mpos _ _ _ rfl
    (by simp [DParse.wfF, DParse.ANode.wf, SectParse.PId.letterOk, hp])]
  simp [DParse.dDocP, MetaParse.metaDict, dictSet, DParse.nodesF, DParse.ANode.node, DParse.texts, SectParse.PId.str,
    FlatParse.Scalar.val]

/-- a childless section, then a column-0 comment and a sibling (the once-defective path "leave column-0 comments after a
childless section header to the enclosing level"): the comment is the SIBLING's, whatever the positions. -/
example (env : Env) (f : FlatParse.Frame) (mpos : Nat → BlockParse.LPos) (q1 q2 : CommentParse.CPos) (p : SectParse.SPos)
    (i : Int) (raw : Str) :
    C02.parseToks env (DParse.dToks f "D".toList mpos []
      [.sect (.num i raw) "A".toList [] [] p, .line "B".toList (.bool true) [("c".toList, q1)] none q2] [])
    = .ok { name := "D".toList,
            sections := [.sect (intStr i) "A".toList none [] p.l p.c0 [],
                         .assign "B".toList (.bool true) q2.l q2.c1 ["c".toList] none] } := by
  rw [C02_document_read env f _ mpos _ _ _ rfl
    (by simp [DParse.wfF, DParse.ANode.wf, SectParse.PId.letterOk])]
  simp [DParse.dDocP, MetaParse.metaDict, DParse.nodesF, DParse.ANode.node, DParse.texts, SectParse.PId.str, FlatParse.Scalar.val]

/-! ### what is NOT a hypothesis -/

/-- a comment line above a first block keyed `META` hides it from `parse_document`'s META test: an ordinary Block with its
comment (no META field in the document). -/
example : Parser.parse Env.ascii "===D===\n// c\nMETA:\n  X::1\n===END===\n".toList
    = .ok { name := "D".toList,
            sections := [.block "META".toList [.assign "X".toList (.int 1) 4 3 [] none] 3 1 ["c".toList] none] } :=
  C01_document_canonical_is_readable Env.ascii "D".toList [] [.block "META".toList [.line ⟨"X".toList, .int 1⟩ [] none] ["c".toList]] []
    rfl (by decide) (by decide) (by simp) (by decide)
    (by simp only [forestOK, DNode.OK, FLine.OK, FScalar.OK, TrailOK]; decide) (by simp) (by decide) (fun _ _ => rfl)

/-- a first SECTION is never the META block, not even `§META::META`. -/
example : Parser.parse Env.ascii "===D===\n§META::META\n  X::1\n===END===\n".toList
    = .ok { name := "D".toList,
            sections := [.sect "META".toList "META".toList none [.assign "X".toList (.int 1) 3 3 [] none] 2 1 []] } :=
  C01_document_canonical_is_readable Env.ascii "D".toList [] [.sect (.name "META".toList) "META".toList [.line ⟨"X".toList, .int 1⟩ [] none] []] []
    rfl (by decide) (by decide) (by simp) (by decide)
    (by simp only [forestOK, DNode.OK, SecId.OK, FLine.OK, FScalar.OK, TrailOK]; decide) (by simp) (by decide) (fun _ _ => rfl)

/-- with META fields present, the first body node may be keyed `META` again (block or line), commented or not. -/
example : Parser.parse Env.ascii "===D===\nMETA:\n  TYPE::T\nMETA:\n  // c\n  X::1 // t\n===END===\n".toList
    = .ok { name := "D".toList, metaKv := [("TYPE".toList, .val (.str "T".toList))],
            sections := [.block "META".toList [.assign "X".toList (.int 1) 6 3 ["c".toList] (some "t".toList)] 4 1 [] none] } :=
  C01_document_canonical_is_readable Env.ascii "D".toList [⟨"TYPE".toList, .bare "T".toList⟩]
    [.block "META".toList [.line ⟨"X".toList, .int 1⟩ ["c".toList] (some "t".toList)] []] []
    rfl (by decide) (by decide) (by intro ln h; simp at h; subst h; simp only [FLine.OK, FScalar.OK]; decide) (by decide)
    (by simp only [forestOK, DNode.OK, FLine.OK, FScalar.OK, TrailOK]; decide) (by simp) (by decide) (fun _ _ => rfl)

/-! ### the hypotheses are necessary

Each excluded point evaluated on the model (`decide +kernel`); the REAL reader / emitter (`octave_mcp.core` of /repo) was run at
the same inputs and does the same (quoted in the header of this file). -/

/-- `firstIsMeta` (no META field): the first body node is the block `META` WITHOUT a leading comment, its child carries a
leading and a trailing comment.  The emitter writes it; the reader takes it for the META block — `meta = {X: 1}`, NO section,
BOTH comments gone — and the second emission drops the two comments. -/
def dxMetaFirst : List DNode := [.block "META".toList [.line ⟨"X".toList, .int 1⟩ ["c".toList] (some "t".toList)] []]

example : (([] : List FLine).isEmpty && firstIsMeta dxMetaFirst) = true := by decide

example : emit Env.ascii (dDoc "D".toList canonPos [] dxMetaFirst []) = some "===D===\nMETA:\n  // c\n  X::1 // t\n===END===\n".toList := by
  decide +kernel

example : DParse.isOkDocD (Parser.parse Env.ascii "===D===\nMETA:\n  // c\n  X::1 // t\n===END===\n".toList)
    { name := "D".toList, metaKv := [("X".toList, .val (.int 1))] } = true := by decide +kernel

example : isOkStr (canonStrict Env.ascii "===D===\nMETA:\n  // c\n  X::1 // t\n===END===\n".toList)
    "===D===\nMETA:\n  X::1\n===END===\n".toList = true := by decide +kernel

/-- … and a first LINE keyed `META` is rejected (E001 at the `::`). -/
example : isErr (Parser.parse Env.ascii (dDocText "D".toList [] [.line ⟨"META".toList, .int 1⟩ [] none] []))
    (.parser "E001".toList 2 5) = true := by decide +kernel

/-- `CommentOK`, strip-stability, on a SECTION's leading comment: `" padded "` is written `//  padded` and read back as
`"padded"` — the comment text changes. -/
def dxPadded : Document :=
  { name := "D".toList, sections := [.sect "1".toList "S".toList none [.assign "K".toList (.int 1) 0 0 [] none] 0 0 [" padded ".toList]] }

example : emit Env.ascii dxPadded = some "===D===\n//  padded\n§1::S\n  K::1\n===END===\n".toList := by decide +kernel

example : DParse.isOkDocD (Parser.parse Env.ascii "===D===\n//  padded\n§1::S\n  K::1\n===END===\n".toList)
    { name := "D".toList,
      sections := [.sect "1".toList "S".toList none [.assign "K".toList (.int 1) 4 3 [] none] 3 1 ["padded".toList]] } = true := by
  decide +kernel

/-- `CommentOK`, no line break: the part after the line break is written as a line of its own and re-read as CONTENT (here
a bare word, dropped with a warning in lenient mode) — and the section comes back with NO leading comment at all. -/
def dxBroken : Document :=
  { name := "D".toList, sections := [.sect "1".toList "S".toList none [.assign "K".toList (.int 1) 0 0 [] none] 0 0 ["two\nlines".toList]] }

example : emit Env.ascii dxBroken = some "===D===\n// two\nlines\n§1::S\n  K::1\n===END===\n".toList := by decide +kernel

example : DParse.isOkDocD (Parser.parse Env.ascii "===D===\n// two\nlines\n§1::S\n  K::1\n===END===\n".toList)
    { name := "D".toList,
      sections := [.sect "1".toList "S".toList none [.assign "K".toList (.int 1) 5 3 [] none] 4 1 []] } = true := by
  decide +kernel

/-- `CommentOK`, no tab: the emitted text is refused by the lexer (E005 at the tab). -/
example : isErr (Parser.parse Env.ascii "===D===\n// tab\there\n§1::S\n  K::1\n===END===\n".toList) (.lexer "E005".toList 2 7) = true := by
  decide +kernel

/-- `ANode.wf` (parser half, positions) in the combination: inside `§1::S`, an EMPTY block `E:` at depth 1 whose key is reported
at column `eCol`, then the commented sibling `// c` / `K::1` at depth 1. -/
def dxWfNodes (eCol : Nat) : List DParse.ANode :=
  [.sect (.num 1 "1".toList) "S".toList
     [.block "E".toList [] [] ⟨3, 1, 3, eCol, eCol + 1, 0, eCol + 2, 0⟩,
      .line "K".toList (.int 1 "1".toList) [("c".toList, ⟨4, 1, 4, 3, 0, 0, 7, 0⟩)] none ⟨5, 1, 5, 3, 4, 6, 7, 0⟩] []
     ⟨2, 1, 2, 1, 2, 2, 3, 5, 6, none⟩]

def dxWfFrame : FlatParse.Frame :=
  { envL := 1, envC := 1, nl0L := 1, nl0C := 8, endL := 6, endC := 1, nl1L := 6, nl1C := 10, eofL := 7, eofC := 1 }

/-- with the key at column 1 (left of its indentation) `wf` fails, and the reader takes the sibling — WITH its comment — for a
child of `E`: a child re-parented and a comment moved with it. -/
example : DParse.wfF Env.ascii.isAlpha (dxWfNodes 1) 0 = false ∧
    DParse.isOkDocD (C02.parseToks Env.ascii (DParse.dToks dxWfFrame "D".toList (fun _ => default) [] (dxWfNodes 1) []))
      { name := "D".toList,
        sections := [.sect "1".toList "S".toList none
          [.block "E".toList [.assign "K".toList (.int 1) 5 3 ["c".toList] none] 3 1 [] none] 2 1 []] } = true := by
  constructor <;> decide +kernel

/-- with the lexer's column (3) it is read as written: an instance of the token-level theorem. -/
example : C02.parseToks Env.ascii (DParse.dToks dxWfFrame "D".toList (fun _ => default) [] (dxWfNodes 3) [])
    = .ok { name := "D".toList,
            sections := [.sect "1".toList "S".toList none
              [.block "E".toList [] 3 3 [] none, .assign "K".toList (.int 1) 5 3 ["c".toList] none] 2 1 []] } := by
  rw [C02_document_read Env.ascii dxWfFrame _ _ _ _ _ (by decide) (by decide)]
  exact congrArg Except.ok (DParse.docEqD_sound (by decide))

end Octave.C01
