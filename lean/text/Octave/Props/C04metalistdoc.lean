/-
C04 / C01 for LIST VALUES IN META (`  TAGS::[a,b]`), DOCUMENT level — step (1) of what `Props/C04metalist` left open:
`parse_document` around the META loop.

* `C04_metalist_parse_document`   on the token list
                                      ENVELOPE_START(name) NEWLINE  `META` `:` NEWLINE
                                      INDENT(2) KEY `::` ⟨tokens of the item at level 1⟩ NEWLINE      (one per field, ≥ 1 fields)
                                      ⟨tokens of a body forest at depth 0: `KEY::scalar` lines and nested blocks⟩
                                      `===END===` NEWLINE EOF
                                  the parser returns the document with `meta = metaListRead [] fields` (EVERY field read back
                                  at its key with value and type: a list as `Value.list`, each item at its index, a float as
                                  `Value.float` …) and the forest in `sections`.  The field lines are exactly the lexer's
                                  tokens of the class of `C04metalist` (`metaListLines`: leaves, lists of ANY depth < 100,
                                  single-line and multi-line layouts with their NEWLINE / INDENT tokens).
  Positions of the envelope, header and body tokens are arbitrary (`Frame`, `LPos`); the field lines start at any text line `l`.

End to end, with an EMPTY BODY (`…_partial`: the body forest is the only thing missing):
* `C04_metalist_canonical_is_readable_partial`   `parse` (strict) of the canonical text `===NAME===` / `META:` / `␣␣KEY::item` … /
                                  `===END===` is exactly `{name, meta = metaListRead [] fields}` — lexer half
                                  `MetaListDoc.tokenize_ldoc` (`lex_indent` + `lex_ident` + `lex_assign` + `Nest.lex_nitem … 1` +
                                  `lex_nl` per field, header through `run_header`), bridge `metaListDoc_toks_bridge`, parser half above;
* `C04_metalist_survives_partial`   every field is read back at its key with value and type;
* `C04_metalist_emit_doc_partial`   `emit` of `{name, meta = metaListKv fields}` is that canonical text;
* `C04_metalist_fixed_point_partial`   emit, read, emit again: the same bytes (distinct keys: with a repeated key the reader keeps
                                  first position / last value, so `meta` as a list of entries is not reproduced — see the example).
What is missing for the unrestricted names: the lexer half with a NON-EMPTY body (`run_tree` is in the `Run`/`AdvL` vocabulary,
`Nest.lex_nitem` in `Lexes`/`At`; gluing needs `toksReps (tree tokens) = treeRepsRev` reversed) — the parser half already has the
body.  The first group of examples below checks tokenize / parse / emit by evaluation on a document WITH a body line.
-/
import Octave.Props.C04metalist
import Octave.Lemmas.MetaListDocParse
import Octave.Lemmas.MetaListDocLex
import Octave.Props.C02flat
import Octave.Props.C01nested
set_option linter.unusedVariables false
namespace Octave.C04
open Octave Lexer Emitter Parser
open Octave.FlatParse (Frame Scalar)
open Octave.BlockParse (LPos toksList nodeList colsOkList indentVal)
open Octave.MetaListParse (MLine metaListDict)

/-- the token list of a document whose META block carries the fields (field lines from text line `l` on) and whose body is
the forest `nodes` (body lines numbered from `i` in `pos`). -/
def metaListDocToks (f : Frame) (name : Str) (q : LPos) (l : Nat) (fields : List MetaListField)
    (pos : Nat → LPos) (nodes : List BlockParse.TNode) (i : Nat) : List Token :=
  MetaListDoc.mdocToks f name q (metaListLines l fields) pos nodes i

/-- the document it denotes: every field in `meta` with value and type, the forest in `sections`. -/
def metaListDocRead (name : Str) (fields : List MetaListField) (pos : Nat → LPos) (nodes : List BlockParse.TNode) (i : Nat) : Document :=
  { name := name, metaKv := metaListRead [] fields, sections := nodeList pos nodes i }

/-- **C04 in META for list values, at the level of `parse_document`**: on the token list envelope line, `META:` header, ≥ 1
field lines whose values are leaves or lists (any depth < 100, any layout the lexer produces), a body forest, `===END===`, the
parser returns `meta[K] = value` for every field — lists as `Value.list`, every item at its index with value and type — and the
forest as sections.
Hypotheses: `fields ≠ []` (a header with no field is `MetaParse.parseMetaBlock_empty`; the emitter never writes it);
`nest < 100` (the reader's hard nesting limit: deeper raises E_MAX_NESTING_EXCEEDED); `depth = 0` (a fresh parser);
`colsOkList` (the column condition on block keys of the body, as in `BlockParse`). -/
theorem C04_metalist_parse_document (f : Frame) (name : Str) (q : LPos) (l : Nat) (fields : List MetaListField)
    (pos : Nat → LPos) (nodes : List BlockParse.TNode) (i : Nat) (st : PState)
    (hne : fields ≠ []) (hn : ∀ x ∈ fields, x.v.nest < 100) (hd : st.depth = 0)
    (hc : colsOkList pos nodes 0 i = true) (hr : st.rest = metaListDocToks f name q l fields pos nodes i) :
    ∃ st', parseDocument st = .ok (metaListDocRead name fields pos nodes i, st') := by
  cases fields with
  | nil => exact absurd rfl hne
  | cons x xs =>
    have hok := metaListLines_ok (x :: xs) l hn
    simp only [metaListLines] at hok
    obtain ⟨st', h⟩ := MetaListDoc.parseDocument_mlist f name q 2 (by decide) (metaListLine x l)
      (metaListLines (l + Nest.nlCount (x.v.text 1) + 1) xs) pos nodes i st hok
      (by simp [metaListLine, ListDoc.tIndent, indentVal]) hd hc (by rw [hr]; rfl)
    refine ⟨st', ?_⟩
    rw [h]
    have := metaListDict_eq (x :: xs) l []
    simp only [metaListLines] at this
    simp only [MetaListDoc.mdoc, metaListDocRead, this]

/-- the same through the parser's entry state on that token list. -/
theorem C04_metalist_parse_document_init (env : Env) (strict : Bool) (f : Frame) (name : Str) (q : LPos) (l : Nat)
    (fields : List MetaListField) (pos : Nat → LPos) (nodes : List BlockParse.TNode) (i : Nat)
    (hne : fields ≠ []) (hn : ∀ x ∈ fields, x.v.nest < 100) (hc : colsOkList pos nodes 0 i = true) :
    ∃ st', parseDocument (initState env (metaListDocToks f name q l fields pos nodes i) strict)
      = .ok (metaListDocRead name fields pos nodes i, st') :=
  C04_metalist_parse_document f name q l fields pos nodes i _ hne hn rfl hc rfl


/-! ## End to end with an EMPTY BODY: the canonical text is read back -/

open Octave.MetaListDoc (LField ldocText ldocToks lfieldsToks lfieldsHeight tokenize_ldoc)

def metaListDocLFields (fields : List MetaListField) : List LField := fields.map fun f => ⟨f.key, f.v⟩

/-- the canonical text of a document with the META fields and no body: `===NAME===`, `META:`, one entry `␣␣KEY::item` per field
(a long list on several lines), `===END===`. -/
def metaListDocText (name : Str) (fields : List MetaListField) : Str := ldocText name (metaListDocLFields fields)

/-- the field lines of the lexer are the field lines of the parser half. -/
theorem metaListDoc_lfieldsToks : ∀ (fields : List MetaListField) (l : Nat),
    lfieldsToks l (metaListDocLFields fields) = (metaListLines l fields).flatMap MLine.toks
  | [], _ => rfl
  | f :: fs, l => by
    have ih := metaListDoc_lfieldsToks fs (l + Nest.nlCount (f.v.text 1) + 1)
    have hv := metaListLine_vtoks f l
    simp only [metaListDocLFields, List.map_cons, lfieldsToks, metaListLines, List.flatMap_cons, MLine.toks,
      ListDocParse.VLine.toks, MetaListDoc.LField.toks, MetaListDoc.LField.height] at ih ⊢
    rw [← Nat.add_assoc, ih]
    have e : (metaListLine f l).ln.vt :: ((metaListLine f l).ln.vr ++ [(metaListLine f l).ln.nl])
        = f.v.toks 1 l (3 + f.key.length + 2) ++ [(metaListLine f l).ln.nl] := by rw [← hv]; rfl
    rw [e]
    simp [metaListLine, List.append_assoc]

/-- positions of the envelope tokens in the canonical text (`h` = number of text lines of the fields). -/
def metaListDocFrame (name : Str) (h : Nat) : Frame :=
  { envL := 1, envC := 1, nl0L := 1, nl0C := 1 + (name.length + 6), endL := h + 3, endC := 1, nl1L := h + 3, nl1C := 10,
    eofL := h + 4, eofC := 1 }

def metaListDocQ : LPos := { li := 2, ci := 1, l := 2, c1 := 1, c2 := 5, c3 := 6, c4 := 6 }

theorem metaListDoc_toks_bridge (name : Str) (fields : List MetaListField) (pos : Nat → LPos) :
    ldocToks name (metaListDocLFields fields)
      = metaListDocToks (metaListDocFrame name (lfieldsHeight (metaListDocLFields fields))) name metaListDocQ 3 fields pos [] 0 := by
  simp only [ldocToks, metaListDocToks, MetaListDoc.mdocToks, metaListDoc_lfieldsToks, toksList, List.nil_append]
  rfl

theorem metaListDoc_stripFrontmatter (env : Env) (name : Str) (fields : List MetaListField) :
    Parser.stripFrontmatter env (metaListDocText name fields) = (metaListDocText name fields, none) := by
  unfold Parser.stripFrontmatter
  have : startsWith "---".toList (metaListDocText name fields) = false := by
    simp [metaListDocText, ldocText, startsWith, List.isPrefixOf]
  rw [this]; rfl

/-- the hypotheses on the text side. -/
structure MetaListDocOK (env : Env) (name : Str) (fields : List MetaListField) : Prop where
  envName : isEnvName name = true
  notEnd : name ≠ "END".toList
  nonempty : fields ≠ []
  ok : ∀ f ∈ fields, isIdentifierText f.key = true ∧ hasReservedPrefix f.key = false ∧ f.v.OK env
  depth : ∀ f ∈ fields, f.v.nest < 100
  nfc : ∀ l ∈ splitLines (metaListDocText name fields), env.nfc l = l

/-- **the canonical text of a document with list values in META (EMPTY BODY) is read by the strict reader as exactly the
document**: name, every META field at its key with value and type — a list as `Value.list`, each item at its index, floats as
floats — any nesting depth < 100, one-line and multi-line layouts.
`_partial`: the body is empty (the lexer half `MetaListDoc.tokenize_ldoc` has no body forest; the parser half
`C04_metalist_parse_document` has one). -/
theorem C04_metalist_canonical_is_readable_partial (env : Env) (name : Str) (fields : List MetaListField)
    (h : MetaListDocOK env name fields) :
    Parser.parse env (metaListDocText name fields)
      = .ok { name := name, metaKv := metaListRead [] fields, sections := [] } := by
  have hokL : ∀ x ∈ metaListDocLFields fields, x.OK env := by
    intro x hx
    simp only [metaListDocLFields, List.mem_map] at hx
    obtain ⟨f, hf, rfl⟩ := hx
    exact h.ok f hf
  have hlex := tokenize_ldoc env false name (metaListDocLFields fields) h.envName h.notEnd hokL h.nfc
  have hs := metaListDoc_stripFrontmatter env name fields
  have hlex' : Lexer.tokenize env (Parser.stripFrontmatter env (metaListDocText name fields)).1
      = .ok (ldocToks name (metaListDocLFields fields), ListDoc.toksReps (ldocToks name (metaListDocLFields fields))) := by
    rw [hs]; exact hlex
  obtain ⟨st', h1⟩ := C04_metalist_parse_document_init env true
    (metaListDocFrame name (lfieldsHeight (metaListDocLFields fields))) name metaListDocQ 3 fields (fun _ => default) [] 0
    h.nonempty h.depth rfl
  rw [← metaListDoc_toks_bridge] at h1
  rw [C02.parse_eq_parseToks env _ _ _ hlex', hs]
  unfold C02.parseToks
  have h1' : StateT.run parseDocument (initState env (ldocToks name (metaListDocLFields fields)) true)
      = .ok (metaListDocRead name fields (fun _ => default) [] 0, st') := h1
  simp only [h1', bind, Except.bind, pure, Except.pure, Except.map]
  rfl

/-- **C04 (survives), META list values, empty body**: whatever fields are written canonically, the strict reader gives every one
back at its key, in order when the keys are distinct, with value and type. -/
theorem C04_metalist_survives_partial (env : Env) (name : Str) (fields : List MetaListField)
    (h : MetaListDocOK env name fields) :
    ∃ d, Parser.parse env (metaListDocText name fields) = .ok d ∧ d.metaKv = metaListRead [] fields ∧ d.name = name :=
  ⟨_, C04_metalist_canonical_is_readable_partial env name fields h, rfl, rfl⟩


/-! ## The emitter on the whole document (empty body), fixed point -/

theorem metaListDoc_unlines (fields : List MetaListField) :
    unlines (fields.map fun f => indentStr 1 ++ f.key ++ "::".toList ++ f.v.text 1)
      = MetaListDoc.lfieldsText (metaListDocLFields fields) := by
  induction fields with
  | nil => rfl
  | cons f fs ih =>
    simp only [List.map_cons, unlines, metaListDocLFields, MetaListDoc.lfieldsText, MetaListDoc.LField.text] at ih ⊢
    rw [ih]
    simp [indentStr, ListDoc.spacesL, List.append_assoc]

/-- **`emit` on a document whose (non-empty) META carries leaves / lists and whose body is empty** writes exactly
`metaListDocText`. -/
theorem C04_metalist_emit_doc_partial (env : Env) (name : Str) (fields : List MetaListField)
    (hne : fields ≠ []) (hfe : ∀ f ∈ fields, f.v.EmitOK) :
    emit env { name := name, metaKv := metaListKv fields, sections := [] } = some (metaListDocText name fields) := by
  have hml := C04_metalist_emit_partial fields hfe
  have hkv : (metaListKv fields).isEmpty = false := by
    cases fields with
    | nil => exact absurd rfl hne
    | cons a b => rfl
  have hle : (fields.map fun f => indentStr 1 ++ f.key ++ "::".toList ++ f.v.text 1).isEmpty = false := by
    cases fields with
    | nil => exact absurd rfl hne
    | cons a b => rfl
  unfold emit emitBody
  simp only [hml, hkv, hle, emitTop, leadingLines, List.map_nil, Bool.false_or, Bool.false_eq_true, if_false,
    List.nil_append, List.append_nil, bind, Option.bind, pure, Option.map]
  have hj : ∀ L : List Str, joinWith ['\n'] (["===".toList ++ name ++ "===".toList] ++
                [joinWith ['\n'] ("META:".toList :: L)] ++ ["===END===".toList])
      = ("===".toList ++ name ++ "===".toList) ++ ['\n'] ++ (unlines ("META:".toList :: L) ++ "===END===".toList) := by
    intro L
    simp only [List.cons_append, List.nil_append, List.append_assoc]
    rw [joinWith, joinWith_join_head _ _ _ (by simp) (by simp), joinWith_unlines]
    simp only [List.cons_append, List.append_assoc, List.nil_append]
  rw [hj]
  have hlast : ∀ X : Str, (("===".toList ++ name ++ "===".toList) ++ ['\n'] ++ (X ++ "===END===".toList)).getLast? = some '=' := by
    intro X
    rw [List.getLast?_append, List.getLast?_append]; rfl
  simp only [finishText, hlast]
  simp [metaListDocText, MetaListDoc.ldocText, unlines, List.append_assoc]
  have := metaListDoc_unlines fields
  simpa [List.append_assoc] using this

theorem metaListDoc_read_nodup_acc (acc : List (Str × MetaVal)) (fields : List MetaListField)
    (h : (acc.map Prod.fst ++ fields.map (·.key)).Nodup) : metaListRead acc fields = acc ++ metaListKv fields := by
  induction fields generalizing acc with
  | nil => simp [metaListRead, metaListKv]
  | cons f fs ih =>
    have hf : f.key ∉ acc.map Prod.fst := by
      intro hm
      have := List.nodup_append.1 h
      exact this.2.2 _ hm _ (by simp) rfl
    rw [metaListRead, MetaParse.dictSet_fresh acc f.key _ hf, ih]
    · simp [metaListKv]
    · simpa [List.map_append, List.append_assoc] using h

/-- **distinct keys**: what the reader returns is exactly the fields, in order, with their values and types. -/
theorem metaListDoc_read_nodup (fields : List MetaListField) (h : (fields.map (·.key)).Nodup) :
    metaListRead [] fields = metaListKv fields := by
  have := metaListDoc_read_nodup_acc [] fields (by simpa using h)
  simpa using this

/-- **C01 / C04 fixed point, META list values, empty body**: emit the document, read the text with the strict reader, emit again:
the same bytes; and the document read back carries every field with value and type. -/
theorem C04_metalist_fixed_point_partial (env : Env) (name : Str) (fields : List MetaListField)
    (h : MetaListDocOK env name fields) (hfe : ∀ f ∈ fields, f.v.EmitOK)
    (hnd : (fields.map (·.key)).Nodup) :
    ∃ text d', emit env { name := name, metaKv := metaListKv fields, sections := [] } = some text ∧
      Parser.parse env text = .ok d' ∧ d'.metaKv = metaListRead [] fields ∧ emit env d' = some text := by
  refine ⟨metaListDocText name fields, _, C04_metalist_emit_doc_partial env name fields h.nonempty hfe,
    C04_metalist_canonical_is_readable_partial env name fields h, rfl, ?_⟩
  have hr : metaListRead [] fields = metaListKv fields := metaListDoc_read_nodup fields hnd
  rw [hr]
  exact C04_metalist_emit_doc_partial env name fields h.nonempty hfe

/-! ### non-vacuity: the example of `C04metalist`, as a whole document -/

def metaListDocExText : Str :=
  ("===D===\nMETA:\n  TAGS::[a,b]\n  RATIOS::[1.5,2.5]\n  MANY::[\n    1,\n    2.5,\n    \"x y\"\n  ]\n  N::-0.5\n" ++
   "X::1\n===END===\n").toList

def metaListDocExFrame : Frame :=
  { envL := 1, envC := 1, nl0L := 1, nl0C := 8, endL := 12, endC := 1, nl1L := 12, nl1C := 10, eofL := 13, eofC := 1 }
def metaListDocExQ : LPos := { li := 2, ci := 1, l := 2, c1 := 1, c2 := 5, c3 := 6, c4 := 6 }
def metaListDocExPos : Nat → LPos := fun j => { li := 11 + j, ci := 1, l := 11 + j, c1 := 1, c2 := 2, c3 := 4, c4 := 5 }
def metaListDocExBody : List BlockParse.TNode := [.line "X".toList (.int 1 "1".toList)]

/-- the hypotheses of the theorem hold on the example (4 fields: two one-line lists, one multi-line list, one float). -/
example : metaListExFields ≠ [] ∧ (∀ x ∈ metaListExFields, x.v.nest < 100) ∧
    colsOkList metaListDocExPos metaListDocExBody 0 0 = true := by decide +kernel

/-- the token list of the theorem IS what the real lexer (the model's `tokenize`) produces on the canonical text … -/
example : (match tokenize Env.ascii metaListDocExText false with
    | .ok p => p.1 == metaListDocToks metaListDocExFrame "D".toList metaListDocExQ 3 metaListExFields metaListDocExPos
                 metaListDocExBody 0
    | .error _ => false) = true := by decide +kernel

/-- Boolean equality on values with lists (the `valEqB` of `Lemmas/FlatParse` has no list case). -/
def metaListDocValEqB : Value → Value → Bool
  | .list a, .list b => go a b
  | a, b => FlatParse.valEqB a b
where go : List Value → List Value → Bool
  | [], [] => true
  | a :: as, b :: bs => metaListDocValEqB a b && go as bs
  | _, _ => false

def metaListDocKvEqB : List (Str × MetaVal) → List (Str × MetaVal) → Bool
  | [], [] => true
  | (k, .val a) :: as, (k', .val b) :: bs => k == k' && metaListDocValEqB a b && metaListDocKvEqB as bs
  | _, _ => false

/-- … the whole model (`parse`: tokenize + `parse_document`) evaluated on that text gives the document of the theorem, field by
field (independent of the theorem; a Boolean comparison because `Value` has no decidable equality) … -/
example : (match Parser.parse Env.ascii metaListDocExText with
    | .ok d => d.name == "D".toList && metaListDocKvEqB d.metaKv (metaListRead [] metaListExFields) &&
               BlockParse.nodesEqT d.sections (nodeList metaListDocExPos metaListDocExBody 0) && !d.hasSeparator &&
               d.trailingComments == [] && d.grammarVersion == none && d.rawFrontmatter == none
    | .error _ => false) = true := by decide +kernel

/-- … and the emitter gives that text back. -/
example : emit Env.ascii (metaListDocRead "D".toList metaListExFields metaListDocExPos metaListDocExBody 0)
    = some metaListDocExText := by decide +kernel

/-! ### non-vacuity of the end-to-end statements (empty body) -/

example : metaListDocText "D".toList metaListExFields =
    ("===D===\nMETA:\n  TAGS::[a,b]\n  RATIOS::[1.5,2.5]\n  MANY::[\n    1,\n    2.5,\n    \"x y\"\n  ]\n  N::-0.5\n" ++
     "===END===\n").toList := by decide +kernel

theorem metaListDocEx_ok : MetaListDocOK Env.ascii "D".toList metaListExFields :=
  ⟨by decide, by decide, by decide, by decide +kernel, by decide +kernel, fun _ _ => rfl⟩

theorem metaListDocEx_emit : ∀ f ∈ metaListExFields, f.v.EmitOK := by decide +kernel

example : Parser.parse Env.ascii (metaListDocText "D".toList metaListExFields)
    = .ok { name := "D".toList, metaKv := metaListRead [] metaListExFields, sections := [] } :=
  C04_metalist_canonical_is_readable_partial Env.ascii "D".toList metaListExFields metaListDocEx_ok

example : ∃ text d', emit Env.ascii { name := "D".toList, metaKv := metaListKv metaListExFields, sections := [] } = some text ∧
    Parser.parse Env.ascii text = .ok d' ∧ d'.metaKv = metaListRead [] metaListExFields ∧ emit Env.ascii d' = some text :=
  C04_metalist_fixed_point_partial Env.ascii "D".toList metaListExFields metaListDocEx_ok metaListDocEx_emit (by decide +kernel)

/-- a repeated key is NOT a fixed point of `meta` as a list of entries: the reader keeps the first position and the last value
(hence `Nodup` in `C04_metalist_fixed_point_partial`; `C04_metalist_canonical_is_readable_partial` needs no such hypothesis). -/
example : metaListRead [] [⟨"A".toList, .num "1.5".toList⟩, ⟨"B".toList, .num "2.5".toList⟩, ⟨"A".toList, .num "3.5".toList⟩]
    = [("A".toList, .val (.float "3.5".toList)), ("B".toList, .val (.float "2.5".toList))] := by
  simp [metaListRead, dictSet, Nest.NItem.value, Nest.NLeaf.value, Nest.NLeaf.toP, FlatParse.Scalar.val]

end Octave.C04
