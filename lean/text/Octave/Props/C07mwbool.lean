/-
C07 / C03 on flat documents whose values may be MULTI-WORD VALUES WITH A BOOLEAN, NULL OR VERSION HEAD — the PARSER-level
rewrites `K::true mice` → the single string `true mice`, `K::null words` → `null words`, `K::1.2.3 rel` → `1.2.3 rel`, with
their receipts (sibling contexts `boolean_multiword`, `null_multiword`, `version_multiword` of the `multi_word_coalesce`
warning).  Extends `C07mwnum` (whose class it contains, and whose "Not proved" list named exactly these heads).

A document of the class is an envelope `===NAME===`, any number of lines `KEY::value` and `===END===`; a value is a scalar
(`FScalar`), or a multi-word value `BWords`: a HEAD followed by `n ≥ 1` identifier-shaped words (`Expr.wordOK`), each
preceded by ANY POSITIVE number of spaces (`gap + 1`).  The head (`BHead`) is
  * `.word w` / `.int i` / `.str s`   the three heads of `C07mwnum` (word: no context; `number_identifier`; `string_multiword`),
  * `.bool b`        the literal `true` / `false`                                  (new; context `boolean_multiword`),
  * `.null`          the literal `null`                                            (new; context `null_multiword`),
  * `.ver d1 d2 d3`  a three-part version `d1.d2.d3`, each part a non-empty run of ASCII digits, leading zeros allowed
                                                                                   (new; context `version_multiword`).
Decidable: `BWLine.OK`.

What the real reader does (and the model, proved here for EVERY document of the class): the lexer emits ONE BOOLEAN / NULL /
VERSION token for the head (lexer lemmas `step_bool_sp`, `step_null_sp`, `step_version_sp` in `Lemmas/MwBoolLex`) and one
IDENTIFIER per word; `parse_value`'s BOOLEAN / NULL / VERSION branch (`multiWordSimple`) joins the literal's text (`true`,
`false`, `null`, the version lexeme) and the words by exactly ONE space each, whatever the spacing was; the value is that
STRING (the boolean / null is gone: `K::true mice` is the string `true mice`, not a boolean); ONE `lenient_parse` /
`multi_word_coalesce` warning with the head's context is pushed, holding the parts, the result, line and column of the head
token.  Under the keys `PATTERN` / `REGEX` a `pattern_autoquote` warning follows (as for word and NUMBER heads).  The emitter
quotes every result (`needsQuotes_bw`), so the canonical text of the line is `KEY::"true mice"` (`BWLine.canon`).  The STRICT
entry point `parse` accepts these values too and builds the same document; it returns no warning list.

Proved for EVERY document of the class (any number of lines, words, spaces):

  * `C07_mwbool_lexes`             `tokenize` (both modes) yields exactly `mwbdocToks` (`C07_mwbool_word_tokens`: head token,
                                   then one IDENTIFIER per word) and no normalisation receipt (`mwbdocReps_norm`);
  * `C07_mwbool_read` / `…_read_lenient`   `parse` / `parse_with_warnings` return the flat document of the CANONICAL lines
                                   (`mwbDoc`: value `.str "true mice"`), positions included, with the exact lexer repairs
                                   and the exact parser warnings `mwbWarns`;
  * `C07_mwbool_receipts`          the `multi_word_coalesce` records among the warnings are, in reading order, exactly
                                   `mwbReceipts`: ONE per multi-word line (`mwbReceipts_length`) — parts, result, context,
                                   line, column of the head;
  * `C07_mwbool_receipts_exact`    with pairwise different keys, none `PATTERN` / `REGEX` (`mwbQuietKeys`), the warning
                                   list IS `mwbReceipts`;
  * `C07_mwbool_canonical_none` / `…_canonical_silent`   the canonical text reads as the same document with no
                                   `multi_word_coalesce` record (quiet keys: no warning at all);
  * `C03_mwbool_converge`          `emit(parse(x))` = `emit(parse_with_warnings(x)[0])` = the canonical text;
                                   `C03_mwbool_spacings_agree`; `C03_mwbool_canonical_fixed` (fixed point).

C07 FINDING C07N3 for these heads (proved below for ANY token of the type, all positions, every parser state:
`C07_mwbool_adjacent_bracket_silent`, `C07_mwbool_null_adjacent_bracket_silent`,
`C07_mwbool_version_adjacent_bracket_silent`): an ADJACENT bracket group behind the last word — `K::true mice[x]` — is
consumed and DISCARDED (`_consume_bracket_annotation(capture=False)`): the value is `true mice`, the only record pushed is
the `multi_word_coalesce` receipt whose `original` is `["true","mice"]`; nothing mentions `[x]`.  The real code does the
same (see the report).

Hypotheses: `isEnvName name`, `name ≠ "END"`, `BWLine.OK`, `BWLine.EmitOK` (scalar lines only), first key not `META`,
`hnfc` (NFC leaves every line unchanged; trivial for `Env.ascii`).

Not covered: versions with two parts plus prerelease / build (`1.2-rc1`, `1.2+b`), four or more parts, prerelease / build
suffixes (`1.2.3-rc1 words` — the real code and the model treat them the same way: one VERSION token, context
`version_multiword`; evaluated at the end of this file), wrong-case literals (`True mice`: an IDENTIFIER, i.e. a WORD head,
plus a `wrong_case` warning), numbers / reserved words among the FURTHER words, operators behind the words
(`K::true mice->x`: the value is `true mice`, the `→` is dropped without receipt and `x` with a `bare_line_dropped` one),
values inside lists / blocks / META.
-/
import Octave.Lemmas.MwBoolBridge
import Octave.Model.Canon
import Octave.Props.C03expr
import Octave.Props.C07multiword
namespace Octave.C07
open Octave Lexer Emitter Parser FlatParse Spell Expr MW MWN MWB

/-! ### lexer -/

theorem mwb_head_reps_norm (h : BHead) (l c : Nat) : (h.reps l c).reverse.filter isNormalization = [] := by
  cases h with
  | word w => exact filter_idReps w l c
  | int i => rfl
  | str sv => rfl
  | bool b => rfl
  | null => rfl
  | ver d1 d2 d3 => rfl

theorem mwbLineReps_norm (x : BWLine) (l : Nat) : (x.repsRev l 1).filter isNormalization = [] := by
  obtain ⟨key, v⟩ := x
  cases v with
  | sc v => simp only [BWLine.repsRev, BVal.repsRev, List.filter_append, filter_idReps, scalar_reps_norm, List.append_nil]
  | nw m => simp only [BWLine.repsRev, BVal.repsRev, List.filter_append, filter_idReps, mwb_head_reps_norm, mwTailReps_norm, List.append_nil]

/-- the lexer log of a document of the class holds NO normalisation record (the rewrite is made by the parser). -/
theorem mwbdocReps_norm (sl : List BWLine) : (mwbdocReps sl).filter isNormalization = [] := by
  have h : ∀ (sl : List BWLine) (l : Nat), (mwbLinesRepsRev l sl).filter isNormalization = [] := by
    intro sl
    induction sl with
    | nil => intro l; rfl
    | cons x r ih => intro l; simp only [mwbLinesRepsRev, List.filter_append, mwbLineReps_norm, ih, List.append_nil]
  rw [mwbdocReps, List.filter_reverse, h]; rfl

/-- **(a) the lexer** (both modes): exactly `mwbdocToks` and `mwbdocReps`. -/
theorem C07_mwbool_lexes (env : Env) (lenient : Bool) (name : Str) (sl : List BWLine)
    (hn : isEnvName name = true) (hne : name ≠ "END".toList) (hok : ∀ x ∈ sl, x.OK)
    (hnfc : ∀ l ∈ splitLines (mwbdocText name sl), env.nfc l = l) :
    tokenize env (mwbdocText name sl) lenient = .ok (mwbdocToks name sl, mwbdocReps sl) :=
  tokenize_mwbdoc env lenient name sl hn hne hok hnfc

/-- … in which the tokens of a multi-word value written at line `l`, column `c` are ONE IDENTIFIER token per word, in
order: the head at `(l, c)`, every further word at its own column. -/
theorem C07_mwbool_word_tokens (m : BWords) (l c : Nat) :
    ∃ ts, ((BVal.nw m).toksRev l c).reverse = m.head.tok l c :: ts ∧ MWToks (m.tail.map Prod.snd) ts :=
  ⟨(mwTailToksRev l (c + m.head.text.length) m.tail).reverse, by simp [BVal.toksRev], mwTailToks_bridge l m.tail _⟩

/-! ### parser -/

/-- text level, given the lexer half: both entry points on a text that lexes to `mwbToks`. -/
theorem mwb_read_of_toks (env : Env) (text : Str) (reps : List Repair) (f : Frame) (name : Str) (lines : List BQLine)
    (hs : Parser.stripFrontmatter env text = (text, none))
    (hlex : Lexer.tokenize env text = .ok (mwbToks f name lines, reps))
    (hwf : ∀ ln ∈ lines, ln.WF) (hm : mwbMetaFirst lines = false) :
    Parser.parse env text = .ok { name := name, sections := lines.map BQLine.node } ∧
    Parser.parseWithWarnings env text
      = .ok ({ name := name, sections := lines.map BQLine.node }, reps, mwbWarns [] lines) := by
  have hlex' : Lexer.tokenize env (Parser.stripFrontmatter env text).1 = .ok (mwbToks f name lines, reps) := by
    rw [hs]; exact hlex
  constructor
  · obtain ⟨st', h1, _⟩ := parseDocument_mwb f name lines hwf hm (Parser.initState env (mwbToks f name lines) true) rfl rfl
    rw [C02.parse_eq_parseToks env _ _ _ hlex', hs]
    unfold C02.parseToks
    simp only [StateT.run, h1, bind, Except.bind, pure, Except.pure, Except.map]
  · obtain ⟨st', h1, h2⟩ := parseDocument_mwb f name lines hwf hm (Parser.initState env (mwbToks f name lines) false) rfl rfl
    have h2' : st'.warnings = (mwbWarns [] lines).reverse := by
      rw [h2]; simp [Parser.initState]
    rw [C02.parseWithWarnings_eq_parseToks env _ _ _ hlex', hs]
    unfold C02.parseToksWithWarnings
    simp only [StateT.run, h1, h2', bind, Except.bind, pure, Except.pure, Except.map, List.reverse_reverse]

/-- the document every text of the class is read as: the flat document of the canonical lines, nodes positioned at their
keys (line `i + 2`, column 1). -/
abbrev mwbDoc (name : Str) (sl : List BWLine) : Document := flatDoc name (fun i => (i + 2, 1)) (mwbCanonLines sl)

/-- **the STRICT entry point `parse` accepts multi-word values** and returns the document whose values are the joined
strings — the same document, positions included, as for the canonical text. -/
theorem C07_mwbool_read (env : Env) (name : Str) (sl : List BWLine)
    (hn : isEnvName name = true) (hne : name ≠ "END".toList) (hok : ∀ x ∈ sl, x.OK)
    (hm : mwbFirstNotMeta sl = true)
    (hnfc : ∀ l ∈ splitLines (mwbdocText name sl), env.nfc l = l) :
    Parser.parse env (mwbdocText name sl) = .ok (mwbDoc name sl) := by
  have hlex := tokenize_mwbdoc env false name sl hn hne hok hnfc
  rw [mwbdocToks_bridge] at hlex
  have h := (mwb_read_of_toks env (mwbdocText name sl) _ _ name _ (stripFrontmatter_mwbdoc env name sl) hlex
    (toBQLines_wf sl hok 2) (mwbMetaFirst_bridge sl 2 hm)).1
  rw [h, mwb_qnodes_bridge sl 0]
  rfl

/-- **(b) the lenient entry point** (`parse_with_warnings`): the same document, exactly the lexer repairs `mwbdocReps` and
exactly the parser warnings `mwbWarns` of the lines. -/
theorem C07_mwbool_read_lenient (env : Env) (name : Str) (sl : List BWLine)
    (hn : isEnvName name = true) (hne : name ≠ "END".toList) (hok : ∀ x ∈ sl, x.OK)
    (hm : mwbFirstNotMeta sl = true)
    (hnfc : ∀ l ∈ splitLines (mwbdocText name sl), env.nfc l = l) :
    Parser.parseWithWarnings env (mwbdocText name sl)
      = .ok (mwbDoc name sl, mwbdocReps sl, mwbWarns [] (toBQLines 2 sl)) := by
  have hlex := tokenize_mwbdoc env false name sl hn hne hok hnfc
  rw [mwbdocToks_bridge] at hlex
  have h := (mwb_read_of_toks env (mwbdocText name sl) _ _ name _ (stripFrontmatter_mwbdoc env name sl) hlex
    (toBQLines_wf sl hok 2) (mwbMetaFirst_bridge sl 2 hm)).2
  rw [h, mwb_qnodes_bridge sl 0]
  rfl

/-! ### C07: receipts -/

/-- **C07 for multi-word bare values**: reading a document of the class (lenient entry point) yields the document of the
canonical lines, a lexer log without normalisation record, and a warning list whose `multi_word_coalesce` records are, in
reading order, exactly `mwbReceipts`: ONE per multi-word line — the words as written, the string they became (joined by
one space), the line and the column of the first word — and none for a scalar line. -/
theorem C07_mwbool_receipts (env : Env) (name : Str) (sl : List BWLine)
    (hn : isEnvName name = true) (hne : name ≠ "END".toList) (hok : ∀ x ∈ sl, x.OK)
    (hm : mwbFirstNotMeta sl = true)
    (hnfc : ∀ l ∈ splitLines (mwbdocText name sl), env.nfc l = l) :
    ∃ reps warns, Parser.parseWithWarnings env (mwbdocText name sl) = .ok (mwbDoc name sl, reps, warns) ∧
      warns.filter isMultiWord = mwbReceipts 2 sl ∧ reps.filter isNormalization = [] :=
  ⟨_, _, C07_mwbool_read_lenient env name sl hn hne hok hm hnfc, mwbWarns_filter sl 2 [], mwbdocReps_norm sl⟩

/-- keys pairwise different, none of them `PATTERN` / `REGEX` (decidable): no duplicate-key and no auto-quote warning. -/
def mwbQuietKeys (sl : List BWLine) : Prop :=
  (sl.map BWLine.key).Nodup ∧ ∀ x ∈ sl, x.key ≠ "PATTERN".toList ∧ x.key ≠ "REGEX".toList

instance (sl : List BWLine) : Decidable (mwbQuietKeys sl) := by unfold mwbQuietKeys; infer_instance

theorem mwb_qline_warns_quiet (x : BWLine) (l : Nat) (hk : x.key ≠ "PATTERN".toList ∧ x.key ≠ "REGEX".toList) :
    (toBQLine x l).warns = mwbLineReceipt l x := by
  obtain ⟨key, v⟩ := x
  cases v with
  | sc v =>
    have hp : ((FLine.mk key v).toP l).plain = true := by
      simp only [Line.plain, FLine.toP, beq_eq_false_iff_ne.2 hk.1, beq_eq_false_iff_ne.2 hk.2, Bool.or_self, Bool.and_false,
        Bool.not_false]
    exact (Line.warns_eq_nil_iff _).2 hp
  | nw m =>
    have ha : ∀ (val : Str) (a b : Nat), autoquote key val a b = [] := by
      intro val a b
      simp only [autoquote, beq_eq_false_iff_ne.2 hk.1, beq_eq_false_iff_ne.2 hk.2, Bool.or_self, Bool.false_eq_true, if_false]
    simp only [toBQLine, BQLine.warns, BTLine.warnsRev, ha, ite_self, List.nil_append, List.reverse_cons, List.reverse_nil]
    rfl

theorem mwbWarns_quiet (sl : List BWLine) : ∀ (l : Nat) (kp : KeyPos), (sl.map BWLine.key).Nodup →
    (∀ x ∈ sl, x.key ≠ "PATTERN".toList ∧ x.key ≠ "REGEX".toList) → (∀ x ∈ sl, kp.lookup x.key = none) →
    mwbWarns kp (toBQLines l sl) = mwbReceipts l sl := by
  induction sl with
  | nil => intro l kp _ _ _; rfl
  | cons x r ih =>
    intro l kp hnd hk hkp
    have h0 : kp.lookup x.key = none := hkp x (List.mem_cons_self ..)
    have htp : trackPure kp x.key l = (kp ++ [(x.key, [l])], []) := by
      unfold trackPure; rw [h0]
    rw [List.map_cons, List.nodup_cons] at hnd
    simp only [toBQLines, mwbWarns, mwb_qkey_bridge, mwb_ql_bridge, htp, mwb_qline_warns_quiet x l (hk x (List.mem_cons_self ..)),
      List.append_nil, mwbReceipts]
    rw [ih (l + 1) _ hnd.2 (fun y hy => hk y (List.mem_cons_of_mem _ hy))]
    intro y hy
    apply lookup_append_none _ _ _ (hkp y (List.mem_cons_of_mem _ hy))
    have hne : y.key ≠ x.key := fun h => hnd.1 (h ▸ List.mem_map_of_mem hy)
    simp only [List.lookup_cons, List.lookup_nil]
    rw [beq_eq_false_iff_ne.2 hne]

/-- **… and nothing else**: with pairwise different keys, none of them `PATTERN` / `REGEX`, the warning list of
`parse_with_warnings` IS `mwbReceipts` — exactly one `multi_word_coalesce` record per multi-word line, in order. -/
theorem C07_mwbool_receipts_exact (env : Env) (name : Str) (sl : List BWLine)
    (hn : isEnvName name = true) (hne : name ≠ "END".toList) (hok : ∀ x ∈ sl, x.OK)
    (hm : mwbFirstNotMeta sl = true) (hq : mwbQuietKeys sl)
    (hnfc : ∀ l ∈ splitLines (mwbdocText name sl), env.nfc l = l) :
    Parser.parseWithWarnings env (mwbdocText name sl) = .ok (mwbDoc name sl, mwbdocReps sl, mwbReceipts 2 sl) := by
  rw [C07_mwbool_read_lenient env name sl hn hne hok hm hnfc, mwbWarns_quiet sl 2 [] hq.1 hq.2 (fun _ _ => rfl)]

/-! ### the canonical text -/

/-- a flat document seen as a document of the class (every value a scalar). -/
def mwbOfFlat (ls : List FLine) : List BWLine := ls.map fun ln => ⟨ln.key, .sc ln.v⟩

/-- the canonical form of a document of the class, as a document of the class: `KEY::"w0 w1 … wn"`. -/
def mwbCanon (sl : List BWLine) : List BWLine := mwbOfFlat (mwbCanonLines sl)

theorem mwbLinesText_ofFlat (ls : List FLine) : mwbLinesText (mwbOfFlat ls) = linesText ls := by
  induction ls with
  | nil => rfl
  | cons ln r ih =>
    simp only [mwbOfFlat, List.map_cons, mwbLinesText, linesText] at ih ⊢
    rw [ih]; rfl

/-- the text of the canonical form is the canonical text of the flat document. -/
theorem mwbdocText_ofFlat (name : Str) (ls : List FLine) : mwbdocText name (mwbOfFlat ls) = flatText name ls := by
  simp only [mwbdocText, flatText, mwbLinesText_ofFlat]

theorem mwbCanonLines_ofFlat (ls : List FLine) : mwbCanonLines (mwbOfFlat ls) = ls := by
  induction ls with
  | nil => rfl
  | cons ln r ih =>
    simp only [mwbCanonLines, mwbOfFlat, List.map_cons, List.map_map] at ih ⊢
    rw [ih]; rfl

theorem mwbReceipts_ofFlat (ls : List FLine) : ∀ l, mwbReceipts l (mwbOfFlat ls) = [] := by
  induction ls with
  | nil => intro l; rfl
  | cons ln r ih =>
    intro l
    have := ih (l + 1)
    simp only [mwbOfFlat, List.map_cons, mwbReceipts, mwbLineReceipt, List.nil_append] at this ⊢
    exact this

theorem mwbCanon_ok (sl : List BWLine) (hok : ∀ x ∈ sl, x.OK) : ∀ x ∈ mwbCanon sl, x.OK := by
  intro x hx
  simp only [mwbCanon, mwbOfFlat, mwbCanonLines, List.map_map, List.mem_map, Function.comp] at hx
  obtain ⟨y, hy, rfl⟩ := hx
  obtain ⟨key, v⟩ := y
  have := hok _ hy
  cases v with
  | sc v => exact this
  | nw m => exact ⟨this.1, this.2.1, trivial⟩

theorem mwbCanon_keys (sl : List BWLine) : (mwbCanon sl).map BWLine.key = sl.map BWLine.key := by
  simp only [mwbCanon, mwbOfFlat, mwbCanonLines, List.map_map]
  rfl

theorem mwbCanon_firstNotMeta (sl : List BWLine) : mwbFirstNotMeta (mwbCanon sl) = mwbFirstNotMeta sl := by
  cases sl <;> rfl

theorem mwbCanon_quiet (sl : List BWLine) (h : mwbQuietKeys sl) : mwbQuietKeys (mwbCanon sl) := by
  refine ⟨by rw [mwbCanon_keys]; exact h.1, ?_⟩
  intro x hx
  simp only [mwbCanon, mwbOfFlat, mwbCanonLines, List.map_map, List.mem_map, Function.comp] at hx
  obtain ⟨y, hy, rfl⟩ := hx
  exact h.2 y hy

theorem mwbCanonLines_mwCanon (sl : List BWLine) : mwbCanonLines (mwbCanon sl) = mwbCanonLines sl := mwbCanonLines_ofFlat _

/-- **(c) canonical input yields none**: the canonical text `KEY::"w0 w1 … wn"` of a document of the class reads (lenient
entry point) as the SAME document, with no `multi_word_coalesce` record and no lexer normalisation record. -/
theorem C07_mwbool_canonical_none (env : Env) (name : Str) (sl : List BWLine)
    (hn : isEnvName name = true) (hne : name ≠ "END".toList) (hok : ∀ x ∈ sl, x.OK)
    (hm : mwbFirstNotMeta sl = true)
    (hnfc : ∀ l ∈ splitLines (flatText name (mwbCanonLines sl)), env.nfc l = l) :
    ∃ reps warns, Parser.parseWithWarnings env (flatText name (mwbCanonLines sl)) = .ok (mwbDoc name sl, reps, warns) ∧
      warns.filter isMultiWord = [] ∧ reps.filter isNormalization = [] := by
  have hnfc' : ∀ l ∈ splitLines (mwbdocText name (mwbCanon sl)), env.nfc l = l := by
    rw [mwbCanon, mwbdocText_ofFlat]; exact hnfc
  obtain ⟨reps, warns, h1, h2, h3⟩ := C07_mwbool_receipts env name (mwbCanon sl) hn hne (mwbCanon_ok sl hok)
    (by rw [mwbCanon_firstNotMeta]; exact hm) hnfc'
  rw [mwbCanon, mwbdocText_ofFlat] at h1
  refine ⟨reps, warns, ?_, ?_, h3⟩
  · rw [h1]; simp only [mwbDoc, mwbCanonLines_ofFlat]
  · rw [h2, mwbCanon, mwbReceipts_ofFlat]

/-- … and, with quiet keys, no warning at all. -/
theorem C07_mwbool_canonical_silent (env : Env) (name : Str) (sl : List BWLine)
    (hn : isEnvName name = true) (hne : name ≠ "END".toList) (hok : ∀ x ∈ sl, x.OK)
    (hm : mwbFirstNotMeta sl = true) (hq : mwbQuietKeys sl)
    (hnfc : ∀ l ∈ splitLines (flatText name (mwbCanonLines sl)), env.nfc l = l) :
    ∃ reps, Parser.parseWithWarnings env (flatText name (mwbCanonLines sl)) = .ok (mwbDoc name sl, reps, []) ∧
      reps.filter isNormalization = [] := by
  have hnfc' : ∀ l ∈ splitLines (mwbdocText name (mwbCanon sl)), env.nfc l = l := by
    rw [mwbCanon, mwbdocText_ofFlat]; exact hnfc
  have h1 := C07_mwbool_receipts_exact env name (mwbCanon sl) hn hne (mwbCanon_ok sl hok)
    (by rw [mwbCanon_firstNotMeta]; exact hm) (mwbCanon_quiet sl hq) hnfc'
  rw [mwbCanon, mwbdocText_ofFlat, mwbReceipts_ofFlat] at h1
  refine ⟨_, ?_, mwbdocReps_norm (mwbOfFlat (mwbCanonLines sl))⟩
  rw [h1]; simp only [mwbDoc, mwbCanonLines_ofFlat]

/-! ### C03: convergence -/

theorem mwbCanonLines_emitOK (sl : List BWLine) (hok : ∀ x ∈ sl, x.OK) (hem : ∀ x ∈ sl, x.EmitOK) :
    ∀ ln ∈ mwbCanonLines sl, ln.EmitOK := by
  intro ln hl
  obtain ⟨x, hx, rfl⟩ := List.mem_map.mp hl
  exact mwbcanon_emitOK x (hok x hx) (hem x hx)

/-- **(d) C03 for multi-word bare values: both canonicalisers map the multi-word spelling to the canonical text**
`KEY::"w0 w1 … wn"` — the strict one (`emit(parse(x))`: the strict reader accepts multi-word values) and the lenient one
(`emit(parse_with_warnings(x)[0])`). -/
theorem C03_mwbool_converge (env : Env) (name : Str) (sl : List BWLine)
    (hn : isEnvName name = true) (hne : name ≠ "END".toList) (hok : ∀ x ∈ sl, x.OK) (hem : ∀ x ∈ sl, x.EmitOK)
    (hm : mwbFirstNotMeta sl = true)
    (hnfc : ∀ l ∈ splitLines (mwbdocText name sl), env.nfc l = l) :
    canonStrict env (mwbdocText name sl) = .ok (flatText name (mwbCanonLines sl)) ∧
    canonLenient env (mwbdocText name sl) = .ok (flatText name (mwbCanonLines sl)) :=
  C03.canon_of_read env _ _ _ _ _ (C07_mwbool_read env name sl hn hne hok hm hnfc)
    (C07_mwbool_read_lenient env name sl hn hne hok hm hnfc)
    (emit_flat env name _ (mwbCanonLines sl) (mwbCanonLines_emitOK sl hok hem))

/-- **any two spacings of the same words (more generally: any two documents of the class with the same canonical lines)
canonicalise to identical bytes**, through both canonicalisers. -/
theorem C03_mwbool_spacings_agree (env : Env) (name : Str) (sl₁ sl₂ : List BWLine)
    (hsame : mwbCanonLines sl₁ = mwbCanonLines sl₂)
    (hn : isEnvName name = true) (hne : name ≠ "END".toList)
    (hok₁ : ∀ x ∈ sl₁, x.OK) (hem₁ : ∀ x ∈ sl₁, x.EmitOK) (hm₁ : mwbFirstNotMeta sl₁ = true)
    (hok₂ : ∀ x ∈ sl₂, x.OK) (hem₂ : ∀ x ∈ sl₂, x.EmitOK) (hm₂ : mwbFirstNotMeta sl₂ = true)
    (hnfc₁ : ∀ l ∈ splitLines (mwbdocText name sl₁), env.nfc l = l)
    (hnfc₂ : ∀ l ∈ splitLines (mwbdocText name sl₂), env.nfc l = l) :
    canonStrict env (mwbdocText name sl₁) = canonStrict env (mwbdocText name sl₂) ∧
    canonLenient env (mwbdocText name sl₁) = canonLenient env (mwbdocText name sl₂) := by
  have h1 := C03_mwbool_converge env name sl₁ hn hne hok₁ hem₁ hm₁ hnfc₁
  have h2 := C03_mwbool_converge env name sl₂ hn hne hok₂ hem₂ hm₂ hnfc₂
  rw [← hsame] at h2
  exact ⟨by rw [h1.1, h2.1], by rw [h1.2, h2.2]⟩

/-- the canonical text is a fixed point of both canonicalisers. -/
theorem C03_mwbool_canonical_fixed (env : Env) (name : Str) (sl : List BWLine)
    (hn : isEnvName name = true) (hne : name ≠ "END".toList) (hok : ∀ x ∈ sl, x.OK) (hem : ∀ x ∈ sl, x.EmitOK)
    (hm : mwbFirstNotMeta sl = true)
    (hnfc : ∀ l ∈ splitLines (flatText name (mwbCanonLines sl)), env.nfc l = l) :
    canonStrict env (flatText name (mwbCanonLines sl)) = .ok (flatText name (mwbCanonLines sl)) ∧
    canonLenient env (flatText name (mwbCanonLines sl)) = .ok (flatText name (mwbCanonLines sl)) := by
  have hnfc' : ∀ l ∈ splitLines (mwbdocText name (mwbCanon sl)), env.nfc l = l := by
    rw [mwbCanon, mwbdocText_ofFlat]; exact hnfc
  have hem' : ∀ x ∈ mwbCanon sl, x.EmitOK := by
    intro x hx
    simp only [mwbCanon, mwbOfFlat, List.mem_map] at hx
    obtain ⟨ln, hln, rfl⟩ := hx
    exact mwbCanonLines_emitOK sl hok hem ln hln
  have h := C03_mwbool_converge env name (mwbCanon sl) hn hne (mwbCanon_ok sl hok) hem'
    (by rw [mwbCanon_firstNotMeta]; exact hm) hnfc'
  rw [mwbCanonLines_mwCanon, mwbCanon, mwbdocText_ofFlat] at h
  exact h


/-! ### non-vacuity -/

/-- both booleans (uneven spacing), `null`, two versions (one with multi-digit parts and leading zeros), a plain integer, a
plain boolean, and the three heads of `C07mwnum` (word, integer, string). -/
def mwbEx : List BWLine :=
  [ ⟨"K".toList, .nw ⟨.bool true, [(0, "mice".toList)]⟩⟩,
    ⟨"L".toList, .nw ⟨.bool false, [(1, "big".toList), (2, "mice".toList)]⟩⟩,
    ⟨"M".toList, .nw ⟨.null, [(0, "words".toList)]⟩⟩,
    ⟨"N".toList, .nw ⟨.ver "1".toList "2".toList "3".toList, [(0, "rel".toList)]⟩⟩,
    ⟨"O".toList, .sc (.int 7)⟩,
    ⟨"P".toList, .nw ⟨.word "two".toList, [(0, "words".toList)]⟩⟩,
    ⟨"Q".toList, .nw ⟨.int 3, [(0, "mice".toList)]⟩⟩,
    ⟨"R".toList, .nw ⟨.str "a b".toList, [(0, "c".toList)]⟩⟩,
    ⟨"S".toList, .sc (.bool true)⟩,
    ⟨"V".toList, .nw ⟨.ver "10".toList "02".toList "300".toList, [(1, "x.y".toList)]⟩⟩ ]

def mwbExText : Str :=
  "===D===\nK::true mice\nL::false  big   mice\nM::null words\nN::1.2.3 rel\nO::7\nP::two words\nQ::3 mice\nR::\"a b\" c\nS::true\nV::10.02.300  x.y\n===END===\n".toList
def mwbExCanon : Str :=
  "===D===\nK::\"true mice\"\nL::\"false big mice\"\nM::\"null words\"\nN::\"1.2.3 rel\"\nO::7\nP::\"two words\"\nQ::\"3 mice\"\nR::\"\\\"a b\\\" c\"\nS::true\nV::\"10.02.300 x.y\"\n===END===\n".toList

theorem mwbEx_ok : ∀ x ∈ mwbEx, x.OK := by
  intro x h
  simp only [mwbEx, List.mem_cons, List.mem_nil_iff, or_false] at h
  rcases h with rfl | rfl | rfl | rfl | rfl | rfl | rfl | rfl | rfl | rfl
  · exact ⟨by decide, by decide, trivial, by decide, by decide⟩
  · exact ⟨by decide, by decide, trivial, by decide, by decide⟩
  · exact ⟨by decide, by decide, trivial, by decide, by decide⟩
  · exact ⟨by decide, by decide, by decide, by decide, by decide⟩
  · exact ⟨by decide, by decide, by unfold BVal.OK FScalar.OK; decide⟩
  · exact ⟨by decide, by decide, by decide, by decide, by decide⟩
  · exact ⟨by decide, by decide, by decide, by decide, by decide⟩
  · exact ⟨by decide, by decide, trivial, by decide, by decide⟩
  · exact ⟨by decide, by decide, trivial⟩
  · exact ⟨by decide, by decide, by decide, by decide, by decide⟩

theorem mwbEx_emit : ∀ x ∈ mwbEx, x.EmitOK := by
  intro x h
  simp only [mwbEx, List.mem_cons, List.mem_nil_iff, or_false] at h
  rcases h with rfl | rfl | rfl | rfl | rfl | rfl | rfl | rfl | rfl | rfl
  · trivial
  · trivial
  · trivial
  · trivial
  · unfold BWLine.EmitOK FLine.EmitOK; decide
  · trivial
  · trivial
  · trivial
  · unfold BWLine.EmitOK FLine.EmitOK; decide
  · trivial

example : mwbdocText "D".toList mwbEx = mwbExText := by decide +kernel
example : flatText "D".toList (mwbCanonLines mwbEx) = mwbExCanon := by decide +kernel
example : mwbQuietKeys mwbEx := by decide

/-- (a) the lexer, by the theorem; the tokens as literals: a BOOLEAN / NULL / VERSION token for the head, one IDENTIFIER per
word. -/
example : tokenize Env.ascii mwbExText false = .ok (mwbdocToks "D".toList mwbEx, mwbdocReps mwbEx) := by
  have h := C07_mwbool_lexes Env.ascii false "D".toList mwbEx (by decide) (by decide) mwbEx_ok (fun _ _ => rfl)
  have e : mwbdocText "D".toList mwbEx = mwbExText := by decide +kernel
  rw [e] at h; exact h
example : mwbdocToks "D".toList mwbEx =
    [ tEnvStart "D".toList 1 1, tNewline 1 8,
      tIdent "K".toList 2 1, tAssign 2 2, tBool true 2 4, tIdent "mice".toList 2 9, tNewline 2 13,
      tIdent "L".toList 3 1, tAssign 3 2, tBool false 3 4, tIdent "big".toList 3 11, tIdent "mice".toList 3 17, tNewline 3 21,
      tIdent "M".toList 4 1, tAssign 4 2, tNull 4 4, tIdent "words".toList 4 9, tNewline 4 14,
      tIdent "N".toList 5 1, tAssign 5 2, tVersion "1.2.3".toList 5 4, tIdent "rel".toList 5 10, tNewline 5 13,
      tIdent "O".toList 6 1, tAssign 6 2, tInt 7 6 4, tNewline 6 5,
      tIdent "P".toList 7 1, tAssign 7 2, tIdent "two".toList 7 4, tIdent "words".toList 7 8, tNewline 7 13,
      tIdent "Q".toList 8 1, tAssign 8 2, tInt 3 8 4, tIdent "mice".toList 8 6, tNewline 8 10,
      tIdent "R".toList 9 1, tAssign 9 2, tString "a b".toList 9 4, tIdent "c".toList 9 10, tNewline 9 11,
      tIdent "S".toList 10 1, tAssign 10 2, tBool true 10 4, tNewline 10 8,
      tIdent "V".toList 11 1, tAssign 11 2, tVersion "10.02.300".toList 11 4, tIdent "x.y".toList 11 15, tNewline 11 18,
      tEnvEnd 12 1, tNewline 12 10, tEof 13 1 ] := by decide +kernel

/-- (b) the receipts owed, as literals: one per multi-word line, at the head, with the head's context; the parts joined by
ONE space. -/
example : mwbReceipts 2 mwbEx =
    [ .multiWord ["true".toList, "mice".toList] "true mice".toList "boolean_multiword".toList 2 4,
      .multiWord ["false".toList, "big".toList, "mice".toList] "false big mice".toList "boolean_multiword".toList 3 4,
      .multiWord ["null".toList, "words".toList] "null words".toList "null_multiword".toList 4 4,
      .multiWord ["1.2.3".toList, "rel".toList] "1.2.3 rel".toList "version_multiword".toList 5 4,
      .multiWord ["two".toList, "words".toList] "two words".toList [] 7 4,
      .multiWord ["3".toList, "mice".toList] "3 mice".toList "number_identifier".toList 8 4,
      .multiWord ["\"a b\"".toList, "c".toList] "\"a b\" c".toList "string_multiword".toList 9 4,
      .multiWord ["10.02.300".toList, "x.y".toList] "10.02.300 x.y".toList "version_multiword".toList 11 4 ] := by decide +kernel
example : (mwbReceipts 2 mwbEx).length = 8 := by rw [mwbReceipts_length]; rfl

/-- the theorems applied (not evaluated). -/
example : Parser.parseWithWarnings Env.ascii mwbExText = .ok (mwbDoc "D".toList mwbEx, mwbdocReps mwbEx, mwbReceipts 2 mwbEx) := by
  have h := C07_mwbool_receipts_exact Env.ascii "D".toList mwbEx (by decide) (by decide) mwbEx_ok (by decide) (by decide) (fun _ _ => rfl)
  have e : mwbdocText "D".toList mwbEx = mwbExText := by decide +kernel
  rw [e] at h; exact h

example : ∃ reps warns, Parser.parseWithWarnings Env.ascii (mwbdocText "D".toList mwbEx) = .ok (mwbDoc "D".toList mwbEx, reps, warns) ∧
    warns.filter isMultiWord = mwbReceipts 2 mwbEx ∧ reps.filter isNormalization = [] :=
  C07_mwbool_receipts Env.ascii "D".toList mwbEx (by decide) (by decide) mwbEx_ok (by decide) (fun _ _ => rfl)

example : Parser.parse Env.ascii (mwbdocText "D".toList mwbEx) = .ok (mwbDoc "D".toList mwbEx) :=
  C07_mwbool_read Env.ascii "D".toList mwbEx (by decide) (by decide) mwbEx_ok (by decide) (fun _ _ => rfl)

example : Parser.parseWithWarnings Env.ascii (mwbdocText "D".toList mwbEx)
    = .ok (mwbDoc "D".toList mwbEx, mwbdocReps mwbEx, mwbWarns [] (toBQLines 2 mwbEx)) :=
  C07_mwbool_read_lenient Env.ascii "D".toList mwbEx (by decide) (by decide) mwbEx_ok (by decide) (fun _ _ => rfl)

example : ∃ reps, Parser.parseWithWarnings Env.ascii (flatText "D".toList (mwbCanonLines mwbEx)) = .ok (mwbDoc "D".toList mwbEx, reps, []) ∧
    reps.filter isNormalization = [] :=
  C07_mwbool_canonical_silent Env.ascii "D".toList mwbEx (by decide) (by decide) mwbEx_ok (by decide) (by decide) (fun _ _ => rfl)

example : ∃ reps warns, Parser.parseWithWarnings Env.ascii (flatText "D".toList (mwbCanonLines mwbEx)) = .ok (mwbDoc "D".toList mwbEx, reps, warns) ∧
    warns.filter isMultiWord = [] ∧ reps.filter isNormalization = [] :=
  C07_mwbool_canonical_none Env.ascii "D".toList mwbEx (by decide) (by decide) mwbEx_ok (by decide) (fun _ _ => rfl)

example : canonStrict Env.ascii mwbExText = .ok mwbExCanon ∧ canonLenient Env.ascii mwbExText = .ok mwbExCanon := by
  have h := C03_mwbool_converge Env.ascii "D".toList mwbEx (by decide) (by decide) mwbEx_ok mwbEx_emit (by decide) (fun _ _ => rfl)
  have e1 : mwbdocText "D".toList mwbEx = mwbExText := by decide +kernel
  have e2 : flatText "D".toList (mwbCanonLines mwbEx) = mwbExCanon := by decide +kernel
  rw [e1, e2] at h; exact h

example : canonStrict Env.ascii (flatText "D".toList (mwbCanonLines mwbEx)) = .ok (flatText "D".toList (mwbCanonLines mwbEx)) ∧
    canonLenient Env.ascii (flatText "D".toList (mwbCanonLines mwbEx)) = .ok (flatText "D".toList (mwbCanonLines mwbEx)) :=
  C03_mwbool_canonical_fixed Env.ascii "D".toList mwbEx (by decide) (by decide) mwbEx_ok mwbEx_emit (by decide) (fun _ _ => rfl)

example : canonStrict Env.ascii (mwbdocText "D".toList mwbEx) = canonStrict Env.ascii (mwbdocText "D".toList mwbEx) ∧
    canonLenient Env.ascii (mwbdocText "D".toList mwbEx) = canonLenient Env.ascii (mwbdocText "D".toList mwbEx) :=
  C03_mwbool_spacings_agree Env.ascii "D".toList mwbEx mwbEx rfl (by decide) (by decide) mwbEx_ok mwbEx_emit (by decide)
    mwbEx_ok mwbEx_emit (by decide) (fun _ _ => rfl) (fun _ _ => rfl)

/-- all spacings and the boolean symbolic: `K::<b> blind mice` with ANY positive number of spaces in either gap canonicalises
to `K::"<b> blind mice"`. -/
example (b : Bool) (g1 g2 : Nat) :
    canonLenient Env.ascii (mwbdocText "D".toList [⟨"K".toList, .nw ⟨.bool b, [(g1, "blind".toList), (g2, "mice".toList)]⟩⟩])
      = .ok (flatText "D".toList [⟨"K".toList, .qstr ((if b then "true".toList else "false".toList) ++ " blind mice".toList)⟩]) := by
  have h := (C03_mwbool_converge Env.ascii "D".toList [⟨"K".toList, .nw ⟨.bool b, [(g1, "blind".toList), (g2, "mice".toList)]⟩⟩]
    (by decide) (by decide)
    (by
      intro x hx; simp only [List.mem_singleton] at hx; subst hx
      refine ⟨(by decide : isIdentifierText "K".toList = true), (by decide : hasReservedPrefix "K".toList = false),
        trivial, ?_, by simp⟩
      intro p hp
      simp only [List.mem_cons, List.mem_nil_iff, or_false] at hp
      rcases hp with rfl | rfl
      · exact (by decide : wordOK "blind".toList)
      · exact (by decide : wordOK "mice".toList))
    (by intro x hx; simp only [List.mem_singleton] at hx; subst hx; trivial)
    rfl (fun _ _ => rfl)).2
  rw [h]
  cases b <;> rfl

/-- … and its receipt, whatever the spacing: the parts, the joined string, `boolean_multiword`, line 2, column 4. -/
example (g1 g2 : Nat) :
    mwbReceipts 2 [⟨"K".toList, .nw ⟨.bool true, [(g1, "blind".toList), (g2, "mice".toList)]⟩⟩]
      = [.multiWord ["true".toList, "blind".toList, "mice".toList] "true blind mice".toList "boolean_multiword".toList 2 4] := rfl
example (g1 : Nat) :
    mwbReceipts 2 [⟨"K".toList, .nw ⟨.null, [(g1, "words".toList)]⟩⟩]
      = [.multiWord ["null".toList, "words".toList] "null words".toList "null_multiword".toList 2 4] := rfl

/-- version parts and spacing symbolic: `K::d1.d2.d3 rel` for ANY three digit runs and ANY positive spacing reads (strict
entry point) as the document whose value is the string `d1.d2.d3 rel`. -/
example (d1 d2 d3 : Str) (h1 : Digits d1) (h2 : Digits d2) (h3 : Digits d3) (g1 : Nat) :
    Parser.parse Env.ascii (mwbdocText "D".toList [⟨"K".toList, .nw ⟨.ver d1 d2 d3, [(g1, "rel".toList)]⟩⟩])
      = .ok (flatDoc "D".toList (fun i => (i + 2, 1)) [⟨"K".toList, .qstr (verText d1 d2 d3 ++ " rel".toList)⟩]) := by
  have h := C07_mwbool_read Env.ascii "D".toList [⟨"K".toList, .nw ⟨.ver d1 d2 d3, [(g1, "rel".toList)]⟩⟩]
    (by decide) (by decide)
    (by
      intro x hx; simp only [List.mem_singleton] at hx; subst hx
      refine ⟨(by decide : isIdentifierText "K".toList = true), (by decide : hasReservedPrefix "K".toList = false),
        ⟨h1, h2, h3⟩, ?_, by simp⟩
      intro p hp
      simp only [List.mem_cons, List.mem_nil_iff, or_false] at hp
      subst hp
      exact (by decide : wordOK "rel".toList))
    rfl (fun _ _ => rfl)
  rw [h]
  simp [mwbDoc, mwbCanonLines, BWLine.canon, BVal.canon, BWords.result, BWords.words, BHead.part, spaceJoin, joinWith]

/-- … and its receipt, whatever the spacing and the parts. -/
example (d1 d2 d3 : Str) (g1 : Nat) :
    mwbReceipts 2 [⟨"K".toList, .nw ⟨.ver d1 d2 d3, [(g1, "rel".toList)]⟩⟩]
      = [.multiWord [verText d1 d2 d3, "rel".toList] (spaceJoin [verText d1 d2 d3, "rel".toList]) "version_multiword".toList 2 4] := rfl

/-! ### the whole model evaluated on the concrete texts (independent of the theorems) -/

example : (match Parser.parseWithWarnings Env.ascii mwbExText with
    | .ok (d, reps, ws) => docEqB d (mwbDoc "D".toList mwbEx) && reps == [] && ws == mwbReceipts 2 mwbEx
    | .error _ => false) = true := by decide +kernel
example : (match Parser.parseWithWarnings Env.ascii mwbExCanon with
    | .ok (d, reps, ws) => docEqB d (mwbDoc "D".toList mwbEx) && reps == [] && ws == []
    | .error _ => false) = true := by decide +kernel
example : isOkDoc (Parser.parse Env.ascii mwbExText) (mwbDoc "D".toList mwbEx) = true := by decide +kernel
example : isOkStr (canonLenient Env.ascii mwbExText) mwbExCanon = true := by decide +kernel
example : isOkStr (canonStrict Env.ascii mwbExText) mwbExCanon = true := by decide +kernel
example : isOkStr (canonLenient Env.ascii mwbExCanon) mwbExCanon = true := by decide +kernel
example : (match tokenize Env.ascii mwbExText with
    | .ok p => p == (mwbdocToks "D".toList mwbEx, mwbdocReps mwbEx) | .error _ => false) = true := by decide +kernel

/-! ### C07 finding C07N3 for BOOLEAN / NULL / VERSION heads: an ADJACENT bracket group is discarded without receipt -/

local macro "step_simp" "[" ts:Lean.Parser.Tactic.simpLemma,* "]" : tactic =>
  `(tactic| simp only [bind, StateT.bind, Except.bind, pure, StateT.pure, Except.pure, current_mk, peek_mk, advance_mk,
      curType_mk, isAdjacentBracket_mk, budget_mk, warn_mk, get, getThe, MonadStateOf.get, StateT.get,
      Bool.false_eq_true, if_false, if_true, Bool.false_and, Bool.and_false, Bool.or_false, Bool.false_or,
      List.length_cons, List.length_nil, beq_iff_eq, bne_iff_ne, ne_eq, reduceCtorEq, not_true_eq_false, not_false_eq_true,
      Bool.and_eq_true, Bool.or_eq_true, Bool.not_eq_true', beq_eq_false_iff_ne, false_and, and_false, true_and, and_true,
      false_or, or_false, true_or, or_true, decide_eq_true_eq,
      beq_self_eq_true, Bool.true_or, Bool.or_true, Bool.true_and, Bool.and_true, Bool.not_true, Bool.not_false, $ts,*])

/-- **`K::true mice[y]` — the bracket group is consumed and DISCARDED, and no record says so.**  For EVERY BOOLEAN token
`t`, every word `x`, every bracket content word `y`, all positions (the `[` right behind `x`: same line, column
`c1 + |x|`), every parser state: `parse_value` on `t IDENT(x) [ IDENT(y) ]` returns the string `"<t> x"` — `y` occurs nowhere
in it — the cursor has moved past the `]` (5 tokens consumed), and the ONLY record pushed is the `multi_word_coalesce`
receipt, whose `original` is `[<t>, x]` and whose `result` is `"<t> x"`: nothing mentions `[y]`. -/
theorem C07_mwbool_adjacent_bracket_silent (t : Token) (hty : t.type = .boolean) (x y : Str) (l c1 ly cy : Nat) (lb rb next : Token) (k : List Token)
    (hlb : lb.type = .listStart) (hl : lb.line = l) (hc : lb.col = c1 + x.length) (hrb : rb.type = .listEnd)
    (p : Option Token) (n : Nat) (la : Token) (w : List Warning) (d : Nat) (wd : List Nat) (s : Bool) (th : Nat) (al : Char → Bool) :
    parseValue 1
        { rest := t :: tIdent x l c1 :: lb :: tIdent y ly cy :: rb :: next :: k, prev := p, pos := n, last := la, warnings := w, depth := d, warned := wd, strict := s, threshold := th, alpha := al }
      = .ok (.str (spaceJoin [tokStr t, x]),
             { rest := next :: k, prev := some rb, pos := n + 5, last := la,
               warnings := .multiWord [tokStr t, x] (spaceJoin [tokStr t, x]) "boolean_multiword".toList t.line t.col :: w, depth := d,
               warned := wd, strict := s, threshold := th, alpha := al }) := by
  have ht2 : (tIdent x l c1).type = TT.identifier := rfl
  have ht3 : (tIdent y ly cy).type = TT.identifier := rfl
  have hv2 : isValueTok TT.identifier = true := rfl
  have hvl : isValueTok TT.listStart = false := rfl
  have hpl : prevLen (tIdent x l c1) = x.length := rfl
  have hli : (tIdent x l c1).line = l := rfl
  have hci : (tIdent x l c1).col = c1 := rfl
  rw [parseValue]
  step_simp [hty, ht2, hv2, multiWordSimple]
  rw [takeValueToks]
  step_simp [ht2, hv2, tokStr_tIdent]
  rw [takeValueToks]
  step_simp [hlb, hvl, trailingBracket, hpl, hli, hci, hl, hc, consumeBracketAnnotation]
  rw [bracketLoop]
  step_simp [ht3]
  rw [bracketLoop]
  step_simp [hrb]
  rw [bracketLoop]
  step_simp []
  rfl

/-- **`K::null mice[y]` — the same silent discard in the `null_multiword` context.** -/
theorem C07_mwbool_null_adjacent_bracket_silent (t : Token) (hty : t.type = .null) (x y : Str) (l c1 ly cy : Nat) (lb rb next : Token) (k : List Token)
    (hlb : lb.type = .listStart) (hl : lb.line = l) (hc : lb.col = c1 + x.length) (hrb : rb.type = .listEnd)
    (p : Option Token) (n : Nat) (la : Token) (w : List Warning) (d : Nat) (wd : List Nat) (s : Bool) (th : Nat) (al : Char → Bool) :
    parseValue 1
        { rest := t :: tIdent x l c1 :: lb :: tIdent y ly cy :: rb :: next :: k, prev := p, pos := n, last := la, warnings := w, depth := d, warned := wd, strict := s, threshold := th, alpha := al }
      = .ok (.str (spaceJoin [tokStr t, x]),
             { rest := next :: k, prev := some rb, pos := n + 5, last := la,
               warnings := .multiWord [tokStr t, x] (spaceJoin [tokStr t, x]) "null_multiword".toList t.line t.col :: w, depth := d,
               warned := wd, strict := s, threshold := th, alpha := al }) := by
  have ht2 : (tIdent x l c1).type = TT.identifier := rfl
  have ht3 : (tIdent y ly cy).type = TT.identifier := rfl
  have hv2 : isValueTok TT.identifier = true := rfl
  have hvl : isValueTok TT.listStart = false := rfl
  have hpl : prevLen (tIdent x l c1) = x.length := rfl
  have hli : (tIdent x l c1).line = l := rfl
  have hci : (tIdent x l c1).col = c1 := rfl
  rw [parseValue]
  step_simp [hty, ht2, hv2, multiWordSimple]
  rw [takeValueToks]
  step_simp [ht2, hv2, tokStr_tIdent]
  rw [takeValueToks]
  step_simp [hlb, hvl, trailingBracket, hpl, hli, hci, hl, hc, consumeBracketAnnotation]
  rw [bracketLoop]
  step_simp [ht3]
  rw [bracketLoop]
  step_simp [hrb]
  rw [bracketLoop]
  step_simp []
  rfl

/-- **`K::1.2.3 mice[y]` — the same silent discard in the `version_multiword` context.** -/
theorem C07_mwbool_version_adjacent_bracket_silent (t : Token) (hty : t.type = .version) (x y : Str) (l c1 ly cy : Nat) (lb rb next : Token) (k : List Token)
    (hlb : lb.type = .listStart) (hl : lb.line = l) (hc : lb.col = c1 + x.length) (hrb : rb.type = .listEnd)
    (p : Option Token) (n : Nat) (la : Token) (w : List Warning) (d : Nat) (wd : List Nat) (s : Bool) (th : Nat) (al : Char → Bool) :
    parseValue 1
        { rest := t :: tIdent x l c1 :: lb :: tIdent y ly cy :: rb :: next :: k, prev := p, pos := n, last := la, warnings := w, depth := d, warned := wd, strict := s, threshold := th, alpha := al }
      = .ok (.str (spaceJoin [tokStr t, x]),
             { rest := next :: k, prev := some rb, pos := n + 5, last := la,
               warnings := .multiWord [tokStr t, x] (spaceJoin [tokStr t, x]) "version_multiword".toList t.line t.col :: w, depth := d,
               warned := wd, strict := s, threshold := th, alpha := al }) := by
  have ht2 : (tIdent x l c1).type = TT.identifier := rfl
  have ht3 : (tIdent y ly cy).type = TT.identifier := rfl
  have hv2 : isValueTok TT.identifier = true := rfl
  have hvl : isValueTok TT.listStart = false := rfl
  have hpl : prevLen (tIdent x l c1) = x.length := rfl
  have hli : (tIdent x l c1).line = l := rfl
  have hci : (tIdent x l c1).col = c1 := rfl
  rw [parseValue]
  step_simp [hty, ht2, hv2, multiWordSimple]
  rw [takeValueToks]
  step_simp [ht2, hv2, tokStr_tIdent]
  rw [takeValueToks]
  step_simp [hlb, hvl, trailingBracket, hpl, hli, hci, hl, hc, consumeBracketAnnotation]
  rw [bracketLoop]
  step_simp [ht3]
  rw [bracketLoop]
  step_simp [hrb]
  rw [bracketLoop]
  step_simp []
  rfl

/-- the warnings of `parse_with_warnings` on a text (model), `[]` on error. -/
def mwbWarnsOf (t : String) : List Warning :=
  match Parser.parseWithWarnings Env.ascii t.toList with | .ok (_, _, ws) => ws | .error _ => []

/-- non-vacuity of the finding, through the WHOLE model on the concrete witnesses `K::true mice[x]`, `K::null mice[x]`,
`K::1.2.3 mice[x]`: the document is `K::"true mice"`, the only warning is the coalescing receipt. -/
example : isOkStr (canonLenient Env.ascii "===D===\nK::true mice[x]\n===END===\n".toList) "===D===\nK::\"true mice\"\n===END===\n".toList = true := by
  decide +kernel
example : mwbWarnsOf "===D===\nK::true mice[x]\n===END===\n"
    = [.multiWord ["true".toList, "mice".toList] "true mice".toList "boolean_multiword".toList 2 4] := by decide +kernel
example : isOkStr (canonLenient Env.ascii "===D===\nK::null mice[x]\n===END===\n".toList) "===D===\nK::\"null mice\"\n===END===\n".toList = true := by
  decide +kernel
example : mwbWarnsOf "===D===\nK::null mice[x]\n===END===\n"
    = [.multiWord ["null".toList, "mice".toList] "null mice".toList "null_multiword".toList 2 4] := by decide +kernel
example : isOkStr (canonLenient Env.ascii "===D===\nK::1.2.3 mice[x]\n===END===\n".toList) "===D===\nK::\"1.2.3 mice\"\n===END===\n".toList = true := by
  decide +kernel
example : mwbWarnsOf "===D===\nK::1.2.3 mice[x]\n===END===\n"
    = [.multiWord ["1.2.3".toList, "mice".toList] "1.2.3 mice".toList "version_multiword".toList 2 4] := by decide +kernel
/-- the theorem instantiated on the tokens of `K::true mice[x]`. -/
example (k : List Token) (p : Option Token) (n : Nat) (la : Token) (w : List Warning) (d : Nat) (wd : List Nat) (s : Bool) (th : Nat) (al : Char → Bool) :
    parseValue 1
        { rest := tBool true 2 4 :: tIdent "mice".toList 2 9 :: { type := .listStart, value := .str "[".toList, line := 2, col := 13 } ::
            tIdent "x".toList 2 14 :: { type := .listEnd, value := .str "]".toList, line := 2, col := 15 } :: tNewline 2 16 :: k,
          prev := p, pos := n, last := la, warnings := w, depth := d, warned := wd, strict := s, threshold := th, alpha := al }
      = .ok (.str "true mice".toList,
             { rest := tNewline 2 16 :: k, prev := some { type := .listEnd, value := .str "]".toList, line := 2, col := 15 }, pos := n + 5, last := la,
               warnings := .multiWord ["true".toList, "mice".toList] "true mice".toList "boolean_multiword".toList 2 4 :: w, depth := d,
               warned := wd, strict := s, threshold := th, alpha := al }) :=
  C07_mwbool_adjacent_bracket_silent (tBool true 2 4) rfl "mice".toList "x".toList 2 9 2 14 _ _ (tNewline 2 16) k rfl rfl rfl rfl p n la w d wd s th al
example (k : List Token) (p : Option Token) (n : Nat) (la : Token) (w : List Warning) (d : Nat) (wd : List Nat) (s : Bool) (th : Nat) (al : Char → Bool) :
    parseValue 1
        { rest := tNull 2 4 :: tIdent "mice".toList 2 9 :: { type := .listStart, value := .str "[".toList, line := 2, col := 13 } ::
            tIdent "x".toList 2 14 :: { type := .listEnd, value := .str "]".toList, line := 2, col := 15 } :: tNewline 2 16 :: k,
          prev := p, pos := n, last := la, warnings := w, depth := d, warned := wd, strict := s, threshold := th, alpha := al }
      = .ok (.str "null mice".toList,
             { rest := tNewline 2 16 :: k, prev := some { type := .listEnd, value := .str "]".toList, line := 2, col := 15 }, pos := n + 5, last := la,
               warnings := .multiWord ["null".toList, "mice".toList] "null mice".toList "null_multiword".toList 2 4 :: w, depth := d,
               warned := wd, strict := s, threshold := th, alpha := al }) :=
  C07_mwbool_null_adjacent_bracket_silent (tNull 2 4) rfl "mice".toList "x".toList 2 9 2 14 _ _ (tNewline 2 16) k rfl rfl rfl rfl p n la w d wd s th al
example (k : List Token) (p : Option Token) (n : Nat) (la : Token) (w : List Warning) (d : Nat) (wd : List Nat) (s : Bool) (th : Nat) (al : Char → Bool) :
    parseValue 1
        { rest := tVersion "1.2.3".toList 2 4 :: tIdent "mice".toList 2 10 :: { type := .listStart, value := .str "[".toList, line := 2, col := 14 } ::
            tIdent "x".toList 2 15 :: { type := .listEnd, value := .str "]".toList, line := 2, col := 16 } :: tNewline 2 17 :: k,
          prev := p, pos := n, last := la, warnings := w, depth := d, warned := wd, strict := s, threshold := th, alpha := al }
      = .ok (.str "1.2.3 mice".toList,
             { rest := tNewline 2 17 :: k, prev := some { type := .listEnd, value := .str "]".toList, line := 2, col := 16 }, pos := n + 5, last := la,
               warnings := .multiWord ["1.2.3".toList, "mice".toList] "1.2.3 mice".toList "version_multiword".toList 2 4 :: w, depth := d,
               warned := wd, strict := s, threshold := th, alpha := al }) :=
  C07_mwbool_version_adjacent_bracket_silent (tVersion "1.2.3".toList 2 4) rfl "mice".toList "x".toList 2 10 2 15 _ _ (tNewline 2 17) k rfl rfl rfl rfl p n la w d wd s th al
/-- the contrast: behind a space the bracket is KEPT (` [x]`). -/
example : isOkStr (canonLenient Env.ascii "===D===\nK::true mice [x]\n===END===\n".toList) "===D===\nK::\"true mice [x]\"\n===END===\n".toList = true := by
  decide +kernel

/-! ### the hypotheses are necessary: the model at the excluded points (the real reader does the same, see the report) -/

/-- a version with a prerelease suffix, a four-part version: same rewrite (outside the class `d1.d2.d3`). -/
example : mwbWarnsOf "===D===\nK::1.2.3-rc1 words\n===END===\n"
    = [.multiWord ["1.2.3-rc1".toList, "words".toList] "1.2.3-rc1 words".toList "version_multiword".toList 2 4] := by decide +kernel
example : mwbWarnsOf "===D===\nK::1.2.3.4 words\n===END===\n"
    = [.multiWord ["1.2.3.4".toList, "words".toList] "1.2.3.4 words".toList "version_multiword".toList 2 4] := by decide +kernel
/-- TWO parts are a NUMBER (float), not a version: context `number_identifier`, raw lexeme kept. -/
example : mwbWarnsOf "===D===\nK::1.2 words\n===END===\n"
    = [.multiWord ["1.2".toList, "words".toList] "1.2 words".toList "number_identifier".toList 2 4] := by decide +kernel
/-- a number or a reserved word among the FURTHER words (`wordOK` fails): still coalesced, one receipt. -/
example : mwbWarnsOf "===D===\nK::true 3\n===END===\n" = [.multiWord ["true".toList, "3".toList] "true 3".toList "boolean_multiword".toList 2 4] := by
  decide +kernel
example : mwbWarnsOf "===D===\nK::true null\n===END===\n" = [.multiWord ["true".toList, "null".toList] "true null".toList "boolean_multiword".toList 2 4] := by
  decide +kernel
/-- under `PATTERN` the receipt is followed by the auto-quote warning (non-quiet key; covered by `C07_mwbool_receipts`). -/
example : (mwbWarnsOf "===D===\nPATTERN::true mice\n===END===\n").filter isMultiWord
    = [.multiWord ["true".toList, "mice".toList] "true mice".toList "boolean_multiword".toList 2 10] := by decide +kernel
example : (mwbWarnsOf "===D===\nPATTERN::true mice\n===END===\n").length = 2 := by decide +kernel
/-- an operator behind the words: the value is `true mice`; the `→` is dropped with no receipt of its own, the `x` with a
`bare_line_dropped` one (a further silent loss, outside this class). -/
example : isOkStr (canonLenient Env.ascii "===D===\nK::true mice->x\n===END===\n".toList) "===D===\nK::\"true mice\"\n===END===\n".toList = true := by
  decide +kernel
example : mwbWarnsOf "===D===\nK::true mice->x\n===END===\n"
    = [.multiWord ["true".toList, "mice".toList] "true mice".toList "boolean_multiword".toList 2 4, .bareLineDropped "x".toList 2 15] := by decide +kernel
/-- first key `META`: rejected with E001 at the `::`. -/
example : (match canonLenient Env.ascii "===D===\nMETA::true a\n===END===\n".toList with
    | .error e => e == .parser "E001".toList 2 5 | .ok _ => false) = true := by decide +kernel

end Octave.C07
