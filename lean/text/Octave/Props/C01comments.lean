/-
C01 / C02 / C07 on documents with COMMENTS — lexer half of the document-level round trip and the emitter, for trees of ANY
depth and width with ANY number of comments (`CNode`: a `KEY::scalar` line with leading comment lines and an optional trailing
comment, a `KEY:` block with leading comment lines and children; plus the document's trailing comment lines):

  * the emitter writes exactly `cDocText`: leading comments as `indent // text` lines directly above their node at the node's
    own indentation (`indent //` for the empty comment), the trailing comment as ` // text` after the value, the document's
    trailing comments as `// text` lines before `===END===`, whatever positions the AST nodes carry
    (`C01_ctree_emit`, `C01_ctree_emit_matches`);
  * the lexer reads that text back as exactly `cDocToks`, positions included, in both lexer modes (`C01_ctree_lexes`,
    `C01_ctree_emit_then_lex`): every comment is ONE COMMENT token whose value is exactly the comment text — on a line of its
    own `INDENT(2·depth)? COMMENT NEWLINE`, after a value `… value COMMENT NEWLINE` (the space in between yields no token) —
    and the COMMENT tokens of the document, in order, are the comments of the document, in order
    (`C02_comment_tokens_carry_text`); comments produce no receipt (`C07_ctree_canonical_no_normalization`).

What a comment text must satisfy (`CommentOK`), leading and trailing alike: `strip c = c` (the lexer strips the text; the
emitter `rstrip`s a comment line and the ` // text` suffix), no line break, no tab.  The EMPTY text — also as a trailing
comment: `KEY::v //` — and texts starting with `/` or containing `::`, `->`, quotes, `//` are covered.
(Finding C02N3, repaired: the emitter used to drop `trailing_comment == ""`, which the reader produces from `KEY::v //`; it
now writes ` //`: `C02_empty_trailing_comment_kept`, `C02_empty_trailing_comment_is_read`.)
Each excluded point is exhibited below on the model (`necessity` section) and was run on the real code.

The parser half (token list → the same Document) is a separate file; `cDocToks_eq` / `cDocToks_tv` / `cDocToks_plain`
(Lemmas/CommentLex) give the token list in reading order, with and without positions, for the bridge.
Hypothesis `hnfc` (NFC leaves every line of the text unchanged) is the documented limit of the format (finding F16).
-/
import Octave.Lemmas.CommentLex
import Octave.Props.C01blocks
namespace Octave.C01
open Octave Lexer Emitter Scan

/-- the emitter on a document with nested blocks and comments (positions chosen by any function of line index and depth). -/
theorem C01_ctree_emit (env : Env) (name : Str) (pos : Nat → Nat → Nat × Nat) (nodes : List CNode) (trailing : List Str)
    (h : ctreeEmitOK env nodes) (htr : ∀ c ∈ trailing, env.strip c = c) :
    emit env (cDoc name pos nodes trailing) = some (cDocText name nodes trailing) :=
  emit_ctree env name pos nodes trailing h htr

/-- the same for ANY AST whose nodes carry this content (any positions at all). -/
theorem C01_ctree_emit_matches (env : Env) (name : Str) (nodes : List CNode) (trailing : List Str) (sections : List Node)
    (hm : ctreeMatches nodes sections) (h : ctreeEmitOK env nodes) (htr : ∀ c ∈ trailing, env.strip c = c) :
    emit env { name := name, sections := sections, trailingComments := trailing } = some (cDocText name nodes trailing) :=
  emit_ctree_matches env name nodes trailing sections hm h htr

/-- the lexer on the canonical text of a document with nested blocks and comments. -/
theorem C01_ctree_lexes (env : Env) (lenient : Bool) (name : Str) (nodes : List CNode) (trailing : List Str)
    (hn : isEnvName name = true) (hne : name ≠ "END".toList) (hok : ctreeOK env nodes)
    (htr : ∀ c ∈ trailing, CommentOK env c)
    (hnfc : ∀ l ∈ splitLines (cDocText name nodes trailing), env.nfc l = l) :
    tokenize env (cDocText name nodes trailing) lenient =
      .ok (cDocToks name nodes trailing, (ctreeRepsRev 0 2 nodes).reverse) :=
  tokenize_ctree env lenient name nodes trailing hn hne hok htr hnfc

mutual
theorem cnode_repsRev_not_norm : ∀ (n : CNode) (d l : Nat), (n.repsRev d l).filter isNormalization = []
  | .line ln lead trail, d, l => by simp only [CNode.repsRev]; exact line_repsRev_not_norm ln _ _
  | .block key cs lead, d, l => by
    simp only [CNode.repsRev, List.filter_append, ctree_repsRev_not_norm cs (d + 1) _, identReps_rev_not_norm,
      List.append_nil]
theorem ctree_repsRev_not_norm : ∀ (ns : List CNode) (d l : Nat), (ctreeRepsRev d l ns).filter isNormalization = []
  | [], d, l => rfl
  | n :: ns, d, l => by
    simp only [ctreeRepsRev, List.filter_append, cnode_repsRev_not_norm n d l, ctree_repsRev_not_norm ns d (l + n.nlines),
      List.append_nil]
end

/-- **write, then lex**: whatever document with nested blocks and comments is emitted, its text lexes to the expected tokens
(`cDocToks`, positions included); read without positions they are the envelope, then per comment line
`INDENT(2·depth)? COMMENT(text) NEWLINE`, per assignment `INDENT? IDENTIFIER ASSIGN value COMMENT(text)? NEWLINE`, per block
header `INDENT? IDENTIFIER BLOCK NEWLINE`, the document's trailing comments as `COMMENT NEWLINE`, then
`ENVELOPE_END NEWLINE EOF`; no token carries `normFrom`, and there is no normalisation receipt. -/
theorem C01_ctree_emit_then_lex (env : Env) (lenient : Bool) (name : Str) (pos : Nat → Nat → Nat × Nat) (nodes : List CNode)
    (trailing : List Str) (hn : isEnvName name = true) (hne : name ≠ "END".toList) (hok : ctreeOK env nodes)
    (htr : ∀ c ∈ trailing, CommentOK env c) (hem : ctreeEmitOK env nodes)
    (hnfc : ∀ l ∈ splitLines (cDocText name nodes trailing), env.nfc l = l) :
    ∃ text reps, emit env (cDoc name pos nodes trailing) = some text ∧
      tokenize env text lenient = .ok (cDocToks name nodes trailing, reps) ∧
      (cDocToks name nodes trailing).map Token.tv =
        (.envelopeStart, .str name) :: (.newline, .str ['\n']) :: (ctreeShape 0 nodes ++ (leadShape 0 trailing ++
          [(.envelopeEnd, .str "END".toList), (.newline, .str ['\n']), (.eof, .none)])) ∧
      (∀ t ∈ cDocToks name nodes trailing, t.Plain) ∧
      reps.filter isNormalization = [] := by
  refine ⟨cDocText name nodes trailing, _, emit_ctree env name pos nodes trailing hem (fun c hc => (htr c hc).1),
    tokenize_ctree env lenient name nodes trailing hn hne hok htr hnfc, cDocToks_tv name nodes trailing,
    cDocToks_plain name nodes trailing, ?_⟩
  rw [List.filter_reverse, ctree_repsRev_not_norm]
  rfl

/-- **every comment of the document appears as exactly one COMMENT token carrying exactly its text, in order**: the
emitted text lexes, and the values of the COMMENT tokens of the result, in reading order, are the comment texts of the
document in document order (leading comments of a node, then its trailing comment or its children's comments, …, then the
document's trailing comments). -/
theorem C02_comment_tokens_carry_text (env : Env) (lenient : Bool) (name : Str) (pos : Nat → Nat → Nat × Nat)
    (nodes : List CNode) (trailing : List Str) (hn : isEnvName name = true) (hne : name ≠ "END".toList)
    (hok : ctreeOK env nodes) (htr : ∀ c ∈ trailing, CommentOK env c) (hem : ctreeEmitOK env nodes)
    (hnfc : ∀ l ∈ splitLines (cDocText name nodes trailing), env.nfc l = l) :
    ∃ text toks reps, emit env (cDoc name pos nodes trailing) = some text ∧
      tokenize env text lenient = .ok (toks, reps) ∧
      ((toks.filter fun t => t.type == .comment).map (·.value)) = (cDocComments nodes trailing).map TVal.str := by
  exact ⟨cDocText name nodes trailing, cDocToks name nodes trailing, _,
    emit_ctree env name pos nodes trailing hem (fun c hc => (htr c hc).1),
    tokenize_ctree env lenient name nodes trailing hn hne hok htr hnfc, cDocToks_comments name nodes trailing⟩

/-- canonical input has no normalisation receipt (C07, second sentence) — on every document with comments. -/
theorem C07_ctree_canonical_no_normalization (env : Env) (lenient : Bool) (name : Str) (nodes : List CNode)
    (trailing : List Str) (hn : isEnvName name = true) (hne : name ≠ "END".toList) (hok : ctreeOK env nodes)
    (htr : ∀ c ∈ trailing, CommentOK env c)
    (hnfc : ∀ l ∈ splitLines (cDocText name nodes trailing), env.nfc l = l) :
    ∃ toks reps, tokenize env (cDocText name nodes trailing) lenient = .ok (toks, reps) ∧ reps.filter isNormalization = [] := by
  refine ⟨_, _, tokenize_ctree env lenient name nodes trailing hn hne hok htr hnfc, ?_⟩
  rw [List.filter_reverse, ctree_repsRev_not_norm]
  rfl

/-- **comment lines sit at their node's indentation**: the emitted text consists of the envelope line, one line per row
(`cDocRows`: every comment line and every node line paired with its depth), `===END===` and the final line end; every row at
depth `d` starts with exactly `2 * d` spaces followed by a non-space. -/
theorem C03_ctree_two_spaces_per_level (env : Env) (name : Str) (pos : Nat → Nat → Nat × Nat) (nodes : List CNode)
    (trailing : List Str) (hn : isEnvName name = true) (hok : ctreeOK env nodes) (htr : ∀ c ∈ trailing, CommentOK env c)
    (hem : ctreeEmitOK env nodes) :
    ∃ text, emit env (cDoc name pos nodes trailing) = some text ∧
      splitLines text = ("===".toList ++ name ++ "===".toList) :: ((cDocRows nodes trailing).map rowText ++ ["===END===".toList, []]) ∧
      ∀ r ∈ cDocRows nodes trailing,
        takeWhile (· == ' ') (rowText r) = (List.replicate (2 * r.1) ' ', r.2) ∧ ∃ c t, r.2 = c :: t ∧ c ≠ ' ' := by
  refine ⟨cDocText name nodes trailing, emit_ctree env name pos nodes trailing hem (fun c hc => (htr c hc).1),
    splitLines_cDocText env name nodes trailing hn hok htr, ?_⟩
  intro r hr
  have hb := cDocRows_ok env nodes trailing hok htr r hr
  refine ⟨rowText_spaces r hb, ?_⟩
  obtain ⟨_, c, t, h1, h2, _⟩ := hb
  exact ⟨c, t, h1, h2⟩

/-- **an empty trailing comment survives the write/read cycle** (C02N3 repaired): the assignment with
`trailing_comment = ""` is written `KEY::value //` — no trailing space — below its leading comments, at every depth; and the
lexer reads that line back as `INDENT? IDENTIFIER ASSIGN value COMMENT("") NEWLINE`, the COMMENT token one column after the
end of the value. -/
theorem C02_empty_trailing_comment_kept (env : Env) (lenient : Bool) (st : LState) (ln : FLine) (lead : List Str)
    (l c d : Nat) (b : Bool) (rest : Str) (hem : ln.EmitOK) (hl : ∀ x ∈ lead, env.strip x = x) (hok : ln.OK)
    (hr : Ready st) (hcol : st.col = 1) :
    emitNode env (.assign ln.key ln.v.value l c lead (some [])) d b =
      some ((leadRows d lead).map rowText ++ [indentStr d ++ (ln.text ++ " //".toList)]) ∧
    ∃ st', Run env lenient (indentSteps d + 6) st (indentStr d ++ (ln.text ++ (" //".toList ++ '\n' :: rest))) st' rest ∧
      AdvL st st' (cLineToksRev ln (some []) d st.line) (ln.repsRev st.line (1 + 2 * d)) 1 ∧
      tComment [] st.line (1 + 2 * d + ln.key.length + 2 + ln.v.text.length + 1) ∈ cLineToksRev ln (some []) d st.line := by
  refine ⟨emitNode_empty_trailing_kept env ln lead l c d b hem hl, ?_⟩
  obtain ⟨s1, r1, a1⟩ := run_cline env lenient st ln (some []) d rest hr hcol hok ⟨strip_empty env, by intro x hx; simp at hx⟩
  exact ⟨s1, r1, a1, by simp [cLineToksRev, trailToksRev]⟩

/-- the lexer hands the reader a COMMENT token valued `""` for `KEY::v //` (one step: `//` before a line end). -/
theorem C02_empty_trailing_comment_is_read (env : Env) (lenient : Bool) (st : LState) (rest : Str) (hr : Ready st) :
    ∃ st' p, step env lenient st ('/' :: '/' :: '\n' :: rest) = .ok (st', '\n' :: rest) ∧
      Adv st st' [tComment [] st.line st.col] [] 0 (st.col + 2) p := by
  obtain ⟨s, p, e, a⟩ := step_comment env lenient st [] ('\n' :: rest) hr (by simp) (by simp)
  exact ⟨s, p, e, a⟩

/-! ### non-vacuity -/

/-- the document
```
===D===
// lead one
//
A::1 // trail
B:
  // in :: -> "q" // x
  X::true // t
  // /starts with a slash
  C:
    Y::word // w
    Z::"s t" // "quoted" → -> ::
    N::null //
// end
//
===END===
``` -/
def exC : List CNode :=
  [.line ⟨"A".toList, .int 1⟩ ["lead one".toList, []] (some "trail".toList),
   .block "B".toList
     [.line ⟨"X".toList, .bool true⟩ ["in :: -> \"q\" // x".toList] (some "t".toList),
      .block "C".toList
        [.line ⟨"Y".toList, .bare "word".toList⟩ [] (some "w".toList),
         .line ⟨"Z".toList, .qstr "s t".toList⟩ [] (some "\"quoted\" → -> ::".toList),
         .line ⟨"N".toList, .null⟩ [] (some [])]
        ["/starts with a slash".toList]]
     []]

def exTrailing : List Str := ["end".toList, []]

example : cDocText "D".toList exC exTrailing =
    ("===D===\n// lead one\n//\nA::1 // trail\nB:\n  // in :: -> \"q\" // x\n  X::true // t\n  // /starts with a slash\n  C:\n" ++
     "    Y::word // w\n    Z::\"s t\" // \"quoted\" → -> ::\n    N::null //\n// end\n//\n===END===\n").toList := by decide +kernel

theorem exC_ok : ctreeOK Env.ascii exC := by
  simp only [exC, ctreeOK, CNode.OK, FLine.OK, FScalar.OK]
  decide

theorem exTrailing_ok : ∀ c ∈ exTrailing, CommentOK Env.ascii c := by
  decide

theorem exC_emit : ctreeEmitOK Env.ascii exC := by
  simp only [exC, ctreeEmitOK, CNode.EmitOK, CNode.LineEmitOK, FLine.EmitOK]
  decide

/-- the lexer theorem applies to it. -/
example : tokenize Env.ascii (cDocText "D".toList exC exTrailing) false = .ok (cDocToks "D".toList exC exTrailing, []) :=
  C01_ctree_lexes Env.ascii false "D".toList exC exTrailing (by decide) (by decide) exC_ok exTrailing_ok (fun _ _ => rfl)

/-- its tokens without positions. -/
example : (cDocToks "D".toList exC exTrailing).map Token.tv =
    [(.envelopeStart, .str "D".toList), (.newline, .str ['\n']),
     (.comment, .str "lead one".toList), (.newline, .str ['\n']),
     (.comment, .str []), (.newline, .str ['\n']),
     (.identifier, .str "A".toList), (.assign, .str "::".toList), (.number, .int 1), (.comment, .str "trail".toList), (.newline, .str ['\n']),
     (.identifier, .str "B".toList), (.block, .str [':']), (.newline, .str ['\n']),
     (.indent, .nat 2), (.comment, .str "in :: -> \"q\" // x".toList), (.newline, .str ['\n']),
     (.indent, .nat 2), (.identifier, .str "X".toList), (.assign, .str "::".toList), (.boolean, .bool true), (.comment, .str "t".toList), (.newline, .str ['\n']),
     (.indent, .nat 2), (.comment, .str "/starts with a slash".toList), (.newline, .str ['\n']),
     (.indent, .nat 2), (.identifier, .str "C".toList), (.block, .str [':']), (.newline, .str ['\n']),
     (.indent, .nat 4), (.identifier, .str "Y".toList), (.assign, .str "::".toList), (.identifier, .str "word".toList), (.comment, .str "w".toList), (.newline, .str ['\n']),
     (.indent, .nat 4), (.identifier, .str "Z".toList), (.assign, .str "::".toList), (.string, .str "s t".toList), (.comment, .str "\"quoted\" → -> ::".toList), (.newline, .str ['\n']),
     (.indent, .nat 4), (.identifier, .str "N".toList), (.assign, .str "::".toList), (.null, .none), (.comment, .str []), (.newline, .str ['\n']),
     (.comment, .str "end".toList), (.newline, .str ['\n']),
     (.comment, .str []), (.newline, .str ['\n']),
     (.envelopeEnd, .str "END".toList), (.newline, .str ['\n']), (.eof, .none)] := by decide

/-- positions of the COMMENT tokens (line, column): leading comments at the node's column, a trailing comment one column
after the end of the value. -/
example : ((cDocToks "D".toList exC exTrailing).filter fun t => t.type == .comment).map (fun t => (t.line, t.col)) =
    [(2, 1), (3, 1), (4, 6), (6, 3), (7, 11), (8, 3), (10, 13), (11, 14), (12, 13), (13, 1), (14, 1)] := by decide

/-- write, then lex, on the example (lenient mode). -/
example : ∃ text toks reps, emit Env.ascii (cDoc "D".toList (fun i d => (i + 2, 1 + 2 * d)) exC exTrailing) = some text ∧
    tokenize Env.ascii text true = .ok (toks, reps) ∧
    ((toks.filter fun t => t.type == .comment).map (·.value)) =
      ["lead one".toList, [], "trail".toList, "in :: -> \"q\" // x".toList, "t".toList, "/starts with a slash".toList,
       "w".toList, "\"quoted\" → -> ::".toList, [], "end".toList, []].map TVal.str := by
  obtain ⟨t, k, r, h1, h2, h3⟩ := C02_comment_tokens_carry_text Env.ascii true "D".toList (fun i d => (i + 2, 1 + 2 * d)) exC exTrailing
    (by decide) (by decide) exC_ok exTrailing_ok exC_emit (fun _ _ => rfl)
  exact ⟨t, k, r, h1, h2, by rw [h3]; decide⟩

example : ∃ text reps, emit Env.ascii (cDoc "D".toList (fun _ _ => (0, 0)) exC exTrailing) = some text ∧
    tokenize Env.ascii text false = .ok (cDocToks "D".toList exC exTrailing, reps) ∧ reps.filter isNormalization = [] := by
  obtain ⟨t, r, h1, h2, _, _, h5⟩ := C01_ctree_emit_then_lex Env.ascii false "D".toList (fun _ _ => (0, 0)) exC exTrailing
    (by decide) (by decide) exC_ok exTrailing_ok exC_emit (fun _ _ => rfl)
  exact ⟨t, r, h1, h2, h5⟩

/-- the rows of the example: depths of the 13 body lines. -/
example : (cDocRows exC exTrailing).map (·.1) = [0, 0, 0, 0, 1, 1, 1, 1, 2, 2, 2, 0, 0] := by decide

/-- a tree without comments is a tree of `BlockLex`: same text, same tokens. -/
example : cDocText "D".toList (ctreeOfT exTree) [] = treeDocText "D".toList exTree := cDocText_ofT _ _

/-! ### necessity of the hypotheses (on the model; the same inputs were run on the real code) -/

def docOf (lead : List Str) (trail : Option Str) : Document :=
  { name := "D".toList, sections := [.assign "A".toList (.int 1) 2 1 lead trail] }

def commentValsOf (text : Option Str) : Option (List TVal) :=
  match text with
  | none => none
  | some t =>
    match tokenize Env.ascii t true with
    | .ok (toks, _) => some ((toks.filter fun t => t.type == .comment).map (·.value))
    | .error _ => none

/-- `strip c = c` is necessary: a comment text with a leading / trailing space is read back stripped (leading and trailing
comment alike; a trailing space is already removed by the emitter's `rstrip`). -/
example : emit Env.ascii (docOf [" x".toList] (some "y ".toList)) = some "===D===\n//  x\nA::1 // y\n===END===\n".toList := by decide
example : commentValsOf (emit Env.ascii (docOf [" x".toList] (some "y ".toList))) = some [.str "x".toList, .str "y".toList] := by decide

/-- "no line break" is necessary: the text after the line break is written as a line of its own — here it is read back as
an assignment `B::2` that the document never contained. -/
example : emit Env.ascii (docOf [] (some "a\nB::2".toList)) = some "===D===\nA::1 // a\nB::2\n===END===\n".toList := by decide
example : (tokenize Env.ascii "===D===\nA::1 // a\nB::2\n===END===\n".toList true).toOption.map (fun p => p.1.map Token.tv) =
    some [(.envelopeStart, .str "D".toList), (.newline, .str ['\n']),
      (.identifier, .str "A".toList), (.assign, .str "::".toList), (.number, .int 1), (.comment, .str "a".toList), (.newline, .str ['\n']),
      (.identifier, .str "B".toList), (.assign, .str "::".toList), (.number, .int 2), (.newline, .str ['\n']),
      (.envelopeEnd, .str "END".toList), (.newline, .str ['\n']), (.eof, .none)] := by decide

/-- "no tab" is necessary: the emitted text is refused by the lexer (E005 at the tab). -/
example : emit Env.ascii (docOf ["a\tb".toList] none) = some "===D===\n// a\tb\nA::1\n===END===\n".toList := by decide
example : (match tokenize Env.ascii "===D===\n// a\tb\nA::1\n===END===\n".toList true with | .error e => some e | .ok _ => none) =
    some (.lexer "E005".toList 2 5) := by decide

/-- the EMPTY trailing comment is inside the class (C02N3 repaired): it is written ` //`, and `KEY::v //` is read with a
COMMENT token valued `""` — like the empty LEADING comment, written `//`. -/
example : emit Env.ascii (docOf [] (some [])) = some "===D===\nA::1 //\n===END===\n".toList := by decide
example : commentValsOf (emit Env.ascii (docOf [] (some []))) = some [.str []] := by decide
example : emit Env.ascii (docOf [[]] none) = some "===D===\n//\nA::1\n===END===\n".toList := by decide

end Octave.C01
