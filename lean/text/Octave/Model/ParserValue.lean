import Octave.Model.ParserBase
/-!
`parse_value`, `parse_list`, `parse_list_item`, `parse_literal_zone`, `parse_flow_expression`,
`_check_deep_nesting`, the inline-map atom check, holographic *detection* (the pattern parser of
`holographic.py` is not modelled yet: a list that would be tried as a holographic pattern makes the
model answer `unsupported`).
-/
namespace Octave
namespace Parser

def budget : P Nat := do return (← get).rest.length + 2

def skipWhitespace (skipComments : Bool := true) : P Unit := do skipWs skipComments (← budget)

/-- `while self.current().type in VALUE_TOKENS: parts.append(_token_to_str(cur)); advance()` -/
def takeValueToks : Nat → List Str → P (List Str)
  | 0, _ => throw .fuel
  | fuel + 1, acc => do
    let t ← current
    if isValueTok t.type then
      let _ ← advance
      takeValueToks fuel (acc ++ [tokStr t])
    else pure acc

/-- `while cur in VALUE_TOKENS or cur in EXPRESSION_OPERATORS:` collect operator values / token strings. -/
def takeExprParts : Nat → List Str → P (List Str)
  | 0, _ => throw .fuel
  | fuel + 1, acc => do
    let t ← current
    if isExprOp t.type then
      let _ ← advance
      takeExprParts fuel (acc ++ [pyStrVal t.value])
    else if isValueTok t.type then
      let _ ← advance
      takeExprParts fuel (acc ++ [tokStr t])
    else pure acc

/-- the "GH#276 round 2" trailing-bracket handling shared by most `parse_value` paths:
adjacent bracket → skipped; non-adjacent → captured and appended as `" [ann]"` (`sep = " "`) or `"[ann]"`. -/
def trailingBracket (result : Str) (sep : Str := [' ']) : P Str := do
  if (← curType) == .listStart then
    if ← isAdjacentBracket then
      let _ ← consumeBracketAnnotation false (← budget)
      pure result
    else
      match ← consumeBracketAnnotation true (← budget) with
      | some ann => pure (result ++ sep ++ '[' :: ann ++ [']'])
      | none => pure result
  else pure result

def spaceJoin (ws : List Str) : Str := joinWith [' '] ws

/-- the common "X followed by VALUE_TOKENS" multi-word path of STRING/BOOLEAN/NULL/VERSION. -/
def multiWordSimple (tok : Token) (context : String) : P Value := do
  let _ ← advance
  let parts ← takeValueToks (← budget) [tokStr tok]
  let result := spaceJoin parts
  warn (.multiWord parts result context.toList tok.line tok.col)
  let r ← trailingBracket result
  pure (.str r)

/-- `parse_literal_zone`. -/
def parseLiteralZone : P Value := do
  let ft ← expect .fenceOpen
  let (marker, tag) ← (match ft.value with
    | .fence m t => pure (m, t)
    | _ => throw (parserError "E006" ft) : P (Str × Option Str))
  let content ← (do
    let t ← current
    if t.type == .literalContent then
      let _ ← advance
      pure (pyStrVal t.value)
    else pure [] : P Str)
  if (← curType) == .fenceClose then
    let _ ← advance
  else throw (parserError "E006" ft)
  pure (.zone content tag marker)

/-- NUMBER[bracket]OPERATOR capture loop (GH#287 P2). -/
def operatorRichLoop : Nat → List Str → P (List Str)
  | 0, _ => throw .fuel
  | fuel + 1, acc => do
    let t ← current
    if t.type == .newline || t.type == .eof || t.type == .envelopeEnd then pure acc
    else if t.type == .listStart then let _ ← advance; operatorRichLoop fuel (acc ++ ["[".toList])
    else if t.type == .listEnd then let _ ← advance; operatorRichLoop fuel (acc ++ ["]".toList])
    else if isExprOp t.type then let _ ← advance; operatorRichLoop fuel (acc ++ [' ' :: pyStrVal t.value ++ [' ']])
    else if isValueTok t.type then let _ ← advance; operatorRichLoop fuel (acc ++ [tokStr t])
    else if t.type == .comma then let _ ← advance; operatorRichLoop fuel (acc ++ [",".toList])
    else pure acc

/-- `_has_annotation`. -/
def hasAnnotation (s : Str) : Bool := s.contains '<' && s.getLast? == some '>'

/-- colon-path loop: `while cur == BLOCK and peek == IDENTIFIER`. -/
def colonPath : Nat → List Str → P (List Str)
  | 0, _ => throw .fuel
  | fuel + 1, acc => do
    if (← curType) == .block && (← peek).type == .identifier then
      let _ ← advance
      let t ← advance
      colonPath fuel (acc ++ [pyStrVal t.value])
    else pure acc

/-- `parse_flow_expression`. state: parts, tension count, first tension token. -/
def flowLoop : Nat → List Str → Nat → Option Token → P (List Str × Nat × Option Token)
  | 0, _, _, _ => throw .fuel
  | fuel + 1, parts, tcount, ftok => do
    let t ← current
    if isExprOp t.type then
      let st ← get
      if t.type == .flow && st.depth == 0 then warn (.bareFlow t.line t.col)
      if t.type == .constraint && st.depth == 0 then warn (.constraintOutside t.line t.col)
      let (tcount', ftok') := if t.type == .tension then (tcount + 1, ftok.orElse fun _ => some t) else (tcount, ftok)
      let _ ← advance
      flowLoop fuel (parts ++ [pyStrVal t.value]) tcount' ftok'
    else if t.type == .section then
      let _ ← advance
      let n ← current
      if n.type == .identifier then
        let _ ← advance
        flowLoop fuel (parts ++ [pyStrVal t.value ++ pyStrVal n.value]) tcount ftok
      else if n.type == .number then
        let _ ← advance
        flowLoop fuel (parts ++ [pyStrVal t.value ++ tokStr n]) tcount ftok
      else flowLoop fuel (parts ++ [pyStrVal t.value]) tcount ftok
    else if t.type == .identifier || t.type == .string || t.type == .variable then
      let _ ← advance
      let parts1 := parts ++ [pyStrVal t.value]
      if (← curType) == .listStart then
        let after ← peekPastBrackets 0
        if !(after == .comma || after == .listEnd || after == .newline || after == .eof || after == .envelopeEnd || after == .envelopeStart) then
          let _ ← advance
          let acc ← bracketLoop true (← budget) 1 []
          flowLoop fuel (parts1 ++ ['[' :: acc.reverse.flatten ++ [']']]) tcount ftok
        else flowLoop fuel parts1 tcount ftok
      else flowLoop fuel parts1 tcount ftok
    else pure (parts, tcount, ftok)

def parseFlowExpression : P Value := do
  let (parts, tcount, ftok) ← flowLoop (← budget) [] 0 none
  let joined ← trailingBracket parts.flatten []
  match ftok with
  | some ft => if tcount > 1 then warn (.chainedTension ft.line ft.col)
  | none => pure ()
  pure (.str joined)

/-- `_check_deep_nesting` (called after `bracket_depth += 1`). -/
def checkDeepNesting (tok : Token) : P Unit := do
  let st ← get
  if st.depth ≥ 100 then throw (parserError "E_MAX_NESTING_EXCEEDED" tok)
  if st.threshold > 0 && st.depth ≥ st.threshold then
    if !st.warned.contains tok.line then
      set { st with warned := tok.line :: st.warned }
      warn (.deepNesting st.depth st.threshold tok.line tok.col)

/-- `_check_list_for_nested_inline_maps` : returns `true` when it hit an inline map (and, lenient, warned). -/
def checkListItems (key : Str) (tok : Token) : List Value → P Unit
  | [] => pure ()
  | .imap _ :: _ => do
    if (← get).strict then throw (parserError "E_NESTED_INLINE_MAP" tok)
    warn (.nestedInlineMap key tok.line tok.col)
  | .list inner :: rest => do
    checkListItems key tok inner
    checkListItems key tok rest
  | _ :: rest => checkListItems key tok rest

/-- `while cur in (NEWLINE, INDENT, COMMENT): advance()` inside lists. -/
def skipListWs : Nat → P Unit
  | 0 => throw .fuel
  | fuel + 1 => do
    let t ← curType
    if t == .newline || t == .indent || t == .comment then
      let _ ← advance
      skipListWs fuel
    else pure ()

/-- does the token slice look holographic? (`has_constraint` and no comma at depth 1) -/
def looksHolographic (slice : List Token) : Bool :=
  slice.any (fun t => t.type == .constraint) &&
  (let rec go : List Token → Nat → Bool
    | [], _ => true
    | t :: ts, d =>
      if t.type == .listStart then go ts (d + 1)
      else if t.type == .listEnd then go ts (d - 1)
      else if t.type == .comma && d == 1 then false
      else go ts d
   go slice 0)

mutual
/-- `parse_value`. -/
def parseValue : Nat → P Value
  | 0 => throw .fuel
  | fuel + 1 => do
    let token ← current
    let next ← peek
    match token.type with
    | .string =>
      if isValueTok next.type then multiWordSimple token "string_multiword"
      else let _ ← advance; pure (.str (pyStrVal token.value))
    | .number =>
      if isValueTok next.type then
        let _ ← advance
        numberWords fuel token [tokStr token]
      else
        let rich ← (if next.type == .listStart then do pure (isExprOp (← peekPastBrackets 1)) else pure false : P Bool)
        if rich then
          let _ ← advance
          let parts ← operatorRichLoop (← budget) [tokStr token]
          let result := parts.flatten
          warn (.sourceCompile result token.line token.col)
          pure (.str result)
        else
          let _ ← advance
          pure (match token.value with | .int i => .int i | .float r => .float r | _ => .null)
    | .boolean =>
      if isValueTok next.type then multiWordSimple token "boolean_multiword"
      else let _ ← advance; pure (match token.value with | .bool b => .bool b | _ => .null)
    | .null =>
      if isValueTok next.type then multiWordSimple token "null_multiword"
      else let _ ← advance; pure .null
    | .version =>
      if isValueTok next.type then multiWordSimple token "version_multiword"
      else let _ ← advance; pure (.str (pyStrVal token.value))
    | .listStart => parseList fuel
    | .fenceOpen => parseLiteralZone
    | .newline =>
      if next.type == .fenceOpen then let _ ← advance; parseLiteralZone
      else let _ ← advance; pure (.str (pyStrVal token.value))
    | .identifier =>
      if isExprOp next.type then parseFlowExpression
      else
        let flowAfterBracket ← (if next.type == .listStart then do pure (isExprOp (← peekPastBrackets 1)) else pure false : P Bool)
        if flowAfterBracket then parseFlowExpression
        else
          let _ ← advance
          let mut first := pyStrVal token.value
          if (← curType) == .listStart && (← isAdjacentBracket) then
            match ← consumeBracketAnnotation true (← budget) with
            | some ann => first := first ++ '<' :: ann ++ ['>']
            | none => pure ()
          let parts ← colonPath (← budget) [first]
          if parts.length > 1 then
            let mut path := joinWith [':'] parts
            if (← curType) == .listStart && (← isAdjacentBracket) then
              match ← consumeBracketAnnotation true (← budget) with
              | some ann => path := path ++ '<' :: ann ++ ['>']
              | none => pure ()
            return .str path
          -- annotation look-ahead
          let st ← get
          let scan := (st.rest.takeWhile fun t => isValueTok t.type)
          let anyAnn := hasAnnotation first || scan.any (fun t => hasAnnotation (tokStr t))
          if anyAnn then
            let (bare, items) : List Str × List Str := if hasAnnotation first then ([], [first]) else ([first], [])
            annotatedLoop fuel bare items
          else plainWords fuel token [first]
    | .flow => parseFlowExpression
    | .section =>
      let _ ← advance
      let n ← current
      let mut marker := pyStrVal token.value
      if n.type == .identifier then
        marker := marker ++ pyStrVal n.value
        let _ ← advance
      else if n.type == .number then
        marker := marker ++ tokStr n
        let _ ← advance
      let r ← trailingBracket marker
      pure (.str r)
    | .variable =>
      if isExprOp next.type then parseFlowExpression
      else let _ ← advance; pure (.str (pyStrVal token.value))
    | _ => let _ ← advance; pure (.str (pyStrVal token.value))

/-- NUMBER followed by VALUE_TOKENS: the accumulation loop with its expression escape. -/
def numberWords : Nat → Token → List Str → P Value
  | 0, _, _ => throw .fuel
  | fuel + 1, start, words => do
    let t ← current
    if isValueTok t.type then
      if isExprOp (← peek).type then
        let _ ← advance
        let words' := words ++ [tokStr t]
        let expr ← takeExprParts (← budget) [spaceJoin words']
        warn (.multiWord words' (spaceJoin words') "number_identifier_expression".toList start.line start.col)
        pure (.str expr.flatten)
      else
        let _ ← advance
        numberWords fuel start (words ++ [tokStr t])
    else
      let result := spaceJoin words
      warn (.multiWord words result "number_identifier".toList start.line start.col)
      let r ← trailingBracket result
      pure (.str r)

/-- IDENTIFIER path without annotations: bare-word coalescing + expression escape. -/
def plainWords : Nat → Token → List Str → P Value
  | 0, _, _ => throw .fuel
  | fuel + 1, start, words => do
    let t ← current
    if isValueTok t.type then
      if isExprOp (← peek).type then
        let _ ← advance
        let words' := words ++ [tokStr t]
        let expr ← takeExprParts (← budget) [spaceJoin words']
        if words'.length > 1 then
          warn (.multiWord words' (spaceJoin words') "expression_path".toList start.line start.col)
        pure (.str expr.flatten)
      else
        let _ ← advance
        let mut w := tokStr t
        if (← curType) == .listStart && (← isAdjacentBracket) then
          match ← consumeBracketAnnotation true (← budget) with
          | some ann => w := w ++ '<' :: ann ++ ['>']
          | none => pure ()
        plainWords fuel start (words ++ [w])
    else
      let result := spaceJoin words
      if words.length > 1 then warn (.multiWord words result [] start.line start.col)
      let r ← trailingBracket result
      pure (.str r)

/-- GH#269 unified accumulator (some token of the run carries an annotation). -/
def annotatedLoop : Nat → List Str → List Str → P Value
  | 0, _, _ => throw .fuel
  | fuel + 1, bare, items => do
    let t ← current
    if isExprOp t.type then
      let items1 := if bare.isEmpty then items else items ++ [spaceJoin bare]
      let ops ← takeExprParts (← budget) []
      let full := (if items1.isEmpty then [] else spaceJoin items1) ++ ops.flatten
      let r ← trailingBracket full
      pure (.str r)
    else if isValueTok t.type then
      let _ ← advance
      let mut cur := tokStr t
      if (← curType) == .listStart && (← isAdjacentBracket) then
        match ← consumeBracketAnnotation true (← budget) with
        | some ann => cur := cur ++ '<' :: ann ++ ['>']
        | none => pure ()
      if hasAnnotation cur then
        annotatedLoop fuel [] ((if bare.isEmpty then items else items ++ [spaceJoin bare]) ++ [cur])
      else annotatedLoop fuel (bare ++ [cur]) items
    else
      let items1 := if bare.isEmpty then items else items ++ [spaceJoin bare]
      let items2 ← (do
        if (← curType) == .listStart then
          if ← isAdjacentBracket then
            let _ ← consumeBracketAnnotation false (← budget)
            pure items1
          else
            match ← consumeBracketAnnotation true (← budget) with
            | some ann =>
              match items1.getLast? with
              | some lastItem => pure (items1.dropLast ++ [lastItem ++ ' ' :: '[' :: ann ++ [']']])
              | none => throw (.py "IndexError".toList)
            | none => pure items1
        else pure items1 : P (List Str))
      match items2 with
      | [one] => pure (.str one)
      | many => pure (.list (many.map Value.str))

/-- `parse_list`. -/
def parseList : Nat → P Value
  | 0 => throw .fuel
  | fuel + 1 => do
    let startSt ← get
    let bracket ← expect .listStart
    modify fun st => { st with depth := st.depth + 1 }
    checkDeepNesting bracket
    let items ← listLoop fuel []
    let t ← current
    if t.type == .listEnd then
      let _ ← advance
      modify fun st => { st with depth := st.depth - 1 }
    else if t.type == .eof || t.type == .envelopeEnd then
      modify fun st => { st with depth := st.depth - 1 }
      if (← get).strict then throw (parserError "E007" t)
      warn (.unclosedList t.line t.col)
    else
      let _ ← expect .listEnd
    let endSt ← get
    let slice := startSt.rest.take (endSt.pos - startSt.pos)
    if looksHolographic slice then throw (.unsupported "holographic".toList)
    pure (.list items)

def listLoop : Nat → List Value → P (List Value)
  | 0, _ => throw .fuel
  | fuel + 1, items => do
    skipListWs (← budget)
    let t ← curType
    if t == .listEnd || t == .eof || t == .envelopeEnd then pure items
    else
      let item ← parseListItem fuel
      let items' := items ++ [item]
      let t2 ← curType
      if t2 == .comma then let _ ← advance; listLoop fuel items'
      else if t2 == .listEnd then pure items'
      else if t2 == .eof then pure items'
      else listLoop fuel items'

/-- `parse_list_item`. -/
def parseListItem : Nat → P Value
  | 0 => throw .fuel
  | fuel + 1 => do
    let k ← current
    let n ← peek
    let isIdKey := k.type == .identifier && n.type == .assign
    let isNumKey := k.type == .number && n.type == .assign
    if isIdKey || isNumKey then
      let key := pyStrVal k.value
      let _ ← advance
      let _ ← expect .assign
      let quoted := (← curType) == .string
      let value ← parseValue fuel
      match value with
      | .imap _ =>
        if (← get).strict then throw (parserError "E_NESTED_INLINE_MAP" k)
        warn (.nestedInlineMap key k.line k.col)
      | .list inner => checkListItems key k inner
      | _ => pure ()
      let isPR := key == "PATTERN".toList || key == "REGEX".toList
      let isCtor := isPR || key == "ENUM".toList || key == "TYPE".toList || key == "NEVER".toList || key == "ALWAYS".toList
      match value with
      | .str s =>
        if isIdKey && isPR && !quoted then warn (.patternAutoquote key s k.line k.col)
        if isIdKey && isCtor && quoted then warn (.constructorMisuse key s k.line k.col)
      | _ =>
        -- `value_is_quoted_string` implies the value came from a STRING token, hence is a str
        pure ()
      pure (.imap [(key, value)])
    else parseValue fuel
end


end Parser
end Octave
