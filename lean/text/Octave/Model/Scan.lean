import Octave.Model.Token
/-!
Hand-written recognisers for the regular expressions of `lexer.TOKEN_PATTERNS`, `FENCE_PATTERN`,
`_INVALID_ENVELOPE_PATTERN`.  Each `scanX env s` returns `some (matched, rest)` with
`s = matched ++ rest` exactly when Python's `re.compile(X).match(s)` matches, with the same match.
(The regexes involved are deterministic: no alternative ever needs backtracking into a previous
choice; this is validated by the correspondence check on all short strings over each pattern's
alphabet, and `Props/Facts.lean` pins the regex source text the recognisers were written against.)
-/
namespace Octave
namespace Scan

/-- longest prefix satisfying `p`. -/
def takeWhile (p : Char → Bool) : Str → Str × Str
  | [] => ([], [])
  | c :: cs => if p c then let (a, b) := takeWhile p cs; (c :: a, b) else ([], c :: cs)

/-- `p+` : non-empty longest prefix. -/
def many1 (p : Char → Bool) (s : Str) : Option (Str × Str) :=
  match takeWhile p s with
  | ([], _) => none
  | (a, b) => some (a, b)

/-- literal prefix. -/
def lit : Str → Str → Option Str
  | [], s => some s
  | _ :: _, [] => none
  | p :: ps, c :: cs => if p == c then lit ps cs else none

/-- `(?:\.\d+)*` -/
def dotDigitsStar (env : Env) : Nat → Str → Str × Str
  | 0, s => ([], s)
  | fuel + 1, s =>
    match s with
    | '.' :: r =>
      match many1 env.isDigit r with
      | some (d, r') => let (a, b) := dotDigitsStar env fuel r'; ('.' :: d ++ a, b)
      | none => ([], s)
    | _ => ([], s)

def isPreChar (c : Char) : Bool := isAlnumA c || c == '.' || c == '-'   -- [A-Za-z0-9.-]
def isBuildChar (c : Char) : Bool := isAlnumA c || c == '.'             -- [A-Za-z0-9.]

/-- `(?:-[A-Za-z0-9.-]+)` (mandatory form). -/
def prerelease (s : Str) : Option (Str × Str) :=
  match s with
  | '-' :: r => (many1 isPreChar r).map fun (a, b) => ('-' :: a, b)
  | _ => none
/-- `(?:\+[A-Za-z0-9.]+)` (mandatory form). -/
def build (s : Str) : Option (Str × Str) :=
  match s with
  | '+' :: r => (many1 isBuildChar r).map fun (a, b) => ('+' :: a, b)
  | _ => none
def opt (f : Str → Option (Str × Str)) (s : Str) : Str × Str :=
  match f s with | some r => r | none => ([], s)

/-- group 1 of `OCTAVE::(\d+(?:\.\d+)*(?:-[A-Za-z0-9.-]+)?)` after the literal prefix. -/
def sentinelVersion (env : Env) (s : Str) : Option (Str × Str) :=
  match many1 env.isDigit s with
  | none => none
  | some (d, r) =>
    let (a, r1) := dotDigitsStar env r.length r
    let (p, r2) := opt prerelease r1
    some (d ++ a ++ p, r2)

/-- `\d+\.\d+` -/
def twoParts (env : Env) (s : Str) : Option (Str × Str) :=
  match many1 env.isDigit s with
  | some (d1, '.' :: r) =>
    match many1 env.isDigit r with
    | some (d2, r') => some (d1 ++ '.' :: d2, r')
    | none => none
  | _ => none

/-- VERSION pattern 1: `\d+\.\d+\.\d+(?:\.\d+)*(?:-[A-Za-z0-9.-]+)?(?:\+[A-Za-z0-9.]+)?` -/
def version3 (env : Env) (s : Str) : Option (Str × Str) :=
  match twoParts env s with
  | some (ab, '.' :: r) =>
    match many1 env.isDigit r with
    | some (d3, r1) =>
      let (more, r2) := dotDigitsStar env r1.length r1
      let (p, r3) := opt prerelease r2
      let (b, r4) := opt build r3
      some (ab ++ '.' :: d3 ++ more ++ p ++ b, r4)
    | none => none
  | _ => none

/-- VERSION pattern 2: `\d+\.\d+(?:-[A-Za-z0-9.-]+)(?:\+[A-Za-z0-9.]+)?` -/
def version2pre (env : Env) (s : Str) : Option (Str × Str) :=
  match twoParts env s with
  | some (ab, r) =>
    match prerelease r with
    | some (p, r1) => let (b, r2) := opt build r1; some (ab ++ p ++ b, r2)
    | none => none
  | none => none

/-- VERSION pattern 3: `\d+\.\d+(?:\+[A-Za-z0-9.]+)` -/
def version2build (env : Env) (s : Str) : Option (Str × Str) :=
  match twoParts env s with
  | some (ab, r) => (build r).map fun (b, r1) => (ab ++ b, r1)
  | none => none

/-- an optional single char satisfying `p`: (that char or nothing, rest). -/
def optChar (p : Char → Bool) (s : Str) : Str × Str :=
  match s with
  | c :: r => if p c then ([c], r) else ([], s)
  | [] => ([], [])

/-- `-?\d+\.?\d*(?:[eE][+-]?\d+)?` -/
def number (env : Env) (s : Str) : Option (Str × Str) :=
  let sg := optChar (· == '-') s
  match many1 env.isDigit sg.2 with
  | none => none
  | some (d, r1) =>
    let dt := optChar (· == '.') r1
    let fr := takeWhile env.isDigit dt.2
    let mant := sg.1 ++ d ++ dt.1 ++ fr.1
    match fr.2 with
    | e :: r4 =>
      if e == 'e' || e == 'E' then
        let es := optChar (fun c => c == '+' || c == '-') r4
        match many1 env.isDigit es.2 with
        | some (ed, r6) => some (mant ++ e :: es.1 ++ ed, r6)
        | none => some (mant, fr.2)
      else some (mant, fr.2)
    | [] => some (mant, fr.2)

/-- body of `"(?:[^"\\]|\\.)*"` after the opening quote: returns (raw body, rest after closing quote).
`.` does not match a newline. -/
def stringBody : Str → Option (Str × Str)
  | [] => none
  | '"' :: r => some ([], r)
  | '\\' :: c :: r => if c == '\n' then none else (stringBody r).map fun (a, b) => ('\\' :: c :: a, b)
  | '\\' :: [] => none
  | c :: r => (stringBody r).map fun (a, b) => (c :: a, b)

/-- body of `"""(?:[^"\\]|\\.|"(?!""))*"""` after the opening `"""`. -/
def tripleBody : Str → Option (Str × Str)
  | [] => none
  | '"' :: '"' :: '"' :: r => some ([], r)
  | '"' :: r => (tripleBody r).map fun (a, b) => ('"' :: a, b)
  | '\\' :: c :: r => if c == '\n' then none else (tripleBody r).map fun (a, b) => ('\\' :: c :: a, b)
  | '\\' :: [] => none
  | c :: r => (tripleBody r).map fun (a, b) => (c :: a, b)

def isEnvStart (c : Char) : Bool := isAlphaA c || c == '_'
def isEnvBody (c : Char) : Bool := isAlnumA c || c == '_'
def isVarChar (c : Char) : Bool := isAlnumA c || c == '_' || c == ':'

/-- `===([A-Za-z_][A-Za-z0-9_]*)===` : returns (name, rest). -/
def envelopeStart (s : Str) : Option (Str × Str) :=
  match lit "===".toList s with
  | some (c :: r) =>
    if isEnvStart c then
      let (b, r1) := takeWhile isEnvBody r
      (lit "===".toList r1).map fun r2 => (c :: b, r2)
    else none
  | _ => none

/-- `===([^=\n]*)===` : returns the captured identifier. -/
def invalidEnvelope (s : Str) : Option Str :=
  match lit "===".toList s with
  | some r =>
    let (b, r1) := takeWhile (fun c => c != '=' && c != '\n') r
    (lit "===".toList r1).map fun _ => b
  | none => none

end Scan
end Octave
