import Octave.Model.Basic
/-! Tokens, repair records and exceptions of `lexer.py`. -/
namespace Octave

inductive TT where
  | grammarSentinel | version | variable | assign | block | listStart | listEnd | concat | at_
  | synthesis | tension | constraint | alternative | flow | section | comment | envelopeStart
  | envelopeEnd | string | number | boolean | null | identifier | comma | newline | indent
  | separator | eof | fenceOpen | fenceClose | literalContent
  deriving DecidableEq, Repr, Inhabited

/-- `Token.value`. A float is carried as `repr(float(lexeme))` (never as a Lean `Float`). -/
inductive TVal where
  | none
  | str (s : Str)
  | int (i : Int)
  | float (repr : Str)
  | bool (b : Bool)
  | nat (n : Nat)
  | fence (marker : Str) (tag : Option Str)
  deriving DecidableEq, Repr, Inhabited

structure Token where
  type : TT
  value : TVal
  line : Nat
  col : Nat
  normFrom : Option Str := none
  raw : Option Str := none
  deriving DecidableEq, Repr, Inhabited

/-- Entries of the lexer's `repairs` list (message texts are not modelled). -/
inductive Repair where
  | normalization (original : Str) (normalized : TVal) (line col : Nat)
  | wrongCase (original correct : Str) (line col : Nat)
  | boundaryMissing (original : Str) (line col : Nat)
  | curlyBrace (original repaired : Str) (line col : Nat)
  deriving DecidableEq, Repr, Inhabited

/-- What `tokenize` can raise: its own positioned `LexerError`, or a foreign Python exception. -/
inductive Exc where
  | lexer (code : Str) (line col : Nat)
  | parser (code : Str) (line col : Nat)
  | py (cls : Str)
  | unsupported (what : Str)   -- the model does not cover this path (never compared)
  | fuel            -- model artefact: never produced when fuel ≥ input length + 1 (theorem)
  deriving DecidableEq, Repr, Inhabited

end Octave
