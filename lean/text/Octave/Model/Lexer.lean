import Octave.Model.Scan
/-!
Executable model of `octave_mcp/core/lexer.py` — a transcription of the code that exists
(`_normalize_with_fence_detection`, the tab check, the main loop of `tokenize` with its fence-span,
whitespace, pattern and fallback branches, `_match_unicode_identifier`,
`_match_curly_brace_annotation`, `_check_invalid_envelope`, the `%` merge).
Message texts are not modelled; error codes and positions are.
-/
namespace Octave
namespace Lexer
open Scan

/-! ### Fence detection and selective NFC -/

/-- one fence span of the normalised content: `[start, stop)` offsets, marker, info tag. -/
structure Span where
  start : Nat
  stop : Nat
  marker : Str
  tag : Option Str
  deriving Repr, DecidableEq

/-- `FENCE_PATTERN.match(line)`: `^( *)((`{3,})([^\n`]*)?)$` → (backtick run, trailing text). -/
def fenceLine (line : Str) : Option (Str × Str) :=
  let (_, r) := takeWhile (· == ' ') line
  let (ticks, r1) := takeWhile (· == '`') r
  if ticks.length ≥ 3 && r1.all (fun c => c != '`' && c != '\n') then some (ticks, r1) else none

structure NState where
  out : List Str := []          -- output lines, reversed
  offset : Nat := 0
  spans : List Span := []       -- reversed
  inFence : Bool := false
  marker : Str := []
  tag : Option Str := none
  openLine : Nat := 0
  spanStart : Nat := 0

/-- one iteration of the line loop of `_normalize_with_fence_detection`. -/
def normLine (env : Env) (st : NState) (lineNum : Nat) (line : Str) : Except Exc NState :=
  match fenceLine line, st.inFence with
  | some (ticks, trailing), false =>
    let rawTag := env.strip trailing
    let nl := env.nfc line
    .ok { st with out := nl :: st.out, offset := st.offset + nl.length + 1, inFence := true,
                  marker := ticks, tag := if rawTag.isEmpty then none else some rawTag,
                  openLine := lineNum, spanStart := st.offset }
  | some (ticks, trailing), true =>
    -- `_evaluate_fence_line`
    if ticks.length == st.marker.length && (env.strip trailing).isEmpty then
      let nl := env.nfc line
      let off := st.offset + nl.length + 1
      .ok { st with out := nl :: st.out, offset := off,
                    spans := { start := st.spanStart, stop := off - 1, marker := st.marker, tag := st.tag } :: st.spans,
                    inFence := false, marker := [], tag := none }
    else if ticks.length ≥ st.marker.length then .error (.lexer "E007".toList lineNum 1)
    else .ok { st with out := line :: st.out, offset := st.offset + line.length + 1 }
  | none, true => .ok { st with out := line :: st.out, offset := st.offset + line.length + 1 }
  | none, false =>
    let nl := env.nfc line
    .ok { st with out := nl :: st.out, offset := st.offset + nl.length + 1 }

def normLines (env : Env) : NState → Nat → List Str → Except Exc NState
  | st, _, [] => .ok st
  | st, n, l :: ls => do
    let st' ← normLine env st n l
    normLines env st' (n + 1) ls

/-- `_normalize_with_fence_detection`. -/
def normalize (env : Env) (content : Str) : Except Exc (Str × List Span) := do
  let st ← normLines env {} 1 (splitLines content)
  if st.inFence then .error (.lexer "E006".toList st.openLine 1)
  else .ok (joinWith ['\n'] st.out.reverse, st.spans.reverse)

/-! ### Tab check -/

/-- first tab outside every fence span → `E005` at its (line, column). -/
def tabCheck (spans : List Span) : Str → (pos line col : Nat) → Except Exc Unit
  | [], _, _, _ => .ok ()
  | c :: cs, pos, line, col =>
    if c == '\t' && !(spans.any fun s => s.start ≤ pos && pos < s.stop) then .error (.lexer "E005".toList line col)
    else if c == '\n' then tabCheck spans cs (pos + 1) (line + 1) 1
    else tabCheck spans cs (pos + 1) line (col + 1)

/-! ### Identifiers -/

/-- strip trailing hyphens but keep at least one char (`while end > pos + 1 and content[end-1] == "-"`);
returns (kept, given back). -/
def stripHyphens (s : Str) : Str × Str :=
  match s with
  | [] => ([], [])
  | c :: cs =>
    let back := (cs.reverse.takeWhile (· == '-')).length
    (c :: cs.take (cs.length - back), cs.drop (cs.length - back))

/-- identifier-shaped run starting at `s` (first char must satisfy `idStart`): (name, rest). -/
def idRun (env : Env) (s : Str) : Option (Str × Str) :=
  match s with
  | c :: cs =>
    if env.idStart c then
      let (body, r) := takeWhile env.idChar cs
      let (kept, back) := stripHyphens (c :: body)
      some (kept, back ++ r)
    else none
  | [] => none

/-- `{qualifier}` tail at `s` (`_match_curly_brace_annotation`): returns (qualifier, rest after `}`). -/
def curlyTail (env : Env) (s : Str) : Option (Str × Str) :=
  match s with
  | '{' :: r =>
    match idRun env r with
    | some (q, '}' :: r') => some (q, r')
    | _ => none
  | _ => none

/-- `<qualifier>` tail at `s`: `<>` (empty), or an identifier-start char followed by identifier-body chars
or commas, trailing hyphens given back, then `>`.  Returns (text between the brackets, rest after `>`). -/
def angleTail (env : Env) (s : Str) : Option (Str × Str) :=
  match s with
  | '<' :: '>' :: r => some ([], r)
  | '<' :: c :: cs =>
    if env.idStart c then
      let (body, r) := takeWhile (fun d => env.idChar d || d == ',') cs
      let (kept, back) := stripHyphens (c :: body)
      match back ++ r with
      | '>' :: r' => some (kept, r')
      | _ => none
    else none
  | _ => none

/-- `_match_unicode_identifier`: (token value, consumed length is the value's length, rest, optional repair (original, repaired)). -/
def matchIdentifier (env : Env) (lenient : Bool) (s : Str) : Option (Str × Str × Option (Str × Str)) :=
  match idRun env s with
  | none => none
  | some (name, r) =>
    let (name1, r1) := match angleTail env r with
      | some (q, r') => (name ++ '<' :: q ++ ['>'], r')
      | none => (name, r)
    match curlyTail env r1 with
    | some (q, r2) =>
      let original := name1 ++ '{' :: q ++ ['}']
      let repaired := name1 ++ '<' :: q ++ ['>']
      if lenient then some (repaired, r2, some (original, repaired)) else some (name1, r1, none)
    | none => some (name1, r1, none)

/-! ### Token patterns -/

structure Match where
  type : TT
  value : TVal
  text : Str
  rest : Str
  normFrom : Option Str := none
  raw : Option Str := none

def kw (env : Env) (prev : Option Char) (word : Str) (s : Str) : Option Str :=
  match lit word s with
  | some r => if env.boundary prev s.head? && env.boundary word.getLast? r.head? then some r else none
  | none => none

/-- `_ESCAPE_SEQUENCE_PATTERN.sub(...)`: single left-to-right pass over `\\"`, `\\\\`, `\\n`, `\\t`;
any other backslash is kept. -/
def unescape : Str → Str
  | [] => []
  | '\\' :: '"' :: r => '"' :: unescape r
  | '\\' :: '\\' :: r => '\\' :: unescape r
  | '\\' :: 'n' :: r => '\n' :: unescape r
  | '\\' :: 't' :: r => '\t' :: unescape r
  | c :: r => c :: unescape r

/-- Python `int(text)` for a NUMBER lexeme without `.`/`e`: value, or ValueError beyond 4300 digits
(which `tokenize` re-raises as a positioned `LexerError` E005, see `step`). -/
def digitsVal (env : Env) : Str → Nat → Nat
  | [], acc => acc
  | c :: cs, acc => digitsVal env cs (acc * 10 + (env.digit? c).getD 0)

def intOfLexeme (env : Env) (text : Str) : Except Exc Int :=
  let (neg, ds) := match text with | '-' :: r => (true, r) | _ => (false, text)
  if ds.length > 4300 then .error (.py "ValueError".toList)
  else
    let n : Int := digitsVal env ds 0
    .ok (if neg then -n else n)

def alias? (text : Str) : Option Str :=
  if text == "->".toList then some ['→']
  else if text == "<->".toList then some ['⇌']
  else if text == "+".toList then some ['⊕']
  else if text == "~".toList then some ['⧺']
  else if text == "vs".toList then some ['⇌']
  else if text == "|".toList then some ['∨']
  else if text == "&".toList then some ['∧']
  else if text == "#".toList then some ['§']
  else none

def simple (t : TT) (text rest : Str) : Match :=
  match alias? text with
  | some u => { type := t, value := .str u, text := text, rest := rest, normFrom := some text }
  | none => { type := t, value := .str text, text := text, rest := rest }

/-- NUMBER token from a matched lexeme (`float(...)` / `int(...)`). -/
def numberMatch (env : Env) (t r1 : Str) : Except Exc (Option Match) :=
  if t.contains '.' || t.contains 'e' || t.contains 'E' then
    -- `float(matched_text)`; an overflow to ±inf is refused (re-raised by `step` as LexerError E005)
    if env.floatRepr t == "inf".toList || env.floatRepr t == "-inf".toList then .error (.py "OverflowToInf".toList)
    else .ok (some { type := .number, value := .float (env.floatRepr t), text := t, rest := r1, raw := some t })
  else
    match intOfLexeme env t with
    | .ok i => .ok (some { type := .number, value := .int i, text := t, rest := r1, raw := some t })
    | .error e => .error e

/-- GRAMMAR_SENTINEL (only tried at position 0). -/
def matchSentinel (env : Env) (s : Str) : Option Match :=
  match lit "OCTAVE::".toList s with
  | some r0 => (sentinelVersion env r0).map fun (v, r1) =>
      { type := .grammarSentinel, value := .str v, text := "OCTAVE::".toList ++ v, rest := r1 }
  | none => none

/-- patterns that start with a digit: VERSION ×3, then NUMBER. -/
def matchDigit (env : Env) (s : Str) : Except Exc (Option Match) :=
  match version3 env s with
  | some (v, r1) => .ok (some { type := .version, value := .str v, text := v, rest := r1 })
  | none =>
  match version2pre env s with
  | some (v, r1) => .ok (some { type := .version, value := .str v, text := v, rest := r1 })
  | none =>
  match version2build env s with
  | some (v, r1) => .ok (some { type := .version, value := .str v, text := v, rest := r1 })
  | none =>
  match number env s with
  | some (t, r1) => numberMatch env t r1
  | none => .ok none

/-- patterns that start with `=`: ===END===, ===NAME===. -/
def matchEq (s : Str) : Option Match :=
  match lit "===END===".toList s with
  | some r1 => some { type := .envelopeEnd, value := .str "END".toList, text := "===END===".toList, rest := r1 }
  | none =>
    match envelopeStart s with
    | some (name, r1) => some { type := .envelopeStart, value := .str name, text := "===".toList ++ name ++ "===".toList, rest := r1 }
    | none => none

/-- patterns that start with `-`: ---, ->, negative NUMBER. -/
def matchDash (env : Env) (s : Str) : Except Exc (Option Match) :=
  match lit "---".toList s with
  | some r1 => .ok (some (simple .separator "---".toList r1))
  | none =>
  match lit "->".toList s with
  | some r1 => .ok (some (simple .flow "->".toList r1))
  | none =>
  match number env s with
  | some (t, r1) => numberMatch env t r1
  | none => .ok none

/-- patterns that start with a double quote: triple-quoted string, then string. `r` is the text after the first quote. -/
def matchQuote (s r : Str) : Option Match :=
  let triple : Option Match :=
    match lit "\"\"\"".toList s with
    | some r0 => (tripleBody r0).map fun (body, r1) =>
        { type := .string, value := .str (unescape body), text := "\"\"\"".toList ++ body ++ "\"\"\"".toList,
          rest := r1, normFrom := some "\"\"\"".toList }
    | none => none
  match triple with
  | some m => some m
  | none =>
    match stringBody r with
    | some (body, r1) => some { type := .string, value := .str (unescape body), text := '"' :: body ++ ['"'], rest := r1 }
    | none => none

/-- the word-boundary keyword patterns. -/
def matchKeyword (env : Env) (prev : Option Char) (c : Char) (s : Str) : Option Match :=
  if c == 'v' then (kw env prev "vs".toList s).map fun r1 => simple .tension "vs".toList r1
  else if c == 't' then (kw env prev "true".toList s).map fun r1 => { type := .boolean, value := .bool true, text := "true".toList, rest := r1 }
  else if c == 'f' then (kw env prev "false".toList s).map fun r1 => { type := .boolean, value := .bool false, text := "false".toList, rest := r1 }
  else if c == 'n' then (kw env prev "null".toList s).map fun r1 => { type := .null, value := .none, text := "null".toList, rest := r1 }
  else none

/-- token type of the one-character operator / punctuation patterns. -/
def singleCharType (c : Char) : Option TT :=
  if c == '→' then some .flow
  else if c == '⊕' then some .synthesis
  else if c == '⧺' then some .concat
  else if c == '~' then some .concat
  else if c == '@' then some .at_
  else if c == '⇌' then some .tension
  else if c == '∨' then some .alternative
  else if c == '|' then some .alternative
  else if c == '∧' then some .constraint
  else if c == '&' then some .constraint
  else if c == '§' then some .section
  else if c == '[' then some .listStart
  else if c == ']' then some .listEnd
  else if c == ',' then some .comma
  else if c == '#' then some .section
  else none

/-- comment, `::` / `:`, `<->`, variable, newline, and the one-character operator / punctuation patterns. -/
def matchPunct (env : Env) (c : Char) (r : Str) (s : Str) : Option Match :=
  if c == '/' then
    match r with
    | '/' :: r1 =>
      some { type := .comment, value := .str (env.strip (takeWhile (· != '\n') r1).1), text := '/' :: '/' :: (takeWhile (· != '\n') r1).1,
             rest := (takeWhile (· != '\n') r1).2 }
    | _ => none
  else if c == ':' then
    match r with
    | ':' :: r1 => some (simple .assign "::".toList r1)
    | _ => some (simple .block ":".toList r)
  else if c == '<' then (lit "<->".toList s).map fun r1 => simple .tension "<->".toList r1
  else if c == '$' then (many1 isVarChar r).map fun (b, r1) => { type := .variable, value := .str ('$' :: b), text := '$' :: b, rest := r1 }
  else if c == '\n' then some { type := .newline, value := .str ['\n'], text := ['\n'], rest := r }
  else (singleCharType c).map fun t => simple t [c] r

/-- the `for pattern, token_type in compiled_patterns` loop: first matching pattern at `s`.
Patterns are dispatched on their first character (the first-character sets of different groups are disjoint);
within a group the source order is kept. -/
def matchPattern (env : Env) (atZero : Bool) (prev : Option Char) (s : Str) : Except Exc (Option Match) :=
  match s with
  | [] => .ok none
  | c :: r =>
    match (if atZero then matchSentinel env s else none) with
    | some m => .ok (some m)
    | none =>
    if env.isDigit c then matchDigit env s
    else if c == '=' then .ok (matchEq s)
    else if c == '-' then matchDash env s
    else if c == '"' then .ok (matchQuote s r)
    else if c == 'v' || c == 't' || c == 'f' || c == 'n' then .ok (matchKeyword env prev c s)
    else .ok (matchPunct env c r s)

/-! ### Main loop -/

structure LState where
  pos : Nat := 0
  prev : Option Char := none
  line : Nat := 1
  col : Nat := 1
  toks : List Token := []        -- reversed (head = last token)
  repairs : List Repair := []    -- reversed
  stack : List (Nat × Nat) := [] -- open brackets, innermost first
  spans : List Span := []        -- fence spans not yet consumed
  blank : Bool := true           -- `not content[:pos].strip("\n")`: only newlines consumed so far (document start / frontmatter padding)
  deriving Repr

/-- line/column after consuming `text` (`newline_count` logic). -/
def advancePos (line col : Nat) (text : Str) : Nat × Nat :=
  let nl := text.count '\n'
  if nl > 0 then (line + nl, (text.reverse.takeWhile (· != '\n')).length + 1)
  else (line, col + text.length)

/-- `_check_invalid_envelope` : does it return an error? -/
def invalidEnvelopeError (env : Env) (s : Str) : Bool :=
  match invalidEnvelope s with
  | none => false
  | some ident =>
    if ident.isEmpty then true
    else
      match ident with
      | c :: cs =>
        if isEnvStart c && cs.all isEnvBody then false
        else !(env.isAlpha c || c == '_') || cs.any (fun d => !(env.isAlnum d || d == '_'))
      | [] => true

def lowerA (c : Char) : Char := if isUpper c then Char.ofNat (c.toNat + 32) else c

/-- index of the first `vs` (ASCII case-insensitive) in `s`. -/
def findVs : Str → Nat → Option Nat
  | a :: b :: r, i => if lowerA a == 'v' && lowerA b == 's' then some i else findVs (b :: r) (i + 1)
  | _, _ => none

def wrongCase? (s : Str) : Option Str :=
  if s == "True".toList || s == "TRUE".toList then some "true".toList
  else if s == "False".toList || s == "FALSE".toList then some "false".toList
  else if s == "Null".toList || s == "NULL".toList then some "null".toList
  else none

def identifierRepairs (ident : Str) (line col : Nat) : List Repair :=
  (match wrongCase? ident with | some c => [Repair.wrongCase ident c line col] | none => [])
  ++ (match findVs ident 0 with
      | some i => if i != 0 && i + 2 < ident.length then [Repair.boundaryMissing ident line col] else []
      | none => [])

def tvalStr : TVal → Str
  | .str s => s
  | _ => []

/-- `fence_span_idx < len(fence_spans) and pos == fence_spans[fence_span_idx][0]` -/
def atSpanStart (st : LState) : Bool :=
  match st.spans with | sp :: _ => st.pos == sp.start | [] => false

/-- one iteration of `while pos < len(content)`; `s` is the non-empty remaining input. -/
def step (env : Env) (lenient : Bool) (st : LState) (s : Str) : Except Exc (LState × Str) :=
  match s with
  | [] => .ok (st, [])
  | c :: r =>
  -- fence span branch
  if atSpanStart st then
    match st.spans with
    | [] => .ok (st, s)
    | sp :: spans' =>
      let spanText := s.take (sp.stop - sp.start)
      let rest := s.drop (sp.stop - sp.start)
      let ls := splitLines spanText
      let middle := (ls.drop 1).dropLast
      let closeText := ls.getLast?.getD []
      let literal := joinWith ['\n'] middle
      let contentLine := st.line + 1
      let closeLine := contentLine + (ls.length - 1 - 1)
      let fenceIndent := ((ls.headD []).takeWhile (· == ' ')).length
      let t1 : Token := { type := .fenceOpen, value := .fence sp.marker sp.tag, line := st.line, col := st.col + fenceIndent }
      let t2 : Token := { type := .literalContent, value := .str literal, line := contentLine, col := 1 }
      let t3 : Token := { type := .fenceClose, value := .str sp.marker, line := closeLine, col := 1 }
      let st1 := { st with pos := sp.stop, prev := spanText.getLast?.orElse (fun _ => st.prev), line := closeLine + 1, col := 1,
                           toks := t3 :: t2 :: t1 :: st.toks, spans := spans', blank := false }
      match rest with
      | '\n' :: rest' =>
        let t4 : Token := { type := .newline, value := .str ['\n'], line := closeLine, col := closeText.length + 1 }
        .ok ({ st1 with pos := sp.stop + 1, prev := some '\n', toks := t4 :: st1.toks }, rest')
      | _ => .ok (st1, rest)
  else if c == ' ' then
    if st.col == 1 then
      let (sp, r1) := takeWhile (· == ' ') s
      let n := sp.length
      match r1 with
      | d :: _ =>
        if d != '\n' then
          .ok ({ st with pos := st.pos + n, prev := some ' ', col := st.col + n, blank := false,
                         toks := { type := .indent, value := .nat n, line := st.line, col := st.col } :: st.toks }, r1)
        else .ok ({ st with pos := st.pos + n, prev := some ' ', blank := false }, r1)
      | [] => .ok ({ st with pos := st.pos + n, prev := some ' ', blank := false }, r1)
    else .ok ({ st with pos := st.pos + 1, prev := some ' ', col := st.col + 1, blank := false }, r)
  else do
    let m? ← (match matchPattern env st.blank st.prev s with
      | .error _ => .error (Exc.lexer "E005".toList st.line st.col)   -- `except ValueError: raise LexerError`
      | .ok m => .ok m : Except Exc (Option Match))
    match m? with
    | some m =>
      let tok : Token := { type := m.type, value := m.value, line := st.line, col := st.col, normFrom := m.normFrom, raw := m.raw }
      -- bracket balance
      let stack ← (match m.type with
        | .listStart => pure ((st.line, st.col) :: st.stack)
        | .listEnd => match st.stack with
          | [] => throw (Exc.lexer "E_UNBALANCED_BRACKET".toList st.line st.col)
          | _ :: rest => pure rest
        | _ => pure st.stack : Except Exc (List (Nat × Nat)))
      let repairs := match m.normFrom with
        | some o => Repair.normalization o m.value st.line st.col :: st.repairs
        | none => st.repairs
      let (line', col') := advancePos st.line st.col m.text
      .ok ({ st with pos := st.pos + m.text.length, prev := m.text.getLast?.orElse (fun _ => st.prev), line := line', col := col',
                     toks := tok :: st.toks, repairs := repairs, stack := stack, blank := st.blank && m.type == .newline }, m.rest)
    | none =>
      if startsWith "===".toList s && invalidEnvelopeError env s then
        .error (.lexer "E_INVALID_ENVELOPE_ID".toList st.line st.col)
      else if c == '+' then
        let tok : Token := { type := .synthesis, value := .str ['⊕'], line := st.line, col := st.col, normFrom := some ['+'] }
        .ok ({ st with pos := st.pos + 1, prev := some '+', col := st.col + 1, toks := tok :: st.toks,
                       repairs := Repair.normalization ['+'] (.str ['⊕']) st.line st.col :: st.repairs, blank := false }, r)
      else
        match matchIdentifier env lenient s with
        | some (ident, rest, rep) =>
          let tok : Token := { type := .identifier, value := .str ident, line := st.line, col := st.col }
          let reps := (match rep with | some (o, p) => [Repair.curlyBrace o p st.line st.col] | none => [])
                      ++ identifierRepairs ident st.line st.col
          .ok ({ st with pos := st.pos + ident.length, prev := (s.take ident.length).getLast?.orElse (fun _ => st.prev),
                         col := st.col + ident.length, toks := tok :: st.toks, repairs := reps.reverse ++ st.repairs, blank := false }, rest)
        | none =>
          -- `%` merge into the previous NUMBER / IDENTIFIER token
          let merged : Option (LState × Str) :=
            if c == '%' then
              match st.toks with
              | last :: before =>
                if (last.type == .number || last.type == .identifier) && !(startsWith "::".toList (env.lstrip r)) then
                  let prevVal : Str := match last.raw with | some raw => raw | none => tvalStr last.value
                  match prevVal.getLast? with
                  | some lc =>
                    if env.isAlnum lc then
                      let (body, r1) := takeWhile (fun d => env.idChar d && !isOperatorChar d) r
                      let (kept, back) := stripHyphens ('%' :: body)
                      let tok : Token := { type := .identifier, value := .str (prevVal ++ kept), line := last.line, col := last.col,
                                           normFrom := last.normFrom, raw := none }
                      some ({ st with pos := st.pos + kept.length, prev := kept.getLast?, col := st.col + kept.length,
                                      toks := tok :: before, blank := false }, back ++ r1)
                    else none
                  | none => none
                else none
              | [] => none
            else none
          match merged with
          | some res => .ok res
          | none => .error (.lexer "E005".toList st.line st.col)

/-- `while pos < len(content)` with explicit fuel (every iteration consumes at least one char;
`Props/C20` proves `content.length + 1` suffices). -/
def loop (env : Env) (lenient : Bool) : Nat → LState → Str → Except Exc LState
  | _, st, [] => .ok st
  | 0, _, _ :: _ => .error .fuel
  | fuel + 1, st, s@(_ :: _) => do
    let (st', s') ← step env lenient st s
    loop env lenient fuel st' s'

/-- `tokenize(content, lenient)`. -/
def tokenize (env : Env) (content : Str) (lenient : Bool := false) : Except Exc (List Token × List Repair) := do
  let (norm, spans) ← normalize env content
  tabCheck spans norm 0 1 1
  let st ← loop env lenient (norm.length + 1) { spans := spans } norm
  match st.stack.getLast? with
  | some (l, c) => .error (.lexer "E_UNBALANCED_BRACKET".toList l c)
  | none =>
    let eof : Token := { type := .eof, value := .none, line := st.line, col := st.col }
    .ok ((eof :: st.toks).reverse, st.repairs.reverse)

end Lexer
end Octave
