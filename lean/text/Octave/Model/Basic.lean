/-
Basic vocabulary of the text engine: strings as code-point lists, the external environment
(`Env`: everything the Python code obtains from `unicodedata`, `str` methods, `re`'s Unicode
classes and `float()`), ASCII character classes, small list utilities.
Import-free (core Lean only).
-/
namespace Octave

abbrev Str := List Char

/-- The outside world.  The model decides ASCII itself; for non-ASCII code points and for
`unicodedata.normalize`, `float()`/`repr` it consults `Env`.  The driver instantiates `Env` per
case from values the harness obtained from the running CPython; theorems quantify over `Env`
(with explicit hypotheses where a law is needed). -/
structure Env where
  /-- `unicodedata.normalize("NFC", line)` for one line. -/
  nfc : Str → Str
  /-- `_is_valid_identifier_start` for a non-ASCII char (operator characters already excluded by the model). -/
  idStartU : Char → Bool
  /-- `_is_valid_identifier_char` for a non-ASCII char. -/
  idCharU : Char → Bool
  /-- `re` `\w` for a non-ASCII char (used by `\b`). -/
  wordU : Char → Bool
  /-- `re` `\d` for a non-ASCII char, with its digit value. -/
  digitU : Char → Option Nat
  /-- `str.isalpha` / `str.isalnum` / `str.isspace` for a non-ASCII char. -/
  alphaU : Char → Bool
  alnumU : Char → Bool
  spaceU : Char → Bool
  /-- `repr(float(lexeme))` for a NUMBER lexeme that is not an int literal. -/
  floatRepr : Str → Str

/-- An environment for pure-ASCII reasoning: NFC is the identity, no non-ASCII char is classified. -/
def Env.ascii : Env where
  nfc := id
  idStartU := fun _ => false
  idCharU := fun _ => false
  wordU := fun _ => false
  digitU := fun _ => none
  alphaU := fun _ => false
  alnumU := fun _ => false
  spaceU := fun _ => false
  floatRepr := id

def isAscii (c : Char) : Bool := c.toNat < 128
def isUpper (c : Char) : Bool := decide (65 ≤ c.toNat) && decide (c.toNat ≤ 90)     -- 'A'..'Z'
def isLower (c : Char) : Bool := decide (97 ≤ c.toNat) && decide (c.toNat ≤ 122)    -- 'a'..'z'
def isAlphaA (c : Char) : Bool := isUpper c || isLower c
def isDigitA (c : Char) : Bool := decide (48 ≤ c.toNat) && decide (c.toNat ≤ 57)    -- '0'..'9'
def isAlnumA (c : Char) : Bool := isAlphaA c || isDigitA c

/-- OPERATOR_CHARS of lexer.py. -/
def isOperatorChar (c : Char) : Bool :=
  c == '→' || c == '⊕' || c == '⧺' || c == '⇌' || c == '∧' || c == '∨' || c == '§'

namespace Env
variable (env : Env)

/-- `_is_valid_identifier_start`. -/
def idStart (c : Char) : Bool :=
  if isAscii c then isAlphaA c || c == '_' || c == '.' || c == '/'
  else if isOperatorChar c then false else env.idStartU c

/-- `_is_valid_identifier_char`. -/
def idChar (c : Char) : Bool :=
  if isAscii c then isAlnumA c || c == '_' || c == '.' || c == '/' || c == '-'
  else if env.idStart c then true else env.idCharU c

/-- `\w` (Unicode str pattern). -/
def word (c : Char) : Bool := if isAscii c then isAlnumA c || c == '_' else env.wordU c

/-- `\d` (Unicode str pattern): digit value. -/
def digit? (c : Char) : Option Nat :=
  if isAscii c then (if isDigitA c then some (c.toNat - 48) else none) else env.digitU c
def isDigit (c : Char) : Bool := (env.digit? c).isSome

def isAlpha (c : Char) : Bool := if isAscii c then isAlphaA c else env.alphaU c
def isAlnum (c : Char) : Bool := if isAscii c then isAlnumA c else env.alnumU c
/-- `str.isspace` (ASCII: space, \t \n \v \f \r, and the separators 0x1c–0x1f). -/
def isSpace (c : Char) : Bool :=
  if isAscii c then c == ' ' || (9 ≤ c.toNat && c.toNat ≤ 13) || (28 ≤ c.toNat && c.toNat ≤ 31) else env.spaceU c

/-- `s.strip()`. -/
def lstrip (s : Str) : Str := s.dropWhile env.isSpace
def rstrip (s : Str) : Str := (s.reverse.dropWhile env.isSpace).reverse
def strip (s : Str) : Str := env.rstrip (env.lstrip s)

end Env

/-- `\b` between `prev` (char before the position, if any) and `next` (char at the position, if any). -/
def Env.boundary (env : Env) (prev next : Option Char) : Bool :=
  let w := fun (o : Option Char) => match o with | some c => env.word c | none => false
  w prev != w next

/-- `"\n".join(parts)` etc. -/
def joinWith (sep : Str) : List Str → Str
  | [] => []
  | [x] => x
  | x :: y :: xs => x ++ sep ++ joinWith sep (y :: xs)

/-- `s.split("\n")` (always at least one piece). -/
def splitLines : Str → List Str
  | [] => [[]]
  | c :: cs =>
    match splitLines cs with
    | [] => [[]]            -- unreachable
    | l :: ls => if c == '\n' then [] :: l :: ls else (c :: l) :: ls

def startsWith (p s : Str) : Bool := p.isPrefixOf s

/-- decimal rendering of a natural number (Python `str(int)` for n ≥ 0). -/
def natStr (n : Nat) : Str := Nat.toDigits 10 n
def intStr (i : Int) : Str := if i < 0 then '-' :: natStr i.natAbs else natStr i.natAbs

end Octave
