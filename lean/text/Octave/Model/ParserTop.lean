import Octave.Model.ParserDoc
/-!
`parse_meta_block`, `parse_document`, `_strip_yaml_frontmatter`, and the entry points
`parse`, `parse_with_warnings`, `parse_meta_only`.
-/
namespace Octave
namespace Parser

/-- inner loop of a nested META block; returns the nested dict. -/
def nestedMetaLoop (valueFuel : Nat) : Nat → Nat → Bool → List (Str × Value) → KeyPos → P (List (Str × Value))
  | 0, _, _, _, _ => throw .fuel
  | fuel + 1, nestedIndent, hasInd, acc, kp => do
    let t ← current
    if t.type == .eof || t.type == .envelopeEnd then pure acc
    else if t.type == .indent then
      let v := (match t.value with | .nat n => n | _ => 0)
      if v < nestedIndent then pure acc
      else let _ ← advance; nestedMetaLoop valueFuel fuel nestedIndent true acc kp
    else if t.type == .newline then
      let _ ← advance
      nestedMetaLoop valueFuel fuel nestedIndent false acc kp
    else if t.type == .comment then
      if nestedIndent > 0 && !hasInd then pure acc
      else let _ ← advance; nestedMetaLoop valueFuel fuel nestedIndent hasInd acc kp
    else if t.type == .identifier then
      if nestedIndent > 0 && !hasInd then pure acc
      else
        let key := pyStrVal t.value
        let _ ← advance
        if (← curType) == .assign then
          let _ ← advance
          let v ← parseValue valueFuel
          let kp' ← trackKey kp key t.line
          nestedMetaLoop valueFuel fuel nestedIndent hasInd (dictSet acc key v) kp'
        else nestedMetaLoop valueFuel fuel nestedIndent hasInd acc kp
    else pure acc

/-- main loop of `parse_meta_block`. -/
def metaLoop (valueFuel : Nat) : Nat → Nat → Bool → List (Str × MetaVal) → KeyPos → P (List (Str × MetaVal))
  | 0, _, _, _, _ => throw .fuel
  | fuel + 1, indentLevel, hasInd, acc, kp => do
    let t ← current
    if t.type == .eof || t.type == .envelopeEnd then pure acc
    else if t.type == .indent then
      let v := (match t.value with | .nat n => n | _ => 0)
      if v < indentLevel then pure acc
      else let _ ← advance; metaLoop valueFuel fuel indentLevel true acc kp
    else if t.type == .newline then
      let _ ← advance
      metaLoop valueFuel fuel indentLevel false acc kp
    else if t.type == .comment then
      if indentLevel > 0 && !hasInd then pure acc
      else let _ ← advance; metaLoop valueFuel fuel indentLevel hasInd acc kp
    else if t.type == .identifier then
      if indentLevel > 0 && !hasInd then pure acc
      else
        let key := pyStrVal t.value
        let _ ← advance
        let op ← curType
        if op == .assign then
          let _ ← advance
          let v ← parseValue valueFuel
          let kp' ← trackKey kp key t.line
          metaLoop valueFuel fuel indentLevel hasInd (dictSet acc key (.val v)) kp'
        else if op == .block then
          let _ ← advance
          skipWhitespace false
          let stNested ← get
          skipWhitespace
          let c0 ← current
          let hasNested := c0.type == .indent && (match c0.value with | .nat n => n | _ => 0) > indentLevel
          if !hasNested then set stNested
          let c ← current
          let nested ← (do
            if hasNested then
              let ni := (match c.value with | .nat n => n | _ => 0)
              let _ ← advance
              nestedMetaLoop valueFuel (← budget) ni true [] []
            else pure [] : P (List (Str × Value)))
          let kp' ← trackKey kp key t.line
          metaLoop valueFuel fuel indentLevel false (dictSet acc key (.dict nested)) kp'
        else metaLoop valueFuel fuel indentLevel hasInd acc kp
    else pure acc

/-- `parse_meta_block`. -/
def parseMetaBlock (valueFuel : Nat) : P (List (Str × MetaVal)) := do
  let _ ← expect .identifier
  let _ ← expect .block
  skipWhitespace
  let c ← current
  if c.type != .indent then return []
  let lvl := (match c.value with | .nat n => n | _ => 0)
  let _ ← advance
  metaLoop valueFuel ((← budget) * 2) lvl true [] []

/-- body loop of `parse_document`. -/
def docLoop (valueFuel : Nat) : Nat → List Str → List Node → KeyPos → P (List Node × List Str)
  | 0, _, _, _ => throw .fuel
  | fuel + 1, pending, sections, kp => do
    let t ← current
    if t.type == .envelopeEnd || t.type == .eof then pure (sections, pending)
    else if t.type == .indent then let _ ← advance; docLoop valueFuel fuel pending sections kp
    else if t.type == .comment then let _ ← advance; docLoop valueFuel fuel (pending ++ [pyStrVal t.value]) sections kp
    else if t.type == .newline then let _ ← advance; docLoop valueFuel fuel pending sections kp
    else
      match ← parseSection valueFuel pending with
      | some s =>
        let kp' ← (match nodeAssignKey? s with
          | some (k, line) => trackKey kp k line
          | none => pure kp : P KeyPos)
        docLoop valueFuel fuel [] (sections ++ [s]) kp'
      | none =>
        let t2 ← curType
        if !(t2 == .envelopeEnd || t2 == .eof) then let _ ← advance
        docLoop valueFuel fuel [] sections kp

/-- `parse_document`. -/
def parseDocument : P Document := do
  let n := 2 * (← budget) + 10
  let st0 ← get
  skipWhitespace
  let c0 ← current
  let atMeta := c0.type == .identifier && c0.value == .str "META".toList
  if !(c0.type == .grammarSentinel || c0.type == .envelopeStart) && !atMeta then
    -- no sentinel / envelope / META follows: `self.pos = start_pos`, comments stay for the body loop
    set st0
    skipWhitespace false
  let mut doc : Document := {}
  if (← curType) == .grammarSentinel then
    doc := { doc with grammarVersion := some (pyStrVal (← current).value) }
    let _ ← advance
    skipWhitespace
  if (← curType) == .envelopeStart then
    let t ← advance
    doc := { doc with name := pyStrVal t.value }
    skipWhitespace false
  let c ← current
  if c.type == .identifier && c.value == .str "META".toList then
    let m ← parseMetaBlock n
    doc := { doc with metaKv := m }
    skipWhitespace false
  if (← curType) == .separator then
    doc := { doc with hasSeparator := true }
    let _ ← advance
    skipWhitespace false
  let (sections, pending) ← docLoop n (2 * n) [] [] []
  doc := { doc with sections := sections, trailingComments := pending }
  if (← curType) == .envelopeEnd then
    let _ ← advance
  pure doc

/-- `_strip_yaml_frontmatter`. -/
def stripFrontmatter (env : Env) (content : Str) : Str × Option Str :=
  if !startsWith "---".toList content then (content, none)
  else
    let lines := splitLines content
    match lines with
    | [] => (content, none)
    | l0 :: rest =>
      if env.strip l0 != "---".toList then (content, none)
      else
        let rec find : List Str → Nat → Option Nat
          | [], _ => none
          | l :: ls, i => if env.strip l == "---".toList then some i else find ls (i + 1)
        match find rest 1 with
        | none => (content, none)
        | some i =>
          let fm := joinWith ['\n'] (lines.take i |>.drop 1)
          let padding := List.replicate (i + 1) '\n'
          (padding ++ joinWith ['\n'] (lines.drop (i + 1)), some fm)

def initState (env : Env) (toks : List Token) (strict : Bool) : PState :=
  { rest := toks, last := toks.getLast?.getD { type := .eof, value := .none, line := 1, col := 1 },
    strict := strict, alpha := env.isAlpha }

/-- `parse(content)` (strict structure). -/
def parse (env : Env) (content : Str) : Except Exc Document := do
  let (stripped, fm) := stripFrontmatter env content
  let (toks, _) ← Lexer.tokenize env stripped
  let (doc, _) ← parseDocument.run (initState env toks true)
  pure { doc with rawFrontmatter := fm }

/-- `parse_with_warnings(content)`: document, lexer repairs, parser warnings (in that order). -/
def parseWithWarnings (env : Env) (content : Str) : Except Exc (Document × List Repair × List Warning) := do
  let (stripped, fm) := stripFrontmatter env content
  let (toks, reps) ← Lexer.tokenize env stripped
  let (doc, st) ← parseDocument.run (initState env toks false)
  pure ({ doc with rawFrontmatter := fm }, reps, st.warnings.reverse)

/-- `parse_meta_only(content)`. -/
def parseMetaOnly (env : Env) (content : Str) : Except Exc (List (Str × MetaVal)) := do
  let (stripped, _) := stripFrontmatter env content
  let (toks, _) ← Lexer.tokenize env stripped
  let prog : P (List (Str × MetaVal)) := do
    skipWhitespace
    if (← curType) == .grammarSentinel then
      let _ ← advance
      skipWhitespace
    if (← curType) == .envelopeStart then
      let _ ← advance
      skipWhitespace
    let c ← current
    if c.type == .identifier && c.value == .str "META".toList then parseMetaBlock (2 * (← budget) + 10) else pure []
  let (m, _) ← prog.run (initState env toks false)
  pure m

end Parser
end Octave
