import Octave.Model.ParserTop
import Octave.Model.Emitter
/-! Canonicalisation as the tools and the API perform it. -/
namespace Octave

/-- `emit(parse_with_warnings(x)[0])` — the lenient canonicaliser (API, `octave_validate`, `octave_write`). -/
def canonLenient (env : Env) (x : Str) : Except Exc Str := do
  let (d, _, _) ← Parser.parseWithWarnings env x
  match Emitter.emit env d with
  | some c => pure c
  | none => throw (.py "ValueError".toList)

/-- `emit(parse(x))` — the strict canonicaliser (CLI `normalize`, re-reading canonical text). -/
def canonStrict (env : Env) (x : Str) : Except Exc Str := do
  let d ← Parser.parse env x
  match Emitter.emit env d with
  | some c => pure c
  | none => throw (.py "ValueError".toList)

/-- Boolean test `r = .ok c` (for closed `decide` checks). -/
def isOkStr (r : Except Exc Str) (c : Str) : Bool :=
  match r with | .ok x => x == c | .error _ => false

end Octave
