import Octave.Model.ParserValue
import Octave.Model.Lexer
/-!
`parse_section`, `parse_section_marker`, `parse_meta_block`, `parse_document`,
`_strip_yaml_frontmatter` and the entry points `parse`, `parse_with_warnings`, `parse_meta_only`.
-/
namespace Octave
namespace Parser

abbrev KeyPos := List (Str × List Nat)

/-- duplicate-key bookkeeping (`key_positions` dicts + `_emit_duplicate_key_warning`). -/
def trackKey (kp : KeyPos) (key : Str) (line : Nat) : P KeyPos := do
  match kp.lookup key with
  | some ls =>
    let all := ls ++ [line]
    warn (.duplicateKey key (all.headD 0) line all)
    pure (kp.map fun p => if p.1 == key then (key, all) else p)
  | none => pure (kp ++ [(key, [line])])

def nodeAssignKey? : Node → Option (Str × Nat)
  | .assign k _ line _ _ _ => some (k, line)
  | _ => none

def withLeading (n : Node) (lead : List Str) : Node :=
  match n with
  | .sect id k a ch l c _ => .sect id k a ch l c lead
  | other => other

/-- comments at column 0 between the section header and the first indented child. -/
def preIndentComments : Nat → List Str → P (List Str)
  | 0, _ => throw .fuel
  | fuel + 1, acc => do
    let t ← current
    if t.type == .comment then let _ ← advance; preIndentComments fuel (acc ++ [pyStrVal t.value])
    else if t.type == .newline then let _ ← advance; preIndentComments fuel acc
    else pure acc

/-- `_comment_belongs_to_outer_level`: scan from the cursor (a COMMENT) to the next non-comment line. -/
def scanOuter (childIndent : Nat) : List Token → Nat → Bool
  | [], _ => true
  | t :: ts, li =>
    if t.type == .comment then scanOuter childIndent ts li
    else if t.type == .newline then scanOuter childIndent ts 0
    else if t.type == .indent then scanOuter childIndent ts (match t.value with | .nat n => n | _ => 0)
    else li < childIndent

def commentBelongsOuter (lineIndent childIndent : Nat) : P Bool := do
  if lineIndent ≥ childIndent then return false
  return scanOuter childIndent (← get).rest lineIndent

mutual
/-- `parse_section(base_indent, leading_comments)`; `none` = Python `None`. -/
def parseSection : Nat → List Str → P (Option Node)
  | 0, _ => throw .fuel
  | fuel + 1, leading => do
    let t ← current
    if t.type == .section then
      let s ← parseSectionMarker fuel
      pure (some (if leading.isEmpty then s else withLeading s leading))
    else if t.type != .identifier then pure none
    else
      let key := pyStrVal t.value
      let _ ← advance
      let target ← (do if (← curType) == .listStart then parseBlockTarget (← budget) else pure none : P (Option Str))
      let op ← current
      if op.type == .assign || op.type == .flow then
        if op.type == .flow then warn (.bareFlow op.line op.col)
        let _ ← advance
        let quoted := (← curType) == .string
        let value ← parseValue fuel
        match value with
        | .str s =>
          if (key == "PATTERN".toList || key == "REGEX".toList) && !quoted then warn (.patternAutoquote key s t.line t.col)
        | _ => pure ()
        let trailing ← (do
          let c ← current
          if c.type == .comment then let _ ← advance; pure (some (pyStrVal c.value)) else pure none : P (Option Str))
        pure (some (.assign key value t.line t.col leading trailing))
      else if op.type == .block then
        let _ ← advance
        let nx ← current
        if nx.type == .identifier && nx.line == op.line then throw (parserError "E001" op)
        skipWhitespace false
        let stPre ← get
        let pre ← preIndentComments (← budget) []
        let c0 ← current
        let blockIndent := t.col - 1
        let hasIndented := c0.type == .indent && (match c0.value with | .nat n => n | _ => 0) > blockIndent
        if c0.type != .fenceOpen && !hasIndented then set stPre
        let c ← current
        let fenceChild : Option Nat := if c.type == .fenceOpen && c.col - 1 > blockIndent then some (c.col - 1) else none
        if c.type == .fenceOpen && fenceChild.isNone && c.col - 1 ≥ blockIndent then
          let z ← parseLiteralZone
          let c2 ← current
          pure (some (.block key [.assign [] z c2.line c2.col pre none] t.line t.col leading target))
        else if hasIndented || fenceChild.isSome then
          let childIndent ← (match fenceChild with
            | some fi => pure fi
            | none => do
              let _ ← advance
              pure (match c.value with | .nat n => n | _ => 0) : P Nat)
          let children ← blockLoop fuel childIndent childIndent pre [] []
          pure (some (.block key children t.line t.col leading target))
        else pure (some (.block key [] t.line t.col leading target))
      else
        warn (.bareLineDropped key t.line t.col)
        pure none

/-- the `while True` child loop of a Block. -/
def blockLoop : Nat → Nat → Nat → List Str → List Node → KeyPos → P (List Node)
  | 0, _, _, _, _, _ => throw .fuel
  | fuel + 1, childIndent, lineIndent, pending, children, kp => do
    let finish : List Node := children ++ pending.map Node.comment
    let t ← current
    if t.type == .eof || t.type == .envelopeEnd then pure finish
    else if t.type == .indent then
      let v := (match t.value with | .nat n => n | _ => 0)
      if v < childIndent then pure finish
      else let _ ← advance; blockLoop fuel childIndent v pending children kp
    else if t.type == .comment then
      if ← commentBelongsOuter lineIndent childIndent then pure finish
      else
        let _ ← advance
        blockLoop fuel childIndent lineIndent (pending ++ [pyStrVal t.value]) children kp
    else if t.type == .newline then
      let _ ← advance
      blockLoop fuel childIndent 0 pending children kp
    else if (if t.type == .fenceOpen then t.col - 1 else lineIndent) < childIndent then pure finish
    else if t.type == .fenceOpen then
      let z ← parseLiteralZone
      let c2 ← current
      blockLoop fuel childIndent 0 [] (children ++ [.assign [] z c2.line c2.col pending none]) kp
    else
      match ← parseSection fuel pending with
      | some child =>
        let kp' ← (match nodeAssignKey? child with
          | some (k, line) => trackKey kp k line
          | none => pure kp : P KeyPos)
        blockLoop fuel childIndent 0 [] (children ++ [child]) kp'
      | none =>
        let t2 ← curType
        if t2 == .newline || t2 == .indent || t2 == .comment then blockLoop fuel childIndent lineIndent [] children kp
        else pure children

/-- `parse_section_marker`. -/
def parseSectionMarker : Nat → P Node
  | 0 => throw .fuel
  | fuel + 1 => do
    let st0 ← get
    let sectionTok ← expect .section
    let idTok ← current
    let sectionId ← (do
      if idTok.type == .number then
        let _ ← advance
        let sfx ← current
        let isLetter : Bool := (match sfx.value with
          | .str [c] => sfx.type == .identifier && st0.alpha c
          | _ => false)
        if isLetter then
          let _ ← advance
          pure (pyStrVal idTok.value ++ pyStrVal sfx.value)
        else pure (pyStrVal idTok.value)
      else if idTok.type == .identifier then
        let _ ← advance
        pure (pyStrVal idTok.value)
      else throw (parserError "E006" idTok) : P Str)
    let a ← current
    if a.type != .assign then throw (parserError "E006" a)
    let _ ← advance
    let nameTok ← current
    let name ← (do
      if nameTok.type == .identifier then
        let _ ← advance
        pure (pyStrVal nameTok.value)
      else if nameTok.type == .newline || nameTok.type == .indent || nameTok.type == .listStart then pure sectionId
      else throw (parserError "E006" nameTok) : P Str)
    let annotation ← consumeBracketAnnotation true (← budget)
    skipWhitespace false
    let stPre ← get
    let pre ← preIndentComments (← budget) []
    let c ← current
    if c.type == .indent && (match c.value with | .nat n => n | _ => 0) > sectionTok.col - 1 then
      let childIndent := (match c.value with | .nat n => n | _ => 0)
      let _ ← advance
      let children ← sectionLoop fuel childIndent childIndent pre [] []
      pure (.sect sectionId name annotation children sectionTok.line sectionTok.col [])
    else
      -- no indented children: `self.pos = pre_indent_pos` (the comments stay with the enclosing level)
      set stPre
      pure (.sect sectionId name annotation [] sectionTok.line sectionTok.col [])

/-- the `while True` child loop of a Section. -/
def sectionLoop : Nat → Nat → Nat → List Str → List Node → KeyPos → P (List Node)
  | 0, _, _, _, _, _ => throw .fuel
  | fuel + 1, childIndent, lineIndent, pending, children, kp => do
    let finish : List Node := children ++ pending.map Node.comment
    let t ← current
    if t.type == .eof || t.type == .envelopeEnd then pure finish
    else if t.type == .indent then
      let v := (match t.value with | .nat n => n | _ => 0)
      if v < childIndent then pure finish
      else let _ ← advance; sectionLoop fuel childIndent v pending children kp
    else if t.type == .comment then
      if ← commentBelongsOuter lineIndent childIndent then pure finish
      else
        let _ ← advance
        sectionLoop fuel childIndent lineIndent (pending ++ [pyStrVal t.value]) children kp
    else if t.type == .section && lineIndent < childIndent then pure finish
    else if t.type == .newline then
      let _ ← advance
      sectionLoop fuel childIndent 0 pending children kp
    else if lineIndent < childIndent then pure finish
    else
      match ← parseSection fuel pending with
      | some child =>
        let kp' ← (match nodeAssignKey? child with
          | some (k, line) => trackKey kp k line
          | none => pure kp : P KeyPos)
        sectionLoop fuel childIndent 0 [] (children ++ [child]) kp'
      | none => pure children
end


end Parser
end Octave
