import Octave.Model.Token
/-! AST of `ast_nodes.py` as far as the reader and the emitter use it. -/
namespace Octave

/-- AST values.  `float` carries `repr(x)`; `holo` carries `raw_pattern` (what the emitter prints);
`obj` is any foreign Python object, carried as its `str()`. -/
inductive Value where
  | null
  | bool (b : Bool)
  | int (i : Int)
  | float (repr : Str)
  | str (s : Str)
  | list (items : List Value)
  | imap (pairs : List (Str × Value))
  | holo (raw : Str)
  | zone (content : Str) (tag : Option Str) (marker : Str)
  | absent
  deriving Repr, Inhabited

/-- value of a META entry: a value or one nested level of dict. -/
inductive MetaVal where
  | val (v : Value)
  | dict (kv : List (Str × Value))
  deriving Repr, Inhabited

inductive Node where
  | assign (key : Str) (value : Value) (line col : Nat) (leading : List Str) (trailing : Option Str)
  | block (key : Str) (children : List Node) (line col : Nat) (leading : List Str) (target : Option Str)
  | sect (id key : Str) (annotation : Option Str) (children : List Node) (line col : Nat) (leading : List Str)
  | comment (text : Str)
  deriving Repr, Inhabited

structure Document where
  name : Str := "INFERRED".toList
  metaKv : List (Str × MetaVal) := []
  hasSeparator : Bool := false
  sections : List Node := []
  grammarVersion : Option Str := none
  rawFrontmatter : Option Str := none
  trailingComments : List Str := []
  deriving Repr, Inhabited

/-- Python dict assignment `d[k] = v`: update in place (first position kept) or append. -/
def dictSet {α : Type} (d : List (Str × α)) (k : Str) (v : α) : List (Str × α) :=
  if d.any (fun p => p.1 == k) then d.map (fun p => if p.1 == k then (k, v) else p) else d ++ [(k, v)]

end Octave
