import Octave.Model.Ast
/-!
Executable model of `octave_mcp/core/emitter.py` with `format_options=None` (as every tool and the
API default call it): `needs_quotes`, `_needs_multiline`, `_emit_multiline_list`,
`_force_quote_inline_map_value`, `emit_value`, comments, `emit_assignment`, `emit_block`,
`emit_section`, `emit_meta`, `emit`.
-/
namespace Octave
namespace Emitter

/-! ### The quoting regexes (hand recognisers; `Props/Facts.lean` pins their source text) -/

def isIdentStartA (c : Char) : Bool := isAlphaA c || c == '_'
def isIdentBodyA (c : Char) : Bool := isAlnumA c || c == '_' || c == '.' || c == '-'

/-- `IDENTIFIER_PATTERN`: `^[A-Za-z_][A-Za-z0-9_.\-]*(?<!-)\Z`. -/
def isIdentifierText (s : Str) : Bool :=
  match s with
  | c :: cs => isIdentStartA c && cs.all isIdentBodyA && s.getLast? != some '-'
  | [] => false

def isVarChar (c : Char) : Bool := isAlnumA c || c == '_' || c == ':'
/-- `VARIABLE_PATTERN`: `^\$[A-Za-z0-9_:]+\Z`. -/
def isVariableText (s : Str) : Bool :=
  match s with
  | '$' :: c :: cs => isVarChar c && cs.all isVarChar
  | _ => false

/-- split at the first char satisfying `p`: (before, rest starting at that char). -/
def breakAt (p : Char → Bool) : Str → Str × Str
  | [] => ([], [])
  | c :: cs => if p c then ([], c :: cs) else let (a, b) := breakAt p cs; (c :: a, b)

def isQualBody (c : Char) : Bool := isAlnumA c || c == '_' || c == ','
def isQualEnd (c : Char) : Bool := isAlnumA c || c == '_'
/-- qualifier part `([A-Za-z_]([A-Za-z0-9_,]*[A-Za-z0-9_])?)?`. -/
def isQualifierText (q : Str) : Bool :=
  match q with
  | [] => true
  | c :: cs => isIdentStartA c && (cs.isEmpty || (cs.all isQualBody && (cs.getLast?.map isQualEnd).getD false))

/-- `ANNOTATION_PATTERN`: `^[A-Za-z_][A-Za-z0-9_.\-]*(?<!-)<(qualifier)?>\Z`. -/
def isAnnotationText (s : Str) : Bool :=
  let (name, r) := breakAt (· == '<') s
  match r with
  | '<' :: r1 =>
    isIdentifierText name &&
    (match r1.getLast? with
     | some '>' => isQualifierText r1.dropLast
     | _ => false)
  | _ => false

/-- `_UNICODE_OPS`. -/
def isUnicodeOp (c : Char) : Bool :=
  c == '⊕' || c == '⧺' || c == '⇌' || c == '∧' || c == '∨' || c == '→' || c == '@'

/-- split on every char satisfying `p` (like `re.split`, keeping empty pieces). -/
def splitOn (p : Char → Bool) : Str → List Str
  | [] => [[]]
  | c :: cs =>
    match splitOn p cs with
    | [] => [[]]
    | l :: ls => if p c then [] :: l :: ls else (c :: l) :: ls

/-- `EXPRESSION_PATTERN`: identifier segments joined by one or more single operator chars (≥ 2 segments). -/
def isExpressionText (s : Str) : Bool :=
  let segs := splitOn isUnicodeOp s
  segs.length ≥ 2 && segs.all isIdentifierText

def isWordA (c : Char) : Bool := isAlnumA c || c == '_'

/-- does `s` start with one of `true|false|null|vs` not followed by `[A-Za-z0-9_]`? -/
def reservedAt (s : Str) : Bool :=
  ["true".toList, "false".toList, "null".toList, "vs".toList].any fun w =>
    w.isPrefixOf s && !((s.drop w.length).head?.map isWordA).getD false

/-- `_RESERVED_PREFIX_PATTERN.search(value)`: a reserved word at the start of the value or right after
one of `_UNICODE_OPS`, followed by a non-word char or the end. -/
def reservedPrefixAux : Str → Bool
  | [] => false
  | c :: cs => (isUnicodeOp c && reservedAt cs) || reservedPrefixAux cs
def hasReservedPrefix (s : Str) : Bool := reservedAt s || reservedPrefixAux s

/-- `needs_quotes(value)` for a `str`. -/
def needsQuotes (s : Str) : Bool :=
  if s.isEmpty then true
  else if s.contains '\n' || s.contains '\t' || s.contains '\r' then true
  else if s == "true".toList || s == "false".toList || s == "null".toList || s == "vs".toList then true
  else if hasReservedPrefix s then true
  else if isVariableText s then false
  else if isAnnotationText s then false
  else if isExpressionText s then false
  else !isIdentifierText s

/-- `value.replace("\\","\\\\").replace('"','\\"').replace("\n","\\n").replace("\t","\\t")`
(the four passes commute because each pattern is one char and no replacement introduces a later pattern's char
except the backslash pass, which runs first). -/
def escape : Str → Str
  | [] => []
  | '\\' :: cs => '\\' :: '\\' :: escape cs
  | '"' :: cs => '\\' :: '"' :: escape cs
  | '\n' :: cs => '\\' :: 'n' :: escape cs
  | '\t' :: cs => '\\' :: 't' :: escape cs
  | c :: cs => c :: escape cs

def quoted (s : Str) : Str := '"' :: escape s ++ ['"']

def emitStr (s : Str) : Str := if needsQuotes s then quoted s else s

def indentStr (n : Nat) : Str := List.replicate (2 * n) ' '

/-- `str.isdigit()` on one char as far as section ids can contain it (ASCII digits; a section id comes from a
NUMBER token via `str(int)`/`repr(float)`, or from an identifier, which never starts with a digit). -/
def isDigitU (c : Char) : Bool := isDigitA c

def isAbsent : Value → Bool | .absent => true | _ => false
def isStr : Value → Bool | .str _ => true | _ => false

/-- `_ALWAYS_QUOTE_KEYS`. -/
def alwaysQuoteKey (k : Str) : Bool := k == "PATTERN".toList || k == "REGEX".toList

/-- `_force_quote_inline_map_value` / the same logic in `emit_assignment`. -/
def forceQuote (key : Str) (valueStr : Str) (raw : Value) : Str :=
  match raw with
  | .str s => if alwaysQuoteKey key && valueStr.head? != some '"' then quoted s else valueStr
  | _ => valueStr

def imapHasPresent (pairs : List (Str × Value)) : Bool := pairs.any fun p => !isAbsent p.2

/-- `_needs_multiline`. -/
def needsMultilineAux : List Value → Nat → Bool
  | [], n => n ≥ 3
  | v :: vs, n =>
    match v with
    | .absent => needsMultilineAux vs n
    | .imap pairs => if imapHasPresent pairs then true else needsMultilineAux vs n
    | .list _ => true
    | .str s => if isAnnotationText s then true else needsMultilineAux vs (n + 1)
    | _ => needsMultilineAux vs (n + 1)
def needsMultiline (items : List Value) : Bool := needsMultilineAux items 0

def zoneText (content : Str) (tag : Option Str) (marker : Str) : Str :=
  marker ++ (match tag with | some t => t | none => []) ++ ['\n'] ++ content
    ++ (if !content.isEmpty && content.getLast? != some '\n' then ['\n'] else []) ++ marker

/-- add trailing commas to all parts but the last, with the child indent. -/
def multilineLines (childIndent : Str) : List Str → List Str
  | [] => []
  | [p] => [childIndent ++ p]
  | p :: q :: ps => (childIndent ++ p ++ [',']) :: multilineLines childIndent (q :: ps)

mutual
/-- `emit_value(value, indent)`; `none` = `ValueError` (Absent passed directly). -/
def emitValue : Value → Nat → Option Str
  | .absent, _ => none
  | .null, _ => some "null".toList
  | .bool b, _ => some (if b then "true".toList else "false".toList)
  | .int i, _ => some (intStr i)
  | .float r, _ => some r
  | .str s, _ => some (emitStr s)
  | .list items, ind =>
    if items.isEmpty then some "[]".toList
    else if needsMultiline items then
      (emitMultiParts items ind).map fun parts =>
        if parts.isEmpty then "[]".toList
        else joinWith ['\n'] (['['] :: multilineLines (indentStr (ind + 1)) parts ++ [indentStr ind ++ [']']])
    else (emitFlatParts items ind).map fun parts => '[' :: joinWith [','] parts ++ [']']
  | .imap pairs, ind => (emitPairs pairs ind).map fun ps => '[' :: joinWith [','] ps ++ [']']
  | .holo raw, _ => some raw
  | .zone c t m, _ => some (zoneText c t m)
/-- parts of the multi-line layout (`_emit_multiline_list` loop). -/
def emitMultiParts : List Value → Nat → Option (List Str)
  | [], _ => some []
  | v :: vs, ind =>
    match v with
    | .absent => emitMultiParts vs ind
    | .imap pairs =>
      match emitPairs pairs (ind + 1), emitMultiParts vs ind with
      | some ps, some rest => some (if ps.isEmpty then rest else joinWith [','] ps :: rest)
      | _, _ => none
    | other =>
      match emitValue other (ind + 1), emitMultiParts vs ind with
      | some p, some rest => some (p :: rest)
      | _, _ => none
/-- parts of the single-line layout. -/
def emitFlatParts : List Value → Nat → Option (List Str)
  | [], _ => some []
  | v :: vs, ind =>
    match v with
    | .absent => emitFlatParts vs ind
    | .imap pairs =>
      if !imapHasPresent pairs then emitFlatParts vs ind
      else match emitValue (.imap pairs) ind, emitFlatParts vs ind with
        | some p, some rest => some (p :: rest)
        | _, _ => none
    | other =>
      match emitValue other ind, emitFlatParts vs ind with
      | some p, some rest => some (p :: rest)
      | _, _ => none
/-- `k::v` strings of an inline map, Absent values filtered, PATTERN/REGEX force-quoted. -/
def emitPairs : List (Str × Value) → Nat → Option (List Str)
  | [], _ => some []
  | (k, v) :: ps, ind =>
    match v with
    | .absent => emitPairs ps ind
    | other =>
      match emitValue other ind, emitPairs ps ind with
      | some vs, some rest => some ((k ++ "::".toList ++ forceQuote k vs other) :: rest)
      | _, _ => none
end

/-- `f"{indent}// {comment}".rstrip()` -/
def commentLine (env : Env) (ind : Nat) (c : Str) : Str := env.rstrip (indentStr ind ++ "// ".toList ++ c)

def leadingLines (env : Env) (comments : List Str) (ind : Nat) : List Str :=
  comments.map (commentLine env ind)

def fenceLines (ind : Nat) (content : Str) (tag : Option Str) (marker : Str) : List Str :=
  [indentStr ind ++ marker ++ (match tag with | some t => t | none => [])]
  ++ (if content.isEmpty then [] else [content]) ++ [indentStr ind ++ marker]

/-- `emit_assignment` as a list of lines (joined with "\n" by the callers). -/
def emitAssignment (env : Env) (key : Str) (value : Value) (ind : Nat) (leading : List Str) (trailing : Option Str) : Option (List Str) :=
  match value with
  | .zone c t m => some (leadingLines env leading ind ++ [indentStr ind ++ key ++ "::".toList] ++ fenceLines ind c t m)
  | v =>
    (emitValue v ind).map fun vs =>
      let vs' := forceQuote key vs v
      -- `_emit_trailing_comment`: `f" // {comment}".rstrip()` — an empty comment is kept as " //"
      let tr := match trailing with | some c => env.rstrip (" // ".toList ++ c) | none => []
      leadingLines env leading ind ++ [indentStr ind ++ key ++ "::".toList ++ vs' ++ tr]

mutual
/-- `emit_block` / `emit_section` / child dispatch, as lists of lines. -/
def emitNode (env : Env) : Node → Nat → Bool → Option (List Str)
  | .assign key value _ _ leading trailing, ind, inBlock =>
    match value with
    | .absent => some []
    | .zone c t m =>
      if inBlock && key.isEmpty then some (leadingLines env leading ind ++ fenceLines ind c t m)
      else emitAssignment env key value ind leading trailing
    | _ => emitAssignment env key value ind leading trailing
  | .block key children _ _ leading target, ind, _ =>
    (emitChildren env children (ind + 1) true).map fun cl =>
      leadingLines env leading ind
      ++ [indentStr ind ++ key ++ (match target with | some t => if t.isEmpty then [] else "[→§".toList ++ t ++ [']'] | none => []) ++ [':']]
      ++ cl
  | .sect id key ann children _ _ leading, ind, _ =>
    (emitChildren env children (ind + 1) false).map fun cl =>
      leadingLines env leading ind
      ++ [indentStr ind ++ ['§'] ++ id ++ "::".toList
          ++ (if key == id && (match key.head? with | some c => isDigitU c || c == '-' | none => false) then [] else key)
          ++ (match ann with | some a => if a.isEmpty then [] else '[' :: a ++ [']'] | none => [])]
      ++ cl
  | .comment text, ind, _ => some [commentLine env ind text]
def emitChildren (env : Env) : List Node → Nat → Bool → Option (List Str)
  | [], _, _ => some []
  | n :: ns, ind, inBlock =>
    match emitNode env n ind inBlock, emitChildren env ns ind inBlock with
    | some a, some b => some (a ++ b)
    | _, _ => none
end

/-- `emit_meta` as lines (empty list = nothing emitted). -/
def emitMetaNested : List (Str × Value) → Option (List Str)
  | [] => some []
  | (k, v) :: kvs =>
    match v with
    | .absent => emitMetaNested kvs
    | other =>
      match emitValue other 2, emitMetaNested kvs with
      | some vs, some rest => some ((indentStr 2 ++ k ++ "::".toList ++ vs) :: rest)
      | _, _ => none

def emitMetaLines : List (Str × MetaVal) → Option (List Str)
  | [] => some []
  | (k, mv) :: kvs =>
    match mv with
    | .val .absent => emitMetaLines kvs
    | .val v =>
      match emitValue v 1, emitMetaLines kvs with
      | some vs, some rest => some ((indentStr 1 ++ k ++ "::".toList ++ vs) :: rest)
      | _, _ => none
    | .dict kv =>
      match emitMetaNested kv, emitMetaLines kvs with
      | some inner, some rest => some ((indentStr 1 ++ k ++ [':']) :: inner ++ rest)
      | _, _ => none

/-- top-level nodes: only Assignment / Block / Section are emitted by `emit` (a top-level Comment is skipped). -/
def emitTop (env : Env) : List Node → Option (List Str)
  | [] => some []
  | n :: ns =>
    match n with
    | .comment _ => emitTop env ns
    | other =>
      match emitNode env other 0 false, emitTop env ns with
      | some a, some b => some (a ++ b)
      | _, _ => none

/-- `if not output.endswith("\n"): output += "\n"` -/
def finishText (out : Str) : Str := if out.getLast? == some '\n' then out else out ++ ['\n']

/-- the joined lines of `emit(doc)` before the final-newline step; `none` = the call raises. -/
def emitBody (env : Env) (d : Document) : Option Str := do
  let fm : List Str := match d.rawFrontmatter with
    | some f => if (env.strip f).isEmpty then [] else ["---".toList, f, "---".toList, []]
    | none => []
  let gv : List Str := match d.grammarVersion with
    | some v => if v.isEmpty then [] else ["OCTAVE::".toList ++ v]
    | none => []
  let metaLines ← emitMetaLines d.metaKv
  let metaPart : List Str :=
    -- `if doc.meta: meta_text = emit_meta(...); if meta_text: lines.append(meta_text)`
    if d.metaKv.isEmpty || metaLines.isEmpty then [] else [joinWith ['\n'] ("META:".toList :: metaLines)]
  let sep : List Str := if d.hasSeparator then ["---".toList] else []
  let body ← emitTop env d.sections
  let trailing := leadingLines env d.trailingComments 0
  pure (joinWith ['\n'] (fm ++ gv ++ ["===".toList ++ d.name ++ "===".toList] ++ metaPart ++ sep ++ body ++ trailing ++ ["===END===".toList]))

/-- `emit(doc)`; `none` = the call raises (`ValueError` for a directly nested Absent). -/
def emit (env : Env) (d : Document) : Option Str := (emitBody env d).map finishText

end Emitter
end Octave
