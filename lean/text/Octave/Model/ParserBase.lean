import Octave.Model.Ast
/-!
Parser state, token-cursor primitives and the bracket helpers of `parser.py`
(`current`, `peek`, `advance`, `expect`, `skip_whitespace`, `_peek_past_brackets_at`,
`_is_adjacent_bracket`, `_consume_bracket_annotation`, `_parse_block_target_annotation`,
`_token_to_str`).
-/
namespace Octave
namespace Parser

/-- entries of `Parser.warnings` (message texts not modelled). -/
inductive Warning where
  | duplicateKey (key : Str) (firstLine dupLine : Nat) (allLines : List Nat)
  | bareFlow (line col : Nat)
  | patternAutoquote (key value : Str) (line col : Nat)
  | bareLineDropped (original : Str) (line col : Nat)
  | multiWord (original : List Str) (result : Str) (context : Str) (line col : Nat)
  | sourceCompile (original : Str) (line col : Nat)
  | unclosedList (line col : Nat)
  | deepNesting (depth threshold line col : Nat)
  | nestedInlineMap (key : Str) (line col : Nat)
  | constructorMisuse (key value : Str) (line col : Nat)
  | constraintOutside (line col : Nat)
  | chainedTension (line col : Nat)
  deriving Repr, DecidableEq, Inhabited

structure PState where
  rest : List Token            -- tokens[pos:]
  prev : Option Token := none  -- tokens[pos-1]
  pos : Nat := 0
  last : Token                 -- tokens[-1]
  warnings : List Warning := []   -- reversed
  depth : Nat := 0             -- bracket_depth
  warned : List Nat := []      -- _deep_nesting_warned_at
  strict : Bool := false
  threshold : Nat := 5
  alpha : Char → Bool := isAlphaA   -- `str.isalpha` (from `Env`)

abbrev P := StateT PState (Except Exc)

def current : P Token := do
  let st ← get
  pure (match st.rest with | t :: _ => t | [] => st.last)

def curType : P TT := do return (← current).type

def peek (offset : Nat := 1) : P Token := do
  let st ← get
  pure (match st.rest.drop offset with | t :: _ => t | [] => st.last)

/-- `advance()`: consume and return the current token; clamps at the last token. -/
def advance : P Token := do
  let st ← get
  match st.rest with
  | t :: u :: r => set { st with rest := u :: r, prev := some t, pos := st.pos + 1 }; pure t
  | [t] => pure t
  | [] => pure st.last

def parserError (code : String) (tok : Token) : Exc := .parser code.toList tok.line tok.col

def expect (tt : TT) : P Token := do
  let t ← current
  if t.type != tt then throw (parserError "E001" t)
  advance

def warn (w : Warning) : P Unit := modify fun st => { st with warnings := w :: st.warnings }

def isExprOp (t : TT) : Bool :=
  t == .flow || t == .synthesis || t == .at_ || t == .concat || t == .tension || t == .constraint || t == .alternative

def isValueTok (t : TT) : Bool :=
  t == .identifier || t == .number || t == .version || t == .boolean || t == .null || t == .string || t == .variable

/-- Python `str(token.value)`. -/
def pyStrVal : TVal → Str
  | .none => "None".toList
  | .str s => s
  | .int i => intStr i
  | .float r => r
  | .bool b => if b then "True".toList else "False".toList
  | .nat n => natStr n
  | .fence m t => "{'fence_marker': '".toList ++ m ++ "', 'info_tag': ".toList
      ++ (match t with | some x => '\'' :: x ++ ['\''] | none => "None".toList) ++ ['}']

/-- `_token_to_str`. -/
def tokStr (t : Token) : Str :=
  match t.type, t.raw with
  | .number, some raw => raw
  | .boolean, _ => (match t.value with | .bool true => "true".toList | _ => "false".toList)
  | .null, _ => "null".toList
  | .string, _ => '"' :: pyStrVal t.value ++ ['"']
  | _, _ => pyStrVal t.value

/-- `skip_whitespace(skip_comments)`. -/
def skipWs (skipComments : Bool := true) : Nat → P Unit
  | 0 => throw .fuel
  | fuel + 1 => do
    let t ← curType
    if t == .newline || (skipComments && t == .comment) then
      let st ← get
      -- advance() at the clamped end does not move: the Python loop would spin only on a NEWLINE/COMMENT
      -- that is the last token, which cannot happen (the last token is EOF)
      let _ ← advance
      if st.rest.length ≤ 1 then throw .fuel
      skipWs skipComments fuel
    else pure ()

/-- scan for the token after the matching `]` (`depth` open brackets so far). -/
def afterGroup : List Token → Nat → TT
  | [], _ => .eof
  | x :: xs, d =>
    if d == 0 then x.type
    else if x.type == .listStart then afterGroup xs (d + 1)
    else if x.type == .listEnd then afterGroup xs (d - 1)
    else afterGroup xs d

/-- `_peek_past_brackets_at(i)` on `toks = tokens[i:]`. -/
def typeAfterGroup (toks : List Token) : TT :=
  match toks with
  | [] => .eof
  | t :: r => if t.type != .listStart then t.type else afterGroup r 1

/-- `_peek_past_brackets_at(self.pos + k)`. -/
def peekPastBrackets (k : Nat) : P TT := do
  let st ← get
  pure (typeAfterGroup (st.rest.drop k))

/-- raw text length of the previous token as `_is_adjacent_bracket` computes it. -/
def prevLen (t : Token) : Nat :=
  match t.type, t.raw with
  | .number, some raw => raw.length
  | .boolean, _ => (match t.value with | .bool true => 4 | _ => 5)
  | .null, _ => 4
  | .string, _ => (pyStrVal t.value).length + 2
  | _, _ => (pyStrVal t.value).length

/-- `_is_adjacent_bracket`. -/
def isAdjacentBracket : P Bool := do
  let st ← get
  let cur ← current
  match st.prev with
  | none => pure false
  | some p => pure (p.line == cur.line && p.col + prevLen p == cur.col)

/-- body of the bracket loops: consumes up to and including the matching `]` (or stops at EOF);
returns captured pieces (reversed). -/
def bracketLoop (capture : Bool) : Nat → Nat → List Str → P (List Str)
  | 0, _, _ => throw .fuel
  | fuel + 1, depth, acc => do
    let t ← current
    if depth == 0 || t.type == .eof then pure acc
    else
      let (depth', acc') :=
        if t.type == .listStart then (depth + 1, if capture then "[".toList :: acc else acc)
        else if t.type == .listEnd then (depth - 1, if capture && depth - 1 > 0 then "]".toList :: acc else acc)
        else if t.type == .comma then (depth, if capture then ",".toList :: acc else acc)
        else if t.type == .comment || t.type == .newline || t.type == .indent then (depth, acc)
        else (depth, if capture then tokStr t :: acc else acc)
      let _ ← advance
      bracketLoop capture fuel depth' acc'

/-- `_consume_bracket_annotation(capture)`: `none` when no bracket / not capturing. -/
def consumeBracketAnnotation (capture : Bool) (fuel : Nat) : P (Option Str) := do
  if (← curType) != .listStart then return none
  let _ ← advance
  let acc ← bracketLoop capture fuel 1 []
  if capture then pure (some (acc.reverse.flatten)) else pure none

/-- `_parse_block_target_annotation`. -/
def parseBlockTarget (fuel : Nat) : P (Option Str) := do
  if (← curType) != .listStart then return none
  let _ ← advance
  if (← curType) != .flow then
    let _ ← bracketLoop false fuel 1 []
    return none
  let _ ← advance
  let mut target : Option Str := none
  if (← curType) == .section then
    let _ ← advance
    if (← curType) == .identifier then
      target := some (pyStrVal (← current).value)
      let _ ← advance
  else if (← curType) == .identifier then
    target := some (pyStrVal (← current).value)
    let _ ← advance
  if (← curType) == .listEnd then
    let _ ← advance
  pure target

end Parser
end Octave
