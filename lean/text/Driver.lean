/-
JSON-lines driver of the text engine (one request per line on stdin, one reply per line on stdout).
Ops: tokenize, needs_quotes, emit_value, ... (see `handle`).  The per-case `env` object carries
every external value (Unicode classes, NFC, float reprs) the harness obtained from CPython.
-/
import Lean.Data.Json
import Octave.Model.Lexer
open Lean Octave

def S (s : Str) : Json := Json.str (String.ofList s)

def envOfJson (j : Json) : Env :=
  let cls : List (Char × String) := match j.getObjVal? "cls" with
    | .ok (.obj kvs) => kvs.toList.filterMap fun (k, v) => match k.toList, v with
        | [c], .str f => some (c, f) | _, _ => none
    | _ => []
  let dig : List (Char × Nat) := match j.getObjVal? "dig" with
    | .ok (.obj kvs) => kvs.toList.filterMap fun (k, v) => match k.toList, v.getNat? with
        | [c], .ok n => some (c, n) | _, _ => none
    | _ => []
  let strMap (key : String) : List (Str × Str) := match j.getObjVal? key with
    | .ok (.obj kvs) => kvs.toList.filterMap fun (k, v) => match v with
        | .str f => some (k.toList, f.toList) | _ => none
    | _ => []
  let nfcM := strMap "nfc"
  let flM := strMap "fl"
  let flag (f : Char) (c : Char) : Bool := match cls.lookup c with | some s => s.toList.contains f | none => false
  { nfc := fun l => (nfcM.lookup l).getD l
    idStartU := flag 'S', idCharU := flag 'C', wordU := flag 'W'
    digitU := fun c => dig.lookup c
    alphaU := flag 'A', alnumU := flag 'N', spaceU := flag 'P'
    floatRepr := fun l => (flM.lookup l).getD ("?".toList ++ l) }

def ttName : TT → String
  | .grammarSentinel => "GRAMMAR_SENTINEL" | .version => "VERSION" | .variable => "VARIABLE" | .assign => "ASSIGN"
  | .block => "BLOCK" | .listStart => "LIST_START" | .listEnd => "LIST_END" | .concat => "CONCAT" | .at_ => "AT"
  | .synthesis => "SYNTHESIS" | .tension => "TENSION" | .constraint => "CONSTRAINT" | .alternative => "ALTERNATIVE"
  | .flow => "FLOW" | .section => "SECTION" | .comment => "COMMENT" | .envelopeStart => "ENVELOPE_START"
  | .envelopeEnd => "ENVELOPE_END" | .string => "STRING" | .number => "NUMBER" | .boolean => "BOOLEAN" | .null => "NULL"
  | .identifier => "IDENTIFIER" | .comma => "COMMA" | .newline => "NEWLINE" | .indent => "INDENT"
  | .separator => "SEPARATOR" | .eof => "EOF" | .fenceOpen => "FENCE_OPEN" | .fenceClose => "FENCE_CLOSE"
  | .literalContent => "LITERAL_CONTENT"

def optS : Option Str → Json | some s => S s | none => Json.null

def tvalJson : TVal → Json
  | .none => Json.null
  | .str s => Json.mkObj [("s", S s)]
  | .int i => Json.mkObj [("i", toString i)]
  | .float r => Json.mkObj [("f", S r)]
  | .bool b => Json.bool b
  | .nat n => Json.mkObj [("n", n)]
  | .fence m t => Json.mkObj [("marker", S m), ("tag", optS t)]

def tokenJson (t : Token) : Json :=
  Json.arr #[ttName t.type, tvalJson t.value, t.line, t.col, optS t.normFrom, optS t.raw]

def repairJson : Repair → Json
  | .normalization o n l c => Json.arr #["normalization", S o, tvalJson n, l, c]
  | .wrongCase o k l c => Json.arr #["wrong_case", S o, S k, l, c]
  | .boundaryMissing o l c => Json.arr #["boundary_missing", S o, l, c]
  | .curlyBrace o r l c => Json.arr #["curly_brace_annotation", S o, S r, l, c]

def excJson : Exc → Json
  | .lexer code l c => Json.arr #["LexerError", S code, l, c]
  | .parser code l c => Json.arr #["ParserError", S code, l, c]
  | .py cls => Json.arr #[S cls]
  | .fuel => Json.arr #["MODEL_OUT_OF_FUEL"]

def handle (j : Json) : Json :=
  let env := envOfJson ((j.getObjVal? "env").toOption.getD (Json.mkObj []))
  let str (k : String) : Str := ((j.getObjValAs? String k).toOption.getD "").toList
  let flag (k : String) : Bool := (j.getObjValAs? Bool k).toOption.getD false
  match j.getObjValAs? String "op" with
  | .ok "tokenize" =>
    match Lexer.tokenize env (str "s") (flag "lenient") with
    | .ok (toks, reps) => Json.mkObj [("tokens", Json.arr (toks.map tokenJson).toArray), ("repairs", Json.arr (reps.map repairJson).toArray)]
    | .error e => Json.mkObj [("err", excJson e)]
  | _ => Json.mkObj [("unsupported", "op")]

partial def loop (h : IO.FS.Stream) (out : IO.FS.Stream) : IO Unit := do
  let line ← h.getLine
  if line.isEmpty then return ()
  let reply := match Json.parse line with
    | .ok j => handle j
    | .error e => Json.mkObj [("unsupported", s!"json: {e}")]
  out.putStrLn reply.compress
  loop h out

def main : IO Unit := do
  let out ← IO.getStdout
  loop (← IO.getStdin) out
  out.flush
