/-
JSON-lines driver of the text engine (one request per line on stdin, one reply per line on stdout).
Ops: tokenize, needs_quotes, emit_value, ... (see `handle`).  The per-case `env` object carries
every external value (Unicode classes, NFC, float reprs) the harness obtained from CPython.
-/
import Lean.Data.Json
import Octave.Model.ParserTop
import Octave.Model.Emitter
open Lean Octave

def S (s : Str) : Json := Json.str (String.ofList s)

def envOfJson (j : Json) : Env :=
  let cls : List (Char × String) := match j.getObjVal? "cls" with
    | .ok (.obj kvs) => kvs.toList.filterMap fun (k, v) => match k.toList, v with
        | [c], .str f => some (c, f) | _, _ => none
    | _ => []
  let dig : List (Char × Nat) := match j.getObjVal? "dig" with
    | .ok (.obj kvs) => kvs.toList.filterMap fun (k, v) => match k.toList, v.getNat? with
        | [c], .ok n => some (c, n) | _, _ => none
    | _ => []
  let strMap (key : String) : List (Str × Str) := match j.getObjVal? key with
    | .ok (.obj kvs) => kvs.toList.filterMap fun (k, v) => match v with
        | .str f => some (k.toList, f.toList) | _ => none
    | _ => []
  let nfcM := strMap "nfc"
  let flM := strMap "fl"
  let flag (f : Char) (c : Char) : Bool := match cls.lookup c with | some s => s.toList.contains f | none => false
  { nfc := fun l => (nfcM.lookup l).getD l
    idStartU := flag 'S', idCharU := flag 'C', wordU := flag 'W'
    digitU := fun c => dig.lookup c
    alphaU := flag 'A', alnumU := flag 'N', spaceU := flag 'P'
    floatRepr := fun l => (flM.lookup l).getD ("?".toList ++ l) }

def ttName : TT → String
  | .grammarSentinel => "GRAMMAR_SENTINEL" | .version => "VERSION" | .variable => "VARIABLE" | .assign => "ASSIGN"
  | .block => "BLOCK" | .listStart => "LIST_START" | .listEnd => "LIST_END" | .concat => "CONCAT" | .at_ => "AT"
  | .synthesis => "SYNTHESIS" | .tension => "TENSION" | .constraint => "CONSTRAINT" | .alternative => "ALTERNATIVE"
  | .flow => "FLOW" | .section => "SECTION" | .comment => "COMMENT" | .envelopeStart => "ENVELOPE_START"
  | .envelopeEnd => "ENVELOPE_END" | .string => "STRING" | .number => "NUMBER" | .boolean => "BOOLEAN" | .null => "NULL"
  | .identifier => "IDENTIFIER" | .comma => "COMMA" | .newline => "NEWLINE" | .indent => "INDENT"
  | .separator => "SEPARATOR" | .eof => "EOF" | .fenceOpen => "FENCE_OPEN" | .fenceClose => "FENCE_CLOSE"
  | .literalContent => "LITERAL_CONTENT"

def optS : Option Str → Json | some s => S s | none => Json.null

def tvalJson : TVal → Json
  | .none => Json.null
  | .str s => Json.mkObj [("s", S s)]
  | .int i => Json.mkObj [("i", toString i)]
  | .float r => Json.mkObj [("f", S r)]
  | .bool b => Json.bool b
  | .nat n => Json.mkObj [("n", n)]
  | .fence m t => Json.mkObj [("marker", S m), ("tag", optS t)]

def tokenJson (t : Token) : Json :=
  Json.arr #[ttName t.type, tvalJson t.value, t.line, t.col, optS t.normFrom, optS t.raw]

def repairJson : Repair → Json
  | .normalization o n l c => Json.arr #["normalization", S o, tvalJson n, l, c]
  | .wrongCase o k l c => Json.arr #["wrong_case", S o, S k, l, c]
  | .boundaryMissing o l c => Json.arr #["boundary_missing", S o, l, c]
  | .curlyBrace o r l c => Json.arr #["curly_brace_annotation", S o, S r, l, c]

def excJson : Exc → Json
  | .lexer code l c => Json.arr #["LexerError", S code, l, c]
  | .parser code l c => Json.arr #["ParserError", S code, l, c]
  | .py cls => Json.arr #[S cls]
  | .unsupported w => Json.arr #["MODEL_UNSUPPORTED", S w]
  | .fuel => Json.arr #["MODEL_OUT_OF_FUEL"]

/-! ### AST <-> JSON -/

def optJ : Option Str → Json | some s => S s | none => Json.null

partial def valueJson : Value → Json
  | .null => Json.null
  | .bool b => Json.bool b
  | .int i => Json.mkObj [("i", toString i)]
  | .float r => Json.mkObj [("f", S r)]
  | .str s => Json.mkObj [("s", S s)]
  | .list items => Json.mkObj [("l", Json.arr (items.map valueJson).toArray)]
  | .imap pairs => Json.mkObj [("m", Json.arr (pairs.map fun (k, v) => Json.arr #[S k, valueJson v]).toArray)]
  | .holo raw => Json.mkObj [("h", S raw)]
  | .zone c t m => Json.mkObj [("z", Json.mkObj [("c", S c), ("t", optJ t), ("m", S m)])]
  | .absent => Json.mkObj [("absent", true)]

partial def nodeJson : Node → Json
  | .assign k v l c lead tr => Json.mkObj [("a", Json.mkObj [("k", S k), ("v", valueJson v), ("ln", l), ("col", c),
      ("lead", Json.arr (lead.map S).toArray), ("trail", optJ tr)])]
  | .block k ch l c lead tg => Json.mkObj [("b", Json.mkObj [("k", S k), ("ch", Json.arr (ch.map nodeJson).toArray), ("ln", l), ("col", c),
      ("lead", Json.arr (lead.map S).toArray), ("target", optJ tg)])]
  | .sect id k ann ch l c lead => Json.mkObj [("sec", Json.mkObj [("id", S id), ("k", S k), ("ann", optJ ann),
      ("ch", Json.arr (ch.map nodeJson).toArray), ("ln", l), ("col", c), ("lead", Json.arr (lead.map S).toArray)])]
  | .comment t => Json.mkObj [("c", S t)]

def metaValJson : MetaVal → Json
  | .val v => Json.mkObj [("v", valueJson v)]
  | .dict kv => Json.mkObj [("d", Json.arr (kv.map fun (k, v) => Json.arr #[S k, valueJson v]).toArray)]

def metaJson (m : List (Str × MetaVal)) : Json := Json.arr (m.map fun (k, v) => Json.arr #[S k, metaValJson v]).toArray

def docJson (d : Document) : Json :=
  Json.mkObj [("name", S d.name), ("meta", metaJson d.metaKv), ("sep", d.hasSeparator),
    ("sections", Json.arr (d.sections.map nodeJson).toArray), ("gv", optJ d.grammarVersion),
    ("fm", optJ d.rawFrontmatter), ("trailing", Json.arr (d.trailingComments.map S).toArray)]

def strOf (j : Json) : Str := match j with | .str s => s.toList | _ => []
def optStrOf (j : Json) : Option Str := match j with | .str s => some s.toList | _ => none
def fieldJ (j : Json) (k : String) : Json := (j.getObjVal? k).toOption.getD Json.null
def arrOf (j : Json) : List Json := match j with | .arr a => a.toList | _ => []
def natOf (j : Json) : Nat := (j.getNat?).toOption.getD 0

partial def valueOfJson (j : Json) : Value :=
  match j with
  | .null => .null
  | .bool b => .bool b
  | _ =>
    if let .ok (.str s) := j.getObjVal? "s" then .str s.toList
    else if let .ok (.str i) := j.getObjVal? "i" then .int (i.toInt?.getD 0)
    else if let .ok (.str f) := j.getObjVal? "f" then .float f.toList
    else if let .ok (.arr xs) := j.getObjVal? "l" then .list (xs.toList.map valueOfJson)
    else if let .ok (.arr xs) := j.getObjVal? "m" then .imap (xs.toList.map fun p => match p with
      | .arr #[k, v] => (strOf k, valueOfJson v) | _ => ([], .null))
    else if let .ok (.str h) := j.getObjVal? "h" then .holo h.toList
    else if let .ok z := j.getObjVal? "z" then .zone (strOf (fieldJ z "c")) (optStrOf (fieldJ z "t")) (strOf (fieldJ z "m"))
    else .absent

partial def nodeOfJson (j : Json) : Node :=
  if let .ok a := j.getObjVal? "a" then
    .assign (strOf (fieldJ a "k")) (valueOfJson (fieldJ a "v")) (natOf (fieldJ a "ln")) (natOf (fieldJ a "col"))
      ((arrOf (fieldJ a "lead")).map strOf) (optStrOf (fieldJ a "trail"))
  else if let .ok b := j.getObjVal? "b" then
    .block (strOf (fieldJ b "k")) ((arrOf (fieldJ b "ch")).map nodeOfJson) (natOf (fieldJ b "ln")) (natOf (fieldJ b "col"))
      ((arrOf (fieldJ b "lead")).map strOf) (optStrOf (fieldJ b "target"))
  else if let .ok s := j.getObjVal? "sec" then
    .sect (strOf (fieldJ s "id")) (strOf (fieldJ s "k")) (optStrOf (fieldJ s "ann")) ((arrOf (fieldJ s "ch")).map nodeOfJson)
      (natOf (fieldJ s "ln")) (natOf (fieldJ s "col")) ((arrOf (fieldJ s "lead")).map strOf)
  else .comment (strOf (fieldJ j "c"))

def metaOfJson (j : Json) : List (Str × MetaVal) :=
  (arrOf j).map fun p => match p with
    | .arr #[k, mv] =>
      if let .ok v := mv.getObjVal? "v" then (strOf k, MetaVal.val (valueOfJson v))
      else (strOf k, MetaVal.dict ((arrOf (fieldJ mv "d")).map fun q => match q with
        | .arr #[k2, v2] => (strOf k2, valueOfJson v2) | _ => ([], .null)))
    | _ => ([], MetaVal.val .null)

def docOfJson (j : Json) : Document :=
  { name := strOf (fieldJ j "name"), metaKv := metaOfJson (fieldJ j "meta"),
    hasSeparator := (fieldJ j "sep" == Json.bool true), sections := (arrOf (fieldJ j "sections")).map nodeOfJson,
    grammarVersion := optStrOf (fieldJ j "gv"), rawFrontmatter := optStrOf (fieldJ j "fm"),
    trailingComments := (arrOf (fieldJ j "trailing")).map strOf }

open Parser in
def warningJson : Warning → Json
  | .duplicateKey k f d all => Json.arr #["duplicate_key", S k, f, d, Json.arr (all.map fun (n : Nat) => (n : Json)).toArray]
  | .bareFlow l c => Json.arr #["bare_flow", l, c]
  | .patternAutoquote k v l c => Json.arr #["pattern_autoquote", S k, S v, l, c]
  | .bareLineDropped o l c => Json.arr #["bare_line_dropped", S o, l, c]
  | .multiWord o r ctx l c => Json.arr #["multi_word_coalesce", Json.arr (o.map S).toArray, S r, S ctx, l, c]
  | .sourceCompile o l c => Json.arr #["source_compile_value", S o, l, c]
  | .unclosedList l c => Json.arr #["unclosed_list", l, c]
  | .deepNesting d t l c => Json.arr #["deep_nesting", d, t, l, c]
  | .nestedInlineMap k l c => Json.arr #["nested_inline_map", S k, l, c]
  | .constructorMisuse k v l c => Json.arr #["constructor_misuse", S k, S v, l, c]
  | .constraintOutside l c => Json.arr #["constraint_outside_brackets", l, c]
  | .chainedTension l c => Json.arr #["chained_tension", l, c]

def errJ (e : Exc) : Json := Json.mkObj [("err", excJson e)]

def handle (j : Json) : Json :=
  let env := envOfJson ((j.getObjVal? "env").toOption.getD (Json.mkObj []))
  let str (k : String) : Str := ((j.getObjValAs? String k).toOption.getD "").toList
  let flag (k : String) : Bool := (j.getObjValAs? Bool k).toOption.getD false
  match j.getObjValAs? String "op" with
  | .ok "tokenize" =>
    match Lexer.tokenize env (str "s") (flag "lenient") with
    | .ok (toks, reps) => Json.mkObj [("tokens", Json.arr (toks.map tokenJson).toArray), ("repairs", Json.arr (reps.map repairJson).toArray)]
    | .error e => errJ e
  | .ok "parse" =>
    match Parser.parse env (str "s") with
    | .ok d => Json.mkObj [("doc", docJson d)]
    | .error e => errJ e
  | .ok "parse_warn" =>
    match Parser.parseWithWarnings env (str "s") with
    | .ok (d, reps, ws) => Json.mkObj [("doc", docJson d), ("repairs", Json.arr (reps.map repairJson).toArray),
        ("warnings", Json.arr (ws.map warningJson).toArray)]
    | .error e => errJ e
  | .ok "parse_meta_only" =>
    match Parser.parseMetaOnly env (str "s") with
    | .ok m => Json.mkObj [("meta", metaJson m)]
    | .error e => errJ e
  | .ok "emit" =>
    match Emitter.emit env (docOfJson (fieldJ j "doc")) with
    | some t => Json.mkObj [("text", S t)]
    | none => Json.mkObj [("err", Json.arr #["ValueError"])]
  | .ok "needs_quotes" => Json.mkObj [("r", Emitter.needsQuotes (str "s"))]
  | .ok "emit_value" =>
    match Emitter.emitValue (valueOfJson (fieldJ j "v")) (natOf (fieldJ j "indent")) with
    | some t => Json.mkObj [("text", S t)]
    | none => Json.mkObj [("err", Json.arr #["ValueError"])]
  | .ok "canon" =>
    -- emit(parse_with_warnings(s)[0]) and the strict re-read + re-emit of that text
    match Parser.parseWithWarnings env (str "s") with
    | .error e => errJ e
    | .ok (d, _, _) =>
      match Emitter.emit env d with
      | none => Json.mkObj [("err", Json.arr #["ValueError"])]
      | some c1 => Json.mkObj [("text", S c1)]
  | _ => Json.mkObj [("unsupported", "op")]

partial def loop (h : IO.FS.Stream) (out : IO.FS.Stream) : IO Unit := do
  let line ← h.getLine
  if line.isEmpty then return ()
  let reply := match Json.parse line with
    | .ok j => handle j
    | .error e => Json.mkObj [("unsupported", s!"json: {e}")]
  out.putStrLn reply.compress
  loop h out

def main : IO Unit := do
  let out ← IO.getStdout
  loop (← IO.getStdin) out
  out.flush
