/-
C19, fuel adequacy (the open proof target of notes/C19.md): the fuel argument of the model's two path walkers
(`rpWalk` = `posixpath.realpath`, `kWalk` = the kernel's walk) never decides anything.

  * monotone: an answer other than `fuel` obtained at fuel `n` is THE answer at every `m ≥ n`
    (`C19_fuel_walk_monotone`, `C19_fuel_validate_monotone`);
  * adequate: when the symlinks of the file system are listed in a finite table `L` (`FuelLinks fs L`; for the
    driver's `Fs.ofList l` the table is `fuelLinksOf l`, `C19_fuel_ofList`), the closed-form, computable bounds
        `fuelBound  L parts = |parts| + 1 + Σ_{(p,t) ∈ L} (|t.split('/')| + 1)`                    (one walk)
        `fuelBoundR L parts = maxdepth(L) + |parts| + 2·Σ_{(p,t) ∈ L} (|t.split('/')| + 1) + 1`     (`Path.resolve()` and the validators)
    are enough: no walk, probe or validator answers `fuel` at or above them (`C19_fuel_walk_adequate`,
    `C19_fuel_probes_adequate`, `C19_fuel_resolve_adequate`, `C19_fuel_validate_adequate`);
  * hence the verdict at the bound is the verdict at every larger fuel (`C19_fuel_walk_exact`,
    `C19_fuel_validate_exact`), in particular at the driver's 100000 whenever the bound is ≤ 100000
    (`C19_fuel_driver`).

Why a table: `Fs` is a function, and on a file system with infinitely many links (`x -> d/x` in every directory
`d/d/…/d`) the kernel walk of `/x` is out of fuel at EVERY fuel (`C19_fuel_needs_finite_links`), so no bound can
exist without a finiteness hypothesis.  Nothing else is assumed (no well-formedness of the tree).

The measure: fuel is a depth bound (the sub-walk of a link target and the continuation behind the link run with
the same remaining fuel); every step consumes one component; expanding a link pushes it on the `vis` stack, and a
link on the stack is never expanded again (loop exit), so the total weight of the links NOT on the stack drops
by the weight of the link whose target is pushed.  The model has no 40-link limit (ELOOP only on a genuine cycle),
so the bound is in terms of the table alone.
-/
import Octave.Lemmas.Fuel
import Octave.Props.C19
namespace Octave.C19
open Octave List

/-! ## monotonicity -/

/-- Both walkers, any start path / stack: a non-`fuel` answer at `n` is the answer at every `m ≥ n`. -/
theorem C19_fuel_walk_monotone (fs : Fs) {n m : Nat} (hm : n ≤ m) (cur parts : List Str) (vis : List (List Str)) :
    (kWalk fs n cur parts vis ≠ .fuel → kWalk fs m cur parts vis = kWalk fs n cur parts vis) ∧
    (rpWalk fs n cur parts vis ≠ .fuel → rpWalk fs m cur parts vis = rpWalk fs n cur parts vis) :=
  ⟨fuel_kWalk_mono fs n cur parts vis m hm, fuel_rpWalk_mono fs n cur parts vis m hm⟩

/-- Every probe built on the walkers is monotone in the same sense. -/
theorem C19_fuel_probes_monotone (fs : Fs) {n m : Nat} (hm : n ≤ m) (parts : List Str) (useExists : Bool) :
    (pyExists fs n parts ≠ .error .fuel → pyExists fs m parts = pyExists fs n parts) ∧
    (pyIsSymlink fs n parts ≠ .error .fuel → pyIsSymlink fs m parts = pyIsSymlink fs n parts) ∧
    (statProbe fs n parts ≠ .error .fuel → statProbe fs m parts = statProbe fs n parts) ∧
    (pyResolve fs n parts ≠ .error .fuel → pyResolve fs m parts = pyResolve fs n parts) ∧
    (linkTest fs n useExists parts ≠ .error .fuel → linkTest fs m useExists parts = linkTest fs n useExists parts) :=
  ⟨fuel_pyExists_mono hm, fuel_pyIsSymlink_mono hm, fuel_statProbe_mono hm, fuel_pyResolve_mono hm, fuel_linkTest_mono hm⟩

/-- The validators (every shape of the walk, every stage order), the component walk and the re-check. -/
theorem C19_fuel_validate_monotone (fs : Fs) {n m : Nat} (hm : n ≤ m) (cfg : WalkCfg) (ex : Exempt) (allowed : List Str)
    (cwd : List Str) (s : Str) (order : List Stage) (pre rest : List Str) (useExists : Bool) :
    (validatePath fs n cfg ex allowed cwd s order ≠ .error .fuel →
      validatePath fs m cfg ex allowed cwd s order = validatePath fs n cfg ex allowed cwd s order) ∧
    (walkPrefixes fs n cfg ex pre rest ≠ .error .fuel →
      walkPrefixes fs m cfg ex pre rest = walkPrefixes fs n cfg ex pre rest) ∧
    (recheckRefuses fs n useExists cwd s ≠ .error .fuel →
      recheckRefuses fs m useExists cwd s = recheckRefuses fs n useExists cwd s) :=
  ⟨fuel_validatePath_mono hm order, fuel_walkPrefixes_mono hm rest pre, fuel_recheckRefuses_mono hm⟩

/-! ## adequacy -/

/-- `fuelBound L parts` units are enough for both walkers (from any start directory). -/
theorem C19_fuel_walk_adequate {fs : Fs} {L : List (List Str × Str)} (hL : FuelLinks fs L) {fuel : Nat} {parts : List Str}
    (h : fuelBound L parts ≤ fuel) :
    kWalk fs fuel [] parts [] ≠ .fuel ∧ rpWalk fs fuel [] parts [] ≠ .fuel :=
  ⟨fuel_kWalk_adequate hL h [], fuel_rpWalk_adequate hL h []⟩

/-- … so the answer at the bound is the answer at every larger fuel: the driver's fuel is as good as infinity. -/
theorem C19_fuel_walk_exact {fs : Fs} {L : List (List Str × Str)} (hL : FuelLinks fs L) {fuel : Nat} {parts : List Str}
    (h : fuelBound L parts ≤ fuel) :
    kWalk fs fuel [] parts [] = kWalk fs (fuelBound L parts) [] parts [] ∧
    rpWalk fs fuel [] parts [] = rpWalk fs (fuelBound L parts) [] parts [] :=
  ⟨fuel_kWalk_mono fs _ [] parts [] fuel h (fuel_kWalk_adequate hL (Nat.le_refl _) []),
   fuel_rpWalk_mono fs _ [] parts [] fuel h (fuel_rpWalk_adequate hL (Nat.le_refl _) [])⟩

/-- `Path.exists()`, `Path.is_symlink()`, the `stat` probe and the link test never answer `fuel` at the bound. -/
theorem C19_fuel_probes_adequate {fs : Fs} {L : List (List Str × Str)} (hL : FuelLinks fs L) {fuel : Nat} {parts : List Str}
    (h : fuelBound L parts ≤ fuel) (useExists : Bool) :
    pyExists fs fuel parts ≠ .error .fuel ∧ pyIsSymlink fs fuel parts ≠ .error .fuel ∧
    statProbe fs fuel parts ≠ .error .fuel ∧ linkTest fs fuel useExists parts ≠ .error .fuel :=
  ⟨fuel_pyExists_adequate hL h, fuel_pyIsSymlink_adequate hL h, fuel_statProbe_adequate hL h,
   fuel_linkTest_adequate hL h useExists⟩

/-- `Path.resolve()` (realpath, then `stat` on what realpath returned): the answer of realpath has at most
`maxdepth(L) + weight(L) + |parts|` components, which is what `fuelBoundR` pays for. -/
theorem C19_fuel_resolve_adequate {fs : Fs} {L : List (List Str × Str)} (hL : FuelLinks fs L) {fuel : Nat} {parts : List Str}
    (h : fuelBoundR L parts ≤ fuel) :
    pyResolve fs fuel parts ≠ .error .fuel ∧
    (∀ p, pyResolve fs fuel parts = .ok p → p.length ≤ fuelDepth L + fuelUnseen L [] + parts.length) :=
  ⟨fuel_pyResolve_adequate hL h, fun _ hp => fuel_pyResolve_len hL hp⟩

/-- The three validators (all shapes `cfg`, all stage orders), the component walk over the absolute path and the
re-check before writing never answer `fuel` at `fuelBoundR L <absolute path>`. -/
theorem C19_fuel_validate_adequate {fs : Fs} {L : List (List Str × Str)} (hL : FuelLinks fs L) {fuel : Nat}
    (cfg : WalkCfg) (ex : Exempt) (allowed : List Str) (cwd : List Str) (s : Str) (order : List Stage) (useExists : Bool)
    (h : fuelBoundR L (absParts cwd s) ≤ fuel) :
    validatePath fs fuel cfg ex allowed cwd s order ≠ .error .fuel ∧
    walkPrefixes fs fuel cfg ex [] (absParts cwd s) ≠ .error .fuel ∧
    recheckRefuses fs fuel useExists cwd s ≠ .error .fuel := by
  refine ⟨fuel_validatePath_adequate hL cfg ex allowed cwd s h order, ?_, ?_⟩
  · refine fuel_walkPrefixes_adequate hL cfg ex _ [] ?_
    simp only [fuelBoundR, List.length_nil] at h ⊢; omega
  · exact fuel_recheckRefuses_adequate hL useExists cwd s (Nat.le_trans (fuelBound_le_fuelBoundR L _) h)

/-- The verdict at the bound is the verdict at every larger fuel. -/
theorem C19_fuel_validate_exact {fs : Fs} {L : List (List Str × Str)} (hL : FuelLinks fs L) {fuel : Nat}
    (cfg : WalkCfg) (ex : Exempt) (allowed : List Str) (cwd : List Str) (s : Str) (order : List Stage) (useExists : Bool)
    (h : fuelBoundR L (absParts cwd s) ≤ fuel) :
    validatePath fs fuel cfg ex allowed cwd s order =
      validatePath fs (fuelBoundR L (absParts cwd s)) cfg ex allowed cwd s order ∧
    recheckRefuses fs fuel useExists cwd s = recheckRefuses fs (fuelBoundR L (absParts cwd s)) useExists cwd s :=
  ⟨fuel_validatePath_mono h order (C19_fuel_validate_adequate hL cfg ex allowed cwd s order useExists (Nat.le_refl _)).1,
   fuel_recheckRefuses_mono h (C19_fuel_validate_adequate hL cfg ex allowed cwd s order useExists (Nat.le_refl _)).2.2⟩

/-! ## the driver's file systems -/

/-- A finite table has a finite table of links. -/
theorem C19_fuel_ofList (l : List (List Str × Node)) : FuelLinks (Fs.ofList l) (fuelLinksOf l) :=
  fuelLinks_ofList l

/-- The driver (fuel 100000, file system `Fs.ofList l` read from an lstat snapshot): whenever the computable bound
is at most 100000 — e.g. a tree with 10000 links of 4-component targets at depth ≤ 50 and a 40-component path — the
driver never reports `fuel`, and its verdict is the verdict of every larger fuel. -/
theorem C19_fuel_driver (l : List (List Str × Node)) (cfg : WalkCfg) (ex : Exempt) (allowed : List Str) (cwd : List Str)
    (s : Str) (order : List Stage) (h : fuelBoundR (fuelLinksOf l) (absParts cwd s) ≤ 100000) :
    validatePath (Fs.ofList l) 100000 cfg ex allowed cwd s order ≠ .error .fuel ∧
    ∀ m, 100000 ≤ m → validatePath (Fs.ofList l) m cfg ex allowed cwd s order =
      validatePath (Fs.ofList l) 100000 cfg ex allowed cwd s order := by
  have hne := (C19_fuel_validate_adequate (C19_fuel_ofList l) cfg ex allowed cwd s order false h).1
  exact ⟨hne, fun m hm => fuel_validatePath_mono hm order hne⟩

/-! ## non-vacuity: a 3-deep chain `c1 -> c2 -> ./c3 -> /sb/d`, a 2-cycle `la -> lb -> ../sb/la`, a self loop -/

def fuelFs : List (List Str × Node) :=
  [(["sb".toList], .dir), (["sb".toList, "d".toList], .dir), (["sb".toList, "d".toList, "f.md".toList], .file []),
   (["sb".toList, "c1".toList], .link "c2".toList), (["sb".toList, "c2".toList], .link "./c3".toList),
   (["sb".toList, "c3".toList], .link "/sb/d".toList),
   (["sb".toList, "la".toList], .link "lb".toList), (["sb".toList, "lb".toList], .link "../sb/la".toList),
   (["sb".toList, "self".toList], .link "self".toList)]

def fuelChain : List Str := ["sb".toList, "c1".toList, "f.md".toList]
def fuelCycle : List Str := ["sb".toList, "la".toList, "x.md".toList]

/-- the table has 6 links; the bounds are small -/
example : (fuelLinksOf fuelFs).length = 6 ∧ fuelBound (fuelLinksOf fuelFs) fuelChain = 21 ∧
    fuelBoundR (fuelLinksOf fuelFs) fuelChain = 40 ∧ wfCheck fuelFs = true := by decide

/-- at the bound the chain is resolved and the cycle is reported (loop exit / ELOOP) -/
example : rpWalk (Fs.ofList fuelFs) 21 [] fuelChain [] = .done ["sb".toList, "d".toList, "f.md".toList] ∧
    kWalk (Fs.ofList fuelFs) 21 [] fuelChain [] = .ok ["sb".toList, "d".toList, "f.md".toList] ∧
    rpWalk (Fs.ofList fuelFs) 21 [] fuelCycle [] = .loop ["sb".toList, "la".toList] ["x.md".toList] ∧
    kWalk (Fs.ofList fuelFs) 21 [] fuelCycle [] = .eloop := by decide

/-- the theorems apply to this tree (hypothesis of `C19_fuel_walk_adequate` / `_exact` at fuel 100000) -/
example : kWalk (Fs.ofList fuelFs) 100000 [] fuelChain [] = kWalk (Fs.ofList fuelFs) 21 [] fuelChain [] ∧
    rpWalk (Fs.ofList fuelFs) 100000 [] fuelCycle [] = rpWalk (Fs.ofList fuelFs) 21 [] fuelCycle [] :=
  ⟨(C19_fuel_walk_exact (C19_fuel_ofList fuelFs) (parts := fuelChain) (by decide)).1,
   (C19_fuel_walk_exact (C19_fuel_ofList fuelFs) (parts := fuelCycle) (by decide)).2⟩

/-- fuel does run out below the bound (the chain needs 9 units: the hypothesis `fuelBound ≤ fuel` is not idle),
and the monotonicity hypothesis `≠ fuel` holds from 9 on -/
example : rpWalk (Fs.ofList fuelFs) 8 [] fuelChain [] = .fuel ∧ kWalk (Fs.ofList fuelFs) 8 [] fuelChain [] = .fuel ∧
    rpWalk (Fs.ofList fuelFs) 9 [] fuelChain [] ≠ .fuel ∧ kWalk (Fs.ofList fuelFs) 9 [] fuelChain [] ≠ .fuel := by decide

/-- the validators at `fuelBoundR` (= 40 for these paths): chain refused as a symlink, the cycle as a resolution
failure, a plain path accepted; with too little fuel the model says `fuel`, never a verdict -/
example : fuelBoundR (fuelLinksOf fuelFs) (absParts ["sb".toList] "c1/f.md".toList) = 40 ∧
    validatePath (Fs.ofList fuelFs) 40 ⟨false, false⟩ exToday allowedToday ["sb".toList] "c1/f.md".toList orderA = .error .symlink ∧
    validatePath (Fs.ofList fuelFs) 40 ⟨false, false⟩ exToday allowedToday ["sb".toList] "la/x.md".toList orderB = .error .resolve ∧
    validatePath (Fs.ofList fuelFs) 40 ⟨false, false⟩ exToday allowedToday ["sb".toList] "d/f.md".toList orderA = .ok () ∧
    validatePath (Fs.ofList fuelFs) 5 ⟨false, false⟩ exToday allowedToday ["sb".toList] "c1/f.md".toList orderA = .error .fuel ∧
    pyResolve (Fs.ofList fuelFs) 40 fuelChain = .ok ["sb".toList, "d".toList, "f.md".toList] := by decide

/-- `C19_fuel_driver` applies to this tree -/
example : validatePath (Fs.ofList fuelFs) 100000 ⟨false, false⟩ exToday allowedToday ["sb".toList] "c1/f.md".toList orderA ≠ .error .fuel :=
  (C19_fuel_driver fuelFs ⟨false, false⟩ exToday allowedToday ["sb".toList] "c1/f.md".toList orderA (by decide)).1

/-! ## the other fuel consumers of the driver: `validate_source_uri`, `resolve_hermetic_standard`, `load_schema_by_name` -/

/-- `validate_source_uri`: monotone, and never `fuel` at `fuelBoundU` (three resolutions, each of the answer of the
one before; every answer is at most `maxdepth + weight` longer than its input), hence exact above the bound. -/
theorem C19_fuel_source_uri {fs : Fs} {L : List (List Str × Str)} (hL : FuelLinks fs L) {fuel : Nat}
    (fixpoint : Bool) (base : List Str) (u : Str) (h : fuelBoundU L base u ≤ fuel) :
    validateSourceUri fs fuel fixpoint base u ≠ .error .fuel ∧
    validateSourceUri fs fuel fixpoint base u = validateSourceUri fs (fuelBoundU L base u) fixpoint base u :=
  ⟨fuel_validateSourceUri_adequate hL fixpoint base u h,
   fuel_validateSourceUri_mono h (fuel_validateSourceUri_adequate hL fixpoint base u (Nat.le_refl _))⟩

theorem C19_fuel_source_uri_monotone (fs : Fs) {n m : Nat} (hm : n ≤ m) (fixpoint : Bool) (base : List Str) (u : Str)
    (h : validateSourceUri fs n fixpoint base u ≠ .error .fuel) :
    validateSourceUri fs m fixpoint base u = validateSourceUri fs n fixpoint base u :=
  fuel_validateSourceUri_mono hm h

/-- `resolve_hermetic_standard` (any hash function): only direct children of the cache directory are probed. -/
theorem C19_fuel_frozen (H : Str → Str) {fs : Fs} {L : List (List Str × Str)} (hL : FuelLinks fs L) {fuel : Nat}
    (cache : List Str) (pfxLen : Nat) (ref : Str) (h : cache.length + 2 + fuelUnseen L [] ≤ fuel) :
    resolveStandard H fs fuel cache pfxLen ref ≠ .error .fuel ∧
    resolveStandard H fs fuel cache pfxLen ref =
      resolveStandard H fs (cache.length + 2 + fuelUnseen L []) cache pfxLen ref :=
  ⟨fuel_resolveStandard_adequate H hL cache pfxLen ref h,
   fuel_resolveStandard_mono H h (fuel_resolveStandard_adequate H hL cache pfxLen ref (Nat.le_refl _))⟩

theorem C19_fuel_frozen_monotone (H : Str → Str) (fs : Fs) {n m : Nat} (hm : n ≤ m) (cache : List Str) (pfxLen : Nat) (ref : Str)
    (h : resolveStandard H fs n cache pfxLen ref ≠ .error .fuel) :
    resolveStandard H fs m cache pfxLen ref = resolveStandard H fs n cache pfxLen ref :=
  fuel_resolveStandard_mono H hm h

/-- `load_schema_by_name`: `schemaProbe` has no `fuel` outcome of its own (an error of `exists()` stops the search), so
the statement is fuel-independence: from `|dir| + 2 + weight` on (for every search directory) the probed paths and the
file opened do not depend on the fuel. -/
theorem C19_fuel_schema_probe {fs : Fs} {L : List (List Str × Str)} (hL : FuelLinks fs L) {n m : Nat} (hm : n ≤ m)
    (dirs : List (List Str)) (name : Str) (h : ∀ d ∈ dirs, d.length + 2 + fuelUnseen L [] ≤ n) :
    schemaProbe fs m dirs name = schemaProbe fs n dirs name := by
  unfold schemaProbe
  split
  · rename_i hok
    simp only
    refine fuel_schemaProbe_go_mono hm _ _ ?_
    intro q hq
    simp only [List.mem_flatten, List.mem_map] at hq
    obtain ⟨lst, ⟨d, hd, rfl⟩, hq⟩ := hq
    obtain ⟨c, hc, rfl⟩ := List.mem_map.mp hq
    rw [(C19_schema_name name d hok c hc).1]
    refine fuel_pyExists_adequate hL ?_
    have := h d hd
    simp only [fuelBound, List.length_append, List.length_cons, List.length_nil]
    omega
  · rfl

/-- non-vacuity on the F60 tree `fsLoop` (a self loop and a link out of the base) and on the cache tree -/
example : fuelBoundU (fuelLinksOf fsLoop) ["b".toList] "loop/../lf.md".toList = 35 ∧
    validateSourceUri (Fs.ofList fsLoop) 35 true ["b".toList] "loop/../lf.md".toList = .error .resolveFailed ∧
    validateSourceUri (Fs.ofList fsLoop) 3 true ["b".toList] "loop/../lf.md".toList = .error .fuel := by decide
example : validateSourceUri (Fs.ofList fsLoop) 100000 true ["b".toList] "loop/../lf.md".toList = .error .resolveFailed := by
  rw [(C19_fuel_source_uri (C19_fuel_ofList fsLoop) true ["b".toList] "loop/../lf.md".toList (fuel := 100000) (by decide)).2]
  decide
example : (["c".toList] : List Str).length + 2 + fuelUnseen (fuelLinksOf fsCache) [] = 3 ∧
    resolveStandard (fun _ => List.replicate 64 'a') (Fs.ofList fsCache) 3 ["c".toList] 16 ("frozen@sha256:".toList ++ List.replicate 64 'A')
      = .ok ["c".toList, (List.replicate 16 'a') ++ octMd] ∧
    resolveStandard (fun _ => List.replicate 64 'a') (Fs.ofList fsCache) 2 ["c".toList] 16 ("frozen@sha256:".toList ++ List.replicate 64 'A')
      = .error .fuel := by decide
example : schemaProbe (Fs.ofList fsCache) 100000 [["c".toList]] "META".toList = schemaProbe (Fs.ofList fsCache) 3 [["c".toList]] "META".toList :=
  C19_fuel_schema_probe (C19_fuel_ofList fsCache) (by decide) _ _ (by decide)
example : schemaProbe (Fs.ofList fsCache) 3 [["c".toList]] "META".toList =
    ([["c".toList, "meta.oct.md".toList], ["c".toList, "META.oct.md".toList]], none) := by decide

/-! ## the finiteness hypothesis cannot be dropped -/

/-- On the file system `fuelInfFs` (a link `x -> d/x` in every directory `d/…/d`: infinitely many distinct links, no
cycle) both walkers are out of fuel at EVERY fuel when asked for `/x`; so it has no finite table of links, and no
bound in terms of the path alone exists for arbitrary `Fs`. -/
theorem C19_fuel_needs_finite_links :
    (∀ fuel, kWalk fuelInfFs fuel [] [fuelX] [] = .fuel ∧ rpWalk fuelInfFs fuel [] [fuelX] [] = .fuel) ∧
    ∀ L, ¬ FuelLinks fuelInfFs L := by
  have hall : ∀ fuel, kWalk fuelInfFs fuel [] [fuelX] [] = .fuel ∧ rpWalk fuelInfFs fuel [] [fuelX] [] = .fuel := by
    intro fuel
    have h1 := (fuelInf_kWalk fuel 0 []).1 (by simp)
    have h2 := (fuelInf_rpWalk fuel 0 []).1 (by simp)
    simpa using And.intro h1 h2
  refine ⟨hall, fun L hL => ?_⟩
  exact (C19_fuel_walk_adequate hL (parts := [fuelX]) (Nat.le_refl _)).1 (hall _).1

end Octave.C19
