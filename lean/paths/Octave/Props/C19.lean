/-
C19 — Tools cannot be steered outside the intended files.

Property theorems and non-vacuity examples only; helper lemmas live in Octave/Lemmas.  All statements are over
the executable model `Octave.Model.Paths` (tied to the Python by the correspondence check of tools/props/c19.py)
and over the data regenerated from the source on every run (`Octave.Gen.Paths`).

Reading of "symlink in a component": for a prefix `q` of the absolute path, `pyIsSymlink fs fuel q = ok true`
(the kernel's `lstat`: every component but the last is followed).  `fuel` bounds the recursion of the model's
walkers; every theorem holds for every fuel (running out of fuel is an error outcome of the model, never `ok`).
-/
import Octave.Lemmas.Validate
import Octave.Lemmas.Ext
import Octave.Lemmas.Names
import Octave.Gen.Paths
namespace Octave.C19
open Octave List

/-! ## Facts about the generated data (re-proved on every build; they fail when the source changes) -/

/-- the three copies of ALLOWED_EXTENSIONS are the same set {".md", ".oct.md", ".octave"} -/
theorem gen_allowed_ext :
    Gen.allowedExt_write = [".md", ".oct.md", ".octave"] ∧ Gen.allowedExt_validate = Gen.allowedExt_write ∧
    Gen.allowedExt_fileops = Gen.allowedExt_write ∧
    Gen.allowedExtKind_write = "set" ∧ Gen.allowedExtKind_validate = "set" ∧ Gen.allowedExtKind_fileops = "set" := by decide

theorem gen_allowed_ext_chars : Gen.allowedExt_write.map String.toList = [mdS, octMdS, octaveS] := by decide

/-- every copy runs the three stages (in some order), tests '..' on `path.parts`, and has the extension logic the model transcribes -/
theorem gen_stages :
    (∀ e ∈ Gen.stageOrder, e.2 = ["dotdot", "symlink", "ext"] ∨ e.2 = ["symlink", "dotdot", "ext"]) ∧
    Gen.stageOrder.map (·.1) = ["write", "validate", "fileops"] ∧
    (∀ e ∈ Gen.dotdotTests, e.2 = "some part of path.parts equals '..'") ∧
    (∀ e ∈ Gen.extTests, e.2 = ["path.suffix not in ALLOWED_EXTENSIONS",
        "compound_suffix = ''.join(path.suffixes[-2:]) if len(path.suffixes) >= 2 else path.suffix",
        "compound_suffix not in ALLOWED_EXTENSIONS"]) := by decide

/-- the system-symlink exemption is `symlink_depth <= 2 and str(resolved).startswith("/private/")` in every copy -/
theorem gen_exemptions : Gen.exemptions = [("write", 2, "/private/"), ("validate", 2, "/private/"), ("fileops", 2, "/private/")] := by decide

theorem gen_schema :
    Gen.schemaNamePattern = "^[A-Z][A-Z0-9_]*$" ∧ Gen.schemaNameFlags = "0" ∧ Gen.schemaNameMethod = "match" ∧
    Gen.schemaNameGuard = "not SCHEMA_NAME_PATTERN.match(schema_name) => return None" ∧
    Gen.schemaFilePatterns = ["{schema_name.lower()}.oct.md", "{schema_name}.oct.md"] ∧
    Gen.schemaJoin = "search_path / pattern" ∧
    Gen.schemaSearchOrder = ["Path(__file__).parent.parent / 'resources' / 'specs' / 'schemas'",
      "Path.cwd() / 'src' / 'octave_mcp' / 'resources' / 'specs' / 'schemas'", "Path.cwd() / 'specs' / 'schemas'",
      "Path(__file__).parent / 'builtin'"] := by decide

theorem gen_frozen :
    Gen.frozenRegex = "frozen@sha256:([0-9a-fA-F]{64})" ∧ Gen.frozenMethod = "fullmatch" ∧
    Gen.frozenStartsWith = "standard_ref.startswith('frozen@sha256:')" ∧ Gen.frozenDigest = "m.group(1).lower()" ∧
    Gen.frozenCachedPath = "cache_dir / f'{digest[:16]}.oct.md'" ∧ Gen.frozenPrefixLen = 16 ∧
    Gen.frozenExpected = "f'sha256:{digest}'" ∧ Gen.frozenActual = "compute_vocabulary_hash(cached_path)" ∧
    Gen.frozenCompare = "actual_hash != expected_hash" ∧ Gen.hashReturn = "f'sha256:{hasher.hexdigest()}'" := by decide

/-! ## C19_validate_sound -/

-- `Confined` (no '..' component ∧ `noSymlinkComponent` ∧ allowed extension) is defined in Lemmas/Validate.lean

/-- the component walk of every copy has the repaired shape: `current.is_symlink()` is tested for every component,
unconditionally (commit 15db00f; before it the test was `current.exists() and current.is_symlink()` under
`if absolute != resolved`, finding F29) -/
theorem gen_walk_cfg : Gen.walkCfg = [("write", false, false), ("validate", false, false), ("fileops", false, false)] := by decide

/-- **Soundness of the three validators, full strength**: for every file system (no well-formedness needed), working
directory, path string, fuel, exemption constants, allow-list and every stage order that contains the three stages
(the orders of the three copies are in `gen_stages`): an accepted path has no `..` component, no symlink in any
component including the last (except the system links `exemptOk` lets through), and an allowed extension. -/
theorem C19_validate_sound (fs : Fs) (fuel : Nat) (ex : Exempt) (allowed cwd : List Str) (s : Str)
    (order : List Stage) (hall : Stage.dotdot ∈ order ∧ Stage.symlink ∈ order ∧ Stage.ext ∈ order)
    (hcwd : ∀ c ∈ cwd, normalName c)
    (h : validatePath fs fuel ⟨false, false⟩ ex allowed cwd s order = .ok ()) :
    Confined fs fuel ex allowed cwd s :=
  validatePath_sound fs fuel ⟨false, false⟩ ex allowed cwd s order hall hcwd (Or.inl ⟨rfl, rfl⟩) h

/-- the same statement for the earlier shapes of the walk (`useExists` and/or `guarded` set), which needs the guard
"the file system is a tree and no component of the path is a dangling symlink"; kept because the model still
implements those shapes (the translator selects the shape from the source) -/
theorem C19_validate_sound_old_shape_partial (fs : Fs) (fuel : Nat) (cfg : WalkCfg) (ex : Exempt) (allowed cwd : List Str) (s : Str)
    (order : List Stage) (hall : Stage.dotdot ∈ order ∧ Stage.symlink ∈ order ∧ Stage.ext ∈ order)
    (hcwd : ∀ c ∈ cwd, normalName c) (hwf : fs.WF) (hnd : noDangling fs fuel (absParts cwd s))
    (h : validatePath fs fuel cfg ex allowed cwd s order = .ok ()) :
    Confined fs fuel ex allowed cwd s :=
  validatePath_sound fs fuel cfg ex allowed cwd s order hall hcwd (Or.inr ⟨hwf, hnd⟩) h

/-! ### the earlier shape was unsound without the guard (F29, fixed in 15db00f): witness -/

def fsDangling : List (List Str × Node) :=
  [(["sb".toList], .dir), (["sb".toList, "dang.md".toList], .link "/out/missing.md".toList)]

def exToday : Exempt := ⟨2, "private".toList⟩
def allowedToday : List Str := [mdS, octMdS, octaveS]

/-- **F29** (regression witness): with the earlier walk, `dang.md` (a dangling symlink) is accepted by both stage orders
although its last component is a symlink, on a well-formed file system. -/
theorem C19_old_walk_accepts_dangling :
    validatePath (Fs.ofList fsDangling) 20 ⟨true, true⟩ exToday allowedToday ["sb".toList] "dang.md".toList orderA = .ok () ∧
    validatePath (Fs.ofList fsDangling) 20 ⟨true, true⟩ exToday allowedToday ["sb".toList] "dang.md".toList orderB = .ok () ∧
    pyIsSymlink (Fs.ofList fsDangling) 20 (absParts ["sb".toList] "dang.md".toList) = .ok true ∧
    wfCheck fsDangling = true := by decide

/-- the same witness is refused by the repaired walk -/
example : validatePath (Fs.ofList fsDangling) 20 ⟨false, false⟩ exToday allowedToday ["sb".toList] "dang.md".toList orderA = .error .symlink := by decide

/-! ### non-vacuity: a tree with files, a directory and live links on which paths are accepted (both shapes of the
walk), and on which the guard of the old-shape theorem holds -/

def fsLive : List (List Str × Node) :=
  [(["sb".toList], .dir), (["sb".toList, "d".toList], .dir), (["sb".toList, "d".toList, "f.md".toList], .file []),
   (["sb".toList, "lin".toList], .link "d".toList), (["out".toList], .dir), (["out".toList, "secret.md".toList], .file [])]

example : (Fs.ofList fsLive).WF := ofList_wf (by decide)
example : noDangling (Fs.ofList fsLive) 20 (absParts ["sb".toList] "d/f.md".toList) := noDangling_of_B (by decide)
example : validatePath (Fs.ofList fsLive) 20 ⟨false, false⟩ exToday allowedToday ["sb".toList] "d/f.md".toList orderA = .ok () := by decide
example : validatePath (Fs.ofList fsLive) 20 ⟨false, false⟩ exToday allowedToday ["sb".toList] "d/n.oct.md".toList orderB = .ok () := by decide
example : validatePath (Fs.ofList fsLive) 20 ⟨false, false⟩ exToday allowedToday ["sb".toList] "lin/f.md".toList orderB = .error .symlink := by decide
example : validatePath (Fs.ofList fsLive) 20 ⟨false, false⟩ exToday allowedToday ["sb".toList] "d/../d/f.md".toList orderA = .error .dotdot := by decide
example : validatePath (Fs.ofList fsLive) 20 ⟨false, false⟩ exToday allowedToday ["sb".toList] "d/f.txt".toList orderA = .error .ext := by decide
example : validatePath (Fs.ofList fsLive) 20 ⟨true, true⟩ exToday allowedToday ["sb".toList] "d/f.md".toList orderA = .ok () := by decide
example : validatePath (Fs.ofList fsLive) 20 ⟨true, true⟩ exToday allowedToday ["sb".toList] "d/n.oct.md".toList orderB = .ok () := by decide
/-- and a live link in the middle of the path is refused -/
example : validatePath (Fs.ofList fsLive) 20 ⟨true, true⟩ exToday allowedToday ["sb".toList] "lin/f.md".toList orderA = .error .symlink := by decide

/-! ## C19_ext -/

/-- **The extension stage, exactly**: a path is let through iff its final component is a non-empty stem followed by
`.md` or `.octave`, compared case-sensitively.  Against the sentence of the property ("an extension other than
.oct.md, .octave or .md is refused"): everything the code accepts ends in one of the three (`.oct.md` being a special
case of `.md`; the `compound_suffix` branch never decides anything); in addition the code refuses the bare names
`.md`, `.octave` (no stem), names ending in a dot, and any other capitalisation (`.MD`). -/
theorem C19_ext (name : Str) :
    extAllowed (Gen.allowedExt_write.map String.toList) name = true ↔
      ∃ stem, stem ≠ [] ∧ (name = stem ++ mdS ∨ name = stem ++ octaveS) := by
  rw [gen_allowed_ext_chars]
  exact extAllowed_iff [mdS, octMdS, octaveS] (by intro x; simp) name

/-- the form in which DESIGN.md states it: `suffix ∈ {.md, .octave}` or the last two suffixes are `.oct.md` -/
theorem C19_ext_suffix_form (name : Str) :
    extAllowed (Gen.allowedExt_write.map String.toList) name = true ↔
      (suffixOf name = mdS ∨ suffixOf name = octaveS ∨ compoundSuffix name = octMdS) := by
  constructor
  · intro h
    obtain ⟨stem, hs, hn | hn⟩ := (C19_ext name).mp h
    · exact Or.inl ((suffixOf_eq_iff name ['m', 'd'] (by decide) (by decide)).mpr ⟨stem, hs, hn⟩)
    · exact Or.inr (Or.inl ((suffixOf_eq_iff name ['o', 'c', 't', 'a', 'v', 'e'] (by decide) (by decide)).mpr ⟨stem, hs, hn⟩))
  · intro h
    rw [gen_allowed_ext_chars]
    unfold extAllowed
    simp only [Bool.or_eq_true, List.contains_iff_mem]
    rcases h with h | h | h
    · left; rw [h]; simp
    · left; rw [h]; simp
    · right; rw [h]; simp

example : extAllowed allowedToday "a.oct.md".toList = true := by decide
example : extAllowed allowedToday "a.MD".toList = false := by decide
example : extAllowed allowedToday ".md".toList = false := by decide
example : extAllowed allowedToday "a.md.".toList = false := by decide
example : extAllowed allowedToday "a.oct.txt".toList = false := by decide

/-! ## C19_refused_before_io, C19_symlink_recheck (order facts of the generated programs) -/

/-- generic: a program whose ops before the first `validate` touch no file, and whose `validate` is directly followed
by the guard, executes no file operation when validation refuses -/
theorem refused_discipline (pre post : List GOp) (v g : GOp) (hv : v.1 = "validate") (hg : g.1 = "guard-return")
    (hpre : ∀ op ∈ pre, op.1 ≠ "validate" ∧ isFileIO op = false ∧ op.1 ≠ "loop") :
    runRefused (pre ++ v :: g :: post) = [] := by
  induction pre with
  | nil => simp [runRefused, hv, hg]
  | cons op pre ih =>
    have h := hpre op (by simp)
    simp only [List.cons_append, runRefused, h.1, if_false, h.2.1, h.2.2, Bool.false_or, decide_false, Bool.false_eq_true]
    exact ih (fun o ho => hpre o (by simp [ho]))

/-- **C19_refused_before_io**: in `WriteTool.execute`, `ValidateTool.execute`, `atomic_write_octave` and the CLI `write`
command, as the source has them now, no open/read/mkdir/mkstemp/replace (nor a loop containing one) is executed when
the path validator refuses. -/
theorem C19_refused_before_io :
    Gen.programs.map (·.1) = ["WriteTool.execute", "ValidateTool.execute", "atomic_write_octave", "cli.write"] ∧
    ∀ p ∈ Gen.programs, runRefused p.2 = [] := by decide

/-- the loader checks the pattern before anything else, and touches the file system only through `exists()` and `load_schema` -/
theorem C19_schema_load_order :
    Gen.schemaLoadOps = [("loop", "", ""), ("loop", "", ""), ("io", "meta", "exists"), ("io", "read", "load_schema")] := by decide

/-- **C19_symlink_recheck** (order): in both writers the re-check of the final component precedes `mkstemp` and every
replace/unlink/chmod: when the re-check sees a symlink nothing is created next to the target or replaced. -/
theorem C19_symlink_recheck_order :
    ∀ p ∈ Gen.programs, p.1 = "WriteTool.execute" ∨ p.1 = "atomic_write_octave" →
      ("recheck-return", "", "") ∈ p.2 ∧ runLinkSeen p.2 = [] := by decide

/-- **C19_symlink_recheck** (decision), PARTIAL (both re-checks still read `exists() and is_symlink()`,
`gen_recheck_sites`; they matter only for a link created after validation, which is outside the model): the re-check `exists() and is_symlink()` sees a final-component
symlink only if it is not dangling; with `useExists = false` (the repaired shape) it sees every one. -/
theorem C19_symlink_recheck_partial (fs : Fs) (fuel : Nat) (useExists : Bool) (cwd : List Str) (s : Str)
    (hlink : pyIsSymlink fs fuel (absParts cwd s) = .ok true)
    (hg : useExists = false ∨ pyExists fs fuel (absParts cwd s) = .ok true) :
    recheckRefuses fs fuel useExists cwd s = .ok true := by
  unfold recheckRefuses linkTest
  rcases hg with hg | hg
  · subst hg; simpa [absParts] using hlink
  · cases useExists with
    | false => simpa [absParts] using hlink
    | true =>
      have h1 : pyExists fs fuel (pyAbsolute cwd (parsePath s)).2 = .ok true := hg
      have h2 : pyIsSymlink fs fuel (pyAbsolute cwd (parsePath s)).2 = .ok true := hlink
      simp [h1, h2]

theorem gen_recheck_sites : Gen.recheckUsesExists.map (·.1) = ["WriteTool.execute", "atomic_write_octave"] := by decide

/-- the negation on the witness: a re-check of the `exists() and` shape does not see a dangling link -/
theorem C19_symlink_recheck_misses_dangling :
    recheckRefuses (Fs.ofList fsDangling) 20 true ["sb".toList] "dang.md".toList = .ok false ∧
    pyIsSymlink (Fs.ofList fsDangling) 20 (absParts ["sb".toList] "dang.md".toList) = .ok true := by decide

example : recheckRefuses (Fs.ofList fsLive) 20 true ["sb".toList] "lin".toList = .ok true := by decide

/-! ## C19_schema_name -/

/-- **A name accepted by SCHEMA_NAME_PATTERN selects a file directly inside the directory it is joined to**: both file
names tried (`lower(n).oct.md`, `n.oct.md`) are single path components — no separator, not `..` — so the joined path is
`dir ++ [name]` and its parent is `dir`. -/
theorem C19_schema_name (n : Str) (dir : List Str) (h : schemaNameOk n = true) :
    ∀ cand ∈ schemaCandidates n, joinPath dir cand = dir ++ [cand] ∧ '/' ∉ cand ∧ cand ≠ dotdot ∧ cand ≠ dot := by
  have hn := schemaNameOk_no_slash h
  have hl : '/' ∉ n.map Char.toLower := by
    intro hm
    obtain ⟨c, hc, hcl⟩ := List.mem_map.mp hm
    exact toLower_ne_slash c (fun hx => hn (hx ▸ hc)) hcl
  intro cand hc
  simp only [schemaCandidates, List.mem_cons, List.mem_nil_iff, or_false] at hc
  rcases hc with rfl | rfl
  · exact name_octMd_single dir _ hl
  · exact name_octMd_single dir _ hn

theorem schemaProbe_go_spec (fs : Fs) (fuel : Nat) : ∀ (cands acc : List (List Str)),
    (∀ q ∈ (schemaProbe.go fs fuel cands acc).1, q ∈ acc ∨ q ∈ cands) ∧
    (∀ q, (schemaProbe.go fs fuel cands acc).2 = some q → q ∈ cands ∧ pyExists fs fuel q = .ok true) := by
  intro cands
  induction cands with
  | nil => intro acc; simp [schemaProbe.go]
  | cons q qs ih =>
    intro acc
    simp only [schemaProbe.go]
    split
    · rename_i hex
      refine ⟨fun x hx => ?_, fun x hx => ?_⟩
      · simp only [List.mem_reverse, List.mem_cons] at hx
        rcases hx with rfl | hx
        · right; simp
        · left; exact hx
      · simp at hx; subst hx; exact ⟨by simp, hex⟩
    · obtain ⟨h1, h2⟩ := ih (q :: acc)
      refine ⟨fun x hx => ?_, fun x hx => ?_⟩
      · rcases h1 x hx with h | h
        · rcases List.mem_cons.mp h with rfl | h
          · right; simp
          · left; exact h
        · right; simp [h]
      · obtain ⟨h3, h4⟩ := h2 x hx
        exact ⟨by simp [h3], h4⟩
    · refine ⟨fun x hx => ?_, fun x hx => ?_⟩
      · simp only [List.mem_reverse, List.mem_cons] at hx
        rcases hx with rfl | hx
        · right; simp
        · left; exact hx
      · simp at hx

/-- **`load_schema_by_name` only probes and opens files directly inside a search directory**, for every name, every list of
search directories (in the generated order, `gen_schema`) and every file system; a name that does not match the pattern
touches nothing. -/
theorem C19_schema_load (fs : Fs) (fuel : Nat) (dirs : List (List Str)) (n : Str) :
    (schemaNameOk n = false → schemaProbe fs fuel dirs n = ([], none)) ∧
    (∀ q ∈ (schemaProbe fs fuel dirs n).1, ∃ d ∈ dirs, ∃ cand, q = d ++ [cand] ∧ '/' ∉ cand ∧ cand ≠ dotdot ∧ cand ≠ dot) ∧
    (∀ q, (schemaProbe fs fuel dirs n).2 = some q →
      (∃ d ∈ dirs, ∃ cand, q = d ++ [cand] ∧ '/' ∉ cand ∧ cand ≠ dotdot ∧ cand ≠ dot) ∧ pyExists fs fuel q = .ok true) := by
  have hc : schemaNameOk n = true → ∀ q ∈ (dirs.map fun d => (schemaCandidates n).map (joinPath d)).flatten,
      ∃ d ∈ dirs, ∃ cand, q = d ++ [cand] ∧ '/' ∉ cand ∧ cand ≠ dotdot ∧ cand ≠ dot := by
    intro hok q hq
    simp only [List.mem_flatten, List.mem_map] at hq
    obtain ⟨l, ⟨d, hd, rfl⟩, hq⟩ := hq
    obtain ⟨cand, hcand, rfl⟩ := List.mem_map.mp hq
    obtain ⟨h1, h2, h3, h4⟩ := C19_schema_name n d hok cand hcand
    exact ⟨d, hd, cand, h1, h2, h3, h4⟩
  refine ⟨fun h => by simp [schemaProbe, h], ?_, ?_⟩
  · intro q hq
    unfold schemaProbe at hq
    split at hq
    · rename_i hok
      rcases (schemaProbe_go_spec fs fuel _ []).1 q hq with h | h
      · simp at h
      · exact hc hok q h
    · simp at hq
  · intro q hq
    unfold schemaProbe at hq
    split at hq
    · rename_i hok
      obtain ⟨h1, h2⟩ := (schemaProbe_go_spec fs fuel _ []).2 q hq
      exact ⟨hc hok q h1, h2⟩
    · simp at hq

example : schemaNameOk "SESSION_LOG".toList = true ∧ schemaNameOk "A\n".toList = true := by decide
example : schemaNameOk "../secret".toList = false ∧ schemaNameOk "A/B".toList = false ∧ schemaNameOk "A.B".toList = false ∧
    schemaNameOk "a".toList = false ∧ schemaNameOk "".toList = false ∧ schemaNameOk "A\n\n".toList = false := by decide
example : schemaCandidates "META".toList = ["meta.oct.md".toList, "META.oct.md".toList] := by decide

/-! ## C19_frozen -/

/-- **A `frozen@sha256:` reference resolves only to a file of the cache directory whose bytes hash to that digest**:
for every hash function `H`, file system, cache directory and reference. -/
theorem C19_frozen (H : Str → Str) (fs : Fs) (fuel : Nat) (cache : List Str) (pfx : Nat) (ref : Str) (q : List Str)
    (hpre : frozenPrefix.isPrefixOf ref = true)
    (h : resolveStandard H fs fuel cache pfx ref = .ok q) :
    ∃ hex, ref = frozenPrefix ++ hex ∧ hex.length = 64 ∧ hex.all isHexChar = true ∧
      q = cache ++ [(hex.map Char.toLower).take pfx ++ octMd] ∧
      ∃ content, readFile fs fuel q = some content ∧ H content = hex.map Char.toLower := by
  unfold resolveStandard at h
  have hnl : ref ≠ "latest".toList := by
    intro hc; rw [hc] at hpre; revert hpre; decide
  simp only [hnl, if_false, hpre, if_true] at h
  split at h
  · simp at h
  · rename_i hex hparse
    have hshape : ref = frozenPrefix ++ hex ∧ hex.length = 64 ∧ hex.all isHexChar = true := by
      unfold parseFrozen at hparse
      simp only [hpre, if_true] at hparse
      split at hparse
      · rename_i hc
        simp at hparse
        subst hparse
        refine ⟨?_, hc.1, hc.2⟩
        have := List.isPrefixOf_iff_prefix.mp hpre
        obtain ⟨t, ht⟩ := this
        rw [← ht]; simp
      · simp at hparse
    have hnoslash : '/' ∉ (hex.map Char.toLower).take pfx := by
      intro hm
      have hm' := List.mem_of_mem_take hm
      obtain ⟨c, hc, hcl⟩ := List.mem_map.mp hm'
      exact toLower_ne_slash c (isHexChar_ne_slash (List.all_eq_true.mp hshape.2.2 c hc)) hcl
    have hjoin := (name_octMd_single cache _ hnoslash).1
    rw [hjoin] at h
    split at h
    · simp at h
    · simp at h
    · split at h
      · simp at h
      · rename_i content hread
        split at h
        · rename_i hhash
          simp at h
          subst h
          exact ⟨hex, hshape.1, hshape.2.1, hshape.2.2, rfl, content, hread, List.append_cancel_left hhash⟩
        · simp at h

/-- the shape test of the model is the regex of the source: 64 characters, each in `[0-9a-fA-F]` (`gen_frozen`), and the
cache file is looked up under the first `Gen.frozenPrefixLen` = 16 digits -/
example : parseFrozen ("frozen@sha256:".toList ++ List.replicate 64 'a') = some (List.replicate 64 'a') := by decide
example : parseFrozen ("frozen@sha256:".toList ++ List.replicate 63 'a') = none := by decide
example : parseFrozen ("frozen@sha256:".toList ++ List.replicate 63 'a' ++ ['/']) = none := by decide
example : parseFrozen ("frozen@sha256:../../etc/passwd".toList) = none := by decide

def fsCache : List (List Str × Node) :=
  [(["c".toList], .dir), (["c".toList, (List.replicate 16 'a') ++ octMd], .file "GOOD".toList)]

/-- non-vacuity: with `H "GOOD" = a…a` the reference (in upper case) resolves to the cache file; with another `H` it does not -/
example : resolveStandard (fun _ => List.replicate 64 'a') (Fs.ofList fsCache) 20 ["c".toList] 16 ("frozen@sha256:".toList ++ List.replicate 64 'A')
    = .ok ["c".toList, (List.replicate 16 'a') ++ octMd] := by decide
example : resolveStandard (fun _ => List.replicate 64 'b') (Fs.ofList fsCache) 20 ["c".toList] 16 ("frozen@sha256:".toList ++ List.replicate 64 'A')
    = .error .mismatch := by decide

/-! ## C19_source_uri -/

/-- lexical containment holds always … -/
theorem C19_source_uri_lexical (fs : Fs) (fuel : Nat) (fix : Bool) (base : List Str) (u : Str) (r : List Str)
    (h : validateSourceUri fs fuel fix base u = .ok r) :
    ∃ b, resolveU fs fuel base = .ok b ∧ b <+: r := by
  unfold validateSourceUri at h
  split at h
  · simp at h
  · rename_i b hb
    refine ⟨b, hb, ?_⟩
    split at h
    · simp at h
    · split at h
      · simp at h
      · rename_i r0 hr0
        split at h
        · split at h
          · simp at h
          · split at h
            · simp at h
            · split at h
              · rename_i hp; simp at h; subst h; exact List.isPrefixOf_iff_prefix.mp hp
              · simp at h
        · split at h
          · rename_i hp; simp at h; subst h; exact List.isPrefixOf_iff_prefix.mp hp
          · simp at h

/-- validate_source_uri re-resolves its result and demands a fixed point (commit 7419f17, finding F60) -/
theorem gen_source_uri_fixpoint : Gen.sourceUriFixpoint = true := by decide

/-- **A source URI never resolves outside its base, full strength** (for the function with the fixed-point test): the
returned path `r` lies below the resolved base as a list of components, and whatever object the operating system
reaches through `r` (following every link: `kstat`) is `r` itself — no component of `r` redirects anywhere. -/
theorem C19_source_uri (fs : Fs) (fuel : Nat) (base : List Str) (u : Str) (r : List Str)
    (h : validateSourceUri fs fuel true base u = .ok r) :
    ∃ b, resolveU fs fuel base = .ok b ∧ b <+: r ∧ ∀ c, kstat fs fuel r = .ok c → c = r := by
  obtain ⟨b, hb, hpre⟩ := C19_source_uri_lexical fs fuel true base u r h
  refine ⟨b, hb, hpre, ?_⟩
  unfold validateSourceUri at h
  simp only [hb] at h
  split at h
  · simp at h
  · split at h
    · simp at h
    · rename_i r0 hr0
      simp only [if_true] at h
      split at h
      · simp at h
      · rename_i r' hr'
        split at h
        · simp at h
        · rename_i hfix
          have hfix' : r' = r0 := by simpa using hfix
          subst hfix'
          have hr : r = r' := by split at h <;> simp at h; exact h.symm
          subst hr
          -- resolveU r = ok r
          intro c hc
          unfold kstat at hc
          have hrp := kWalk_ok_rpWalk fs fuel [] r [] c hc
          unfold resolveU at hr'
          rcases hrp with hrp | hrp
          · rw [hrp] at hr'
            simp only [] at hr'
            split at hr'
            · simp at hr'
            · split at hr' <;> simp at hr' <;> exact hr'
          · rw [hrp] at hr'; simp at hr'

/-- **the version without the fixed-point test is PARTIAL (F60)**: the returned path is free of symlinks in every
component only when resolving `base / u` does not run into a symlink cycle (`uriMeetsLoop`); `Path.resolve(strict=False)`
otherwise returns a partially resolved path.  Holds for both shapes of the function. -/
theorem C19_source_uri_old_shape_partial (fs : Fs) (fuel : Nat) (fix : Bool) (base : List Str) (u : Str) (r : List Str)
    (hloop : uriMeetsLoop fs fuel base u = false)
    (h : validateSourceUri fs fuel fix base u = .ok r) :
    ∃ b, resolveU fs fuel base = .ok b ∧ b <+: r ∧ physLinkFree fs r := by
  obtain ⟨b, hb, hpre⟩ := C19_source_uri_lexical fs fuel fix base u r h
  refine ⟨b, hb, hpre, ?_⟩
  unfold validateSourceUri at h
  simp only [hb] at h
  unfold uriMeetsLoop at hloop
  simp only [hb] at hloop
  split at h
  · simp at h
  · split at h
    · simp at h
    · rename_i r0 hr0
      have hr : r = r0 := by
        split at h
        · split at h
          · simp at h
          · split at h
            · simp at h
            · split at h <;> simp at h; exact h.symm
        · split at h <;> simp at h; exact h.symm
      subst hr
      unfold resolveU at hr0
      split at hr0
      · simp at hr0
      · simp at hr0
      · rename_i p hrp
        have : r = p := by
          split at hr0
          · simp at hr0
          · split at hr0 <;> simp at hr0 <;> exact hr0.symm
        subst this
        exact rpWalk_done_physLinkFree fs fuel [] _ [] r (physLinkFree_nil fs) hrp
      · rename_i np rest hrp
        rw [hrp] at hloop
        simp at hloop

def fsLoop : List (List Str × Node) :=
  [(["b".toList], .dir), (["b".toList, "loop".toList], .link "loop".toList),
   (["b".toList, "lf.md".toList], .link "/out/secret.md".toList), (["out".toList], .dir), (["out".toList, "secret.md".toList], .file [])]

/-- **F60** (regression witness): without the fixed-point test `loop/../lf.md` is accepted and the path returned,
`b/lf.md`, is a symlink to `/out/secret.md` outside the base `b`. -/
theorem C19_source_uri_unfixed_escapes :
    validateSourceUri (Fs.ofList fsLoop) 20 false ["b".toList] "loop/../lf.md".toList = .ok ["b".toList, "lf.md".toList] ∧
    pyIsSymlink (Fs.ofList fsLoop) 20 ["b".toList, "lf.md".toList] = .ok true ∧
    pyResolve (Fs.ofList fsLoop) 20 ["b".toList, "lf.md".toList] = .ok ["out".toList, "secret.md".toList] ∧
    uriMeetsLoop (Fs.ofList fsLoop) 20 ["b".toList] "loop/../lf.md".toList = true ∧ wfCheck fsLoop = true := by decide

/-- with the fixed-point test the witness is refused -/
example : validateSourceUri (Fs.ofList fsLoop) 20 true ["b".toList] "loop/../lf.md".toList = .error .resolveFailed := by decide
/-- non-vacuity: an ordinary URI with `..` that stays inside is accepted (both shapes), one that leaves is refused -/
example : validateSourceUri (Fs.ofList fsLive) 20 true ["sb".toList] "d/../d/f.md".toList = .ok ["sb".toList, "d".toList, "f.md".toList] := by decide
example : validateSourceUri (Fs.ofList fsLive) 20 false ["sb".toList] "d/../d/f.md".toList = .ok ["sb".toList, "d".toList, "f.md".toList] ∧
    uriMeetsLoop (Fs.ofList fsLive) 20 ["sb".toList] "d/../d/f.md".toList = false := by decide
example : validateSourceUri (Fs.ofList fsLive) 20 true ["sb".toList] "../out/secret.md".toList = .error .outside := by decide
example : validateSourceUri (Fs.ofList fsLive) 20 true ["sb".toList] "lin/../../out/secret.md".toList = .error .outside := by decide
example : validateSourceUri (Fs.ofList fsLive) 20 true ["sb".toList] "/out/secret.md".toList = .error .absolute := by decide
/-- the statements of validate_source_uri, in order (the fixed-point test inside the first `try` is
recognised separately as `Gen.sourceUriFixpoint`) -/
theorem gen_source_uri_shape : Gen.sourceUriShape.length = 6 ∧
    Gen.sourceUriShape.take 3 = ["base_path = base_path.resolve()",
      "if source_uri.startswith('/') or (len(source_uri) > 1 and source_uri[1] == ':'): raise",
      "candidate = base_path / source_uri"] ∧
    Gen.sourceUriShape.drop 4 = ["try resolved.relative_to(base_path) except ValueError: raise", "return resolved"] := by decide

end Octave.C19
