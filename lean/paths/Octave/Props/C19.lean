import Octave.Model.Paths
import Octave.Gen.Paths
namespace Octave.C19
open Octave

theorem placeholder_true : True := trivial

end Octave.C19
