/-
Lemmas about `suffix`, `suffixes` and the extension allow-list.
-/
import Octave.Model.Paths
namespace Octave
open List

def mdS : Str := ['.', 'm', 'd']
def octaveS : Str := ['.', 'o', 'c', 't', 'a', 'v', 'e']
def octMdS : Str := ['.', 'o', 'c', 't', '.', 'm', 'd']

/-- `s.split(c)` joined with `c` gives `s` back -/
def joinWith (c : Char) : List Str → Str
  | [] => []
  | [x] => x
  | x :: y :: t => x ++ c :: joinWith c (y :: t)

theorem splitOnChar_ne_nil (c : Char) (s : Str) : splitOnChar c s ≠ [] := by
  induction s with
  | nil => simp [splitOnChar]
  | cons a s ih =>
    simp only [splitOnChar]
    split
    · simp
    · split <;> simp

theorem joinWith_splitOnChar (c : Char) (s : Str) : joinWith c (splitOnChar c s) = s := by
  induction s with
  | nil => simp [splitOnChar, joinWith]
  | cons a s ih =>
    simp only [splitOnChar]
    split
    · rename_i h; exact absurd h (splitOnChar_ne_nil c s)
    · rename_i h t heq
      rw [heq] at ih
      split
      · rename_i hc
        subst hc
        simp [joinWith, ih]
      · cases t with
        | nil => simp [joinWith] at ih ⊢; exact ih
        | cons y t => simp [joinWith] at ih ⊢; exact ih

theorem splitOnChar_parts_no_sep (c : Char) (s : Str) : ∀ p ∈ splitOnChar c s, c ∉ p := by
  induction s with
  | nil => simp [splitOnChar]
  | cons a s ih =>
    simp only [splitOnChar]
    split
    · simp
    · rename_i h t heq
      rw [heq] at ih
      split
      · intro p hp
        rcases List.mem_cons.mp hp with rfl | hp
        · simp
        · exact ih p hp
      · rename_i hne
        intro p hp
        rcases List.mem_cons.mp hp with rfl | hp
        · intro hmem
          rcases List.mem_cons.mp hmem with hx | hx
          · exact hne hx.symm
          · exact ih h (by simp) hx
        · exact ih p (by simp [hp])

/-- a list with a separator-free tail: joinWith of `pre ++ [a, b]` -/
theorem joinWith_append_two (c : Char) : ∀ (pre : List Str) (a b : Str),
    ∃ front : Str, joinWith c (pre ++ [a, b]) = front ++ a ++ c :: b := by
  intro pre
  induction pre with
  | nil => intro a b; exact ⟨[], by simp [joinWith]⟩
  | cons x pre ih =>
    intro a b
    obtain ⟨front, hf⟩ := ih a b
    cases pre with
    | nil => exact ⟨x ++ [c], by simp [joinWith]⟩
    | cons y pre =>
      refine ⟨x ++ c :: front, ?_⟩
      simp only [List.cons_append, joinWith] at hf ⊢
      rw [hf]; simp

/-! ### suffix -/

theorem dropWhile_head_false {α : Type} (p : α → Bool) : ∀ (l : List α) (x : α) (t : List α), l.dropWhile p = x :: t → p x = false := by
  intro l
  induction l with
  | nil => intro x t h; simp at h
  | cons a l ih =>
    intro x t h
    simp only [List.dropWhile] at h
    split at h
    · exact ih x t h
    · rename_i hp
      simp at h
      rw [← h.1]; simpa using hp

theorem mem_takeWhile_true {α : Type} (p : α → Bool) : ∀ (l : List α) (x : α), x ∈ l.takeWhile p → p x = true := by
  intro l
  induction l with
  | nil => intro x h; simp at h
  | cons a l ih =>
    intro x h
    simp only [List.takeWhile] at h
    split at h
    · rename_i hp
      rcases List.mem_cons.mp h with rfl | h
      · exact hp
      · exact ih x h
    · simp at h

theorem notDot_iff (c : Char) : notDot c = true ↔ c ≠ '.' := by simp [notDot]

theorem suffixOf_eq_iff (name ext : Str) (hext : ext ≠ []) (hnd : '.' ∉ ext) :
    suffixOf name = '.' :: ext ↔ ∃ stem, stem ≠ [] ∧ name = stem ++ '.' :: ext := by
  constructor
  · intro h
    unfold suffixOf at h
    simp only [] at h
    have hsplit := List.takeWhile_append_dropWhile (p := notDot) (l := name.reverse)
    generalize htw : List.takeWhile notDot name.reverse = tw at *
    split at h
    · simp at h
    · rename_i x before hdw
      split at h
      · simp at h
      · rename_i hcond
        simp only [not_or] at hcond
        rw [hdw] at hsplit
        have hx : x = '.' := by
          have := dropWhile_head_false notDot _ _ _ hdw
          simpa [notDot] using this
        subst hx
        have hext' : tw.reverse = ext := by simpa using h
        refine ⟨before.reverse, by simpa using hcond.1, ?_⟩
        have := congrArg List.reverse hsplit
        rw [List.reverse_reverse, List.reverse_append, List.reverse_cons, List.append_assoc, hext'] at this
        simpa using this.symm
  · rintro ⟨stem, hs, rfl⟩
    unfold suffixOf
    have hrev : (stem ++ '.' :: ext).reverse = ext.reverse ++ '.' :: stem.reverse := by simp
    have hall : ∀ x ∈ ext.reverse, notDot x = true := by
      intro x hx
      rw [notDot_iff]
      exact fun hc => hnd (by rw [← hc]; simpa using hx)
    have htw : List.takeWhile notDot (ext.reverse ++ '.' :: stem.reverse) = ext.reverse := by
      rw [List.takeWhile_append_of_pos hall]
      simp [List.takeWhile, notDot]
    have hdw : List.dropWhile notDot (ext.reverse ++ '.' :: stem.reverse) = '.' :: stem.reverse := by
      rw [List.dropWhile_append_of_pos hall]
      simp [List.dropWhile, notDot]
    simp only [hrev, htw, hdw]
    simp [hs, hext]

theorem suffixOf_no_inner_dot (name : Str) : ∀ e, suffixOf name = '.' :: e → '.' ∉ e := by
  intro e h
  unfold suffixOf at h
  simp only [] at h
  split at h
  · simp at h
  · split at h
    · simp at h
    · have he : e = (List.takeWhile notDot name.reverse).reverse := by simpa using h.symm
      intro hmem
      rw [he] at hmem
      have := mem_takeWhile_true notDot _ _ (List.mem_reverse.mp hmem)
      simp [notDot] at this

theorem suffixOf_nil_or_dot (name : Str) : suffixOf name = [] ∨ ∃ e, suffixOf name = '.' :: e := by
  unfold suffixOf
  simp only []
  split
  · left; rfl
  · split
    · left; rfl
    · right; exact ⟨_, rfl⟩

/-! ### the compound suffix (`"".join(path.suffixes[-2:])`) -/

theorem joinWith_append_two' (c : Char) : ∀ (pre : List Str) (a b : Str), pre ≠ [] →
    ∃ front : Str, joinWith c (pre ++ [a, b]) = front ++ c :: (a ++ c :: b) := by
  intro pre
  induction pre with
  | nil => intro a b h; exact absurd rfl h
  | cons x pre ih =>
    intro a b _
    cases pre with
    | nil => exact ⟨x, by simp [joinWith]⟩
    | cons y pre =>
      obtain ⟨front, hf⟩ := ih a b (by simp)
      refine ⟨x ++ c :: front, ?_⟩
      simp only [List.cons_append, joinWith] at hf ⊢
      rw [hf]; simp

theorem split_first_sep_unique (c : Char) : ∀ (a a' b b' : Str), c ∉ a → c ∉ a' → a ++ c :: b = a' ++ c :: b' → a = a' ∧ b = b' := by
  intro a
  induction a with
  | nil =>
    intro a' b b' _ ha' h
    cases a' with
    | nil => simpa using h
    | cons x a' =>
      simp at h
      exact absurd (by rw [← h.1]; simp) ha'
  | cons x a ih =>
    intro a' b b' ha ha' h
    cases a' with
    | nil =>
      simp at h
      exact absurd (by rw [h.1]; simp) ha
    | cons y a' =>
      simp at h
      obtain ⟨hxy, hrest⟩ := h
      have := ih a' b b' (fun hc => ha (by simp [hc])) (fun hc => ha' (by simp [hc])) hrest
      exact ⟨by rw [hxy, this.1], this.2⟩

theorem exists_last_two {α : Type} : ∀ (l : List α), l.length ≥ 2 → ∃ init a b, l = init ++ [a, b] := by
  intro l
  induction l with
  | nil => intro h; simp at h
  | cons x l ih =>
    intro h
    by_cases h2 : l.length ≥ 2
    · obtain ⟨init, a, b, hl⟩ := ih h2
      exact ⟨x :: init, a, b, by rw [hl]; simp⟩
    · cases l with
      | nil => simp at h
      | cons y l =>
        cases l with
        | nil => exact ⟨[], x, y, by simp⟩
        | cons z l => simp at h2

/-- if the last two suffixes joined are one of the allowed extensions, the name already ends in `.md` -/
theorem compound_two_allowed (name : Str) (h2 : (suffixesOf name).length ≥ 2)
    (hX : ((suffixesOf name).drop ((suffixesOf name).length - 2)).flatten = mdS ∨
          ((suffixesOf name).drop ((suffixesOf name).length - 2)).flatten = octMdS ∨
          ((suffixesOf name).drop ((suffixesOf name).length - 2)).flatten = octaveS) :
    ∃ stem, stem ≠ [] ∧ name = stem ++ mdS := by
  unfold suffixesOf at h2 hX
  by_cases hlast : name.getLast? = some '.'
  · simp [hlast] at h2
  · simp only [if_neg hlast] at h2 hX
    generalize hparts : splitOnChar '.' (name.dropWhile isDot) = parts at *
    have hjoin : joinWith '.' parts = name.dropWhile isDot := by rw [← hparts]; exact joinWith_splitOnChar '.' _
    have hnodot : ∀ p ∈ parts, '.' ∉ p := by rw [← hparts]; exact splitOnChar_parts_no_sep '.' _
    simp only [List.length_map, List.length_drop] at h2
    obtain ⟨p0, tl, hp⟩ : ∃ p0 tl, parts = p0 :: tl := by
      cases parts with
      | nil => simp at h2
      | cons p0 tl => exact ⟨p0, tl, rfl⟩
    subst hp
    simp only [List.drop_succ_cons, List.drop_zero, List.length_cons] at h2 hX
    obtain ⟨init, a, b, htl'⟩ := exists_last_two tl (by omega)
    subst htl'
    have hdrop : (List.map (fun x => '.' :: x) (init ++ [a, b])).drop ((List.map (fun x => '.' :: x) (init ++ [a, b])).length - 2)
        = ['.' :: a, '.' :: b] := by
      simp only [List.map_append, List.length_append, List.length_map, List.map_cons, List.map_nil, List.length_cons, List.length_nil]
      rw [show init.length + (0 + 1 + 1) - 2 = (List.map (fun x => '.' :: x) init).length by simp]
      simp
    rw [hdrop] at hX
    simp only [List.flatten_cons, List.flatten_nil, List.append_nil, List.cons_append] at hX
    have ha : '.' ∉ a := hnodot a (by simp)
    have hb : '.' ∉ b := hnodot b (by simp)
    have hab : a = ['o', 'c', 't'] ∧ b = ['m', 'd'] := by
      rcases hX with h | h | h
      · exfalso
        have : '.' ∈ a ++ '.' :: b := by simp
        have h' : a ++ '.' :: b = ['m', 'd'] := by simpa [mdS] using h
        rw [h'] at this; simp at this
      · have h' : a ++ '.' :: b = ['o', 'c', 't'] ++ '.' :: ['m', 'd'] := by simpa [octMdS] using h
        exact split_first_sep_unique '.' a _ b _ ha (by decide) h'
      · exfalso
        have : '.' ∈ a ++ '.' :: b := by simp
        have h' : a ++ '.' :: b = ['o', 'c', 't', 'a', 'v', 'e'] := by simpa [octaveS] using h
        rw [h'] at this; simp at this
    obtain ⟨front, hfront⟩ := joinWith_append_two' '.' (p0 :: init) a b (by simp)
    have hname : name = name.takeWhile isDot ++ name.dropWhile isDot := (List.takeWhile_append_dropWhile).symm
    rw [← hjoin] at hname
    have : p0 :: (init ++ [a, b]) = (p0 :: init) ++ [a, b] := by simp
    rw [this, hfront, hab.1, hab.2] at hname
    generalize name.takeWhile isDot = dots at hname
    refine ⟨dots ++ front ++ ['.', 'o', 'c', 't'], by simp, ?_⟩
    rw [hname]
    simp [mdS]

/-- **the extension stage, characterised**: with the allow-list {".md", ".oct.md", ".octave"} a name is accepted
exactly when it is a non-empty stem followed by `.md` or `.octave` (case-sensitive).  `.oct.md` is a special case
of `.md`: the `compound_suffix` branch of the code never decides anything. -/
theorem extAllowed_iff (allowed : List Str) (hA : ∀ x, x ∈ allowed ↔ (x = mdS ∨ x = octMdS ∨ x = octaveS)) (name : Str) :
    extAllowed allowed name = true ↔ ∃ stem, stem ≠ [] ∧ (name = stem ++ mdS ∨ name = stem ++ octaveS) := by
  have hsuf : suffixOf name ∈ allowed → ∃ stem, stem ≠ [] ∧ (name = stem ++ mdS ∨ name = stem ++ octaveS) := by
    intro hm
    rcases (hA _).mp hm with h | h | h
    · obtain ⟨stem, hs, hn⟩ := (suffixOf_eq_iff name ['m', 'd'] (by decide) (by decide)).mp h
      exact ⟨stem, hs, Or.inl hn⟩
    · exfalso
      have := suffixOf_no_inner_dot name ['o', 'c', 't', '.', 'm', 'd'] h
      exact this (by decide)
    · obtain ⟨stem, hs, hn⟩ := (suffixOf_eq_iff name ['o', 'c', 't', 'a', 'v', 'e'] (by decide) (by decide)).mp h
      exact ⟨stem, hs, Or.inr hn⟩
  constructor
  · intro h
    unfold extAllowed at h
    simp only [Bool.or_eq_true, List.contains_iff_mem] at h
    rcases h with h | h
    · exact hsuf h
    · unfold compoundSuffix at h
      simp only [] at h
      split at h
      · rename_i h2
        obtain ⟨stem, hs, hn⟩ := compound_two_allowed name h2 ((hA _).mp h)
        exact ⟨stem, hs, Or.inl hn⟩
      · exact hsuf h
  · rintro ⟨stem, hs, h | h⟩
    · have : suffixOf name = mdS := (suffixOf_eq_iff name ['m', 'd'] (by decide) (by decide)).mpr ⟨stem, hs, h⟩
      unfold extAllowed
      simp only [Bool.or_eq_true, List.contains_iff_mem]
      left; rw [this]; exact (hA _).mpr (Or.inl rfl)
    · have : suffixOf name = octaveS := (suffixOf_eq_iff name ['o', 'c', 't', 'a', 'v', 'e'] (by decide) (by decide)).mpr ⟨stem, hs, h⟩
      unfold extAllowed
      simp only [Bool.or_eq_true, List.contains_iff_mem]
      left; rw [this]; exact (hA _).mpr (Or.inr (Or.inr rfl))

end Octave
