/-
Lemmas about the validators of Model/Paths.lean: what an accepted path looks like.
-/
import Octave.Lemmas.Walk
namespace Octave
open List

/-- the absolute path (components) the validators look at -/
def absParts (cwd : List Str) (s : Str) : List Str := (pyAbsolute cwd (parsePath s)).2

/-- a symlink that the code deliberately lets through: depth ≤ bound and it resolves below `/<first>/` -/
def systemExempt (fs : Fs) (fuel : Nat) (ex : Exempt) (cur : List Str) : Prop :=
  ∃ rt, pyResolve fs fuel cur = .ok rt ∧ exemptOk ex (cur.length + 1) rt = true

/-- "no symlink in any component, including the last" (modulo the system exemption of the code) -/
def noSymlinkComponent (fs : Fs) (fuel : Nat) (ex : Exempt) (parts : List Str) : Prop :=
  ∀ pre name, (pre ++ [name]) <+: parts → pyIsSymlink fs fuel (pre ++ [name]) = .ok true → systemExempt fs fuel ex (pre ++ [name])

theorem validatePath_ok_stage {fs : Fs} {fuel : Nat} {cfg : WalkCfg} {ex : Exempt} {allowed : List Str} {cwd : List Str} {s : Str} :
    ∀ {order : List Stage}, validatePath fs fuel cfg ex allowed cwd s order = .ok () →
      ∀ st ∈ order, runStage fs fuel cfg ex allowed cwd s st = .ok () := by
  intro order
  induction order with
  | nil => intro _ st hst; simp at hst
  | cons a rest ih =>
    intro h st hst
    simp only [validatePath] at h
    split at h
    · simp at h
    · rename_i ha
      rcases List.mem_cons.mp hst with rfl | hmem
      · exact ha
      · exact ih h st hmem

theorem parsePath_tail_mem {s : Str} {c : Str} (h : c ∈ (parsePath s).tail) : c ≠ [] ∧ c ≠ dot := by
  unfold parsePath at h
  simp only [List.mem_filter] at h
  simpa using h.2

theorem dotdotStage_ok {s : Str} (h : dotdotStage s = .ok ()) : dotdot ∉ (parsePath s).tail := by
  unfold dotdotStage at h
  split at h
  · simp at h
  · rename_i hc; simpa using hc

theorem extStage_ok {allowed : List Str} {s : Str} (h : extStage allowed s = .ok ()) :
    extAllowed allowed (pathName (parsePath s)) = true := by
  unfold extStage at h
  split at h
  · assumption
  · simp at h

theorem absParts_normal {cwd : List Str} {s : Str} (hcwd : ∀ c ∈ cwd, normalName c) (hdd : dotdot ∉ (parsePath s).tail) :
    ∀ c ∈ absParts cwd s, normalName c := by
  intro c hc
  have htail : ∀ c ∈ (parsePath s).tail, normalName c := by
    intro c hc
    obtain ⟨h1, h2⟩ := parsePath_tail_mem hc
    exact ⟨h1, h2, fun h => hdd (h ▸ hc)⟩
  unfold absParts pyAbsolute at hc
  split at hc
  · rcases List.mem_append.mp hc with h | h
    · exact hcwd c h
    · exact htail c h
  · exact htail c hc

/-! ### the component walk -/

theorem walkPrefixes_ok {fs : Fs} {fuel : Nat} {cfg : WalkCfg} {ex : Exempt} :
    ∀ (rest pre : List Str), walkPrefixes fs fuel cfg ex pre rest = .ok () →
      (cfg.useExists = false ∨ noDangling fs fuel (pre ++ rest)) →
      ∀ q, pre <+: q → q ≠ pre → q <+: pre ++ rest → pyIsSymlink fs fuel q = .ok true → systemExempt fs fuel ex q := by
  intro rest
  induction rest with
  | nil =>
    intro pre _ _ q h1 h2 h3 _
    simp at h3
    exact absurd (h3.eq_of_length (Nat.le_antisymm h3.length_le h1.length_le)) h2
  | cons part rest ih =>
    intro pre h hg q hq1 hq2 hq3 hsym
    have hcur : pre ++ part :: rest = (pre ++ [part]) ++ rest := by simp
    -- either q is the current prefix, or it extends it
    by_cases hqc : q = pre ++ [part]
    · subst hqc
      simp only [walkPrefixes] at h
      split at h
      · simp at h
      · rename_i hlt
        -- linkTest said "not a link" although is_symlink is true: only possible with exists() = False
        unfold linkTest at hlt
        split at hlt
        · rename_i hue
          split at hlt
          · simp at hlt
          · rename_i hex
            rcases hg with hg | hg
            · simp [hg] at hue
            · have := hg pre part (by simp) hsym
              rw [this] at hex; simp at hex
          · rw [hsym] at hlt; simp at hlt
        · rw [hsym] at hlt; simp at hlt
      · split at h
        · simp at h
        · rename_i rt hrt
          split at h
          · rename_i hexm; exact ⟨rt, hrt, hexm⟩
          · simp at h
    · -- q is longer than pre ++ [part]
      have hpre' : pre ++ [part] <+: q := by
        obtain ⟨t, ht⟩ := hq1
        obtain ⟨u, hu⟩ := hq3
        cases t with
        | nil => simp at ht; exact absurd ht.symm hq2
        | cons x t =>
          have : pre ++ x :: t ++ u = pre ++ part :: rest := by rw [ht]; exact hu
          have hx : x = part := by
            have := List.append_cancel_left (by simpa using this : pre ++ (x :: (t ++ u)) = pre ++ (part :: rest))
            simp at this; exact this.1
          subst hx
          exact ⟨t, by rw [← ht]; simp⟩
      have hwalk : walkPrefixes fs fuel cfg ex (pre ++ [part]) rest = .ok () := by
        simp only [walkPrefixes] at h
        split at h
        · simp at h
        · exact h
        · split at h
          · simp at h
          · split at h
            · exact h
            · simp at h
      exact ih (pre ++ [part]) hwalk (by rw [← hcur]; exact hg) q hpre' hqc (by rw [← hcur]; exact hq3) hsym

/-! ### `resolve()` returned the path unchanged -/

theorem statProbe_ok {fs : Fs} {fuel : Nat} {p r : List Str} (h : statProbe fs fuel p = .ok r) : r = p := by
  unfold statProbe at h
  split at h
  · simp at h
  · split at h <;> simp at h <;> exact h.symm

theorem pyResolve_fixed_no_symlink {fs : Fs} (wf : fs.WF) {fuel : Nat} {parts : List Str}
    (hn : ∀ c ∈ parts, normalName c) (hnd : noDangling fs fuel parts) (h : pyResolve fs fuel parts = .ok parts) :
    ∀ pre name, (pre ++ [name]) <+: parts → pyIsSymlink fs fuel (pre ++ [name]) ≠ .ok true := by
  unfold pyResolve at h
  split at h
  · simp at h
  · simp at h
  · rename_i p hrp
    have hp : p = parts := (statProbe_ok h).symm
    subst hp
    exact pyIsSymlink_ne_true_of_phys hn (rpWalk_done_physLinkFree fs fuel [] p [] p (physLinkFree_nil fs) hrp)
  · rename_i np r hrp
    cases fuel with
    | zero => simp [rpWalk] at hrp
    | succ f =>
      exact absurd hrp (rpWalk_top_no_loop fs wf parts (f + 1) [] [] hn (by simp [kWalk]) (by simp) (by simpa using hnd) np r)

/-! ### the symlink stage -/

theorem symlinkStage_ok {fs : Fs} {fuel : Nat} {cfg : WalkCfg} {ex : Exempt} {cwd : List Str} {s : Str}
    (hn : ∀ c ∈ absParts cwd s, normalName c)
    (hg : (cfg.useExists = false ∧ cfg.guarded = false) ∨ (fs.WF ∧ noDangling fs fuel (absParts cwd s)))
    (h : symlinkStage fs fuel cfg ex cwd s = .ok ()) : noSymlinkComponent fs fuel ex (absParts cwd s) := by
  unfold symlinkStage at h
  simp only [] at h
  split at h
  · simp at h
  · rename_i resolved hres
    split at h
    · -- the walk ran
      intro pre name hpre hsym
      refine walkPrefixes_ok (absParts cwd s) [] h ?_ (pre ++ [name]) (List.nil_prefix) (by simp) (by simpa using hpre) hsym
      rcases hg with hg | hg
      · exact Or.inl hg.1
      · exact Or.inr (by simpa using hg.2)
    · -- guarded, root "/" and resolve() returned the path itself
      rename_i hcond
      have hc : cfg.guarded = true ∧ (pyAbsolute cwd (parsePath s)).1 = 1 ∧ (pyAbsolute cwd (parsePath s)).2 = resolved := by
        simp only [not_or, Decidable.not_not] at hcond
        exact ⟨by simpa using hcond.1, hcond.2.1, hcond.2.2⟩
      rcases hg with hg | hg
      · rw [hg.2] at hc; simp at hc
      · intro pre name hpre hsym
        have hfix : pyResolve fs fuel (absParts cwd s) = .ok (absParts cwd s) := by
          unfold absParts; rw [hres, hc.2.2]
        exact absurd hsym (pyResolve_fixed_no_symlink hg.1 hn hg.2 hfix pre name hpre)

end Octave

namespace Octave
open List

/-! ### soundness of `validatePath` for every recognised shape of the walk -/

/-- what an accepted path must look like: no '..' component, no symlink in any component including the last
(except the system links the code deliberately lets through), allowed extension -/
def Confined (fs : Fs) (fuel : Nat) (ex : Exempt) (allowed : List Str) (cwd : List Str) (s : Str) : Prop :=
  dotdot ∉ (parsePath s).tail ∧
  noSymlinkComponent fs fuel ex (absParts cwd s) ∧
  extAllowed allowed (pathName (parsePath s)) = true

theorem validatePath_sound (fs : Fs) (fuel : Nat) (cfg : WalkCfg) (ex : Exempt) (allowed cwd : List Str) (s : Str)
    (order : List Stage) (hall : Stage.dotdot ∈ order ∧ Stage.symlink ∈ order ∧ Stage.ext ∈ order)
    (hcwd : ∀ c ∈ cwd, normalName c)
    (hguard : (cfg.useExists = false ∧ cfg.guarded = false) ∨ (fs.WF ∧ noDangling fs fuel (absParts cwd s)))
    (h : validatePath fs fuel cfg ex allowed cwd s order = .ok ()) :
    Confined fs fuel ex allowed cwd s := by
  have hst := validatePath_ok_stage h
  have hdd := dotdotStage_ok (hst _ hall.1)
  exact ⟨hdd, symlinkStage_ok (absParts_normal hcwd hdd) hguard (hst _ hall.2.1), extStage_ok (hst _ hall.2.2)⟩

/-! ### finite tables: a decidable well-formedness check, and `noDangling` over the finitely many prefixes -/

theorem ofList_wf {l : List (List Str × Node)} (h : wfCheck l = true) : (Fs.ofList l).WF := by
  have key : ∀ p n, (Fs.ofList l).node (p ++ [n]) ≠ none →
      utf8Len n ≤ nameMax ∧ (Fs.ofList l).get p = some .dir := by
    intro p n hne
    simp only [Fs.ofList] at hne
    cases hf : l.find? (fun e => e.1 == p ++ [n]) with
    | none => simp [hf] at hne
    | some e =>
      have hmem : e ∈ l := List.mem_of_find?_eq_some hf
      have heq : e.1 = p ++ [n] := by simpa using List.find?_some hf
      have hall := List.all_eq_true.mp h e hmem
      simp only [heq, List.getLast?_append, List.getLast?_singleton, Option.some_or, List.dropLast_concat,
        Bool.and_eq_true, decide_eq_true_eq, Bool.or_eq_true, beq_iff_eq] at hall
      refine ⟨hall.1, ?_⟩
      rcases hall.2 with hp | hp
      · subst hp; simp [Fs.get]
      · by_cases hp0 : p = []
        · subst hp0; simp [Fs.get]
        · simp only [Fs.get, hp0, if_false, Fs.ofList]
          exact hp
  exact ⟨fun p n hne => (key p n hne).2, fun p n hne => (key p n hne).1⟩

/-- `noDangling` only speaks about the non-empty prefixes of the path: a finite, decidable check -/
def noDanglingB (fs : Fs) (fuel : Nat) (parts : List Str) : Bool :=
  (List.range (parts.length + 1)).all fun k =>
    !(pyIsSymlink fs fuel (parts.take k) == .ok true) || (pyExists fs fuel (parts.take k) == .ok true)

theorem noDangling_of_B {fs : Fs} {fuel : Nat} {parts : List Str} (h : noDanglingB fs fuel parts = true) : noDangling fs fuel parts := by
  intro pre name hpre hsym
  have hlen : (pre ++ [name]).length ≤ parts.length := hpre.length_le
  have htake : parts.take (pre ++ [name]).length = pre ++ [name] := (List.prefix_iff_eq_take.mp hpre).symm
  have := List.all_eq_true.mp h (pre ++ [name]).length (List.mem_range.mpr (by omega))
  rw [htake] at this
  simp only [Bool.or_eq_true, beq_iff_eq, Bool.not_eq_true', beq_eq_false_iff_ne, ne_eq] at this
  rcases this with h1 | h1
  · exact absurd hsym h1
  · exact h1

end Octave
