/-
Fuel lemmas for the two path walkers of Model/Paths.lean (`rpWalk` = `posixpath.realpath`, `kWalk` = the kernel walk).

  * monotonicity: a walk that answers something else than `.fuel` at fuel `n` gives the SAME answer at every `m ≥ n`
    (`fuel_rpWalk_mono`, `fuel_kWalk_mono`, and the same for every function built on them);
  * adequacy: if every symlink of the file system occurs in a finite table `L` (`FuelLinks fs L`), then
    `parts.length + 1 + Σ_{(p,t) ∈ L} ((splitSlash t).length + 1)` units of fuel are enough for both walkers
    (`fuel_rpWalk_adequate`, `fuel_kWalk_adequate`).  The measure: fuel is a DEPTH bound (the sub-walk of a link
    target and the continuation behind it both run with the same remaining fuel), every step consumes one
    component, and expanding a link puts it on the `vis` stack, so the weight of the links not on the stack
    strictly drops by the size of the target that is pushed.
-/
import Octave.Lemmas.Walk
import Octave.Lemmas.Names
namespace Octave
open List

/-! ## monotonicity of the walkers -/

theorem fuel_rpWalk_mono (fs : Fs) : ∀ (n : Nat) (path parts : List Str) (vis : List (List Str)) (m : Nat),
    n ≤ m → rpWalk fs n path parts vis ≠ .fuel → rpWalk fs m path parts vis = rpWalk fs n path parts vis := by
  intro n
  induction n with
  | zero => intro path parts vis m _ h; simp [rpWalk] at h
  | succ n ih =>
    intro path parts vis m hm h
    obtain ⟨m', rfl⟩ : ∃ m', m = m' + 1 := ⟨m - 1, by omega⟩
    have hm' : n ≤ m' := by omega
    cases parts with
    | nil => simp [rpWalk]
    | cons name rest =>
      simp only [rpWalk] at h ⊢
      by_cases h1 : name = [] ∨ name = dot
      · simp only [if_pos h1] at h ⊢; exact ih _ _ _ _ hm' h
      · simp only [if_neg h1] at h ⊢
        by_cases h2 : name = dotdot
        · simp only [if_pos h2] at h ⊢; exact ih _ _ _ _ hm' h
        · simp only [if_neg h2] at h ⊢
          by_cases h3 : hasNul name = true
          · simp only [if_pos h3]
          · simp only [if_neg h3] at h ⊢
            split
            · rename_i t hst
              simp only [hst] at h
              by_cases h4 : vis.contains (path ++ [name]) = true
              · simp only [if_pos h4]
              · simp only [if_neg h4] at h ⊢
                have hsub : rpWalk fs n (if isAbsText t then [] else path) (splitSlash t) ((path ++ [name]) :: vis) ≠ .fuel := by
                  intro hc; rw [hc] at h; exact h rfl
                rw [ih _ _ _ _ hm' hsub]
                cases hr : rpWalk fs n (if isAbsText t then [] else path) (splitSlash t) ((path ++ [name]) :: vis) with
                | done p' => simp only [hr] at h ⊢; exact ih _ _ _ _ hm' h
                | loop a b => rfl
                | nul => rfl
                | fuel => rfl
            · rename_i hne
              split at h
              · rename_i t hst; exact absurd hst (hne t)
              · exact ih _ _ _ _ hm' h

theorem fuel_kWalk_mono (fs : Fs) : ∀ (n : Nat) (cur parts : List Str) (vis : List (List Str)) (m : Nat),
    n ≤ m → kWalk fs n cur parts vis ≠ .fuel → kWalk fs m cur parts vis = kWalk fs n cur parts vis := by
  intro n
  induction n with
  | zero => intro cur parts vis m _ h; simp [kWalk] at h
  | succ n ih =>
    intro cur parts vis m hm h
    obtain ⟨m', rfl⟩ : ∃ m', m = m' + 1 := ⟨m - 1, by omega⟩
    have hm' : n ≤ m' := by omega
    cases parts with
    | nil => simp [kWalk]
    | cons part rest =>
      simp only [kWalk] at h ⊢
      cases hc : fs.get cur with
      | none => rfl
      | some nd =>
        cases nd with
        | file c => rfl
        | link t => rfl
        | dir =>
          simp only [hc] at h ⊢
          by_cases h1 : part = [] ∨ part = dot
          · simp only [if_pos h1] at h ⊢; exact ih _ _ _ _ hm' h
          · simp only [if_neg h1] at h ⊢
            by_cases h2 : part = dotdot
            · simp only [if_pos h2] at h ⊢; exact ih _ _ _ _ hm' h
            · simp only [if_neg h2] at h ⊢
              by_cases h3 : utf8Len part > nameMax
              · simp only [if_pos h3]
              · simp only [if_neg h3] at h ⊢
                cases hg : fs.get (cur ++ [part]) with
                | none => rfl
                | some nd2 =>
                  cases nd2 with
                  | file c => simp only [hg] at h ⊢; exact ih _ _ _ _ hm' h
                  | dir => simp only [hg] at h ⊢; exact ih _ _ _ _ hm' h
                  | link t =>
                    simp only [hg] at h ⊢
                    by_cases h4 : vis.contains (cur ++ [part]) = true
                    · simp only [if_pos h4]
                    · simp only [if_neg h4] at h ⊢
                      have hsub : kWalk fs n (if isAbsText t then [] else cur) (splitSlash t) ((cur ++ [part]) :: vis) ≠ .fuel := by
                        intro hc'; rw [hc'] at h; exact h rfl
                      rw [ih _ _ _ _ hm' hsub]
                      cases hr : kWalk fs n (if isAbsText t then [] else cur) (splitSlash t) ((cur ++ [part]) :: vis) with
                      | ok c' => simp only [hr] at h ⊢; exact ih _ _ _ _ hm' h
                      | enoent => rfl
                      | eloop => rfl
                      | toolong => rfl
                      | fuel => rfl

/-! ## adequacy: a finite table of links bounds the fuel that is needed -/

/-- every symlink of `fs` (physical path, target text) is listed in `L`.  `Fs` is a function, so without such a
table there is no bound at all: an infinite chain `a0 -> a1 -> a2 -> …` of distinct links exhausts every fuel. -/
def FuelLinks (fs : Fs) (L : List (List Str × Str)) : Prop :=
  ∀ p t, fs.get p = some (.link t) → (p, t) ∈ L

/-- weight of a link: the components of its target, plus the step that expands it -/
def fuelW (e : List Str × Str) : Nat := (splitSlash e.2).length + 1

/-- total weight of the links that are not on the `vis` stack -/
def fuelUnseen : List (List Str × Str) → List (List Str) → Nat
  | [], _ => 0
  | e :: L, vis => (if vis.contains e.1 then 0 else fuelW e) + fuelUnseen L vis

/-- the bound: one unit per component, one for the final `[]`, and the weight of every link once -/
def fuelBound (L : List (List Str × Str)) (parts : List Str) : Nat := parts.length + 1 + fuelUnseen L []

theorem fuelUnseen_cons_le (L : List (List Str × Str)) (np : List Str) (vis : List (List Str)) :
    fuelUnseen L (np :: vis) ≤ fuelUnseen L vis := by
  induction L with
  | nil => simp [fuelUnseen]
  | cons e L ih =>
    simp only [fuelUnseen]
    have : (if (np :: vis).contains e.1 = true then 0 else fuelW e) ≤ (if vis.contains e.1 = true then 0 else fuelW e) := by
      by_cases h1 : vis.contains e.1 = true
      · have h2 : (np :: vis).contains e.1 = true := by
          rw [List.contains_cons, h1, Bool.or_true]
        rw [if_pos h1, if_pos h2]; exact Nat.le_refl _
      · rw [if_neg h1]; split <;> omega
    omega

/-- pushing an unseen link on the stack lowers the weight by the weight of that link -/
theorem fuelUnseen_push {L : List (List Str × Str)} {np : List Str} {t : Str} {vis : List (List Str)}
    (hm : (np, t) ∈ L) (hv : ¬ vis.contains np = true) :
    fuelUnseen L (np :: vis) + ((splitSlash t).length + 1) ≤ fuelUnseen L vis := by
  induction L with
  | nil => simp at hm
  | cons e L ih =>
    simp only [fuelUnseen]
    rcases List.mem_cons.mp hm with h | h
    · subst h
      have h2 : (np :: vis).contains np = true := by
        rw [List.contains_cons]; simp
      have := fuelUnseen_cons_le L np vis
      simp only [if_pos h2, if_neg hv, fuelW]
      omega
    · have := ih h
      have : (if (np :: vis).contains e.1 = true then 0 else fuelW e) ≤ (if vis.contains e.1 = true then 0 else fuelW e) := by
        by_cases h1 : vis.contains e.1 = true
        · have h2 : (np :: vis).contains e.1 = true := by
            rw [List.contains_cons, h1, Bool.or_true]
          rw [if_pos h1, if_pos h2]; exact Nat.le_refl _
        · rw [if_neg h1]; split <;> omega
      omega

theorem fuel_rpWalk_adequate_gen (fs : Fs) (L : List (List Str × Str)) (hL : FuelLinks fs L) :
    ∀ (f : Nat) (path parts : List Str) (vis : List (List Str)),
      parts.length + 1 + fuelUnseen L vis ≤ f → rpWalk fs f path parts vis ≠ .fuel := by
  intro f
  induction f with
  | zero => intro path parts vis h; omega
  | succ f ih =>
    intro path parts vis hf
    cases parts with
    | nil => simp [rpWalk]
    | cons name rest =>
      simp only [List.length_cons] at hf
      simp only [rpWalk]
      split
      · exact ih _ _ _ (by omega)
      · split
        · exact ih _ _ _ (by omega)
        · split
          · simp
          · split
            · rename_i t hst
              split
              · simp
              · rename_i h4
                have hmem : (path ++ [name], t) ∈ L := hL _ _ (lstatAt_node hst).2.2
                have hpush := fuelUnseen_push hmem h4
                have hsub := ih (if isAbsText t then [] else path) (splitSlash t) ((path ++ [name]) :: vis) (by omega)
                cases hr : rpWalk fs f (if isAbsText t then [] else path) (splitSlash t) ((path ++ [name]) :: vis) with
                | done p' => exact ih _ _ _ (by omega)
                | loop a b => simp
                | nul => simp
                | fuel => exact absurd hr hsub
            · exact ih _ _ _ (by omega)

theorem fuel_kWalk_adequate_gen (fs : Fs) (L : List (List Str × Str)) (hL : FuelLinks fs L) :
    ∀ (f : Nat) (cur parts : List Str) (vis : List (List Str)),
      parts.length + 1 + fuelUnseen L vis ≤ f → kWalk fs f cur parts vis ≠ .fuel := by
  intro f
  induction f with
  | zero => intro cur parts vis h; omega
  | succ f ih =>
    intro cur parts vis hf
    cases parts with
    | nil => simp [kWalk]
    | cons part rest =>
      simp only [List.length_cons] at hf
      simp only [kWalk]
      split
      · split
        · exact ih _ _ _ (by omega)
        · split
          · exact ih _ _ _ (by omega)
          · split
            · simp
            · split
              · simp
              · rename_i t hg
                split
                · simp
                · rename_i h4
                  have hmem : (cur ++ [part], t) ∈ L := hL _ _ hg
                  have hpush := fuelUnseen_push hmem h4
                  have hsub := ih (if isAbsText t then [] else cur) (splitSlash t) ((cur ++ [part]) :: vis) (by omega)
                  cases hr : kWalk fs f (if isAbsText t then [] else cur) (splitSlash t) ((cur ++ [part]) :: vis) with
                  | ok c' => exact ih _ _ _ (by omega)
                  | enoent => simp
                  | eloop => simp
                  | toolong => simp
                  | fuel => exact absurd hr hsub
              · exact ih _ _ _ (by omega)
      · simp

/-- `fuelBound L parts` units are enough for `realpath` -/
theorem fuel_rpWalk_adequate {fs : Fs} {L : List (List Str × Str)} (hL : FuelLinks fs L) {fuel : Nat} {parts : List Str}
    (h : fuelBound L parts ≤ fuel) (path : List Str) : rpWalk fs fuel path parts [] ≠ .fuel :=
  fuel_rpWalk_adequate_gen fs L hL fuel path parts [] h

/-- `fuelBound L parts` units are enough for the kernel walk -/
theorem fuel_kWalk_adequate {fs : Fs} {L : List (List Str × Str)} (hL : FuelLinks fs L) {fuel : Nat} {parts : List Str}
    (h : fuelBound L parts ≤ fuel) (cur : List Str) : kWalk fs fuel cur parts [] ≠ .fuel :=
  fuel_kWalk_adequate_gen fs L hL fuel cur parts [] h

/-! ## how long the answer of `realpath` can get (needed for the `p.stat()` probe that follows it) -/

/-- the longest physical path of a link in the table -/
def fuelDepth : List (List Str × Str) → Nat
  | [] => 0
  | e :: L => max e.1.length (fuelDepth L)

theorem fuelDepth_mem {L : List (List Str × Str)} {p : List Str} {t : Str} (h : (p, t) ∈ L) : p.length ≤ fuelDepth L := by
  induction L with
  | nil => simp at h
  | cons e L ih =>
    simp only [fuelDepth]
    rcases List.mem_cons.mp h with h | h
    · subst h; exact Nat.le_max_left _ _
    · exact Nat.le_trans (ih h) (Nat.le_max_right _ _)

/-- A completed resolution is at most `max |path| (depth + unseen weight) + |parts|` long.  The `max` is what
keeps the bound linear: the continuation behind a link starts from a path that is already below
`depth + unseen weight`, so the weight of a link is never counted twice. -/
theorem fuel_rpWalk_done_len (fs : Fs) (L : List (List Str × Str)) (hL : FuelLinks fs L) :
    ∀ (f : Nat) (path parts : List Str) (vis : List (List Str)) (p : List Str),
      rpWalk fs f path parts vis = .done p →
      p.length ≤ max path.length (fuelDepth L + fuelUnseen L vis) + parts.length := by
  intro f
  induction f with
  | zero => intro path parts vis p h; simp [rpWalk] at h
  | succ f ih =>
    intro path parts vis p h
    cases parts with
    | nil => simp [rpWalk] at h; subst h; simp only [List.length_nil]; omega
    | cons name rest =>
      simp only [List.length_cons]
      simp only [rpWalk] at h
      split at h
      · have := ih _ _ _ _ h; omega
      · split at h
        · have := ih _ _ _ _ h
          simp only [List.length_dropLast] at this
          omega
        · split at h
          · simp at h
          · split at h
            · rename_i t hst
              split at h
              · simp at h
              · rename_i h4
                have hmem : (path ++ [name], t) ∈ L := hL _ _ (lstatAt_node hst).2.2
                have hpush := fuelUnseen_push hmem h4
                have hdep := fuelDepth_mem hmem
                simp only [List.length_append, List.length_cons, List.length_nil] at hdep
                split at h
                · rename_i p' hin
                  have h1 := ih _ _ _ _ hin
                  have h2 := ih _ _ _ _ h
                  have h0 : (if isAbsText t = true then [] else path).length ≤ path.length := by
                    split
                    · simp
                    · exact Nat.le_refl _
                  omega
                · simp at h
                · simp at h
                · simp at h
            · have := ih _ _ _ _ h
              simp only [List.length_append, List.length_cons, List.length_nil] at this
              omega

/-- The loop exit `return join(newpath, rest), False`: `newpath` is a link of the table, `rest` is made of what
is left of `parts` and of the targets of the links in progress. -/
theorem fuel_rpWalk_loop_len (fs : Fs) (L : List (List Str × Str)) (hL : FuelLinks fs L) :
    ∀ (f : Nat) (path parts : List Str) (vis : List (List Str)) (np r : List Str),
      rpWalk fs f path parts vis = .loop np r →
      np.length ≤ fuelDepth L ∧ r.length ≤ parts.length + fuelUnseen L vis := by
  intro f
  induction f with
  | zero => intro path parts vis np r h; simp [rpWalk] at h
  | succ f ih =>
    intro path parts vis np r h
    cases parts with
    | nil => simp [rpWalk] at h
    | cons name rest =>
      simp only [List.length_cons]
      simp only [rpWalk] at h
      split at h
      · have := ih _ _ _ _ _ h; omega
      · split at h
        · have := ih _ _ _ _ _ h; omega
        · split at h
          · simp at h
          · split at h
            · rename_i t hst
              have hmem : (path ++ [name], t) ∈ L := hL _ _ (lstatAt_node hst).2.2
              have hdep := fuelDepth_mem hmem
              split at h
              · simp only [RP.loop.injEq] at h
                obtain ⟨h1, h2⟩ := h
                subst h1; subst h2
                exact ⟨hdep, by omega⟩
              · rename_i h4
                have hpush := fuelUnseen_push hmem h4
                split at h
                · have := ih _ _ _ _ _ h; omega
                · rename_i lp lrest hin
                  simp only [RP.loop.injEq] at h
                  obtain ⟨h1, h2⟩ := h
                  subst h1; subst h2
                  have := ih _ _ _ _ _ hin
                  simp only [List.length_append]
                  omega
                · simp at h
                · simp at h
            · have := ih _ _ _ _ _ h; omega

theorem fuel_normLex_len_aux (comps : List Str) : ∀ acc : List Str,
    (comps.foldl (fun acc c => if c = [] ∨ c = dot then acc else if c = dotdot then acc.dropLast else acc ++ [c]) acc).length
      ≤ acc.length + comps.length := by
  induction comps with
  | nil => intro acc; simp
  | cons c cs ih =>
    intro acc
    simp only [List.foldl_cons, List.length_cons]
    split
    · have := ih acc; omega
    · split
      · have := ih acc.dropLast
        simp only [List.length_dropLast] at this
        omega
      · have := ih (acc ++ [c])
        simp only [List.length_append, List.length_cons, List.length_nil] at this
        omega

theorem fuel_normLex_len (comps : List Str) : (normLex comps).length ≤ comps.length := by
  have := fuel_normLex_len_aux comps []
  simpa [normLex] using this

/-! ## monotonicity of everything built on the walkers -/

theorem fuel_kstat_mono {fs : Fs} {n m : Nat} {parts : List Str} (hm : n ≤ m) (h : kstat fs n parts ≠ .fuel) :
    kstat fs m parts = kstat fs n parts :=
  fuel_kWalk_mono fs n [] parts [] m hm h

theorem fuel_pyExists_mono {fs : Fs} {n m : Nat} {parts : List Str} (hm : n ≤ m)
    (h : pyExists fs n parts ≠ .error .fuel) : pyExists fs m parts = pyExists fs n parts := by
  unfold pyExists at h ⊢
  by_cases h1 : parts.any hasNul = true
  · simp only [if_pos h1]
  · simp only [if_neg h1] at h ⊢
    have hk : kstat fs n parts ≠ .fuel := by intro hc; rw [hc] at h; exact h rfl
    rw [fuel_kstat_mono hm hk]

theorem fuel_pyIsSymlink_mono {fs : Fs} {n m : Nat} {parts : List Str} (hm : n ≤ m)
    (h : pyIsSymlink fs n parts ≠ .error .fuel) : pyIsSymlink fs m parts = pyIsSymlink fs n parts := by
  unfold pyIsSymlink at h ⊢
  generalize parts.getLast? = gl at h ⊢
  match gl with
  | none => rfl
  | some last =>
    simp only at h ⊢
    by_cases h1 : parts.any hasNul = true
    · simp only [if_pos h1]
    · simp only [if_neg h1] at h ⊢
      by_cases h2 : last = dotdot ∨ last = dot ∨ last = []
      · simp only [if_pos h2] at h ⊢
        have hk : kstat fs n parts ≠ .fuel := by intro hc; rw [hc] at h; exact h rfl
        rw [fuel_kstat_mono hm hk]
      · simp only [if_neg h2] at h ⊢
        have hk : kstat fs n parts.dropLast ≠ .fuel := by intro hc; rw [hc] at h; exact h rfl
        rw [fuel_kstat_mono hm hk]

theorem fuel_statProbe_mono {fs : Fs} {n m : Nat} {p : List Str} (hm : n ≤ m)
    (h : statProbe fs n p ≠ .error .fuel) : statProbe fs m p = statProbe fs n p := by
  unfold statProbe at h ⊢
  by_cases h1 : p.any hasNul = true
  · simp only [if_pos h1]
  · simp only [if_neg h1] at h ⊢
    have hk : kstat fs n p ≠ .fuel := by intro hc; rw [hc] at h; exact h rfl
    rw [fuel_kstat_mono hm hk]

theorem fuel_pyResolve_mono {fs : Fs} {n m : Nat} {parts : List Str} (hm : n ≤ m)
    (h : pyResolve fs n parts ≠ .error .fuel) : pyResolve fs m parts = pyResolve fs n parts := by
  unfold pyResolve at h ⊢
  have hr : rpWalk fs n [] parts [] ≠ .fuel := by intro hc; rw [hc] at h; exact h rfl
  rw [fuel_rpWalk_mono fs n [] parts [] m hm hr]
  generalize rpWalk fs n [] parts [] = r at h ⊢
  match r with
  | .done p => exact fuel_statProbe_mono hm h
  | .loop np rest => exact fuel_statProbe_mono hm h
  | .nul => rfl
  | .fuel => rfl

theorem fuel_linkTest_mono {fs : Fs} {n m : Nat} {useExists : Bool} {cur : List Str} (hm : n ≤ m)
    (h : linkTest fs n useExists cur ≠ .error .fuel) : linkTest fs m useExists cur = linkTest fs n useExists cur := by
  unfold linkTest at h ⊢
  cases useExists with
  | false =>
    simp only [Bool.false_eq_true, if_false] at h ⊢
    exact fuel_pyIsSymlink_mono hm h
  | true =>
    simp only [if_true] at h ⊢
    have he : pyExists fs n cur ≠ .error .fuel := by intro hc; rw [hc] at h; exact h rfl
    rw [fuel_pyExists_mono hm he]
    generalize pyExists fs n cur = r at h ⊢
    match r with
    | .error e => rfl
    | .ok false => rfl
    | .ok true => exact fuel_pyIsSymlink_mono hm h

theorem fuel_walkPrefixes_mono {fs : Fs} {n m : Nat} {cfg : WalkCfg} {ex : Exempt} (hm : n ≤ m) :
    ∀ (rest pre : List Str), walkPrefixes fs n cfg ex pre rest ≠ .error .fuel →
      walkPrefixes fs m cfg ex pre rest = walkPrefixes fs n cfg ex pre rest := by
  intro rest
  induction rest with
  | nil => intro pre _; simp [walkPrefixes]
  | cons part rest ih =>
    intro pre h
    simp only [walkPrefixes] at h ⊢
    have hl : linkTest fs n cfg.useExists (pre ++ [part]) ≠ .error .fuel := by intro hc; rw [hc] at h; exact h rfl
    rw [fuel_linkTest_mono hm hl]
    generalize linkTest fs n cfg.useExists (pre ++ [part]) = r at h ⊢
    match r with
    | .error e => rfl
    | .ok false => exact ih _ h
    | .ok true =>
      simp only at h ⊢
      have hr : pyResolve fs n (pre ++ [part]) ≠ .error .fuel := by intro hc; rw [hc] at h; exact h rfl
      rw [fuel_pyResolve_mono hm hr]
      generalize pyResolve fs n (pre ++ [part]) = r2 at h ⊢
      match r2 with
      | .error e => rfl
      | .ok rt =>
        simp only at h ⊢
        by_cases hx : exemptOk ex ((pre ++ [part]).length + 1) rt = true
        · simp only [if_pos hx] at h ⊢; exact ih _ h
        · simp only [if_neg hx]

theorem fuel_symlinkStage_mono {fs : Fs} {n m : Nat} {cfg : WalkCfg} {ex : Exempt} {cwd : List Str} {s : Str} (hm : n ≤ m)
    (h : symlinkStage fs n cfg ex cwd s ≠ .error .fuel) :
    symlinkStage fs m cfg ex cwd s = symlinkStage fs n cfg ex cwd s := by
  unfold symlinkStage at h ⊢
  simp only at h ⊢
  have hr : pyResolve fs n (pyAbsolute cwd (parsePath s)).2 ≠ .error .fuel := by intro hc; rw [hc] at h; exact h rfl
  rw [fuel_pyResolve_mono hm hr]
  generalize pyResolve fs n (pyAbsolute cwd (parsePath s)).2 = r at h ⊢
  match r with
  | .error e => rfl
  | .ok resolved =>
    simp only at h ⊢
    split
    · rename_i hc; rw [if_pos hc] at h; exact fuel_walkPrefixes_mono hm _ _ h
    · rfl

theorem fuel_runStage_mono {fs : Fs} {n m : Nat} {cfg : WalkCfg} {ex : Exempt} {allowed : List Str} {cwd : List Str} {s : Str}
    (hm : n ≤ m) (st : Stage) (h : runStage fs n cfg ex allowed cwd s st ≠ .error .fuel) :
    runStage fs m cfg ex allowed cwd s st = runStage fs n cfg ex allowed cwd s st := by
  cases st with
  | dotdot => rfl
  | ext => rfl
  | symlink => exact fuel_symlinkStage_mono hm h

theorem fuel_validatePath_mono {fs : Fs} {n m : Nat} {cfg : WalkCfg} {ex : Exempt} {allowed : List Str} {cwd : List Str} {s : Str}
    (hm : n ≤ m) : ∀ (order : List Stage), validatePath fs n cfg ex allowed cwd s order ≠ .error .fuel →
      validatePath fs m cfg ex allowed cwd s order = validatePath fs n cfg ex allowed cwd s order := by
  intro order
  induction order with
  | nil => intro _; rfl
  | cons st rest ih =>
    intro h
    simp only [validatePath] at h ⊢
    have hr : runStage fs n cfg ex allowed cwd s st ≠ .error .fuel := by intro hc; rw [hc] at h; exact h rfl
    rw [fuel_runStage_mono hm st hr]
    generalize runStage fs n cfg ex allowed cwd s st = r at h ⊢
    match r with
    | .error e => rfl
    | .ok () => exact ih h

theorem fuel_recheckRefuses_mono {fs : Fs} {n m : Nat} {useExists : Bool} {cwd : List Str} {s : Str} (hm : n ≤ m)
    (h : recheckRefuses fs n useExists cwd s ≠ .error .fuel) :
    recheckRefuses fs m useExists cwd s = recheckRefuses fs n useExists cwd s :=
  fuel_linkTest_mono hm h

/-! ## adequacy of everything built on the walkers -/

theorem fuel_kstat_adequate {fs : Fs} {L : List (List Str × Str)} (hL : FuelLinks fs L) {fuel : Nat} {parts : List Str}
    (h : fuelBound L parts ≤ fuel) : kstat fs fuel parts ≠ .fuel :=
  fuel_kWalk_adequate hL h []

theorem fuel_pyExists_adequate {fs : Fs} {L : List (List Str × Str)} (hL : FuelLinks fs L) {fuel : Nat} {parts : List Str}
    (h : fuelBound L parts ≤ fuel) : pyExists fs fuel parts ≠ .error .fuel := by
  have hk := fuel_kstat_adequate hL h
  unfold pyExists
  split
  · simp
  · generalize kstat fs fuel parts = r at hk ⊢
    cases r <;> simp at hk ⊢

theorem fuel_pyIsSymlink_adequate {fs : Fs} {L : List (List Str × Str)} (hL : FuelLinks fs L) {fuel : Nat} {parts : List Str}
    (h : fuelBound L parts ≤ fuel) : pyIsSymlink fs fuel parts ≠ .error .fuel := by
  have hk := fuel_kstat_adequate hL h
  have hk2 : kstat fs fuel parts.dropLast ≠ .fuel := by
    refine fuel_kstat_adequate hL ?_
    simp only [fuelBound, List.length_dropLast] at h ⊢
    omega
  unfold pyIsSymlink
  split
  · simp
  · split
    · simp
    · split
      · generalize kstat fs fuel parts = r at hk ⊢
        cases r <;> simp at hk ⊢
      · generalize kstat fs fuel parts.dropLast = r at hk2 ⊢
        cases r with
        | ok d =>
          simp only
          split
          · split
            · simp
            · split <;> simp
          · simp
        | enoent => simp
        | eloop => simp
        | toolong => simp
        | fuel => exact absurd rfl hk2

theorem fuel_statProbe_adequate {fs : Fs} {L : List (List Str × Str)} (hL : FuelLinks fs L) {fuel : Nat} {p : List Str}
    (h : fuelBound L p ≤ fuel) : statProbe fs fuel p ≠ .error .fuel := by
  have hk := fuel_kstat_adequate hL h
  unfold statProbe
  split
  · simp
  · generalize kstat fs fuel p = r at hk ⊢
    cases r <;> simp at hk ⊢

theorem fuel_linkTest_adequate {fs : Fs} {L : List (List Str × Str)} (hL : FuelLinks fs L) {fuel : Nat} {cur : List Str}
    (h : fuelBound L cur ≤ fuel) (useExists : Bool) : linkTest fs fuel useExists cur ≠ .error .fuel := by
  have h1 := fuel_pyExists_adequate hL h
  have h2 := fuel_pyIsSymlink_adequate hL h
  unfold linkTest
  split
  · generalize pyExists fs fuel cur = r at h1 ⊢
    match r with
    | .error e => simpa using h1
    | .ok false => simp
    | .ok true => exact h2
  · exact h2

/-- fuel for `Path.resolve()`: the walk, then the `stat` probe on its answer (whose length is bounded by
`fuel_rpWalk_done_len` / `fuel_rpWalk_loop_len`) -/
def fuelBoundR (L : List (List Str × Str)) (parts : List Str) : Nat :=
  fuelDepth L + parts.length + 2 * fuelUnseen L [] + 1

theorem fuelBound_le_fuelBoundR (L : List (List Str × Str)) (parts : List Str) : fuelBound L parts ≤ fuelBoundR L parts := by
  simp only [fuelBound, fuelBoundR]; omega

theorem fuel_pyResolve_adequate {fs : Fs} {L : List (List Str × Str)} (hL : FuelLinks fs L) {fuel : Nat} {parts : List Str}
    (h : fuelBoundR L parts ≤ fuel) : pyResolve fs fuel parts ≠ .error .fuel := by
  have hr : rpWalk fs fuel [] parts [] ≠ .fuel :=
    fuel_rpWalk_adequate hL (Nat.le_trans (fuelBound_le_fuelBoundR L parts) h) []
  unfold pyResolve
  cases hw : rpWalk fs fuel [] parts [] with
  | done p =>
    simp only
    have hlen := fuel_rpWalk_done_len fs L hL _ _ _ _ _ hw
    refine fuel_statProbe_adequate hL ?_
    simp only [fuelBound, fuelBoundR, List.length_nil] at h hlen ⊢
    omega
  | loop np rest =>
    simp only
    have hlen := fuel_rpWalk_loop_len fs L hL _ _ _ _ _ _ hw
    have hn := fuel_normLex_len (np ++ rest)
    refine fuel_statProbe_adequate hL ?_
    simp only [fuelBound, fuelBoundR, List.length_append] at h hlen hn ⊢
    omega
  | nul => simp
  | fuel => exact absurd hw hr

/-- what `Path.resolve()` returns is at most `depth + weight + |parts|` components long -/
theorem fuel_pyResolve_len {fs : Fs} {L : List (List Str × Str)} (hL : FuelLinks fs L) {fuel : Nat} {parts p : List Str}
    (h : pyResolve fs fuel parts = .ok p) : p.length ≤ fuelDepth L + fuelUnseen L [] + parts.length := by
  unfold pyResolve at h
  cases hw : rpWalk fs fuel [] parts [] with
  | done q =>
    simp only [hw] at h
    have hlen := fuel_rpWalk_done_len fs L hL _ _ _ _ _ hw
    unfold statProbe at h
    split at h
    · simp at h
    · split at h <;> simp at h
      all_goals (subst h; simp only [List.length_nil] at hlen; omega)
  | loop np rest =>
    simp only [hw] at h
    have hlen := fuel_rpWalk_loop_len fs L hL _ _ _ _ _ _ hw
    have hn := fuel_normLex_len (np ++ rest)
    unfold statProbe at h
    split at h
    · simp at h
    · split at h <;> simp at h
      all_goals (subst h; simp only [List.length_append] at hn; omega)
  | nul => simp [hw] at h
  | fuel => simp [hw] at h

theorem fuel_walkPrefixes_adequate {fs : Fs} {L : List (List Str × Str)} (hL : FuelLinks fs L) {fuel : Nat}
    (cfg : WalkCfg) (ex : Exempt) : ∀ (rest pre : List Str),
      fuelDepth L + (pre.length + rest.length) + 2 * fuelUnseen L [] + 1 ≤ fuel →
      walkPrefixes fs fuel cfg ex pre rest ≠ .error .fuel := by
  intro rest
  induction rest with
  | nil => intro pre _; simp [walkPrefixes]
  | cons part rest ih =>
    intro pre h
    simp only [List.length_cons] at h
    have hcur : fuelBoundR L (pre ++ [part]) ≤ fuel := by
      simp only [fuelBoundR, List.length_append, List.length_cons, List.length_nil]; omega
    have hl := fuel_linkTest_adequate hL (Nat.le_trans (fuelBound_le_fuelBoundR L _) hcur) cfg.useExists
    have hr := fuel_pyResolve_adequate hL hcur
    have hrec := ih (pre ++ [part]) (by simp only [List.length_append, List.length_cons, List.length_nil]; omega)
    simp only [walkPrefixes]
    generalize linkTest fs fuel cfg.useExists (pre ++ [part]) = r at hl ⊢
    match r with
    | .error e => simpa using hl
    | .ok false => exact hrec
    | .ok true =>
      simp only
      generalize pyResolve fs fuel (pre ++ [part]) = r2 at hr ⊢
      match r2 with
      | .error e => simpa using hr
      | .ok rt =>
        simp only
        split
        · exact hrec
        · simp

theorem fuel_symlinkStage_adequate {fs : Fs} {L : List (List Str × Str)} (hL : FuelLinks fs L) {fuel : Nat}
    (cfg : WalkCfg) (ex : Exempt) (cwd : List Str) (s : Str)
    (h : fuelBoundR L (pyAbsolute cwd (parsePath s)).2 ≤ fuel) : symlinkStage fs fuel cfg ex cwd s ≠ .error .fuel := by
  have hr := fuel_pyResolve_adequate hL h
  have hw := fuel_walkPrefixes_adequate hL (fuel := fuel) cfg ex (pyAbsolute cwd (parsePath s)).2 []
    (by simp only [fuelBoundR, List.length_nil] at h ⊢; omega)
  unfold symlinkStage
  simp only
  generalize pyResolve fs fuel (pyAbsolute cwd (parsePath s)).2 = r at hr ⊢
  match r with
  | .error e => simpa using hr
  | .ok resolved =>
    simp only
    split
    · exact hw
    · simp

theorem fuel_validatePath_adequate {fs : Fs} {L : List (List Str × Str)} (hL : FuelLinks fs L) {fuel : Nat}
    (cfg : WalkCfg) (ex : Exempt) (allowed : List Str) (cwd : List Str) (s : Str)
    (h : fuelBoundR L (pyAbsolute cwd (parsePath s)).2 ≤ fuel) :
    ∀ order : List Stage, validatePath fs fuel cfg ex allowed cwd s order ≠ .error .fuel := by
  intro order
  induction order with
  | nil => simp [validatePath]
  | cons st rest ih =>
    simp only [validatePath]
    have hs : runStage fs fuel cfg ex allowed cwd s st ≠ .error .fuel := by
      cases st with
      | dotdot => simp only [runStage, dotdotStage]; split <;> simp
      | ext => simp only [runStage, extStage]; split <;> simp
      | symlink => exact fuel_symlinkStage_adequate hL cfg ex cwd s h
    generalize runStage fs fuel cfg ex allowed cwd s st = r at hs ⊢
    match r with
    | .error e => simpa using hs
    | .ok () => exact ih

theorem fuel_recheckRefuses_adequate {fs : Fs} {L : List (List Str × Str)} (hL : FuelLinks fs L) {fuel : Nat}
    (useExists : Bool) (cwd : List Str) (s : Str) (h : fuelBound L (pyAbsolute cwd (parsePath s)).2 ≤ fuel) :
    recheckRefuses fs fuel useExists cwd s ≠ .error .fuel :=
  fuel_linkTest_adequate hL h useExists

/-! ## the finite tables of the driver (`Fs.ofList`) -/

/-- the links of a finite table -/
def fuelLinksOf : List (List Str × Node) → List (List Str × Str)
  | [] => []
  | (p, .link t) :: l => (p, t) :: fuelLinksOf l
  | _ :: l => fuelLinksOf l

theorem fuelLinksOf_mem {l : List (List Str × Node)} {p : List Str} {t : Str} (h : (p, Node.link t) ∈ l) :
    (p, t) ∈ fuelLinksOf l := by
  induction l with
  | nil => simp at h
  | cons e l ih =>
    obtain ⟨q, nd⟩ := e
    rcases List.mem_cons.mp h with h0 | h0
    · simp only [Prod.mk.injEq] at h0
      obtain ⟨h1, h2⟩ := h0
      subst h1; subst h2
      simp [fuelLinksOf]
    · cases nd with
      | link t' => simp only [fuelLinksOf]; exact List.mem_cons_of_mem _ (ih h0)
      | file c => simp only [fuelLinksOf]; exact ih h0
      | dir => simp only [fuelLinksOf]; exact ih h0

theorem fuelLinks_ofList (l : List (List Str × Node)) : FuelLinks (Fs.ofList l) (fuelLinksOf l) := by
  intro p t h
  unfold Fs.get at h
  split at h
  · simp at h
  · simp only [Fs.ofList] at h
    cases hf : l.find? (fun e => e.1 == p) with
    | none => simp [hf] at h
    | some e =>
      have hmem : e ∈ l := List.mem_of_find?_eq_some hf
      have heq : e.1 = p := by simpa using List.find?_some hf
      simp only [hf, Option.map_some, Option.some.injEq] at h
      obtain ⟨q, nd⟩ := e
      simp only at h heq
      subst h; subst heq
      exact fuelLinksOf_mem hmem

/-! ## `validate_source_uri` -/

theorem fuel_resolveU_mono {fs : Fs} {n m : Nat} {parts : List Str} (hm : n ≤ m)
    (h : resolveU fs n parts ≠ .error .fuel) : resolveU fs m parts = resolveU fs n parts := by
  unfold resolveU at h ⊢
  have hr : rpWalk fs n [] parts [] ≠ .fuel := by intro hc; rw [hc] at h; exact h rfl
  rw [fuel_rpWalk_mono fs n [] parts [] m hm hr]
  generalize rpWalk fs n [] parts [] = r at h ⊢
  match r with
  | .done p =>
    simp only at h ⊢
    by_cases h1 : p.any hasNul = true
    · simp only [if_pos h1]
    · simp only [if_neg h1] at h ⊢
      have hk : kstat fs n p ≠ .fuel := by intro hc; rw [hc] at h; exact h rfl
      rw [fuel_kstat_mono hm hk]
  | .loop np rest =>
    simp only at h ⊢
    by_cases h1 : (normLex (np ++ rest)).any hasNul = true
    · simp only [if_pos h1]
    · simp only [if_neg h1] at h ⊢
      have hk : kstat fs n (normLex (np ++ rest)) ≠ .fuel := by intro hc; rw [hc] at h; exact h rfl
      rw [fuel_kstat_mono hm hk]
  | .nul => rfl
  | .fuel => rfl

theorem fuel_resolveU_adequate {fs : Fs} {L : List (List Str × Str)} (hL : FuelLinks fs L) {fuel : Nat} {parts : List Str}
    (h : fuelBoundR L parts ≤ fuel) : resolveU fs fuel parts ≠ .error .fuel := by
  have hr : rpWalk fs fuel [] parts [] ≠ .fuel :=
    fuel_rpWalk_adequate hL (Nat.le_trans (fuelBound_le_fuelBoundR L parts) h) []
  unfold resolveU
  cases hw : rpWalk fs fuel [] parts [] with
  | done p =>
    simp only
    have hlen := fuel_rpWalk_done_len fs L hL _ _ _ _ _ hw
    have hk : kstat fs fuel p ≠ .fuel := by
      refine fuel_kstat_adequate hL ?_
      simp only [fuelBound, fuelBoundR, List.length_nil] at h hlen ⊢
      omega
    split
    · simp
    · generalize kstat fs fuel p = r at hk ⊢
      cases r <;> simp at hk ⊢
  | loop np rest =>
    simp only
    have hlen := fuel_rpWalk_loop_len fs L hL _ _ _ _ _ _ hw
    have hn := fuel_normLex_len (np ++ rest)
    have hk : kstat fs fuel (normLex (np ++ rest)) ≠ .fuel := by
      refine fuel_kstat_adequate hL ?_
      simp only [fuelBound, fuelBoundR, List.length_append] at h hlen hn ⊢
      omega
    split
    · simp
    · generalize kstat fs fuel (normLex (np ++ rest)) = r at hk ⊢
      cases r <;> simp at hk ⊢
  | nul => simp
  | fuel => exact absurd hw hr

theorem fuel_resolveU_len {fs : Fs} {L : List (List Str × Str)} (hL : FuelLinks fs L) {fuel : Nat} {parts p : List Str}
    (h : resolveU fs fuel parts = .ok p) : p.length ≤ fuelDepth L + fuelUnseen L [] + parts.length := by
  unfold resolveU at h
  cases hw : rpWalk fs fuel [] parts [] with
  | done q =>
    simp only [hw] at h
    have hlen := fuel_rpWalk_done_len fs L hL _ _ _ _ _ hw
    split at h
    · simp at h
    · split at h <;> simp at h
      all_goals (subst h; simp only [List.length_nil] at hlen; omega)
  | loop np rest =>
    simp only [hw] at h
    have hlen := fuel_rpWalk_loop_len fs L hL _ _ _ _ _ _ hw
    have hn := fuel_normLex_len (np ++ rest)
    split at h
    · simp at h
    · split at h <;> simp at h
      all_goals (subst h; simp only [List.length_append] at hn; omega)
  | nul => simp [hw] at h
  | fuel => simp [hw] at h

theorem fuel_validateSourceUri_mono {fs : Fs} {n m : Nat} {fixpoint : Bool} {base : List Str} {u : Str} (hm : n ≤ m)
    (h : validateSourceUri fs n fixpoint base u ≠ .error .fuel) :
    validateSourceUri fs m fixpoint base u = validateSourceUri fs n fixpoint base u := by
  unfold validateSourceUri at h ⊢
  have h1 : resolveU fs n base ≠ .error .fuel := by intro hc; rw [hc] at h; exact h (by simp)
  rw [fuel_resolveU_mono hm h1]
  generalize resolveU fs n base = r at h ⊢
  match r with
  | .error e => rfl
  | .ok b =>
    simp only at h ⊢
    split
    · rfl
    · rename_i hab
      rw [if_neg hab] at h
      have h2 : resolveU fs n (b ++ (parsePath u).tail) ≠ .error .fuel := by intro hc; rw [hc] at h; exact h rfl
      rw [fuel_resolveU_mono hm h2]
      generalize resolveU fs n (b ++ (parsePath u).tail) = r2 at h ⊢
      match r2 with
      | .error e => rfl
      | .ok q =>
        simp only at h ⊢
        cases fixpoint with
        | false => rfl
        | true =>
          simp only [if_true] at h ⊢
          have h3 : resolveU fs n q ≠ .error .fuel := by intro hc; rw [hc] at h; exact h rfl
          rw [fuel_resolveU_mono hm h3]

/-- fuel for `validate_source_uri(u, base)`: three resolutions, each of the answer of the one before -/
def fuelBoundU (L : List (List Str × Str)) (base : List Str) (u : Str) : Nat :=
  fuelDepth L + (2 * (fuelDepth L + fuelUnseen L []) + base.length + (parsePath u).tail.length) + 2 * fuelUnseen L [] + 1

theorem fuel_validateSourceUri_adequate {fs : Fs} {L : List (List Str × Str)} (hL : FuelLinks fs L) {fuel : Nat}
    (fixpoint : Bool) (base : List Str) (u : Str) (h : fuelBoundU L base u ≤ fuel) :
    validateSourceUri fs fuel fixpoint base u ≠ .error .fuel := by
  have h1 : resolveU fs fuel base ≠ .error .fuel := by
    refine fuel_resolveU_adequate hL ?_
    simp only [fuelBoundU, fuelBoundR] at h ⊢; omega
  unfold validateSourceUri
  cases hb : resolveU fs fuel base with
  | error e =>
    simp only
    rw [hb] at h1
    cases e <;> simp at h1 ⊢
  | ok b =>
    simp only
    have hbl := fuel_resolveU_len hL hb
    split
    · simp
    · have h2 : resolveU fs fuel (b ++ (parsePath u).tail) ≠ .error .fuel := by
        refine fuel_resolveU_adequate hL ?_
        simp only [fuelBoundU, fuelBoundR, List.length_append] at h ⊢; omega
      cases hq : resolveU fs fuel (b ++ (parsePath u).tail) with
      | error e => simpa [hq] using h2
      | ok q =>
        simp only
        have hql := fuel_resolveU_len hL hq
        simp only [List.length_append] at hql
        have h3 : resolveU fs fuel q ≠ .error .fuel := by
          refine fuel_resolveU_adequate hL ?_
          simp only [fuelBoundU, fuelBoundR] at h ⊢; omega
        split
        · cases hq' : resolveU fs fuel q with
          | error e => simpa [hq'] using h3
          | ok r' =>
            simp only
            split
            · simp
            · split <;> simp
        · split <;> simp

/-! ## schema loading and `frozen@sha256` references -/

theorem fuel_existsB_mono {fs : Fs} {n m : Nat} {parts : List Str} (hm : n ≤ m)
    (h : existsB fs n parts ≠ .error .fuel) : existsB fs m parts = existsB fs n parts := by
  unfold existsB at h ⊢
  have he : pyExists fs n parts ≠ .error .fuel := by intro hc; rw [hc] at h; exact h rfl
  rw [fuel_pyExists_mono hm he]

theorem fuel_existsB_adequate {fs : Fs} {L : List (List Str × Str)} (hL : FuelLinks fs L) {fuel : Nat} {parts : List Str}
    (h : fuelBound L parts ≤ fuel) : existsB fs fuel parts ≠ .error .fuel := by
  have he := fuel_pyExists_adequate hL h
  unfold existsB
  generalize pyExists fs fuel parts = r at he ⊢
  match r with
  | .ok b => simp
  | .error e => cases e <;> simp at he ⊢

theorem fuel_readFile_mono {fs : Fs} {n m : Nat} {parts : List Str} (hm : n ≤ m)
    (h : kstat fs n parts ≠ .fuel) : readFile fs m parts = readFile fs n parts := by
  unfold readFile
  rw [fuel_kstat_mono hm h]

theorem fuel_existsB_true {fs : Fs} {n : Nat} {parts : List Str} (h : existsB fs n parts = .ok true) :
    kstat fs n parts ≠ .fuel := by
  unfold existsB at h
  cases he : pyExists fs n parts with
  | ok b =>
    simp only [he, Except.ok.injEq] at h
    subst h
    obtain ⟨c, hc⟩ := pyExists_true he
    rw [hc]; simp
  | error e => cases e <;> simp [he] at h

theorem fuel_resolveStandard_mono (H : Str → Str) {fs : Fs} {n m : Nat} {cache : List Str} {pfxLen : Nat} {ref : Str}
    (hm : n ≤ m) (h : resolveStandard H fs n cache pfxLen ref ≠ .error .fuel) :
    resolveStandard H fs m cache pfxLen ref = resolveStandard H fs n cache pfxLen ref := by
  unfold resolveStandard at h ⊢
  by_cases h1 : ref = "latest".toList
  · simp only [if_pos h1] at h ⊢
    have he : existsB fs n (cache ++ ["default.oct.md".toList]) ≠ .error .fuel := by
      intro hc; rw [hc] at h; exact h rfl
    rw [fuel_existsB_mono hm he]
  · simp only [if_neg h1] at h ⊢
    by_cases h2 : frozenPrefix.isPrefixOf ref = true
    · simp only [if_pos h2] at h ⊢
      cases hp : parseFrozen ref with
      | none => rfl
      | some hx =>
        simp only [hp] at h ⊢
        have he : existsB fs n (joinPath cache ((hx.map Char.toLower).take pfxLen ++ octMd)) ≠ .error .fuel := by
          intro hc; rw [hc] at h; exact h rfl
        rw [fuel_existsB_mono hm he]
        cases hb : existsB fs n (joinPath cache ((hx.map Char.toLower).take pfxLen ++ octMd)) with
        | error e => rfl
        | ok b =>
          cases b with
          | false => rfl
          | true =>
            simp only
            rw [fuel_readFile_mono hm (fuel_existsB_true hb)]
    · simp only [if_neg h2]

/-- both files `resolve_hermetic_standard` can probe are direct children of the cache directory -/
theorem fuel_resolveStandard_adequate (H : Str → Str) {fs : Fs} {L : List (List Str × Str)} (hL : FuelLinks fs L) {fuel : Nat}
    (cache : List Str) (pfxLen : Nat) (ref : Str) (h : cache.length + 2 + fuelUnseen L [] ≤ fuel) :
    resolveStandard H fs fuel cache pfxLen ref ≠ .error .fuel := by
  have key : ∀ q : List Str, q.length = cache.length + 1 → existsB fs fuel q ≠ .error .fuel := by
    intro q hq
    exact fuel_existsB_adequate hL (by simp only [fuelBound, hq]; omega)
  unfold resolveStandard
  split
  · simp only
    split
    · rename_i e heq
      intro hc
      simp only [Except.error.injEq] at hc
      subst hc
      exact key _ (by simp) heq
    · simp
    · simp
  · split
    · rename_i hpre
      cases hp : parseFrozen ref with
      | none => simp
      | some hx =>
        simp only
        have hall : hx.all isHexChar = true := by
          unfold parseFrozen at hp
          simp only [hpre, if_true] at hp
          split at hp
          · rename_i hc; simp at hp; subst hp; exact hc.2
          · simp at hp
        have hnoslash : '/' ∉ (hx.map Char.toLower).take pfxLen := by
          intro hmm
          have hm' := List.mem_of_mem_take hmm
          obtain ⟨c, hc, hcl⟩ := List.mem_map.mp hm'
          exact toLower_ne_slash c (isHexChar_ne_slash (List.all_eq_true.mp hall c hc)) hcl
        rw [(name_octMd_single cache _ hnoslash).1]
        have he : existsB fs fuel (cache ++ [(hx.map Char.toLower).take pfxLen ++ octMd]) ≠ .error .fuel :=
          fuel_existsB_adequate hL (by simp only [fuelBound, List.length_append, List.length_cons, List.length_nil]; omega)
        generalize existsB fs fuel (cache ++ [(hx.map Char.toLower).take pfxLen ++ octMd]) = r at he ⊢
        match r with
        | .error e => simpa using he
        | .ok false => simp
        | .ok true =>
          simp only
          split
          · simp
          · split <;> simp
    · simp

theorem fuel_schemaProbe_go_mono {fs : Fs} {n m : Nat} (hm : n ≤ m) : ∀ (qs acc : List (List Str)),
    (∀ q ∈ qs, pyExists fs n q ≠ .error .fuel) → schemaProbe.go fs m qs acc = schemaProbe.go fs n qs acc := by
  intro qs
  induction qs with
  | nil => intro acc _; simp [schemaProbe.go]
  | cons q qs ih =>
    intro acc h
    simp only [schemaProbe.go]
    rw [fuel_pyExists_mono hm (h q (List.mem_cons_self ..))]
    cases pyExists fs n q with
    | error e => rfl
    | ok b =>
      cases b with
      | true => rfl
      | false => exact ih _ (fun q' hq' => h q' (List.mem_cons_of_mem _ hq'))

/-! ## why a finite table of links is needed

A file system (a function!) with a link `x -> d/x` in every directory `d/d/…/d`: resolving `/x` meets infinitely many
DISTINCT links (no cycle, so neither `realpath`'s `seen` set nor the cycle test of the kernel walk ever fires), and both
walkers are out of fuel at every fuel. -/

def fuelD : Str := ['d']
def fuelX : Str := ['x']
def fuelT : Str := ['d', '/', 'x']

/-- directories `d^n`, links `d^n/x -> d/x` -/
def fuelInfFs : Fs :=
  ⟨fun p => match p.getLast? with
    | none => none
    | some c =>
      if c = fuelX ∧ p.dropLast.all (· == fuelD) then some (.link fuelT)
      else if p.all (· == fuelD) then some .dir else none⟩

theorem fuelInf_dir (n : Nat) : fuelInfFs.get (replicate n fuelD) = some .dir := by
  cases n with
  | zero => simp [Fs.get]
  | succ n =>
    have hne : replicate (n + 1) fuelD ≠ [] := by simp
    have hl : (replicate (n + 1) fuelD).getLast? = some fuelD := by
      rw [List.replicate_succ']; simp
    have hdx : ¬ fuelD = fuelX := by decide
    simp only [Fs.get, if_neg hne, fuelInfFs, hl, hdx, false_and, if_false]
    have : (replicate (n + 1) fuelD).all (· == fuelD) = true := by
      simp
    simp only [this, if_true]

theorem fuelInf_link (n : Nat) : fuelInfFs.get (replicate n fuelD ++ [fuelX]) = some (.link fuelT) := by
  have hne : replicate n fuelD ++ [fuelX] ≠ [] := by simp
  have hl : (replicate n fuelD ++ [fuelX]).getLast? = some fuelX := by simp
  have hd : (replicate n fuelD ++ [fuelX]).dropLast = replicate n fuelD := by simp
  have : (replicate n fuelD).all (· == fuelD) = true := by simp
  simp only [Fs.get, if_neg hne, fuelInfFs, hl, hd, this, and_self, if_true]

theorem fuelInf_not_seen {n : Nat} {vis : List (List Str)} (h : ∀ v ∈ vis, v.length ≤ n) :
    ¬ vis.contains (replicate n fuelD ++ [fuelX]) = true := by
  intro hc
  have hm : (replicate n fuelD ++ [fuelX]) ∈ vis := by simpa using hc
  have := h _ hm
  simp at this
  omega

theorem fuelInf_kWalk : ∀ (f n : Nat) (vis : List (List Str)),
    ((∀ v ∈ vis, v.length ≤ n) → kWalk fuelInfFs f (replicate n fuelD) [fuelX] vis = .fuel) ∧
    ((∀ v ∈ vis, v.length ≤ n + 1) → kWalk fuelInfFs f (replicate n fuelD) [fuelD, fuelX] vis = .fuel) := by
  intro f
  induction f with
  | zero => intro n vis; simp [kWalk]
  | succ f ih =>
    intro n vis
    have hx1 : ¬ (fuelX = [] ∨ fuelX = dot) := by decide
    have hx2 : ¬ fuelX = dotdot := by decide
    have hx3 : ¬ utf8Len fuelX > nameMax := by decide
    have hd1 : ¬ (fuelD = [] ∨ fuelD = dot) := by decide
    have hd2 : ¬ fuelD = dotdot := by decide
    have hd3 : ¬ utf8Len fuelD > nameMax := by decide
    have hT1 : isAbsText fuelT = false := by decide
    have hT2 : splitSlash fuelT = [fuelD, fuelX] := by decide
    constructor
    · intro hv
      have hsub := (ih n ((replicate n fuelD ++ [fuelX]) :: vis)).2 (by
        intro v hvm
        rcases List.mem_cons.mp hvm with h | h
        · subst h; simp
        · have := hv v h; omega)
      simp only [kWalk, fuelInf_dir, fuelInf_link, if_neg hx1, if_neg hx2, if_neg hx3, if_neg (fuelInf_not_seen hv),
        hT1, hT2, Bool.false_eq_true, if_false, hsub]
    · intro hv
      have hsub := (ih (n + 1) vis).1 hv
      have hdd : fuelInfFs.get (replicate n fuelD ++ [fuelD]) = some .dir := by
        rw [← List.replicate_succ']; exact fuelInf_dir (n + 1)
      simp only [kWalk, fuelInf_dir, hdd, if_neg hd1, if_neg hd2, if_neg hd3]
      rw [← List.replicate_succ']; exact hsub

theorem fuelInf_rpWalk : ∀ (f n : Nat) (vis : List (List Str)),
    ((∀ v ∈ vis, v.length ≤ n) → rpWalk fuelInfFs f (replicate n fuelD) [fuelX] vis = .fuel) ∧
    ((∀ v ∈ vis, v.length ≤ n + 1) → rpWalk fuelInfFs f (replicate n fuelD) [fuelD, fuelX] vis = .fuel) := by
  intro f
  induction f with
  | zero => intro n vis; simp [rpWalk]
  | succ f ih =>
    intro n vis
    have hx1 : ¬ (fuelX = [] ∨ fuelX = dot) := by decide
    have hx2 : ¬ fuelX = dotdot := by decide
    have hx3 : ¬ utf8Len fuelX > nameMax := by decide
    have hx4 : ¬ hasNul fuelX = true := by decide
    have hd1 : ¬ (fuelD = [] ∨ fuelD = dot) := by decide
    have hd2 : ¬ fuelD = dotdot := by decide
    have hd3 : ¬ utf8Len fuelD > nameMax := by decide
    have hd4 : ¬ hasNul fuelD = true := by decide
    have hT1 : isAbsText fuelT = false := by decide
    have hT2 : splitSlash fuelT = [fuelD, fuelX] := by decide
    constructor
    · intro hv
      have hsub := (ih n ((replicate n fuelD ++ [fuelX]) :: vis)).2 (by
        intro v hvm
        rcases List.mem_cons.mp hvm with h | h
        · subst h; simp
        · have := hv v h; omega)
      have hls : lstatAt fuelInfFs (replicate n fuelD) fuelX = .node (.link fuelT) :=
        lstatAt_of (fuelInf_dir n) hx3 (fuelInf_link n)
      simp only [rpWalk, hls, if_neg hx1, if_neg hx2, if_neg hx4, if_neg (fuelInf_not_seen hv),
        hT1, hT2, Bool.false_eq_true, if_false, hsub]
    · intro hv
      have hsub := (ih (n + 1) vis).1 hv
      have hdd : fuelInfFs.get (replicate n fuelD ++ [fuelD]) = some .dir := by
        rw [← List.replicate_succ']; exact fuelInf_dir (n + 1)
      have hls : lstatAt fuelInfFs (replicate n fuelD) fuelD = .node .dir :=
        lstatAt_of (fuelInf_dir n) hd3 hdd
      simp only [rpWalk, hls, if_neg hd1, if_neg hd2, if_neg hd4]
      rw [← List.replicate_succ']; exact hsub

end Octave
